// Package wire: the universal value type exchanged with the extracted Coq model, and its text syntax.
package wire

import (
	"fmt"
	"math"
	"math/big"
	"strconv"
	"strings"
)

// Val is one of: Int, Str, Flt, Bool, List, Err, Nil, Panic, Timeout.
type Val interface{ enc(b *strings.Builder) }

type Int struct{ V *big.Int }
type Str string
type Flt float64
type Bool bool
type List []Val
type Err struct{ V Val } // non-nil error together with the result value
type Nil struct{}
type Panic struct{ Msg string }
type Timeout struct{}

func I(v int64) Val   { return Int{big.NewInt(v)} }
func S(s string) Val  { return Str(s) }
func F(f float64) Val { return Flt(f) }
func B(b bool) Val    { return Bool(b) }
func L(vs ...Val) Val { return List(vs) }
func Strs(l []string) Val {
	if l == nil {
		return Nil{}
	}
	r := make(List, len(l))
	for i, s := range l {
		r[i] = Str(s)
	}
	return r
}
func Ints(l []int64) Val {
	if l == nil {
		return Nil{}
	}
	r := make(List, len(l))
	for i, s := range l {
		r[i] = I(s)
	}
	return r
}

// WithErr wraps a result: Err{v} when err != nil.
func WithErr(v Val, err error) Val {
	if err != nil {
		return Err{v}
	}
	return v
}

func Esc(s string) string {
	var b strings.Builder
	for i := 0; i < len(s); i++ {
		c := s[i]
		if c == '%' || c == '(' || c == ')' || c >= 0x7f || c <= 0x20 {
			fmt.Fprintf(&b, "%%%02X", c)
		} else {
			b.WriteByte(c)
		}
	}
	return b.String()
}
func Unesc(s string) string {
	var b strings.Builder
	for i := 0; i < len(s); i++ {
		if s[i] == '%' && i+2 < len(s) {
			n, _ := strconv.ParseUint(s[i+1:i+3], 16, 8)
			b.WriteByte(byte(n))
			i += 2
		} else {
			b.WriteByte(s[i])
		}
	}
	return b.String()
}

func (v Int) enc(b *strings.Builder)  { b.WriteByte('i'); b.WriteString(v.V.String()) }
func (v Str) enc(b *strings.Builder)  { b.WriteByte('s'); b.WriteString(Esc(string(v))) }
func (v Flt) enc(b *strings.Builder)  { fmt.Fprintf(b, "f%016x", math.Float64bits(float64(v))) }
func (v Bool) enc(b *strings.Builder) {
	if v {
		b.WriteString("b1")
	} else {
		b.WriteString("b0")
	}
}
func (v List) enc(b *strings.Builder) {
	b.WriteByte('(')
	for _, x := range v {
		b.WriteByte(' ')
		x.enc(b)
	}
	b.WriteString(" )")
}
func (v Err) enc(b *strings.Builder)     { b.WriteString("E "); v.V.enc(b) }
func (v Nil) enc(b *strings.Builder)     { b.WriteByte('N') }
func (v Panic) enc(b *strings.Builder)   { b.WriteByte('P') }
func (v Timeout) enc(b *strings.Builder) { b.WriteByte('T') }

func Show(v Val) string {
	var b strings.Builder
	v.enc(&b)
	return b.String()
}

// Parse parses one value from tokens, returning the rest.
func Parse(toks []string) (Val, []string, error) {
	if len(toks) == 0 {
		return nil, nil, fmt.Errorf("eof")
	}
	t := toks[0]
	r := toks[1:]
	switch {
	case t == "(":
		var l List = List{}
		for {
			if len(r) == 0 {
				return nil, nil, fmt.Errorf("unterminated list")
			}
			if r[0] == ")" {
				return l, r[1:], nil
			}
			v, r2, err := Parse(r)
			if err != nil {
				return nil, nil, err
			}
			l = append(l, v)
			r = r2
		}
	case t == "E":
		v, r2, err := Parse(r)
		if err != nil {
			return nil, nil, err
		}
		return Err{v}, r2, nil
	case t == "N":
		return Nil{}, r, nil
	case t == "P":
		return Panic{}, r, nil
	case t == "T":
		return Timeout{}, r, nil
	case t == "":
		return nil, nil, fmt.Errorf("empty token")
	}
	body := t[1:]
	switch t[0] {
	case 'i':
		n, ok := new(big.Int).SetString(body, 10)
		if !ok {
			return nil, nil, fmt.Errorf("bad int %q", body)
		}
		return Int{n}, r, nil
	case 's':
		return Str(Unesc(body)), r, nil
	case 'f':
		u, err := strconv.ParseUint(body, 16, 64)
		if err != nil {
			return nil, nil, err
		}
		return Flt(math.Float64frombits(u)), r, nil
	case 'b':
		return Bool(body == "1"), r, nil
	}
	return nil, nil, fmt.Errorf("bad token %q", t)
}

func ParseLine(s string) (Val, error) {
	v, _, err := Parse(strings.Split(s, " "))
	return v, err
}

// accessors used by invokers (panic on shape mismatch: a harness bug, not an implementation panic)
func AsInt(v Val) int64 {
	i := v.(Int)
	if !i.V.IsInt64() {
		panic("harness: int out of int64 range")
	}
	return i.V.Int64()
}
func AsStr(v Val) string    { return string(v.(Str)) }
func AsFlt(v Val) float64   { return float64(v.(Flt)) }
func AsBool(v Val) bool     { return bool(v.(Bool)) }
func AsList(v Val) []Val {
	if _, ok := v.(Nil); ok {
		return nil
	}
	return []Val(v.(List))
}
func AsStrs(v Val) []string {
	if _, ok := v.(Nil); ok {
		return nil
	}
	l := v.(List)
	r := make([]string, len(l))
	for i, x := range l {
		r[i] = AsStr(x)
	}
	return r
}
func AsInts(v Val) []int64 {
	if _, ok := v.(Nil); ok {
		return nil
	}
	l := v.(List)
	r := make([]int64, len(l))
	for i, x := range l {
		r[i] = AsInt(x)
	}
	return r
}
