// vtrans — translator from the side-effect-free int64 kernels of the Go library to Gallina over Z.
//
//	vtrans -repo <tree> -out <Generated.v> [-outf <GeneratedF.v>] [-out64 <Generated64.v>]
//
// The float64 kernels (float.go) go to the second file, module SIDGen.GeneratedF, on Coq primitive floats.
//
// It reads the Go source of <tree> (go/parser + go/ast only, no type checker, no build), and writes a Coq file
// (module SIDGen.Generated) with
//   - the constants of common/consts, the thresholds and zoom switches of shape/line.go, the latitude limit and
//     the 10^10 scale of Point.SetLat, the zoom bounds of quadkeyCheckZoom;
//   - one Gallina function per listed Go function: Go int64 = Z, `/`,`%` = Z.quot, Z.rem, `<<`,`>>` = Z.shiftl,
//     Z.shiftr, results = the Go result tuple with `error` as a bool flag.
//
// `if` and early `return` are translated by duplicating the continuation; assignments are shadowing lets.
// Anything outside the supported subset inside a listed function (or a function it calls) is reported on stderr
// (`vtrans: rejected: file=<output file> definitions=<Coq names>: <position>: function ..: unsupported construct: ..`),
// the definition is left out, everything else is written, and the exit status is 3 (1: nothing could be written).
// The output depends only on the content of the source files (no paths, no time stamps).
package main

import (
	"crypto/sha256"
	"flag"
	"fmt"
	"go/ast"
	"go/constant"
	"go/parser"
	"go/token"
	"math/big"
	"os"
	"path/filepath"
	"sort"
	"strconv"
	"strings"
)

// ---------------------------------------------------------------------------------------------------------------
// what is translated

type target struct {
	pkg    string // directory below the repository root
	recv   string // receiver type name for methods
	name   string // Go name
	out    string // Coq name
	prefix bool   // translate only the statements before the first `for`; the result is the loop's (first, last)
}

func (tg target) coqName() string {
	if tg.out != "" {
		return tg.out
	}
	if tg.recv != "" {
		return tg.recv + "_" + tg.name
	}
	return tg.name
}

var targets = []target{
	{pkg: "common", name: "CalculateArithmeticShift"},
	{pkg: "shape", name: "CheckZoom"},
	{pkg: "transform", name: "quadkeyCheckZoom"},
	{pkg: "transform", name: "extendedSpatialIDCheckZoom"},
	{pkg: "transform", name: "validateIndexExists"},
	{pkg: "transform", name: "convertZToMinAltitudekey"},
	{pkg: "transform", name: "ConvertZToMinMaxAltitudekey"},
	{pkg: "transform", name: "ConvertAltitudekeyToMinMaxZ"},
	{pkg: "integrate", name: "HorizontalZoomMinMax"},
	{pkg: "integrate", name: "VerticalZoom", out: "VerticalZoom_minmax", prefix: true},
	{pkg: "common/object", recv: "ExtendedSpatialID", name: "Higher", out: "ExtendedSpatialID_Higher"},
}

const (
	constsPkg      = "common/consts"
	errorsPkg      = "common/errors"
	lineFile       = "shape/line.go"
	linePkg        = "shape"
	lineFunc       = "GetExtendedSpatialIdsOnLine"
	coordPkg       = "common/object"
	setLatRecv     = "Point"
	setLatFunc     = "SetLat"
	quadkeyPkg     = "transform"
	quadkeyZoomFun = "quadkeyCheckZoom"
)

// ---------------------------------------------------------------------------------------------------------------
// failure: every unsupported construct ends here

type failure struct{ msg string }

var fset = token.NewFileSet()
var repoRoot string

func relpos(p token.Pos) string {
	if !p.IsValid() {
		return "?"
	}
	pos := fset.Position(p)
	rel, err := filepath.Rel(repoRoot, pos.Filename)
	if err != nil {
		rel = pos.Filename
	}
	return fmt.Sprintf("%s:%d", filepath.ToSlash(rel), pos.Line)
}

func failf(format string, a ...interface{}) {
	panic(failure{fmt.Sprintf(format, a...)})
}

// ---------------------------------------------------------------------------------------------------------------
// source packages

type pkgInfo struct {
	dir    string
	files  []*ast.File
	names  []string                   // file names relative to the root, same order as files
	funcs  map[string][]*ast.FuncDecl // key: "Name" or "Recv.Name"
	fileOf map[*ast.FuncDecl]int
	consts map[string]*constDecl
	types  map[string]*ast.TypeSpec
	vars   map[string]*constDecl // package-level variables with an initialiser (float mode: usable when never assigned)
}

type constDecl struct {
	name  string
	expr  ast.Expr
	typ   ast.Expr
	file  int
	iota_ bool
}

type translator struct {
	module string
	pkgs   map[string]*pkgInfo
	used   map[string]bool // relative file names something was taken from

	consts     []string          // emitted constant definitions, in order
	constType  map[string]typ    // Coq name -> type, for constants usable inside functions
	constGo    map[string]string // "pkg.Name" -> Coq name
	globals    map[string]string // Coq name -> origin (collision check)
	funcs      []string          // emitted function definitions, in dependency order
	sigs       map[string]*sig   // key pkg|recv|name
	inProgress map[string]bool
	hints      []string

	rejected []rejection // definitions that could not be produced (the rest is written)
	m64      bool        // int64 mode (int64.go): every operation goes through the wrapping vocabulary of I64.v
	sv       bool        // struct-value mode (spatial.go): a struct is one value (a tuple), methods and functions of dependencies are translated on demand
	sinkFile string      // name of the output file this translator's definitions go to (for the rejection lines)

	// float file (float.go)
	fused    map[string]bool
	fglobals map[string]string
	ffuncs   []string
	fsigs    map[string]*sig
	fhints   []string
}

// one unit of output (a definition or a group of constants) the source was rejected for
type rejection struct {
	file string // Generated.v or GeneratedF.v
	defs string // the Coq names that are missing from that file, comma separated (a trailing * = every name with this prefix)
	msg  string
}

const (
	intFile   = "Generated.v"
	floatFile = "GeneratedF.v"
)

// run one unit; a rejection of the source inside it is recorded and the unit's definitions are left out
func (t *translator) try(file, defs string, f func()) {
	defer func() {
		if r := recover(); r != nil {
			if fl, ok := r.(failure); ok {
				t.rejected = append(t.rejected, rejection{file, defs, fl.msg})
				return
			}
			panic(r)
		}
	}()
	f()
}

func (t *translator) rejectedNote(file string) string {
	var b strings.Builder
	for _, r := range t.rejected {
		if r.file == file {
			fmt.Fprintf(&b, "(* NOT PRODUCED: %s — the translator rejected the source: %s *)\n", r.defs, strings.ReplaceAll(r.msg, "*)", "* )"))
		}
	}
	if b.Len() > 0 {
		b.WriteString("\n")
	}
	return b.String()
}

func recvTypeName(fd *ast.FuncDecl) string {
	if fd.Recv == nil || len(fd.Recv.List) == 0 {
		return ""
	}
	t := fd.Recv.List[0].Type
	if s, ok := t.(*ast.StarExpr); ok {
		t = s.X
	}
	if id, ok := t.(*ast.Ident); ok {
		return id.Name
	}
	return "?"
}

func (t *translator) load(dir string) *pkgInfo {
	if p, ok := t.pkgs[dir]; ok {
		return p
	}
	abs := filepath.Join(repoRoot, filepath.FromSlash(dir))
	shown := dir // the prefix of the file names in the headers
	if strings.HasPrefix(dir, "\x00") {
		// a package of a dependency: its source in the module cache, at the version go.mod requires
		abs, shown = externalDir(strings.TrimPrefix(dir, "\x00"))
	}
	ents, err := os.ReadDir(abs)
	if err != nil {
		failf("package %s: cannot read directory: %v", strings.TrimPrefix(dir, "\x00"), err)
	}
	p := &pkgInfo{dir: dir, funcs: map[string][]*ast.FuncDecl{}, fileOf: map[*ast.FuncDecl]int{}, consts: map[string]*constDecl{}, types: map[string]*ast.TypeSpec{}, vars: map[string]*constDecl{}}
	var fns []string
	for _, e := range ents {
		n := e.Name()
		if e.IsDir() || !strings.HasSuffix(n, ".go") || strings.HasSuffix(n, "_test.go") {
			continue
		}
		fns = append(fns, n)
	}
	sort.Strings(fns)
	for _, n := range fns {
		f, err := parser.ParseFile(fset, filepath.Join(abs, n), nil, parser.ParseComments)
		if err != nil {
			failf("package %s: %s does not parse: %v", dir, n, err)
		}
		if hasBuildConstraint(f) {
			// build-tagged files (the add-only `//go:build verif` forwarding hooks) are not part of the default build
			continue
		}
		idx := len(p.files)
		p.files = append(p.files, f)
		p.names = append(p.names, shown+"/"+n)
		absOf[shown+"/"+n] = filepath.Join(abs, n)
		for _, d := range f.Decls {
			switch x := d.(type) {
			case *ast.FuncDecl:
				key := x.Name.Name
				if r := recvTypeName(x); r != "" {
					key = r + "." + key
				}
				p.funcs[key] = append(p.funcs[key], x)
				p.fileOf[x] = idx
			case *ast.GenDecl:
				switch x.Tok {
				case token.CONST:
					var lastT ast.Expr
					var lastV []ast.Expr
					for _, s := range x.Specs {
						vs := s.(*ast.ValueSpec)
						implicit := len(vs.Values) == 0
						if !implicit {
							lastT, lastV = vs.Type, vs.Values
						}
						for i, nm := range vs.Names {
							cd := &constDecl{name: nm.Name, typ: lastT, file: idx, iota_: implicit}
							if i < len(lastV) {
								cd.expr = lastV[i]
							}
							p.consts[nm.Name] = cd
						}
					}
				case token.TYPE:
					for _, s := range x.Specs {
						ts := s.(*ast.TypeSpec)
						p.types[ts.Name.Name] = ts
					}
				case token.VAR:
					for _, s := range x.Specs {
						vs := s.(*ast.ValueSpec)
						for i, nm := range vs.Names {
							if len(vs.Values) == len(vs.Names) {
								p.vars[nm.Name] = &constDecl{name: nm.Name, typ: vs.Type, expr: vs.Values[i], file: idx}
							} else {
								p.vars[nm.Name] = &constDecl{name: nm.Name, typ: vs.Type, file: idx}
							}
						}
					}
				}
			}
		}
	}
	t.pkgs[dir] = p
	return p
}

func hasBuildConstraint(f *ast.File) bool {
	for _, cg := range f.Comments {
		if cg.Pos() >= f.Package {
			break
		}
		for _, c := range cg.List {
			if strings.HasPrefix(c.Text, "//go:build") || strings.HasPrefix(c.Text, "// +build") {
				return true
			}
		}
	}
	return false
}

// imports of one file: local name -> directory below the root ("" if the package is not part of the module)
func (t *translator) imports(f *ast.File) map[string]string {
	m := map[string]string{}
	for _, im := range f.Imports {
		path, _ := strconv.Unquote(im.Path.Value)
		name := path[strings.LastIndex(path, "/")+1:]
		if im.Name != nil {
			name = im.Name.Name
		}
		dir := "\x00" + path // not in the module
		if path == t.module {
			dir = "."
		} else if strings.HasPrefix(path, t.module+"/") {
			dir = strings.TrimPrefix(path, t.module+"/")
		}
		m[name] = dir
	}
	return m
}

// ---------------------------------------------------------------------------------------------------------------
// types of the subset

type kind int

const (
	kZ kind = iota
	kBool
	kErr    // Go `error`, translated to bool (true = non-nil)
	kStruct // struct whose fields are all int64; translated to a tuple in field order
	kOpaque // a value the translation ignores (empty slice the result loop appends to); any use is an error
	// float mode only (float.go)
	kF       // float64 = Coq primitive float
	kOptZ    // int64(f) of a float64 = F64.Ztrunc_f f : option Z; can be bound and returned, not computed with
	kUntyped // an untyped constant (never the type of a variable)
	kFInt    // integer translator: a float64 local holding an integer by construction (math.Abs(float64(e)), float64(e)); its code is that integer
)

type typ struct {
	k      kind
	name   string   // struct name
	fields []string // struct fields
	ftypes []typ    // float mode: types of the fields (nil: all int64)
	m      bool     // int64 mode: the code of this expression is a computation (I64.M), not a value
}

func (a typ) String() string {
	switch a.k {
	case kZ:
		return "int64"
	case kBool:
		return "bool"
	case kErr:
		return "error"
	case kStruct:
		return "struct " + a.name
	case kF:
		return "float64"
	case kOptZ:
		return "int64 converted from a float64"
	case kUntyped:
		return "untyped constant"
	case kFInt:
		return "float64 holding an integer"
	}
	return "opaque"
}

func (a typ) coq() string {
	switch a.k {
	case kZ:
		return "Z"
	case kBool, kErr:
		return "bool"
	case kStruct:
		var s []string
		for i := range a.fields {
			s = append(s, a.fieldType(i).coq())
		}
		return "(" + strings.Join(s, " * ") + ")%type"
	case kF:
		return "float"
	case kOptZ:
		return "(option Z)"
	case kFInt:
		return "Z"
	}
	return "?"
}

func (a typ) zero() string {
	switch a.k {
	case kZ:
		return "0"
	case kBool, kErr:
		return "false"
	case kF:
		return fzero
	}
	return "?"
}

func (a typ) fieldType(i int) typ {
	if a.ftypes == nil {
		return typ{k: kZ}
	}
	return a.ftypes[i]
}

func same(a, b typ) bool {
	if a.k == kStruct && b.k == kStruct && a.ftypes != nil && b.ftypes != nil && a.name != b.name {
		return false
	}
	return a.k == b.k && a.name == b.name
}

type sig struct {
	coq     string
	params  []typ // flattened: a struct receiver contributes one Z per field
	results []typ
	libm    bool // float mode: the definition takes the record of libm functions as its first argument
	nrecv   int  // float mode: number of leading parameters that are receiver fields (not passed by a plain call)
}

type varInfo struct {
	cv     *cval // float mode: the name stands for a constant (a local const, the counter of an unrolled loop)
	coq    string
	t      typ
	fields map[string]string // struct receiver: field -> Coq name
}

type scope struct {
	parent *scope
	vars   map[string]*varInfo
}

func newScope(p *scope) *scope { return &scope{parent: p, vars: map[string]*varInfo{}} }
func (s *scope) lookup(n string) *varInfo {
	for c := s; c != nil; c = c.parent {
		if v, ok := c.vars[n]; ok {
			return v
		}
	}
	return nil
}

// ---------------------------------------------------------------------------------------------------------------
// one function

type fctx struct {
	t       *translator
	pkg     *pkgInfo
	imp     map[string]string
	label   string // for messages: pkg.Name
	results []typ
	named   []string // names of named results (Go names), or nil
	top     *scope
	declPos map[token.Pos]string
	nameCnt map[string]int
	prefix  bool
	body    *ast.BlockStmt
	// float mode (float.go)
	fmode         bool
	partial       bool          // the definition is a slice or a loop body: no return statement is translated
	curFunc       *ast.FuncDecl // the function being translated (for constants declared inside it)
	lenient       bool          // struct types: fields that are neither int64 nor float64 are left out instead of rejecting the type
	intPow        bool          // float-mode machinery used for an integer kernel: int64(math.Pow(2, float64(e))) is the integer idiom
	tmpCnt        int           // int64 mode: counter of the names of intermediate results
	unsignedCount bool          // int64 mode: the shift count just translated was wrapped in uint64(..)
	libm          bool          // a libm function (or a callee that takes the record) is used
	recvOut       []string      // pointer receiver: Coq names of its fields, returned in front of the results
}

func (c *fctx) fail(n ast.Node, format string, a ...interface{}) {
	pos := "?"
	if n != nil {
		pos = relpos(n.Pos())
	}
	what := "function " + c.label
	if strings.HasPrefix(c.label, "constant ") {
		what = c.label
	}
	failf("%s: %s: unsupported construct: %s", pos, what, fmt.Sprintf(format, a...))
}

func nodeKind(n ast.Node) string {
	s := fmt.Sprintf("%T", n)
	return strings.TrimPrefix(s, "*ast.")
}

// a fresh Coq name for the declaration at pos (stable across the duplicated continuations)
func (c *fctx) declare(sc *scope, id *ast.Ident, t typ) *varInfo {
	name, ok := c.declPos[id.Pos()]
	if !ok {
		n := c.nameCnt[id.Name]
		c.nameCnt[id.Name] = n + 1
		name = "v_" + id.Name
		if n > 0 {
			name = fmt.Sprintf("v_%s'%d", id.Name, n)
		}
		c.declPos[id.Pos()] = name
	}
	v := &varInfo{coq: name, t: t}
	sc.vars[id.Name] = v
	return v
}

func (c *fctx) goType(e ast.Expr) typ {
	if c.t.sv {
		if t, ok := c.svType(e, 0); ok {
			return t
		}
		c.fail(e, "type %s (struct-value mode: float64, int64, bool, structs and fixed arrays of them)", exprString(e))
	}
	switch x := e.(type) {
	case *ast.Ident:
		switch x.Name {
		case "int64":
			return typ{k: kZ}
		case "bool":
			return typ{k: kBool}
		case "error":
			return typ{k: kErr}
		}
		if c.fmode && x.Name == "float64" {
			return typ{k: kF}
		}
		if ts, ok := c.pkg.types[x.Name]; ok {
			if st, ok := ts.Type.(*ast.StructType); ok {
				if c.fmode {
					return c.fstructType(c.pkg, x.Name, st, e)
				}
				r := typ{k: kStruct, name: x.Name}
				for _, f := range st.Fields.List {
					ft, ok := f.Type.(*ast.Ident)
					if !ok || ft.Name != "int64" || len(f.Names) == 0 {
						c.fail(e, "struct type %s has a field that is not a named int64 field", x.Name)
					}
					for _, n := range f.Names {
						r.fields = append(r.fields, n.Name)
					}
				}
				return r
			}
		}
	case *ast.SelectorExpr:
		if c.fmode {
			if dir, ok := c.pkgOf(nil, x.X); ok && !strings.HasPrefix(dir, "\x00") {
				p := c.t.load(dir)
				if ts, ok := p.types[x.Sel.Name]; ok {
					if st, ok := ts.Type.(*ast.StructType); ok {
						return c.fstructType(p, x.Sel.Name, st, e)
					}
				}
			}
		}
	case *ast.StarExpr:
		t := c.goType(x.X)
		if t.k == kStruct {
			return t
		}
	case *ast.ParenExpr:
		return c.goType(x.X)
	}
	if c.fmode {
		c.fail(e, "type %s (supported: int64, float64, bool, error, structs of int64/float64 fields)", exprString(e))
	}
	c.fail(e, "type %s (supported: int64, bool, error, structs of int64 fields)", exprString(e))
	return typ{}
}

func exprString(e ast.Expr) string {
	switch x := e.(type) {
	case *ast.Ident:
		return x.Name
	case *ast.StarExpr:
		return "*" + exprString(x.X)
	case *ast.SelectorExpr:
		return exprString(x.X) + "." + x.Sel.Name
	case *ast.ArrayType:
		return "[]" + exprString(x.Elt)
	case *ast.BasicLit:
		return x.Value
	case *ast.CallExpr:
		return exprString(x.Fun) + "(..)"
	case *ast.ParenExpr:
		return "(" + exprString(x.X) + ")"
	case *ast.BinaryExpr:
		return exprString(x.X) + " " + x.Op.String() + " " + exprString(x.Y)
	case *ast.UnaryExpr:
		return x.Op.String() + exprString(x.X)
	}
	return nodeKind(e)
}

func intLit(c *fctx, x *ast.BasicLit) string {
	v, ok := new(big.Int).SetString(strings.ReplaceAll(x.Value, "_", ""), 0)
	if !ok {
		c.fail(x, "integer literal %s", x.Value)
	}
	return v.String()
}

// the package a selector `p.X` refers to, when p is an imported package name that is not shadowed
func (c *fctx) pkgOf(sc *scope, x ast.Expr) (string, bool) {
	id, ok := x.(*ast.Ident)
	if !ok {
		return "", false
	}
	if sc != nil && sc.lookup(id.Name) != nil {
		return "", false
	}
	dir, ok := c.imp[id.Name]
	return dir, ok
}

func isMath(c *fctx, sc *scope, f ast.Expr, name string) bool {
	s, ok := f.(*ast.SelectorExpr)
	if !ok || s.Sel.Name != name {
		return false
	}
	dir, ok := c.pkgOf(sc, s.X)
	return ok && dir == "\x00math"
}

func isConv(sc *scope, f ast.Expr, names ...string) bool {
	id, ok := f.(*ast.Ident)
	if !ok || (sc != nil && sc.lookup(id.Name) != nil) {
		return false
	}
	for _, n := range names {
		if id.Name == n {
			return true
		}
	}
	return false
}

// is e a float64-valued expression of the supported idioms?
func (c *fctx) isFloatExpr(sc *scope, e ast.Expr) bool {
	switch x := e.(type) {
	case *ast.ParenExpr:
		return c.isFloatExpr(sc, x.X)
	case *ast.CallExpr:
		return isConv(sc, x.Fun, "float64") || isMath(c, sc, x.Fun, "Pow") || isMath(c, sc, x.Fun, "Abs")
	case *ast.Ident:
		if sc != nil {
			if v := sc.lookup(x.Name); v != nil {
				return v.t.k == kFInt
			}
		}
	}
	return false
}

// integer value (as Z code) of a float64 expression that is integral by construction:
// float64(e), math.Abs(f), math.Pow(B, f) with an integer literal B >= 2, integral literals
func (c *fctx) floatInt(sc *scope, e ast.Expr) string {
	switch x := e.(type) {
	case *ast.ParenExpr:
		return c.floatInt(sc, x.X)
	case *ast.Ident:
		// a float64 local that holds an integer by construction (x := math.Abs(float64(e))), or a named literal constant
		if sc != nil {
			if v := sc.lookup(x.Name); v != nil {
				if v.t.k == kFInt {
					return v.coq
				}
				c.fail(e, "the variable %s (type %s) in a floating-point expression", x.Name, v.t)
			}
		}
		if lit, neg := c.literalOf(x, c.curFunc, 0); lit != nil && !neg {
			return c.floatInt(sc, lit)
		}
	case *ast.SelectorExpr:
		if lit, neg := c.literalOf(x, nil, 0); lit != nil && !neg {
			return c.floatInt(sc, lit)
		}
	case *ast.BasicLit:
		if x.Kind == token.INT {
			return intLit(c, x)
		}
		if x.Kind == token.FLOAT {
			m, ex := decimal(c, x)
			if ex >= 0 {
				return new(big.Int).Mul(m, new(big.Int).Exp(big.NewInt(10), big.NewInt(int64(ex)), nil)).String()
			}
		}
	case *ast.CallExpr:
		switch {
		case isConv(sc, x.Fun, "float64") && len(x.Args) == 1:
			code, t := c.expr(sc, x.Args[0])
			if t.k != kZ {
				c.fail(e, "float64(..) of a non-int64 value")
			}
			if t.m {
				c.fail(e, "float64(..) of a computed value (int64 mode: assign it to a variable first)")
			}
			return code
		case isMath(c, sc, x.Fun, "Abs") && len(x.Args) == 1:
			return "(Z.abs " + c.floatInt(sc, x.Args[0]) + ")"
		case isMath(c, sc, x.Fun, "Pow") && len(x.Args) == 2:
			base := c.floatInt(sc, x.Args[0])
			if lit, neg := c.literalOf(x.Args[0], c.curFunc, 0); lit == nil || neg {
				c.fail(e, "math.Pow with a base that is not a literal (or a named literal constant)")
			}
			if b, _ := new(big.Int).SetString(base, 10); b == nil || b.Cmp(big.NewInt(2)) < 0 {
				c.fail(e, "math.Pow with a literal base below 2")
			}
			return "(Z.pow " + base + " " + c.floatInt(sc, x.Args[1]) + ")"
		}
	}
	c.fail(e, "floating-point expression %s (supported idioms: int64(math.Pow(2, float64(e))), math.Abs(float64(e)))", exprString(e))
	return ""
}

func unparen(e ast.Expr) ast.Expr {
	for {
		p, ok := e.(*ast.ParenExpr)
		if !ok {
			return e
		}
		e = p.X
	}
}

var arith = map[token.Token]string{token.ADD: "Z.add", token.SUB: "Z.sub", token.MUL: "Z.mul", token.QUO: "Z.quot", token.REM: "Z.rem",
	token.SHL: "Z.shiftl", token.SHR: "Z.shiftr"}
var cmp = map[token.Token]string{token.LSS: "Z.ltb", token.LEQ: "Z.leb", token.GTR: "Z.gtb", token.GEQ: "Z.geb", token.EQL: "Z.eqb"}
var assignOps = map[token.Token]token.Token{token.ADD_ASSIGN: token.ADD, token.SUB_ASSIGN: token.SUB, token.MUL_ASSIGN: token.MUL,
	token.QUO_ASSIGN: token.QUO, token.REM_ASSIGN: token.REM, token.SHL_ASSIGN: token.SHL, token.SHR_ASSIGN: token.SHR}

func isNil(sc *scope, e ast.Expr) bool {
	id, ok := unparen(e).(*ast.Ident)
	return ok && id.Name == "nil" && (sc == nil || sc.lookup("nil") == nil)
}

// shift counts may be wrapped in an unsigned conversion
func (c *fctx) shiftCount(sc *scope, e ast.Expr) (string, typ) {
	c.unsignedCount = false
	if call, ok := unparen(e).(*ast.CallExpr); ok && len(call.Args) == 1 && isConv(sc, call.Fun, "uint64", "uint", "uint32", "uint8", "uint16") {
		if c.t.m64 {
			// int64 mode: uint64(s) of a negative s is a count of 2^64 + s, not a panic; narrower conversions truncate: not modelled
			if !isConv(sc, call.Fun, "uint64", "uint") {
				c.fail(e, "shift count converted to %s (int64 mode models uint64(..) / uint(..) only)", exprString(call.Fun))
			}
			code, t := c.expr(sc, call.Args[0])
			c.unsignedCount = true
			return code, t
		}
		return c.expr(sc, call.Args[0])
	}
	return c.expr(sc, e)
}

func (c *fctx) binary(n ast.Node, op token.Token, a string, ta typ, b string, tb typ) (string, typ) {
	if ta.k == kF || tb.k == kF {
		return c.fbinary(n, op, a, ta, b, tb)
	}
	if c.t.m64 {
		return c.binary64(n, op, a, ta, b, tb)
	}
	if f, ok := arith[op]; ok {
		if ta.k != kZ || tb.k != kZ {
			c.fail(n, "operator %s on %s and %s", op, ta, tb)
		}
		return "(" + f + " " + a + " " + b + ")", typ{k: kZ}
	}
	if f, ok := cmp[op]; ok || op == token.NEQ {
		if op == token.NEQ {
			f = "Z.eqb"
		}
		var code string
		switch {
		case ta.k == kZ && tb.k == kZ:
			code = "(" + f + " " + a + " " + b + ")"
		case (op == token.EQL || op == token.NEQ) && ta.k == kBool && tb.k == kBool:
			code = "(Bool.eqb " + a + " " + b + ")"
		default:
			c.fail(n, "comparison %s between %s and %s", op, ta, tb)
		}
		if op == token.NEQ {
			code = "(negb " + code + ")"
		}
		return code, typ{k: kBool}
	}
	if op == token.LAND || op == token.LOR {
		if ta.k != kBool || tb.k != kBool {
			c.fail(n, "operator %s on %s and %s", op, ta, tb)
		}
		f := "andb"
		if op == token.LOR {
			f = "orb"
		}
		return "(" + f + " " + a + " " + b + ")", typ{k: kBool}
	}
	c.fail(n, "binary operator %s", op)
	return "", typ{}
}

func (c *fctx) expr(sc *scope, e ast.Expr) (string, typ) {
	if c.fmode {
		return c.fxTyped(sc, e)
	}
	switch x := e.(type) {
	case *ast.ParenExpr:
		return c.expr(sc, x.X)
	case *ast.Ident:
		if v := sc.lookup(x.Name); v != nil {
			if v.t.k == kOpaque || v.t.k == kStruct {
				c.fail(e, "use of the variable %s (type %s) as a value", x.Name, v.t)
			}
			return v.coq, v.t
		}
		switch x.Name {
		case "true", "false":
			return x.Name, typ{k: kBool}
		case "nil":
			c.fail(e, "nil outside an error position")
		case "iota":
			c.fail(e, "iota")
		}
		if cd, ok := c.pkg.consts[x.Name]; ok {
			return c.t.constRef(c.pkg, cd, e)
		}
		c.fail(e, "identifier %s (not a local variable, not a constant of package %s)", x.Name, c.pkg.dir)
	case *ast.BasicLit:
		if x.Kind == token.INT {
			return intLit(c, x), typ{k: kZ}
		}
		c.fail(e, "%s literal %s", strings.ToLower(x.Kind.String()), x.Value)
	case *ast.UnaryExpr:
		a, ta := c.expr(sc, x.X)
		if c.t.m64 {
			return c.unary64(e, x.Op, a, ta)
		}
		switch {
		case x.Op == token.SUB && ta.k == kZ:
			return "(Z.opp " + a + ")", ta
		case x.Op == token.ADD && ta.k == kZ:
			return a, ta
		case x.Op == token.NOT && ta.k == kBool:
			return "(negb " + a + ")", ta
		}
		c.fail(e, "unary operator %s on %s", x.Op, ta)
	case *ast.BinaryExpr:
		if x.Op == token.EQL || x.Op == token.NEQ {
			// err == nil, err != nil
			var other ast.Expr
			if isNil(sc, x.Y) {
				other = x.X
			} else if isNil(sc, x.X) {
				other = x.Y
			}
			if other != nil {
				a, ta := c.expr(sc, other)
				if ta.k != kErr {
					c.fail(e, "comparison of a %s with nil", ta)
				}
				if x.Op == token.EQL {
					return "(negb " + a + ")", typ{k: kBool}
				}
				return a, typ{k: kBool}
			}
		}
		a, ta := c.expr(sc, x.X)
		var b string
		var tb typ
		if x.Op == token.SHL || x.Op == token.SHR {
			b, tb = c.shiftCount(sc, x.Y)
		} else {
			b, tb = c.expr(sc, x.Y)
		}
		return c.binary(e, x.Op, a, ta, b, tb)
	case *ast.SelectorExpr:
		if id, ok := x.X.(*ast.Ident); ok {
			if v := sc.lookup(id.Name); v != nil {
				if v.t.k == kStruct && v.fields != nil {
					if f, ok := v.fields[x.Sel.Name]; ok {
						return f, typ{k: kZ}
					}
				}
				c.fail(e, "selector %s.%s", id.Name, x.Sel.Name)
			}
			if dir, ok := c.imp[id.Name]; ok {
				if strings.HasPrefix(dir, "\x00") {
					c.fail(e, "reference to %s.%s (package outside the module)", id.Name, x.Sel.Name)
				}
				p := c.t.load(dir)
				if cd, ok := p.consts[x.Sel.Name]; ok {
					return c.t.constRef(p, cd, e)
				}
				c.fail(e, "%s.%s is not a constant of package %s", id.Name, x.Sel.Name, dir)
			}
		}
		c.fail(e, "selector expression %s", exprString(e))
	case *ast.CallExpr:
		if c.isFloatExpr(sc, x) && !isMath(c, sc, x.Fun, "Pow") {
			// float64(e), math.Abs(float64(e)): a float64 that is an integer by construction; it can be bound to a local and used in the Pow idiom
			return c.floatInt(sc, x), typ{k: kFInt}
		}
		return c.call(sc, x)
	}
	c.fail(e, "expression of kind %s", nodeKind(e))
	return "", typ{}
}

// a call in value position: conversions, the error constructor, or a translated function with a single result
func (c *fctx) call(sc *scope, x *ast.CallExpr) (string, typ) {
	if x.Ellipsis.IsValid() {
		c.fail(x, "variadic call")
	}
	if isConv(sc, x.Fun, "int64") && len(x.Args) == 1 {
		if c.isFloatExpr(sc, x.Args[0]) {
			if c.t.m64 {
				return c.pow64(sc, x.Args[0])
			}
			return c.floatInt(sc, x.Args[0]), typ{k: kZ}
		}
		a, ta := c.expr(sc, x.Args[0])
		if ta.k != kZ {
			c.fail(x, "int64(..) of a %s", ta)
		}
		return a, ta
	}
	if c.isErrorCtor(sc, x) {
		return "true", typ{k: kErr}
	}
	code, s := c.callTranslated(sc, x)
	if len(s.results) != 1 {
		c.fail(x, "call of %s (%d results) in a single-value position", exprString(x.Fun), len(s.results))
	}
	if s.results[0].k == kStruct {
		c.fail(x, "call of %s returning a struct used as a value", exprString(x.Fun))
	}
	rt := s.results[0]
	rt.m = c.t.m64
	return code, rt
}

func (c *fctx) isErrorCtor(sc *scope, x *ast.CallExpr) bool {
	s, ok := x.Fun.(*ast.SelectorExpr)
	if !ok || s.Sel.Name != "NewSpatialIdError" {
		return false
	}
	dir, ok := c.pkgOf(sc, s.X)
	return ok && dir == errorsPkg
}

func (c *fctx) callTranslated(sc *scope, x *ast.CallExpr) (string, *sig) {
	var s *sig
	switch f := x.Fun.(type) {
	case *ast.Ident:
		if sc.lookup(f.Name) != nil {
			c.fail(x, "call of the local value %s", f.Name)
		}
		if _, ok := c.pkg.funcs[f.Name]; !ok {
			c.fail(x, "call of %s (not a function of package %s; builtins and conversions other than int64/float64 are outside the subset)", f.Name, c.pkg.dir)
		}
		if c.fmode {
			s = c.t.ffunction(ftarget{pkg: c.pkg.dir, name: f.Name}, x)
		} else {
			s = c.t.function(target{pkg: c.pkg.dir, name: f.Name}, x)
		}
	case *ast.SelectorExpr:
		dir, ok := c.pkgOf(sc, f.X)
		if !ok {
			c.fail(x, "method call %s", exprString(x.Fun))
		}
		if strings.HasPrefix(dir, "\x00") && !c.t.sv {
			c.fail(x, "call of %s (package %s is outside the module)", exprString(x.Fun), strings.TrimPrefix(dir, "\x00"))
		}
		if c.fmode {
			s = c.t.ffunction(ftarget{pkg: dir, name: f.Sel.Name}, x)
		} else {
			s = c.t.function(target{pkg: dir, name: f.Sel.Name}, x)
		}
	default:
		c.fail(x, "call through %s", nodeKind(x.Fun))
	}
	if s.nrecv != 0 {
		c.fail(x, "call of the method %s as a function", exprString(x.Fun))
	}
	if len(x.Args) != len(s.params) {
		c.fail(x, "call of %s with %d arguments (the translated function takes %d)", exprString(x.Fun), len(x.Args), len(s.params))
	}
	code := "(" + s.coq
	if s.libm {
		c.libm = true
		code += " " + libmVar
	}
	pre := ""
	for i, a := range x.Args {
		ac, ta := c.exprAs(sc, a, s.params[i])
		if ta.m {
			// int64 mode: an argument that is a computation is run first, in the order of the arguments
			n := c.tmp()
			pre += n + " <- " + ac + " ;; "
			ac = n
		}
		code += " " + ac
	}
	if pre != "" {
		return "(" + pre + code + "))", s
	}
	return code + ")", s
}

// expression in a position of known type (gives `nil` a meaning in error positions)
func (c *fctx) exprAs(sc *scope, e ast.Expr, want typ) (string, typ) {
	if want.k == kErr && isNil(sc, e) {
		return "false", want
	}
	if c.fmode {
		return c.fxAs(sc, e, want)
	}
	code, t := c.expr(sc, e)
	if !same(t, want) {
		c.fail(e, "a %s where a %s is expected", t, want)
	}
	return code, t
}

func tuple(xs []string) string {
	if len(xs) == 1 {
		return xs[0]
	}
	return "(" + strings.Join(xs, ", ") + ")"
}

func pattern(xs []string) string {
	if len(xs) == 1 {
		return xs[0]
	}
	return "'(" + strings.Join(xs, ", ") + ")"
}

// ---- statements: block(ss, sc, k) translates ss in scope sc followed by the continuation k ----

func (c *fctx) block(ss []ast.Stmt, sc *scope, k func() string) string {
	if len(ss) == 0 {
		return k()
	}
	s, rest := ss[0], ss[1:]
	next := func() string { return c.block(rest, sc, k) }
	switch x := s.(type) {
	case *ast.EmptyStmt:
		return next()
	case *ast.BlockStmt:
		return c.block(x.List, newScope(sc), next)
	case *ast.AssignStmt:
		return c.assign(x, sc) + next()
	case *ast.IncDecStmt:
		id, ok := x.X.(*ast.Ident)
		if !ok {
			c.fail(s, "%s on %s", x.Tok, exprString(x.X))
		}
		v := sc.lookup(id.Name)
		if v == nil || v.t.k != kZ {
			c.fail(s, "%s on %s", x.Tok, id.Name)
		}
		op := token.ADD
		if x.Tok == token.DEC {
			op = token.SUB
		}
		code, t := c.binary(s, op, v.coq, v.t, "1", typ{k: kZ})
		return c.let(v.coq, code, t) + next()
	case *ast.DeclStmt:
		gd, ok := x.Decl.(*ast.GenDecl)
		if !ok {
			c.fail(s, "local declaration")
		}
		if gd.Tok == token.CONST && c.fmode {
			// a local constant: its value, evaluated as the compiler does
			for _, sp := range gd.Specs {
				vs := sp.(*ast.ValueSpec)
				if len(vs.Values) != len(vs.Names) {
					c.fail(s, "const declaration without explicit values")
				}
				for i, n := range vs.Names {
					cv := c.constEval(sc, vs.Values[i])
					if cv == nil {
						c.fail(vs.Values[i], "the value %s of the constant is not a numeric constant expression of the subset", exprString(vs.Values[i]))
					}
					if vs.Type != nil {
						switch exprString(vs.Type) {
						case "float64":
							cv = &cval{v: round64(c, vs.Values[i], cv.v), float: true, typed: true}
						case "int64", "int":
							cv = &cval{v: constant.ToInt(cv.v), typed: true}
						default:
							c.fail(vs.Type, "constant of type %s", exprString(vs.Type))
						}
					}
					sc.vars[n.Name] = &varInfo{cv: cv, coq: "?", t: typ{k: kUntyped}}
				}
			}
			return next()
		}
		if gd.Tok != token.VAR {
			c.fail(s, "local %s declaration", gd.Tok)
		}
		out := ""
		for _, sp := range gd.Specs {
			vs := sp.(*ast.ValueSpec)
			if c.prefix && sc == c.top && vs.Type != nil && len(vs.Values) == 0 {
				if _, isSlice := vs.Type.(*ast.ArrayType); isSlice {
					for _, n := range vs.Names {
						sc.vars[n.Name] = &varInfo{coq: "?", t: typ{k: kOpaque}}
					}
					continue
				}
			}
			if len(vs.Values) != 0 && len(vs.Values) != len(vs.Names) {
				c.fail(s, "var declaration with %d names and %d values", len(vs.Names), len(vs.Values))
			}
			var codes []string
			var types []typ
			for i := range vs.Names {
				if len(vs.Values) == 0 {
					t := c.goType(vs.Type)
					if t.k == kStruct && !c.t.sv {
						c.fail(s, "local variable of struct type")
					}
					codes, types = append(codes, zeroOf(t)), append(types, t)
				} else if vs.Type != nil {
					code, t := c.exprAs(sc, vs.Values[i], c.goType(vs.Type))
					codes, types = append(codes, code), append(types, t)
				} else {
					code, t := c.expr(sc, vs.Values[i])
					codes, types = append(codes, code), append(types, t)
				}
			}
			for i, n := range vs.Names {
				name := "_"
				if n.Name != "_" {
					name = c.declare(sc, n, pureT(types[i])).coq
				}
				out += c.let(name, codes[i], types[i])
			}
		}
		return out + next()
	case *ast.IfStmt:
		if c.fmode && !escapes(x) {
			// float mode: no branch leaves the statement: one conditional per assigned variable instead of a duplicated continuation
			return c.phiIf(x, sc) + next()
		}
		isc := sc
		pre := ""
		if x.Init != nil {
			isc = newScope(sc)
			switch in := x.Init.(type) {
			case *ast.AssignStmt:
				pre = c.assign(in, isc)
			default:
				c.fail(x.Init, "if-initialiser of kind %s", nodeKind(x.Init))
			}
		}
		cond, tc := c.expr(isc, x.Cond)
		if tc.k != kBool {
			c.fail(x.Cond, "condition of type %s", tc)
		}
		thenCode := c.block(x.Body.List, newScope(isc), next)
		var elseCode string
		switch e := x.Else.(type) {
		case nil:
			elseCode = next()
		case *ast.BlockStmt:
			elseCode = c.block(e.List, newScope(isc), next)
		case *ast.IfStmt:
			elseCode = c.block([]ast.Stmt{e}, isc, next)
		default:
			c.fail(x.Else, "else branch of kind %s", nodeKind(x.Else))
		}
		if tc.m {
			n := c.tmp()
			pre += n + " <- " + cond + " ;;\n"
			cond = n
		}
		return pre + "if " + cond + "\nthen (" + thenCode + ")\nelse (" + elseCode + ")"
	case *ast.SwitchStmt:
		// `switch { case c1: .. case c2: .. default: .. }` is the chain if c1 {..} else if c2 {..} else {..}
		if is := c.switchAsIf(x); is != nil {
			return c.block(append([]ast.Stmt{is}, rest...), sc, k)
		}
		c.fail(s, "switch with a tag or an initialiser")
	case *ast.ReturnStmt:
		if c.prefix {
			c.fail(s, "return before the result loop")
		}
		if c.partial {
			c.fail(s, "return inside the statements the extracted value depends on")
		}
		return c.ret(x, sc)
	case *ast.ForStmt:
		if c.prefix && sc == c.top {
			return c.resultLoop(x, sc)
		}
		if c.fmode {
			// `for i := c0; i < c1; i++ { .. }` with constant bounds: the body once per value of the counter
			return c.unroll(x, sc, next)
		}
		c.fail(s, "for loop")
	case *ast.ExprStmt:
		c.fail(s, "expression statement %s (a call for its side effect)", exprString(x.X))
	}
	c.fail(s, "statement of kind %s", nodeKind(s))
	return ""
}

// a tagless switch without fallthrough / break as an if / else-if chain (cases are tried in source order, default last wherever it stands)
func (c *fctx) switchAsIf(x *ast.SwitchStmt) ast.Stmt {
	if x.Tag != nil || x.Init != nil {
		return nil
	}
	var cases []*ast.CaseClause
	var def *ast.CaseClause
	for _, st := range x.Body.List {
		cc := st.(*ast.CaseClause)
		for _, b := range cc.Body {
			ast.Inspect(b, func(n ast.Node) bool {
				if br, ok := n.(*ast.BranchStmt); ok && (br.Tok == token.FALLTHROUGH || br.Tok == token.BREAK) {
					c.fail(br, "%s inside a switch", br.Tok)
				}
				return true
			})
		}
		if cc.List == nil {
			if def != nil {
				c.fail(cc, "two default clauses")
			}
			def = cc
			continue
		}
		cases = append(cases, cc)
	}
	var tail ast.Stmt
	if def != nil {
		tail = &ast.BlockStmt{Lbrace: def.Pos(), List: def.Body, Rbrace: def.End()}
	}
	for i := len(cases) - 1; i >= 0; i-- {
		cc := cases[i]
		cond := cc.List[0]
		for _, e := range cc.List[1:] {
			cond = &ast.BinaryExpr{X: cond, OpPos: e.Pos(), Op: token.LOR, Y: e}
		}
		tail = &ast.IfStmt{If: cc.Pos(), Cond: cond, Body: &ast.BlockStmt{Lbrace: cc.Colon, List: cc.Body, Rbrace: cc.End()}, Else: tail}
	}
	if tail == nil {
		return &ast.EmptyStmt{Semicolon: x.Pos()}
	}
	if _, isBlock := tail.(*ast.BlockStmt); isBlock && len(cases) == 0 {
		return tail
	}
	return tail
}

func (c *fctx) ret(x *ast.ReturnStmt, sc *scope) string {
	var rs []string
	pre := ""
	if len(x.Results) == 0 {
		if c.named == nil {
			if len(c.results) == 0 {
				c.fail(x, "function without results")
			}
			c.fail(x, "bare return without named results")
		}
		for _, n := range c.named {
			v := sc.lookup(n)
			if v == nil || v != c.top.vars[n] {
				c.fail(x, "bare return while the result %s is shadowed", n)
			}
			rs = append(rs, v.coq)
		}
		return c.retValue(tuple(append(append([]string{}, c.recvOut...), rs...)))
	}
	if len(x.Results) == 1 && len(c.results) > 1 {
		if c.recvOut != nil {
			c.fail(x, "return of a call from a method with a pointer receiver")
		}
		call, ok := unparen(x.Results[0]).(*ast.CallExpr)
		if !ok {
			c.fail(x, "return of one expression for %d results", len(c.results))
		}
		code, s := c.callTranslated(sc, call)
		if len(s.results) != len(c.results) {
			c.fail(x, "return of a call with %d results for %d results", len(s.results), len(c.results))
		}
		for i := range s.results {
			if !same(s.results[i], c.results[i]) {
				c.fail(x, "result %d of the returned call is a %s, expected %s", i+1, s.results[i], c.results[i])
			}
		}
		return code
	}
	if len(x.Results) != len(c.results) {
		c.fail(x, "return of %d values for %d results", len(x.Results), len(c.results))
	}
	for i, r := range x.Results {
		if c.results[i].k == kStruct && !c.t.sv {
			if c.fmode {
				rs = append(rs, c.fstructValue(sc, r, c.results[i]))
				continue
			}
			rs = append(rs, c.structLit(sc, r, c.results[i]))
			continue
		}
		code, tr := c.exprAs(sc, r, c.results[i])
		if tr.m {
			n := c.tmp()
			pre += n + " <- " + code + " ;;\n"
			code = n
		}
		rs = append(rs, code)
	}
	return pre + c.retValue(tuple(append(append([]string{}, c.recvOut...), rs...)))
}

// &T{f: e, ...} or T{f: e, ...} with keyed int64 fields -> tuple in declaration order
func (c *fctx) structLit(sc *scope, e ast.Expr, t typ) string {
	e = unparen(e)
	if u, ok := e.(*ast.UnaryExpr); ok && u.Op == token.AND {
		e = unparen(u.X)
	}
	cl, ok := e.(*ast.CompositeLit)
	if !ok {
		c.fail(e, "struct result that is not a composite literal")
	}
	if id, ok := cl.Type.(*ast.Ident); !ok || id.Name != t.name {
		c.fail(e, "composite literal of a type other than %s", t.name)
	}
	vals := map[string]string{}
	for i, el := range cl.Elts {
		kv, ok := el.(*ast.KeyValueExpr)
		if !ok {
			// positional literal
			if i >= len(t.fields) || len(cl.Elts) != len(t.fields) {
				c.fail(e, "positional composite literal with %d of %d fields", len(cl.Elts), len(t.fields))
			}
			code, tf := c.exprAs(sc, el, typ{k: kZ})
			if tf.m {
				c.fail(el, "arithmetic inside a composite literal (int64 mode: assign it to a variable first)")
			}
			vals[t.fields[i]] = code
			continue
		}
		key, ok := kv.Key.(*ast.Ident)
		if !ok {
			c.fail(e, "composite literal key of kind %s", nodeKind(kv.Key))
		}
		found := false
		for _, f := range t.fields {
			found = found || f == key.Name
		}
		if _, dup := vals[key.Name]; !found || dup {
			c.fail(e, "composite literal field %s", key.Name)
		}
		code, tf := c.exprAs(sc, kv.Value, typ{k: kZ})
		if tf.m {
			c.fail(kv.Value, "arithmetic inside a composite literal (int64 mode: assign it to a variable first)")
		}
		vals[key.Name] = code
	}
	var rs []string
	for _, f := range t.fields {
		v, ok := vals[f]
		if !ok {
			v = "0"
		}
		rs = append(rs, v)
	}
	return tuple(rs)
}

func (c *fctx) assign(x *ast.AssignStmt, sc *scope) string {
	if c.fmode {
		if code, ok := c.fassign(x, sc); ok {
			return code
		}
	}
	// compound assignment
	if op, ok := assignOps[x.Tok]; ok {
		if len(x.Lhs) != 1 || len(x.Rhs) != 1 {
			c.fail(x, "compound assignment with several operands")
		}
		id, ok := x.Lhs[0].(*ast.Ident)
		if !ok {
			c.fail(x, "assignment to %s", exprString(x.Lhs[0]))
		}
		v := sc.lookup(id.Name)
		if v == nil {
			c.fail(x, "assignment to the unknown variable %s", id.Name)
		}
		var b string
		var tb typ
		if op == token.SHL || op == token.SHR {
			b, tb = c.shiftCount(sc, x.Rhs[0])
		} else {
			b, tb = c.expr(sc, x.Rhs[0])
		}
		code, tcode := c.binary(x, op, v.coq, v.t, b, tb)
		return c.let(v.coq, code, tcode)
	}
	if x.Tok != token.ASSIGN && x.Tok != token.DEFINE {
		c.fail(x, "assignment operator %s", x.Tok)
	}
	var ids []*ast.Ident
	for _, l := range x.Lhs {
		id, ok := l.(*ast.Ident)
		if !ok {
			c.fail(x, "assignment to %s (only local variables can be assigned)", exprString(l))
		}
		ids = append(ids, id)
	}
	// the empty slice the result loop appends to
	if c.prefix && sc == c.top && x.Tok == token.DEFINE && len(ids) == 1 && len(x.Rhs) == 1 {
		if cl, ok := x.Rhs[0].(*ast.CompositeLit); ok {
			if _, isSlice := cl.Type.(*ast.ArrayType); isSlice && len(cl.Elts) == 0 {
				sc.vars[ids[0].Name] = &varInfo{coq: "?", t: typ{k: kOpaque}}
				return ""
			}
		}
	}
	// right-hand sides, evaluated before any left-hand side is (re)bound
	var codes []string
	var types []typ
	var rhs string
	rhsM, preM := false, "" // int64 mode: rhs is a computation; computations to run before
	// expected types of the positions that already have one (gives `nil` its meaning)
	want := make([]*typ, len(ids))
	for i, id := range ids {
		if id.Name == "_" {
			continue
		}
		var v *varInfo
		if x.Tok == token.DEFINE {
			v = sc.vars[id.Name]
		} else {
			v = sc.lookup(id.Name)
		}
		if v != nil {
			t := v.t
			want[i] = &t
		}
	}
	switch {
	case len(x.Rhs) == len(ids):
		for i, r := range x.Rhs {
			var code string
			var t typ
			if want[i] != nil {
				code, t = c.exprAs(sc, r, *want[i])
			} else {
				code, t = c.expr(sc, r)
			}
			codes, types = append(codes, code), append(types, t)
		}
		// int64 mode: the right-hand sides that are computations run first, left to right
		for i := range codes {
			if types[i].m {
				if len(codes) == 1 {
					rhsM = true
					break
				}
				n := c.tmp()
				preM += n + " <- " + codes[i] + " ;;\n"
				codes[i] = n
			}
		}
		rhs = tuple(codes)
	case len(x.Rhs) == 1:
		call, ok := unparen(x.Rhs[0]).(*ast.CallExpr)
		if !ok {
			c.fail(x, "assignment of one %s to %d variables", nodeKind(x.Rhs[0]), len(ids))
		}
		code, s := c.callTranslated(sc, call)
		if len(s.results) != len(ids) {
			c.fail(x, "assignment of a call with %d results to %d variables", len(s.results), len(ids))
		}
		for _, r := range s.results {
			if r.k == kStruct && !c.t.sv {
				c.fail(x, "assignment of a struct result")
			}
		}
		rhs, types = code, s.results
		rhsM = c.t.m64
	default:
		c.fail(x, "assignment of %d values to %d variables", len(x.Rhs), len(ids))
	}
	var names []string
	fresh := 0
	for i, id := range ids {
		if id.Name == "_" {
			names = append(names, "_")
			continue
		}
		var v *varInfo
		if x.Tok == token.DEFINE {
			v = sc.vars[id.Name] // `:=` re-uses only variables of the same scope
			if v == nil {
				v = c.declare(sc, id, pureT(types[i]))
				fresh++
			}
		} else {
			v = sc.lookup(id.Name)
			if v == nil {
				c.fail(x, "assignment to the unknown variable %s", id.Name)
			}
		}
		if v.t.k == kOpaque || (v.t.k == kStruct && !(c.t.sv && v.fields == nil)) {
			c.fail(x, "assignment to %s (type %s)", id.Name, v.t)
		}
		if !same(v.t, types[i]) {
			c.fail(x, "assignment of a %s to %s (a %s)", types[i], id.Name, v.t)
		}
		names = append(names, v.coq)
	}
	for i := range names {
		for j := i + 1; j < len(names); j++ {
			if names[i] != "_" && names[i] == names[j] {
				c.fail(x, "the same variable twice on the left-hand side")
			}
		}
	}
	if rhsM {
		return preM + pattern(names) + " <- " + rhs + " ;;\n"
	}
	return preM + "let " + pattern(names) + " := " + rhs + " in\n"
}

// the loop `for v := first; v <= last; v++ { .. }` that produces the output of a prefix-mode function
func (c *fctx) resultLoop(x *ast.ForStmt, sc *scope) string {
	in, ok := x.Init.(*ast.AssignStmt)
	if !ok || in.Tok != token.DEFINE || len(in.Lhs) != 1 || len(in.Rhs) != 1 {
		c.fail(x, "result loop without an initialiser of the form v := first")
	}
	v, ok := in.Lhs[0].(*ast.Ident)
	if !ok {
		c.fail(x, "result loop variable")
	}
	first, tf := c.expr(sc, in.Rhs[0])
	cond, ok := x.Cond.(*ast.BinaryExpr)
	if !ok {
		c.fail(x, "result loop without a condition of the form v <= last")
	}
	cv, ok := unparen(cond.X).(*ast.Ident)
	if !ok || cv.Name != v.Name || (cond.Op != token.LEQ && cond.Op != token.LSS) {
		c.fail(x, "result loop condition %s (expected %s <= last or %s < last)", exprString(cond), v.Name, v.Name)
	}
	last, tl := c.expr(sc, cond.Y)
	if tf.k != kZ || tl.k != kZ {
		c.fail(x, "result loop bounds that are not int64")
	}
	if cond.Op == token.LSS {
		last, tl = c.binary(x, token.SUB, last, tl, "1", typ{k: kZ})
	}
	// v++ or v += 1
	var stepped ast.Expr
	switch post := x.Post.(type) {
	case *ast.IncDecStmt:
		if post.Tok == token.INC {
			stepped = post.X
		}
	case *ast.AssignStmt:
		if post.Tok == token.ADD_ASSIGN && len(post.Lhs) == 1 && len(post.Rhs) == 1 {
			if lit, ok := unparen(post.Rhs[0]).(*ast.BasicLit); ok && lit.Kind == token.INT && lit.Value == "1" {
				stepped = post.Lhs[0]
			}
		}
	}
	if stepped == nil {
		c.fail(x, "result loop step (expected %s++)", v.Name)
	}
	if pid, ok := unparen(stepped).(*ast.Ident); !ok || pid.Name != v.Name {
		c.fail(x, "result loop step (expected %s++)", v.Name)
	}
	// the body must not write the loop variable or any translated variable
	ast.Inspect(x.Body, func(n ast.Node) bool {
		check := func(e ast.Expr) {
			if id, ok := unparen(e).(*ast.Ident); ok {
				if id.Name == v.Name {
					c.fail(n, "result loop body assigns the loop variable %s", id.Name)
				}
				if w := sc.lookup(id.Name); w != nil && w.t.k != kOpaque {
					c.fail(n, "result loop body assigns %s", id.Name)
				}
			}
		}
		switch y := n.(type) {
		case *ast.AssignStmt:
			for _, l := range y.Lhs {
				check(l)
			}
		case *ast.IncDecStmt:
			check(y.X)
		case *ast.UnaryExpr:
			if y.Op == token.AND {
				check(y.X)
			}
		case *ast.BranchStmt, *ast.ReturnStmt, *ast.GoStmt, *ast.DeferStmt:
			c.fail(n, "result loop body contains %s", nodeKind(n))
		}
		return true
	})
	pre := ""
	if tf.m {
		n := c.tmp()
		pre += n + " <- " + first + " ;;\n"
		first = n
	}
	if tl.m {
		n := c.tmp()
		pre += n + " <- " + last + " ;;\n"
		last = n
	}
	return pre + c.retValue(tuple([]string{first, last}))
}

// ---------------------------------------------------------------------------------------------------------------
// functions, constants, output

func (t *translator) global(name, origin string) {
	if prev, ok := t.globals[name]; ok {
		failf("%s: the Coq name %s is already used by %s", origin, name, prev)
	}
	for _, kw := range []string{"Type", "Prop", "Set", "SProp", "fun", "forall", "exists", "match", "end", "with", "let", "in", "if", "then", "else", "as",
		"return", "fix", "cofix", "for", "where", "at", "using", "Z", "bool", "true", "false", "negb", "andb", "orb", "nil", "list", "Definition", "Bool"} {
		if name == kw {
			failf("%s: the name %s cannot be used in Coq", origin, name)
		}
	}
	t.globals[name] = origin
}

func (t *translator) function(tg target, from ast.Node) *sig {
	key := fmt.Sprintf("%s|%s|%s|%v", tg.pkg, tg.recv, tg.name, tg.prefix)
	if s, ok := t.sigs[key]; ok {
		return s
	}
	label := tg.pkg + "." + tg.name
	fkey := tg.name
	if tg.recv != "" {
		label = tg.pkg + "." + tg.recv + "." + tg.name
		fkey = tg.recv + "." + tg.name
	}
	if t.inProgress[key] {
		failf("%s: function %s: unsupported construct: recursion", relpos(from.Pos()), label)
	}
	p := t.load(tg.pkg)
	fds := p.funcs[fkey]
	if len(fds) == 0 {
		where := "the list of kernels"
		if from != nil {
			where = relpos(from.Pos())
		}
		failf("function %s (needed by %s) is not defined in %s", label, where, tg.pkg)
	}
	if len(fds) > 1 {
		failf("function %s is defined %d times in %s", label, len(fds), tg.pkg)
	}
	fd := fds[0]
	if fd.Body == nil {
		failf("%s: function %s: unsupported construct: function without a body", relpos(fd.Pos()), label)
	}
	if fd.Type.TypeParams != nil {
		failf("%s: function %s: unsupported construct: type parameters", relpos(fd.Pos()), label)
	}
	t.inProgress[key] = true
	defer delete(t.inProgress, key)
	t.used[p.names[p.fileOf[fd]]] = true

	c := &fctx{t: t, pkg: p, imp: t.imports(p.files[p.fileOf[fd]]), label: label, declPos: map[token.Pos]string{}, nameCnt: map[string]int{},
		prefix: tg.prefix, body: fd.Body, curFunc: fd}
	c.top = newScope(nil)
	s := &sig{coq: tg.out}
	if s.coq == "" {
		s.coq = tg.name
		if tg.recv != "" {
			s.coq = tg.recv + "_" + tg.name
		}
	}
	var binders []string
	if fd.Recv != nil {
		if tg.recv == "" {
			failf("%s: function %s: unsupported construct: method used as a function", relpos(fd.Pos()), label)
		}
		r := fd.Recv.List[0]
		rt := c.goType(r.Type)
		if rt.k != kStruct {
			c.fail(r, "receiver of type %s", rt)
		}
		if len(r.Names) == 1 && r.Names[0].Name != "_" {
			rn := r.Names[0].Name
			v := &varInfo{coq: "?", t: rt, fields: map[string]string{}}
			for _, f := range rt.fields {
				v.fields[f] = "v_" + rn + "_" + f
			}
			c.top.vars[rn] = v
			c.nameCnt[rn] = 1
			for _, f := range rt.fields {
				binders = append(binders, "(v_"+rn+"_"+f+" : Z)")
				s.params = append(s.params, typ{k: kZ})
				c.nameCnt[rn+"_"+f] = 1
			}
		} else {
			for i := range rt.fields {
				binders = append(binders, fmt.Sprintf("(_r%d : Z)", i))
				s.params = append(s.params, typ{k: kZ})
			}
		}
	}
	anon := 0
	for _, f := range fd.Type.Params.List {
		if _, variadic := f.Type.(*ast.Ellipsis); variadic {
			c.fail(f, "variadic parameter")
		}
		pt := c.goType(f.Type)
		if pt.k == kStruct {
			c.fail(f, "parameter of struct type")
		}
		if len(f.Names) == 0 {
			binders = append(binders, fmt.Sprintf("(_p%d : %s)", anon, pt.coq()))
			s.params = append(s.params, pt)
			anon++
		}
		for _, n := range f.Names {
			if n.Name == "_" {
				binders = append(binders, fmt.Sprintf("(_p%d : %s)", anon, pt.coq()))
				anon++
			} else {
				v := c.declare(c.top, n, pt)
				binders = append(binders, "("+v.coq+" : "+pt.coq()+")")
			}
			s.params = append(s.params, pt)
		}
	}
	pre := ""
	if tg.prefix {
		s.results = []typ{{k: kZ}, {k: kZ}}
	} else {
		if fd.Type.Results == nil || len(fd.Type.Results.List) == 0 {
			failf("%s: function %s: unsupported construct: function without results", relpos(fd.Pos()), label)
		}
		for _, f := range fd.Type.Results.List {
			rt := c.goType(f.Type)
			if len(f.Names) == 0 {
				s.results = append(s.results, rt)
			}
			for _, n := range f.Names {
				s.results = append(s.results, rt)
				if rt.k == kStruct {
					c.fail(f, "named result of struct type")
				}
				if n.Name == "_" {
					c.fail(f, "blank named result")
				}
				c.named = append(c.named, n.Name)
				v := c.declare(c.top, n, rt)
				pre += "let " + v.coq + " := " + rt.zero() + " in\n"
			}
		}
	}
	c.results = s.results
	var rts []string
	for _, r := range s.results {
		if r.k == kStruct {
			for range r.fields {
				rts = append(rts, "Z")
			}
		} else {
			rts = append(rts, r.coq())
		}
	}
	retType := strings.Join(rts, " * ")
	if len(rts) > 1 {
		retType = "(" + retType + ")%type"
	}
	if t.m64 {
		retType = "(M " + retType + ")"
	}
	// the function body lives in a scope below the parameters (Go: same scope; a redeclaration would not compile)
	body := c.block(fd.Body.List, c.top, func() string {
		if tg.prefix {
			failf("%s: function %s: unsupported construct: no result loop (`for v := first; v <= last; v++`) at the top level", relpos(fd.Pos()), label)
		}
		failf("%s: function %s: unsupported construct: control reaches the end of the function without a return", relpos(fd.End()), label)
		return ""
	})
	t.global(s.coq, label)
	kindNote := ""
	if tg.prefix {
		kindNote = " — the statements before the result loop; value = (first, last) of `for v := first; v <= last; v++`"
	}
	def := fmt.Sprintf("(* %s  [%s]%s *)\nDefinition %s %s : %s :=\n%s%s.\n", label, p.names[p.fileOf[fd]], kindNote, s.coq, strings.Join(binders, " "), retType, pre, body)
	t.funcs = append(t.funcs, def)
	t.hints = append(t.hints, s.coq)
	t.sigs[key] = s
	return s
}

// decimal value of a floating-point (or integer) literal: mantissa * 10^exp, mantissa without trailing zeros
func decimal(c *fctx, x *ast.BasicLit) (*big.Int, int) {
	bad := func() {
		if c != nil {
			c.fail(x, "literal %s", x.Value)
		}
		failf("%s: unsupported construct: literal %s", relpos(x.Pos()), x.Value)
	}
	s := strings.ToLower(strings.ReplaceAll(x.Value, "_", ""))
	var m *big.Int
	exp := 0
	if x.Kind == token.INT {
		v, ok := new(big.Int).SetString(s, 0)
		if !ok {
			bad()
		}
		m = v
	} else {
		if x.Kind != token.FLOAT || strings.HasPrefix(s, "0x") || strings.ContainsAny(s, "pi") {
			bad()
		}
		if i := strings.IndexByte(s, 'e'); i >= 0 {
			e, err := strconv.Atoi(s[i+1:])
			if err != nil {
				bad()
			}
			exp, s = e, s[:i]
		}
		if i := strings.IndexByte(s, '.'); i >= 0 {
			exp -= len(s) - i - 1
			s = s[:i] + s[i+1:]
		}
		if s == "" {
			bad()
		}
		v, ok := new(big.Int).SetString(s, 10)
		if !ok {
			bad()
		}
		m = v
	}
	if m.Sign() == 0 {
		return m, 0
	}
	ten := big.NewInt(10)
	for {
		q, r := new(big.Int).QuoRem(m, ten, new(big.Int))
		if r.Sign() != 0 {
			break
		}
		m, exp = q, exp+1
	}
	return m, exp
}

func zlit(v *big.Int) string {
	if v.Sign() < 0 {
		return "(" + v.String() + ")"
	}
	return v.String()
}

func decPair(m *big.Int, e int) string {
	return "(" + zlit(m) + ", " + zlit(big.NewInt(int64(e))) + ")"
}

const decNote = "decimal: (m, e) stands for m * 10^e"

// a constant of a package, emitted on first use; returns the Coq reference for use inside a function (integers only)
func (t *translator) constRef(p *pkgInfo, cd *constDecl, at ast.Node) (string, typ) {
	name := t.emitConst(p, cd, "")
	ty, ok := t.constType[name]
	if !ok || ty.k != kZ {
		failf("%s: unsupported construct: the constant %s.%s is not an integer constant", relpos(at.Pos()), p.dir, cd.name)
	}
	return name, ty
}

func (t *translator) emitConst(p *pkgInfo, cd *constDecl, coqName string) string {
	key := p.dir + "." + cd.name
	if n, ok := t.constGo[key]; ok {
		return n
	}
	if coqName == "" {
		coqName = cd.name
	}
	origin := "constant " + key
	if cd.iota_ || cd.expr == nil {
		failf("%s: unsupported construct: constant %s without its own value (implicit repetition / iota)", p.names[cd.file], key)
	}
	t.used[p.names[cd.file]] = true
	c := &fctx{t: t, pkg: p, imp: t.imports(p.files[cd.file]), label: origin}
	var def string
	e := unparen(cd.expr)
	neg := false
	if u, ok := e.(*ast.UnaryExpr); ok && u.Op == token.SUB {
		if l, ok := unparen(u.X).(*ast.BasicLit); ok && l.Kind == token.FLOAT {
			neg, e = true, l
		}
	}
	lit, isLit := e.(*ast.BasicLit)
	switch {
	case isLit && lit.Kind == token.FLOAT:
		if cd.typ != nil && exprString(cd.typ) != "float64" {
			failf("%s: unsupported construct: floating-point constant %s of type %s", relpos(cd.expr.Pos()), key, exprString(cd.typ))
		}
		m, ex := decimal(c, lit)
		if neg {
			m = new(big.Int).Neg(m)
		}
		def = fmt.Sprintf("Definition %s : (Z * Z)%%type := %s. (* %s; %s *)\n", coqName, decPair(m, ex), decNote, key)
	case isLit && lit.Kind == token.STRING:
		s, err := strconv.Unquote(lit.Value)
		if err != nil {
			failf("%s: unsupported construct: string literal of constant %s", relpos(cd.expr.Pos()), key)
		}
		bs := "nil"
		for i := len(s) - 1; i >= 0; i-- {
			bs = fmt.Sprintf("(cons %d %s)", s[i], bs)
		}
		def = fmt.Sprintf("Definition %s : list Z := %s. (* the bytes of the string constant %s *)\n", coqName, bs, key)
	default:
		if cd.typ != nil {
			switch exprString(cd.typ) {
			case "int64", "int":
			default:
				failf("%s: unsupported construct: constant %s of type %s", relpos(cd.expr.Pos()), key, exprString(cd.typ))
			}
		}
		code, ty := c.expr(newScope(nil), cd.expr)
		if ty.k != kZ {
			failf("%s: unsupported construct: constant %s of type %s", relpos(cd.expr.Pos()), key, ty)
		}
		t.constType[coqName] = ty
		def = fmt.Sprintf("Definition %s : Z := %s. (* %s *)\n", coqName, code, key)
	}
	t.global(coqName, origin)
	t.constGo[key] = coqName
	t.consts = append(t.consts, def)
	t.hints = append(t.hints, coqName)
	return coqName
}

func (t *translator) rawConst(name, ty, val, note, file string) {
	t.global(name, note)
	t.used[file] = true
	t.consts = append(t.consts, fmt.Sprintf("Definition %s : %s := %s. (* %s *)\n", name, ty, val, note))
	t.hints = append(t.hints, name)
}

// all constants of a package, in file order then source order
func (t *translator) packageConsts(dir string, onlyFile string) int {
	p := t.load(dir)
	n := 0
	for i, f := range p.files {
		if onlyFile != "" && p.names[i] != onlyFile {
			continue
		}
		for _, d := range f.Decls {
			gd, ok := d.(*ast.GenDecl)
			if !ok || gd.Tok != token.CONST {
				continue
			}
			for _, s := range gd.Specs {
				for _, nm := range s.(*ast.ValueSpec).Names {
					if nm.Name == "_" {
						continue
					}
					name := nm.Name
					t.try(intFile, name, func() { t.emitConst(p, p.consts[name], "") })
					n++
				}
			}
		}
	}
	return n
}

func (t *translator) oneFunc(dir, recv, name string) (*pkgInfo, *ast.FuncDecl) {
	p := t.load(dir)
	key := name
	if recv != "" {
		key = recv + "." + name
	}
	fds := p.funcs[key]
	if len(fds) != 1 {
		failf("function %s.%s: %d definitions in %s (exactly one expected)", dir, key, len(fds), dir)
	}
	return p, fds[0]
}

// `if v >= N { x = HighZoomConst ... }` in the line function: the zoom switches
func (t *translator) lineSwitches() {
	p, fd0 := t.oneFunc(linePkg, "", lineFunc)
	file := p.names[p.fileOf[fd0]]
	label := linePkg + "." + lineFunc
	type sw struct {
		v   string
		n   *big.Int
		pos token.Pos
	}
	var found []sw
	// the switches may sit in the line function or in a helper of the same file
	var fds []*ast.FuncDecl
	for i, f := range p.files {
		if p.names[i] != file {
			continue
		}
		for _, d := range f.Decls {
			if fd, ok := d.(*ast.FuncDecl); ok && fd.Body != nil {
				fds = append(fds, fd)
			}
		}
	}
	for _, fd := range fds {
		c := &fctx{t: t, pkg: p, imp: t.imports(p.files[p.fileOf[fd]]), label: label}
		ast.Inspect(fd.Body, func(n ast.Node) bool {
			is, ok := n.(*ast.IfStmt)
			if !ok || is.Init != nil {
				return true
			}
			// body: only assignments whose right-hand sides are package constants
			if len(is.Body.List) == 0 {
				return true
			}
			for _, s := range is.Body.List {
				as, ok := s.(*ast.AssignStmt)
				if !ok || as.Tok != token.ASSIGN || len(as.Lhs) != 1 || len(as.Rhs) != 1 {
					return true
				}
				id, ok := as.Rhs[0].(*ast.Ident)
				if !ok {
					return true
				}
				if _, isConst := p.consts[id.Name]; !isConst {
					return true
				}
			}
			be, ok := unparen(is.Cond).(*ast.BinaryExpr)
			if !ok {
				failf("%s: function %s: unsupported construct: threshold switch with the condition %s (expected `zoom >= constant`)", relpos(is.Pos()), label, exprString(is.Cond))
			}
			x, y, op := unparen(be.X), unparen(be.Y), be.Op
			if _, isVar := y.(*ast.Ident); isVar && c.constEval(nil, x) != nil && c.constEval(nil, y) == nil {
				// constant on the left: mirror
				x, y = y, x
				op = map[token.Token]token.Token{token.LSS: token.GTR, token.LEQ: token.GEQ, token.GTR: token.LSS, token.GEQ: token.LEQ}[op]
			}
			id, ok1 := x.(*ast.Ident)
			cv := c.constEval(nil, y) // a literal or a named integer constant
			if !ok1 || cv == nil || cv.float || (op != token.GEQ && op != token.GTR) || is.Else != nil {
				failf("%s: function %s: unsupported construct: threshold switch with the condition %s (expected `zoom >= integer constant`, no else)", relpos(is.Pos()), label, exprString(is.Cond))
			}
			iv := constant.ToInt(cv.v)
			v, _ := new(big.Int).SetString(iv.ExactString(), 10)
			if iv.Kind() != constant.Int || v == nil {
				failf("%s: function %s: unsupported construct: threshold %s", relpos(y.Pos()), label, exprString(y))
			}
			if op == token.GTR {
				v = new(big.Int).Add(v, big.NewInt(1))
			}
			found = append(found, sw{id.Name, v, is.Pos()})
			return true
		})
	}
	if len(found) != 2 || found[0].v == found[1].v {
		failf("%s: function %s: unsupported construct: %d threshold switches of the form `if zoom >= constant { minima = Constant }` found in %s, 2 on different variables expected", relpos(fd0.Pos()), label, len(found), file)
	}
	// by role: the first switch in the source is the horizontal one, the second the vertical one (whatever the variables are called)
	for i, s := range found {
		name := []string{"LineSwitch_hZoom", "LineSwitch_vZoom"}[i]
		t.rawConst(name, "Z", zlit(s.n), fmt.Sprintf("%s: the high-zoom thresholds are used when %s >= this value", label, s.v), file)
	}
}

// Point.SetLat: the latitude limit literal of `math.Abs(lat) > L` and the scale of math.Pow(10, 10.0)
// the literal a constant expression stands for: a literal, -literal, or a constant (declared in the function fd, in the package, in another package of
// the module) whose value is one; nil if it is anything else
func (c *fctx) literalOf(e ast.Expr, fd *ast.FuncDecl, depth int) (*ast.BasicLit, bool) {
	if depth > 20 {
		return nil, false
	}
	switch x := unparen(e).(type) {
	case *ast.BasicLit:
		return x, false
	case *ast.UnaryExpr:
		if x.Op == token.SUB || x.Op == token.ADD {
			l, neg := c.literalOf(x.X, fd, depth+1)
			if x.Op == token.SUB {
				neg = !neg
			}
			return l, neg
		}
	case *ast.Ident:
		// a constant declared inside the function
		var local ast.Expr
		if fd != nil && fd.Body != nil {
			ast.Inspect(fd.Body, func(n ast.Node) bool {
				gd, ok := n.(*ast.GenDecl)
				if !ok || gd.Tok != token.CONST {
					return true
				}
				for _, sp := range gd.Specs {
					vs := sp.(*ast.ValueSpec)
					for i, nm := range vs.Names {
						if nm.Name == x.Name && i < len(vs.Values) {
							local = vs.Values[i]
						}
					}
				}
				return true
			})
		}
		if local != nil {
			return c.literalOf(local, fd, depth+1)
		}
		if cd, ok := c.pkg.consts[x.Name]; ok && cd.expr != nil && !cd.iota_ {
			c.t.used[c.pkg.names[cd.file]] = true
			return c.literalOf(cd.expr, nil, depth+1)
		}
	case *ast.SelectorExpr:
		if dir, ok := c.pkgOf(nil, x.X); ok && !strings.HasPrefix(dir, "\x00") {
			p := c.t.load(dir)
			if cd, ok := p.consts[x.Sel.Name]; ok && cd.expr != nil && !cd.iota_ {
				c.t.used[p.names[cd.file]] = true
				sub := &fctx{t: c.t, pkg: p, imp: c.t.imports(p.files[cd.file]), label: c.label}
				return sub.literalOf(cd.expr, nil, depth+1)
			}
		}
	}
	return nil, false
}

func (t *translator) setLatConsts() {
	p, fd := t.oneFunc(coordPkg, setLatRecv, setLatFunc)
	file := p.names[p.fileOf[fd]]
	label := coordPkg + "." + setLatRecv + "." + setLatFunc
	c := &fctx{t: t, pkg: p, imp: t.imports(p.files[p.fileOf[fd]]), label: label}
	var limits []string
	var scales []string
	ast.Inspect(fd.Body, func(n ast.Node) bool {
		switch x := n.(type) {
		case *ast.BinaryExpr:
			lhs, rhs, op := unparen(x.X), unparen(x.Y), x.Op
			if call, ok := rhs.(*ast.CallExpr); ok && isMath(c, nil, call.Fun, "Abs") {
				// limit < math.Abs(lat): mirror
				lhs, rhs = rhs, lhs
				op = map[token.Token]token.Token{token.LSS: token.GTR, token.LEQ: token.GEQ, token.GTR: token.LSS, token.GEQ: token.LEQ}[op]
			}
			call, ok := lhs.(*ast.CallExpr)
			if ok && isMath(c, nil, call.Fun, "Abs") {
				// the limit: a literal, or a named constant (of the function, of the package, of another package of the module) that is one
				lit, neg := c.literalOf(rhs, fd, 0)
				if lit == nil || neg || op != token.GTR || (lit.Kind != token.FLOAT && lit.Kind != token.INT) {
					c.fail(x, "latitude limit test %s (expected math.Abs(lat) > literal or named literal constant)", exprString(x))
				}
				m, e := decimal(c, lit)
				limits = append(limits, decPair(m, e))
			}
		case *ast.CallExpr:
			if isMath(c, nil, x.Fun, "Pow") {
				if len(x.Args) != 2 {
					c.fail(x, "math.Pow call")
				}
				scales = append(scales, c.floatInt(newScope(nil), x))
			}
		}
		return true
	})
	if len(limits) != 1 {
		c.fail(fd, "%d tests of the form math.Abs(lat) > literal, 1 expected", len(limits))
	}
	if len(scales) == 0 {
		c.fail(fd, "no math.Pow(10, 10.0) scale")
	}
	for _, s := range scales {
		if s != scales[0] {
			c.fail(fd, "different math.Pow scales (%s, %s)", scales[0], s)
		}
	}
	t.rawConst("SetLat_limit", "(Z * Z)%type", limits[0], decNote+"; "+label+": error when math.Abs(lat) > this literal", file)
	t.rawConst("SetLat_scale", "Z", scales[0], fmt.Sprintf("%s: the %d occurrences of math.Pow(..) used to cut the latitude", label, len(scales)), file)
}

// zoom bounds of quadkeyCheckZoom: a conjunction of comparisons between a parameter and an integer literal
func (t *translator) quadkeyBounds() {
	p, fd := t.oneFunc(quadkeyPkg, "", quadkeyZoomFun)
	file := p.names[p.fileOf[fd]]
	label := quadkeyPkg + "." + quadkeyZoomFun
	bad := func(n ast.Node, what string) {
		failf("%s: function %s: unsupported construct: %s (the zoom bounds are read from a single `return lo <= zoom && zoom <= hi && ..`)", relpos(n.Pos()), label, what)
	}
	if len(fd.Body.List) != 1 {
		bad(fd, fmt.Sprintf("%d statements", len(fd.Body.List)))
	}
	rs, ok := fd.Body.List[0].(*ast.ReturnStmt)
	if !ok || len(rs.Results) != 1 {
		bad(fd, "no single return")
	}
	var params []string
	for _, f := range fd.Type.Params.List {
		for _, n := range f.Names {
			params = append(params, n.Name)
		}
	}
	lo, hi := map[string]*big.Int{}, map[string]*big.Int{}
	var walk func(e ast.Expr)
	walk = func(e ast.Expr) {
		e = unparen(e)
		be, ok := e.(*ast.BinaryExpr)
		if !ok {
			bad(e, "operand "+exprString(e))
		}
		if be.Op == token.LAND {
			walk(be.X)
			walk(be.Y)
			return
		}
		x, y, op := unparen(be.X), unparen(be.Y), be.Op
		if _, isLit := x.(*ast.BasicLit); isLit { // literal on the left: mirror
			x, y = y, x
			op = map[token.Token]token.Token{token.LSS: token.GTR, token.LEQ: token.GEQ, token.GTR: token.LSS, token.GEQ: token.LEQ}[op]
		}
		id, ok1 := x.(*ast.Ident)
		lit, ok2 := y.(*ast.BasicLit)
		if !ok1 || !ok2 || lit.Kind != token.INT {
			bad(e, "comparison "+exprString(e))
		}
		v, _ := new(big.Int).SetString(strings.ReplaceAll(lit.Value, "_", ""), 0)
		if v == nil {
			bad(e, "literal "+lit.Value)
		}
		var m map[string]*big.Int
		switch op {
		case token.GEQ:
			m = lo
		case token.GTR:
			m, v = lo, new(big.Int).Add(v, big.NewInt(1))
		case token.LEQ:
			m = hi
		case token.LSS:
			m, v = hi, new(big.Int).Sub(v, big.NewInt(1))
		default:
			bad(e, "comparison "+exprString(e))
		}
		if _, dup := m[id.Name]; dup {
			bad(e, "second bound for "+id.Name)
		}
		m[id.Name] = v
	}
	walk(rs.Results[0])
	if len(lo) != len(params) || len(hi) != len(params) {
		bad(rs, "not exactly one lower and one upper bound per parameter")
	}
	for _, n := range params {
		if lo[n] == nil || hi[n] == nil {
			bad(rs, "no bounds for "+n)
		}
		t.rawConst("QuadkeyZoom_"+n+"_min", "Z", zlit(lo[n]), label+": smallest accepted "+n, file)
		t.rawConst("QuadkeyZoom_"+n+"_max", "Z", zlit(hi[n]), label+": largest accepted "+n, file)
	}
}

// absolute path of every source file something may be taken from (the files of dependencies live outside the tree)
var absOf = map[string]string{}

func sourcePath(root, name string) string {
	if a, ok := absOf[name]; ok {
		return a
	}
	return filepath.Join(root, filepath.FromSlash(name))
}

// the directory of the package `path` of a dependency in the module cache, and its name <module>@<version>/<rest>
func externalDir(path string) (string, string) {
	b, err := os.ReadFile(filepath.Join(repoRoot, "go.mod"))
	if err != nil {
		failf("cannot read go.mod: %v", err)
	}
	mod, ver := "", ""
	for _, l := range strings.Split(string(b), "\n") {
		f := strings.Fields(strings.TrimPrefix(strings.TrimSpace(l), "require "))
		if len(f) >= 2 && (path == f[0] || strings.HasPrefix(path, f[0]+"/")) && len(f[0]) > len(mod) && strings.HasPrefix(f[1], "v") {
			mod, ver = f[0], f[1]
		}
	}
	if mod == "" {
		failf("package %s: no module of go.mod provides it", path)
	}
	cache := os.Getenv("GOMODCACHE")
	if cache == "" {
		gp := os.Getenv("GOPATH")
		if gp == "" {
			home, _ := os.UserHomeDir()
			gp = filepath.Join(home, "go")
		}
		cache = filepath.Join(strings.Split(gp, string(os.PathListSeparator))[0], "pkg", "mod")
	}
	rest := strings.TrimPrefix(path, mod)
	return filepath.Join(cache, filepath.FromSlash(mod+"@"+ver+rest)), mod + "@" + ver + rest
}

func modulePath(root string) string {
	b, err := os.ReadFile(filepath.Join(root, "go.mod"))
	if err != nil {
		failf("cannot read go.mod of %s: %v", root, err)
	}
	for _, l := range strings.Split(string(b), "\n") {
		f := strings.Fields(l)
		if len(f) == 2 && f[0] == "module" {
			return strings.Trim(f[1], "\"")
		}
	}
	failf("no module line in go.mod of %s", root)
	return ""
}

func newTranslator(module string) *translator {
	return &translator{module: module, pkgs: map[string]*pkgInfo{}, used: map[string]bool{}, constType: map[string]typ{}, constGo: map[string]string{},
		globals: map[string]string{}, sigs: map[string]*sig{}, inProgress: map[string]bool{},
		fused: map[string]bool{}, fglobals: map[string]string{}, fsigs: map[string]*sig{}}
}

// a translator with its own output that shares the parsed packages
func (t *translator) sub(m64 bool) *translator {
	r := newTranslator(t.module)
	r.pkgs = t.pkgs
	r.m64 = m64
	return r
}

func run(repo, out, outF, out64, outFS string) {
	abs, err := filepath.Abs(repo)
	if err != nil {
		failf("%v", err)
	}
	repoRoot = abs
	t := newTranslator(modulePath(abs))

	// constants; every unit that is rejected is left out and reported, the others are written
	t.try(intFile, "the constants of "+constsPkg, func() {
		if t.packageConsts(constsPkg, "") == 0 {
			failf("package %s declares no constants", constsPkg)
		}
	})
	t.try(intFile, "LonMinima,LatMinima,AltMinima,HightZoomLonMinima,HightZoomLatMinima,HightZoomAltMinima", func() {
		if t.packageConsts(linePkg, lineFile) == 0 {
			failf("%s declares no constants (the line thresholds are expected there)", lineFile)
		}
	})
	t.try(intFile, "LineSwitch_*", t.lineSwitches)
	t.try(intFile, "SetLat_limit,SetLat_scale", t.setLatConsts)
	t.try(intFile, "QuadkeyZoom_*", t.quadkeyBounds)
	nFixedConsts := len(t.consts)
	// functions (constants met on the way are appended to t.consts)
	for _, tg := range targets {
		tg := tg
		t.try(intFile, tg.coqName(), func() { t.function(tg, nil) })
	}
	// integer kernels found by their role (float.go's machinery over Z), in a translator of their own that shares the parsed packages
	tz := t.sub(false)
	tz.runExtracted(intFile)
	for f := range tz.fused {
		t.used[f] = true
	}
	t.rejected = append(t.rejected, tz.rejected...)
	// the float64 helpers of common/spatial (struct values)
	var textFS string
	if outFS != "" {
		ts := t.sub(false)
		ts.sv = true
		textFS = ts.runSpatial(abs)
		t.rejected = append(t.rejected, ts.rejected...)
	}
	// the same kernels in int64 mode
	var text64 string
	if out64 != "" {
		t64 := t.sub(true)
		text64 = t64.run64(abs)
		t.rejected = append(t.rejected, t64.rejected...)
	}

	var files []string
	for f := range t.used {
		files = append(files, f)
	}
	sort.Strings(files)
	var b strings.Builder
	b.WriteString("(* Generated.v — written by vtrans (harness/cmd/vtrans) from the Go source tree. DO NOT EDIT: bin/check regenerates this file.\n")
	b.WriteString("   Go int64 = Z; `/` = Z.quot, `%` = Z.rem, `<<` = Z.shiftl, `>>` = Z.shiftr; an `error` result is a bool (true = non-nil);\n")
	b.WriteString("   int64(math.Pow(B, float64(e))) = B ^ e; math.Abs(float64(e)) = Z.abs e; a floating-point constant is the exact decimal (m, e) = m * 10^e.\n")
	b.WriteString("   Source files (relative to the repository root) and their SHA-256:\n")
	for _, f := range files {
		data, err := os.ReadFile(sourcePath(abs, f))
		if err != nil {
			failf("%v", err)
		}
		fmt.Fprintf(&b, "     %x  %s\n", sha256.Sum256(data), f)
	}
	b.WriteString("*)\n")
	b.WriteString("From Coq Require Import ZArith Bool.\nOpen Scope Z_scope.\n\n")
	b.WriteString(t.rejectedNote(intFile))
	b.WriteString("(* ---- constants ---- *)\n")
	for i, c := range t.consts {
		if i == nFixedConsts {
			b.WriteString("(* constants referred to by the functions below *)\n")
		}
		b.WriteString(c)
	}
	b.WriteString("\n(* ---- functions (callees first) ---- *)\n")
	for _, f := range t.funcs {
		b.WriteString(f)
		b.WriteString("\n")
	}
	b.WriteString("(* ---- values found by their role in the function (see TRANSLATOR-NOTES.md) ---- *)\n")
	for _, f := range tz.ffuncs {
		b.WriteString(f)
		b.WriteString("\n")
	}
	b.WriteString("(* every definition of this file, for `autounfold with sidgen` *)\n")
	b.WriteString("Create HintDb sidgen.\n")
	for _, h := range append(append([]string{}, t.hints...), tz.fhints...) {
		fmt.Fprintf(&b, "#[global] Hint Unfold %s : sidgen.\n", h)
	}
	// the float file is produced before anything is written
	var textF string
	if outF != "" {
		textF = t.runFloat(abs)
	}
	if err := os.WriteFile(out, []byte(b.String()), 0o644); err != nil {
		failf("cannot write %s: %v", out, err)
	}
	if outF != "" {
		if err := os.WriteFile(outF, []byte(textF), 0o644); err != nil {
			failf("cannot write %s: %v", outF, err)
		}
	}
	if out64 != "" {
		if err := os.WriteFile(out64, []byte(text64), 0o644); err != nil {
			failf("cannot write %s: %v", out64, err)
		}
	}
	if outFS != "" {
		if err := os.WriteFile(outFS, []byte(textFS), 0o644); err != nil {
			failf("cannot write %s: %v", outFS, err)
		}
	}
	if len(t.rejected) > 0 {
		// machine-readable: one line per missing unit, then the count; both files have been written without these definitions
		for _, r := range t.rejected {
			fmt.Fprintf(os.Stderr, "vtrans: rejected: file=%s definitions=%s: %s\n", r.file, r.defs, r.msg)
		}
		fmt.Fprintf(os.Stderr, "vtrans: %d unit(s) of output not produced; everything else has been written\n", len(t.rejected))
		os.Exit(3)
	}
}

func main() {
	repo := flag.String("repo", "", "root of the Go source tree")
	out := flag.String("out", "", "Coq file to write (integer kernels and constants)")
	outF := flag.String("outf", "", "Coq file to write (float64 kernels); optional")
	out64 := flag.String("out64", "", "Coq file to write (the integer kernels with Go's int64 semantics); optional")
	outFS := flag.String("outfs", "", "Coq file to write (the float64 helpers of common/spatial, struct values as tuples); optional")
	flag.Parse()
	if *repo == "" || *out == "" || flag.NArg() != 0 {
		fmt.Fprintln(os.Stderr, "usage: vtrans -repo <tree> -out <Generated.v> [-outf <GeneratedF.v>] [-out64 <Generated64.v>] [-outfs <GeneratedFS.v>]")
		os.Exit(2)
	}
	defer func() {
		if r := recover(); r != nil {
			if f, ok := r.(failure); ok {
				fmt.Fprintln(os.Stderr, "vtrans: "+f.msg)
				os.Exit(1)
			}
			panic(r)
		}
	}()
	run(*repo, *out, *outF, *out64, *outFS)
}
