// spatial.go — struct-value mode of the float translator: the float64 helpers of common/spatial (and what they call in common and in the
// dependency gonum.org/v1/gonum/spatial/r3, read from the module cache at the version go.mod requires) as whole functions.
// A struct (also `type Vector3 r3.Vec`, also the array type `[3][3]float64`) is ONE value: the tuple of its fields / elements in declaration
// order, nested where the fields are structs; `v.X`, `a[1][2]` are projections, `T{..}` a tuple, `T(x)` between types of the same shape the
// identity, `x.M(..)` the function Type_M applied to x first. Output: coq/generated/GeneratedFS.v.
package main

import (
	"crypto/sha256"
	"fmt"
	"go/ast"
	"go/constant"
	"go/token"
	"os"
	"sort"
	"strings"
)

const spatialFile = "GeneratedFS.v"
const spatialPkg = "common/spatial"

// Not listed: UniqueAppend, MaxPoint, MinPoint (slices of pointers, range loops: outside the subset; `vtrans` says so if they are added).
var stargets = []ftarget{
	{pkg: "common", name: "AlmostEqual"},
	{pkg: spatialPkg, name: "NewVectorFromPoints"},
	{pkg: spatialPkg, recv: "Vector3", name: "Add"},
	{pkg: spatialPkg, recv: "Vector3", name: "Sub"},
	{pkg: spatialPkg, recv: "Vector3", name: "Scale"},
	{pkg: spatialPkg, recv: "Vector3", name: "Dot"},
	{pkg: spatialPkg, recv: "Vector3", name: "Cross"},
	{pkg: spatialPkg, recv: "Vector3", name: "Norm"},
	{pkg: spatialPkg, recv: "Vector3", name: "L1Norm"},
	{pkg: spatialPkg, recv: "Vector3", name: "Unit"},
	{pkg: spatialPkg, recv: "Vector3", name: "Cos"},
	{pkg: spatialPkg, name: "NewMatrix3"},
	{pkg: spatialPkg, name: "NewUnitMatrix3"},
	{pkg: spatialPkg, recv: "Matrix3", name: "Mul"},
	{pkg: spatialPkg, recv: "Matrix3", name: "MulVec"},
	{pkg: spatialPkg, recv: "Point3", name: "IsClose"},
	{pkg: spatialPkg, recv: "Point3", name: "Translate"},
	{pkg: spatialPkg, recv: "Point3", name: "DistancePoint"},
	{pkg: spatialPkg, name: "NewLineFromPoints"},
	{pkg: spatialPkg, recv: "Line3", name: "ToPoint"},
	{pkg: spatialPkg, recv: "Line3", name: "End"},
	{pkg: spatialPkg, recv: "Line3", name: "Start"},
	{pkg: spatialPkg, name: "QuatFromAxisAngle"},
	{pkg: spatialPkg, name: "RotateBetweenVector"},
}

// ---- types ----

func shapeEq(a, b typ) bool {
	if a.k != b.k {
		return false
	}
	if a.k != kStruct {
		return true
	}
	if len(a.fields) != len(b.fields) {
		return false
	}
	for i := range a.fields {
		if !shapeEq(a.fieldType(i), b.fieldType(i)) {
			return false
		}
	}
	return true
}

func zeroOf(t typ) string {
	if t.k != kStruct {
		return t.zero()
	}
	var zs []string
	for i := range t.fields {
		zs = append(zs, zeroOf(t.fieldType(i)))
	}
	return tuple(zs)
}

// a type expression in struct-value mode
func (c *fctx) svType(e ast.Expr, depth int) (typ, bool) {
	if depth > 10 {
		return typ{}, false
	}
	switch x := e.(type) {
	case *ast.ParenExpr:
		return c.svType(x.X, depth+1)
	case *ast.Ident:
		switch x.Name {
		case "float64":
			return typ{k: kF}, true
		case "int64":
			return typ{k: kZ}, true
		case "bool":
			return typ{k: kBool}, true
		case "error":
			return typ{k: kErr}, true
		}
		if ts, ok := c.pkg.types[x.Name]; ok {
			return c.svNamed(c.pkg, ts, depth)
		}
	case *ast.SelectorExpr:
		if dir, ok := c.pkgOf(nil, x.X); ok && dir != "\x00math" {
			p := c.t.load(dir)
			if ts, ok := p.types[x.Sel.Name]; ok {
				return c.svNamed(p, ts, depth)
			}
		}
	case *ast.ArrayType:
		if x.Len == nil {
			return typ{}, false
		}
		cv := c.constEval(nil, x.Len)
		if cv == nil || cv.float {
			return typ{}, false
		}
		n, exact := constant.Int64Val(constant.ToInt(cv.v))
		et, ok := c.svType(x.Elt, depth+1)
		if !ok || !exact || n < 1 || n > 16 {
			return typ{}, false
		}
		r := typ{k: kStruct, name: fmt.Sprintf("[%d]%s", n, et.name)}
		if et.k != kStruct {
			r.name = fmt.Sprintf("[%d]%s", n, et)
		}
		for i := int64(0); i < n; i++ {
			r.fields = append(r.fields, fmt.Sprintf("%d", i))
			r.ftypes = append(r.ftypes, et)
		}
		return r, true
	case *ast.StructType:
		r := typ{k: kStruct, name: "struct"}
		for _, f := range x.Fields.List {
			ft, ok := c.svType(f.Type, depth+1)
			if !ok || len(f.Names) == 0 {
				return typ{}, false
			}
			for _, n := range f.Names {
				r.fields = append(r.fields, n.Name)
				r.ftypes = append(r.ftypes, ft)
			}
		}
		if len(r.fields) == 0 {
			return typ{}, false
		}
		return r, true
	}
	return typ{}, false
}

// a named type: its underlying struct / array shape under the name dir.Name (methods are looked up by that name)
func (c *fctx) svNamed(p *pkgInfo, ts *ast.TypeSpec, depth int) (typ, bool) {
	// the declaration is read with the imports of the file it stands in
	imp := c.imp
	for i, f := range p.files {
		if f.Pos() <= ts.Pos() && ts.End() <= f.End() {
			imp = c.t.imports(p.files[i])
			c.t.fused[p.names[i]] = true
		}
	}
	sub := &fctx{t: c.t, pkg: p, imp: imp, label: c.label, fmode: true}
	u, ok := sub.svType(ts.Type, depth+1)
	if !ok {
		return typ{}, false
	}
	if u.k == kStruct {
		u.name = p.dir + "." + ts.Name.Name
	}
	return u, true
}

// ---- values ----

func proj(code string, t typ, i int) string {
	var ns []string
	for j := range t.fields {
		ns = append(ns, fmt.Sprintf("s%d", j))
	}
	return "(let " + pattern(ns) + " := " + code + " in " + ns[i] + ")"
}

// the value with the component at `path` replaced
func setAt(code string, t typ, path []int, val string, depth int) string {
	if len(path) == 0 {
		return val
	}
	var ns []string
	for j := range t.fields {
		ns = append(ns, fmt.Sprintf("u%d_%d", depth, j))
	}
	parts := append([]string{}, ns...)
	parts[path[0]] = setAt(ns[path[0]], t.fieldType(path[0]), path[1:], val, depth+1)
	return "(let " + pattern(ns) + " := " + code + " in " + tuple(parts) + ")"
}

func fieldIndex(t typ, name string) int {
	for i, f := range t.fields {
		if f == name {
			return i
		}
	}
	return -1
}

// x.f / x[i] chains rooted at a variable: the variable and the path of component indices
func (c *fctx) svPath(sc *scope, e ast.Expr) (*varInfo, []int, typ, bool) {
	switch x := unparen(e).(type) {
	case *ast.Ident:
		v := sc.lookup(x.Name)
		if v == nil || v.t.k != kStruct || v.fields != nil {
			return nil, nil, typ{}, false
		}
		return v, nil, v.t, true
	case *ast.SelectorExpr:
		v, path, t, ok := c.svPath(sc, x.X)
		if !ok || t.k != kStruct {
			return nil, nil, typ{}, false
		}
		i := fieldIndex(t, x.Sel.Name)
		if i < 0 {
			return nil, nil, typ{}, false
		}
		return v, append(path, i), t.fieldType(i), true
	case *ast.IndexExpr:
		v, path, t, ok := c.svPath(sc, x.X)
		if !ok || t.k != kStruct {
			return nil, nil, typ{}, false
		}
		cv := c.constEval(sc, x.Index)
		if cv == nil || cv.float {
			c.fail(e, "index %s that is not an integer constant", exprString(x.Index))
		}
		n, _ := constant.Int64Val(constant.ToInt(cv.v))
		i := fieldIndex(t, fmt.Sprintf("%d", n))
		if i < 0 {
			c.fail(e, "index %d out of range", n)
		}
		return v, append(path, i), t.fieldType(i), true
	}
	return nil, nil, typ{}, false
}

// the forms only the struct-value mode knows; ok = false: not one of them
func (c *fctx) svExpr(sc *scope, e ast.Expr) (string, typ, bool) {
	switch x := e.(type) {
	case *ast.Ident:
		if v := sc.lookup(x.Name); v != nil && v.t.k == kStruct && v.fields == nil {
			return v.coq, v.t, true
		}
	case *ast.SelectorExpr:
		if _, isPkg := c.pkgOf(sc, x.X); isPkg {
			return "", typ{}, false
		}
		code, t := c.expr(sc, x.X)
		if t.k != kStruct {
			c.fail(e, "selector .%s on a %s", x.Sel.Name, t)
		}
		i := fieldIndex(t, x.Sel.Name)
		if i < 0 {
			c.fail(e, "%s has no field %s", t, x.Sel.Name)
		}
		return proj(code, t, i), t.fieldType(i), true
	case *ast.IndexExpr:
		code, t := c.expr(sc, x.X)
		if t.k != kStruct {
			c.fail(e, "index on a %s", t)
		}
		cv := c.constEval(sc, x.Index)
		if cv == nil || cv.float {
			c.fail(e, "index %s that is not an integer constant (loops over array elements are outside the subset)", exprString(x.Index))
		}
		n, _ := constant.Int64Val(constant.ToInt(cv.v))
		i := fieldIndex(t, fmt.Sprintf("%d", n))
		if i < 0 {
			c.fail(e, "index %d out of range", n)
		}
		return proj(code, t, i), t.fieldType(i), true
	case *ast.CompositeLit:
		if x.Type == nil {
			c.fail(e, "composite literal without a type")
		}
		t := c.goType(x.Type)
		if t.k != kStruct {
			c.fail(e, "composite literal of type %s", t)
		}
		return c.svLiteral(sc, x, t), t, true
	case *ast.CallExpr:
		// T(x): conversion between types of the same shape
		if len(x.Args) == 1 && !x.Ellipsis.IsValid() {
			if t, ok := c.svTypeOfExpr(sc, x.Fun); ok && t.k == kStruct {
				code, ta := c.expr(sc, x.Args[0])
				if !shapeEq(t, ta) {
					c.fail(e, "conversion of a %s to %s", ta, t)
				}
				return code, t, true
			}
		}
		// x.M(..): the method of x's type
		if sel, ok := x.Fun.(*ast.SelectorExpr); ok {
			if _, isPkg := c.pkgOf(sc, sel.X); !isPkg {
				rcode, rt := c.expr(sc, sel.X)
				if rt.k != kStruct || !strings.Contains(rt.name, ".") {
					c.fail(e, "method call on a %s", rt)
				}
				k := strings.LastIndex(rt.name, ".")
				s := c.t.ffunction(ftarget{pkg: rt.name[:k], recv: rt.name[k+1:], name: sel.Sel.Name}, x)
				if len(x.Args)+1 != len(s.params) {
					c.fail(e, "call of %s with %d arguments", exprString(x.Fun), len(x.Args))
				}
				code := "(" + s.coq
				if s.libm {
					c.libm = true
					code += " " + libmVar
				}
				code += " " + rcode
				for i, a := range x.Args {
					ac, _ := c.exprAs(sc, a, s.params[i+1])
					code += " " + ac
				}
				if len(s.results) != 1 {
					c.fail(e, "call of %s (%d results) in a single-value position", exprString(x.Fun), len(s.results))
				}
				return code + ")", s.results[0], true
			}
		}
	}
	return "", typ{}, false
}

// is the expression the name of a type?
func (c *fctx) svTypeOfExpr(sc *scope, f ast.Expr) (typ, bool) {
	switch y := unparen(f).(type) {
	case *ast.Ident:
		if sc.lookup(y.Name) != nil {
			return typ{}, false
		}
		if _, ok := c.pkg.types[y.Name]; ok {
			return c.svType(y, 0)
		}
	case *ast.SelectorExpr:
		if dir, ok := c.pkgOf(sc, y.X); ok && dir != "\x00math" {
			if _, ok := c.t.load(dir).types[y.Sel.Name]; ok {
				return c.svType(y, 0)
			}
		}
	}
	return typ{}, false
}

func (c *fctx) svLiteral(sc *scope, cl *ast.CompositeLit, t typ) string {
	vals := make([]string, len(t.fields))
	set := make([]bool, len(t.fields))
	for i, el := range cl.Elts {
		idx, val := i, el
		if kv, ok := el.(*ast.KeyValueExpr); ok {
			key, ok := kv.Key.(*ast.Ident)
			if !ok {
				c.fail(cl, "composite literal key of kind %s", nodeKind(kv.Key))
			}
			idx, val = fieldIndex(t, key.Name), kv.Value
		}
		if idx < 0 || idx >= len(t.fields) || set[idx] {
			c.fail(cl, "composite literal element %d", i)
		}
		ft := t.fieldType(idx)
		if inner, ok := val.(*ast.CompositeLit); ok && inner.Type == nil && ft.k == kStruct {
			vals[idx] = c.svLiteral(sc, inner, ft) // {{..}, {..}}: the element type is implied
		} else {
			code, te := c.exprAs(sc, val, ft)
			if ft.k == kStruct && !shapeEq(te, ft) {
				c.fail(val, "a %s where a %s is expected", te, ft)
			}
			vals[idx] = code
		}
		set[idx] = true
	}
	for i := range vals {
		if !set[i] {
			vals[i] = zeroOf(t.fieldType(i))
		}
	}
	return tuple(vals)
}

// x.f = e / x[i][j] = e on a struct variable
func (c *fctx) svAssign(x *ast.AssignStmt, sc *scope) (string, bool) {
	if len(x.Lhs) != 1 || len(x.Rhs) != 1 {
		return "", false
	}
	switch x.Lhs[0].(type) {
	case *ast.SelectorExpr, *ast.IndexExpr:
	default:
		return "", false
	}
	v, path, ft, ok := c.svPath(sc, x.Lhs[0])
	if !ok {
		return "", false
	}
	var val string
	if op, isOp := assignOps[x.Tok]; isOp {
		cur := v.coq
		ct := v.t
		for _, i := range path {
			cur, ct = proj(cur, ct, i), ct.fieldType(i)
		}
		b, tb := c.exprAs(sc, x.Rhs[0], ft)
		val, _ = c.binary(x, op, cur, ft, b, tb)
	} else if x.Tok == token.ASSIGN {
		val, _ = c.exprAs(sc, x.Rhs[0], ft)
	} else {
		c.fail(x, "assignment operator %s on a component", x.Tok)
	}
	return "let " + v.coq + " := " + setAt(v.coq, v.t, path, val, 0) + " in\n", true
}

// ---- output ----

func (t *translator) runSpatial(abs string) string {
	for _, tg := range stargets {
		tg := tg
		t.try(spatialFile, tg.coqName(), func() { t.ffunction(tg, nil) })
	}
	var files []string
	for f := range t.fused {
		files = append(files, f)
	}
	sort.Strings(files)
	var b strings.Builder
	b.WriteString("(* GeneratedFS.v — written by vtrans (harness/cmd/vtrans, spatial.go) from the Go source tree. DO NOT EDIT: bin/check regenerates this file.\n")
	b.WriteString("   The float64 helpers of common/spatial (and what they call in common and in gonum's spatial/r3, read from the module cache) as whole functions,\n")
	b.WriteString("   in the vocabulary of GeneratedF.v. A struct, a defined struct type, an array type is ONE value: the tuple of its fields / elements in declaration order;\n")
	b.WriteString("   math.Sqrt = PrimFloat.sqrt, math.NaN() = nan, math.Hypot Sin Cos .. = fields of the record GeneratedF.libm.\n")
	b.WriteString("   Source files (relative to the repository root, or <module>@<version>/.. in the module cache) and their SHA-256:\n")
	for _, f := range files {
		data, err := os.ReadFile(sourcePath(abs, f))
		if err != nil {
			failf("%v", err)
		}
		fmt.Fprintf(&b, "     %x  %s\n", sha256.Sum256(data), f)
	}
	b.WriteString("*)\n")
	b.WriteString("From Coq Require Import ZArith Bool Floats.\nFrom SID Require Import F64.\nFrom SIDGen Require Import GeneratedF.\nOpen Scope Z_scope.\n\n")
	b.WriteString(t.rejectedNote(spatialFile))
	b.WriteString("(* ---- definitions (callees first) ---- *)\n")
	for _, f := range t.ffuncs {
		b.WriteString(f)
		b.WriteString("\n")
	}
	b.WriteString("(* every definition of this file, for `autounfold with sidgenfs` *)\n")
	b.WriteString("Create HintDb sidgenfs.\n")
	for _, h := range t.fhints {
		fmt.Fprintf(&b, "#[global] Hint Unfold %s : sidgenfs.\n", h)
	}
	return b.String()
}
