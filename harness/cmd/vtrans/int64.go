// int64.go — the int64 mode of vtrans: the same kernels as in Generated.v, with Go's int64 semantics explicit.
//
// Every + - * / % << >> and unary - is an operation of coq/theories/I64.v (add64 sub64 mul64 quot64 rem64 shl64 shr64 neg64):
// a computation `M Z = option (Z * bool)` — None = run-time panic (negative shift count, division by zero), the flag = no
// operation so far has left the int64 range. int64(math.Pow(2, float64(e))) = pow2_64 e and with math.Abs of the exponent
// pow2abs_64 e (saturating to MinInt64 from 2^63 on, as amd64 does). Statements are sequenced with bind (`x <- m ;; k`),
// `&&` and `||` evaluate their right operand only when needed (and64, or64); comparisons are the ones of Z on the wrapped values.
// A definition has type M (result): `fits (k args)` is the computed, decidable statement that nothing wrapped.
package main

import (
	"crypto/sha256"
	"fmt"
	"go/ast"
	"go/constant"
	"go/token"
	"os"
	"sort"
	"strings"
)

const file64 = "Generated64.v"

func pureT(t typ) typ { t.m = false; return t }

// a fresh name for an intermediate result
func (c *fctx) tmp() string {
	c.tmpCnt++
	return fmt.Sprintf("t%d", c.tmpCnt)
}

// bind a variable (or a tuple pattern) to a value or, in int64 mode, to the result of a computation
func (c *fctx) let(pat, code string, t typ) string {
	if t.m {
		return pat + " <- " + code + " ;;\n"
	}
	return "let " + pat + " := " + code + " in\n"
}

// the final value of a definition
func (c *fctx) retValue(code string) string {
	if c.t.m64 {
		return "(ret " + code + ")"
	}
	return code
}

var arith64 = map[token.Token]string{token.ADD: "add64", token.SUB: "sub64", token.MUL: "mul64", token.QUO: "quot64", token.REM: "rem64",
	token.SHL: "shl64", token.SHR: "shr64"}

func (c *fctx) binary64(n ast.Node, op token.Token, a string, ta typ, b string, tb typ) (string, typ) {
	// operands that are computations run first, left to right
	runBoth := func() string {
		pre := ""
		if ta.m {
			x := c.tmp()
			pre += x + " <- " + a + " ;; "
			a = x
		}
		if tb.m {
			x := c.tmp()
			pre += x + " <- " + b + " ;; "
			b = x
		}
		return pre
	}
	if f, ok := arith64[op]; ok {
		if ta.k != kZ || tb.k != kZ {
			c.fail(n, "operator %s on %s and %s", op, ta, tb)
		}
		if (op == token.SHL || op == token.SHR) && c.unsignedCount {
			f += "u" // count wrapped in uint64(..): no panic for a negative count
		}
		c.unsignedCount = false
		pre := runBoth()
		return "(" + pre + f + " " + a + " " + b + ")", typ{k: kZ, m: true}
	}
	if f, ok := cmp[op]; ok || op == token.NEQ {
		if op == token.NEQ {
			f = "Z.eqb"
		}
		pre := runBoth()
		var code string
		switch {
		case ta.k == kZ && tb.k == kZ:
			code = "(" + f + " " + a + " " + b + ")"
		case (op == token.EQL || op == token.NEQ) && ta.k == kBool && tb.k == kBool:
			code = "(Bool.eqb " + a + " " + b + ")"
		default:
			c.fail(n, "comparison %s between %s and %s", op, ta, tb)
		}
		if op == token.NEQ {
			code = "(negb " + code + ")"
		}
		if pre != "" {
			return "(" + pre + "ret " + code + ")", typ{k: kBool, m: true}
		}
		return code, typ{k: kBool}
	}
	if op == token.LAND || op == token.LOR {
		if ta.k != kBool || tb.k != kBool {
			c.fail(n, "operator %s on %s and %s", op, ta, tb)
		}
		f, g := "andb", "and64"
		if op == token.LOR {
			f, g = "orb", "or64"
		}
		if !ta.m && !tb.m {
			return "(" + f + " " + a + " " + b + ")", typ{k: kBool}
		}
		// the right operand is evaluated only when the left one does not decide
		pre := ""
		if ta.m {
			x := c.tmp()
			pre = x + " <- " + a + " ;; "
			a = x
		}
		if !tb.m {
			b = "(ret " + b + ")"
		}
		return "(" + pre + g + " " + a + " " + b + ")", typ{k: kBool, m: true}
	}
	c.fail(n, "binary operator %s", op)
	return "", typ{}
}

func (c *fctx) unary64(n ast.Node, op token.Token, a string, ta typ) (string, typ) {
	pre := ""
	if ta.m {
		x := c.tmp()
		pre = x + " <- " + a + " ;; "
		a = x
	}
	switch {
	case op == token.SUB && ta.k == kZ:
		return "(" + pre + "neg64 " + a + ")", typ{k: kZ, m: true}
	case op == token.ADD && ta.k == kZ:
		if pre != "" {
			return "(" + pre + "ret " + a + ")", typ{k: kZ, m: true}
		}
		return a, ta
	case op == token.NOT && ta.k == kBool:
		if pre != "" {
			return "(" + pre + "ret (negb " + a + "))", typ{k: kBool, m: true}
		}
		return "(negb " + a + ")", ta
	}
	c.fail(n, "unary operator %s on %s", op, ta)
	return "", typ{}
}

// int64(math.Pow(2, float64(e))) and int64(math.Pow(2, math.Abs(float64(e)))) in int64 mode; e is the argument of int64(..)
func (c *fctx) pow64(sc *scope, e ast.Expr) (string, typ) {
	call, ok := unparen(e).(*ast.CallExpr)
	if !ok || len(call.Args) != 2 || !isMath(c, sc, call.Fun, "Pow") {
		c.fail(e, "int64(..) of the floating-point expression %s (int64 mode knows int64(math.Pow(2, float64(e))) and int64(math.Pow(2, math.Abs(float64(e)))))", exprString(e))
	}
	base, negBase := c.literalOf(call.Args[0], c.curFunc, 0)
	if base == nil || negBase {
		c.fail(e, "math.Pow with a base that is not a literal (or a named literal constant)")
	}
	bv := constant.MakeFromLiteral(base.Value, base.Kind, 0)
	if f, exact := constant.Float64Val(constant.ToFloat(bv)); bv.Kind() == constant.Unknown || f != 2 || !exact {
		c.fail(e, "math.Pow with the base %s (int64 mode models base 2 only)", base.Value)
	}
	f := "pow2_64"
	ex := unparen(call.Args[1])
	if ab, ok := ex.(*ast.CallExpr); ok && len(ab.Args) == 1 && isMath(c, sc, ab.Fun, "Abs") {
		f = "pow2abs_64"
		ex = unparen(ab.Args[0])
	}
	cv, ok := ex.(*ast.CallExpr)
	if !ok || len(cv.Args) != 1 || !isConv(sc, cv.Fun, "float64") {
		if c.isFloatExpr(sc, call.Args[1]) && !c.fmode {
			// a float64 that is an integer by construction, e.g. a local bound to math.Abs(float64(e)): its integer value (pure)
			return "(pow2_64 " + c.floatInt(sc, call.Args[1]) + ")", typ{k: kZ, m: true}
		}
		c.fail(e, "exponent %s of math.Pow (expected float64(e) or math.Abs(float64(e)) of an int64 e)", exprString(call.Args[1]))
	}
	code, t := c.expr(sc, cv.Args[0])
	if t.k != kZ {
		c.fail(e, "float64(..) of a non-int64 value")
	}
	pre := ""
	if t.m {
		x := c.tmp()
		pre = x + " <- " + code + " ;; "
		code = x
	}
	return "(" + pre + f + " " + code + ")", typ{k: kZ, m: true}
}

// is e of the form math.Pow(lit, float64(..)) / math.Pow(lit, math.Abs(float64(..)))? (the integer idiom inside the float-mode machinery)
func (c *fctx) isIntPow(sc *scope, e ast.Expr) bool {
	call, ok := unparen(e).(*ast.CallExpr)
	if !ok || len(call.Args) != 2 || !isMath(c, sc, call.Fun, "Pow") {
		return false
	}
	if _, isLit := unparen(call.Args[0]).(*ast.BasicLit); !isLit {
		return false
	}
	ex := unparen(call.Args[1])
	if ab, ok := ex.(*ast.CallExpr); ok && len(ab.Args) == 1 && isMath(c, sc, ab.Fun, "Abs") {
		ex = unparen(ab.Args[0])
	}
	cv, ok := ex.(*ast.CallExpr)
	return ok && len(cv.Args) == 1 && isConv(sc, cv.Fun, "float64")
}

// the int64 file: the integer kernels of Generated.v (functions and values found by role), same names
func (t *translator) run64(abs string) string {
	for _, tg := range targets {
		tg := tg
		t.try(file64, tg.coqName(), func() { t.function(tg, nil) })
	}
	t.runExtracted(file64)
	used := map[string]bool{}
	for f := range t.used {
		used[f] = true
	}
	for f := range t.fused {
		used[f] = true
	}
	var files []string
	for f := range used {
		files = append(files, f)
	}
	sort.Strings(files)
	var b strings.Builder
	b.WriteString("(* Generated64.v — written by vtrans (harness/cmd/vtrans, int64.go) from the Go source tree. DO NOT EDIT: bin/check regenerates this file.\n")
	b.WriteString("   The integer kernels of Generated.v once more, with Go's int64 semantics explicit (vocabulary: coq/theories/I64.v): + - * / % << >> and unary - are\n")
	b.WriteString("   add64 sub64 mul64 quot64 rem64 shl64 shr64 neg64, int64(math.Pow(2, float64(e))) = pow2_64 e (pow2abs_64 with math.Abs); a definition is a\n")
	b.WriteString("   computation M (result) = option (result * bool): None = run-time panic, the flag = no operation left the int64 range.\n")
	b.WriteString("   Source files (relative to the repository root) and their SHA-256:\n")
	for _, f := range files {
		data, err := os.ReadFile(sourcePath(abs, f))
		if err != nil {
			failf("%v", err)
		}
		fmt.Fprintf(&b, "     %x  %s\n", sha256.Sum256(data), f)
	}
	b.WriteString("*)\n")
	b.WriteString("From Coq Require Import ZArith Bool.\nFrom SID Require Import I64.\nOpen Scope Z_scope.\n\n")
	b.WriteString(t.rejectedNote(file64))
	if len(t.consts) > 0 {
		b.WriteString("(* ---- constants referred to by the functions below ---- *)\n")
		for _, c := range t.consts {
			b.WriteString(c)
		}
		b.WriteString("\n")
	}
	b.WriteString("(* ---- functions (callees first) ---- *)\n")
	for _, f := range t.funcs {
		b.WriteString(f)
		b.WriteString("\n")
	}
	b.WriteString("(* ---- values found by their role in the function ---- *)\n")
	for _, f := range t.ffuncs {
		b.WriteString(f)
		b.WriteString("\n")
	}
	b.WriteString("(* every definition of this file, for `autounfold with sidgen64` *)\n")
	b.WriteString("Create HintDb sidgen64.\n")
	for _, h := range append(append([]string{}, t.hints...), t.fhints...) {
		fmt.Fprintf(&b, "#[global] Hint Unfold %s : sidgen64.\n", h)
	}
	return b.String()
}
