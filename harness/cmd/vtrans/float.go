// float.go — the float64 subset of vtrans: Go float64 = Coq primitive float (binary64), written to a second file
// (module SIDGen.GeneratedF) in the vocabulary of coq/theories/F64.v.
//
//   - constant expressions are evaluated exactly (go/constant, the arithmetic of the Go compiler's type checker) and rounded
//     once where Go rounds them; a float64 constant is emitted as the hexadecimal literal strconv.FormatFloat(v, 'x', -1, 64);
//   - + - * / = PrimFloat.add sub mul div; == < <= = PrimFloat.eqb ltb leb (a > b is ltb b a); unary - = PrimFloat.opp;
//   - math.Floor Ceil Abs = F64.ffloor F64.fceil PrimFloat.abs; math.Pow(2, float64(z)) = F64.pow2f z;
//     float64(i) = F64.of_Z i; int64(f) = F64.Ztrunc_f f (an option: it can be bound and returned, not computed with);
//     math.Mod of two operands that are integral by construction = F64.fmod_int;
//   - every other function of package math that is listed in libmUnary/libmBinary is a field of the record `libm` the
//     definition takes as its first argument (Tan and Sin are different fields: exchanging them changes the term);
//   - `if` without a return inside: `let x := if c then .. else x in` for the assigned variable (a tuple of them when there
//     are several) instead of a duplicated continuation; struct values are tuples of their fields.
//
// Three kinds of definition: a whole function; a value the function uses, found by the part it plays (the operand of the
// n-th strconv.FormatInt, an argument of the n-th object.NewPoint, .. - see `anchor`), else by the name of a local variable:
// backward slice over the top-level statements before the use; locals that are inputs are parameters, found by role as
// well; the body of the function's only top-level loop as a state transformer.
// A definition that cannot be produced is left out and reported (translator.try); the others are written.
package main

import (
	"crypto/sha256"
	"fmt"
	"go/ast"
	"go/constant"
	"go/token"
	"math"
	"os"
	"regexp"
	"sort"
	"strconv"
	"strings"
)

// a local variable that is a parameter of an extracted value: found by its role in the function, else by its name
type cut struct {
	name, typ string
	role      cutRole
}

type ftarget struct {
	pkg      string
	recv     string
	name     string
	out      string // Coq name (default: Name, Recv_Name, Name_local)
	local    string // extracted value: the output name is <func>_<local>; also the name looked for when the role is not found
	role     anchor // extracted value: where the function uses the value (the operand of a call ...); nil: by name only
	weak     bool   // the role is a weak one: look for the name first, for the role only if no statement assigns that name
	inputs   []cut  // with local / a loop: local variables that are parameters of the definition
	loopBody bool   // the body of the only top-level for loop, as a function of the variables declared before it
	loopNth  int    // with loopBody / loopCond: the n-th (1-based) top-level for loop; statements before it other than `var x T` are skipped (their variables must be inputs)
	withPost bool   // with loopBody: the loop's post statement runs after the body
	loopCond bool   // the condition of the n-th top-level for loop
	intFile  bool   // an integer kernel (Generated.v / Generated64.v): int64(math.Pow(2, float64(e))) is the integer idiom
}

// An anchor says which expression of the function body an extracted value is, by the part it plays: (index of the top-level statement
// that uses it, the expression, a description). The value is that of the expression just before that statement (index = number of
// statements: when control reaches the end of the function).
type anchor struct {
	doc  string
	find func(c *fctx, fd *ast.FuncDecl) (int, ast.Expr, bool)
}
type cutRole struct {
	doc  string
	find func(c *fctx, fd *ast.FuncDecl) (string, bool)
}

func (a anchor) isSet() bool { return a.find != nil }

// calls of pkgdir.fn (pkgdir "" = a function of the same package; "\x00strconv" = the standard library's strconv) in source order
func (c *fctx) callsOf(fd *ast.FuncDecl, pkgdir, fn string) []*ast.CallExpr {
	var out []*ast.CallExpr
	ast.Inspect(fd.Body, func(n ast.Node) bool {
		call, ok := n.(*ast.CallExpr)
		if !ok {
			return true
		}
		switch f := call.Fun.(type) {
		case *ast.Ident:
			if pkgdir == "" && f.Name == fn {
				out = append(out, call)
			}
		case *ast.SelectorExpr:
			if id, ok := f.X.(*ast.Ident); ok && pkgdir != "" && f.Sel.Name == fn && c.imp[id.Name] == pkgdir {
				out = append(out, call)
			}
		}
		return true
	})
	return out
}

func topIndex(fd *ast.FuncDecl, n ast.Node) int {
	for i, s := range fd.Body.List {
		if s.Pos() <= n.Pos() && n.End() <= s.End() {
			return i
		}
	}
	return -1
}

// argument `arg` of the nth (1-based; negative: from the end) call of pkgdir.fn, when the function has exactly `total` such calls (0: any number);
// `strip` removes a conversion int64(..) around the argument
func callArg(what, pkgdir, fn string, nth, total, arg int, strip bool) anchor {
	return anchor{doc: what, find: func(c *fctx, fd *ast.FuncDecl) (int, ast.Expr, bool) {
		calls := c.callsOf(fd, pkgdir, fn)
		if len(calls) == 0 || (total != 0 && len(calls) != total) {
			return 0, nil, false
		}
		i := nth - 1
		if nth < 0 {
			i = len(calls) + nth
		}
		if i < 0 || i >= len(calls) || arg >= len(calls[i].Args) || calls[i].Ellipsis.IsValid() {
			return 0, nil, false
		}
		e := unparen(calls[i].Args[arg])
		if strip {
			if cv, ok := e.(*ast.CallExpr); ok && len(cv.Args) == 1 && isConv(nil, cv.Fun, "int64") {
				e = unparen(cv.Args[0])
			}
		}
		idx := topIndex(fd, calls[i])
		if idx < 0 {
			return 0, nil, false
		}
		return idx, e, true
	}}
}

// the variable the body of the first top-level `if` assigns (a single assignment `x = e` as the first statement of the body); its value at the end
var firstConditionalAssignment = anchor{doc: "the variable assigned in the first top-level if", find: func(c *fctx, fd *ast.FuncDecl) (int, ast.Expr, bool) {
	for _, s := range fd.Body.List {
		is, ok := s.(*ast.IfStmt)
		if !ok {
			continue
		}
		if len(is.Body.List) == 0 {
			return 0, nil, false
		}
		as, ok := is.Body.List[0].(*ast.AssignStmt)
		if !ok || as.Tok != token.ASSIGN || len(as.Lhs) != 1 {
			return 0, nil, false
		}
		id, ok := as.Lhs[0].(*ast.Ident)
		if !ok {
			return 0, nil, false
		}
		return len(fd.Body.List), id, true
	}
	return 0, nil, false
}}

// the variable the function's first statement defines; its value at the end
var firstDefinition = anchor{doc: "the variable the first statement defines", find: func(c *fctx, fd *ast.FuncDecl) (int, ast.Expr, bool) {
	if len(fd.Body.List) == 0 {
		return 0, nil, false
	}
	as, ok := fd.Body.List[0].(*ast.AssignStmt)
	if !ok || as.Tok != token.DEFINE || len(as.Lhs) != 1 {
		return 0, nil, false
	}
	id, ok := as.Lhs[0].(*ast.Ident)
	if !ok {
		return 0, nil, false
	}
	return len(fd.Body.List), id, true
}}

// M in the first top-level `if s > M || ..`
var wrapBound = anchor{doc: "the right-hand operand of the first wrap test `s > M || s < 0`", find: func(c *fctx, fd *ast.FuncDecl) (int, ast.Expr, bool) {
	for i, s := range fd.Body.List {
		is, ok := s.(*ast.IfStmt)
		if !ok || is.Init != nil {
			continue
		}
		or, ok := unparen(is.Cond).(*ast.BinaryExpr)
		if !ok || or.Op != token.LOR {
			continue
		}
		cmp, ok := unparen(or.X).(*ast.BinaryExpr)
		if !ok {
			return 0, nil, false
		}
		switch cmp.Op {
		case token.GTR:
			return i, unparen(cmp.Y), true
		case token.LSS:
			return i, unparen(cmp.X), true
		}
		return 0, nil, false
	}
	return 0, nil, false
}}

// the variable that receives the result of a call selected by `is` (x = f(..), x := f(..)); exactly one such assignment
func assignedFromCall(what string, is func(c *fctx, call *ast.CallExpr) bool) cutRole {
	return cutRole{doc: what, find: func(c *fctx, fd *ast.FuncDecl) (string, bool) {
		name, n := "", 0
		ast.Inspect(fd.Body, func(nd ast.Node) bool {
			as, ok := nd.(*ast.AssignStmt)
			if !ok || len(as.Lhs) != 1 || len(as.Rhs) != 1 {
				return true
			}
			call, ok := unparen(as.Rhs[0]).(*ast.CallExpr)
			if !ok || !is(c, call) {
				return true
			}
			if id, ok := as.Lhs[0].(*ast.Ident); ok {
				if name != id.Name {
					n++
				}
				name = id.Name
			}
			return true
		})
		return name, n == 1
	}}
}

var resultOfMathMod = assignedFromCall("the variable that receives math.Mod(..)", func(c *fctx, call *ast.CallExpr) bool { return isMath(c, nil, call.Fun, "Mod") })

func resultOfMethod(m string) cutRole {
	return assignedFromCall("the variable that receives the result of the method "+m, func(c *fctx, call *ast.CallExpr) bool {
		sel, ok := call.Fun.(*ast.SelectorExpr)
		if !ok || sel.Sel.Name != m || len(call.Args) != 0 {
			return false
		}
		id, ok := sel.X.(*ast.Ident)
		return ok && c.imp[id.Name] == ""
	})
}

// the nth (1-based) top-level `x := l[..]` of exactly `total`
func indexedElement(nth, total int) cutRole {
	return cutRole{doc: fmt.Sprintf("the variable defined by the %d. of the %d top-level statements `x := list[..]`", nth, total), find: func(c *fctx, fd *ast.FuncDecl) (string, bool) {
		var names []string
		for _, s := range fd.Body.List {
			as, ok := s.(*ast.AssignStmt)
			if !ok || as.Tok != token.DEFINE || len(as.Lhs) != 1 || len(as.Rhs) != 1 {
				continue
			}
			if _, ok := unparen(as.Rhs[0]).(*ast.IndexExpr); !ok {
				continue
			}
			if id, ok := as.Lhs[0].(*ast.Ident); ok {
				names = append(names, id.Name)
			}
		}
		if len(names) != total {
			return "", false
		}
		return names[nth-1], true
	}}
}

// the value of the field `field` in the composite literal the function's last top-level return statement returns
func returnedField(field string) anchor {
	return anchor{doc: "the field " + field + " of the returned composite literal", find: func(c *fctx, fd *ast.FuncDecl) (int, ast.Expr, bool) {
		for i := len(fd.Body.List) - 1; i >= 0; i-- {
			rs, ok := fd.Body.List[i].(*ast.ReturnStmt)
			if !ok {
				continue
			}
			if len(rs.Results) != 1 {
				return 0, nil, false
			}
			e := unparen(rs.Results[0])
			if u, ok := e.(*ast.UnaryExpr); ok && u.Op == token.AND {
				e = unparen(u.X)
			}
			cl, ok := e.(*ast.CompositeLit)
			if !ok {
				return 0, nil, false
			}
			for _, el := range cl.Elts {
				if kv, ok := el.(*ast.KeyValueExpr); ok {
					if id, ok := kv.Key.(*ast.Ident); ok && id.Name == field {
						return i, unparen(kv.Value), true
					}
				}
			}
			return 0, nil, false
		}
		return 0, nil, false
	}}
}

// the variable compared with 0 (`x > 0`) in the condition of the n-th top-level for loop
func loopCounter(nth int) cutRole {
	return cutRole{doc: fmt.Sprintf("the variable x of the test `x > 0` in the condition of the %d. top-level for loop", nth), find: func(c *fctx, fd *ast.FuncDecl) (string, bool) {
		n := 0
		for _, st := range fd.Body.List {
			f, ok := st.(*ast.ForStmt)
			if !ok {
				continue
			}
			n++
			if n != nth || f.Cond == nil {
				continue
			}
			name := ""
			ast.Inspect(f.Cond, func(nd ast.Node) bool {
				if be, ok := nd.(*ast.BinaryExpr); ok && be.Op == token.GTR && name == "" {
					if id, ok := unparen(be.X).(*ast.Ident); ok {
						if lit, ok := unparen(be.Y).(*ast.BasicLit); ok && lit.Value == "0" {
							name = id.Name
						}
					}
				}
				return true
			})
			return name, name != ""
		}
		return "", false
	}}
}

// the bound z of the test `i < z` in the condition of the n-th top-level for loop
func loopBound(nth int) cutRole {
	return cutRole{doc: fmt.Sprintf("the bound z of the test `i < z` in the condition of the %d. top-level for loop", nth), find: func(c *fctx, fd *ast.FuncDecl) (string, bool) {
		n := 0
		for _, st := range fd.Body.List {
			f, ok := st.(*ast.ForStmt)
			if !ok {
				continue
			}
			n++
			if n != nth || f.Cond == nil {
				continue
			}
			name := ""
			ast.Inspect(f.Cond, func(nd ast.Node) bool {
				if be, ok := nd.(*ast.BinaryExpr); ok && be.Op == token.LSS && name == "" {
					if id, ok := unparen(be.Y).(*ast.Ident); ok {
						name = id.Name
					}
				}
				return true
			})
			return name, name != ""
		}
		return "", false
	}}
}

// integer kernels found by their role: emitted over Z into Generated.v and in int64 mode into Generated64.v
var itargets = []ftarget{
	{pkg: "integrate", name: "NewHighSpatialID", local: "threshold", role: returnedField("threshold"), intFile: true},
	{pkg: "transform", name: "convertHorizontalIDToQuadkey", loopCond: true, loopNth: 1, out: "convertHorizontalIDToQuadkey_condX", intFile: true,
		inputs: []cut{{"xIndexTmp", "int64", loopCounter(1)}, {"hZoom", "int64", loopBound(1)}}},
	{pkg: "transform", name: "convertHorizontalIDToQuadkey", loopBody: true, withPost: true, loopNth: 1, out: "convertHorizontalIDToQuadkey_stepX", intFile: true,
		inputs: []cut{{"xIndexTmp", "int64", loopCounter(1)}, {"hZoom", "int64", loopBound(1)}}},
	{pkg: "transform", name: "convertHorizontalIDToQuadkey", loopCond: true, loopNth: 2, out: "convertHorizontalIDToQuadkey_condY", intFile: true,
		inputs: []cut{{"yIndexTmp", "int64", loopCounter(2)}, {"hZoom", "int64", loopBound(2)}}},
	{pkg: "transform", name: "convertHorizontalIDToQuadkey", loopBody: true, withPost: true, loopNth: 2, out: "convertHorizontalIDToQuadkey_stepY", intFile: true,
		inputs: []cut{{"yIndexTmp", "int64", loopCounter(2)}, {"hZoom", "int64", loopBound(2)}}},
}

const objectPkg = "common/object"
const strconvPkg = "\x00strconv"

var ftargets = []ftarget{
	{pkg: "common", name: "DegreeToRadian"},
	{pkg: "common", name: "RadianToDegree"},
	// the operands X of the three strconv.FormatInt(.., 10) that build "z/x/y": the 2nd and 3rd are int64(X)
	{pkg: "shape", name: "getHorizontalTileIdOnPoint", local: "lonIndex", role: callArg("X in the 2nd of the 3 calls strconv.FormatInt(int64(X), 10)", strconvPkg, "FormatInt", 2, 3, 0, true)},
	{pkg: "shape", name: "getHorizontalTileIdOnPoint", local: "latIndex", role: callArg("X in the 3rd of the 3 calls strconv.FormatInt(int64(X), 10)", strconvPkg, "FormatInt", 3, 3, 0, true)},
	{pkg: "shape", name: "getVerticalTileIdOnAltitude", local: "vIndex", role: callArg("X in the 2nd of the 2 calls strconv.FormatInt(int64(X), 10)", strconvPkg, "FormatInt", 2, 2, 0, true)},
	{pkg: "shape", name: "getAltitudeOnVerticalIndexAndZoom"},
	// the eight corners object.NewPoint(lon, lat, alt): NW NE SE SW at the bottom, then at the top
	{pkg: "shape", name: "getVertexOnVoxelOffset", local: "latIndexFloat", role: firstConditionalAssignment, weak: true},
	{pkg: "shape", name: "getVertexOnVoxelOffset", local: "northLat", role: callArg("the latitude argument of the 1st of the 8 calls object.NewPoint", objectPkg, "NewPoint", 1, 8, 1, false)},
	{pkg: "shape", name: "getVertexOnVoxelOffset", local: "southLat", role: callArg("the latitude argument of the 3rd of the 8 calls object.NewPoint", objectPkg, "NewPoint", 3, 8, 1, false)},
	{pkg: "shape", name: "getVertexOnVoxelOffset", local: "westLon", role: callArg("the longitude argument of the 1st of the 8 calls object.NewPoint", objectPkg, "NewPoint", 1, 8, 0, false),
		inputs: []cut{{"lonIndexFloat", "float64", resultOfMathMod}}},
	{pkg: "shape", name: "getVertexOnVoxelOffset", local: "eastLon", role: callArg("the longitude argument of the 2nd of the 8 calls object.NewPoint", objectPkg, "NewPoint", 2, 8, 0, false),
		inputs: []cut{{"lonIndexFloat", "float64", resultOfMathMod}}},
	{pkg: "shape", name: "getVertexOnVoxelOffset", local: "vTopAlt", role: callArg("the altitude argument of the 5th of the 8 calls object.NewPoint", objectPkg, "NewPoint", 5, 8, 2, false)},
	// the centre: the three arguments of the last object.NewPoint; inputs: x := list[0] (min) and x := list[len-1] (max), lon, lat, alt in this order
	{pkg: "shape", name: "getCenterPointOnVoxelOffset", local: "centerLon", role: callArg("the longitude argument of the last call object.NewPoint", objectPkg, "NewPoint", -1, 0, 0, false),
		inputs: []cut{{"lonMax", "float64", indexedElement(2, 6)}, {"lonMin", "float64", indexedElement(1, 6)}}},
	{pkg: "shape", name: "getCenterPointOnVoxelOffset", local: "centerLat", role: callArg("the latitude argument of the last call object.NewPoint", objectPkg, "NewPoint", -1, 0, 1, false),
		inputs: []cut{{"latMax", "float64", indexedElement(4, 6)}, {"latMin", "float64", indexedElement(3, 6)}}},
	{pkg: "shape", name: "getCenterPointOnVoxelOffset", local: "centerAlt", role: callArg("the altitude argument of the last call object.NewPoint", objectPkg, "NewPoint", -1, 0, 2, false),
		inputs: []cut{{"altMax", "float64", indexedElement(6, 6)}, {"altMin", "float64", indexedElement(5, 6)}}},
	{pkg: "common/object", recv: "Point", name: "SetLon"},
	{pkg: "common/object", recv: "Point", name: "SetLat"},
	{pkg: "transform", name: "convertVerticallIDToBit", local: "spatialIDMaxHeight", role: callArg("the altitude argument of the 1st of the 2 calls calcBitIndex", "", "calcBitIndex", 1, 2, 0, false)},
	{pkg: "transform", name: "convertVerticallIDToBit", local: "spatialIDMinHeight", role: callArg("the altitude argument of the 2nd of the 2 calls calcBitIndex", "", "calcBitIndex", 2, 2, 0, false)},
	{pkg: "transform", name: "convertBitToVerticalID", local: "voxelHeight", role: firstDefinition, weak: true},
	{pkg: "transform", name: "convertBitToVerticalID", local: "maxAltitude", role: callArg("the altitude argument of the 1st of the 2 calls object.NewPoint", objectPkg, "NewPoint", 1, 2, 2, false)},
	{pkg: "transform", name: "convertBitToVerticalID", local: "minAltitude", role: callArg("the altitude argument of the 2nd of the 2 calls object.NewPoint", objectPkg, "NewPoint", 2, 2, 2, false)},
	{pkg: "transform", name: "calcBitIndex", loopBody: true, out: "calcBitIndex_step"},
	{pkg: "operated", name: "GetShiftingSpatialID", local: "maxIndex", role: wrapBound, inputs: []cut{{"hZoom", "int64", resultOfMethod("HZoom")}}},
}

const libmVar = "M"
const fzero = "(0x0p+0)%float"

// functions of package math without a model in F64.v: fields of the record `libm`
var libmUnary = []string{"Acos", "Asin", "Atan", "Cos", "Cosh", "Exp", "Log", "Log10", "Log2", "Round", "Sin", "Sinh", "Sqrt", "Tan", "Tanh", "Trunc"}
var libmBinary = []string{"Atan2", "Hypot", "Mod", "Pow"}

func libmField(name string) string { return "m_" + strings.ToLower(name) }

func inList(l []string, s string) bool {
	for _, x := range l {
		if x == s {
			return true
		}
	}
	return false
}

// ---------------------------------------------------------------------------------------------------------------
// constants

// the untyped constants of package math the subset knows (the literals of $GOROOT/src/math/const.go; checked against the
// compiled package below)
var mathConsts = map[string]string{
	"Pi":      "3.14159265358979323846264338327950288419716939937510582097494459",
	"E":       "2.71828182845904523536028747135266249775724709369995957496696763",
	"Sqrt2":   "1.41421356237309504880168872420969807856967187537694807317667974",
	"Ln2":     "0.693147180559945309417232121458176568075500134360255254120680009",
	"Ln10":    "2.30258509299404568401799145468436420760110148862877297603332790",
	"Log2E":   "1.44269504088896340735992468100189213742664595415298593413544940", // 1/Ln2; the value, not the expression
	"Log10E":  "0.434294481903251827651128918916605082294397005803666566114453783",
	"SqrtPi":  "1.77245385090551602729816748334114518279754945612238712821380779",
	"SqrtE":   "1.64872127070012814684865078781416357165377610071014801157507931",
	"Phi":     "1.61803398874989484820458683436563811772030917980576286213544862",
	"SqrtPhi": "1.27201964951406896425242246173749149171560804184009624861664038",
}

type cval struct {
	v     constant.Value
	float bool // kind float (a float literal, math.Pi, a float64 constant or anything computed from one)
	typed bool // typed constant (int64 / float64): already rounded, arithmetic rounds after every operation
}

func round64(c *fctx, at ast.Node, v constant.Value) constant.Value {
	f, _ := constant.Float64Val(constant.ToFloat(v))
	if math.IsInf(f, 0) || math.IsNaN(f) {
		c.fail(at, "constant %s overflows float64", v.ExactString())
	}
	return constant.MakeFloat64(f)
}

// the translator's constant arithmetic must agree with the compiler that built it
func init() {
	pi := constant.MakeFromLiteral(mathConsts["Pi"], token.FLOAT, 0)
	chk := func(v constant.Value, want float64, what string) {
		f, _ := constant.Float64Val(v)
		if f != want {
			panic("vtrans: constant arithmetic disagrees with the Go compiler on " + what)
		}
	}
	chk(pi, math.Pi, "math.Pi")
	chk(constant.BinaryOp(pi, token.QUO, constant.MakeInt64(180)), math.Pi/180, "math.Pi / 180")
	chk(constant.BinaryOp(constant.MakeInt64(180), token.QUO, pi), 180/math.Pi, "180 / math.Pi")
	chk(constant.MakeFromLiteral("85.0511287798", token.FLOAT, 0), 85.0511287798, "85.0511287798")
	chk(constant.MakeFromLiteral(mathConsts["E"], token.FLOAT, 0), math.E, "math.E")
	chk(constant.MakeFromLiteral(mathConsts["Sqrt2"], token.FLOAT, 0), math.Sqrt2, "math.Sqrt2")
	chk(constant.MakeFromLiteral(mathConsts["Ln2"], token.FLOAT, 0), math.Ln2, "math.Ln2")
	chk(constant.MakeFromLiteral(mathConsts["Ln10"], token.FLOAT, 0), math.Ln10, "math.Ln10")
	chk(constant.MakeFromLiteral(mathConsts["Log2E"], token.FLOAT, 0), math.Log2E, "math.Log2E")
	chk(constant.MakeFromLiteral(mathConsts["Log10E"], token.FLOAT, 0), math.Log10E, "math.Log10E")
	chk(constant.MakeFromLiteral(mathConsts["SqrtPi"], token.FLOAT, 0), math.SqrtPi, "math.SqrtPi")
	chk(constant.MakeFromLiteral(mathConsts["SqrtE"], token.FLOAT, 0), math.SqrtE, "math.SqrtE")
	chk(constant.MakeFromLiteral(mathConsts["Phi"], token.FLOAT, 0), math.Phi, "math.Phi")
	chk(constant.MakeFromLiteral(mathConsts["SqrtPhi"], token.FLOAT, 0), math.SqrtPhi, "math.SqrtPhi")
}

var expZeros = regexp.MustCompile(`p([+-])0+([0-9])`)

// float64 -> Coq literal, digits produced by Go itself
func hexlit(f float64) string {
	s := strconv.FormatFloat(f, 'x', -1, 64)
	s = expZeros.ReplaceAllString(s, "p$1$2")
	return "(" + s + ")%float"
}

func (c *fctx) constDeclValue(p *pkgInfo, cd *constDecl, at ast.Node) *cval {
	key := p.dir + "." + cd.name
	if cd.iota_ || cd.expr == nil {
		c.fail(at, "constant %s without its own value (implicit repetition / iota)", key)
	}
	if c.t.inProgress["const "+key] {
		c.fail(at, "constant %s refers to itself", key)
	}
	c.t.inProgress["const "+key] = true
	defer delete(c.t.inProgress, "const "+key)
	c.t.fused[p.names[cd.file]] = true
	sub := &fctx{t: c.t, pkg: p, imp: c.t.imports(p.files[cd.file]), label: "constant " + key, fmode: true}
	cv := sub.constEval(nil, cd.expr)
	if cv == nil {
		sub.fail(cd.expr, "the value %s of the constant is not a numeric constant expression of the subset", exprString(cd.expr))
	}
	if cd.typ != nil {
		switch exprString(cd.typ) {
		case "float64":
			if cv.typed && !cv.float {
				sub.fail(cd.expr, "integer constant of another type as a float64")
			}
			return &cval{v: round64(sub, cd.expr, cv.v), float: true, typed: true}
		case "int64", "int":
			if cv.float && cv.typed {
				sub.fail(cd.expr, "float64 constant as an integer")
			}
			iv := constant.ToInt(cv.v)
			if iv.Kind() != constant.Int {
				sub.fail(cd.expr, "the constant %s is not an integer", cv.v.ExactString())
			}
			return &cval{v: iv, typed: true}
		default:
			sub.fail(cd.typ, "constant of type %s", exprString(cd.typ))
		}
	}
	return cv
}

// the value of a numeric constant expression, or nil when e is not one
func (c *fctx) constEval(sc *scope, e ast.Expr) *cval {
	switch x := e.(type) {
	case *ast.ParenExpr:
		return c.constEval(sc, x.X)
	case *ast.BasicLit:
		switch x.Kind {
		case token.INT:
			v := constant.MakeFromLiteral(x.Value, token.INT, 0)
			if v.Kind() == constant.Unknown {
				c.fail(x, "integer literal %s", x.Value)
			}
			return &cval{v: v}
		case token.FLOAT:
			v := constant.MakeFromLiteral(x.Value, token.FLOAT, 0)
			if v.Kind() == constant.Unknown {
				c.fail(x, "floating-point literal %s", x.Value)
			}
			return &cval{v: v, float: true}
		}
		return nil
	case *ast.UnaryExpr:
		if x.Op != token.SUB && x.Op != token.ADD {
			return nil
		}
		a := c.constEval(sc, x.X)
		if a == nil {
			return nil
		}
		return &cval{v: constant.UnaryOp(x.Op, a.v, 0), float: a.float, typed: a.typed}
	case *ast.BinaryExpr:
		switch x.Op {
		case token.ADD, token.SUB, token.MUL, token.QUO:
		default:
			return nil
		}
		a := c.constEval(sc, x.X)
		if a == nil {
			return nil
		}
		b := c.constEval(sc, x.Y)
		if b == nil {
			return nil
		}
		if a.typed && b.typed && a.float != b.float {
			c.fail(e, "constant operation on an int64 and a float64")
		}
		r := &cval{typed: a.typed || b.typed}
		switch {
		case a.typed:
			r.float = a.float
		case b.typed:
			r.float = b.float
		default:
			r.float = a.float || b.float
		}
		av, bv := a.v, b.v
		if r.typed && !r.float {
			// an untyped operand takes the integer type: it must be an integer
			av, bv = constant.ToInt(av), constant.ToInt(bv)
			if av.Kind() != constant.Int || bv.Kind() != constant.Int {
				c.fail(e, "constant %s truncated to an integer", exprString(e))
			}
		}
		op := x.Op
		if op == token.QUO {
			if constant.Sign(bv) == 0 {
				c.fail(e, "constant division by zero")
			}
			if !r.float {
				op = token.QUO_ASSIGN // integer division
			}
		}
		if r.float {
			av, bv = constant.ToFloat(av), constant.ToFloat(bv)
		}
		r.v = constant.BinaryOp(av, op, bv)
		if r.v.Kind() == constant.Unknown {
			c.fail(e, "constant expression %s", exprString(e))
		}
		if r.typed && r.float {
			r.v = round64(c, e, r.v)
		}
		return r
	case *ast.Ident:
		if sc != nil {
			if v := sc.lookup(x.Name); v != nil {
				return v.cv // a local constant or the counter of an unrolled loop; nil for a variable
			}
		}
		if cd, ok := c.pkg.consts[x.Name]; ok {
			return c.constDeclValue(c.pkg, cd, e)
		}
		return nil
	case *ast.SelectorExpr:
		dir, ok := c.pkgOf(sc, x.X)
		if !ok {
			return nil
		}
		if dir == "\x00math" {
			if lit, ok := mathConsts[x.Sel.Name]; ok {
				return &cval{v: constant.MakeFromLiteral(lit, token.FLOAT, 0), float: true}
			}
			return nil
		}
		if strings.HasPrefix(dir, "\x00") {
			return nil
		}
		p := c.t.load(dir)
		if cd, ok := p.consts[x.Sel.Name]; ok {
			return c.constDeclValue(p, cd, e)
		}
		return nil
	case *ast.CallExpr:
		if len(x.Args) == 1 && isConv(sc, x.Fun, "float64") {
			a := c.constEval(sc, x.Args[0])
			if a == nil {
				return nil
			}
			return &cval{v: round64(c, e, a.v), float: true, typed: true}
		}
		if len(x.Args) == 1 && isConv(sc, x.Fun, "int64") {
			a := c.constEval(sc, x.Args[0])
			if a == nil {
				return nil
			}
			iv := constant.ToInt(a.v)
			if iv.Kind() != constant.Int {
				c.fail(e, "constant %s truncated to an integer", exprString(x.Args[0]))
			}
			return &cval{v: iv, typed: true}
		}
		if len(x.Args) == 2 && isMath(c, sc, x.Fun, "Pow") {
			// math.Pow of two constants: the value Go's own math.Pow returns (base 2 is left to the pow2f idiom)
			a, b := c.constEval(sc, x.Args[0]), c.constEval(sc, x.Args[1])
			if a == nil || b == nil {
				return nil
			}
			af, _ := constant.Float64Val(constant.ToFloat(a.v))
			bf, _ := constant.Float64Val(constant.ToFloat(b.v))
			if af == 2 && bf == math.Trunc(bf) {
				return nil
			}
			r := math.Pow(af, bf)
			if math.IsInf(r, 0) || math.IsNaN(r) {
				c.fail(e, "math.Pow(%v, %v) is not finite", af, bf)
			}
			return &cval{v: constant.MakeFloat64(r), float: true, typed: true}
		}
	}
	return nil
}

func (c *fctx) defaultType(cv *cval) typ {
	if cv.float {
		return typ{k: kF}
	}
	return typ{k: kZ}
}

// the constant as a value of type want
func (c *fctx) materialise(at ast.Node, cv *cval, want typ) string {
	switch want.k {
	case kF:
		if cv.typed && !cv.float {
			c.fail(at, "an int64 constant where a float64 is expected")
		}
		f, _ := constant.Float64Val(constant.ToFloat(cv.v))
		if math.IsInf(f, 0) || math.IsNaN(f) {
			c.fail(at, "constant %s overflows float64", cv.v.ExactString())
		}
		if f == 0 {
			f = 0 // a Go constant is never -0
		}
		return hexlit(f)
	case kZ:
		if cv.typed && cv.float {
			c.fail(at, "a float64 constant where an int64 is expected")
		}
		iv := constant.ToInt(cv.v)
		if iv.Kind() != constant.Int {
			c.fail(at, "constant %s truncated to an integer", cv.v.ExactString())
		}
		s := iv.ExactString()
		if strings.HasPrefix(s, "-") {
			return "(" + s + ")"
		}
		return s
	}
	c.fail(at, "a numeric constant where a %s is expected", want)
	return ""
}

// ---------------------------------------------------------------------------------------------------------------
// expressions

func (c *fctx) fxTyped(sc *scope, e ast.Expr) (string, typ) {
	code, t, cv := c.fx(sc, e)
	if cv != nil {
		t = c.defaultType(cv)
		code = c.materialise(e, cv, t)
	}
	return code, t
}

func (c *fctx) fxAs(sc *scope, e ast.Expr, want typ) (string, typ) {
	code, t, cv := c.fx(sc, e)
	if cv != nil {
		return c.materialise(e, cv, want), want
	}
	if !same(t, want) {
		c.fail(e, "a %s where a %s is expected", t, want)
	}
	return code, t
}

func (c *fctx) fbinary(n ast.Node, op token.Token, a string, ta typ, b string, tb typ) (string, typ) {
	if ta.k != kF || tb.k != kF {
		c.fail(n, "operator %s on %s and %s", op, ta, tb)
	}
	f := func(name, x, y string) string { return "(PrimFloat." + name + " " + x + " " + y + ")" }
	switch op {
	case token.ADD:
		return f("add", a, b), typ{k: kF}
	case token.SUB:
		return f("sub", a, b), typ{k: kF}
	case token.MUL:
		return f("mul", a, b), typ{k: kF}
	case token.QUO:
		return f("div", a, b), typ{k: kF}
	case token.EQL:
		return f("eqb", a, b), typ{k: kBool}
	case token.NEQ:
		return "(negb " + f("eqb", a, b) + ")", typ{k: kBool}
	case token.LSS:
		return f("ltb", a, b), typ{k: kBool}
	case token.LEQ:
		return f("leb", a, b), typ{k: kBool}
	case token.GTR:
		return f("ltb", b, a), typ{k: kBool}
	case token.GEQ:
		return f("leb", b, a), typ{k: kBool}
	}
	c.fail(n, "operator %s on float64", op)
	return "", typ{}
}

// is e a float64 whose value is an integer by construction (float64(i), math.Pow(2, float64(i)))?
func (c *fctx) integralFloat(sc *scope, e ast.Expr) bool {
	call, ok := unparen(e).(*ast.CallExpr)
	if !ok {
		return false
	}
	if len(call.Args) == 1 && isConv(sc, call.Fun, "float64") {
		if c.constEval(sc, call.Args[0]) != nil {
			return false
		}
		_, t, _ := c.fx(sc, call.Args[0])
		return t.k == kZ
	}
	if len(call.Args) == 2 && isMath(c, sc, call.Fun, "Pow") {
		_, ok := c.pow2(sc, call)
		return ok
	}
	return false
}

// math.Pow(2, float64(z)) or math.Pow(2, <integral constant>) -> F64.pow2f
func (c *fctx) pow2(sc *scope, x *ast.CallExpr) (string, bool) {
	a := c.constEval(sc, x.Args[0])
	if a == nil {
		return "", false
	}
	if af, exact := constant.Float64Val(constant.ToFloat(a.v)); af != 2 || !exact {
		return "", false
	}
	if b := c.constEval(sc, x.Args[1]); b != nil {
		iv := constant.ToInt(b.v)
		if iv.Kind() != constant.Int {
			return "", false
		}
		return "(pow2f " + c.materialise(x, &cval{v: iv}, typ{k: kZ}) + ")", true
	}
	call, ok := unparen(x.Args[1]).(*ast.CallExpr)
	if !ok || len(call.Args) != 1 || !isConv(sc, call.Fun, "float64") {
		return "", false
	}
	code, t, cv := c.fx(sc, call.Args[0])
	if cv != nil || t.k != kZ {
		return "", false
	}
	return "(pow2f " + code + ")", true
}

func (c *fctx) fx(sc *scope, e ast.Expr) (string, typ, *cval) {
	if cv := c.constEval(sc, e); cv != nil {
		return "", typ{k: kUntyped}, cv
	}
	if c.t.sv {
		if code, t, ok := c.svExpr(sc, unparen(e)); ok {
			return code, t, nil
		}
	}
	switch x := e.(type) {
	case *ast.ParenExpr:
		return c.fx(sc, x.X)
	case *ast.Ident:
		if v := sc.lookup(x.Name); v != nil {
			if v.t.k == kOpaque || v.t.k == kStruct {
				c.fail(e, "use of the variable %s (type %s) as a value", x.Name, v.t)
			}
			return v.coq, v.t, nil
		}
		switch x.Name {
		case "true", "false":
			return x.Name, typ{k: kBool}, nil
		case "nil":
			c.fail(e, "nil outside an error position")
		case "iota":
			c.fail(e, "iota")
		}
		if vd, ok := c.pkg.vars[x.Name]; ok {
			code, t := c.t.pkgVar(c.pkg, vd, e)
			return code, t, nil
		}
		c.fail(e, "identifier %s (not a local variable, not a constant or variable of package %s)", x.Name, c.pkg.dir)
	case *ast.BasicLit:
		c.fail(e, "%s literal %s", strings.ToLower(x.Kind.String()), x.Value)
	case *ast.UnaryExpr:
		a, ta := c.fxTyped(sc, x.X)
		if c.t.m64 && ta.k != kF {
			code, t := c.unary64(e, x.Op, a, ta)
			return code, t, nil
		}
		switch {
		case x.Op == token.SUB && ta.k == kF:
			return "(PrimFloat.opp " + a + ")", ta, nil
		case x.Op == token.SUB && ta.k == kZ:
			return "(Z.opp " + a + ")", ta, nil
		case x.Op == token.ADD && (ta.k == kZ || ta.k == kF):
			return a, ta, nil
		case x.Op == token.NOT && ta.k == kBool:
			return "(negb " + a + ")", ta, nil
		}
		c.fail(e, "unary operator %s on %s", x.Op, ta)
	case *ast.BinaryExpr:
		if x.Op == token.EQL || x.Op == token.NEQ {
			var other ast.Expr
			if isNil(sc, x.Y) {
				other = x.X
			} else if isNil(sc, x.X) {
				other = x.Y
			}
			if other != nil {
				a, ta := c.fxTyped(sc, other)
				if ta.k != kErr {
					c.fail(e, "comparison of a %s with nil", ta)
				}
				if x.Op == token.EQL {
					return "(negb " + a + ")", typ{k: kBool}, nil
				}
				return a, typ{k: kBool}, nil
			}
		}
		a, ta, ca := c.fx(sc, x.X)
		var b string
		var tb typ
		var cb *cval
		if x.Op == token.SHL || x.Op == token.SHR {
			b, tb = c.shiftCount(sc, x.Y)
		} else {
			b, tb, cb = c.fx(sc, x.Y)
		}
		if ca != nil && cb != nil {
			c.fail(e, "operator %s between constants", x.Op)
		}
		if ca != nil {
			if x.Op == token.SHL || x.Op == token.SHR {
				ta = typ{k: kZ}
			} else {
				ta = pureT(tb)
			}
			a = c.materialise(x.X, ca, ta)
		}
		if cb != nil {
			tb = pureT(ta)
			b = c.materialise(x.Y, cb, tb)
		}
		code, t := c.binary(e, x.Op, a, ta, b, tb)
		return code, t, nil
	case *ast.SelectorExpr:
		if id, ok := x.X.(*ast.Ident); ok {
			if v := sc.lookup(id.Name); v != nil {
				if v.t.k == kStruct && v.fields != nil {
					if f, ok := v.fields[x.Sel.Name]; ok {
						for i, n := range v.t.fields {
							if n == x.Sel.Name {
								return f, v.t.fieldType(i), nil
							}
						}
					}
				}
				c.fail(e, "selector %s.%s", id.Name, x.Sel.Name)
			}
			if dir, ok := c.imp[id.Name]; ok {
				if strings.HasPrefix(dir, "\x00") {
					c.fail(e, "reference to %s.%s (package outside the module)", id.Name, x.Sel.Name)
				}
				c.fail(e, "%s.%s is not a numeric constant of package %s", id.Name, x.Sel.Name, dir)
			}
		}
		c.fail(e, "selector expression %s", exprString(e))
	case *ast.CallExpr:
		code, t := c.fcall(sc, x)
		return code, t, nil
	}
	c.fail(e, "expression of kind %s", nodeKind(e))
	return "", typ{}, nil
}

func (c *fctx) fcall(sc *scope, x *ast.CallExpr) (string, typ) {
	if x.Ellipsis.IsValid() {
		c.fail(x, "variadic call")
	}
	if len(x.Args) == 1 && isConv(sc, x.Fun, "float64") {
		a, ta := c.fxTyped(sc, x.Args[0])
		switch ta.k {
		case kZ:
			return "(of_Z " + a + ")", typ{k: kF}
		case kF:
			return a, ta
		}
		c.fail(x, "float64(..) of a %s", ta)
	}
	if len(x.Args) == 1 && isConv(sc, x.Fun, "int64") && c.intPow && c.isIntPow(sc, x.Args[0]) {
		// an integer kernel: the idiom of the integer translator
		if c.t.m64 {
			return c.pow64(sc, x.Args[0])
		}
		return c.floatInt(sc, x.Args[0]), typ{k: kZ}
	}
	if len(x.Args) == 1 && isConv(sc, x.Fun, "int64") {
		a, ta := c.fxTyped(sc, x.Args[0])
		switch ta.k {
		case kZ:
			return a, ta
		case kF:
			return "(Ztrunc_f " + a + ")", typ{k: kOptZ}
		}
		c.fail(x, "int64(..) of a %s", ta)
	}
	if c.isErrorCtor(sc, x) {
		return "true", typ{k: kErr}
	}
	if s, ok := x.Fun.(*ast.SelectorExpr); ok {
		if dir, ok := c.pkgOf(sc, s.X); ok && dir == "\x00math" {
			return c.mathCall(sc, x, s.Sel.Name)
		}
	}
	code, s := c.callTranslated(sc, x)
	if len(s.results) != 1 {
		c.fail(x, "call of %s (%d results) in a single-value position", exprString(x.Fun), len(s.results))
	}
	if s.results[0].k == kStruct && !c.t.sv {
		c.fail(x, "call of %s returning a struct used as a value", exprString(x.Fun))
	}
	rt := s.results[0]
	rt.m = c.t.m64
	return code, rt
}

func (c *fctx) mathCall(sc *scope, x *ast.CallExpr, name string) (string, typ) {
	F := typ{k: kF}
	arg := func(i int) string {
		a, _ := c.fxAs(sc, x.Args[i], F)
		return a
	}
	if name == "NaN" && len(x.Args) == 0 {
		return "PrimFloat.nan", F
	}
	unary := map[string]string{"Floor": "ffloor", "Ceil": "fceil", "Abs": "PrimFloat.abs", "Sqrt": "PrimFloat.sqrt"}
	if f, ok := unary[name]; ok {
		if len(x.Args) != 1 {
			c.fail(x, "math.%s with %d arguments", name, len(x.Args))
		}
		return "(" + f + " " + arg(0) + ")", F
	}
	if name == "Pow" && len(x.Args) == 2 {
		if code, ok := c.pow2(sc, x); ok {
			return code, F
		}
	}
	if name == "Mod" && len(x.Args) == 2 && c.integralFloat(sc, x.Args[0]) && c.integralFloat(sc, x.Args[1]) {
		return "(fmod_int " + arg(0) + " " + arg(1) + ")", F
	}
	if inList(libmUnary, name) {
		if len(x.Args) != 1 {
			c.fail(x, "math.%s with %d arguments", name, len(x.Args))
		}
		c.libm = true
		return "(" + libmField(name) + " " + libmVar + " " + arg(0) + ")", F
	}
	if inList(libmBinary, name) {
		if len(x.Args) != 2 {
			c.fail(x, "math.%s with %d arguments", name, len(x.Args))
		}
		c.libm = true
		return "(" + libmField(name) + " " + libmVar + " " + arg(0) + " " + arg(1) + ")", F
	}
	c.fail(x, "call of math.%s (no model in F64.v and not one of the libm functions %s, %s)", name, strings.Join(libmUnary, " "), strings.Join(libmBinary, " "))
	return "", typ{}
}

// a package-level variable: usable when it has an initialiser of the subset and nothing in its package assigns it or takes its address
func (t *translator) pkgVar(p *pkgInfo, vd *constDecl, at ast.Node) (string, typ) {
	key := p.dir + "." + vd.name
	pos := relpos(at.Pos())
	if vd.expr == nil {
		failf("%s: unsupported construct: package-level variable %s without an initialiser", pos, key)
	}
	for _, f := range p.files {
		ast.Inspect(f, func(n ast.Node) bool {
			bad := func(e ast.Expr, what string) {
				if id, ok := unparen(e).(*ast.Ident); ok && id.Name == vd.name {
					failf("%s: unsupported construct: package-level variable %s is %s at %s", pos, key, what, relpos(n.Pos()))
				}
			}
			switch y := n.(type) {
			case *ast.AssignStmt:
				if y.Tok != token.DEFINE {
					for _, l := range y.Lhs {
						bad(l, "assigned")
					}
				}
			case *ast.IncDecStmt:
				bad(y.X, "assigned")
			case *ast.UnaryExpr:
				if y.Op == token.AND {
					bad(y.X, "referenced by address")
				}
			}
			return true
		})
	}
	if t.inProgress["var "+key] {
		failf("%s: unsupported construct: package-level variable %s refers to itself", pos, key)
	}
	t.inProgress["var "+key] = true
	defer delete(t.inProgress, "var "+key)
	t.fused[p.names[vd.file]] = true
	sub := &fctx{t: t, pkg: p, imp: t.imports(p.files[vd.file]), label: "variable " + key, fmode: true}
	var code string
	var ty typ
	if vd.typ != nil {
		code, ty = sub.fxAs(newScope(nil), vd.expr, sub.goType(vd.typ))
	} else {
		code, ty = sub.fxTyped(newScope(nil), vd.expr)
	}
	if sub.libm {
		failf("%s: unsupported construct: package-level variable %s is initialised through a libm function", pos, key)
	}
	if ty.k != kF && ty.k != kZ && ty.k != kBool {
		failf("%s: unsupported construct: package-level variable %s of type %s", pos, key, ty)
	}
	return code, ty
}

// ---------------------------------------------------------------------------------------------------------------
// structs

func (c *fctx) fstructType(p *pkgInfo, name string, st *ast.StructType, at ast.Node) typ {
	r := typ{k: kStruct, name: p.dir + "." + name}
	for _, f := range st.Fields.List {
		ft, ok := f.Type.(*ast.Ident)
		if !ok || len(f.Names) == 0 || (ft.Name != "int64" && ft.Name != "float64") {
			if c.lenient {
				continue // the fields of other types are not variables of the translation: any use is an error
			}
			c.fail(at, "struct type %s has a field that is not a named int64 or float64 field", name)
		}
		for _, n := range f.Names {
			r.fields = append(r.fields, n.Name)
			if ft.Name == "float64" {
				r.ftypes = append(r.ftypes, typ{k: kF})
			} else {
				r.ftypes = append(r.ftypes, typ{k: kZ})
			}
		}
	}
	if len(r.fields) == 0 {
		c.fail(at, "struct type %s has no int64 or float64 field", name)
	}
	return r
}

// a struct value in a return position: a struct variable or a composite literal
func (c *fctx) fstructValue(sc *scope, e ast.Expr, t typ) string {
	e = unparen(e)
	if id, ok := e.(*ast.Ident); ok {
		v := sc.lookup(id.Name)
		if v == nil || v.t.k != kStruct || v.fields == nil || !same(v.t, t) {
			c.fail(e, "%s is not a variable of type %s", id.Name, t)
		}
		var rs []string
		for _, f := range t.fields {
			rs = append(rs, v.fields[f])
		}
		return tuple(rs)
	}
	cl, st := c.structLiteral(sc, e)
	if cl == nil || !same(st, t) {
		c.fail(e, "struct result that is neither a variable nor a composite literal of type %s", t)
	}
	return tuple(c.structFields(sc, cl, t))
}

// T{..}, &T{..}, pkg.T{..} of a struct type of the subset
func (c *fctx) structLiteral(sc *scope, e ast.Expr) (*ast.CompositeLit, typ) {
	e = unparen(e)
	if u, ok := e.(*ast.UnaryExpr); ok && u.Op == token.AND {
		e = unparen(u.X)
	}
	cl, ok := e.(*ast.CompositeLit)
	if !ok || cl.Type == nil {
		return nil, typ{}
	}
	switch cl.Type.(type) {
	case *ast.Ident, *ast.SelectorExpr:
	default:
		return nil, typ{}
	}
	if id, ok := cl.Type.(*ast.Ident); ok {
		if _, ok := c.pkg.types[id.Name]; !ok {
			return nil, typ{}
		}
	}
	t := c.goType(cl.Type)
	if t.k != kStruct {
		return nil, typ{}
	}
	return cl, t
}

func (c *fctx) structFields(sc *scope, cl *ast.CompositeLit, t typ) []string {
	vals := map[string]string{}
	for i, el := range cl.Elts {
		kv, ok := el.(*ast.KeyValueExpr)
		if !ok {
			if len(cl.Elts) != len(t.fields) {
				c.fail(cl, "positional composite literal with %d of %d fields", len(cl.Elts), len(t.fields))
			}
			code, tf := c.exprAs(sc, el, t.fieldType(i))
			if tf.m {
				c.fail(el, "arithmetic inside a composite literal (int64 mode: assign it to a variable first)")
			}
			vals[t.fields[i]] = code
			continue
		}
		key, ok := kv.Key.(*ast.Ident)
		if !ok {
			c.fail(cl, "composite literal key of kind %s", nodeKind(kv.Key))
		}
		idx := -1
		for j, f := range t.fields {
			if f == key.Name {
				idx = j
			}
		}
		if _, dup := vals[key.Name]; idx < 0 || dup {
			c.fail(cl, "composite literal field %s", key.Name)
		}
		code, tf := c.exprAs(sc, kv.Value, t.fieldType(idx))
		if tf.m {
			c.fail(kv.Value, "arithmetic inside a composite literal (int64 mode: assign it to a variable first)")
		}
		vals[key.Name] = code
	}
	var rs []string
	for i, f := range t.fields {
		v, ok := vals[f]
		if !ok {
			v = t.fieldType(i).zero()
		}
		rs = append(rs, v)
	}
	return rs
}

func (c *fctx) declareStruct(sc *scope, id *ast.Ident, t typ) *varInfo {
	base := c.declare(sc, id, t) // reserves the name v_<id>
	v := &varInfo{coq: "?", t: t, fields: map[string]string{}}
	for _, f := range t.fields {
		v.fields[f] = base.coq + "_" + f
	}
	sc.vars[id.Name] = v
	return v
}

// float-mode assignments the integer translator has no form for: x.f = e, x.f op= e, x := T{..}
func (c *fctx) fassign(x *ast.AssignStmt, sc *scope) (string, bool) {
	if c.t.sv {
		if code, ok := c.svAssign(x, sc); ok {
			return code, true
		}
	}
	if len(x.Lhs) == 1 && len(x.Rhs) == 1 {
		if sel, ok := x.Lhs[0].(*ast.SelectorExpr); ok {
			id, ok := sel.X.(*ast.Ident)
			if !ok {
				c.fail(x, "assignment to %s", exprString(x.Lhs[0]))
			}
			v := sc.lookup(id.Name)
			if v == nil || v.t.k != kStruct || v.fields == nil {
				c.fail(x, "assignment to %s (not a field of a struct variable of the subset)", exprString(x.Lhs[0]))
			}
			name, ok := v.fields[sel.Sel.Name]
			if !ok {
				c.fail(x, "assignment to %s (no such field)", exprString(x.Lhs[0]))
			}
			var ft typ
			for i, n := range v.t.fields {
				if n == sel.Sel.Name {
					ft = v.t.fieldType(i)
				}
			}
			if op, ok := assignOps[x.Tok]; ok {
				b, tb, cb := c.fx(sc, x.Rhs[0])
				if cb != nil {
					b, tb = c.materialise(x.Rhs[0], cb, ft), ft
				}
				code, tcode := c.binary(x, op, name, ft, b, tb)
				return c.let(name, code, tcode), true
			}
			if x.Tok != token.ASSIGN {
				c.fail(x, "assignment operator %s on a field", x.Tok)
			}
			code, tcode := c.exprAs(sc, x.Rhs[0], ft)
			return c.let(name, code, tcode), true
		}
		if id, ok := x.Lhs[0].(*ast.Ident); ok && (x.Tok == token.DEFINE || x.Tok == token.ASSIGN) && !c.t.sv {
			if cl, t := c.structLiteral(sc, x.Rhs[0]); cl != nil {
				var v *varInfo
				if x.Tok == token.DEFINE && sc.vars[id.Name] == nil {
					v = c.declareStruct(sc, id, t)
				} else {
					v = sc.lookup(id.Name)
					if v == nil || v.t.k != kStruct || !same(v.t, t) || v.fields == nil {
						c.fail(x, "assignment of a %s to %s", t, id.Name)
					}
				}
				vals := c.structFields(sc, cl, t)
				var names []string
				for _, f := range t.fields {
					names = append(names, v.fields[f])
				}
				return "let " + pattern(names) + " := " + tuple(vals) + " in\n", true
			}
		}
	}
	// compound assignment with an untyped constant on the right: the constant takes the type of the variable
	if op, ok := assignOps[x.Tok]; ok && len(x.Lhs) == 1 && len(x.Rhs) == 1 {
		if id, ok := x.Lhs[0].(*ast.Ident); ok {
			if v := sc.lookup(id.Name); v != nil && (v.t.k == kF || v.t.k == kZ) {
				var b string
				var tb typ
				if op == token.SHL || op == token.SHR {
					b, tb = c.shiftCount(sc, x.Rhs[0])
				} else {
					b, tb = c.fxAs(sc, x.Rhs[0], v.t)
				}
				code, tcode := c.binary(x, op, v.coq, v.t, b, tb)
				return c.let(v.coq, code, tcode), true
			}
		}
	}
	return "", false
}

// `for i := c0; i < c1; i++ { body }` (also <=, i += 1) with constant bounds, at most 64 passes, a body that neither writes the counter nor leaves the
// loop: the body once per value, the counter a constant of that pass
func (c *fctx) unroll(x *ast.ForStmt, sc *scope, next func() string) string {
	in, ok := x.Init.(*ast.AssignStmt)
	if !ok || in.Tok != token.DEFINE || len(in.Lhs) != 1 || len(in.Rhs) != 1 {
		c.fail(x, "for loop (only `for i := c0; i < c1; i++` with constant bounds is unrolled)")
	}
	id, ok := in.Lhs[0].(*ast.Ident)
	lo := c.constEval(sc, in.Rhs[0])
	cond, ok2 := x.Cond.(*ast.BinaryExpr)
	if !ok || lo == nil || lo.float || !ok2 || (cond.Op != token.LSS && cond.Op != token.LEQ) {
		c.fail(x, "for loop (only `for i := c0; i < c1; i++` with constant bounds is unrolled)")
	}
	if cid, ok := unparen(cond.X).(*ast.Ident); !ok || cid.Name != id.Name {
		c.fail(x, "for loop whose condition does not compare its counter %s", id.Name)
	}
	hi := c.constEval(sc, cond.Y)
	if hi == nil || hi.float {
		c.fail(x, "for loop with a bound %s that is not an integer constant", exprString(cond.Y))
	}
	var stepped ast.Expr
	switch post := x.Post.(type) {
	case *ast.IncDecStmt:
		if post.Tok == token.INC {
			stepped = post.X
		}
	case *ast.AssignStmt:
		if post.Tok == token.ADD_ASSIGN && len(post.Lhs) == 1 && len(post.Rhs) == 1 {
			if lit, ok := unparen(post.Rhs[0]).(*ast.BasicLit); ok && lit.Value == "1" {
				stepped = post.Lhs[0]
			}
		}
	}
	if pid, ok := stepped.(*ast.Ident); stepped == nil || !ok || pid.Name != id.Name {
		c.fail(x, "for loop step (expected %s++)", id.Name)
	}
	if escapes(x.Body) {
		c.fail(x, "the loop body leaves the loop (return, break, continue, goto)")
	}
	if writesOf(c, x.Body)[id.Name] {
		c.fail(x, "the loop body writes the counter %s", id.Name)
	}
	a, _ := constant.Int64Val(constant.ToInt(lo.v))
	b, _ := constant.Int64Val(constant.ToInt(hi.v))
	if cond.Op == token.LEQ {
		b++
	}
	if b-a > 64 {
		c.fail(x, "for loop with %d passes (at most 64 are unrolled)", b-a)
	}
	var pass func(k int64) string
	pass = func(k int64) string {
		if k >= b {
			return next()
		}
		isc := newScope(sc)
		isc.vars[id.Name] = &varInfo{cv: &cval{v: constant.MakeInt64(k)}, coq: "?", t: typ{k: kUntyped}}
		return c.block(x.Body.List, newScope(isc), func() string { return pass(k + 1) })
	}
	return pass(a)
}

// ---------------------------------------------------------------------------------------------------------------
// if without a way out: one conditional per assigned variable

// does the statement contain something that leaves it (return, break, continue, goto)?
func escapes(s ast.Stmt) bool {
	found := false
	ast.Inspect(s, func(n ast.Node) bool {
		switch n.(type) {
		case *ast.ReturnStmt, *ast.BranchStmt:
			found = true
		case *ast.FuncLit:
			return false
		}
		return !found
	})
	return found
}

// Coq names of the variables visible at sc that the statements assign (first occurrence order)
func (c *fctx) assignedIn(sc *scope, nodes []ast.Node) []string {
	var names []string
	seen := map[string]bool{}
	add := func(e ast.Expr) {
		e = unparen(e)
		var n string
		switch y := e.(type) {
		case *ast.Ident:
			if v := sc.lookup(y.Name); v != nil && v.t.k != kOpaque && (v.t.k != kStruct || (c.t.sv && v.fields == nil)) {
				n = v.coq
			}
		case *ast.SelectorExpr:
			if id, ok := y.X.(*ast.Ident); ok {
				if v := sc.lookup(id.Name); v != nil && v.fields != nil {
					n = v.fields[y.Sel.Name]
				}
			}
		}
		if n == "" && c.t.sv {
			if v, _, _, ok := c.svPath(sc, e); ok {
				n = v.coq
			}
		}
		if n != "" && !seen[n] {
			seen[n] = true
			names = append(names, n)
		}
	}
	addStruct := func(e ast.Expr) {
		if id, ok := unparen(e).(*ast.Ident); ok {
			if v := sc.lookup(id.Name); v != nil && v.t.k == kStruct && v.fields != nil {
				for _, f := range v.t.fields {
					if n := v.fields[f]; !seen[n] {
						seen[n] = true
						names = append(names, n)
					}
				}
			}
		}
	}
	for _, nd := range nodes {
		if nd == nil {
			continue
		}
		ast.Inspect(nd, func(n ast.Node) bool {
			switch y := n.(type) {
			case *ast.AssignStmt:
				if y.Tok != token.DEFINE { // `:=` inside a nested block always declares
					for _, l := range y.Lhs {
						add(l)
						addStruct(l)
					}
				}
			case *ast.IncDecStmt:
				add(y.X)
			case *ast.FuncLit:
				c.fail(n, "function literal")
			}
			return true
		})
	}
	return names
}

func (c *fctx) phiIf(x *ast.IfStmt, sc *scope) string {
	isc := sc
	pre := ""
	if x.Init != nil {
		isc = newScope(sc)
		in, ok := x.Init.(*ast.AssignStmt)
		if !ok {
			c.fail(x.Init, "if-initialiser of kind %s", nodeKind(x.Init))
		}
		pre = c.assign(in, isc)
	}
	cond, tc := c.expr(isc, x.Cond)
	if tc.k != kBool {
		c.fail(x.Cond, "condition of type %s", tc)
	}
	var nodes []ast.Node
	nodes = append(nodes, x.Body)
	if x.Else != nil {
		nodes = append(nodes, x.Else)
	}
	names := c.assignedIn(isc, nodes)
	if tc.m {
		n := c.tmp()
		pre += n + " <- " + cond + " ;;\n"
		cond = n
	}
	branch := func(name string) (string, string) {
		k := func() string { return c.retValue(name) }
		th := c.block(x.Body.List, newScope(isc), k)
		var el string
		switch e := x.Else.(type) {
		case nil:
			el = c.retValue(name)
		case *ast.BlockStmt:
			el = c.block(e.List, newScope(isc), k)
		case *ast.IfStmt:
			el = c.block([]ast.Stmt{e}, isc, k)
		default:
			c.fail(x.Else, "else branch of kind %s", nodeKind(x.Else))
		}
		return th, el
	}
	if len(names) == 0 {
		// nothing visible is assigned: the branches must still be inside the subset
		branch("tt")
		return pre
	}
	if len(names) == 1 {
		th, el := branch(names[0])
		return pre + c.let(names[0], "if "+cond+"\nthen ("+th+")\nelse ("+el+")", typ{m: c.t.m64})
	}
	// several variables: one conditional on the tuple
	th, el := branch(tuple(names))
	return pre + c.let(pattern(names), "if "+cond+"\nthen ("+th+")\nelse ("+el+")", typ{m: c.t.m64})
}

// ---------------------------------------------------------------------------------------------------------------
// slices

func identsOf(n ast.Node) map[string]bool {
	m := map[string]bool{}
	ast.Inspect(n, func(n ast.Node) bool {
		switch y := n.(type) {
		case *ast.Ident:
			m[y.Name] = true
		case *ast.SelectorExpr:
			// the field name is not a variable
			ast.Inspect(y.X, func(n ast.Node) bool {
				if id, ok := n.(*ast.Ident); ok {
					m[id.Name] = true
				}
				return true
			})
			return false
		}
		return true
	})
	return m
}

// names a statement may write: left-hand sides (for x.f, x[i], *x: the root variable), ++/--, operands of &, receivers of method
// calls, range variables, everything a function literal mentions
func writesOf(c *fctx, s ast.Stmt) map[string]bool {
	m := map[string]bool{}
	root := func(e ast.Expr) {
		for {
			switch y := e.(type) {
			case *ast.ParenExpr:
				e = y.X
				continue
			case *ast.SelectorExpr:
				e = y.X
				continue
			case *ast.IndexExpr:
				e = y.X
				continue
			case *ast.StarExpr:
				e = y.X
				continue
			case *ast.Ident:
				m[y.Name] = true
			}
			return
		}
	}
	ast.Inspect(s, func(n ast.Node) bool {
		switch y := n.(type) {
		case *ast.AssignStmt:
			for _, l := range y.Lhs {
				root(l)
			}
		case *ast.IncDecStmt:
			root(y.X)
		case *ast.UnaryExpr:
			if y.Op == token.AND {
				root(y.X)
			}
		case *ast.CallExpr:
			// x.M(..) on a variable: a method with a pointer receiver may write x (not if every method M of the packages in sight has a value receiver)
			if sel, ok := y.Fun.(*ast.SelectorExpr); ok {
				if id, ok := unparen(sel.X).(*ast.Ident); !ok || c.imp[id.Name] == "" {
					if !c.onlyValueReceivers(sel.Sel.Name) {
						root(sel.X)
					}
				}
			}
		case *ast.RangeStmt:
			if y.Key != nil {
				root(y.Key)
			}
			if y.Value != nil {
				root(y.Value)
			}
		case *ast.GenDecl:
			for _, sp := range y.Specs {
				if vs, ok := sp.(*ast.ValueSpec); ok {
					for _, nm := range vs.Names {
						m[nm.Name] = true
					}
				}
			}
		case *ast.FuncLit:
			// a closure may write anything it mentions
			for id := range identsOf(y) {
				m[id] = true
			}
			return false
		}
		return true
	})
	return m
}

// is M the name of at least one method, and of methods with value receivers only, in this package and the module packages its file imports?
func (c *fctx) onlyValueReceivers(m string) bool {
	dirs := []string{c.pkg.dir}
	var names []string
	for n := range c.imp {
		names = append(names, n)
	}
	sort.Strings(names)
	for _, n := range names {
		if d := c.imp[n]; !strings.HasPrefix(d, "\x00") {
			dirs = append(dirs, d)
		}
	}
	found := false
	for _, d := range dirs {
		p := c.t.load(d)
		for key, fds := range p.funcs {
			if !strings.HasSuffix(key, "."+m) {
				continue
			}
			for _, fd := range fds {
				if fd.Recv == nil || len(fd.Recv.List) == 0 {
					continue
				}
				if _, ptr := fd.Recv.List[0].Type.(*ast.StarExpr); ptr {
					return false
				}
				found = true
			}
		}
	}
	return found
}

// the statements among body[:upto] the value of e just before body[upto] depends on (upto = len(body): at the end of the function)
func (c *fctx) slice(body []ast.Stmt, upto int, e ast.Expr, cuts map[string]bool, what string, at ast.Node) []ast.Stmt {
	needed := map[string]bool{}
	for id := range identsOf(e) {
		if !cuts[id] {
			needed[id] = true
		}
	}
	include := make([]bool, len(body))
	writes := make([]map[string]bool, len(body))
	for i, s := range body {
		writes[i] = writesOf(c, s)
	}
	if upto < len(body) {
		// the statement that uses the value must not write it before it reads it
		for id := range identsOf(e) {
			if writes[upto][id] {
				c.fail(body[upto], "the statement that uses %s may write %s", what, id)
			}
		}
	}
	for i := upto - 1; i >= 0; i-- {
		hit := false
		for w := range writes[i] {
			if needed[w] {
				hit = true
			}
		}
		if !hit {
			continue
		}
		include[i] = true
		for id := range identsOf(body[i]) {
			if !cuts[id] {
				needed[id] = true
			}
		}
	}
	// an input stands for one value: nothing may write it between the first statement of the slice that reads it and the use of the result
	for cv := range cuts {
		first := -1
		for i := 0; i < upto; i++ {
			if include[i] && identsOf(body[i])[cv] {
				first = i
				break
			}
		}
		if first < 0 {
			if identsOf(e)[cv] {
				continue
			}
			c.fail(at, "the input %s is not read by the statements %s depends on", cv, what)
		}
		last := upto
		if last >= len(body) {
			last = len(body) - 1
		}
		for i := first; i <= last; i++ {
			if writes[i][cv] {
				c.fail(body[i], "the input %s of the slice for %s is written after it has been read (%s)", cv, what, relpos(body[first].Pos()))
			}
		}
	}
	var out []ast.Stmt
	for i, s := range body {
		if include[i] {
			out = append(out, s)
		}
	}
	return out
}

// ---------------------------------------------------------------------------------------------------------------
// definitions

func (t *translator) fglobal(name, origin string) {
	if prev, ok := t.fglobals[name]; ok {
		failf("%s: the Coq name %s is already used by %s", origin, name, prev)
	}
	for _, kw := range []string{"libm", "mk_libm", libmVar, "float", "option", "Some", "None", "pow2f", "ffloor", "fceil", "of_Z", "Ztrunc_f", "fmod_int", "Z", "bool", "true", "false"} {
		if name == kw {
			failf("%s: the name %s cannot be used in the float file", origin, name)
		}
	}
	if strings.HasPrefix(name, "m_") {
		failf("%s: the name %s cannot be used in the float file", origin, name)
	}
	t.fglobals[name] = origin
}

func (t *translator) ffunction(tg ftarget, from ast.Node) *sig {
	key := fmt.Sprintf("F|%s|%s|%s|%s|%v|%d|%v", tg.pkg, tg.recv, tg.name, tg.local, tg.loopBody, tg.loopNth, tg.loopCond)
	if s, ok := t.fsigs[key]; ok {
		return s
	}
	shownPkg := strings.TrimPrefix(tg.pkg, "\x00")
	label := shownPkg + "." + tg.name
	fkey := tg.name
	if tg.recv != "" {
		label = shownPkg + "." + tg.recv + "." + tg.name
		fkey = tg.recv + "." + tg.name
	}
	if t.inProgress[key] {
		failf("%s: function %s: unsupported construct: recursion", relpos(from.Pos()), label)
	}
	p := t.load(tg.pkg)
	fds := p.funcs[fkey]
	if len(fds) == 0 {
		where := "the list of float kernels"
		if from != nil {
			where = relpos(from.Pos())
		}
		failf("function %s (needed by %s) is not defined in %s", label, where, tg.pkg)
	}
	if len(fds) > 1 {
		failf("function %s is defined %d times in %s", label, len(fds), tg.pkg)
	}
	fd := fds[0]
	if fd.Body == nil {
		failf("%s: function %s: unsupported construct: function without a body", relpos(fd.Pos()), label)
	}
	if fd.Type.TypeParams != nil {
		failf("%s: function %s: unsupported construct: type parameters", relpos(fd.Pos()), label)
	}
	t.inProgress[key] = true
	defer delete(t.inProgress, key)
	t.fused[p.names[p.fileOf[fd]]] = true

	partial := tg.local != "" || tg.loopBody || tg.loopCond
	c := &fctx{t: t, pkg: p, imp: t.imports(p.files[p.fileOf[fd]]), label: label, declPos: map[token.Pos]string{}, nameCnt: map[string]int{},
		body: fd.Body, fmode: true, partial: partial, intPow: tg.intFile, lenient: tg.intFile && partial, curFunc: fd}
	if tg.local != "" {
		c.label = label + " (value " + tg.local + ")"
	}
	c.top = newScope(nil)
	s := &sig{coq: tg.coqName()}
	var binders, bnames []string
	bind := func(name string, ty typ) {
		binders = append(binders, "("+name+" : "+ty.coq()+")")
		bnames = append(bnames, name)
		s.params = append(s.params, ty)
	}
	// a type of the subset, or (in a partial definition) a variable the translation may not touch
	tryType := func(e ast.Expr) (ty typ, ok bool) {
		if !partial {
			return c.goType(e), true
		}
		defer func() {
			if r := recover(); r != nil {
				if _, isFail := r.(failure); isFail {
					ok = false
					return
				}
				panic(r)
			}
		}()
		return c.goType(e), true
	}
	bindVar := func(n *ast.Ident, ty typ) {
		if ty.k == kStruct && !t.sv {
			v := c.declareStruct(c.top, n, ty)
			for i, f := range ty.fields {
				bind(v.fields[f], ty.fieldType(i))
			}
			return
		}
		v := c.declare(c.top, n, ty)
		bind(v.coq, ty)
	}
	ptrRecv := false
	if fd.Recv != nil {
		if tg.recv == "" {
			failf("%s: function %s: unsupported construct: method used as a function", relpos(fd.Pos()), label)
		}
		r := fd.Recv.List[0]
		_, ptrRecv = r.Type.(*ast.StarExpr)
		rt, ok := tryType(r.Type)
		switch {
		case ok && rt.k != kStruct:
			c.fail(r, "receiver of type %s", rt)
		case len(r.Names) == 1 && r.Names[0].Name != "_":
			if ok {
				bindVar(r.Names[0], rt)
				s.nrecv = len(rt.fields)
				if t.sv {
					s.nrecv = 1
					if ptrRecv {
						c.fail(r, "pointer receiver (struct-value mode)")
					}
				}
				if ptrRecv && !partial {
					v := c.top.vars[r.Names[0].Name]
					for _, f := range rt.fields {
						c.recvOut = append(c.recvOut, v.fields[f])
					}
				}
			} else {
				c.top.vars[r.Names[0].Name] = &varInfo{coq: "?", t: typ{k: kOpaque}}
			}
		case ok && !partial:
			c.fail(r, "unnamed receiver")
		}
	}
	anon := 0
	for _, f := range fd.Type.Params.List {
		if _, variadic := f.Type.(*ast.Ellipsis); variadic && !partial {
			c.fail(f, "variadic parameter")
		}
		pt, ok := tryType(f.Type)
		if len(f.Names) == 0 {
			if !ok {
				continue
			}
			if pt.k == kStruct {
				c.fail(f, "unnamed parameter of struct type")
			}
			bind(fmt.Sprintf("_p%d", anon), pt)
			anon++
		}
		for _, n := range f.Names {
			switch {
			case !ok:
				if n.Name != "_" {
					c.top.vars[n.Name] = &varInfo{coq: "?", t: typ{k: kOpaque}}
				}
			case n.Name == "_":
				if pt.k == kStruct {
					c.fail(f, "blank parameter of struct type")
				}
				bind(fmt.Sprintf("_p%d", anon), pt)
				anon++
			default:
				bindVar(n, pt)
			}
		}
	}

	cuts := map[string]bool{}
	var cutNotes []string
	bindInputs := func() {
		for _, in := range tg.inputs {
			name := in.name
			if in.role.find != nil {
				if n, ok := in.role.find(c, fd); ok {
					name = n
				}
			}
			cuts[name] = true
			var ty typ
			switch in.typ {
			case "float64":
				ty = typ{k: kF}
			case "int64":
				ty = typ{k: kZ}
			case "bool":
				ty = typ{k: kBool}
			default:
				failf("function %s: input %s of type %s", label, name, in.typ)
			}
			if c.top.vars[name] != nil {
				failf("%s: function %s: the input %s is a parameter", relpos(fd.Pos()), label, name)
			}
			c.nameCnt[name] = 1
			v := &varInfo{coq: "v_" + name, t: ty}
			c.top.vars[name] = v
			bind(v.coq, ty)
			cutNotes = append(cutNotes, name)
		}
	}
	var body, retType, kindNote string
	pre := ""
	switch {
	case tg.local != "":
		bindInputs()
		// results are not variables of a slice unless they are named
		if fd.Type.Results != nil {
			for _, f := range fd.Type.Results.List {
				for _, n := range f.Names {
					if rt, ok := tryType(f.Type); ok && rt.k != kStruct && n.Name != "_" {
						v := c.declare(c.top, n, rt)
						pre += "let " + v.coq + " := " + rt.zero() + " in\n"
					}
				}
			}
		}
		// where the value is: by its role in the function, else by the name of the local variable (the other way round for a weak role)
		stmtsAll := fd.Body.List
		byName := func() (int, ast.Expr, string, bool) {
			for _, st := range stmtsAll {
				if writesOf(c, st)[tg.local] {
					return len(stmtsAll), &ast.Ident{NamePos: fd.Body.Pos(), Name: tg.local}, "the local variable " + tg.local + " when control reaches the end of the function", true
				}
			}
			return 0, nil, "", false
		}
		byRole := func() (int, ast.Expr, string, bool) {
			if !tg.role.isSet() {
				return 0, nil, "", false
			}
			i, e, ok := tg.role.find(c, fd)
			if !ok {
				return 0, nil, "", false
			}
			when := " just before that statement"
			if i >= len(stmtsAll) {
				when = " when control reaches the end of the function"
			}
			return i, e, tg.role.doc + " (`" + exprString(e) + "`)" + when, true
		}
		order := []func() (int, ast.Expr, string, bool){byRole, byName}
		if tg.weak {
			order = []func() (int, ast.Expr, string, bool){byName, byRole}
		}
		var upto int
		var target ast.Expr
		var what string
		found := false
		for _, f := range order {
			if upto, target, what, found = f(); found {
				break
			}
		}
		if !found {
			if tg.role.isSet() {
				failf("%s: function %s: unsupported construct: found neither %s nor a top-level statement that assigns a local variable %s", relpos(fd.Pos()), c.label, tg.role.doc, tg.local)
			}
			failf("%s: function %s: unsupported construct: no top-level statement assigns the local variable %s", relpos(fd.Pos()), c.label, tg.local)
		}
		stmts := c.slice(stmtsAll, upto, target, cuts, what, fd)
		var rt typ
		body = c.block(stmts, c.top, func() string {
			if id, ok := target.(*ast.Ident); ok && c.top.lookup(id.Name) == nil {
				failf("%s: function %s: unsupported construct: %s is not a variable of the function's outermost block", relpos(fd.Pos()), c.label, id.Name)
			}
			code, t := c.expr(c.top, target)
			switch t.k {
			case kF, kZ, kBool, kOptZ:
			default:
				failf("%s: function %s: unsupported construct: the extracted value %s has type %s", relpos(fd.Pos()), c.label, exprString(target), t)
			}
			rt = pureT(t)
			if t.m {
				return code
			}
			return c.retValue(code)
		})
		s.results = []typ{rt}
		retType = rt.coq()
		kindNote = " — the value of " + what
		if len(cutNotes) > 0 {
			kindNote += ", as a function of the parameters and of the value of " + strings.Join(cutNotes, ", ")
		}
	case tg.loopBody || tg.loopCond:
		var loop *ast.ForStmt
		var before []ast.Stmt
		nloops := 0
		for _, st := range fd.Body.List {
			if f, ok := st.(*ast.ForStmt); ok {
				nloops++
				if tg.loopNth == 0 && loop != nil {
					c.fail(f, "a second top-level for loop")
				}
				if loop == nil && (tg.loopNth == 0 || nloops == tg.loopNth) {
					loop = f
					continue
				}
			}
			if loop == nil {
				before = append(before, st)
			}
		}
		if loop == nil {
			if tg.loopNth > 0 {
				c.fail(fd, "no %d. top-level for loop (%d found)", tg.loopNth, nloops)
			}
			c.fail(fd, "no top-level for loop")
		}
		if escapes(loop.Body) {
			c.fail(loop, "the loop body leaves the loop (return, break, continue, goto)")
		}
		// the declarations before the loop give the state its names and types; their values are parameters
		for _, st := range before {
			ds, ok := st.(*ast.DeclStmt)
			if !ok {
				if tg.loopNth > 0 {
					continue // whatever these statements define must be an input
				}
				c.fail(st, "statement of kind %s before the loop (only `var x T` declarations are supported there)", nodeKind(st))
			}
			gd := ds.Decl.(*ast.GenDecl)
			if gd.Tok != token.VAR {
				c.fail(st, "local %s declaration", gd.Tok)
			}
			for _, sp := range gd.Specs {
				vs := sp.(*ast.ValueSpec)
				if vs.Type == nil {
					c.fail(st, "var declaration without a type before the loop")
				}
				for _, n := range vs.Names {
					bindVar(n, c.goType(vs.Type))
				}
			}
		}
		// a counter declared in the for clause (`for i := int64(0); ..`) takes the place a `var i int64` before the loop would have
		if in, ok := loop.Init.(*ast.AssignStmt); ok && in.Tok == token.DEFINE {
			for i, l := range in.Lhs {
				id, ok := l.(*ast.Ident)
				if !ok || id.Name == "_" || len(in.Rhs) != len(in.Lhs) || c.top.vars[id.Name] != nil {
					continue
				}
				_, ty := c.expr(c.top, in.Rhs[i])
				if ty.k == kZ || ty.k == kF || ty.k == kBool {
					bindVar(id, pureT(ty))
				}
			}
		}
		bindInputs()
		which := "the function's for loop"
		if tg.loopNth > 0 {
			which = fmt.Sprintf("the function's %d. top-level for loop", tg.loopNth)
		}
		if tg.loopCond {
			if loop.Cond == nil {
				c.fail(loop, "for loop without a condition")
			}
			code, t := c.expr(c.top, loop.Cond)
			if t.k != kBool {
				c.fail(loop.Cond, "condition of type %s", t)
			}
			body = code
			if !t.m {
				body = c.retValue(code)
			}
			s.results = []typ{{k: kBool}}
			retType = "bool"
			kindNote = " — the condition of " + which
			break
		}
		nodes := []ast.Node{loop.Body}
		stmts := loop.Body.List
		if tg.withPost && loop.Post != nil {
			nodes = append(nodes, loop.Post)
			stmts = append(append([]ast.Stmt{}, &ast.BlockStmt{List: loop.Body.List}), loop.Post)
		}
		names := c.assignedIn(c.top, nodes)
		if len(names) == 0 {
			c.fail(loop, "the loop body assigns no variable declared before the loop")
		}
		// state in the order of the binders
		var state []string
		var rts []string
		for i, n := range bnames {
			if inList(names, n) {
				state = append(state, n)
				rts = append(rts, s.params[i].coq())
				s.results = append(s.results, s.params[i])
			}
		}
		body = c.block(stmts, newScope(c.top), func() string { return c.retValue(tuple(state)) })
		retType = strings.Join(rts, " * ")
		if len(rts) > 1 {
			retType = "(" + retType + ")%type"
		}
		var plain []string
		for _, n := range state {
			plain = append(plain, strings.TrimPrefix(n, "v_"))
		}
		kindNote = " — one pass through the body of " + which
		if tg.withPost && loop.Post != nil {
			kindNote += " and its post statement"
		}
		kindNote += ": the new values of (" + strings.Join(plain, ", ") + ")"
	default:
		if fd.Type.Results == nil || len(fd.Type.Results.List) == 0 {
			failf("%s: function %s: unsupported construct: function without results", relpos(fd.Pos()), label)
		}
		for _, f := range fd.Type.Results.List {
			rt := c.goType(f.Type)
			if len(f.Names) == 0 {
				s.results = append(s.results, rt)
			}
			for _, n := range f.Names {
				s.results = append(s.results, rt)
				if rt.k == kStruct {
					c.fail(f, "named result of struct type")
				}
				if n.Name == "_" {
					c.fail(f, "blank named result")
				}
				c.named = append(c.named, n.Name)
				v := c.declare(c.top, n, rt)
				pre += "let " + v.coq + " := " + rt.zero() + " in\n"
			}
		}
		c.results = s.results
		var rts []string
		if c.recvOut != nil {
			rt := c.top.vars[fd.Recv.List[0].Names[0].Name].t
			for i := range rt.fields {
				rts = append(rts, rt.fieldType(i).coq())
			}
		}
		for _, r := range s.results {
			if r.k == kStruct && !t.sv {
				for i := range r.fields {
					rts = append(rts, r.fieldType(i).coq())
				}
			} else {
				rts = append(rts, r.coq())
			}
		}
		retType = strings.Join(rts, " * ")
		if len(rts) > 1 {
			retType = "(" + retType + ")%type"
		}
		body = c.block(fd.Body.List, c.top, func() string {
			failf("%s: function %s: unsupported construct: control reaches the end of the function without a return", relpos(fd.End()), label)
			return ""
		})
		if c.recvOut != nil {
			kindNote = " — pointer receiver: the fields of the receiver after the call, then the results"
		}
	}
	s.libm = c.libm
	if s.libm {
		binders = append([]string{"(" + libmVar + " : libm)"}, binders...)
	}
	if t.m64 {
		retType = "(M " + retType + ")"
	}
	t.fglobal(s.coq, c.label)
	def := fmt.Sprintf("(* %s  [%s]%s *)\nDefinition %s %s : %s :=\n%s%s.\n", c.label, p.names[p.fileOf[fd]], kindNote, s.coq, strings.Join(binders, " "), retType, pre, body)
	t.ffuncs = append(t.ffuncs, def)
	t.fhints = append(t.fhints, s.coq)
	t.fsigs[key] = s
	return s
}

func (tg ftarget) coqName() string {
	if tg.out != "" {
		return tg.out
	}
	n := tg.name
	if strings.HasPrefix(tg.pkg, "\x00") {
		n = tg.pkg[strings.LastIndex(tg.pkg, "/")+1:] + "_" + n // a function of a dependency: r3_Add
	}
	if tg.recv != "" {
		n = tg.recv + "_" + tg.name
	}
	if tg.local != "" {
		n += "_" + tg.local
	}
	return n
}

// the integer kernels found by role, into this translator's float-mode sink (t.ffuncs)
func (t *translator) runExtracted(file string) {
	for _, tg := range itargets {
		tg := tg
		t.try(file, tg.coqName(), func() { t.ffunction(tg, nil) })
	}
}

func (t *translator) runFloat(abs string) string {
	for _, tg := range ftargets {
		tg := tg
		t.try(floatFile, tg.coqName(), func() { t.ffunction(tg, nil) })
	}
	var files []string
	for f := range t.fused {
		files = append(files, f)
	}
	sort.Strings(files)
	var b strings.Builder
	b.WriteString("(* GeneratedF.v — written by vtrans (harness/cmd/vtrans) from the Go source tree. DO NOT EDIT: bin/check regenerates this file.\n")
	b.WriteString("   Go float64 = Coq primitive float (binary64): + - * / = PrimFloat.add sub mul div, == < <= = PrimFloat.eqb ltb leb (a > b is ltb b a),\n")
	b.WriteString("   unary - = PrimFloat.opp; math.Floor Ceil Abs = F64.ffloor F64.fceil PrimFloat.abs; math.Pow(2, float64(z)) = F64.pow2f z;\n")
	b.WriteString("   float64(i) = F64.of_Z i; int64(f) = F64.Ztrunc_f f (option Z); constant expressions are evaluated exactly and rounded once, a float64\n")
	b.WriteString("   constant is the hexadecimal literal Go prints for it; the other functions of package math are fields of the record libm.\n")
	b.WriteString("   Source files (relative to the repository root) and their SHA-256:\n")
	for _, f := range files {
		data, err := os.ReadFile(sourcePath(abs, f))
		if err != nil {
			failf("%v", err)
		}
		fmt.Fprintf(&b, "     %x  %s\n", sha256.Sum256(data), f)
	}
	b.WriteString("*)\n")
	b.WriteString("From Coq Require Import ZArith Bool Floats.\nFrom SID Require Import F64.\nOpen Scope Z_scope.\n\n")
	b.WriteString("(* the functions of Go's package math that have no model in F64.v: every definition that calls one takes this record *)\n")
	b.WriteString("Record libm : Type := mk_libm {\n")
	for _, n := range libmUnary {
		fmt.Fprintf(&b, "  %s : float -> float;\n", libmField(n))
	}
	for i, n := range libmBinary {
		sep := ";"
		if i == len(libmBinary)-1 {
			sep = ""
		}
		fmt.Fprintf(&b, "  %s : float -> float -> float%s\n", libmField(n), sep)
	}
	b.WriteString("}.\n\n")
	b.WriteString(t.rejectedNote(floatFile))
	b.WriteString("(* ---- definitions (callees first) ---- *)\n")
	for _, f := range t.ffuncs {
		b.WriteString(f)
		b.WriteString("\n")
	}
	b.WriteString("(* every definition of this file, for `autounfold with sidgenf` *)\n")
	b.WriteString("Create HintDb sidgenf.\n")
	for _, h := range t.fhints {
		fmt.Fprintf(&b, "#[global] Hint Unfold %s : sidgenf.\n", h)
	}
	return b.String()
}
