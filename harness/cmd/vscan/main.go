// vscan — the premise of C19, extracted from the source tree on every run.
//
// Loads the module at -repo (with its dependencies, offline), builds SSA (generics instantiated), takes every exported function and
// method of every package of the module as a root of a Rapid Type Analysis, and lists, for all reachable functions outside the Go
// standard library (package initialisers excluded: they happen before any call):
//
//	global-store / global-mapupdate / global-append / global-chan   a write whose address roots in a package-level variable
//	global-ref-call   a call that receives (the address of) a package-level variable of pointer-, map-, slice-, channel-, func-,
//	                  interface- or sync.*-bearing type (so a properly locked global cache is listed too)
//	go-statement      a goroutine is started
//	sync-use / atomic-use / unsafe-use
//	param-store / param-mapupdate / param-append
//	                  a write into memory provided by the caller of an exported function (inputs must stay unmodified); found by an
//	                  interprocedural flow analysis from the parameters of the roots, followed through callees and interface calls into
//	                  the standard library (sort.Strings(input) is reported at the swap inside package slices, sort.Slice(input, ..) at the
//	                  call of reflectlite.Swapper). Documented mutators (Set*/Reset*, (*HighSpatialID).Merge, spatial.UniqueAppend) may
//	                  change their first operand, but that operand is seeded with what the functions returning its type keep of THEIR
//	                  arguments: a constructor that keeps a reference makes a later mutator write another call's argument.
//	std-state-call    a direct call into a package of the standard library outside a list of state-free ones (os.Setenv, os.Chdir, files,
//	                  network, log/flag settings, the default math/rand source, runtime settings)
//	reflect-use       a direct call into reflect
//
// Function values created by package initialisers (a closure stored in a package-level variable) are resolved as callees, and the variables
// such closures capture count as package-level state.
// Not covered (trusted absent): writes through reflect values or unsafe pointers inside dependencies, cgo/assembly, state kept outside the
// process. The regression list of the scanner itself: regress.sh / regress/ (20 mutants of /repo, each must produce its kind).
//
// Output: a Coq file `Definition shared_sites : list site := [...]` (site is defined in coq/theories/Conc.v) and STAT lines.
// Trusted: go/packages, go/ssa, RTA (sound for programs without reflection/unsafe on the paths concerned), and this file.
package main

import (
	"encoding/json"
	"flag"
	"fmt"
	"go/token"
	"go/types"
	"os"
	"path/filepath"
	"sort"
	"strings"
	"time"

	"golang.org/x/tools/go/callgraph"
	"golang.org/x/tools/go/callgraph/rta"
	"golang.org/x/tools/go/packages"
	"golang.org/x/tools/go/ssa"
	"golang.org/x/tools/go/ssa/ssautil"
)

type site struct {
	Pkg  string `json:"package"`
	Func string `json:"function"`
	Kind string `json:"kind"`
	Pos  string `json:"position"`
}

var (
	repoDir  string
	modCache string
	fset     *token.FileSet
	sites    = map[string]site{}
)

func isStd(path string) bool {
	first := path
	if i := strings.Index(path, "/"); i >= 0 {
		first = path[:i]
	}
	return !strings.Contains(first, ".")
}

// package path of a function, also for instances of generic functions, wrappers and closures (whose Pkg is nil)
func fnPkgPath(fn *ssa.Function) string {
	for f := fn; f != nil; f = f.Parent() {
		if f.Pkg != nil {
			return f.Pkg.Pkg.Path()
		}
		if o := f.Origin(); o != nil && o.Pkg != nil {
			return o.Pkg.Pkg.Path()
		}
		if obj := f.Object(); obj != nil && obj.Pkg() != nil {
			return obj.Pkg().Path()
		}
	}
	return ""
}

func hasInitAncestor(fn *ssa.Function) bool {
	if fn == nil {
		return false
	}
	for p := fn.Parent(); p != nil; p = p.Parent() {
		if isInit(p) && !isStd(fnPkgPath(p)) {
			return true
		}
	}
	return false
}

func isInit(fn *ssa.Function) bool {
	return fn.Parent() == nil && fn.Signature.Recv() == nil && (fn.Name() == "init" || strings.HasPrefix(fn.Name(), "init#"))
}

func posOf(fn *ssa.Function, ins ssa.Instruction) string {
	p := ins.Pos()
	if !p.IsValid() {
		// instructions without a position of their own: the nearest earlier instruction of the block that has one, else the function
		if b := ins.Block(); b != nil {
			for _, j := range b.Instrs {
				if j == ins {
					break
				}
				if j.Pos().IsValid() {
					p = j.Pos()
				}
			}
		}
		if !p.IsValid() {
			p = fn.Pos()
		}
	}
	if !p.IsValid() {
		for f := fn; f != nil && !p.IsValid(); f = f.Parent() {
			p = f.Pos()
		}
	}
	if !p.IsValid() {
		return "?"
	}
	ps := fset.Position(p)
	file := ps.Filename
	if r, err := filepath.Rel(repoDir, file); err == nil && !strings.HasPrefix(r, "..") {
		file = r
	} else if modCache != "" && strings.HasPrefix(file, modCache) {
		file = strings.TrimPrefix(strings.TrimPrefix(file, modCache), "/")
	}
	return fmt.Sprintf("%s:%d:%d", file, ps.Line, ps.Column)
}

func addSite(fn *ssa.Function, ins ssa.Instruction, kind, what string) {
	s := site{Pkg: fnPkgPath(fn), Func: fn.String(), Kind: kind, Pos: posOf(fn, ins)}
	if what != "" {
		s.Pos += " " + what
	}
	k := kind + "|" + posOf(fn, ins) + "|" + fn.String()
	if _, ok := sites[k]; !ok {
		sites[k] = s
	}
}

// ---------- package-level variables ----------

func globalRoots(v ssa.Value) []*ssa.Global {
	var out []*ssa.Global
	seen := map[ssa.Value]bool{}
	var walk func(v ssa.Value)
	walk = func(v ssa.Value) {
		if v == nil || seen[v] {
			return
		}
		seen[v] = true
		switch x := v.(type) {
		case *ssa.Global:
			out = append(out, x)
		case *ssa.FieldAddr:
			walk(x.X)
		case *ssa.IndexAddr:
			walk(x.X)
		case *ssa.Field:
			walk(x.X)
		case *ssa.Index:
			walk(x.X)
		case *ssa.Lookup:
			walk(x.X)
		case *ssa.UnOp:
			if x.Op == token.MUL || x.Op == token.ARROW {
				walk(x.X)
			}
		case *ssa.ChangeType:
			walk(x.X)
		case *ssa.Convert:
			walk(x.X)
		case *ssa.ChangeInterface:
			walk(x.X)
		case *ssa.MakeInterface:
			walk(x.X)
		case *ssa.TypeAssert:
			walk(x.X)
		case *ssa.Slice:
			walk(x.X)
		case *ssa.SliceToArrayPointer:
			walk(x.X)
		case *ssa.Extract:
			walk(x.Tuple)
		case *ssa.Phi:
			for _, e := range x.Edges {
				walk(e)
			}
		}
	}
	walk(v)
	return out
}

// bearing: a value of this type can carry mutable state shared between calls
func bearing(t types.Type, seen map[types.Type]bool) bool {
	if seen[t] {
		return false
	}
	seen[t] = true
	if n, ok := t.(*types.Named); ok {
		if p := n.Obj().Pkg(); p != nil && (p.Path() == "sync" || p.Path() == "sync/atomic") {
			return true
		}
	}
	switch u := t.Underlying().(type) {
	case *types.Pointer, *types.Map, *types.Slice, *types.Chan, *types.Signature, *types.Interface:
		return true
	case *types.Basic:
		return u.Kind() == types.UnsafePointer
	case *types.Struct:
		for i := 0; i < u.NumFields(); i++ {
			if bearing(u.Field(i).Type(), seen) {
				return true
			}
		}
	case *types.Array:
		return bearing(u.Elem(), seen)
	}
	return false
}

func pointerLike(t types.Type) bool { return bearing(t, map[types.Type]bool{}) }

// refBearing: pointer-, map-, slice-, channel- or sync.*-bearing (the rule for calls that receive a package-level variable)
func refBearing(t types.Type, seen map[types.Type]bool) bool {
	if seen[t] {
		return false
	}
	seen[t] = true
	if n, ok := t.(*types.Named); ok {
		if p := n.Obj().Pkg(); p != nil && (p.Path() == "sync" || p.Path() == "sync/atomic") {
			return true
		}
	}
	switch u := t.Underlying().(type) {
	case *types.Pointer, *types.Map, *types.Slice, *types.Chan:
		return true
	case *types.Basic:
		return u.Kind() == types.UnsafePointer
	case *types.Struct:
		for i := 0; i < u.NumFields(); i++ {
			if refBearing(u.Field(i).Type(), seen) {
				return true
			}
		}
	case *types.Array:
		return refBearing(u.Elem(), seen)
	}
	return false
}

func globalElem(g *ssa.Global) types.Type {
	if p, ok := g.Type().Underlying().(*types.Pointer); ok {
		return p.Elem()
	}
	return g.Type()
}

// a package-level variable outside the standard library: its address is shared memory (whatever its type: a helper that receives
// &counter and increments it writes shared state); what is loaded from it is followed when it can reach further memory
func sharedGlobal(v ssa.Value) (*ssa.Global, bool) {
	g, ok := v.(*ssa.Global)
	if !ok || g.Pkg == nil || isStd(g.Pkg.Pkg.Path()) {
		return nil, false
	}
	return g, true
}

func globalName(g *ssa.Global) string {
	if g.Pkg != nil {
		return g.Pkg.Pkg.Path() + "." + g.Name()
	}
	return g.Name()
}

func globalsOf(v ssa.Value, onlyBearing bool) (string, bool) {
	var names []string
	for _, g := range globalRoots(v) {
		if onlyBearing && !refBearing(globalElem(g), map[types.Type]bool{}) {
			continue
		}
		names = append(names, globalName(g))
	}
	if len(names) == 0 {
		return "", false
	}
	sort.Strings(names)
	return "var " + strings.Join(names, ","), true
}

func calleePkg(c *ssa.CallCommon) (string, string) {
	if c.IsInvoke() {
		if p := c.Method.Pkg(); p != nil {
			return p.Path(), c.Method.Name()
		}
		return "", c.Method.Name()
	}
	if f := c.StaticCallee(); f != nil {
		return fnPkgPath(f), f.Name()
	}
	return "", ""
}

// Packages of the standard library whose functions keep no state between calls that a caller could observe (pure computations on their
// arguments and on memory they allocate). A direct call from the library (or its dependencies) into any other package of the standard
// library is listed as `std-state-call`: process-global state lives there (environment, working directory, files, sockets, the default
// math/rand source, the log/flag singletons, runtime settings), where the scan of package-level variables does not look.
var pureStd = map[string]bool{
	"errors": true, "fmt": true, "math": true, "math/big": true, "math/bits": true, "math/cmplx": true, "sort": true, "slices": true, "maps": true,
	"strconv": true, "strings": true, "bytes": true, "unicode": true, "unicode/utf8": true, "unicode/utf16": true, "cmp": true, "container/heap": true,
	"container/list": true, "container/ring": true, "encoding/binary": true, "encoding/hex": true, "encoding/json": true, "hash/fnv": true, "hash/crc32": true,
	"regexp": true, "text/tabwriter": true, "bufio": true, "io": true, "iter": true, "unique": false, "time": true,
	"sync": true, "sync/atomic": true, "unsafe": true, "reflect": true, "internal/reflectlite": true, // listed under their own kinds
}

func stdStateCall(pkg, name string, c *ssa.CallCommon) string {
	switch pkg {
	case "fmt":
		if strings.HasPrefix(name, "Print") || strings.HasPrefix(name, "Scan") && !strings.HasPrefix(name, "Sscan") {
			return "writes/reads the process's standard streams"
		}
		return ""
	case "time":
		switch name {
		case "Sleep", "After", "AfterFunc", "Tick", "NewTimer", "NewTicker", "LoadLocation":
			return "timers / time-zone database"
		}
		return ""
	case "log":
		// printing through the standard logger is synchronised output that no call reads back; its settings are state
		if strings.HasPrefix(name, "Print") || strings.HasPrefix(name, "Panic") || strings.HasPrefix(name, "Fatal") || name == "Output" {
			return ""
		}
		return "settings of the process-wide standard logger"
	case "math/rand", "math/rand/v2":
		if c.Signature().Recv() == nil && !strings.HasPrefix(name, "New") {
			return "the default random source is shared by the whole process"
		}
		return ""
	}
	if pureStd[pkg] {
		return ""
	}
	return "package outside the list of state-free standard packages (environment, files, network, logging, flags, runtime settings ...)"
}

func mentionsUnsafe(t types.Type) bool {
	b, ok := t.Underlying().(*types.Basic)
	return ok && b.Kind() == types.UnsafePointer
}

func scanGlobals(fn *ssa.Function) {
	for _, b := range fn.Blocks {
		for _, ins := range b.Instrs {
			switch x := ins.(type) {
			case *ssa.Store:
				if w, ok := globalsOf(x.Addr, false); ok {
					addSite(fn, ins, "global-store", w)
				}
			case *ssa.MapUpdate:
				if w, ok := globalsOf(x.Map, false); ok {
					addSite(fn, ins, "global-mapupdate", w)
				}
			case *ssa.Send:
				if w, ok := globalsOf(x.Chan, false); ok {
					addSite(fn, ins, "global-chan", w)
				}
			case *ssa.Select:
				for _, st := range x.States {
					if w, ok := globalsOf(st.Chan, false); ok {
						addSite(fn, ins, "global-chan", w)
					}
				}
			case *ssa.UnOp:
				if x.Op == token.ARROW {
					if w, ok := globalsOf(x.X, false); ok {
						addSite(fn, ins, "global-chan", w)
					}
				}
			case *ssa.Convert:
				if mentionsUnsafe(x.Type()) || mentionsUnsafe(x.X.Type()) {
					addSite(fn, ins, "unsafe-use", "unsafe.Pointer conversion")
				}
			case *ssa.Go:
				addSite(fn, ins, "go-statement", "")
			}
			ci, ok := ins.(ssa.CallInstruction)
			if !ok {
				continue
			}
			c := ci.Common()
			if bi, ok := c.Value.(*ssa.Builtin); ok {
				if o := bi.Object(); o != nil && o.Pkg() != nil && o.Pkg().Path() == "unsafe" {
					addSite(fn, ins, "unsafe-use", "unsafe."+bi.Name())
				}
				if len(c.Args) > 0 {
					switch bi.Name() {
					case "append":
						if w, ok := globalsOf(c.Args[0], false); ok {
							addSite(fn, ins, "global-append", w)
						}
					case "copy":
						if w, ok := globalsOf(c.Args[0], false); ok {
							addSite(fn, ins, "global-store", "copy into "+w)
						}
					case "delete", "clear":
						if w, ok := globalsOf(c.Args[0], false); ok {
							addSite(fn, ins, "global-mapupdate", bi.Name()+" "+w)
						}
					}
				}
				continue
			}
			pkg, name := calleePkg(c)
			if pkg != "" && isStd(pkg) {
				if why := stdStateCall(pkg, name, c); why != "" {
					addSite(fn, ins, "std-state-call", pkg+"."+name+": "+why)
				}
			}
			switch pkg {
			case "reflect", "internal/reflectlite":
				addSite(fn, ins, "reflect-use", pkg+"."+name)
			case "sync":
				addSite(fn, ins, "sync-use", "sync."+name)
			case "sync/atomic":
				addSite(fn, ins, "atomic-use", "sync/atomic."+name)
			case "unsafe":
				addSite(fn, ins, "unsafe-use", "unsafe."+name)
			}
			vals := append([]ssa.Value{}, c.Args...)
			vals = append(vals, c.Value) // receiver of an interface call, or a function value read from a variable
			for _, a := range vals {
				if a == nil {
					continue
				}
				if w, ok := globalsOf(a, true); ok {
					callee := name
					if pkg != "" {
						callee = pkg + "." + name
					}
					addSite(fn, ins, "global-ref-call", w+" passed to "+callee)
					break
				}
			}
		}
	}
}

// ---------- writes into caller-provided memory ----------

// level 2: the value points into (or is) memory provided by the caller of a root; level 1: the value is (the address of) a container
// private to the call that holds such values; `held` says values of which type and level were put into it.
type heldT struct {
	t   types.Type
	lvl uint8
}
type tinfo struct {
	lvl  uint8
	held []heldT
}

type taint struct {
	info    map[ssa.Value]*tinfo
	ret     map[*ssa.Function]*tinfo
	origin  map[*ssa.Function]string
	queue   []*ssa.Function
	inq     map[*ssa.Function]bool
	visited map[*ssa.Function]bool
	cg      *cgraph
	roots   map[*ssa.Function]bool
	global  bool // sources are the package-level variables (outside std) instead of the parameters of the roots
}

func (t *taint) get(v ssa.Value) *tinfo {
	if i, ok := t.info[v]; ok {
		return i
	}
	if t.global {
		if _, ok := sharedGlobal(v); ok {
			return &tinfo{lvl: 2}
		}
		// a variable captured by a closure that a package initialiser created lives as long as the process: shared between calls
		if fv, ok := v.(*ssa.FreeVar); ok && hasInitAncestor(fv.Parent()) {
			return &tinfo{lvl: 2}
		}
	}
	return &tinfo{}
}

func addHeld(dst []heldT, h heldT) ([]heldT, bool) {
	for i, e := range dst {
		if types.Identical(e.t, h.t) {
			if e.lvl >= h.lvl {
				return dst, false
			}
			dst[i].lvl = h.lvl
			return dst, true
		}
	}
	return append(dst, h), true
}

// join src into the info of v; reports a change
func (t *taint) raise(v ssa.Value, lvl uint8, held []heldT) bool {
	if v == nil || lvl == 0 {
		return false
	}
	switch v.(type) {
	case *ssa.Const, *ssa.Global, *ssa.Function, *ssa.Builtin:
		return false
	}
	i, ok := t.info[v]
	if !ok {
		i = &tinfo{}
		t.info[v] = i
	}
	ch := false
	if lvl > i.lvl {
		i.lvl = lvl
		ch = true
	}
	for _, h := range held {
		var c bool
		i.held, c = addHeld(i.held, h)
		ch = ch || c
	}
	return ch
}

func (t *taint) raiseRet(fn *ssa.Function, lvl uint8, held []heldT) bool {
	if lvl == 0 {
		return false
	}
	i, ok := t.ret[fn]
	if !ok {
		i = &tinfo{}
		t.ret[fn] = i
	}
	ch := false
	if lvl > i.lvl {
		i.lvl = lvl
		ch = true
	}
	for _, h := range held {
		var c bool
		i.held, c = addHeld(i.held, h)
		ch = ch || c
	}
	return ch
}

func containsType(outer, inner types.Type, depth int) bool {
	if types.Identical(outer, inner) {
		return true
	}
	if depth > 6 {
		return false
	}
	switch u := outer.Underlying().(type) {
	case *types.Struct:
		for i := 0; i < u.NumFields(); i++ {
			if containsType(u.Field(i).Type(), inner, depth+1) {
				return true
			}
		}
	case *types.Array:
		return containsType(u.Elem(), inner, depth+1)
	}
	return false
}

// what a read of type ty yields when it reads from src
func (t *taint) read(src *tinfo, ty types.Type) (uint8, []heldT) {
	if src.lvl == 0 || !pointerLike(ty) {
		return 0, nil
	}
	if src.lvl == 2 {
		return 2, nil
	}
	var l uint8
	for _, h := range src.held {
		if containsType(ty, h.t, 0) && h.lvl > l {
			l = h.lvl
		}
	}
	if l == 1 {
		return 1, src.held
	}
	return l, nil
}

func rootAddr(v ssa.Value) ssa.Value {
	for {
		switch x := v.(type) {
		case *ssa.FieldAddr:
			v = x.X
		case *ssa.IndexAddr:
			v = x.X
		case *ssa.Slice:
			v = x.X
		case *ssa.ChangeType:
			v = x.X
		default:
			return v
		}
	}
}

func (t *taint) push(fn *ssa.Function, origin string) {
	if fn == nil {
		return
	}
	if _, ok := t.origin[fn]; !ok {
		t.origin[fn] = origin
	}
	if !t.inq[fn] {
		t.inq[fn] = true
		t.queue = append(t.queue, fn)
	}
}

// cgraph: the call edges used by the scan. Interface calls and static calls are resolved by the analysis rooted at the API; calls through
// function values are resolved by the analysis that also knows the package initialisers (a closure stored in a package-level variable).
type cgraph struct {
	out map[ssa.CallInstruction][]*ssa.Function
	in  map[*ssa.Function][]*ssa.Function
}

func (g *cgraph) add(caller *ssa.Function, site ssa.CallInstruction, callee *ssa.Function) {
	if site == nil || callee == nil {
		return
	}
	for _, f := range g.out[site] {
		if f == callee {
			return
		}
	}
	g.out[site] = append(g.out[site], callee)
	g.in[callee] = append(g.in[callee], caller)
}

func isFuncValueCall(ci ssa.CallInstruction) bool {
	c := ci.Common()
	if c.IsInvoke() || c.StaticCallee() != nil {
		return false
	}
	_, isBuiltin := c.Value.(*ssa.Builtin)
	return !isBuiltin
}

// function values created by the package initialisers (closures defined in them, named functions mentioned as values in them)
func initFuncValues(inits []*ssa.Function) map[*ssa.Function]bool {
	out := map[*ssa.Function]bool{}
	var walk func(f *ssa.Function)
	walk = func(f *ssa.Function) {
		var ops []*ssa.Value
		for _, b := range f.Blocks {
			for _, ins := range b.Instrs {
				ops = ins.Operands(ops[:0])
				for k, o := range ops {
					if o == nil {
						continue
					}
					if fv, ok := (*o).(*ssa.Function); ok {
						// operand 0 of a call is the callee, not a function value that escapes
						if ci, isCall := ins.(ssa.CallInstruction); isCall && k == 0 && ci.Common().StaticCallee() == fv {
							continue
						}
						out[fv] = true
					}
				}
			}
		}
		for _, af := range f.AnonFuncs {
			out[af] = true
			walk(af)
		}
	}
	for _, f := range inits {
		walk(f)
	}
	return out
}

func buildGraph(api, withInits *callgraph.Graph, fromInit map[*ssa.Function]bool) *cgraph {
	g := &cgraph{out: map[ssa.CallInstruction][]*ssa.Function{}, in: map[*ssa.Function][]*ssa.Function{}}
	for fn, n := range api.Nodes {
		for _, e := range n.Out {
			if e.Callee != nil {
				g.add(fn, e.Site, e.Callee.Func)
			}
		}
	}
	for fn, n := range withInits.Nodes {
		for _, e := range n.Out {
			if e.Callee != nil && e.Site != nil && isFuncValueCall(e.Site) && fromInit[e.Callee.Func] {
				g.add(fn, e.Site, e.Callee.Func)
			}
		}
	}
	return g
}

func (t *taint) callees(fn *ssa.Function, ci ssa.CallInstruction) []*ssa.Function {
	out := t.cg.out[ci]
	if len(out) == 0 {
		if f := ci.Common().StaticCallee(); f != nil {
			out = append(out, f)
		}
	}
	return out
}

func elemOf(t types.Type) types.Type {
	switch u := t.Underlying().(type) {
	case *types.Slice:
		return u.Elem()
	case *types.Array:
		return u.Elem()
	case *types.Pointer:
		return elemOf(u.Elem())
	case *types.Map:
		return u.Elem()
	}
	return nil
}

// what is put into a container when v is stored into it
func (t *taint) stored(v ssa.Value) (uint8, []heldT) {
	i := t.get(v)
	if i.lvl == 0 || !pointerLike(v.Type()) {
		return 0, nil
	}
	h := []heldT{{v.Type(), i.lvl}}
	if i.lvl == 1 {
		h = append(h, i.held...)
	}
	return 1, h
}

func (t *taint) siteHere(fn *ssa.Function, ins ssa.Instruction, kind, what string) {
	w := what
	if o := t.origin[fn]; o != "" {
		if w != "" {
			w += "; "
		}
		if t.global {
			w += "memory reachable from " + o
		} else {
			w += "memory provided by the caller of " + o
		}
	}
	if t.global {
		kind = strings.Replace(kind, "param-", "global-", 1)
		w = strings.Replace(w, "caller-provided", "package-level", -1)
	}
	addSite(fn, ins, kind, w)
}

func (t *taint) process(fn *ssa.Function) {
	t.visited[fn] = true
	origin := t.origin[fn]
	paramBefore := map[ssa.Value]tinfo{}
	snapshot := func(v ssa.Value) {
		i := t.get(v)
		paramBefore[v] = tinfo{lvl: i.lvl, held: append([]heldT{}, i.held...)}
	}
	for _, p := range fn.Params {
		snapshot(p)
	}
	for _, p := range fn.FreeVars {
		snapshot(p)
	}
	for changed, rounds := true, 0; changed && rounds < 50; rounds++ {
		changed = false
		up := func(v ssa.Value, lvl uint8, held []heldT) {
			if t.raise(v, lvl, held) {
				changed = true
			}
		}
		copyFrom := func(dst ssa.Value, src ssa.Value) {
			i := t.get(src)
			if i.lvl > 0 && pointerLike(dst.Type()) {
				up(dst, i.lvl, i.held)
			}
		}
		for _, b := range fn.Blocks {
			for _, ins := range b.Instrs {
				switch x := ins.(type) {
				case *ssa.Phi:
					for _, e := range x.Edges {
						copyFrom(x, e)
					}
				case *ssa.FieldAddr:
					copyFrom(x, x.X)
				case *ssa.IndexAddr:
					copyFrom(x, x.X)
				case *ssa.Slice:
					copyFrom(x, x.X)
				case *ssa.ChangeType:
					copyFrom(x, x.X)
				case *ssa.Convert:
					// string <-> []byte conversions copy
					if _, isSl := x.Type().Underlying().(*types.Slice); isSl {
						if b, ok := x.X.Type().Underlying().(*types.Basic); ok && b.Info()&types.IsString != 0 {
							break
						}
					}
					copyFrom(x, x.X)
				case *ssa.ChangeInterface:
					copyFrom(x, x.X)
				case *ssa.MakeInterface:
					copyFrom(x, x.X)
				case *ssa.SliceToArrayPointer:
					copyFrom(x, x.X)
				case *ssa.TypeAssert:
					copyFrom(x, x.X)
				case *ssa.Range:
					copyFrom(x, x.X)
				case *ssa.Next:
					i := t.get(x.Iter)
					if i.lvl > 0 {
						up(x, i.lvl, i.held)
					}
				case *ssa.Field:
					l, h := t.read(t.get(x.X), x.Type())
					up(x, l, h)
				case *ssa.Index:
					l, h := t.read(t.get(x.X), x.Type())
					up(x, l, h)
				case *ssa.Lookup:
					l, h := t.read(t.get(x.X), x.Type())
					up(x, l, h)
				case *ssa.Extract:
					l, h := t.read(t.get(x.Tuple), x.Type())
					up(x, l, h)
				case *ssa.UnOp:
					if x.Op == token.MUL {
						l, h := t.read(t.get(x.X), x.Type())
						up(x, l, h)
					}
				case *ssa.Store:
					if t.get(x.Addr).lvl == 2 {
						t.siteHere(fn, ins, "param-store", "")
					} else if l, h := t.stored(x.Val); l > 0 {
						up(rootAddr(x.Addr), l, h)
					}
				case *ssa.MapUpdate:
					if t.get(x.Map).lvl == 2 {
						t.siteHere(fn, ins, "param-mapupdate", "")
					} else {
						if l, h := t.stored(x.Value); l > 0 {
							up(rootAddr(x.Map), l, h)
						}
						if l, h := t.stored(x.Key); l > 0 {
							up(rootAddr(x.Map), l, h)
						}
					}
				case *ssa.Return:
					for _, r := range x.Results {
						i := t.get(r)
						if i.lvl > 0 && pointerLike(r.Type()) {
							if t.raiseRet(fn, i.lvl, i.held) {
								// callers must look again
								for _, cf := range t.cg.in[fn] {
									if t.visited[cf] {
										t.push(cf, t.origin[cf])
									}
								}
							}
						}
					}
				case *ssa.MakeClosure:
					cf, _ := x.Fn.(*ssa.Function)
					if cf == nil {
						break
					}
					for k, bnd := range x.Bindings {
						if k >= len(cf.FreeVars) {
							break
						}
						i := t.get(bnd)
						if i.lvl > 0 && t.raise(cf.FreeVars[k], i.lvl, i.held) {
							t.push(cf, origin)
						}
						// a closure that put caller memory into a captured variable
						if fi := t.get(cf.FreeVars[k]); fi.lvl == 1 && i.lvl == 0 {
							up(rootAddr(bnd), 1, fi.held)
						}
					}
				}
				ci, ok := ins.(ssa.CallInstruction)
				if !ok {
					continue
				}
				c := ci.Common()
				if bi, ok := c.Value.(*ssa.Builtin); ok {
					switch bi.Name() {
					case "append":
						if len(c.Args) == 2 {
							a0, a1 := t.get(c.Args[0]), t.get(c.Args[1])
							if a0.lvl == 2 {
								t.siteHere(fn, ins, "param-append", "append to a caller-provided slice writes its spare capacity")
							}
							if v := ci.Value(); v != nil {
								if a0.lvl > 0 {
									up(v, a0.lvl, a0.held)
								}
								if el := elemOf(c.Args[1].Type()); el != nil && pointerLike(el) && a1.lvl > 0 {
									if a1.lvl == 2 {
										up(v, 1, []heldT{{el, 2}})
									} else {
										up(v, 1, a1.held)
									}
								}
							}
						}
					case "copy":
						if len(c.Args) == 2 {
							a0, a1 := t.get(c.Args[0]), t.get(c.Args[1])
							if a0.lvl == 2 {
								t.siteHere(fn, ins, "param-store", "copy into a caller-provided slice")
							} else if el := elemOf(c.Args[1].Type()); el != nil && pointerLike(el) && a1.lvl > 0 {
								if a1.lvl == 2 {
									up(rootAddr(c.Args[0]), 1, []heldT{{el, 2}})
								} else {
									up(rootAddr(c.Args[0]), 1, a1.held)
								}
							}
						}
					case "delete", "clear":
						if len(c.Args) > 0 && t.get(c.Args[0]).lvl == 2 {
							t.siteHere(fn, ins, "param-mapupdate", bi.Name())
						}
					}
					continue
				}
				callees := t.callees(fn, ci)
				args := c.Args
				if c.IsInvoke() {
					args = append([]ssa.Value{c.Value}, c.Args...)
				}
				for _, cf := range callees {
					if pp := fnPkgPath(cf); (pp == "reflect" || pp == "internal/reflectlite") && reflectWrites[cf.Name()] {
						for _, a := range args {
							if t.get(a).lvl >= 1 {
								t.siteHere(fn, ins, "param-store", "written through reflection ("+pp+"."+cf.Name()+")")
								break
							}
						}
					}
					if len(cf.Blocks) == 0 {
						if !isStd(fnPkgPath(cf)) {
							for _, a := range args {
								if t.get(a).lvl == 2 {
									t.siteHere(fn, ins, "param-store", "caller-provided memory passed to "+cf.String()+" (no Go body)")
									break
								}
							}
						}
						continue
					}
					for k, a := range args {
						if k >= len(cf.Params) {
							break
						}
						i := t.get(a)
						if i.lvl > 0 && pointerLike(a.Type()) {
							if t.raise(cf.Params[k], i.lvl, i.held) {
								t.push(cf, origin)
							}
						}
						// the callee put caller memory into a container it received
						if pi := t.get(cf.Params[k]); pi.lvl == 1 && i.lvl == 0 && t.visited[cf] && pointerLike(a.Type()) {
							up(rootAddr(a), 1, pi.held)
						}
					}
					if v := ci.Value(); v != nil {
						if r, ok := t.ret[cf]; ok && r.lvl > 0 {
							l, h := r.lvl, r.held
							if !pointerLike(v.Type()) {
								l = 0
							}
							if _, isTuple := v.Type().(*types.Tuple); isTuple {
								l = r.lvl
							}
							if l > 0 {
								up(v, l, h)
							}
						}
					}
				}
			}
		}
	}
	// containers received from callers that this function filled: callers must look again
	chg := false
	for v, before := range paramBefore {
		now := t.get(v)
		if now.lvl != before.lvl || len(now.held) != len(before.held) {
			chg = true
		}
	}
	if chg {
		for _, cf := range t.cg.in[fn] {
			if t.visited[cf] {
				t.push(cf, t.origin[cf])
			}
		}
		if p := fn.Parent(); p != nil && t.visited[p] {
			t.push(p, t.origin[p])
		}
	}
}

// Documented mutators: exported operations whose contract is to change their first operand, which therefore is not a read-only
// argument: setters (Set*/Reset* with a pointer receiver), the accumulator (*HighSpatialID).Merge, and the append-like
// spatial.UniqueAppend (returns the extended slice, like append). Every other parameter of these functions is still a source.
// reflection entry points that write the memory their operand refers to (sort.Slice swaps the caller's slice through reflectlite.Swapper)
var reflectWrites = map[string]bool{"Swapper": true, "Copy": true, "Set": true, "SetBool": true, "SetBytes": true, "SetComplex": true, "SetFloat": true,
	"SetInt": true, "SetLen": true, "SetCap": true, "SetMapIndex": true, "SetIterKey": true, "SetIterValue": true, "SetPointer": true, "SetString": true,
	"SetUint": true, "SetZero": true, "Clear": true, "Grow": true, "Send": true, "Append": true, "AppendSlice": true}

func isSetter(fn *ssa.Function) bool {
	recv := fn.Signature.Recv()
	if recv == nil {
		return fn.Name() == "UniqueAppend" && strings.HasSuffix(fnPkgPath(fn), "/common/spatial")
	}
	if _, ok := recv.Type().Underlying().(*types.Pointer); !ok {
		return false
	}
	return strings.HasPrefix(fn.Name(), "Set") || strings.HasPrefix(fn.Name(), "Reset") || fn.Name() == "Merge"
}

// ---------- output ----------

func coqStr(s string) string { return "\"" + strings.ReplaceAll(s, "\"", "\"\"") + "\"" }

func asciiOnly(s string) string {
	var b strings.Builder
	for _, r := range s {
		if r < 0x20 || r > 0x7e {
			b.WriteByte('?')
		} else {
			b.WriteRune(r)
		}
	}
	return b.String()
}

func main() {
	t0 := time.Now()
	repo := flag.String("repo", "/repo", "source tree (module root) to analyse")
	out := flag.String("out", "", "Coq file to write (SharedState.v)")
	jsonOut := flag.String("json", "", "JSON file with the sites (optional)")
	verbose := flag.Bool("v", false, "print every site")
	tags := flag.String("tags", "verif", "build tags of the analysed tree (the race run builds the same source set)")
	flag.Parse()
	abs, err := filepath.Abs(*repo)
	if err != nil {
		fmt.Println("BROKEN vscan:", err)
		os.Exit(2)
	}
	if r, err := filepath.EvalSymlinks(abs); err == nil {
		abs = r
	}
	repoDir = abs
	modCache = os.Getenv("GOMODCACHE")
	if modCache == "" {
		if home, err := os.UserHomeDir(); err == nil {
			modCache = filepath.Join(home, "go", "pkg", "mod")
		}
	}

	cfg := &packages.Config{Mode: packages.LoadAllSyntax | packages.NeedModule, Dir: repoDir, Tests: false, BuildFlags: []string{"-tags=" + *tags}}
	pkgs, err := packages.Load(cfg, "./...")
	if err != nil {
		fmt.Println("BROKEN vscan: cannot load the module:", err)
		os.Exit(2)
	}
	nerr := 0
	packages.Visit(pkgs, nil, func(p *packages.Package) {
		for _, e := range p.Errors {
			if nerr < 5 {
				fmt.Println("BROKEN vscan: package error:", asciiOnly(e.Error()))
			}
			nerr++
		}
	})
	if nerr > 0 {
		os.Exit(2)
	}
	if len(pkgs) == 0 {
		fmt.Println("BROKEN vscan: no packages")
		os.Exit(2)
	}
	modPath := ""
	for _, p := range pkgs {
		if p.Module != nil && p.Module.Main {
			modPath = p.Module.Path
			break
		}
	}
	if modPath == "" {
		fmt.Println("BROKEN vscan: main module not found")
		os.Exit(2)
	}
	prog, spkgs := ssautil.AllPackages(pkgs, ssa.InstantiateGenerics)
	prog.Build()
	fset = prog.Fset

	var roots, genericRoots []*ssa.Function
	rootSet := map[*ssa.Function]bool{}
	npk := 0
	for _, p := range spkgs {
		if p == nil || !(p.Pkg.Path() == modPath || strings.HasPrefix(p.Pkg.Path(), modPath+"/")) || strings.Contains(p.Pkg.Path(), "/examples") {
			continue
		}
		npk++
		add := func(f *ssa.Function) {
			if f == nil || f.Object() == nil || !f.Object().Exported() || rootSet[f] {
				return
			}
			rootSet[f] = true
			if f.TypeParams().Len() > 0 {
				genericRoots = append(genericRoots, f)
			} else {
				roots = append(roots, f)
			}
		}
		for _, m := range p.Members {
			switch x := m.(type) {
			case *ssa.Function:
				add(x)
			case *ssa.Type:
				if _, isIface := x.Type().Underlying().(*types.Interface); isIface {
					continue
				}
				if n, ok := x.Type().(*types.Named); ok && n.TypeParams().Len() > 0 {
					continue
				}
				for _, T := range []types.Type{x.Type(), types.NewPointer(x.Type())} {
					ms := prog.MethodSets.MethodSet(T)
					for i := 0; i < ms.Len(); i++ {
						add(prog.MethodValue(ms.At(i)))
					}
				}
			}
		}
	}
	sort.Slice(roots, func(i, j int) bool { return roots[i].String() < roots[j].String() })
	// Two analyses: rooted at the API (what can run during a call), and rooted at the API plus the package initialisers of every package
	// outside the standard library (so that function values created during initialisation are known: a closure stored in a package-level
	// variable by an initialiser is a possible callee of a call through that variable). Code that runs only during initialisation
	// happens before any call and is not scanned.
	var inits []*ssa.Function
	for _, p := range prog.AllPackages() {
		if p == nil || p.Pkg == nil || isStd(p.Pkg.Path()) {
			continue
		}
		if f := p.Func("init"); f != nil {
			inits = append(inits, f)
		}
	}
	sort.Slice(inits, func(i, j int) bool { return inits[i].String() < inits[j].String() })
	res := rta.Analyze(roots, true)
	res2 := rta.Analyze(append(append([]*ssa.Function{}, roots...), inits...), true)
	graph := buildGraph(res.CallGraph, res2.CallGraph, initFuncValues(inits))

	// functions whose bodies are scanned: everything reachable from the API roots, plus the bodies of exported generic functions and their static callees
	scan := map[*ssa.Function]bool{}
	{
		var stack []*ssa.Function
		push := func(f *ssa.Function) {
			if f != nil && !scan[f] {
				scan[f] = true
				stack = append(stack, f)
			}
		}
		for fn := range res.Reachable {
			push(fn)
		}
		for len(stack) > 0 {
			f := stack[len(stack)-1]
			stack = stack[:len(stack)-1]
			for _, b := range f.Blocks {
				for _, ins := range b.Instrs {
					if ci, ok := ins.(ssa.CallInstruction); ok {
						for _, cf := range graph.out[ci] {
							push(cf)
						}
					}
				}
			}
		}
	}
	var addStatic func(fn *ssa.Function, depth int)
	addStatic = func(fn *ssa.Function, depth int) {
		if fn == nil || scan[fn] || depth > 8 {
			return
		}
		scan[fn] = true
		for _, b := range fn.Blocks {
			for _, ins := range b.Instrs {
				if ci, ok := ins.(ssa.CallInstruction); ok {
					addStatic(ci.Common().StaticCallee(), depth+1)
				}
				if mc, ok := ins.(*ssa.MakeClosure); ok {
					if f, ok := mc.Fn.(*ssa.Function); ok {
						addStatic(f, depth+1)
					}
				}
			}
		}
	}
	for _, g := range genericRoots {
		addStatic(g, 0)
	}

	nfun, nonstd := 0, 0
	for fn := range scan {
		nfun++
		path := fnPkgPath(fn)
		if path == "" || isStd(path) || isInit(fn) {
			continue
		}
		nonstd++
		scanGlobals(fn)
	}

	// writes into caller-provided memory
	ta := &taint{info: map[ssa.Value]*tinfo{}, ret: map[*ssa.Function]*tinfo{}, origin: map[*ssa.Function]string{}, inq: map[*ssa.Function]bool{},
		visited: map[*ssa.Function]bool{}, cg: graph, roots: rootSet}
	nsrc := 0
	var mutators []string
	allRoots := append(append([]*ssa.Function{}, roots...), genericRoots...)
	for _, f := range allRoots {
		for k, p := range f.Params {
			if k == 0 && isSetter(f) {
				if f.Synthetic == "" {
					mutators = append(mutators, f.String())
				}
				continue
			}
			if pointerLike(p.Type()) {
				ta.raise(p, 2, nil)
				ta.push(f, f.String())
				nsrc++
			}
		}
	}
	steps := 0
	for len(ta.queue) > 0 && steps < 200000 {
		fn := ta.queue[0]
		ta.queue = ta.queue[1:]
		ta.inq[fn] = false
		ta.process(fn)
		steps++
	}
	if len(ta.queue) > 0 {
		fmt.Println("BROKEN vscan: flow analysis did not reach a fixed point")
		os.Exit(2)
	}

	// What constructors keep: an exported function whose result holds references to memory provided by its caller (NewHighSpatialID kept the
	// unit-ID map of its argument; NewUnitDividedSpatialID keeps the pointer to its argument). A documented mutator applied to such a result
	// writes memory of another, possibly shared, argument: the receiver of every mutator is seeded with what the functions returning its
	// type keep, and the flow analysis is continued. (The receiver itself stays exempt: changing it is the mutator's contract.)
	namedOf := func(t types.Type) *types.Named {
		if p, ok := t.Underlying().(*types.Pointer); ok {
			t = p.Elem()
		}
		n, _ := t.(*types.Named)
		return n
	}
	type kept struct {
		held  []heldT
		self  bool
		ctors []string
	}
	keeps := map[*types.TypeName]*kept{}
	for _, f := range allRoots {
		r := ta.ret[f]
		if r == nil || r.lvl == 0 {
			continue
		}
		res := f.Signature.Results()
		for i := 0; i < res.Len(); i++ {
			n := namedOf(res.At(i).Type())
			if n == nil || n.Obj().Pkg() == nil || isStd(n.Obj().Pkg().Path()) {
				continue
			}
			k := keeps[n.Obj()]
			if k == nil {
				k = &kept{}
				keeps[n.Obj()] = k
			}
			if r.lvl == 2 {
				k.self = true
			}
			for _, h := range r.held {
				k.held, _ = addHeld(k.held, h)
			}
			k.ctors = append(k.ctors, f.String())
		}
	}
	nkeep := 0
	for _, f := range allRoots {
		if !isSetter(f) || len(f.Params) == 0 {
			continue
		}
		n := namedOf(f.Params[0].Type())
		if n == nil {
			continue
		}
		k := keeps[n.Obj()]
		if k == nil || (len(k.held) == 0 && !k.self) {
			continue
		}
		lvl := uint8(1)
		if k.self {
			lvl = 2
		}
		if ta.raise(f.Params[0], lvl, k.held) {
			nkeep++
			sort.Strings(k.ctors)
			ta.origin[f] = strings.Join(k.ctors, ", ") + " (kept by the result and written through the mutator " + f.String() + ")"
			ta.push(f, ta.origin[f])
		}
	}
	for ; len(ta.queue) > 0 && steps < 400000; steps++ {
		fn := ta.queue[0]
		ta.queue = ta.queue[1:]
		ta.inq[fn] = false
		ta.process(fn)
	}
	if len(ta.queue) > 0 {
		fmt.Println("BROKEN vscan: flow analysis did not reach a fixed point")
		os.Exit(2)
	}

	// writes into memory reachable from package-level variables (outside std), also through callees and interfaces
	tg := &taint{info: map[ssa.Value]*tinfo{}, ret: map[*ssa.Function]*tinfo{}, origin: map[*ssa.Function]string{}, inq: map[*ssa.Function]bool{},
		visited: map[*ssa.Function]bool{}, cg: graph, roots: rootSet, global: true}
	ngl := map[*ssa.Global]bool{}
	var scanned []*ssa.Function
	for fn := range scan {
		scanned = append(scanned, fn)
	}
	sort.Slice(scanned, func(i, j int) bool { return scanned[i].String() < scanned[j].String() })
	for _, fn := range scanned {
		path := fnPkgPath(fn)
		if path == "" || isStd(path) || isInit(fn) {
			continue
		}
		if len(fn.FreeVars) > 0 && hasInitAncestor(fn) {
			tg.push(fn, "a variable captured by the closure "+fn.String()+" that a package initialiser created")
		}
		var ops []*ssa.Value
		for _, b := range fn.Blocks {
			for _, ins := range b.Instrs {
				ops = ins.Operands(ops[:0])
				for _, o := range ops {
					if o == nil {
						continue
					}
					if g, ok := sharedGlobal(*o); ok {
						if pointerLike(globalElem(g)) {
							ngl[g] = true
						}
						tg.push(fn, "package-level variable "+globalName(g))
					}
				}
			}
		}
	}
	for steps = 0; len(tg.queue) > 0 && steps < 200000; steps++ {
		fn := tg.queue[0]
		tg.queue = tg.queue[1:]
		tg.inq[fn] = false
		tg.process(fn)
	}
	if len(tg.queue) > 0 {
		fmt.Println("BROKEN vscan: flow analysis (package-level variables) did not reach a fixed point")
		os.Exit(2)
	}

	var list []site
	for _, s := range sites {
		s.Pkg, s.Func, s.Pos = asciiOnly(s.Pkg), asciiOnly(s.Func), asciiOnly(s.Pos)
		list = append(list, s)
	}
	sort.Slice(list, func(i, j int) bool {
		a, b := list[i], list[j]
		if a.Kind != b.Kind {
			return a.Kind < b.Kind
		}
		if a.Pos != b.Pos {
			return a.Pos < b.Pos
		}
		return a.Func < b.Func
	})
	byKind := map[string]int{}
	for _, s := range list {
		byKind[s.Kind]++
	}

	if *out != "" {
		var b strings.Builder
		fmt.Fprintf(&b, "(* generated by harness/cmd/vscan from %s on every run - do not edit *)\n", asciiOnly(repoDir))
		b.WriteString("From Coq Require Import String List.\nFrom SID Require Import Conc.\nImport ListNotations.\nOpen Scope string_scope.\n\n")
		fmt.Fprintf(&b, "(* roots %d (+%d generic), reachable functions %d, outside the standard library %d *)\n", len(roots), len(genericRoots), nfun, nonstd)
		b.WriteString("Definition shared_sites : list site :=\n  [")
		for i, s := range list {
			if i > 0 {
				b.WriteString(";\n   ")
			}
			fmt.Fprintf(&b, "mk_site %s %s %s %s", coqStr(s.Pkg), coqStr(s.Func), coqStr(s.Kind), coqStr(s.Pos))
		}
		b.WriteString("].\n")
		if err := os.WriteFile(*out, []byte(b.String()), 0o644); err != nil {
			fmt.Println("BROKEN vscan:", err)
			os.Exit(2)
		}
	}
	if *jsonOut != "" {
		if list == nil {
			list = []site{}
		}
		bs, _ := json.MarshalIndent(list, "", " ")
		os.WriteFile(*jsonOut, bs, 0o644)
	}
	for i, s := range list {
		if *verbose || i < 40 {
			fmt.Printf("SITE %s | %s | %s | %s\n", s.Kind, s.Pkg, s.Func, s.Pos)
		}
	}
	fmt.Printf("STAT module=%s\n", modPath)
	fmt.Printf("STAT packages=%d\n", npk)
	fmt.Printf("STAT roots=%d\n", len(roots)+len(genericRoots))
	fmt.Printf("STAT generic_roots=%d\n", len(genericRoots))
	fmt.Printf("STAT reachable_functions=%d\n", nfun)
	fmt.Printf("STAT reachable_functions_outside_std=%d\n", nonstd)
	fmt.Printf("STAT param_sources=%d\n", nsrc)
	fmt.Printf("STAT functions_reached_by_caller_memory=%d\n", len(ta.visited))
	sort.Strings(mutators)
	fmt.Printf("STAT documented_mutators_first_operand_exempt=%d\n", len(mutators))
	fmt.Printf("STAT mutator_receivers_seeded_with_what_constructors_keep=%d\n", nkeep)
	var gl []string
	for g := range ngl {
		gl = append(gl, globalName(g))
	}
	sort.Strings(gl)
	fmt.Printf("STAT reference_bearing_package_variables_read=%d %s\n", len(gl), strings.Join(gl, ","))
	fmt.Printf("STAT functions_reached_by_package_variable_memory=%d\n", len(tg.visited))
	fmt.Printf("STAT sites=%d\n", len(list))
	kinds := make([]string, 0, len(byKind))
	for k := range byKind {
		kinds = append(kinds, k)
	}
	sort.Strings(kinds)
	for _, k := range kinds {
		fmt.Printf("STAT sites_%s=%d\n", strings.ReplaceAll(k, "-", "_"), byKind[k])
	}
	fmt.Printf("STAT scan_seconds=%.1f\n", time.Since(t0).Seconds())
}
