#!/bin/bash
# Regression run of the scanner itself: every patch of regress/ applied to a scratch worktree of /repo HEAD must make vscan report, in addition to
# what the unpatched tree reports, the kinds listed in regress/EXPECT; the unpatched tree must report no site. Exit 0 iff all hold.
set -u
D="$(cd "$(dirname "$0")" && pwd)"
REPO="${VERIF_REPO:-/repo}"
WT="${VSCAN_REGRESS_WT:-/tmp/wt_vscan_regress}"
export GOFLAGS=-mod=mod GOPROXY=off GOSUMDB=off GOTOOLCHAIN=local
export GOMODCACHE="$(go env GOMODCACHE)"
BIN="$(mktemp -d)/vscan"
(cd "$D" && timeout 900 go build -o "$BIN" .) || { echo "vscan does not build"; exit 2; }
git -C "$REPO" worktree remove --force "$WT" >/dev/null 2>&1
git -C "$REPO" worktree add "$WT" HEAD >/dev/null 2>&1 || { echo "cannot create worktree $WT"; exit 2; }
fail=0
BASE="$(mktemp)"
timeout 600 "$BIN" -repo "$WT" -v | grep '^SITE' | cut -d'|' -f1,3 | sort -u > "$BASE"
n=$(wc -l < "$BASE")
echo "clean tree: $n site(s)"
[ "$n" = 0 ] || { fail=1; cut -c1-200 "$BASE"; }
while read -r name kinds; do
  case "$name" in ''|\#*) continue;; esac
  git -C "$WT" checkout -q -- . && git -C "$WT" clean -fdq
  if ! git -C "$WT" apply "$D/regress/$name.patch" 2>/dev/null; then echo "SKIP $name: patch does not apply to HEAD"; fail=1; continue; fi
  if ! (cd "$WT" && timeout 600 go build ./... 2>/dev/null); then echo "FAIL $name: patched tree does not build"; fail=1; continue; fi
  out=$(timeout 600 "$BIN" -repo "$WT" -v)
  new=$(echo "$out" | grep '^SITE' | cut -d'|' -f1,3 | sort -u | comm -13 "$BASE" -)   # sites (kind, function) the clean tree does not have
  ok=1
  for k in $kinds; do
    echo "$new" | grep -q "^SITE $k " || ok=0
  done
  ns=$(echo "$out" | grep '^STAT sites=' | cut -d= -f2)
  if [ $ok = 1 ]; then echo "ok   $name: $ns site(s), has: $kinds"; else echo "FAIL $name: expected $kinds, got $ns site(s): $(echo "$out" | grep '^SITE' | cut -d'|' -f1 | sort | uniq -c | tr '\n' ' ')"; fail=1; fi
done < "$D/regress/EXPECT"
git -C "$REPO" worktree remove --force "$WT" >/dev/null 2>&1
rm -f "$BASE"
exit $fail
