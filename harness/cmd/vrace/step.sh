#!/bin/bash
# Step "race-run" of property C19 (bin/check steps protocol). Environment: VERIF_REPO VERIF_BUILD VERIF_TIER VERIF_SEED.
# Builds harness/cmd/vrace with the race detector against $VERIF_REPO (private -modfile, nothing shared is written) and runs seeded
# concurrent mixes of every exported function on 16 goroutines. exit 0 ok; exit 1 + "REPLAY <path>" data race / result mismatch / modified
# input; exit 2 the run itself failed. VRACE_SECONDS overrides the duration (quick 18 s, thorough 900 s).
set -u
V="$(cd "$(dirname "$0")/../../.." && pwd)"
REPO="$(realpath "${VERIF_REPO:-/repo}")"
B="${VERIF_BUILD:-/tmp/vdev/C19}/c19"
TIER="${VERIF_TIER:-quick}"
SEED="${VERIF_SEED:-1}"
mkdir -p "$B"
export GOFLAGS=-mod=mod GOPROXY=off GOSUMDB=off GOTOOLCHAIN=local CGO_ENABLED=1
SECS="${VRACE_SECONDS:-}"
if [ -z "$SECS" ]; then
  if [ "$TIER" = thorough ]; then SECS=900; else SECS=18; fi
fi
rm -f "$B/race-outcome.txt" "$B/C19-race.json" "$B/C19-mismatch.json"
sed "s#=> /repo#=> $REPO#" "$V/harness/go.mod" > "$B/race.mod"
cp "$REPO/go.sum" "$B/race.sum"
if ! (cd "$V/harness" && timeout 1200 go build -race -modfile="$B/race.mod" -tags verif -o "$B/vrace" ./cmd/vrace) > "$B/vrace-build.log" 2>&1; then
  tail -20 "$B/vrace-build.log"
  echo "BROKEN C19 race-run: harness/cmd/vrace does not build with -race against $REPO"
  exit 2
fi
timeout $((SECS + 300)) "$B/vrace" -seed "$SEED" -seconds "$SECS" -goroutines 16 -out "$B" > "$B/vrace.out" 2>&1
rc=$?
cat "$B/vrace.out"
echo "STAT tier_seconds=$SECS"
# outcome for the step "ssa-premise" (which defers to a concrete race when its premise fails)
echo "$rc $REPO $SEED $TIER" > "$B/race-outcome.txt"
if [ $rc -eq 124 ]; then
  echo "BROKEN C19 race-run: timed out"
  exit 2
fi
exit $rc
