// vrace — C19 corroboration run: seeded random mixes of every exported function of every package on 16 goroutines that share the
// argument slices and objects, under the Go race detector, each result compared with the result of the same call run alone.
//
// Build: go build -race -tags verif ./cmd/vrace (bin/check's step "race-run" does it against $VERIF_REPO).
// The parent process runs the rounds in a child (same binary, -child) with GORACE="halt_on_error=1 exitcode=66", so that the race
// report can be captured. On a data race, a result mismatch or a modified input it writes a replay JSON, prints `REPLAY <path>` and
// exits 1. Exit 0: nothing found. Other exit codes: the run itself failed (BROKEN lines).
//
//	vrace -seed 1 -seconds 25 -goroutines 16 -out /tmp/x          the run
//	vrace -replay /tmp/x/C19-race.json [-repeat 20]               the same rounds again (a race needs the schedule to cooperate: repeated)
//	vrace -profile                                                 time per catalogue entry (sequential)
package main

import (
	"bufio"
	"bytes"
	"encoding/json"
	"flag"
	"fmt"
	"math/rand"
	"os"
	"os/exec"
	"path/filepath"
	"sort"
	"strings"
	"time"

	"verif/harness/props/c19"
)

type roundDesc struct {
	Round      int   `json:"round"`
	PoolSeed   int64 `json:"pool_seed"`
	BatchSeed  int64 `json:"batch_seed"`
	SchedSeed  int64 `json:"sched_seed"`
	K          int   `json:"batch_size"`
	Goroutines int   `json:"goroutines"`
	Focus      int   `json:"focus"` // 1: only wrapping shifts and neighbourhoods at the grid edges, at mixed zooms
}

type callDesc struct {
	Index   int    `json:"index"`
	Name    string `json:"name"`
	ArgSeed int64  `json:"arg_seed"`
}

type replay struct {
	Property   string         `json:"property"`
	Kind       string         `json:"kind"` // data-race | result-mismatch | input-modified
	Seed       int64          `json:"seed"`
	Round      roundDesc      `json:"round"`
	Calls      []callDesc     `json:"calls"`
	RaceReport string         `json:"race_report,omitempty"`
	RaceFuncs  []string       `json:"functions_in_race_report,omitempty"`
	Mismatches []c19.Mismatch `json:"mismatches,omitempty"`
	Notes      []string       `json:"notes,omitempty"`
	Function   string         `json:"function"` // for `bin/check C19 --replay`: the same pool and call set through ParallelMix (no race detector)
	Args       string         `json:"args"`
	HowTo      string         `json:"how_to_replay"`
}

func rounds(seed int64) func(i int) roundDesc {
	return func(i int) roundDesc {
		r := rand.New(rand.NewSource(seed*7919 + int64(i)))
		k := len(c19.Catalogue) + r.Intn(24)
		focus := 0
		switch i % 4 {
		case 1:
			k = 12 + r.Intn(30) // smaller batches: the same few calls collide more often
		case 3:
			focus = 1
			k = 30 + r.Intn(60)
		}
		return roundDesc{Round: i, PoolSeed: r.Int63n(1 << 40), BatchSeed: r.Int63n(1 << 40), SchedSeed: r.Int63n(1 << 40), K: k, Focus: focus}
	}
}

func callsOf(rd roundDesc) []callDesc {
	var out []callDesc
	for _, in := range c19.Batch(rand.New(rand.NewSource(rd.BatchSeed)), rd.K, rd.Focus) {
		out = append(out, callDesc{Index: in.Idx, Name: c19.Catalogue[in.Idx].Name, ArgSeed: in.Seed})
	}
	return out
}

// child: runs rounds until the deadline; prints "ROUND <json>" before each round; on a mismatch prints "MISMATCH <json>" and exits 1.
func child(seed int64, seconds float64, g int, only []roundDesc, repeat int, ref []string) {
	out := bufio.NewWriter(os.Stdout)
	deadline := time.Now().Add(time.Duration(seconds * float64(time.Second)))
	next := rounds(seed)
	ncalls := 0
	used := map[string]bool{}
	first := true
	runOne := func(rd roundDesc) {
		rd.Goroutines = g
		b, _ := json.Marshal(rd)
		fmt.Fprintf(out, "ROUND %s\n", b)
		out.Flush()
		// the first round of a process starts its goroutines on cold package-level state and is compared with the solo results computed by
		// another fresh process; the later rounds run alone, concurrently, alone again
		cfg := c19.MixCfg{PoolSeed: rd.PoolSeed, BatchSeed: rd.BatchSeed, K: rd.K, G: g, SchedSeed: rd.SchedSeed, Focus: rd.Focus}
		if first {
			cfg.Cold, cfg.Ref = true, ref // ref: the batch run alone, in reverse order, by another fresh process
			first = false
		} else if rd.Round%4 == 2 {
			cfg.Fresh, cfg.Singles = true, 1 // also compared with fresh processes: the batch in reverse order, and one call alone
		}
		m := c19.RunMixCfg(cfg)
		ncalls += rd.K * (g + 1)
		for _, c := range callsOf(rd) {
			used[c.Name] = true
		}
		if len(m.Bad) > 0 || !m.Unmodified {
			kind := "result-mismatch"
			if !m.Unmodified {
				kind = "input-modified"
			}
			b, _ := json.Marshal(struct {
				Kind string         `json:"kind"`
				Diff []c19.Mismatch `json:"diff"`
				Bad  []string       `json:"bad"`
			}{kind, m.Diff, m.Bad})
			fmt.Fprintf(out, "MISMATCH %s\n", b)
			out.Flush()
			os.Exit(1)
		}
	}
	n := 0
	if only != nil {
		for rep := 0; rep < repeat; rep++ {
			for _, rd := range only {
				runOne(rd)
				n++
			}
		}
	} else {
		for i := 0; time.Now().Before(deadline); i++ {
			runOne(next(i))
			n++
		}
	}
	fmt.Fprintf(out, "DONE rounds_completed=%d calls=%d functions_called=%d\n", n, ncalls, len(used))
	out.Flush()
}

func raceFuncs(report string) []string {
	seen := map[string]bool{}
	var out []string
	for _, l := range strings.Split(report, "\n") {
		l = strings.TrimSpace(l)
		if i := strings.LastIndex(l, "("); i > 0 && strings.HasSuffix(l, ")") && strings.Contains(l, "spatial_id_go") && !strings.HasPrefix(l, "/") {
			f := l[:i]
			if !seen[f] {
				seen[f] = true
				out = append(out, f)
			}
		}
	}
	sort.Strings(out)
	return out
}

func main() {
	seed := flag.Int64("seed", 1, "seed")
	seconds := flag.Float64("seconds", 25, "duration of the run")
	g := flag.Int("goroutines", 16, "goroutines per round")
	outDir := flag.String("out", ".", "directory for the replay file")
	isChild := flag.Bool("child", false, "internal")
	onlyFile := flag.String("only", "", "internal: JSON file with the rounds to run")
	replayFile := flag.String("replay", "", "replay JSON written by an earlier run")
	repeat := flag.Int("repeat", 20, "how many times a replay repeats its round")
	profile := flag.Bool("profile", false, "time every catalogue entry")
	refFile := flag.String("ref", "", "internal: JSON file with the solo results of the first round, computed by a fresh process")
	soloRef := flag.String("soloref", "", "internal: compute the solo results of round 0 of -seed in this (fresh) process and write them to the file")
	detcheck := flag.Int("detcheck", 0, "run every catalogue entry N times alone, twice each, and list the entries whose rendered result differs between the two runs (with and without sorting of the result list)")
	sliceSec := flag.Float64("slice", 0, "seconds per child process (0: 4 s, or 20 s for runs longer than 2 minutes)")
	flag.Parse()

	if *soloRef != "" {
		rd := rounds(*seed)(0)
		b, _ := json.Marshal(c19.SoloRef(rd.PoolSeed, rd.BatchSeed, rd.K, rd.Focus))
		if err := os.WriteFile(*soloRef, b, 0o644); err != nil {
			fmt.Println("BROKEN vrace soloref:", err)
			os.Exit(3)
		}
		return
	}
	if *detcheck > 0 {
		// which entries are not a function of their input even sequentially (map iteration order)?
		for i, c := range c19.Catalogue {
			ordered, sorted := 0, 0
			for n := 0; n < *detcheck; n++ {
				p := c19.NewPool(int64(n % 7))
				in := c19.Inst{Idx: i, Seed: int64(1000 + n)}
				a1, a2 := c19.RunInstAs(p, in, false), c19.RunInstAs(p, in, false)
				b1, b2 := c19.RunInstAs(p, in, true), c19.RunInstAs(p, in, true)
				if a1 != a2 {
					ordered++
				}
				if b1 != b2 {
					sorted++
				}
			}
			flag := " "
			if c.Unordered {
				flag = "U"
			}
			verdict := "deterministic"
			switch {
			case sorted > 0:
				verdict = "VARIES EVEN AFTER SORTING THE RESULT LIST"
			case ordered > 0 && !c.Unordered:
				verdict = "varies: must be marked Unordered"
			case ordered > 0:
				verdict = "varies in order only (set-valued)"
			case c.Unordered:
				verdict = "marked Unordered but never varied"
			}
			fmt.Printf("%s %-82s ordered-diff %3d/%d sorted-diff %3d  %s\n", flag, c.Name, ordered, *detcheck, sorted, verdict)
		}
		return
	}
	if *profile {
		p := c19.NewPool(*seed)
		for i, c := range c19.Catalogue {
			t0 := time.Now()
			n := 0
			for time.Since(t0) < 200*time.Millisecond {
				c19.RunInst(p, c19.Inst{Idx: i, Seed: int64(n)})
				n++
			}
			res := c19.RunInst(p, c19.Inst{Idx: i, Seed: 1})
			if len(res) > 150 {
				res = res[:150]
			}
			fmt.Printf("%-75s %8.3f ms/call  %s\n", c.Name, float64(time.Since(t0).Microseconds())/1000/float64(n), res)
		}
		return
	}
	if *isChild {
		var only []roundDesc
		if *onlyFile != "" {
			b, err := os.ReadFile(*onlyFile)
			if err == nil {
				err = json.Unmarshal(b, &only)
			}
			if err != nil {
				fmt.Println("BROKEN vrace child:", err)
				os.Exit(3)
			}
		}
		var ref []string
		if *refFile != "" {
			if b, err := os.ReadFile(*refFile); err == nil {
				json.Unmarshal(b, &ref)
			}
		}
		child(*seed, *seconds, *g, only, *repeat, ref)
		return
	}

	self, err := os.Executable()
	if err != nil {
		fmt.Println("BROKEN vrace:", err)
		os.Exit(2)
	}
	os.MkdirAll(*outDir, 0o755)
	args := []string{"-child", "-seed", fmt.Sprint(*seed), "-seconds", fmt.Sprint(*seconds), "-goroutines", fmt.Sprint(*g)}
	if *replayFile != "" {
		var rp replay
		b, err := os.ReadFile(*replayFile)
		if err == nil {
			err = json.Unmarshal(b, &rp)
		}
		if err != nil {
			fmt.Println("BROKEN vrace: bad replay file:", err)
			os.Exit(2)
		}
		tmp := filepath.Join(*outDir, "vrace-only.json")
		ob, _ := json.Marshal([]roundDesc{rp.Round})
		os.WriteFile(tmp, ob, 0o644)
		if rp.Round.Goroutines > 0 {
			*g = rp.Round.Goroutines
		}
		args = []string{"-child", "-seed", fmt.Sprint(rp.Seed), "-goroutines", fmt.Sprint(*g), "-only", tmp, "-repeat", fmt.Sprint(*repeat)}
		*seed = rp.Seed
	}
	// The run is cut into slices, each in a fresh child process: package-level state (a cache) is cold again at the start of every
	// slice, and the first round of a slice starts its goroutines on that cold state.
	t0 := time.Now()
	slice := *sliceSec
	if slice <= 0 {
		slice = 4
		if *seconds > 120 {
			slice = 20
		}
	}
	var last roundDesc
	nr, ncalls, nfun, nchildren := 0, 0, 0, 0
	var mismatch string
	var se bytes.Buffer
	code := 0
	childSeed := *seed
	for sl := 0; ; sl++ {
		remaining := *seconds - time.Since(t0).Seconds()
		if *replayFile == "" {
			if remaining <= 0.2 && sl > 0 {
				break
			}
			d := slice
			if remaining < d {
				d = remaining
			}
			childSeed = *seed*1000 + int64(sl)
			refPath := filepath.Join(*outDir, "vrace-soloref.json")
			os.Remove(refPath)
			refCmd := exec.Command(self, "-soloref", refPath, "-seed", fmt.Sprint(childSeed))
			refCmd.Env = append(os.Environ(), "GORACE=atexit_sleep_ms=0") // the race runtime otherwise sleeps 1 s at every exit
			if out, err := refCmd.CombinedOutput(); err != nil {
				fmt.Printf("BROKEN vrace: the solo reference process failed: %v %s\n", err, strings.ReplaceAll(string(out), "\n", " | "))
				os.Exit(2)
			}
			args = []string{"-child", "-seed", fmt.Sprint(childSeed), "-seconds", fmt.Sprint(d), "-goroutines", fmt.Sprint(*g), "-ref", refPath}
		}
		cmd := exec.Command(self, args...)
		cmd.Env = append(os.Environ(), "GORACE=halt_on_error=1 exitcode=66 atexit_sleep_ms=0")
		var so bytes.Buffer
		se.Reset()
		cmd.Stdout, cmd.Stderr = &so, &se
		runErr := cmd.Run()
		nchildren++
		code = 0
		if runErr != nil {
			if ee, ok := runErr.(*exec.ExitError); ok {
				code = ee.ExitCode()
			} else {
				fmt.Println("BROKEN vrace: cannot run the child:", runErr)
				os.Exit(2)
			}
		}
		for _, l := range strings.Split(so.String(), "\n") {
			switch {
			case strings.HasPrefix(l, "ROUND "):
				json.Unmarshal([]byte(l[6:]), &last)
				nr++
			case strings.HasPrefix(l, "MISMATCH "):
				mismatch = l[9:]
			case strings.HasPrefix(l, "DONE "):
				for _, kv := range strings.Fields(l[5:]) {
					var v int
					if k, val, ok := strings.Cut(kv, "="); ok {
						fmt.Sscan(val, &v)
						switch k {
						case "calls":
							ncalls += v
						case "functions_called":
							if v > nfun {
								nfun = v
							}
						}
					}
				}
			}
		}
		if code != 0 || *replayFile != "" {
			break
		}
	}
	fmt.Printf("STAT seed=%d\nSTAT goroutines=%d\nSTAT processes=%d\nSTAT rounds=%d\nSTAT calls_completed=%d\nSTAT catalogue_entries=%d\nSTAT catalogue_entries_called=%d\nSTAT seconds=%.1f\n",
		*seed, *g, nchildren, nr, ncalls, len(c19.Catalogue), nfun, time.Since(t0).Seconds())
	mk := func(kind string) replay {
		return replay{Property: "C19", Kind: kind, Seed: childSeed, Round: last, Calls: callsOf(last), Function: "ParallelMix",
			Args:  fmt.Sprintf("( i%d i%d i%d i%d i%d i40 )", last.PoolSeed, last.BatchSeed, last.K, last.Goroutines, last.Focus),
			HowTo: "build harness/cmd/vrace with `go build -race -tags verif` against the same tree and run `vrace -replay <this file>` (the round is repeated; a data race needs the scheduler's cooperation); `bin/check C19 --replay <this file>` runs the same pool and call set through ParallelMix (up to 40 schedules) without the race detector: it reproduces wrong results and modified inputs, not a race whose outcome happens to be right"}
	}
	write := func(rp replay, name string) {
		path := filepath.Join(*outDir, name)
		b, _ := json.MarshalIndent(rp, "", " ")
		if err := os.WriteFile(path, b, 0o644); err != nil {
			fmt.Println("BROKEN vrace: cannot write the replay:", err)
			os.Exit(2)
		}
		fmt.Printf("REPLAY %s\n", path)
	}
	switch {
	case code == 0:
		fmt.Println("STAT races=0\nSTAT result_mismatches=0")
		return
	case code == 66 || strings.Contains(se.String(), "WARNING: DATA RACE") || strings.Contains(se.String(), "fatal error: concurrent map"):
		rep := se.String()
		if i := strings.Index(rep, "WARNING: DATA RACE"); i >= 0 {
			rep = rep[i:]
		} else if i := strings.Index(rep, "fatal error: concurrent map"); i >= 0 {
			rep = rep[i:] // the runtime's own detector of unsynchronised map access fired before the race detector
		}
		rp := mk("data-race")
		rp.RaceFuncs = raceFuncs(rep)
		if len(rep) > 8000 {
			rep = rep[:8000] + "\n..."
		}
		rp.RaceReport = rep
		fmt.Println("STAT races=1")
		fmt.Printf("BROKEN C19 data race detected in round %d (pool %d, batch %d); functions of the library in the report: %s\n", last.Round, last.PoolSeed, last.BatchSeed, strings.Join(rp.RaceFuncs, ", "))
		write(rp, "C19-race.json")
		os.Exit(1)
	case code == 1 && mismatch != "":
		var mm struct {
			Kind string         `json:"kind"`
			Diff []c19.Mismatch `json:"diff"`
			Bad  []string       `json:"bad"`
		}
		json.Unmarshal([]byte(mismatch), &mm)
		rp := mk(mm.Kind)
		rp.Mismatches = mm.Diff
		rp.Notes = mm.Bad
		fmt.Println("STAT result_mismatches=1")
		fmt.Printf("BROKEN C19 %s in round %d: %s\n", mm.Kind, last.Round, strings.Join(mm.Bad, "; "))
		write(rp, "C19-mismatch.json")
		os.Exit(1)
	default:
		tail := se.String()
		if len(tail) > 1500 {
			tail = tail[len(tail)-1500:]
		}
		fmt.Printf("BROKEN vrace child failed with exit code %d in round %d: %s\n", code, last.Round, strings.ReplaceAll(tail, "\n", " | "))
		os.Exit(2)
	}
}
