//go:build all_props || p_c10

package main

import _ "verif/harness/props/c10"
