//go:build all_props || p_c18

package main

import _ "verif/harness/props/c18"
