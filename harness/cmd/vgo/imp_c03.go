//go:build all_props || p_c03

package main

import _ "verif/harness/props/c03"
