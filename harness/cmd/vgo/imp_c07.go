//go:build all_props || p_c07

package main

import _ "verif/harness/props/c07"
