//go:build all_props || p_c16

package main

import _ "verif/harness/props/c16"
