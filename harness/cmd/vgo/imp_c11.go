//go:build all_props || p_c11

package main

import _ "verif/harness/props/c11"
