//go:build all_props || p_c09

package main

import _ "verif/harness/props/c09"
