//go:build all_props || p_c12

package main

import _ "verif/harness/props/c12"
