//go:build all_props || p_c08

package main

import _ "verif/harness/props/c08"
