//go:build all_props || p_c01

package main

import _ "verif/harness/props/c01"
