//go:build all_props || p_c17

package main

import _ "verif/harness/props/c17"
