//go:build all_props || p_c04

package main

import _ "verif/harness/props/c04"
