//go:build all_props || p_c06

package main

import _ "verif/harness/props/c06"
