//go:build all_props || p_c13

package main

import _ "verif/harness/props/c13"
