// vgo — runs the implementation (built from /repo's working tree with -tags verif) side by side with the
// extracted Coq model on seeded, structured inputs; writes a JSON summary for bin/check.
package main

import (
	"encoding/json"
	"flag"
	"fmt"
	"math/rand"
	"os"
	"runtime"
	"strings"
	"time"

	props "verif/harness/gen"
	"verif/harness/run"
	w "verif/harness/wire"
)

func main() {
	prop := flag.String("prop", "", "property id")
	seed := flag.Int64("seed", 1, "PRNG seed")
	n := flag.Int("n", 0, "number of cases (0 = the property's quick default)")
	tier := flag.String("tier", "quick", "quick|thorough")
	model := flag.String("model", "/verif/build/model/vmodel", "extracted model binary")
	out := flag.String("out", "", "summary JSON path")
	replay := flag.String("replay", "", "replay file (JSON with property/function/args)")
	corpus := flag.String("corpus", "", "corpus file: one replay JSON per line, run first")
	cases := flag.String("cases", "", "write the first -ncases judged cases (JSON lines) for the in-Coq second evaluator")
	ncases := flag.Int("ncases", 300, "number of cases written to -cases")
	flag.Parse()

	pr, ok := props.Registry[*prop]
	if !ok {
		fmt.Fprintln(os.Stderr, "unknown property", *prop)
		os.Exit(3)
	}
	r, err := run.New(*model)
	if err != nil {
		fmt.Fprintln(os.Stderr, "cannot start model:", err)
		os.Exit(3)
	}
	if *cases != "" {
		if f, err := os.Create(*cases); err == nil {
			r.CaseLog = f
			r.CaseMax = *ncases
			defer f.Close()
		}
	}
	t0 := time.Now()
	r.Sum.Prop = *prop
	r.Sum.Seed = *seed
	r.Sum.Tier = *tier
	r.Sum.Goarch = runtime.GOARCH
	g := &props.Gen{R: rand.New(rand.NewSource(*seed)), Tier: *tier}
	if *replay != "" {
		// register the functions without generating cases
		pr(r, g, 0)
		b, err := os.ReadFile(*replay)
		if err != nil {
			fmt.Fprintln(os.Stderr, err)
			os.Exit(3)
		}
		runReplay(r, b)
	} else {
		if *corpus != "" {
			pr(r, g, 0)
			if b, err := os.ReadFile(*corpus); err == nil {
				for _, line := range strings.Split(string(b), "\n") {
					if strings.TrimSpace(line) != "" {
						runReplay(r, []byte(line))
					}
				}
			}
		}
		cnt := *n
		if cnt == 0 {
			cnt = props.Scale[*prop]
			if *tier == "thorough" {
				cnt *= 30
			}
		}
		pr(r, g, cnt)
	}
	r.Close()
	if *out != "" {
		if err := r.Finish(*out, t0); err != nil {
			fmt.Fprintln(os.Stderr, err)
			os.Exit(3)
		}
	}
	fmt.Printf("cases=%d distinct=%d corr_fail=%d prop_fail=%d model_err=%d classes=%v wall=%.1fs\n", r.Sum.Evaluations, r.Sum.Distinct,
		r.Sum.CorrFail, r.Sum.PropFail, r.Sum.ModelErr, r.Sum.Classes, time.Since(t0).Seconds())
}

func runReplay(r *run.Runner, b []byte) {
	var f run.Failure
	if err := json.Unmarshal(b, &f); err != nil {
		fmt.Fprintln(os.Stderr, "bad replay:", err)
		os.Exit(3)
	}
	if f.Fn == "" {
		return // a replay that names only a theorem / correspondence
	}
	a, err := w.ParseLine(f.Args)
	if err != nil {
		fmt.Fprintln(os.Stderr, "bad replay args:", err)
		os.Exit(3)
	}
	if _, ok := r.Fns[f.Fn]; !ok {
		fmt.Fprintln(os.Stderr, "replay: unknown function", f.Fn)
		os.Exit(3)
	}
	r.Run(run.Case{Prop: f.Prop, Fn: f.Fn, Args: w.AsList(a), Tags: []string{"replay"}})
}
