//go:build all_props || p_c05

package main

import _ "verif/harness/props/c05"
