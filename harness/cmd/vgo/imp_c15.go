//go:build all_props || p_c15

package main

import _ "verif/harness/props/c15"
