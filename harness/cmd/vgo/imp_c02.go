//go:build all_props || p_c02

package main

import _ "verif/harness/props/c02"
