//go:build all_props || p_c19

package main

import _ "verif/harness/props/c19"
