//go:build all_props || p_c14

package main

import _ "verif/harness/props/c14"
