//go:build all_props || p_c20

package main

import _ "verif/harness/props/c20"
