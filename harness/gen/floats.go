package gen

import (
	"math"

	"github.com/trajectoryjp/spatial_id_go/v4/common/object"

	"verif/harness/run"
	w "verif/harness/wire"
)

// MathOracles: Go's math package answers the model's queries for transcendental functions.
func MathOracles(r *run.Runner) {
	f1 := func(f func(float64) float64) func([]w.Val) w.Val {
		return func(a []w.Val) w.Val { return w.F(f(w.AsFlt(a[0]))) }
	}
	r.Oracles["tan"] = f1(math.Tan)
	r.Oracles["cos"] = f1(math.Cos)
	r.Oracles["log"] = f1(math.Log)
	r.Oracles["sinh"] = f1(math.Sinh)
	r.Oracles["atan"] = f1(math.Atan)
}

func Ulp(x float64, n int) float64 {
	for ; n > 0; n-- {
		x = math.Nextafter(x, math.Inf(1))
	}
	for ; n < 0; n++ {
		x = math.Nextafter(x, math.Inf(-1))
	}
	return x
}

func (g *Gen) Lon() float64 {
	switch g.Intn(12) {
	case 0:
		return g.PickF(180, -180, 0, math.Copysign(0, -1), math.Nextafter(180, 0), math.Nextafter(-180, 0), 90, -90, 179.99999999999994)
	case 1: // a tile boundary of some zoom, +- a few ulps
		h := g.Int63n(36)
		k := g.Int63n(int64(1)<<uint(h) + 1)
		return Ulp(float64(k)*360/math.Pow(2, float64(h))-180, g.Intn(5)-2)
	case 2:
		return g.PickF(1e-20, -1e-20, 5e-324, -5e-324, 1e-300, -1e-9)
	case 3: // just inside a boundary of a fine zoom
		h := 20 + g.Int63n(16)
		k := g.Int63n(int64(1) << uint(h))
		return float64(k)*360/math.Pow(2, float64(h)) - 180 + g.R.Float64()*1e-9
	}
	return g.R.Float64()*360 - 180
}
func (g *Gen) PickF(xs ...float64) float64 { return xs[g.Intn(len(xs))] }

const LatMax = 85.0511287798

func (g *Gen) Lat() float64 {
	switch g.Intn(10) {
	case 0:
		return g.PickF(LatMax, -LatMax, 0, math.Copysign(0, -1), 85.05112877, -85.05112877, 1e-11, -1e-11, 45, -45, 66.51326044311186)
	case 1:
		return g.PickF(1e-20, -1e-20, 5e-324, 1e-10, -1e-10, 2e-10)
	case 2: // near a row boundary of some zoom
		h := g.Int63n(30)
		k := g.Int63n(int64(1)<<uint(h) + 1)
		lat := math.Atan(math.Sinh(math.Pi*(1-2*float64(k)/math.Pow(2, float64(h))))) * 180 / math.Pi
		lat += (g.R.Float64() - 0.5) * 1e-9
		if math.Abs(lat) > LatMax {
			lat = math.Copysign(LatMax, lat)
		}
		return lat
	}
	return g.R.Float64()*2*LatMax - LatMax
}

func (g *Gen) Alt() float64 {
	switch g.Intn(12) {
	case 0:
		return g.PickF(0, math.Copysign(0, -1), 33554432, -33554432, 1, -1, 0.5, -0.5, 33554431.999999996, -33554431.999999996)
	case 1: // exact multiple of a cell size, +- ulps
		v := g.Int63n(36)
		k := g.VIndex(v)
		return Ulp(float64(k)*math.Pow(2, 25-float64(v)), g.Intn(5)-2)
	case 2:
		return g.PickF(1e-20, -1e-20, -1e-9, 1e-9, -0.001, 0.001)
	case 3:
		return -g.R.Float64() * 1000
	case 4:
		return (g.R.Float64()*2 - 1) * 100
	}
	return (g.R.Float64()*2 - 1) * 33554432
}

// AltRare: values that hit the recorded denormal-underflow class (kept out of the main stream, counted separately)
func (g *Gen) AltDenormal() float64 { return g.PickF(5e-324, -5e-324, -1e-310, 1e-310, -2.5e-316) }

type pt struct{ lon, lat, alt float64 }

// StoredPoint builds a point through NewPoint and returns the object and its stored coordinates.
func StoredPoint(lon, lat, alt float64) (*object.Point, w.Val, bool) {
	p, err := object.NewPoint(lon, lat, alt)
	if err != nil {
		return nil, nil, false
	}
	return p, w.L(w.F(p.Lon()), w.F(p.Lat()), w.F(p.Alt())), true
}

func PointsFromVal(v w.Val) []*object.Point {
	var out []*object.Point
	for _, e := range w.AsList(v) {
		if _, ok := e.(w.Nil); ok {
			out = append(out, nil)
			continue
		}
		l := w.AsList(e)
		// rebuild the stored point exactly: lon/alt are stored unchanged; lat is already a stored (truncated) value, and
		// storing a stored value again may move it (SetLat is not idempotent), so set it through a raw pointer copy
		p := RawPoint(w.AsFlt(l[0]), w.AsFlt(l[1]), w.AsFlt(l[2]))
		out = append(out, p)
	}
	return out
}

func PointVal(p *object.Point) w.Val {
	if p == nil {
		return w.Nil{}
	}
	return w.L(w.F(p.Lon()), w.F(p.Lat()), w.F(p.Alt()))
}
func PointsVal(ps []*object.Point) w.Val {
	l := make(w.List, len(ps))
	for i, p := range ps {
		l[i] = PointVal(p)
	}
	return l
}
