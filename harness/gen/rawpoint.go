package gen

import (
	"unsafe"

	"github.com/trajectoryjp/spatial_id_go/v4/common/object"
)

// RawPoint builds an object.Point whose stored fields are exactly (lon, lat, alt).
// object.Point is struct{lon, lat, alt float64}; SetLat would re-truncate an already stored latitude, so the
// stored value is written directly (harness only; checked once at start-up by RawPointSelfTest).
func RawPoint(lon, lat, alt float64) *object.Point {
	p := &object.Point{}
	f := (*[3]float64)(unsafe.Pointer(p))
	f[0], f[1], f[2] = lon, lat, alt
	if p.Lon() != lon && !(lon != lon) || p.Lat() != lat && !(lat != lat) || p.Alt() != alt && !(alt != alt) {
		panic("harness: object.Point layout changed")
	}
	return p
}
