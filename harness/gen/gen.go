// Package gen: shared seeded generators, the property registry and helpers for invokers.
package gen

import (
	"fmt"
	"math"
	"math/rand"
	"strings"

	"verif/harness/run"
	_ "verif/harness/wire"
)

type Gen struct {
	R    *rand.Rand
	Tier string
}

type PropRunner func(r *run.Runner, g *Gen, n int)

var Registry = map[string]PropRunner{}
var Scale = map[string]int{} // quick-tier case count per property

func (g *Gen) Intn(n int) int       { return g.R.Intn(n) }
func (g *Gen) Int63n(n int64) int64 { return g.R.Int63n(n) }
func (g *Gen) Chance(p float64) bool { return g.R.Float64() < p }
func (g *Gen) Pick(xs ...int64) int64 { return xs[g.R.Intn(len(xs))] }

// Zoom: uniform over 0..35 with forced edges.
func (g *Gen) Zoom() int64 {
	if g.Chance(0.3) {
		return g.Pick(0, 1, 2, 24, 25, 26, 30, 31, 33, 34, 35)
	}
	return g.Int63n(36)
}
func (g *Gen) ZoomBelow(max int64) int64 {
	if max <= 0 {
		return 0
	}
	if g.Chance(0.25) {
		return g.Pick(0, 1, max, max-1)
	}
	return g.Int63n(max + 1)
}

// HIndex: a valid horizontal index at zoom h, edges forced.
func (g *Gen) HIndex(h int64) int64 {
	w := int64(1) << uint(h)
	switch g.Intn(8) {
	case 0:
		return 0
	case 1:
		return w - 1
	case 2:
		return w / 2
	case 3:
		if w > 1 {
			return w/2 - 1
		}
		return 0
	case 4: // leading zero bits
		return g.Int63n(w)>>uint(g.Intn(int(h)+1))
	}
	return g.Int63n(w)
}

// VIndex: a valid vertical index at zoom v (-2^v <= f < 2^v), both signs, edges forced.
func (g *Gen) VIndex(v int64) int64 {
	w := int64(1) << uint(v)
	switch g.Intn(10) {
	case 0:
		return 0
	case 1:
		return -1
	case 2:
		return -w
	case 3:
		return w - 1
	case 4:
		return w / 2
	case 5:
		return -(w / 2)
	case 6:
		return -g.Int63n(w) - 1
	}
	return g.Int63n(2*w) - w
}

func EID(h, x, y, v, f int64) string { return fmt.Sprintf("%d/%d/%d/%d/%d", h, x, y, v, f) }
func SID(z, f, x, y int64) string    { return fmt.Sprintf("%d/%d/%d/%d", z, f, x, y) }

func (g *Gen) ValidEID() (string, int64, int64) {
	h, v := g.Zoom(), g.Zoom()
	return EID(h, g.HIndex(h), g.HIndex(h), v, g.VIndex(v)), h, v
}
func (g *Gen) ValidEIDAt(h, v int64) string {
	return EID(h, g.HIndex(h), g.HIndex(h), v, g.VIndex(v))
}

var MalformedFixed = []string{"", "/", "////", "1/2", "1/2/3", "a/0/0/0/0", "1/0/0/1/", "1//0/1/0", "/0/0/1/0",
	"1/0/0/1/99999999999999999999", "1/0/0/1/-9223372036854775809", "1/0/0/1/0/7", "1/0 /0/1/0", " 1/0/0/1/0", "1/0/0/1/0 ",
	"１/0/0/1/0", "1/0/0/1/-", "1/0/0/1/+", "1/0/0/1/+-3", "0x1/0/0/1/0", "1/0/0/1/1e3", "1/0/0/1/1.0", "1/0/0/1/1_0",
	"1/b/0/0", "1/0/b/0", "b/0/0/0", "1/0/0/b", "1/0/0", "1/0/0/0/0/0", "1\t/0/0/1/0", "1/0/0/1/0\n", "1/0/0/1/٣", "\x00/0/0/0/0",
	"2/1/1/2/1/", "/2/1/1/2/1", "2/1/1//2/1", "-/0/0/0/0", "1/-/0/0/0", "1/0/0/0/--1"}

// Malformed: a string that is not a well-formed extended ID (wrong arity, empty field, spaces, non-digits, overflow...).
func (g *Gen) Malformed() string {
	if g.Chance(0.5) {
		return MalformedFixed[g.Intn(len(MalformedFixed))]
	}
	id, _, _ := g.ValidEID()
	fs := strings.Split(id, "/")
	switch g.Intn(7) {
	case 0: // drop a field
		i := g.Intn(len(fs))
		fs = append(fs[:i], fs[i+1:]...)
	case 1: // add a field
		fs = append(fs, "0")
	case 2: // garbage in a field
		junk := []string{"x", "", " ", "1 ", "1.5", "0x10", "９", "1e2", "--1", "+", "-", "92233720368547758070", "1_0", "١"}
		fs[g.Intn(len(fs))] = junk[g.Intn(len(junk))]
	case 3:
		return strings.Join(fs, "//")
	case 4:
		return strings.Join(fs, ",")
	case 5:
		return strings.Join(fs, "/") + "/"
	case 6:
		b := []byte(strings.Join(fs, "/"))
		b[g.Intn(len(b))] = byte(g.Intn(256))
		s := string(b)
		if WellFormed(s, 5) {
			return "q" + s
		}
		return s
	}
	s := strings.Join(fs, "/")
	if WellFormed(s, 5) {
		return s + "/x"
	}
	return s
}

func WellFormed(s string, n int) bool {
	fs := strings.Split(s, "/")
	if len(fs) != n {
		return false
	}
	for _, f := range fs {
		var x int64
		if _, err := fmt.Sscanf(f, "%d", &x); err != nil || fmt.Sprintf("%d", x) != strings.TrimPrefix(f, "+") && fmt.Sprintf("%d", x) != f {
			return false
		}
	}
	return true
}

// EToS converts an extended ID with h == v into spatial-ID notation.
func EToS(e string) string {
	f := strings.Split(e, "/")
	return f[0] + "/" + f[4] + "/" + f[1] + "/" + f[2]
}

func FBits(u uint64) float64 { return math.Float64frombits(u) }

func Tag(format string, a ...interface{}) string { return fmt.Sprintf(format, a...) }
