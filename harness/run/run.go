// Package run: drives the extracted model as a child process and the implementation side by side.
package run

import (
	"bufio"
	"crypto/sha256"
	"encoding/hex"
	"encoding/json"
	"fmt"
	"io"
	"os"
	"os/exec"
	"sort"
	"strconv"
	"strings"
	"time"

	w "verif/harness/wire"
)

// Fn is an implementation entry point callable from wire values.
type Fn struct {
	Name    string
	Invoke  func(args []w.Val) w.Val
	Timeout time.Duration
}

// Case is one generated input for one function under one property.
type Case struct {
	Prop    string
	Fn      string
	Args    []w.Val
	Tags    []string // distribution labels
	Trivial bool     // trivial by the property's stated rule
}

type Verdict struct {
	Corr, Prop bool
	Class      string
	Queries    int
	Model      w.Val
	Bad        string // non-empty: the model side could not process the case
}

type Failure struct {
	Prop    string `json:"property"`
	Fn      string `json:"function"`
	Kind    string `json:"kind"` // "property" | "correspondence" | "model-error"
	Class   string `json:"class"`
	Args    string `json:"args"`
	Obs     string `json:"observed"`
	Model   string `json:"model"`
	Oracle  []string `json:"oracle_log,omitempty"`
	Shrunk  bool   `json:"shrunk"`
	Note    string `json:"note,omitempty"`
}

type Summary struct {
	Prop        string         `json:"property"`
	Seed        int64          `json:"seed"`
	Tier        string         `json:"tier"`
	Evaluations int            `json:"evaluations"`
	Distinct    int            `json:"distinct_nontrivial"`
	PerFn       map[string]int `json:"per_function"`
	Tags        map[string]int `json:"distribution"`
	Classes     map[string]int `json:"finding_classes"`
	ObsKinds    map[string]int `json:"observed_kinds"`
	Queries     int            `json:"oracle_queries"`
	CorrFail    int            `json:"correspondence_failures"`
	PropFail    int            `json:"property_failures"`
	ModelErr    int            `json:"model_errors"`
	Failures    []Failure      `json:"failures"`
	Samples     []string       `json:"samples"`
	WallS       float64        `json:"wall_s"`
	Goarch      string         `json:"goarch"`
	Skipped     int            `json:"skipped_after_timeouts"`
	// GuardSkips: cases a dispatch entry answered with class "skipped" (the invoker refused an over-size call and the entry
	// confirmed that the size guard applies); they are neither evaluations nor passes
	GuardSkips int            `json:"guard_skips"`
	SkipTags   map[string]int `json:"guard_skip_tags,omitempty"`
}

// QA is one oracle query with the answer the Go side gave.
type QA struct {
	Name string `json:"name"`
	Args string `json:"args"`
	Ans  string `json:"ans"`
}

type caseRec struct {
	ID    int    `json:"id"`
	Prop  string `json:"prop"`
	Fn    string `json:"fn"`
	Args  string `json:"args"`
	Obs   string `json:"obs"`
	Corr  bool   `json:"corr"`
	PropOK bool  `json:"prop_ok"`
	Class string `json:"class"`
	Log   []QA   `json:"log"`
}

type Runner struct {
	Fns     map[string]*Fn
	Oracles map[string]func(args []w.Val) w.Val
	cmd     *exec.Cmd
	in      *bufio.Writer
	out     *bufio.Reader
	n       int
	oraLog  []string
	Sum     Summary
	seen    map[string]struct{}
	MaxFail int
	// second evaluator: the first CaseMax judged cases are written (with the oracle answers given) to CaseLog
	CaseLog *os.File
	CaseMax int
	caseN   int
	qaLog   []QA
	// timeouts: implementation calls that did not return; their goroutines keep running, so after a few the run stops issuing cases
	timeouts int
}

// Stopped reports whether the run stopped issuing cases (too many implementation calls did not return).
func (r *Runner) Stopped() bool { return r.timeouts >= 3 }

func New(model string) (*Runner, error) {
	r := &Runner{Fns: map[string]*Fn{}, Oracles: map[string]func([]w.Val) w.Val{}, seen: map[string]struct{}{}, MaxFail: 5}
	r.cmd = exec.Command(model)
	stdin, err := r.cmd.StdinPipe()
	if err != nil {
		return nil, err
	}
	stdout, err := r.cmd.StdoutPipe()
	if err != nil {
		return nil, err
	}
	r.cmd.Stderr = os.Stderr
	if err := r.cmd.Start(); err != nil {
		return nil, err
	}
	r.in = bufio.NewWriterSize(stdin, 1<<20)
	r.out = bufio.NewReaderSize(stdout, 1<<20)
	r.Sum.PerFn = map[string]int{}
	r.Sum.Tags = map[string]int{}
	r.Sum.Classes = map[string]int{}
	r.Sum.ObsKinds = map[string]int{}
	return r, nil
}

func (r *Runner) Close() {
	fmt.Fprintln(r.in, "END")
	r.in.Flush()
	r.cmd.Wait()
}

func (r *Runner) Register(fns ...*Fn) {
	for _, f := range fns {
		r.Fns[f.Name] = f
	}
}

// Call runs the implementation under recover and a wall-clock limit.
func (r *Runner) Call(fn *Fn, args []w.Val) w.Val {
	to := fn.Timeout
	if to == 0 {
		to = 10 * time.Second
	}
	ch := make(chan w.Val, 1)
	go func() {
		defer func() {
			if e := recover(); e != nil {
				msg := fmt.Sprint(e)
				if strings.HasPrefix(msg, "harness:") {
					fmt.Fprintln(os.Stderr, "HARNESS BUG:", msg)
					os.Exit(3)
				}
				ch <- w.Panic{Msg: msg}
			}
		}()
		ch <- fn.Invoke(args)
	}()
	select {
	case v := <-ch:
		return v
	case <-time.After(to):
		return w.Timeout{}
	}
}

// Ask sends one case to the model and returns its verdict (answering oracle queries on the way).
func (r *Runner) Ask(prop, fn string, args []w.Val, obs w.Val) Verdict {
	r.n++
	r.oraLog = r.oraLog[:0]
	r.qaLog = r.qaLog[:0]
	fmt.Fprintf(r.in, "C %d %s %s %s %s\n", r.n, prop, w.Esc(fn), w.Show(w.List(args)), w.Show(obs))
	r.in.Flush()
	for {
		line, err := r.out.ReadString('\n')
		if err != nil {
			if err == io.EOF {
				return Verdict{Bad: "model process ended"}
			}
			return Verdict{Bad: err.Error()}
		}
		line = strings.TrimRight(line, "\n")
		toks := strings.Split(line, " ")
		switch toks[0] {
		case "?":
			name := w.Unesc(toks[1])
			a, _, err := w.Parse(toks[2:])
			var ans w.Val = w.Panic{}
			if err == nil {
				if o, ok := r.Oracles[name]; ok {
					ans = o(w.AsList(a))
				}
			}
			r.oraLog = append(r.oraLog, line+" => "+w.Show(ans))
			if err == nil {
				r.qaLog = append(r.qaLog, QA{Name: name, Args: w.Show(a), Ans: w.Show(ans)})
			}
			fmt.Fprintf(r.in, "= %s\n", w.Show(ans))
			r.in.Flush()
		case "R":
			v := Verdict{Corr: toks[2] == "1", Prop: toks[3] == "1", Class: w.Unesc(toks[4])}
			v.Queries, _ = strconv.Atoi(toks[5])
			m, _, err := w.Parse(toks[6:])
			if err == nil {
				v.Model = m
			}
			return v
		case "X":
			return Verdict{Bad: strings.Join(toks[2:], " ")}
		default:
			return Verdict{Bad: "unexpected line: " + line}
		}
	}
}

func obsKind(v w.Val) string {
	switch v.(type) {
	case w.Err:
		return "error"
	case w.Panic:
		return "panic"
	case w.Timeout:
		return "timeout"
	}
	return "ok"
}

// Run executes one case end to end and records it.
func (r *Runner) Run(c Case) Verdict {
	fn := r.Fns[c.Fn]
	if fn == nil {
		fmt.Fprintln(os.Stderr, "HARNESS BUG: unknown function", c.Fn)
		os.Exit(3)
	}
	if r.Stopped() {
		r.Sum.Skipped++
		return Verdict{Corr: true, Prop: true}
	}
	obs := r.Call(fn, c.Args)
	if _, to := obs.(w.Timeout); to {
		r.timeouts++
	}
	v := r.Ask(c.Prop, c.Fn, c.Args, obs)
	if r.CaseLog != nil && r.caseN < r.CaseMax && v.Bad == "" && v.Class != "bad-case" && len(r.qaLog) <= 400 {
		cl := v.Class
		if cl == "" {
			cl = "-"
		}
		rec := caseRec{ID: r.n, Prop: c.Prop, Fn: c.Fn, Args: w.Show(w.List(c.Args)), Obs: w.Show(obs), Corr: v.Corr, PropOK: v.Prop, Class: cl,
			Log: append([]QA{}, r.qaLog...)}
		if b, err := json.Marshal(rec); err == nil && len(b) < 200000 {
			r.CaseLog.Write(append(b, '\n'))
			r.caseN++
		}
	}
	r.record(c, obs, v, false)
	return v
}

func (r *Runner) record(c Case, obs w.Val, v Verdict, shrunk bool) {
	s := &r.Sum
	if v.Class == "skipped" && v.Bad == "" {
		s.GuardSkips++
		if s.SkipTags == nil {
			s.SkipTags = map[string]int{}
		}
		s.SkipTags[c.Fn]++
		return
	}
	s.Evaluations++
	s.PerFn[c.Fn]++
	for _, t := range c.Tags {
		s.Tags[t]++
	}
	s.ObsKinds[obsKind(obs)]++
	s.Queries += v.Queries
	argS := w.Show(w.List(c.Args))
	if !c.Trivial {
		h := sha256.Sum256([]byte(c.Fn + " " + argS))
		k := hex.EncodeToString(h[:8])
		if _, ok := r.seen[k]; !ok {
			r.seen[k] = struct{}{}
			s.Distinct++
		}
	}
	if len(s.Samples) < 6 && (s.Evaluations%97 == 1) {
		s.Samples = append(s.Samples, trunc(c.Fn+" "+argS+" => "+w.Show(obs), 600))
	}
	// a panic or a call that does not return is never the model's answer: it is a failure of the property itself
	// (no model accepts VPanic / VTimeout as an observed value, so dispatchers answer bad-case for them)
	if k := obsKind(obs); (k == "panic" || k == "timeout") && (v.Class == "bad-case" || v.Bad != "" || !v.Prop) && !(v.Class != "" && v.Class != "-" && v.Class != "bad-case") {
		s.PropFail++
		v.Bad = ""
		v.Class = "-"
		v.Prop = false
		note := "the implementation panicked"
		if p, ok := obs.(w.Panic); ok {
			note += ": " + trunc(p.Msg, 200)
		}
		if k == "timeout" {
			note = "the implementation did not return within the harness's time limit"
			r.fail(c, obs, v, "property", note)
		} else {
			r.failShrinkNote(c, obs, v, "property", note)
		}
		return
	}
	if v.Class == "bad-case" && v.Bad == "" {
		v.Bad = "the model's dispatcher does not accept this case (shape of arguments or observed value)"
	}
	if v.Class != "" && v.Class != "-" && v.Class != "bad-case" {
		s.Classes[v.Class]++
	}
	if v.Bad != "" {
		s.ModelErr++
		r.fail(c, obs, v, "model-error", v.Bad)
		return
	}
	// a finding class excuses the PROPERTY failure of a case on which the faithful model agrees with the code; it never excuses a
	// disagreement between model and code
	known := v.Class != "" && v.Class != "-"
	if !v.Prop && !known {
		s.PropFail++
		r.failShrink(c, obs, v, "property")
	} else if !v.Corr {
		s.CorrFail++
		if known {
			r.fail(c, obs, v, "correspondence", "model and implementation disagree inside finding class "+v.Class)
		} else {
			r.failShrink(c, obs, v, "correspondence")
		}
	}
}

func trunc(s string, n int) string {
	if len(s) > n {
		return s[:n] + "…"
	}
	return s
}

func (r *Runner) fail(c Case, obs w.Val, v Verdict, kind, note string) {
	cnt := 0
	for _, f := range r.Sum.Failures {
		if f.Kind == kind {
			cnt++
		}
	}
	if cnt >= r.MaxFail {
		return
	}
	m := ""
	if v.Model != nil {
		m = w.Show(v.Model)
	}
	r.Sum.Failures = append(r.Sum.Failures, Failure{Prop: c.Prop, Fn: c.Fn, Kind: kind, Class: v.Class,
		Args: w.Show(w.List(c.Args)), Obs: w.Show(obs), Model: m, Oracle: append([]string{}, r.oraLog...), Note: note})
}

// failShrink minimises a failing case (same failure kind) before recording it.
func (r *Runner) failShrinkNote(c Case, obs w.Val, v Verdict, kind, note string) {
	n0 := len(r.Sum.Failures)
	r.failShrink(c, obs, v, kind)
	if len(r.Sum.Failures) > n0 {
		r.Sum.Failures[len(r.Sum.Failures)-1].Note = note
	}
}

func (r *Runner) failShrink(c Case, obs w.Val, v Verdict, kind string) {
	cnt := 0
	for _, f := range r.Sum.Failures {
		if f.Kind == kind {
			cnt++
		}
	}
	if cnt >= r.MaxFail {
		return
	}
	fn := r.Fns[c.Fn]
	still := func(args []w.Val) (bool, w.Val, Verdict) {
		o := r.Call(fn, args)
		if _, to := o.(w.Timeout); to {
			r.timeouts++
			return false, o, Verdict{}
		}
		vv := r.Ask(c.Prop, c.Fn, args, o)
		if _, pn := o.(w.Panic); pn && kind == "property" {
			if _, was := obs.(w.Panic); was {
				return true, o, vv
			}
		}
		if vv.Bad != "" || (vv.Class != "" && vv.Class != "-") {
			return false, o, vv
		}
		if kind == "property" {
			return !vv.Prop, o, vv
		}
		return vv.Prop && !vv.Corr, o, vv
	}
	best := c.Args
	bobs, bv := obs, v
	budget := 300
	improved := true
	shr := false
	for improved && budget > 0 && !r.Stopped() {
		improved = false
		for _, cand := range Shrinks(best) {
			if budget <= 0 {
				break
			}
			budget--
			ok, o, vv := still(cand)
			if ok {
				best, bobs, bv = cand, o, vv
				improved = true
				shr = true
				break
			}
		}
	}
	// re-ask the final case so that the oracle log belongs to it
	if shr {
		_, bobs, bv = still(best)
	}
	c2 := c
	c2.Args = best
	r.fail(c2, bobs, bv, kind, "")
	r.Sum.Failures[len(r.Sum.Failures)-1].Shrunk = shr
}

func (r *Runner) Finish(path string, t0 time.Time) error {
	r.Sum.WallS = time.Since(t0).Seconds()
	b, _ := json.MarshalIndent(r.Sum, "", " ")
	return os.WriteFile(path, b, 0o644)
}

func SortedKeys(m map[string]int) []string {
	k := make([]string, 0, len(m))
	for s := range m {
		k = append(k, s)
	}
	sort.Strings(k)
	return k
}
