package run

import (
	"math/big"
	"strings"

	w "verif/harness/wire"
)

// Shrinks proposes smaller variants of an argument vector: drop list elements, move integers toward 0,
// shrink the integer fields inside '/'-separated ID strings.
func Shrinks(args []w.Val) [][]w.Val {
	var out [][]w.Val
	for i, a := range args {
		for _, v := range shrinkVal(a) {
			c := append([]w.Val{}, args...)
			c[i] = v
			out = append(out, c)
		}
	}
	return out
}

func shrinkInt(n *big.Int) []*big.Int {
	if n.Sign() == 0 {
		return nil
	}
	var r []*big.Int
	r = append(r, big.NewInt(0))
	h := new(big.Int).Quo(n, big.NewInt(2))
	if h.Cmp(n) != 0 && h.Sign() != 0 {
		r = append(r, h)
	}
	if n.Sign() > 0 {
		r = append(r, new(big.Int).Sub(n, big.NewInt(1)))
	} else {
		r = append(r, new(big.Int).Add(n, big.NewInt(1)))
	}
	return r
}

func shrinkVal(v w.Val) []w.Val {
	var out []w.Val
	switch x := v.(type) {
	case w.Int:
		for _, n := range shrinkInt(x.V) {
			out = append(out, w.Int{V: n})
		}
	case w.Str:
		fs := strings.Split(string(x), "/")
		if len(fs) >= 2 {
			for i, f := range fs {
				n, ok := new(big.Int).SetString(f, 10)
				if !ok {
					continue
				}
				for _, m := range shrinkInt(n) {
					c := append([]string{}, fs...)
					c[i] = m.String()
					out = append(out, w.Str(strings.Join(c, "/")))
				}
			}
		}
	case w.List:
		if len(x) > 1 {
			// halves first, then single drops
			out = append(out, append(w.List{}, x[:len(x)/2]...), append(w.List{}, x[len(x)/2:]...))
		}
		if len(x) > 0 && len(x) <= 12 {
			for i := range x {
				c := append(w.List{}, x[:i]...)
				c = append(c, x[i+1:]...)
				out = append(out, c)
			}
		}
		if len(x) <= 8 {
			for i, e := range x {
				for _, s := range shrinkVal(e) {
					c := append(w.List{}, x...)
					c[i] = s
					out = append(out, c)
				}
			}
		}
	case w.Flt:
		f := float64(x)
		if f != 0 {
			out = append(out, w.Flt(0))
			if t := float64(int64(f)); t != f && f > -1e15 && f < 1e15 {
				out = append(out, w.Flt(t))
			}
		}
	}
	return out
}
