module verif/harness

go 1.22

require (
	github.com/go-gl/mathgl v1.1.0
	github.com/trajectoryjp/closest_go v1.0.3
	github.com/trajectoryjp/geodesy_go v1.0.2
	github.com/trajectoryjp/multidimensional-radix-tree/src v0.0.0-20241022055138-bd6190702079
	github.com/trajectoryjp/spatial_id_go/v4 v4.0.0
	github.com/wroge/wgs84 v1.1.7
)

require (
	golang.org/x/image v0.21.0 // indirect
	gonum.org/v1/gonum v0.15.1 // indirect
)

replace github.com/trajectoryjp/spatial_id_go/v4 => /repo
