module verif/harness

go 1.22

require github.com/trajectoryjp/spatial_id_go/v4 v4.0.0

replace github.com/trajectoryjp/spatial_id_go/v4 => /repo
