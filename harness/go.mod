module verif/harness

go 1.22

require github.com/trajectoryjp/spatial_id_go/v4 v4.0.0

require (
	github.com/wroge/wgs84 v1.1.7 // indirect
	gonum.org/v1/gonum v0.15.1 // indirect
)

replace github.com/trajectoryjp/spatial_id_go/v4 => /repo
