package c08

// Histories of calls (entry "History"): the property quantifies over every history of exported calls, so one case performs a whole
// history back to back — earlier queries with related arguments, failing calls before/after valid ones, identical repeats, the caller
// overwriting the slice it was handed or the slice it passed, the caller parsing the same ID itself and mutating its own object.
// The history is data of the case (replays and shrinker candidates are exact); the invoker starts with a fixed unrelated priming prefix
// so that a replay in a fresh process runs the same history whatever earlier cases left behind in the library.
// Model side (DC08.d_history): every step is judged exactly like the standalone call of the plain entry.

import (
	"github.com/trajectoryjp/spatial_id_go/v4/common/object"
	"github.com/trajectoryjp/spatial_id_go/v4/operated"

	. "verif/harness/gen"
	"verif/harness/run"
	w "verif/harness/wire"
)

const (
	fHist = "History"
	fOwn  = "OwnParseAndMutate"
	junk  = "0/0/0/0/0" // what the caller writes over a slice it was handed
)

func stepFixed(name, id string, mut int64) w.Val { return w.L(w.S(name), w.S(id), w.I(mut)) }
func stepN(l []string, H, V, mut int64, over []string) w.Val {
	if over == nil {
		over = []string{}
	}
	return w.L(w.S(fN), w.Strs(append([]string{}, l...)), w.I(H), w.I(V), w.I(mut), w.Strs(over))
}
func stepOwn(id string, ops ...w.Val) w.Val { return w.L(w.S(fOwn), w.S(id), w.List(ops)) }
func opSet(name string, n int64) w.Val      { return w.L(w.S(name), w.I(n)) }
func opZoom(h, v int64) w.Val               { return w.L(w.S("SetZoom"), w.I(h), w.I(v)) }
func opReset(s string) w.Val                { return w.L(w.S("ResetExtendedSpatialID"), w.S(s)) }

func asInt(v w.Val) (int64, bool) {
	i, ok := v.(w.Int)
	if !ok || !i.V.IsInt64() {
		return 0, false
	}
	return i.V.Int64(), true
}
func asStr(v w.Val) (string, bool) { s, ok := v.(w.Str); return string(s), ok }
func asStrs(v w.Val) ([]string, bool) {
	if _, ok := v.(w.Nil); ok {
		return []string{}, true
	}
	l, ok := v.(w.List)
	if !ok {
		return nil, false
	}
	r := make([]string, len(l))
	for i, x := range l {
		s, ok := x.(w.Str)
		if !ok {
			return nil, false
		}
		r[i] = string(s)
	}
	return r, true
}

// the caller parses the ID itself and uses ITS OWN object as a scratch value through the exported mutators
func ownMutate(id string, ops w.Val) {
	l, ok := ops.(w.List)
	if !ok {
		return
	}
	own, _ := object.NewExtendedSpatialID(id)
	if own == nil {
		return
	}
	for _, o := range l {
		op, ok := o.(w.List)
		if !ok || len(op) < 2 {
			continue
		}
		name, _ := asStr(op[0])
		switch {
		case len(op) == 2 && (name == "SetX" || name == "SetY" || name == "SetZ"):
			if n, ok := asInt(op[1]); ok {
				switch name {
				case "SetX":
					own.SetX(n)
				case "SetY":
					own.SetY(n)
				default:
					own.SetZ(n)
				}
			}
		case len(op) == 3 && name == "SetZoom":
			h, ok1 := asInt(op[1])
			v, ok2 := asInt(op[2])
			if ok1 && ok2 {
				own.SetZoom(h, v)
			}
		case len(op) == 2 && name == "ResetExtendedSpatialID":
			if s, ok := asStr(op[1]); ok {
				_ = own.ResetExtendedSpatialID(s)
			}
		}
	}
}

var fixedFns = map[string]func(string) []string{f6: operated.Get6spatialIdsAdjacentToFaces,
	f8: operated.Get8spatialIdsAroundHorizontal, f26: operated.Get26spatialIdsAroundVoxel}

func prime() {
	const u = "9/1/1/9/1"
	_ = operated.Get6spatialIdsAdjacentToFaces(u)
	_ = operated.Get8spatialIdsAroundHorizontal(u)
	_ = operated.Get26spatialIdsAroundVoxel(u)
	_, _ = operated.GetNspatialIdsAroundVoxcels([]string{u}, 0, 1)
	_, _ = object.NewExtendedSpatialID("1/1/0/1/-2")
}

// one step; a step of another shape yields Nil (the dispatch entry answers bad-case for it: only shrinker candidates can have one)
func doStep(st w.Val) w.Val {
	l, ok := st.(w.List)
	if !ok || len(l) < 3 {
		return w.Nil{}
	}
	name, _ := asStr(l[0])
	switch {
	case fixedFns[name] != nil && len(l) == 3:
		id, ok1 := asStr(l[1])
		mut, ok2 := asInt(l[2])
		if !ok1 || !ok2 {
			return w.Nil{}
		}
		r := fixedFns[name](id)
		res := w.Strs(r) // the caller reads what it was handed ...
		if mut != 0 {    // ... and then reuses that slice for something else
			for i := range r {
				r[i] = junk
			}
		}
		return res
	case name == fN && len(l) == 6:
		ids, ok1 := asStrs(l[1])
		H, ok2 := asInt(l[2])
		V, ok3 := asInt(l[3])
		mut, ok4 := asInt(l[4])
		over, ok5 := asStrs(l[5])
		if !(ok1 && ok2 && ok3 && ok4 && ok5) {
			return w.Nil{}
		}
		r, err := operated.GetNspatialIdsAroundVoxcels(ids, H, V)
		res := w.WithErr(w.Strs(r), err)
		if mut != 0 {
			for i := range r {
				r[i] = junk
			}
		}
		for i := range ids { // the caller reuses ITS OWN argument slice
			if i < len(over) {
				ids[i] = over[i]
			}
		}
		return res
	case name == fOwn && len(l) == 3:
		id, ok1 := asStr(l[1])
		if !ok1 {
			return w.Nil{}
		}
		ownMutate(id, l[2])
		return w.Nil{}
	}
	return w.Nil{}
}

func fnHistory() *run.Fn {
	return &run.Fn{Name: fHist, Invoke: func(a []w.Val) w.Val {
		prime()
		steps, ok := a[0].(w.List)
		if !ok {
			return w.Nil{}
		}
		out := make(w.List, 0, len(steps))
		for _, st := range steps {
			out = append(out, doStep(st))
		}
		return out
	}}
}

func runHistory(r *run.Runner, steps []w.Val, tags []string) {
	r.Run(run.Case{Prop: "C08", Fn: fHist, Tags: append([]string{fHist, Tag("steps=%d", len(steps))}, tags...),
		Args: []w.Val{w.List(steps)}})
}

func smallLayers(g *Gen) (int64, int64) {
	H, V := g.Int63n(3), g.Int63n(3)
	if H == 0 && V == 0 {
		H = 1
	}
	return H, V
}

func pickFixed(g *Gen) string { return []string{f6, f8, f26}[g.Intn(3)] }

func ownOps(g *Gen, p vox) []w.Val {
	var ops []w.Val
	for n := 1 + g.Intn(3); n > 0; n-- {
		switch g.Intn(5) {
		case 0:
			ops = append(ops, opSet("SetX", g.Pick(0, p.x+1, -1, 1<<40)))
		case 1:
			ops = append(ops, opSet("SetY", g.Pick(0, p.y+1, -1, 12345)))
		case 2:
			ops = append(ops, opSet("SetZ", g.Pick(0, p.f+7, -(1 << 36))))
		case 3:
			ops = append(ops, opZoom(g.Pick(0, p.h+1, 35, 3), g.Pick(0, p.v+1, 35)))
		default:
			ops = append(ops, opReset(g.ValidEIDAt(g.Zoom(), g.Zoom())))
		}
	}
	return ops
}

// one history pattern; several are concatenated into a case
func histPattern(g *Gen) ([]w.Val, string) {
	p := genVox(g)
	id := p.id()
	H, V := smallLayers(g)
	switch g.Intn(12) {
	case 0: // GetN: same first member, same length, same layers — only the other members differ (and back)
		a := []string{id, p.moved(1, 0, 0).id(), p.moved(0, 1, 0).id()}
		b := []string{id, p.moved(-2, 1, 0).id(), p.moved(3, -3, 1).id()}
		return []w.Val{stepN(a, H, V, 0, nil), stepN(b, H, V, 0, nil), stepN(a, H, V, 0, nil)}, "same-first-member"
	case 1: // GetN: same list, one layer count changed at a time
		l, _ := genList(g)
		if len(l) == 0 {
			l = []vox{p}
		}
		sl := ids(l)
		return []w.Val{stepN(sl, H, V, 0, nil), stepN(sl, H, V+1, 0, nil), stepN(sl, H+1, V+1, 0, nil), stepN(sl, H, V, 0, nil)}, "same-list-other-layers"
	case 2: // a failing list call, repeated identically, then its valid relatives (and a valid call between two failing ones)
		bad := g.Malformed()
		a := []string{id, bad}
		good := []string{id, p.moved(1, 1, 0).id()}
		if g.Chance(0.5) {
			return []w.Val{stepN(a, H, V, 0, nil), stepN(a, H, V, 0, nil), stepN(good, H, V, 0, nil), stepN(a, H, V, 0, nil)}, "invalid-twice-then-valid"
		}
		return []w.Val{stepN(good, H, V, 0, nil), stepN(a, H, V, 0, nil), stepN(good, H, V, 0, nil)}, "valid-invalid-valid"
	case 3: // negative layer counts before / after the same list with valid ones
		sl := []string{id, p.moved(0, -1, 1).id()}
		neg := []w.Val{stepN(sl, -1-g.Int63n(3), V, 0, nil), stepN(sl, H, -1, 0, nil)}[g.Intn(2)]
		if g.Chance(0.5) {
			return []w.Val{neg, stepN(sl, H, V, 0, nil), neg, stepN(sl, H, V, 0, nil)}, "negative-then-valid"
		}
		return []w.Val{stepN(sl, H, V, 0, nil), neg, stepN(sl, H, V, 0, nil)}, "valid-negative-valid"
	case 4: // the caller overwrites the slice it was handed, then asks the same question again
		name := pickFixed(g)
		return []w.Val{stepFixed(name, id, 1), stepFixed(name, id, 0), stepFixed(name, id, 1), stepFixed(name, id, 0)}, "caller-overwrites-result"
	case 5:
		sl := []string{id, p.moved(2, 0, 0).id()}
		return []w.Val{stepN(sl, H, V, 1, nil), stepN(sl, H, V, 0, nil), stepN(sl, H, V, 1, nil), stepN(sl, H, V, 0, nil)}, "caller-overwrites-result"
	case 6: // the caller reuses its own argument slice for another list of the same length and asks about that one
		a := []string{id, p.moved(1, 0, 0).id()}
		b := []string{p.moved(0, 0, 1).id(), p.moved(-1, 2, 0).id()}
		return []w.Val{stepN(a, H, V, 0, b), stepN(b, H, V, 0, a), stepN(a, H, V, 0, nil)}, "caller-reuses-argument-slice"
	case 7, 8: // the caller parses the same ID itself and mutates its own object before (and between) the library's calls on that string
		name := pickFixed(g)
		ops := ownOps(g, p)
		if g.Chance(0.5) {
			return []w.Val{stepOwn(id, ops...), stepFixed(name, id, 0), stepOwn(id, ownOps(g, p)...), stepN([]string{id}, H, V, 0, nil)}, "own-parse-and-mutate"
		}
		return []w.Val{stepFixed(name, id, 0), stepOwn(id, ops...), stepFixed(name, id, 0), stepN([]string{id}, H, V, 0, nil)}, "own-parse-and-mutate"
	case 9: // the same (x, y) at neighbouring horizontal zooms / another vertical zoom through one fixed-size query
		name := pickFixed(g)
		if p.h >= 35 {
			p.h, p.x, p.y = 34, p.x/2, p.y/2
		}
		ww := int64(1) << uint(p.h)
		p.x, p.y = g.Pick(0, ww-1, p.x), g.Pick(0, ww-1, p.y)
		q := p
		q.h = p.h + 1
		q2 := p
		q2.v, q2.f = (p.v+1)%36, 0
		return []w.Val{stepFixed(name, p.id(), 0), stepFixed(name, q.id(), 0), stepFixed(name, q2.id(), 0), stepFixed(name, p.id(), 0)}, "cross-zoom"
	case 10: // a malformed ID through a fixed-size query, then valid ones (and the reverse)
		name := pickFixed(g)
		bad := g.Malformed()
		return []w.Val{stepFixed(name, id, 0), stepFixed(name, bad, 0), stepFixed(name, id, 0), stepFixed(name, bad, 1), stepFixed(name, p.moved(1, 0, 0).id(), 0)}, "malformed-between-valid"
	}
	// list query and fixed-size queries interleaved on the same voxel, identical calls repeated
	return []w.Val{stepN([]string{id}, 1, 1, 0, nil), stepFixed(f26, id, 0), stepN([]string{id}, 1, 1, 0, nil), stepFixed(f8, id, 0), stepFixed(f26, id, 0)}, "interleaved-repeats"
}

func genHistory(g *Gen) ([]w.Val, []string) {
	var steps []w.Val
	var tags []string
	for n := 1 + g.Intn(2); n > 0 && len(steps) < 6; n-- {
		s, t := histPattern(g)
		steps = append(steps, s...)
		tags = append(tags, "hist="+t)
	}
	return steps, tags
}

// deterministic histories run first in every run
func fixedHistories(r *run.Runner) {
	a, b := []string{"3/7/7/3/0", "3/0/7/3/0", "3/1/1/3/1"}, []string{"3/7/7/3/0", "3/5/5/3/-1", "3/2/6/3/0"}
	bad := []string{"3/7/7/3/0", "3/x/7/3/0"}
	hs := [][]w.Val{
		{stepN(a, 1, 1, 0, nil), stepN(b, 1, 1, 0, nil), stepN(a, 1, 1, 0, nil)},
		{stepN(bad, 1, 1, 0, nil), stepN(bad, 1, 1, 0, nil), stepN(a, 1, 1, 0, nil), stepN(bad, 1, 1, 0, nil)},
		{stepN(a, -1, 1, 0, nil), stepN(a, 2, 1, 0, nil), stepN(a, 2, -2, 0, nil), stepN(a, 2, 1, 0, nil)},
		{stepFixed(f8, "3/7/7/3/0", 1), stepFixed(f8, "3/7/7/3/0", 0), stepFixed(f6, "3/7/7/3/0", 1), stepFixed(f6, "3/7/7/3/0", 0),
			stepFixed(f26, "3/7/7/3/0", 1), stepFixed(f26, "3/7/7/3/0", 0)},
		{stepN(a, 1, 0, 1, nil), stepN(a, 1, 0, 0, nil)},
		{stepN(a, 1, 1, 0, b), stepN(b, 1, 1, 0, a), stepN(a, 1, 1, 0, nil)},
		{stepOwn("4/15/0/4/-3", opSet("SetX", 0), opZoom(2, 7), opSet("SetZ", 99)), stepFixed(f6, "4/15/0/4/-3", 0), stepFixed(f8, "4/15/0/4/-3", 0),
			stepOwn("4/15/0/4/-3", opReset("1/0/0/1/0")), stepFixed(f26, "4/15/0/4/-3", 0), stepN([]string{"4/15/0/4/-3"}, 1, 1, 0, nil)},
		{stepFixed(f8, "3/7/7/3/0", 0), stepFixed(f8, "4/7/7/4/0", 0), stepFixed(f26, "3/0/0/3/5", 0), stepFixed(f26, "4/0/0/4/5", 0)},
		{stepFixed(f6, "3/7/7/3/0", 0), stepFixed(f6, "3/7/7/3", 0), stepFixed(f6, "3/0/0/3/0", 0)},
	}
	for _, h := range hs {
		runHistory(r, h, []string{"fixed-history"})
	}
}
