// Package c08: invokers and generators for property C08 (neighbourhood queries: 6 faces, horizontal ring of 8, shell of 26, N layers).
package c08

import (
	"strconv"
	"strings"

	"github.com/trajectoryjp/spatial_id_go/v4/operated"

	. "verif/harness/gen"
	"verif/harness/run"
	w "verif/harness/wire"
)

const (
	f6  = "Get6spatialIdsAdjacentToFaces"
	f8  = "Get8spatialIdsAroundHorizontal"
	f26 = "Get26spatialIdsAroundVoxel"
	fN  = "GetNspatialIdsAroundVoxcels"
)

func fixedFn(name string, f func(string) []string) *run.Fn {
	return &run.Fn{Name: name, Invoke: func(a []w.Val) w.Val { return w.Strs(f(w.AsStr(a[0]))) }}
}

func fnN() *run.Fn {
	return &run.Fn{Name: fN, Invoke: func(a []w.Val) w.Val {
		r, err := operated.GetNspatialIdsAroundVoxcels(w.AsStrs(a[0]), w.AsInt(a[1]), w.AsInt(a[2]))
		return w.WithErr(w.Strs(r), err)
	}}
}

// asym: the members j of nb(id) whose own neighbourhood nb(j) does not contain id (symmetry of the neighbour relation,
// observed on the implementation; every call is a call of the real function).
func asym(nb func(string) []string, id string) []string {
	out := []string{}
	for _, j := range nb(id) {
		found := false
		for _, k := range nb(j) {
			if k == id {
				found = true
				break
			}
		}
		if !found {
			out = append(out, j)
		}
	}
	return out
}

func symFn(name string, f func(string) []string) *run.Fn {
	return &run.Fn{Name: name, Invoke: func(a []w.Val) w.Val { return w.Strs(asym(f, w.AsStr(a[0]))) }}
}

func fnSymN() *run.Fn {
	return &run.Fn{Name: "SymN", Invoke: func(a []w.Val) w.Val {
		H, V := w.AsInt(a[1]), w.AsInt(a[2])
		nb := func(id string) []string {
			r, err := operated.GetNspatialIdsAroundVoxcels([]string{id}, H, V)
			if err != nil {
				return []string{}
			}
			return r
		}
		return w.Strs(asym(nb, w.AsStr(a[0])))
	}}
}

// ---- generators ----

type vox struct{ h, x, y, v, f int64 }

func (p vox) id() string { return EID(p.h, p.x, p.y, p.v, p.f) }

// moved: input construction only (members placed next to each other on the wrapped grid)
func (p vox) moved(dx, dy, dv int64) vox {
	ww := int64(1) << uint(p.h)
	q := p
	q.x = ((p.x+dx)%ww + ww) % ww
	q.y = ((p.y+dy)%ww + ww) % ww
	q.f = p.f + dv
	// stay a valid ID: -2^v <= f < 2^v
	if vw := int64(1) << uint(p.v); q.f >= vw {
		q.f = vw - 1
	} else if q.f < -vw {
		q.f = -vw
	}
	return q
}

func hzoom(g *Gen) int64 {
	switch g.Intn(20) {
	case 0, 1:
		return 0
	case 2, 3, 4:
		return 1
	case 5, 6, 7:
		return 2
	case 8:
		return 3
	case 9:
		return g.Pick(25, 26, 31, 34, 35)
	}
	return g.Zoom()
}

func genVox(g *Gen) vox {
	h, v := hzoom(g), g.Zoom()
	ww := int64(1) << uint(h)
	p := vox{h: h, x: g.HIndex(h), y: g.HIndex(h), v: v, f: g.VIndex(v)}
	// forced grid edges (the stencil wraps): x or y on the first / last column
	switch g.Intn(10) {
	case 0:
		p.x = 0
	case 1:
		p.x = ww - 1
	case 2:
		p.y = 0
	case 3:
		p.y = ww - 1
	case 4:
		p.x, p.y = g.Pick(0, ww-1), g.Pick(0, ww-1)
	}
	return p
}

// layers: 0..4 each; at horizontal zooms 0..2 also 5, 6 (offsets of more than one lap of the grid)
func genLayers(g *Gen, h int64) (int64, int64) {
	H, V := g.Int63n(5), g.Int63n(5)
	if g.Chance(0.45) {
		H, V = g.Int63n(3), g.Int63n(3)
	}
	if h <= 2 && g.Chance(0.5) {
		H = g.Pick(3, 4, 3, 4, 5, 6)
		if H > 4 {
			V = g.Int63n(2)
		}
	}
	return H, V
}

func genList(g *Gen) ([]vox, string) {
	p := genVox(g)
	switch g.Intn(12) {
	case 0, 1, 2, 3:
		return []vox{p}, "single"
	case 4, 5: // adjacent members
		n := 2 + g.Intn(4)
		l := []vox{p}
		for len(l) < n {
			q := l[g.Intn(len(l))]
			l = append(l, q.moved(g.Int63n(3)-1, g.Int63n(3)-1, g.Int63n(3)-1))
		}
		return l, "adjacent"
	case 6: // identical members
		n := 2 + g.Intn(4)
		l := []vox{}
		for len(l) < n {
			l = append(l, p)
		}
		return l, "identical"
	case 7, 8: // neighbourhoods overlap (a few cells apart)
		n := 2 + g.Intn(4)
		l := []vox{p}
		for len(l) < n {
			l = append(l, p.moved(g.Int63n(9)-4, g.Int63n(9)-4, g.Int63n(5)-2))
		}
		return l, "overlapping"
	case 9: // a row crossing the wrap line
		ww := int64(1) << uint(p.h)
		p.x = ww - 1
		return []vox{p.moved(-1, 0, 0), p, p.moved(1, 0, 0)}, "row-over-edge"
	case 10: // unrelated members (other zooms)
		n := 2 + g.Intn(4)
		l := []vox{p}
		for len(l) < n {
			l = append(l, genVox(g))
		}
		return l, "unrelated"
	}
	if g.Chance(0.3) {
		return []vox{}, "empty"
	}
	return []vox{p, p.moved(1, 0, 0)}, "adjacent"
}

// spell: an accepted non-canonical spelling of the same ID ("+3", "007", "-0"): strconv.ParseInt takes them all
func spell(g *Gen, p vox) string {
	out := make([]string, 5)
	for k, n := range []int64{p.h, p.x, p.y, p.v, p.f} {
		s := strconv.FormatInt(n, 10)
		switch g.Intn(4) {
		case 0:
			if n >= 0 {
				s = "+" + s
			}
		case 1:
			z := strings.Repeat("0", 1+g.Intn(3))
			if n < 0 {
				s = "-" + z + s[1:]
			} else {
				s = z + s
			}
		case 2:
			if n == 0 {
				s = []string{"-0", "+0", "00", "-00"}[g.Intn(4)]
			}
		}
		out[k] = s
	}
	return strings.Join(out, "/")
}

// long list: 20..100 members around one voxel, with repeats and a few strays
func genLongList(g *Gen) []vox {
	p := genVox(g)
	n := 20 + g.Intn(81)
	l := make([]vox, 0, n)
	for len(l) < n {
		switch g.Intn(6) {
		case 0:
			if len(l) > 0 {
				l = append(l, l[g.Intn(len(l))])
				continue
			}
			fallthrough
		default:
			l = append(l, p.moved(g.Int63n(7)-3, g.Int63n(7)-3, g.Int63n(5)-2))
		}
	}
	return l
}

func zoomTags(l []vox) []string {
	seen := map[string]bool{}
	var t []string
	for _, p := range l {
		z := zoomTag(p.h)
		if !seen[z] {
			seen[z] = true
			t = append(t, z)
		}
	}
	return t
}

func ids(l []vox) []string {
	r := make([]string, len(l))
	for i, p := range l {
		r[i] = p.id()
	}
	return r
}

func zoomTag(h int64) string {
	if h <= 3 {
		return Tag("hzoom=%d", h)
	}
	if h >= 31 {
		return "hzoom>=31"
	}
	return "hzoom=4..30"
}

func voxTags(p vox) []string {
	ww := int64(1) << uint(p.h)
	t := []string{zoomTag(p.h)}
	if p.x == 0 || p.y == 0 || p.x == ww-1 || p.y == ww-1 {
		t = append(t, "grid-edge")
	}
	if p.f < 0 {
		t = append(t, "f<0")
	}
	return t
}

func runFixed(r *run.Runner, name string, id string, tags []string, triv bool) {
	r.Run(run.Case{Prop: "C08", Fn: name, Tags: append([]string{name}, tags...), Trivial: triv, Args: []w.Val{w.S(id)}})
}

func runN(r *run.Runner, l []string, H, V int64, h int64, tags []string, triv bool) {
	t := append([]string{fN, Tag("H=%d", H), Tag("V=%d", V), Tag("len=%d", len(l))}, tags...)
	ww := int64(1) << uint(h)
	if H >= 0 && V >= 0 {
		if 2*H+1 > ww {
			t = append(t, "stencil-wider-than-grid")
		}
		if H > ww && h > 0 {
			t = append(t, "more-than-one-lap")
		}
		if H == 0 && V == 0 || len(l) == 0 {
			triv = true
		}
	} else {
		t = append(t, "negative-layers")
		triv = true
	}
	r.Run(run.Case{Prop: "C08", Fn: fN, Tags: t, Trivial: triv, Args: []w.Val{w.Strs(l), w.I(H), w.I(V)}})
}

// symLayers: layer counts 0..4 at every zoom; the big stencils (n offsets cost about n^2 shifts on both sides) only now and then
func symLayers(g *Gen) (int64, int64) {
	for {
		H, V := g.Int63n(5), g.Int63n(5)
		n := (2*H + 1) * (2*H + 1) * (2*V + 1)
		if n <= 150 || (n <= 400 && g.Chance(0.15)) || g.Chance(0.02) {
			return H, V
		}
	}
}

func runSym(r *run.Runner, name string, id string, H, V int64, tags []string, triv bool) {
	if name == "SymN" {
		r.Run(run.Case{Prop: "C08", Fn: name, Tags: append([]string{name}, tags...), Trivial: triv || (H == 0 && V == 0),
			Args: []w.Val{w.S(id), w.I(H), w.I(V)}})
		return
	}
	r.Run(run.Case{Prop: "C08", Fn: name, Tags: append([]string{name}, tags...), Trivial: triv, Args: []w.Val{w.S(id)}})
}

// exhaustive small scope (thorough tier): every voxel of horizontal zooms 0..2 x a few vertical zooms / indices x every layer pair
func sweep(r *run.Runner) {
	for h := int64(0); h <= 2; h++ {
		ww := int64(1) << uint(h)
		for x := int64(0); x < ww; x++ {
			for y := int64(0); y < ww; y++ {
				for _, v := range []int64{0, 3, 35} {
					vw := int64(1) << uint(v)
					seen := map[int64]bool{}
					for _, f := range []int64{-vw, -1, 0, vw - 1} {
						if seen[f] {
							continue
						}
						seen[f] = true
						p := vox{h, x, y, v, f}
						tags := append(voxTags(p), "sweep")
						id := p.id()
						for _, n := range []string{f6, f8, f26, "Sym6", "Sym8", "Sym26"} {
							if n[0] == 'S' {
								runSym(r, n, id, 0, 0, tags, false)
							} else {
								runFixed(r, n, id, tags, false)
							}
						}
						for H := int64(0); H <= 6; H++ {
							for V := int64(0); V <= 4; V++ {
								if H > 4 && V > 0 {
									continue
								}
								runN(r, []string{id}, H, V, h, tags, false)
								if H <= 4 && (2*H+1)*(2*H+1)*(2*V+1) <= 250 && (h == 2 || V <= 2) {
									runSym(r, "SymN", id, H, V, tags, false)
								}
							}
						}
						if r.Stopped() {
							return
						}
					}
				}
			}
		}
	}
}

func init() {
	Scale["C08"] = 3000
	Registry["C08"] = func(r *run.Runner, g *Gen, n int) {
		r.Register(fixedFn(f6, operated.Get6spatialIdsAdjacentToFaces), fixedFn(f8, operated.Get8spatialIdsAroundHorizontal),
			fixedFn(f26, operated.Get26spatialIdsAroundVoxel), fnN(),
			symFn("Sym6", operated.Get6spatialIdsAdjacentToFaces), symFn("Sym8", operated.Get8spatialIdsAroundHorizontal),
			symFn("Sym26", operated.Get26spatialIdsAroundVoxel), fnSymN(), fnHistory())
		if n == 0 {
			return
		}
		// the documented more-than-one-lap witness and its relatives are always run first
		for _, c := range []struct {
			id   string
			H, V int64
		}{{"1/0/0/3/5", 3, 0}, {"1/1/0/3/5", 4, 0}, {"1/0/1/0/-1", 3, 1}, {"0/0/0/0/0", 4, 4}, {"2/0/3/2/-4", 6, 0}, {"2/3/0/2/3", 5, 1}} {
			runN(r, []string{c.id}, c.H, c.V, int64(c.id[0]-'0'), []string{"fixed-witness"}, false)
		}
		// capacity: an empty list just below the bound (2H+1)^2 (2V+1) <= 2^16, and a medium stencil
		runN(r, []string{}, 127, 0, 0, []string{"capacity-edge"}, false)
		runN(r, []string{"5/3/31/5/-2"}, 10, 10, 5, []string{"capacity-medium"}, false)
		// the same (x, y) at neighbouring horizontal zooms, back to back, through every fixed-size query (a cache keyed without the zoom
		// would answer the second call with the first call's wrapped indices): last column/row of zoom h is interior at zoom h+1
		for _, name := range []string{f6, f8, f26} {
			for _, c := range [][3]string{{"3/7/7/3/0", "4/7/7/4/0", "3/7/7/3/0"}, {"4/0/15/4/-1", "5/0/15/5/-1", "3/0/7/3/-1"},
				{"1/1/0/2/1", "2/1/0/2/1", "0/0/0/2/1"}, {"2/3/0/2/1", "5/9/9/5/1", "2/3/0/2/1"}, {"3/7/0/3/0", "3/7/0/4/0", "3/7/0/3/1"}} {
				for _, id := range c {
					runFixed(r, name, id, []string{"fixed-sequence", "consecutive"}, false)
				}
			}
		}
		// the same voxel / the same list with one layer count changed at a time, back to back (a cache keyed without one of the arguments)
		for _, id := range []string{"3/7/7/3/0", "20/5/1048575/20/-3"} {
			for _, hv := range [][2]int64{{1, 1}, {1, 2}, {2, 2}, {2, 1}, {1, 1}, {0, 1}, {1, 0}, {0, 0}, {1, 1}} {
				runN(r, []string{id}, hv[0], hv[1], 3, []string{"fixed-sequence", "consecutive"}, false)
			}
		}
		for _, l := range [][]string{{"3/7/7/3/0", "3/0/7/3/0"}, {"3/0/7/3/0", "3/7/7/3/0"}, {"3/7/7/3/0"}, {"3/7/7/3/0", "3/0/7/3/0", "3/7/7/3/0"}} {
			runN(r, l, 1, 1, 3, []string{"fixed-sequence", "consecutive"}, false)
		}
		fixedHistories(r)
		if g.Tier == "thorough" {
			sweep(r)
		}
		for i := 0; i < n && !r.Stopped(); i++ {
			kind := g.Intn(100)
			switch {
			case kind >= 3 && kind < 15:
				// a whole history of related calls in one case (see history.go)
				steps, tags := genHistory(g)
				runHistory(r, steps, tags)
			case kind < 3:
				// related consecutive calls, back to back (state carried from one call into the next would show here)
				l, lk := genList(g)
				if len(l) == 0 {
					l = []vox{genVox(g)}
				}
				h := l[0].h
				tags := append(voxTags(l[0]), "consecutive", "list="+lk)
				sl := ids(l)
				switch g.Intn(8) {
				case 5, 6, 7: // one fixed-size query on the same (x, y) at two horizontal zooms (edge of the coarser = interior of the finer), at another
					// vertical zoom and another f, then on an interior voxel; followed by the symmetry observation of the first ID
					p := l[0]
					name := []string{f6, f8, f26}[g.Intn(3)]
					if p.h >= 35 {
						p.h = 34
						p.x, p.y = p.x/2, p.y/2
					}
					ww := int64(1) << uint(p.h)
					p.x, p.y = g.Pick(0, ww-1, p.x), g.Pick(0, ww-1, p.y)
					q := p
					q.h = p.h + 1
					q2 := p
					q2.v = (p.v + 1) % 36
					q2.f = 0
					q3 := p.moved(0, 0, 1)
					q4 := q
					q4.x, q4.y = ww, ww/2+1
					seq := []vox{p, q, p, q2, q3, q4}
					if g.Chance(0.5) {
						seq = []vox{q, p, q, q4, q2, p}
					}
					for _, z := range seq {
						runFixed(r, name, z.id(), append(voxTags(z), "consecutive", "cross-zoom"), false)
					}
					runSym(r, map[string]string{f6: "Sym6", f8: "Sym8", f26: "Sym26"}[name], p.id(), 0, 0, append(voxTags(p), "consecutive"), false)
					i += 6
				case 0: // the same list with other layer counts
					H, V := genLayers(g, h)
					runN(r, sl, H, V, h, tags, false)
					runN(r, sl, (H+1)%5, V, h, tags, false)
					runN(r, sl, H, (V+1)%5, h, tags, false)
					runN(r, sl, H, V, h, tags, false)
					i += 3
				case 1: // the identical call twice, then the list permuted
					H, V := genLayers(g, h)
					runN(r, sl, H, V, h, tags, false)
					runN(r, sl, H, V, h, tags, false)
					rev := make([]string, len(sl))
					for k := range sl {
						rev[len(sl)-1-k] = sl[k]
					}
					runN(r, rev, H, V, h, append(tags, "permuted"), false)
					i += 2
				case 2: // the same voxel through all four queries, and the next voxel (same layers) right after
					p := l[0]
					runFixed(r, f6, p.id(), tags, false)
					runFixed(r, f8, p.id(), tags, false)
					runFixed(r, f26, p.id(), tags, false)
					runN(r, []string{p.id()}, 1, 1, h, tags, false)
					q := p.moved(1, 0, 0)
					runFixed(r, f26, q.id(), tags, false)
					runN(r, []string{q.id()}, 1, 1, h, tags, false)
					i += 5
				case 3: // same x/y/f at another horizontal zoom / another vertical zoom / another f, same layers
					p := l[0]
					H, V := genLayers(g, h)
					runN(r, []string{p.id()}, H, V, p.h, tags, false)
					q := p
					q.h = p.h + 1
					if q.h > 35 {
						q.h = 34
						if q.x >= 1<<34 {
							q.x = 1<<34 - 1
						}
						if q.y >= 1<<34 {
							q.y = 1<<34 - 1
						}
					}
					runN(r, []string{q.id()}, H, V, q.h, append(voxTags(q), "consecutive"), false)
					q2 := p.moved(0, 0, 1)
					runN(r, []string{q2.id()}, H, V, p.h, tags, false)
					runN(r, []string{p.id()}, H, V, p.h, tags, false)
					i += 3
				default: // a valid call right after a failing one and vice versa
					H, V := genLayers(g, h)
					runN(r, append([]string{g.Malformed()}, sl...), H, V, h, append(tags, "malformed"), true)
					runN(r, sl, H, V, h, tags, false)
					runN(r, sl, -1, V, h, tags, true)
					runN(r, sl, H, V, h, tags, false)
					i += 3
				}
			case kind < 55:
				l, lk := genList(g)
				long := g.Chance(0.06)
				if long {
					l, lk = genLongList(g), "long"
				}
				h := int64(0)
				tags := []string{"list=" + lk}
				if len(l) > 0 {
					h = l[0].h
					tags = append(tags, voxTags(l[0])[1:]...)
					tags = append(tags, zoomTags(l)...)
				}
				H, V := genLayers(g, h)
				if long { // keep (2H+1)^2 (2V+1) * len around 4000 at most
					H, V = g.Pick(0, 1, 1, 1, 2), g.Pick(0, 0, 1, 1)
					if H == 2 {
						V = 0
					}
				}
				sl := ids(l)
				if g.Chance(0.08) {
					for k := range sl {
						if g.Chance(0.5) {
							sl[k] = spell(g, l[k])
						}
					}
					tags = append(tags, "non-canonical-spelling")
				}
				triv := false
				if g.Chance(0.04) && len(sl) > 0 {
					sl[g.Intn(len(sl))] = g.Malformed()
					tags = append(tags, "malformed")
					triv = true
				}
				if g.Chance(0.04) {
					if g.Chance(0.5) {
						H = -1 - g.Int63n(3)
					} else {
						V = -1 - g.Int63n(3)
					}
					if g.Chance(0.2) {
						H, V = g.Pick(-1, -9223372036854775808), g.Pick(-1, 0, -9223372036854775808)
					}
				}
				runN(r, sl, H, V, h, tags, triv)
			case kind < 85:
				p := genVox(g)
				id, tags, triv := p.id(), voxTags(p), false
				if g.Chance(0.04) {
					id, tags, triv = g.Malformed(), []string{"malformed"}, true
				} else if g.Chance(0.08) {
					id, tags = spell(g, p), append(tags, "non-canonical-spelling")
				}
				runFixed(r, []string{f6, f8, f26}[(kind-55)/10], id, tags, triv)
			default:
				p := genVox(g)
				id, tags, triv := p.id(), voxTags(p), false
				switch g.Intn(5) {
				case 0:
					runSym(r, "Sym6", id, 0, 0, tags, triv)
				case 1:
					runSym(r, "Sym8", id, 0, 0, tags, triv)
				case 2:
					runSym(r, "Sym26", id, 0, 0, tags, triv)
				default:
					H, V := symLayers(g)
					runSym(r, "SymN", id, H, V, append(tags, Tag("H=%d", H), Tag("V=%d", V)), triv)
				}
			}
		}
	}
}
