// Package c16: property C16 — results depend only on the input set: deterministic, order-blind, no duplicates, inputs unmodified.
//
// One entry "Det:<Function>" per set-valued exported operation. Arguments of an entry: [fargs; decoys; seed] where fargs are the
// arguments of the function, decoys are other argument vectors of the same function (part of the arguments equal to fargs: same
// zooms and radius at another latitude, same list at another zoom, ...) and seed drives the shuffles. The invoker, in one process:
//
//	(1) builds the native arguments once, keeping deep copies (strings cloned, objects read through their accessors); the slices
//	    handed to the function have spare capacity filled with sentinels;
//	(2) calls the function 8 times with those same arguments, two decoy calls between two repeats (A, X, B, A, B', X', A, ...): state
//	    kept between calls under a key that omits an argument shows up as a repeat that differs from the first;
//	(3) calls it on permutations of every input list (coarse-first, fine-first, two seeded shuffles) and on the list with entries
//	    repeated (every entry twice in place, one entry three times in place, the list appended to itself);
//	(4) after every call compares the inputs (length, every string byte for byte, every object field, the sentinels) with the copies;
//
// and returns [inputs_unmodified; repeats; permuted; duplicated]. The verdict is computed by the extracted Coq checker
// (DC16.check_det, proved sound): repeats equal as multisets of canonical items, permuted / duplicated runs the same set of
// members, no member twice where the operation is documented as de-duplicated, flag true; corr = first repeat against the model.
//
// Legitimate exceptions respected: Difference / Intersect keep the multiplicity of the list they filter (C20); line and corridor
// take two points, not lists (only repeats and decoys apply); which group of a key conversion a pair lands in depends on the input
// order (members are compared flattened); merge is only called within its documented memory bound (c04.withinBound mirrored).
// Order-preserving functions (GetExtendedSpatialIdsOnPoints, the notation changes) are not set-valued and are not listed.
package c16

import (
	"fmt"
	"math/rand"
	"os"
	"sort"
	"strings"
	"time"

	. "verif/harness/gen"
	"verif/harness/run"
	w "verif/harness/wire"
)

const skipMarker = "skipped:too-large"

// inst: one concrete call — native arguments already built, with the copies to compare against
type inst struct {
	call func() w.Val
	same func() bool
}

type op struct {
	name  string
	lists []int                       // positions (in fargs) of the input lists that may be permuted / repeated
	build func(a []w.Val) *inst       // nil: wrong shape, or the call would be too large (only the shrinker proposes those)
	zkey  func(item w.Val) int64      // zoom of one list entry: coarse-first and fine-first orders
}

const repeats = 8

func replaced(a []w.Val, i int, v w.Val) []w.Val {
	c := append([]w.Val{}, a...)
	c[i] = v
	return c
}

// permutations of one list: coarse-first, fine-first (stable), two shuffles
func permVariants(o *op, l w.List, rng *rand.Rand) []w.List {
	if len(l) < 2 {
		return nil
	}
	var out []w.List
	if o.zkey != nil {
		asc := append(w.List{}, l...)
		sort.SliceStable(asc, func(i, j int) bool { return o.zkey(asc[i]) < o.zkey(asc[j]) })
		desc := append(w.List{}, l...)
		sort.SliceStable(desc, func(i, j int) bool { return o.zkey(desc[i]) > o.zkey(desc[j]) })
		out = append(out, asc, desc)
	} else {
		rev := make(w.List, len(l))
		for i := range l {
			rev[len(l)-1-i] = l[i]
		}
		out = append(out, rev)
	}
	for k := 0; k < 2; k++ {
		s := append(w.List{}, l...)
		rng.Shuffle(len(s), func(i, j int) { s[i], s[j] = s[j], s[i] })
		out = append(out, s)
	}
	return out
}

// repetitions of entries: every entry twice in place; one entry three times in place; the list appended to itself; the first entry twice
func dupVariants(l w.List, rng *rand.Rand) []w.List {
	if len(l) == 0 {
		return nil
	}
	st := make(w.List, 0, 2*len(l))
	for _, e := range l {
		st = append(st, e, e)
	}
	k := rng.Intn(len(l))
	one := append(w.List{}, l[:k]...)
	one = append(one, l[k], l[k], l[k])
	one = append(one, l[k+1:]...)
	app := append(append(w.List{}, l...), l...)
	// the first entry twice at the front, the distinct entries after it ([A,A,B,C]: a filter-in-place over the caller's backing array
	// shifts B and C forward)
	front := append(w.List{l[0]}, l...)
	return []w.List{st, one, app, front}
}

func asListVal(v w.Val) (w.List, bool) {
	switch x := v.(type) {
	case w.List:
		return x, true
	case w.Nil:
		return w.List{}, true
	}
	return nil, false
}

func (o *op) fn() *run.Fn {
	return &run.Fn{Name: "Det:" + o.name, Timeout: 40 * time.Second, Invoke: func(args []w.Val) w.Val {
		if len(args) != 3 {
			return w.S(skipMarker)
		}
		fargs, ok1 := asListVal(args[0])
		decoyL, ok2 := asListVal(args[1])
		seedV, ok3 := args[2].(w.Int)
		if !ok1 || !ok2 || !ok3 {
			return w.S(skipMarker)
		}
		seed := seedV.V.Int64()
		A := safeBuild(o, fargs)
		if A == nil {
			return w.S(skipMarker)
		}
		var decoys []*inst
		for _, d := range decoyL {
			if da, ok := asListVal(d); ok {
				if in := safeBuild(o, da); in != nil {
					decoys = append(decoys, in)
				}
			}
		}
		unmodified := true
		runI := func(in *inst) w.Val {
			r := in.call()
			if !in.same() {
				unmodified = false
			}
			return r
		}
		reps := w.List{}
		for i := 0; i < repeats; i++ {
			reps = append(reps, runI(A))
			// two decoys between two repeats, in alternating order: a memo keyed on part of the arguments is only refilled by a
			// decoy that shares that part with A when the call before it did not (A, X, B, A: X evicts, B refills, A reads B's)
			if n := len(decoys); n > 0 && i < repeats-1 {
				x, y := decoys[(2*i)%n], decoys[(2*i+1)%n]
				if i%2 == 1 {
					x, y = y, x
				}
				runI(x)
				if n > 1 {
					runI(y)
				}
			}
		}
		rng := rand.New(rand.NewSource(seed))
		perms, dups := w.List{}, w.List{}
		for _, li := range o.lists {
			if li >= len(fargs) {
				continue
			}
			l, ok := asListVal(fargs[li])
			if !ok {
				continue
			}
			for _, pv := range permVariants(o, l, rng) {
				if in := safeBuild(o, replaced(fargs, li, pv)); in != nil {
					perms = append(perms, runI(in))
				}
			}
			for _, dv := range dupVariants(l, rng) {
				if in := safeBuild(o, replaced(fargs, li, dv)); in != nil {
					dups = append(dups, runI(in))
				}
			}
		}
		// both lists of a two-list operation permuted together
		if len(o.lists) == 2 && o.lists[0] < len(fargs) && o.lists[1] < len(fargs) {
			l1, ok1 := asListVal(fargs[o.lists[0]])
			l2, ok2 := asListVal(fargs[o.lists[1]])
			if ok1 && ok2 && len(l1) > 1 && len(l2) > 1 {
				p1, p2 := permVariants(o, l1, rng), permVariants(o, l2, rng)
				a2 := replaced(replaced(fargs, o.lists[0], p1[len(p1)-1]), o.lists[1], p2[len(p2)-1])
				if in := safeBuild(o, a2); in != nil {
					perms = append(perms, runI(in))
				}
			}
		}
		// the original arguments once more, after all the other calls
		reps = append(reps, runI(A))
		return w.L(w.B(unmodified), reps, perms, dups)
	}}
}

// safeBuild: a builder that meets arguments of an unexpected shape (only the shrinker produces them) refuses the call
func safeBuild(o *op, a []w.Val) (in *inst) {
	defer func() {
		if e := recover(); e != nil {
			in = nil
		}
	}()
	return o.build(a)
}

// ---------------------------------------------------------------------------------------------- input copies

var sentinels = []string{"\x00sentinel-a", "\x00sentinel-b", "\x00sentinel-c"}

// strsIn: the slice handed to the function (fresh backing array, cloned strings, spare capacity holding sentinels) and the check
// that it still equals the private copy.
func strsIn(v w.Val) ([]string, func() bool) {
	src := w.AsStrs(v)
	n := len(src)
	full := make([]string, n+len(sentinels))
	snap := make([]string, n)
	for i, s := range src {
		full[i] = strings.Clone(s)
		snap[i] = strings.Clone(s)
	}
	copy(full[n:], sentinels)
	in := full[:n]
	return in, func() bool {
		if len(in) != n {
			return false
		}
		for i := range snap {
			if full[i] != snap[i] {
				return false
			}
		}
		for i, s := range sentinels {
			if full[n+i] != s {
				return false
			}
		}
		return true
	}
}

func strIn(v w.Val) (string, func() bool) {
	s := strings.Clone(w.AsStr(v))
	snap := strings.Clone(s)
	return s, func() bool { return s == snap }
}

func all(fs ...func() bool) func() bool {
	return func() bool {
		for _, f := range fs {
			if !f() {
				return false
			}
		}
		return true
	}
}

func boolRes(b bool, err error) w.Val {
	s := "false"
	if b {
		s = "true"
	}
	return w.WithErr(w.L(w.S(s)), err)
}

// ---------------------------------------------------------------------------------------------- registry

func init() {
	Scale["C16"] = 1300
	Registry["C16"] = func(r *run.Runner, g *Gen, n int) {
		for _, o := range ops {
			r.Register(o.fn())
		}
		if n == 0 {
			return
		}
		if os.Getenv("C16_PROFILE") != "" {
			profile = map[string]time.Duration{}
		}
		fixedCases(r)
		for i := 0; i < n; i++ {
			genOne(r, g, i)
		}
		for k, v := range profile {
			fmt.Fprintf(os.Stderr, "profile %-55s %8.2fs\n", k, v.Seconds())
		}
	}
}

// C16_PROFILE=1: time spent per entry (implementation calls + model verdict), printed at the end of the run
var profile map[string]time.Duration

func emit(r *run.Runner, name string, fargs []w.Val, decoys [][]w.Val, seed int64, tags []string, trivial bool) {
	dl := make(w.List, len(decoys))
	for i, d := range decoys {
		dl[i] = w.List(d)
	}
	for _, o := range ops {
		if o.name == name && safeBuild(o, fargs) == nil { // visible in the distribution: the generator produced a call beyond a guard
			tags = append(tags, "generated-but-skipped")
			trivial = true
		}
	}
	if profile != nil {
		t0 := time.Now()
		defer func() { profile[name] += time.Since(t0) }()
	}
	r.Run(run.Case{Prop: "C16", Fn: "Det:" + name, Tags: append([]string{"fn=" + name}, tags...), Trivial: trivial,
		Args: []w.Val{w.List(fargs), dl, w.I(seed)}})
}
