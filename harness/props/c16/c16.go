// Package c16: property C16 — results depend only on the input set: deterministic, order-blind, no duplicates, inputs unmodified.
//
// One entry "Det:<Function>" per set-valued exported operation. Arguments of an entry: [fargs; decoys; seed] where fargs are the
// arguments of the function, decoys are other argument vectors of the same function (part of the arguments equal to fargs: same
// zooms and radius at another latitude, same list at another zoom, ...) and seed drives the shuffles. The invoker, in one process:
//
//	(1) builds the native arguments once, keeping deep copies (strings cloned, objects read through their accessors); the slices
//	    handed to the function have spare capacity filled with sentinels;
//	(2) calls the function 9 times (8, and once more after all the other calls) with those same arguments, two decoy calls between two repeats (A, X, B, A, B', X', A, ...): state
//	    kept between calls under a key that omits an argument shows up as a repeat that differs from the first;
//	(3) calls it on permutations of every input list (coarse-first, fine-first, two seeded shuffles) and on the list with entries
//	    repeated (every entry twice in place, one entry three times in place, the list appended to itself);
//	(4) after every call compares the inputs (length, every string byte for byte, every object field, the sentinels) with the copies;
//
// and returns [inputs_unmodified; repeats; permuted; duplicated; permuted runs refused by a size guard; duplicated runs refused]. The verdict is computed by the extracted Coq checker
// (DC16.check_det, proved sound): repeats equal as multisets of canonical items, permuted / duplicated runs the same set of
// members, no member twice where the operation is documented as de-duplicated, flag true; corr = first repeat against the model.
//
// Legitimate exceptions respected: Difference / Intersect keep the multiplicity of the list they filter (C20); line and corridor
// take two points, not lists (only repeats and decoys apply); which group of a key conversion a pair lands in depends on the input
// order (members are compared flattened); merge is only called within its documented memory bound (c04.withinBound mirrored).
// Order-preserving functions (GetExtendedSpatialIdsOnPoints, the notation changes) are not set-valued and are not listed.
package c16

import (
	"fmt"
	"math/rand"
	"os"
	"sort"
	"strings"
	"time"

	. "verif/harness/gen"
	"verif/harness/run"
	w "verif/harness/wire"
)

const skipMarker = "skipped:too-large"

// inst: one concrete call — native arguments already built, with the copies to compare against
type inst struct {
	call func() w.Val
	same func() bool
}

type op struct {
	name  string
	lists []int                  // positions (in fargs) of the input lists that may be permuted / repeated
	build func(a []w.Val) *inst  // nil: wrong shape, or the call would be too large (only the shrinker proposes those)
	zkey  func(item w.Val) int64 // zoom of one list entry: coarse-first and fine-first orders
}

const repeats = 8 // plus one more after all the variants

func replaced(a []w.Val, i int, v w.Val) []w.Val {
	c := append([]w.Val{}, a...)
	c[i] = v
	return c
}

// permutations of one list: coarse-first, fine-first (stable), two shuffles
func permVariants(o *op, l w.List, rng *rand.Rand) []w.List {
	if len(l) < 2 {
		return nil
	}
	var out []w.List
	if o.zkey != nil {
		asc := append(w.List{}, l...)
		sort.SliceStable(asc, func(i, j int) bool { return o.zkey(asc[i]) < o.zkey(asc[j]) })
		desc := append(w.List{}, l...)
		sort.SliceStable(desc, func(i, j int) bool { return o.zkey(desc[i]) > o.zkey(desc[j]) })
		out = append(out, asc, desc)
	} else {
		rev := make(w.List, len(l))
		for i := range l {
			rev[len(l)-1-i] = l[i]
		}
		out = append(out, rev)
	}
	for k := 0; k < 2; k++ {
		s := append(w.List{}, l...)
		rng.Shuffle(len(s), func(i, j int) { s[i], s[j] = s[j], s[i] })
		out = append(out, s)
	}
	return out
}

// repetitions of entries: every entry twice in place; one entry three times in place; the list appended to itself; the first entry twice
func dupVariants(l w.List, rng *rand.Rand) []w.List {
	if len(l) == 0 {
		return nil
	}
	st := make(w.List, 0, 2*len(l))
	for _, e := range l {
		st = append(st, e, e)
	}
	k := rng.Intn(len(l))
	one := append(w.List{}, l[:k]...)
	one = append(one, l[k], l[k], l[k])
	one = append(one, l[k+1:]...)
	app := append(append(w.List{}, l...), l...)
	// the first entry twice at the front, the distinct entries after it ([A,A,B,C]: a filter-in-place over the caller's backing array
	// shifts B and C forward)
	front := append(w.List{l[0]}, l...)
	return []w.List{st, one, app, front}
}

func asListVal(v w.Val) (w.List, bool) {
	switch x := v.(type) {
	case w.List:
		return x, true
	case w.Nil:
		return w.List{}, true
	}
	return nil, false
}

// variantArgs: the argument vectors of the permuted and of the duplicated runs (deterministic in seed)
func variantArgs(o *op, fargs []w.Val, seed int64) (perms, dups [][]w.Val) {
	rng := rand.New(rand.NewSource(seed))
	for _, li := range o.lists {
		if li >= len(fargs) {
			continue
		}
		l, ok := asListVal(fargs[li])
		if !ok {
			continue
		}
		for _, pv := range permVariants(o, l, rng) {
			perms = append(perms, replaced(fargs, li, pv))
		}
		for _, dv := range dupVariants(l, rng) {
			dups = append(dups, replaced(fargs, li, dv))
		}
	}
	// both lists of a two-list operation permuted together
	if len(o.lists) == 2 && o.lists[0] < len(fargs) && o.lists[1] < len(fargs) {
		l1, ok1 := asListVal(fargs[o.lists[0]])
		l2, ok2 := asListVal(fargs[o.lists[1]])
		if ok1 && ok2 && len(l1) > 1 && len(l2) > 1 {
			p1, p2 := permVariants(o, l1, rng), permVariants(o, l2, rng)
			perms = append(perms, replaced(replaced(fargs, o.lists[0], p1[len(p1)-1]), o.lists[1], p2[len(p2)-1]))
		}
	}
	return perms, dups
}

// longestList: length of the longest permutable list argument (variants exist from 2 entries on)
func longestList(o *op, fargs []w.Val) int {
	n := 0
	for _, li := range o.lists {
		if li < len(fargs) {
			if l, ok := asListVal(fargs[li]); ok && len(l) > n {
				n = len(l)
			}
		}
	}
	return n
}

func (o *op) fn() *run.Fn {
	return &run.Fn{Name: "Det:" + o.name, Timeout: 40 * time.Second, Invoke: func(args []w.Val) w.Val {
		if len(args) != 3 {
			return w.S(badShape)
		}
		fargs, ok1 := asListVal(args[0])
		decoyL, ok2 := asListVal(args[1])
		seedV, ok3 := args[2].(w.Int)
		if !ok1 || !ok2 || !ok3 || !seedV.V.IsInt64() {
			return w.S(badShape)
		}
		seed := seedV.V.Int64()
		A, why := safeBuild(o, fargs)
		if A == nil {
			return w.S(why)
		}
		var decoys []*inst
		for _, d := range decoyL {
			if da, ok := asListVal(d); ok {
				if in, _ := safeBuild(o, da); in != nil {
					decoys = append(decoys, in)
				}
			}
		}
		unmodified := true
		runI := func(in *inst) w.Val {
			r := in.call()
			if !in.same() {
				unmodified = false
			}
			return r
		}
		reps := w.List{}
		for i := 0; i < repeats; i++ {
			reps = append(reps, runI(A))
			// two decoys between two repeats, in alternating order: a memo keyed on part of the arguments is only refilled by a
			// decoy that shares that part with A when the call before it did not (A, X, B, A: X evicts, B refills, A reads B's)
			if n := len(decoys); n > 0 && i < repeats-1 {
				x, y := decoys[(2*i)%n], decoys[(2*i+1)%n]
				if i%2 == 1 {
					x, y = y, x
				}
				runI(x)
				if n > 1 {
					runI(y)
				}
			}
		}
		pa, da := variantArgs(o, fargs, seed)
		perms, dups := w.List{}, w.List{}
		droppedP, droppedD := int64(0), int64(0)
		for _, a := range pa {
			if in, _ := safeBuild(o, a); in != nil {
				perms = append(perms, runI(in))
			} else {
				droppedP++
			}
		}
		for _, a := range da {
			if in, _ := safeBuild(o, a); in != nil {
				dups = append(dups, runI(in))
			} else {
				droppedD++
			}
		}
		// the original arguments once more, after all the other calls
		reps = append(reps, runI(A))
		// [inputs unmodified; repeats; permuted; duplicated; permuted runs refused by a size guard; duplicated runs refused]
		return w.L(w.B(unmodified), reps, perms, dups, w.I(droppedP), w.I(droppedD))
	}}
}

const badShape = "bad-shape"         // arguments that no generator produces (shrinker): the dispatcher answers bad-case
const builderPanic = "builder-panic" // a builder or its guard panicked: never a pass

// safeBuild: the call, or why it is refused: skipMarker (a size guard; the dispatcher re-checks the estimate where it has one),
// builderPanic (a guard or constructor panicked on the arguments)
func safeBuild(o *op, a []w.Val) (in *inst, why string) {
	defer func() {
		if e := recover(); e != nil {
			in, why = nil, builderPanic
		}
	}()
	if in = o.build(a); in == nil {
		return nil, skipMarker
	}
	return in, ""
}

func opByName(name string) *op {
	for _, o := range ops {
		if o.name == name {
			return o
		}
	}
	panic("harness: unknown operation " + name)
}

// ---------------------------------------------------------------------------------------------- input copies

var sentinels = []string{"\x00sentinel-a", "\x00sentinel-b", "\x00sentinel-c"}

// strsIn: the slice handed to the function (fresh backing array, cloned strings, spare capacity holding sentinels) and the check
// that it still equals the private copy.
func strsIn(v w.Val) ([]string, func() bool) {
	if _, isNil := v.(w.Nil); isNil { // a nil slice is handed over as nil
		var in []string
		return in, func() bool { return in == nil }
	}
	src := w.AsStrs(v)
	n := len(src)
	full := make([]string, n+len(sentinels))
	snap := make([]string, n)
	for i, s := range src {
		full[i] = strings.Clone(s)
		snap[i] = strings.Clone(s)
	}
	copy(full[n:], sentinels)
	in := full[:n]
	return in, func() bool {
		if len(in) != n {
			return false
		}
		for i := range snap {
			if full[i] != snap[i] {
				return false
			}
		}
		for i, s := range sentinels {
			if full[n+i] != s {
				return false
			}
		}
		return true
	}
}

func strIn(v w.Val) (string, func() bool) {
	s := strings.Clone(w.AsStr(v))
	snap := strings.Clone(s)
	return s, func() bool { return s == snap }
}

func all(fs ...func() bool) func() bool {
	return func() bool {
		for _, f := range fs {
			if !f() {
				return false
			}
		}
		return true
	}
}

func boolRes(b bool, err error) w.Val {
	s := "false"
	if b {
		s = "true"
	}
	return w.WithErr(w.L(w.S(s)), err)
}

// ---------------------------------------------------------------------------------------------- registry

func init() {
	Scale["C16"] = 1150
	Registry["C16"] = func(r *run.Runner, g *Gen, n int) {
		for _, o := range ops {
			r.Register(o.fn())
		}
		if n == 0 {
			return
		}
		if os.Getenv("C16_PROFILE") != "" {
			profile = map[string]time.Duration{}
		}
		fixedCases(r)
		for i := 0; i < n; i++ {
			for try := 0; try < 8 && !genOne(r, g, i); try++ {
			}
		}
		for k, v := range profile {
			fmt.Fprintf(os.Stderr, "profile %-55s %8.2fs refused-and-redrawn %d cases %d without-model %d\n", k, v.Seconds(), refused[k], issued[k], noModel[k])
		}
	}
}

// C16_PROFILE=1: time spent per entry (implementation calls + model verdict), printed at the end of the run
var profile map[string]time.Duration

// emit runs one case. A generated call that its own size guard refuses is not issued (false: the generator draws again).
// Trivial (not counted as distinct non-trivial): the caller's own rule; a first call that returns an error (nine errors are compared
// with each other); a list-taking operation whose lists all have fewer than two entries (no permuted run exists).
func emit(r *run.Runner, name string, fargs []w.Val, decoys [][]w.Val, seed int64, tags []string, trivial bool) bool {
	o := opByName(name)
	in, _ := safeBuild(o, fargs)
	if in == nil {
		refused[name]++
		return false
	}
	if _, isErr := in.call().(w.Err); isErr {
		tags = append(tags, "error-result")
		trivial = true
	}
	if len(o.lists) > 0 {
		if longestList(o, fargs) < 2 {
			tags = append(tags, "no-variants")
			trivial = true
		} else {
			pa, da := variantArgs(o, fargs, seed)
			for _, a := range append(pa, da...) {
				if v, _ := safeBuild(o, a); v == nil {
					tags = append(tags, "variants-dropped")
					break
				}
			}
		}
	} else {
		tags = append(tags, "repeats-only")
	}
	dl := make(w.List, len(decoys))
	for i, d := range decoys {
		dl[i] = w.List(d)
	}
	if profile != nil {
		t0 := time.Now()
		defer func() { profile[name] += time.Since(t0) }()
	}
	v := r.Run(run.Case{Prop: "C16", Fn: "Det:" + name, Tags: append([]string{"fn=" + name}, tags...), Trivial: trivial,
		Args: []w.Val{w.List(fargs), dl, w.I(seed)}})
	issued[name]++
	if _, none := v.Model.(w.Nil); none || v.Model == nil {
		noModel[name]++
	}
	return true
}

// refused: generated calls that a size guard refused (drawn again), per operation; printed with C16_PROFILE
var refused = map[string]int{}

// issued / noModel: cases per operation, and those for which the dispatcher ran no model (corr = prop); printed with C16_PROFILE
var issued, noModel = map[string]int{}, map[string]int{}
