package c16

import (
	"math"
	"strings"

	"github.com/go-gl/mathgl/mgl64"
	closest "github.com/trajectoryjp/closest_go"
	geodesy "github.com/trajectoryjp/geodesy_go/coordinates"
	"github.com/trajectoryjp/spatial_id_go/v4/common/enum"
	"github.com/trajectoryjp/spatial_id_go/v4/shape"
	"github.com/trajectoryjp/spatial_id_go/v4/transform"

	. "verif/harness/gen"
	"verif/harness/run"
	w "verif/harness/wire"
)

// ---------------------------------------------------------------------------------------------- voxels

// genLimit: size of the largest result a generated call produces (every case makes about 25 calls)
const genLimit = 300

type eid struct{ h, x, y, v, f int64 }

func (e eid) str() string { return EID(e.h, e.x, e.y, e.v, e.f) }
func (e eid) sid() string { return SID(e.h, e.f, e.x, e.y) }
func (e eid) valid() bool {
	return 0 <= e.h && e.h <= 35 && 0 <= e.v && e.v <= 35 && 0 <= e.x && e.x < 1<<uint(e.h) && 0 <= e.y && e.y < 1<<uint(e.h) &&
		-(int64(1)<<uint(e.v)) <= e.f && e.f < 1<<uint(e.v)
}

func clampZ(z int64) int64 { return min64(35, max64(0, z)) }

// at: a voxel at zooms (h, v) related to t: the floor ancestor where coarser, a random descendant where finer
func at(g *Gen, t eid, h, v int64) eid {
	r := eid{h: h, v: v}
	if h >= t.h {
		d := uint(h - t.h)
		r.x = t.x<<d + g.Int63n(1<<d)
		r.y = t.y<<d + g.Int63n(1<<d)
	} else {
		d := uint(t.h - h)
		r.x, r.y = t.x>>d, t.y>>d
	}
	if v >= t.v {
		d := uint(v - t.v)
		r.f = t.f<<d + g.Int63n(1<<d)
	} else {
		r.f = t.f >> uint(t.v-v)
	}
	return r
}

func allDesc(t eid, a, b int64) []eid {
	var out []eid
	na, nb := int64(1)<<uint(a), int64(1)<<uint(b)
	for x := t.x * na; x < (t.x+1)*na; x++ {
		for y := t.y * na; y < (t.y+1)*na; y++ {
			for f := t.f * nb; f < (t.f+1)*nb; f++ {
				out = append(out, eid{t.h + a, x, y, t.v + b, f})
			}
		}
	}
	return out
}

// near: t or one of its neighbours at the same zooms (valid)
func near(g *Gen, t eid) eid {
	c := t
	switch g.Intn(8) {
	case 0:
		c.f++
	case 1:
		c.f--
	case 2:
		c.x++
	case 3:
		c.x--
	case 4:
		c.y++
	case 5:
		c.y--
	}
	if c.valid() {
		return c
	}
	return t
}

func baseVoxel(g *Gen, hlo, hhi, vlo, vhi int64, same bool) eid {
	h := hlo + g.Int63n(hhi-hlo+1)
	v := vlo + g.Int63n(vhi-vlo+1)
	if same {
		v = h
	}
	t := eid{h, g.HIndex(h), g.HIndex(h), v, g.VIndex(v)}
	if g.Chance(0.3) {
		t.f = g.Pick(-1, 0)
	}
	return t
}

// cluster: n voxels around t at zooms within [-down, +up] of t's zooms: t itself, ancestors, descendants (nested IDs), neighbours,
// and repeated entries
func cluster(g *Gen, t eid, n int, down, up int64, same bool) []eid {
	var es []eid
	for tries := 0; len(es) < n; tries++ {
		if tries > 50*n {
			panic("harness: cluster around an invalid voxel " + t.str())
		}
		dh := g.Int63n(down+up+1) - down
		dv := g.Int63n(down+up+1) - down
		if same {
			dv = dh
		}
		h, v := clampZ(t.h+dh), clampZ(t.v+dv)
		if same {
			v = h
		}
		var c eid
		switch g.Intn(11) {
		case 10: // the indices of an earlier entry at another zoom: a different voxel with equal x, y, f
			c = t
			if len(es) > 0 {
				c = es[g.Intn(len(es))]
			}
			switch {
			case same:
				c.h, c.v = c.h+1, c.v+1
			case g.Chance(0.5):
				c.h++
			default:
				c.v++
			}
		case 0, 1:
			c = t
		case 2:
			if len(es) > 0 {
				c = es[g.Intn(len(es))] // a repeated entry
			} else {
				c = t
			}
		case 3, 4:
			c = at(g, near(g, t), h, v)
		default:
			c = at(g, t, h, v)
		}
		if c.valid() {
			es = append(es, c)
		}
	}
	return es
}

func extStrs(es []eid) w.Val {
	l := make(w.List, len(es))
	for i, e := range es {
		l[i] = w.S(e.str())
	}
	return l
}
func sidStrs(es []eid) w.Val {
	l := make(w.List, len(es))
	for i, e := range es {
		l[i] = w.S(e.sid())
	}
	return l
}
func strList(ss []string) w.Val {
	l := make(w.List, len(ss))
	for i, s := range ss {
		l[i] = w.S(s)
	}
	return l
}

func shuffle(g *Gen, es []eid) {
	g.R.Shuffle(len(es), func(i, j int) { es[i], es[j] = es[j], es[i] })
}

func lenTag(n int) string { return Tag("len=%d", min64(int64(n), 12)) }

// ---------------------------------------------------------------------------------------------- zoom change

func genChange(r *run.Runner, g *Gen, same bool) bool {
	t := baseVoxel(g, 1, 33, 1, 33, same)
	n := 1 + g.Intn(6)
	es := cluster(g, t, n, 2, 2, same)
	var hi, lo eid = es[0], es[0]
	for _, e := range es {
		hi.h, hi.v = max64(hi.h, e.h), max64(hi.v, e.v)
		lo.h, lo.v = min64(lo.h, e.h), min64(lo.v, e.v)
	}
	var H, V int64
	mode := ""
	switch g.Intn(10) {
	case 0, 1, 2, 3: // no input is coarsened: overlapping (nested, repeated) inputs produce the same IDs several times
		H, V = hi.h+g.Int63n(3), hi.v+g.Int63n(3)
		mode = "refine-only"
	case 4, 5:
		H, V = lo.h-g.Int63n(3), lo.v-g.Int63n(3)
		mode = "coarsen-only"
	case 6:
		H, V = hi.h+g.Int63n(2), lo.v-g.Int63n(2)
		mode = "h-up-v-down"
	default:
		H, V = lo.h+g.Int63n(hi.h-lo.h+2), lo.v+g.Int63n(hi.v-lo.v+2)
		mode = "mixed"
	}
	H, V = clampZ(H), clampZ(V)
	if same {
		V = H
	}
	name := "ChangeExtendedSpatialIdsZoom"
	ids := extStrs(es)
	cost := changeCost(w.AsStrs(ids), false, H, V)
	if same {
		name = "ChangeSpatialIdsZoom"
		ids = sidStrs(es)
		cost = changeCost(w.AsStrs(ids), true, H, V)
	}
	for cost > genLimit && (H > lo.h || V > lo.v) { // keep the output small
		if H > lo.h {
			H--
		}
		if V > lo.v {
			V--
		}
		if same {
			V = H
		}
		cost = changeCost(w.AsStrs(ids), same, H, V)
	}
	mk := func(ids w.Val, H, V int64) []w.Val {
		if same {
			return []w.Val{ids, w.I(H)}
		}
		return []w.Val{ids, w.I(H), w.I(V)}
	}
	// decoys: the same list at another target; another list at the same target
	other := cluster(g, near(g, t), 1+g.Intn(3), 1, 1, same)
	oids := extStrs(other)
	if same {
		oids = sidStrs(other)
	}
	decoys := [][]w.Val{mk(ids, clampZ(H-1), clampZ(V-1))}
	// the same x, y, f one horizontal zoom finer, in reverse order, at a target one finer: the zoom DIFFERENCES are those of the call itself,
	// and the last ID of this decoy has the x, y of the call's first ID (state kept by the per-axis helpers between two calls)
	shifted := make([]eid, 0, len(es))
	okShift := H < 35 && (!same || V < 35)
	for i := len(es) - 1; i >= 0; i-- {
		e := es[i]
		e.h++
		if same {
			e.v++
		}
		okShift = okShift && e.valid()
		shifted = append(shifted, e)
	}
	if okShift {
		sids := extStrs(shifted)
		V2 := V
		if same {
			sids = sidStrs(shifted)
			V2 = V + 1
		}
		if changeCost(w.AsStrs(sids), same, H+1, V2) <= genLimit*2 {
			decoys = append(decoys, mk(sids, H+1, V2))
		}
	}
	decoys = append(decoys, mk(oids, H, V))
	return emit(r, name, mk(ids, H, V), decoys, g.R.Int63(), []string{mode, lenTag(n)}, false)
}

// the per-axis helpers: decoys are consecutive related calls — the same x, y (resp. f) and the same zoom DIFFERENCE at another
// input zoom, the same input zoom at another difference, other indices at the same zooms
func genAxisHelper(r *run.Runner, g *Gen) bool {
	zin := g.Int63n(36)
	d := g.Int63n(9) - 4 // zout - zin
	if g.Chance(0.5) {
		d = g.Int63n(4) // refining: the result is a list
	}
	zout := clampZ(zin + d)
	d = zout - zin
	other := clampZ(zin + g.Pick(1, -1, 2, -2))
	if other == zin || other+d < 0 || other+d > 35 {
		other = clampZ(zin - g.Pick(1, -1))
	}
	if other+d < 0 || other+d > 35 {
		other = zin
	}
	if g.Chance(0.6) {
		x, y := g.HIndex(zin), g.HIndex(zin)
		if g.Chance(0.4) { // indices that are valid at both input zooms
			x, y = g.HIndex(min64(zin, other)), g.HIndex(min64(zin, other))
		}
		A := []w.Val{w.I(zin), w.I(x), w.I(y), w.I(zout)}
		// in pairs (X, B): X differs from the call in the difference / the index, B has the call's x, y and difference at another input zoom
		decoys := [][]w.Val{
			{w.I(zin), w.I(x), w.I(y), w.I(clampZ(zout - 1))},    // other difference
			{w.I(other), w.I(x), w.I(y), w.I(other + d)},         // same x, y and difference, other input zoom
			{w.I(zin), w.I(g.HIndex(zin)), w.I(y), w.I(zout)},    // other index
			{w.I(other), w.I(x), w.I(y), w.I(clampZ(other + d))}, // again
		}
		return emit(r, "HorizontalZoom", A, decoys, g.R.Int63(), []string{Tag("dz=%d", d)}, false)
	}
	f := g.VIndex(zin)
	if g.Chance(0.4) {
		f = g.VIndex(min64(zin, other))
	}
	d2 := d
	if d2 > 0 {
		d2 = d + g.Int63n(4)
		if zin+d2 > 35 {
			d2 = 35 - zin
		}
	}
	A := []w.Val{w.I(zin), w.I(f), w.I(zin + d2)}
	decoys := [][]w.Val{
		{w.I(zin), w.I(f), w.I(clampZ(zin + d2 - 1))},
		{w.I(other), w.I(f), w.I(clampZ(other + d2))},
		{w.I(zin), w.I(g.VIndex(zin)), w.I(zin + d2)},
		{w.I(other), w.I(f), w.I(clampZ(other + d2))},
	}
	return emit(r, "VerticalZoom", A, decoys, g.R.Int63(), []string{Tag("dz=%d", d2)}, false)
}

// ---------------------------------------------------------------------------------------------- merge

// cover: voxels of mixed zooms that fill t exactly (recursive subdivision within the remaining zoom budget)
func cover(g *Gen, t eid, bh, bv int64, depth int, same bool) []eid {
	if (bh == 0 && bv == 0) || (same && (bh == 0 || bv == 0)) || depth >= 2 || g.Chance(0.45) && depth > 0 {
		return []eid{t}
	}
	a, b := int64(0), int64(0)
	switch {
	case same:
		a, b = 1, 1
	case bh > 0 && bv > 0:
		switch g.Intn(3) {
		case 0:
			a, b = 1, 1
		case 1:
			a = 1
		default:
			b = 1
		}
	case bh > 0:
		a = 1
	default:
		b = 1
	}
	var out []eid
	for _, c := range allDesc(t, a, b) {
		out = append(out, cover(g, c, bh-a, bv-b, depth+1, same)...)
	}
	return out
}

func mergeWork(es []eid, H, V int64) int64 {
	var MH, MV int64
	for _, e := range es {
		MH, MV = max64(MH, e.h), max64(MV, e.v)
	}
	var s int64
	for _, e := range es {
		if e.h >= H && e.v >= V {
			s += (int64(1) << uint(2*(MH-e.h))) * (int64(1) << uint(MV-e.v))
		}
	}
	return s
}

func genMerge(r *run.Runner, g *Gen, same bool) bool {
	for try := 0; try < 20; try++ {
		t := baseVoxel(g, 0, 32, 0, 32, same)
		H, V := t.h, t.v
		sh, sv := 1+g.Int63n(2), 1+g.Int63n(2)
		if try > 5 {
			sh, sv = 1, 1
		}
		if same {
			sv = sh
		}
		var es []eid
		scen := ""
		switch g.Intn(6) {
		case 0:
			scen = "complete"
			es = allDesc(t, 1, 1)
		case 1:
			scen = "one-missing"
			es = allDesc(t, 1, 1)
			k := g.Intn(len(es))
			es = append(es[:k], es[k+1:]...)
		case 2, 3, 4: // coarse and fine members together fill the target (or all but one member)
			scen = "cover-mixed"
			for k := 0; k < 4; k++ {
				es = cover(g, t, sh, sv, 0, same)
				if len(es) > 1 && len(es) <= 24 {
					break
				}
			}
			if len(es) > 24 || len(es) < 2 {
				es = allDesc(t, 1, 1)
			}
			if g.Chance(0.25) {
				scen = "cover-minus-one"
				k := g.Intn(len(es))
				es = append(es[:k], es[k+1:]...)
			}
		default:
			scen = "random"
			es = cluster(g, t, 2+g.Intn(6), 0, 2, same)
		}
		tags := []string{scen}
		if g.Chance(0.5) { // noise: neighbours, nested IDs, coarser (ineligible) IDs
			for k := 1 + g.Intn(3); k > 0; k-- {
				h, v := clampZ(t.h+g.Int63n(sh+2)-1), clampZ(t.v+g.Int63n(sv+2)-1)
				if same {
					v = h
				}
				c := at(g, near(g, t), h, v)
				if c.valid() {
					es = append(es, c)
				}
			}
			tags = append(tags, "noise")
		}
		if g.Chance(0.3) {
			es = append(es, es[g.Intn(len(es))])
			tags = append(tags, "dups")
		}
		if mergeWork(es, H, V) > 900 { // every entry twice must stay within the function's bound
			continue
		}
		switch g.Intn(4) {
		case 0:
			shuffle(g, es)
		case 1: // coarse first
			for i := 1; i < len(es); i++ {
				for j := i; j > 0 && es[j].h+es[j].v < es[j-1].h+es[j-1].v; j-- {
					es[j], es[j-1] = es[j-1], es[j]
				}
			}
			tags = append(tags, "coarse-first")
		case 2: // fine first
			for i := 1; i < len(es); i++ {
				for j := i; j > 0 && es[j].h+es[j].v > es[j-1].h+es[j-1].v; j-- {
					es[j], es[j-1] = es[j-1], es[j]
				}
			}
			tags = append(tags, "fine-first")
		}
		tags = append(tags, lenTag(len(es)))
		// decoys: a subset of the same list; another complete set at the same target zooms; the same list one target lower
		sub := es[:1+g.Intn(len(es))]
		u := near(g, t)
		if same {
			ids := sidStrs(es)
			decoys := [][]w.Val{{sidStrs(sub), w.I(H)}, {sidStrs(allDesc(u, 1, 1)), w.I(H)}, {ids, w.I(clampZ(H - 1))}}
			return emit(r, "MergeSpatialIds", []w.Val{ids, w.I(H)}, decoys, g.R.Int63(), tags, len(es) < 2)
		} else {
			ids := extStrs(es)
			decoys := [][]w.Val{{extStrs(sub), w.I(H), w.I(V)}, {extStrs(allDesc(u, 1, 1)), w.I(H), w.I(V)}, {ids, w.I(clampZ(H - 1)), w.I(V)}}
			return emit(r, "MergeExtendedSpatialIds", []w.Val{ids, w.I(H), w.I(V)}, decoys, g.R.Int63(), tags, len(es) < 2)
		}
	}
	return false
}

// ---------------------------------------------------------------------------------------------- lines and corridors

func pt(lon, lat, alt float64) (w.Val, bool) {
	lon = math.Max(-180, math.Min(180, lon))
	lat = math.Max(-LatMax, math.Min(LatMax, lat))
	_, p, ok := StoredPoint(lon, lat, alt)
	return p, ok
}

// a short segment starting at (lon, lat, alt): at most k cells on each axis
func segment(g *Gen, lon, lat, alt float64, h, v int64, k float64) (w.Val, w.Val, bool) {
	cl, ca := cellLon(h), cellAlt(v)
	cy := cl * math.Cos(lat*math.Pi/180)
	d := func() float64 { return (g.R.Float64()*2 - 1) * k }
	var dx, dy, df float64
	switch g.Intn(6) {
	case 0:
		dx = d()
	case 1:
		dy = d()
	case 2:
		df = d()
	case 3: // both end points in one voxel, very often
		dx, dy, df = d()*0.05, d()*0.05, d()*0.05
	default:
		dx, dy, df = d(), d(), d()
	}
	p1, ok1 := pt(lon, lat, alt)
	p2, ok2 := pt(lon+dx*cl, lat+dy*cy, alt+df*ca)
	return p1, p2, ok1 && ok2
}

func lineZooms(g *Gen) (int64, int64) {
	h, v := 8+g.Int63n(26), 8+g.Int63n(26)
	if g.Chance(0.15) {
		h = g.Int63n(8)
	}
	if g.Chance(0.15) {
		v = g.Int63n(8)
	}
	if g.Chance(0.3) {
		h = g.Pick(30, 31, 32, 20, 25)
	}
	if g.Chance(0.3) {
		v = g.Pick(33, 34, 35, 20, 25)
	}
	return h, v
}

func genLine(r *run.Runner, g *Gen, same bool) bool {
	h, v := lineZooms(g)
	if same {
		v = h
	}
	lon, lat := g.R.Float64()*358-179, g.R.Float64()*160-80
	alt := (g.R.Float64()*2 - 1) * 800
	tags := []string{}
	if g.Chance(0.12) { // next to the antimeridian (an end point beyond it is clamped onto it)
		lon = 180 - g.R.Float64()*3*cellLon(h)
		if g.Chance(0.5) {
			lon = -lon
		}
		tags = append(tags, "antimeridian")
	}
	p1, p2, ok := segment(g, lon, lat, alt, h, v, 5)
	if h <= 5 && g.Chance(0.3) { // end points on both sides of the antimeridian: the segment runs the long way round
		q, okq := pt(-lon, lat+(g.R.Float64()*2-1)*3, alt)
		if okq {
			p2 = q
			tags = append(tags, "both-sides")
		}
	}
	q1, q2, ok2 := segment(g, lon, lat, alt, h, v, 4)
	if !ok || !ok2 {
		return false
	}
	if same {
		decoys := [][]w.Val{{q1, q2, w.I(h)}, {p1, p2, w.I(clampZ(h - 1))}, {p2, p1, w.I(h)}}
		return emit(r, "GetSpatialIdsOnLine", []w.Val{p1, p2, w.I(h)}, decoys, g.R.Int63(), append(tags, Tag("z=%d", h)), false)
	}
	decoys := [][]w.Val{{q1, q2, w.I(h), w.I(v)}, {p1, p2, w.I(clampZ(h - 1)), w.I(v)}, {p1, p2, w.I(h), w.I(clampZ(v + 1))}}
	return emit(r, "GetExtendedSpatialIdsOnLine", []w.Val{p1, p2, w.I(h), w.I(v)}, decoys, g.R.Int63(), append(tags, Tag("h=%d", h), Tag("v=%d", v)), false)
}

// corridor: the same zooms and radius at clearly different latitudes need different layer counts; decoys share (zooms, radius)
// with the call at another latitude, and (zooms, place) at another radius
func genCorridor(r *run.Runner, g *Gen) bool {
	h := 14 + g.Int63n(10)
	v := 14 + g.Int63n(12)
	latHi := (55 + g.R.Float64()*6)
	if g.Chance(0.5) {
		latHi = -latHi
	}
	latLo := (g.R.Float64()*2 - 1) * 8
	units := 0.0
	tag := ""
	switch k := g.Intn(10); {
	case k < 1:
		units, tag = 0, "r=0"
	case k < 3:
		units, tag = 0.1+0.8*g.R.Float64(), "r<1cell"
	default:
		units, tag = 1.15+0.5*g.R.Float64(), "r=1.15..1.65cells" // of the low latitude: more than 2 cells at the high one
	}
	rad := units * cellWidthM(h, latLo)
	skip := g.Chance(0.5)
	anti := g.Chance(0.15)
	if anti {
		tag += ",antimeridian"
	}
	mk := func(lat float64, rad float64, skip bool) ([]w.Val, bool) {
		lon := g.R.Float64()*358 - 179
		if anti { // the search box wraps around
			lon = 180 - g.R.Float64()*2*cellLon(h)
			if g.Chance(0.5) {
				lon = -lon
			}
		}
		alt := (g.R.Float64()*2 - 1) * 500
		p1, p2, ok := segment(g, lon, lat, alt, h, v, 1.5)
		return []w.Val{p1, p2, w.F(rad), w.I(h), w.I(v), w.B(skip)}, ok
	}
	aLat, bLat := latHi, latLo
	if g.Chance(0.5) {
		aLat, bLat = latLo, latHi
		tag += ",low-lat"
	} else {
		tag += ",high-lat"
	}
	A, ok1 := mk(aLat, rad, skip)
	B, ok2 := mk(bLat, rad, skip)     // same zooms, radius and mode, other latitude
	C, ok3 := mk(bLat, rad*0.4, skip) // other radius at the other latitude
	D, ok4 := mk(bLat, rad, !skip)    // other mode
	E := append([]w.Val{}, A...)      // same place, other radius
	E[2] = w.F(rad * 0.45)
	if !(ok1 && ok2 && ok3 && ok4) {
		return false
	}
	return emit(r, "GetExtendedSpatialIdsWithinRadiusOfLine", A, [][]w.Val{C, B, E, D}, g.R.Int63(),
		[]string{tag, Tag("skip=%v", skip), Tag("h=%d", h)}, false)
}

// ---- corridor, radius ON a measured-distance tie ----
// The measured mode keeps a candidate voxel when `dist < radius`, dist coming from one closest.Measure that is reused for all candidates:
// its search starts from the direction left by the previous candidate, so dist can differ in the last ulps with the order in which the
// candidates are measured. A radius that is a random multiple of the cell width never comes that close to a candidate's distance.
// Here the radius is the distance the real code measures for one candidate (same calls as the function makes: the voxel's 8 vertices,
// GeocentricFromGeodetic{lon, lat, lat}, MeasureNonnegativeDistance; a fresh Measure) plus or minus a few ulps.
func geocentric(lon, lat float64) *mgl64.Vec3 {
	c := geodesy.GeocentricFromGeodetic(geodesy.Geodetic{lon, lat, lat})
	return (*mgl64.Vec3)(&c)
}

func hullOf(id string) ([]*mgl64.Vec3, bool) {
	vs, err := shape.GetPointOnExtendedSpatialId(id, enum.Vertex)
	if err != nil {
		return nil, false
	}
	hull := []*mgl64.Vec3{}
	for _, v := range vs {
		hull = append(hull, geocentric(v.Lon(), v.Lat()))
	}
	return hull, true
}

// lineToVoxelDistance: the smallest and the largest distance the function can measure for the voxel id: with a fresh Measure, and with
// the one Measure of the function's loop after it measured one of the other candidates (preds) just before
func lineToVoxelDistance(p1, p2 w.Val, id string, preds []string) (lo, hi float64, ok bool) {
	a, b := w.AsList(p1), w.AsList(p2)
	hull, ok := hullOf(id)
	if !ok {
		return 0, 0, false
	}
	line := []*mgl64.Vec3{geocentric(w.AsFlt(a[0]), w.AsFlt(a[1])), geocentric(w.AsFlt(b[0]), w.AsFlt(b[1]))}
	m := closest.Measure{}
	m.ConvexHulls[0] = line
	m.ConvexHulls[1] = hull
	m.MeasureNonnegativeDistance()
	lo, hi = m.Distance, m.Distance
	for _, pr := range preds {
		ph, ok := hullOf(pr)
		if !ok {
			continue
		}
		mw := closest.Measure{}
		mw.ConvexHulls[0] = line
		mw.ConvexHulls[1] = ph
		mw.MeasureNonnegativeDistance()
		mw.ConvexHulls[1] = hull
		mw.MeasureNonnegativeDistance()
		lo, hi = math.Min(lo, mw.Distance), math.Max(hi, mw.Distance)
	}
	return lo, hi, true
}

func ulps(x float64, k int) float64 {
	for ; k > 0; k-- {
		x = math.Nextafter(x, math.Inf(1))
	}
	for ; k < 0; k++ {
		x = math.Nextafter(x, math.Inf(-1))
	}
	return x
}

func genCorridorTie(r *run.Runner, g *Gen) bool {
	h := 16 + g.Int63n(8)
	v := h
	if g.Chance(0.5) {
		v = 14 + g.Int63n(12)
	}
	lat := (g.R.Float64()*2 - 1) * 60
	lon := g.R.Float64()*358 - 179
	if g.Chance(0.15) { // next to the antimeridian: the box wraps around
		lon = 180 - g.R.Float64()*2*cellLon(h)
		if g.Chance(0.5) {
			lon = -lon
		}
	}
	alt := (g.R.Float64()*2 - 1) * 500
	p1, p2, ok := segment(g, lon, lat, alt, h, v, 1.5)
	if !ok {
		return false
	}
	o := opByName("GetExtendedSpatialIdsWithinRadiusOfLine")
	r0 := (1.05 + 0.7*g.R.Float64()) * cellWidthM(h, lat)
	probe := []w.Val{p1, p2, w.F(r0), w.I(h), w.I(v), w.B(true)}
	in, _ := safeBuild(o, probe)
	if in == nil {
		return false
	}
	all, isList := in.call().(w.List)
	lineIDs, err := shape.GetExtendedSpatialIdsOnLine(PointsFromVal(w.L(p1))[0], PointsFromVal(w.L(p2))[0], h, v)
	if !isList || err != nil {
		return false
	}
	onLine := map[string]bool{}
	for _, s := range lineIDs {
		onLine[s] = true
	}
	var cand []string
	for _, e := range all {
		if s := w.AsStr(e); !onLine[s] {
			cand = append(cand, s)
		}
	}
	if len(cand) == 0 {
		return false
	}
	for try := 0; try < 6; try++ {
		c := cand[g.Intn(len(cand))]
		var preds []string
		for k := 0; k < 8; k++ {
			preds = append(preds, cand[g.Intn(len(cand))])
		}
		dlo, d, ok := lineToVoxelDistance(p1, p2, c, preds)
		if !ok || !(d > 0) || d > r0 {
			continue
		}
		// the candidate must still be inside the search box that the function fits for a radius of d
		chk, _ := safeBuild(o, []w.Val{p1, p2, w.F(ulps(d, 8)), w.I(h), w.I(v), w.B(false)})
		if chk == nil {
			continue
		}
		inBox := false
		if l, ok := chk.call().(w.List); ok {
			for _, e := range l {
				if w.AsStr(e) == c {
					inBox = true
				}
			}
		}
		if !inBox {
			continue
		}
		k := g.Intn(5) - 2
		spread := "tie-spread=0"
		if dlo < d { // the measurement of this voxel already depends on its predecessor: the larger value makes `dist < radius` flip
			k = 0
			spread = "tie-spread>0"
		}
		rad := ulps(d, k)
		A := []w.Val{p1, p2, w.F(rad), w.I(h), w.I(v), w.B(false)}
		B := []w.Val{p1, p2, w.F(rad), w.I(h), w.I(v), w.B(true)}
		C := []w.Val{p1, p2, w.F(rad * 0.5), w.I(h), w.I(v), w.B(false)}
		return emit(r, "GetExtendedSpatialIdsWithinRadiusOfLine", A, [][]w.Val{C, B}, g.R.Int63(),
			[]string{"r=measured-distance-tie", Tag("tie-ulps=%d", k), spread, "skip=false", Tag("h=%d", h)}, false)
	}
	return false
}

// ---------------------------------------------------------------------------------------------- neighbourhoods

func genFixedNb(r *run.Runner, g *Gen) bool {
	name := []string{"Get6spatialIdsAdjacentToFaces", "Get8spatialIdsAroundHorizontal", "Get26spatialIdsAroundVoxel"}[g.Intn(3)]
	var t eid
	if g.Chance(0.35) { // narrow grids: the stencil wraps onto itself
		t = baseVoxel(g, 0, 2, 0, 3, false)
	} else {
		t = baseVoxel(g, 0, 35, 0, 35, false)
	}
	u := baseVoxel(g, 0, 35, 0, 35, false)
	return emit(r, name, []w.Val{w.S(t.str())}, [][]w.Val{{w.S(u.str())}, {w.S(near(g, t).str())}}, g.R.Int63(), []string{Tag("h=%d", min64(t.h, 4))}, false)
}

func genN(r *run.Runner, g *Gen) bool {
	var t eid
	if g.Chance(0.3) {
		t = baseVoxel(g, 0, 3, 0, 3, false)
	} else {
		t = baseVoxel(g, 0, 35, 0, 35, false)
	}
	n := 1 + g.Intn(5)
	var es []eid
	if g.Chance(0.6) { // adjacent voxels of one grid: their neighbourhoods overlap
		c := t
		for len(es) < n {
			es = append(es, c)
			c = near(g, c)
		}
	} else {
		es = cluster(g, t, n, 1, 1, false)
	}
	H, V := g.Int63n(3), g.Int63n(3)
	if g.Chance(0.1) {
		H = 3
	}
	for float64(2*len(es))*float64((2*H+1)*(2*H+1)*(2*V+1)) > 2*genLimit {
		H--
	}
	ids := extStrs(es)
	decoys := [][]w.Val{{ids, w.I(max64(0, H-1)), w.I(V)}, {extStrs(es[:1]), w.I(H), w.I(V)}, {ids, w.I(H), w.I(V + 1)}}
	return emit(r, "GetNspatialIdsAroundVoxcels", []w.Val{ids, w.I(H), w.I(V)}, decoys, g.R.Int63(),
		[]string{Tag("layers=%d/%d", H, V), lenTag(n)}, H == 0 && V == 0)
}

// ---------------------------------------------------------------------------------------------- overlap

// spatial IDs inside the documented altitude domain: 1 <= z, -2^(z-1) <= f < 2^(z-1)
func sidVoxel(g *Gen) eid {
	z := 1 + g.Int63n(35)
	if g.Chance(0.15) {
		z = 31 + g.Int63n(5)
	}
	half := int64(1) << uint(z-1)
	f := g.Int63n(2*half) - half
	if g.Chance(0.3) {
		f = g.Pick(-1, 0, -half, half-1)
	}
	return eid{z, g.HIndex(z), g.HIndex(z), z, f}
}
func sidDom(e eid) bool {
	return e.valid() && e.h == e.v && e.h >= 1 && -(int64(1)<<uint(e.h-1)) <= e.f && e.f < int64(1)<<uint(e.h-1)
}

func genOverlap(r *run.Runner, g *Gen, sid, array bool) bool {
	var t eid
	if sid {
		t = sidVoxel(g)
	} else {
		t = baseVoxel(g, 0, 35, 0, 35, false)
	}
	pickN := func(c eid, n int) []eid {
		var out []eid
		for tries := 0; len(out) < n && tries < 50; tries++ {
			for _, e := range cluster(g, c, 1, 2, 2, sid) {
				if !sid || sidDom(e) {
					out = append(out, e)
				}
			}
		}
		if len(out) == 0 {
			out = []eid{c}
		}
		return out
	}
	u := t
	rel := "related"
	if g.Chance(0.5) { // a disjoint neighbourhood: the answer is mostly false
		u = t
		u.x = (t.x + 1 + g.Int63n(3)) % (int64(1) << uint(t.h))
		if u.x == t.x {
			u.f = t.f - 1
			if !u.valid() || (sid && !sidDom(u)) {
				u.f = t.f + 1
			}
		}
		rel = "apart"
	}
	enc := extStrs
	if sid {
		enc = sidStrs
	}
	one := func(e eid) w.Val {
		if sid {
			return w.S(e.sid())
		}
		return w.S(e.str())
	}
	if !array {
		a, b := pickN(t, 1)[0], pickN(u, 1)[0]
		name := "CheckExtendedSpatialIdsOverlap"
		if sid {
			name = "CheckSpatialIdsOverlap"
		}
		return emit(r, name, []w.Val{one(a), one(b)}, [][]w.Val{{one(b), one(a)}, {one(a), one(a)}, {one(pickN(u, 1)[0]), one(b)}}, g.R.Int63(), []string{rel}, false)
	}
	l1, l2 := pickN(t, 1+g.Intn(5)), pickN(u, 1+g.Intn(5))
	name := "CheckExtendedSpatialIdsArrayOverlap"
	if sid {
		name = "CheckSpatialIdsArrayOverlap"
	}
	decoys := [][]w.Val{{enc(l2), enc(l1)}, {enc(l1), enc(l1[:1])}, {enc(pickN(u, 2)), enc(l2)}}
	return emit(r, name, []w.Val{enc(l1), enc(l2)}, decoys, g.R.Int63(), []string{rel, lenTag(len(l1) + len(l2))}, false)
}

// ---------------------------------------------------------------------------------------------- key conversions

func heights(g *Gen) (float64, float64, string) {
	switch g.Intn(10) {
	case 0, 1:
		return 1024, -1024, "bit-form"
	case 2:
		return 500.5, -3.25, "bit-form"
	case 3:
		return 100, 100, "index-form"
	}
	return 0, 0, "index-form"
}

func genE2Q(r *run.Runner, g *Gen, sid bool) bool {
	mx, mn, form := heights(g)
	var t eid
	if form == "bit-form" {
		t = baseVoxel(g, 2, 28, 16, 26, sid)
		if sid {
			t = baseVoxel(g, 16, 26, 16, 26, true)
		}
		if mx > 0 && mn < 0 { // inside the height range, mostly
			wd := int64(mx / cellAlt(t.v))
			if wd > 0 && g.Chance(0.8) {
				t.f = g.Int63n(2*wd) - wd
			}
		}
	} else {
		t = baseVoxel(g, 1, 30, 1, 33, sid)
	}
	n := 1 + g.Intn(5)
	es := cluster(g, t, n, 1, 1, sid)
	oh := min64(31, max64(1, t.h+g.Int63n(4)-1))
	ov := clampZ(t.v + g.Int63n(4) - 1)
	if form == "bit-form" {
		ov = g.Int63n(9)
	}
	ids := extStrs(es)
	name := "ConvertExtendedSpatialIDsToQuadkeysAndVerticalIDs"
	if sid {
		ids = sidStrs(es)
		name = "ConvertSpatialIDsToQuadkeysAndVerticalIDs"
	}
	for keyCost(w.AsStrs(ids), sid, oh, ov, mx > mn) > genLimit && oh > 1 {
		oh--
		if mx <= mn && ov > 0 {
			ov--
		}
	}
	mk := func(ids w.Val, oh, ov int64) []w.Val { return []w.Val{ids, w.I(oh), w.I(ov), w.F(mx), w.F(mn)} }
	other := cluster(g, near(g, t), 1+g.Intn(2), 0, 1, sid)
	oids := extStrs(other)
	if sid {
		oids = sidStrs(other)
	}
	decoys := [][]w.Val{mk(oids, oh, ov), mk(ids, max64(1, oh-1), ov)}
	return emit(r, name, mk(ids, oh, ov), decoys, g.R.Int63(), []string{form, lenTag(n)}, false)
}

func genE2QA(r *run.Runner, g *Gen) bool {
	t := baseVoxel(g, 1, 30, 20, 27, false)
	t.f = g.Int63n(2000) - 1000
	if !t.valid() {
		t.f = 0
	}
	n := 1 + g.Intn(5)
	es := cluster(g, t, n, 1, 1, false)
	oq := min64(31, max64(1, t.h+g.Int63n(3)-1))
	E := int64(25)
	if g.Chance(0.3) {
		E = g.Pick(24, 26, 23)
	}
	O := g.Pick(0, 0, 8, -2, 7, 1024)
	oa := clampZ(t.v + g.Int63n(3) - 1)
	ids := extStrs(es)
	mk := func(ids w.Val, oq, oa int64) []w.Val { return []w.Val{ids, w.I(oq), w.I(oa), w.I(E), w.I(O)} }
	other := cluster(g, near(g, t), 1+g.Intn(2), 0, 1, false)
	decoys := [][]w.Val{mk(extStrs(other), oq, oa), mk(ids, oq, clampZ(oa-1))}
	return emit(r, "ConvertExtendedSpatialIDsToQuadkeysAndAltitudekeys", mk(ids, oq, oa), decoys, g.R.Int63(), []string{Tag("E=%d", E), Tag("O=%d", O), lenTag(n)}, false)
}

func encodeQuadkey(h, x, y int64) int64 {
	return transform.VerifConvertHorizontalIDToQuadkey(Tag("%d/%d/%d", h, x, y))
}

func genQ2E(r *run.Runner, g *Gen, sid bool) bool {
	mx, mn, form := heights(g)
	t := baseVoxel(g, 1, 31, 1, 33, false)
	if form == "bit-form" {
		t.v = 4 + g.Int63n(6)
		t.f = g.VIndex(t.v)
	}
	n := 1 + g.Intn(5)
	es := cluster(g, t, n, 1, 1, false)
	items := w.List{}
	for _, e := range es {
		if e.h < 1 || e.h > 31 {
			e = t
		}
		vi := e.f
		if form == "bit-form" {
			e.v = t.v
			vi = g.Int63n(int64(1) << uint(e.v))
		}
		items = append(items, w.L(w.I(e.h), w.I(encodeQuadkey(e.h, e.x, e.y)), w.I(e.v), w.I(vi), w.F(mx), w.F(mn)))
	}
	if g.Chance(0.4) && len(items) > 0 { // the same quadkey and vertical index at another quadkey zoom / vertical zoom
		f := items[g.Intn(len(items))].(w.List)
		qz2, vz2 := w.AsInt(f[0]), w.AsInt(f[2])
		if g.Chance(0.6) || form == "bit-form" {
			qz2++
		} else {
			vz2++
		}
		if qz2 <= 31 && vz2 <= 35 {
			items = append(items, w.L(w.I(qz2), f[1], w.I(vz2), f[3], f[4], f[5]))
			g.R.Shuffle(len(items), func(i, j int) { items[i], items[j] = items[j], items[i] })
			form += ",same-indices-other-zoom"
		}
	}
	oh := clampZ(t.h + g.Int63n(4) - 1)
	ov := clampZ(t.v + g.Int63n(4) - 1)
	if strings.HasPrefix(form, "bit-form") {
		ov = 14 + g.Int63n(8)
	}
	if sid {
		ov = oh
		if strings.HasPrefix(form, "bit-form") {
			oh = min64(oh, 22)
			ov = oh
		}
	}
	for itemsCost(items, oh, ov) > genLimit && oh > 0 {
		oh--
		if sid {
			ov = oh
		} else if ov > 0 {
			ov--
		}
	}
	if sid {
		decoys := [][]w.Val{{items[:1], w.I(oh)}, {items, w.I(clampZ(oh - 1))}}
		return emit(r, "ConvertQuadkeysAndVerticalIDsToSpatialIDs", []w.Val{items, w.I(oh)}, decoys, g.R.Int63(), []string{form, lenTag(n)}, false)
	}
	decoys := [][]w.Val{{items[:1], w.I(oh), w.I(ov)}, {items, w.I(clampZ(oh - 1)), w.I(ov)}}
	return emit(r, "ConvertQuadkeysAndVerticalIDsToExtendedSpatialIDs", []w.Val{items, w.I(oh), w.I(ov)}, decoys, g.R.Int63(), []string{form, lenTag(n)}, false)
}

// ---------------------------------------------------------------------------------------------- tiles

func genTiles(r *run.Runner, g *Gen, spatial bool) bool {
	hz := g.Int63n(31)
	vz := 18 + g.Int63n(10)
	E := int64(25)
	O := g.Pick(0, 0, 8, -2, 7)
	x, y := g.HIndex(hz), g.HIndex(hz)
	z0 := g.Int63n(200)
	n := 1 + g.Intn(5)
	tiles := w.List{}
	for i := 0; i < n; i++ {
		tx, ty, tz, tvz := x, y, z0+g.Int63n(3), vz
		switch g.Intn(5) {
		case 0:
			tx = (x + 1) % (int64(1) << uint(hz))
		case 1:
			tvz = vz + g.Int63n(2) // the same altitude range at another key zoom: the results overlap
			tz = tz << uint(tvz-vz)
		}
		tiles = append(tiles, w.L(w.I(hz), w.I(tx), w.I(ty), w.I(tvz), w.I(tz)))
	}
	tags := []string{}
	if g.Chance(0.45) { // the same x, y, vZoom, z at ANOTHER horizontal zoom: different voxels whose index triples coincide
		for k := 1 + g.Intn(2); k > 0; k-- {
			f := w.AsInts(tiles[g.Intn(len(tiles))])
			h2 := f[0] + g.Pick(1, -1, 2)
			if h2 < 0 || h2 > 35 {
				h2 = f[0] + 1
			}
			if h2 >= 0 && h2 <= 35 {
				tiles = append(tiles, w.L(w.I(h2), w.I(f[1]), w.I(f[2]), w.I(f[3]), w.I(f[4])))
			}
		}
		g.R.Shuffle(len(tiles), func(i, j int) { tiles[i], tiles[j] = tiles[j], tiles[i] })
		tags = append(tags, "same-indices-other-zoom")
	}
	if g.Chance(0.4) {
		tiles = append(tiles, tiles[g.Intn(len(tiles))])
	}
	ov := clampZ(vz + g.Int63n(4) - 2)
	if spatial && g.Chance(0.7) {
		ov = clampZ(hz + g.Int63n(5) - 2)
	}
	name := "ConvertTileXYZsToExtendedSpatialIDs"
	if spatial {
		name = "ConvertTileXYZsToSpatialIDs"
	}
	for tilesCost(tiles, E, O, ov, spatial) > genLimit && ov > 0 {
		ov--
	}
	decoys := [][]w.Val{{tiles[:1], w.I(E), w.I(O), w.I(ov)}, {tiles, w.I(E), w.I(O + 1), w.I(ov)}, {tiles, w.I(E), w.I(O), w.I(clampZ(ov - 1))}}
	return emit(r, name, []w.Val{tiles, w.I(E), w.I(O), w.I(ov)}, decoys, g.R.Int63(), append(tags, Tag("O=%d", O), lenTag(len(tiles))), false)
}

func genExpand(r *run.Runner, g *Gen) bool {
	t := baseVoxel(g, 0, 35, 0, 35, false)
	d := g.Int63n(5)
	if g.Chance(0.5) {
		t.v = clampZ(t.h + d)
	} else {
		t.v = clampZ(t.h - d)
	}
	t.f = g.VIndex(t.v)
	u := baseVoxel(g, 3, 30, 3, 30, false)
	u.v = clampZ(u.h + g.Int63n(5) - 2)
	u.f = g.VIndex(u.v)
	return emit(r, "ConvertExtendedSpatialIDToSpatialIDs", []w.Val{w.S(t.str())}, [][]w.Val{{w.S(u.str())}}, g.R.Int63(), []string{Tag("dz=%d", t.h-t.v)}, t.h == t.v)
}

// ---------------------------------------------------------------------------------------------- set helpers

func genHelpers(r *run.Runner, g *Gen) bool {
	pool := make([]string, 3+g.Intn(8))
	for i := range pool {
		if g.Chance(0.5) {
			pool[i], _, _ = g.ValidEID()
		} else {
			pool[i] = []string{"", "a", "b", "A", " a", "a ", "0", "00", "é", "\x00", "1/2", "x/y/z"}[g.Intn(12)]
		}
	}
	lst := func() w.Val {
		n := g.Intn(9)
		l := make([]string, n)
		for i := range l {
			l[i] = pool[g.Intn(len(pool))]
		}
		return strList(l)
	}
	l1, l2 := lst(), lst()
	switch g.Intn(4) {
	case 0:
		return emit(r, "Unique", []w.Val{l1}, [][]w.Val{{l2}}, g.R.Int63(), nil, false)
	case 1:
		return emit(r, "Union", []w.Val{l1, l2}, [][]w.Val{{l2, l1}, {l1, l1}}, g.R.Int63(), nil, false)
	case 2:
		return emit(r, "Difference", []w.Val{l1, l2}, [][]w.Val{{l2, l1}, {l1, l1}}, g.R.Int63(), nil, false)
	default:
		return emit(r, "Intersect", []w.Val{l1, l2}, [][]w.Val{{l2, l1}, {l1, l1}}, g.R.Int63(), nil, false)
	}
}

// ---------------------------------------------------------------------------------------------- distribution

func genOne(r *run.Runner, g *Gen, i int) bool {
	switch i % 26 {
	case 0, 1, 2:
		return genChange(r, g, false)
	case 3:
		return genChange(r, g, true)
	case 4, 5, 6:
		return genMerge(r, g, false)
	case 7:
		return genMerge(r, g, true)
	case 8:
		return genLine(r, g, false)
	case 9:
		return genLine(r, g, true)
	case 10:
		return genCorridor(r, g)
	case 11:
		if g.Chance(0.7) {
			return genCorridorTie(r, g)
		}
		return genCorridor(r, g)
	case 12:
		return genFixedNb(r, g)
	case 13, 14:
		return genN(r, g)
	case 15:
		return genOverlap(r, g, false, g.Chance(0.75))
	case 16:
		return genOverlap(r, g, true, g.Chance(0.75))
	case 17:
		return genE2Q(r, g, false)
	case 18:
		return genE2Q(r, g, true)
	case 19:
		return genE2QA(r, g)
	case 20:
		return genQ2E(r, g, false)
	case 21:
		return genQ2E(r, g, true)
	case 22:
		return genTiles(r, g, false)
	case 23:
		return genTiles(r, g, true)
	case 24:
		if g.Chance(0.65) {
			return genAxisHelper(r, g)
		}
		return genExpand(r, g)
	default:
		if g.Chance(0.35) {
			return genEmpty(r, g)
		}
		return genHelpers(r, g)
	}
}

// genEmpty: an empty or a nil list for a list argument of a list-taking operation (the other arguments valid)
func genEmpty(r *run.Runner, g *Gen) bool {
	empty := func() w.Val {
		if g.Chance(0.5) {
			return w.Nil{}
		}
		return w.List{}
	}
	t := baseVoxel(g, 1, 30, 1, 30, false)
	ts := sidVoxel(g)
	z := g.Int63n(36)
	tag := []string{"empty-or-nil-list"}
	switch g.Intn(16) {
	case 0:
		return emit(r, "ChangeExtendedSpatialIdsZoom", []w.Val{empty(), w.I(z), w.I(g.Int63n(36))}, nil, 1, tag, true)
	case 1:
		return emit(r, "ChangeSpatialIdsZoom", []w.Val{empty(), w.I(z)}, nil, 1, tag, true)
	case 2:
		return emit(r, "MergeExtendedSpatialIds", []w.Val{empty(), w.I(z), w.I(g.Int63n(36))}, nil, 1, tag, true)
	case 3:
		return emit(r, "MergeSpatialIds", []w.Val{empty(), w.I(z)}, nil, 1, tag, true)
	case 4:
		return emit(r, "GetNspatialIdsAroundVoxcels", []w.Val{empty(), w.I(g.Int63n(3)), w.I(g.Int63n(3))}, nil, 1, tag, true)
	case 5:
		other := extStrs(cluster(g, t, 1+g.Intn(3), 1, 1, false))
		if g.Chance(0.5) {
			return emit(r, "CheckExtendedSpatialIdsArrayOverlap", []w.Val{empty(), other}, [][]w.Val{{other, other}}, g.R.Int63(), tag, false)
		}
		return emit(r, "CheckExtendedSpatialIdsArrayOverlap", []w.Val{other, empty()}, [][]w.Val{{other, other}}, g.R.Int63(), tag, false)
	case 6:
		other := sidStrs([]eid{ts, ts})
		if g.Chance(0.5) {
			return emit(r, "CheckSpatialIdsArrayOverlap", []w.Val{empty(), other}, [][]w.Val{{other, other}}, g.R.Int63(), tag, false)
		}
		return emit(r, "CheckSpatialIdsArrayOverlap", []w.Val{other, empty()}, [][]w.Val{{other, other}}, g.R.Int63(), tag, false)
	case 7:
		return emit(r, "ConvertExtendedSpatialIDsToQuadkeysAndVerticalIDs", []w.Val{empty(), w.I(1 + g.Int63n(31)), w.I(z), w.F(0), w.F(0)}, nil, 1, tag, true)
	case 8:
		return emit(r, "ConvertSpatialIDsToQuadkeysAndVerticalIDs", []w.Val{empty(), w.I(1 + g.Int63n(31)), w.I(z), w.F(0), w.F(0)}, nil, 1, tag, true)
	case 9:
		return emit(r, "ConvertExtendedSpatialIDsToQuadkeysAndAltitudekeys", []w.Val{empty(), w.I(1 + g.Int63n(31)), w.I(z), w.I(25), w.I(0)}, nil, 1, tag, true)
	case 10:
		return emit(r, "ConvertQuadkeysAndVerticalIDsToExtendedSpatialIDs", []w.Val{empty(), w.I(z), w.I(g.Int63n(36))}, nil, 1, tag, true)
	case 11:
		return emit(r, "ConvertQuadkeysAndVerticalIDsToSpatialIDs", []w.Val{empty(), w.I(z)}, nil, 1, tag, true)
	case 12:
		return emit(r, "ConvertTileXYZsToExtendedSpatialIDs", []w.Val{empty(), w.I(25), w.I(0), w.I(z)}, nil, 1, tag, true)
	case 13:
		return emit(r, "ConvertTileXYZsToSpatialIDs", []w.Val{empty(), w.I(25), w.I(0), w.I(z)}, nil, 1, tag, true)
	case 14:
		l := strList([]string{"b", "a", "b"})
		name := []string{"Union", "Difference", "Intersect"}[g.Intn(3)]
		if g.Chance(0.5) {
			return emit(r, name, []w.Val{empty(), l}, [][]w.Val{{l, l}}, g.R.Int63(), tag, false)
		}
		return emit(r, name, []w.Val{l, empty()}, [][]w.Val{{l, l}}, g.R.Int63(), tag, false)
	default:
		return emit(r, "Unique", []w.Val{empty()}, nil, 1, tag, true)
	}
}

// fixedCases: inputs on which an order- or history-dependent implementation is known to differ
func fixedCases(r *run.Runner) {
	// merge: the seven zoom-1 children of 0/0/0/0/0 plus the eight zoom-2 children of 1/1/1/1/1 fill the target exactly
	for _, f := range []int64{0, -1} {
		t := eid{0, 0, 0, 0, f}
		ch := allDesc(t, 1, 1)
		fine := allDesc(ch[7], 1, 1)
		coarseFirst := append(append([]eid{}, ch[:7]...), fine...)
		fineFirst := append(append([]eid{}, fine...), ch[:7]...)
		for _, es := range [][]eid{coarseFirst, fineFirst} {
			emit(r, "MergeExtendedSpatialIds", []w.Val{extStrs(es), w.I(0), w.I(0)}, [][]w.Val{{extStrs(ch), w.I(0), w.I(0)}}, 7, []string{"fixed"}, false)
			emit(r, "MergeSpatialIds", []w.Val{sidStrs(es), w.I(0)}, [][]w.Val{{sidStrs(ch), w.I(0)}}, 7, []string{"fixed"}, false)
		}
		// one coarse member and seven fine ones that do not fill anything: nothing may be merged, in either order
		one := append([]eid{ch[0]}, allDesc(ch[1], 1, 1)[:7]...)
		rev := append(append([]eid{}, one[1:]...), one[0])
		for _, es := range [][]eid{one, rev} {
			emit(r, "MergeExtendedSpatialIds", []w.Val{extStrs(es), w.I(0), w.I(0)}, nil, 11, []string{"fixed"}, false)
		}
	}
	// tiles of different horizontal zooms whose x, y and converted z coincide: different voxels, all of them are returned in any order
	tl := w.List{w.L(w.I(22), w.I(85263), w.I(65423), w.I(23), w.I(4)), w.L(w.I(23), w.I(85263), w.I(65423), w.I(23), w.I(4)), w.L(w.I(23), w.I(85264), w.I(65423), w.I(23), w.I(4))}
	emit(r, "ConvertTileXYZsToExtendedSpatialIDs", []w.Val{tl, w.I(25), w.I(0), w.I(23)}, [][]w.Val{{tl[:1], w.I(25), w.I(0), w.I(23)}}, 13, []string{"fixed", "same-indices-other-zoom"}, false)
	emit(r, "ConvertTileXYZsToSpatialIDs", []w.Val{tl, w.I(25), w.I(0), w.I(23)}, [][]w.Val{{tl[:1], w.I(25), w.I(0), w.I(23)}}, 13, []string{"fixed", "same-indices-other-zoom"}, false)
	// HorizontalZoom: the same x, y and zoom difference at another input zoom between two repeats
	emit(r, "HorizontalZoom", []w.Val{w.I(5), w.I(3), w.I(3), w.I(7)}, [][]w.Val{{w.I(5), w.I(3), w.I(3), w.I(6)}, {w.I(6), w.I(3), w.I(3), w.I(8)}}, 3, []string{"fixed"}, false)
	emit(r, "VerticalZoom", []w.Val{w.I(5), w.I(-3), w.I(7)}, [][]w.Val{{w.I(5), w.I(-3), w.I(6)}, {w.I(6), w.I(-3), w.I(8)}}, 3, []string{"fixed"}, false)
	// zoom change: refine-only with nested and repeated inputs
	emit(r, "ChangeExtendedSpatialIdsZoom", []w.Val{strList([]string{"3/1/1/3/-1", "4/2/2/4/-2", "3/1/1/3/-1", "2/0/0/2/-1"}), w.I(5), w.I(5)},
		[][]w.Val{{strList([]string{"3/1/1/3/-1"}), w.I(2), w.I(2)}}, 3, []string{"fixed", "refine-only"}, false)
	emit(r, "ChangeSpatialIdsZoom", []w.Val{strList([]string{"3/-1/1/1", "4/-2/2/2", "3/-1/1/1"}), w.I(5)},
		[][]w.Val{{strList([]string{"3/-1/1/1"}), w.I(2)}}, 3, []string{"fixed", "refine-only"}, false)
	// corridor: radius 50 m at zoom 20 needs 3 layers at 60 N and 2 at 1 N
	mk := func(lat, rad float64) []w.Val {
		p1, _ := pt(139.7, lat, 100)
		p2, _ := pt(139.7+0.5*cellLon(20), lat, 100)
		return []w.Val{p1, p2, w.F(rad), w.I(20), w.I(20), w.B(true)}
	}
	// corridor, measured mode, radius on a measured-distance tie (the reviewer's witness of the defect repaired by 915e48e: the candidates
	// were measured in map order with one closest.Measure that carries its search direction from candidate to candidate)
	q1, _ := pt(140.61889215925277, 26.9452152214, 100)
	q2, _ := pt(140.61862579665475, 26.9456391174, 100)
	for _, rad := range []float64{48.882069811573146, 2.1929268549056547e-05} {
		emit(r, "GetExtendedSpatialIdsWithinRadiusOfLine", []w.Val{q1, q2, w.F(rad), w.I(20), w.I(20), w.B(false)},
			[][]w.Val{{q1, q2, w.F(rad * 0.5), w.I(20), w.I(20), w.B(false)}, {q1, q2, w.F(rad), w.I(20), w.I(20), w.B(true)}}, 9, []string{"fixed", "r=measured-distance-tie"}, false)
	}
	emit(r, "GetExtendedSpatialIdsWithinRadiusOfLine", mk(60, 50), [][]w.Val{mk(1, 20), mk(1, 50)}, 5, []string{"fixed", "lat-change"}, false)
	emit(r, "GetExtendedSpatialIdsWithinRadiusOfLine", mk(1, 50), [][]w.Val{mk(60, 20), mk(60, 50)}, 5, []string{"fixed", "lat-change"}, false)
}
