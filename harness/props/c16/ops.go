package c16

import (
	"fmt"
	"math"
	"strconv"
	"strings"

	"github.com/trajectoryjp/spatial_id_go/v4/common"
	"github.com/trajectoryjp/spatial_id_go/v4/common/object"
	"github.com/trajectoryjp/spatial_id_go/v4/detector"
	"github.com/trajectoryjp/spatial_id_go/v4/integrate"
	"github.com/trajectoryjp/spatial_id_go/v4/operated"
	"github.com/trajectoryjp/spatial_id_go/v4/shape"
	"github.com/trajectoryjp/spatial_id_go/v4/transform"

	. "verif/harness/gen"
	w "verif/harness/wire"
)

// ---------------------------------------------------------------------------------------------- size guards
// The generators bound the size of every call; the shared shrinker does not. A call beyond the bound is not made.

func fields(s string, n int) ([]int64, bool) {
	fs := strings.Split(s, "/")
	if len(fs) != n {
		return nil, false
	}
	r := make([]int64, n)
	for i, f := range fs {
		x, err := strconv.ParseInt(f, 10, 64)
		if err != nil {
			return nil, false
		}
		r[i] = x
	}
	return r, true
}

func pow(b float64, e int64) float64 {
	if e <= 0 {
		return 1
	}
	if e > 40 {
		return math.Inf(1)
	}
	return math.Pow(b, float64(e))
}

// number of IDs a zoom change of these IDs produces before de-duplication (malformed IDs: the call fails early, cost 0)
func changeCost(ids []string, sid bool, H, V int64) float64 {
	t := 0.0
	for _, s := range ids {
		if sid {
			if n, ok := fields(s, 4); ok {
				t += pow(4, H-n[0]) * pow(2, V-n[0])
			}
		} else if n, ok := fields(s, 5); ok {
			t += pow(4, H-n[0]) * pow(2, V-n[3])
		}
	}
	return t
}

func smallFields(ids []string, n int) bool {
	for _, s := range ids {
		if f, ok := fields(s, n); ok {
			for _, x := range f {
				if x > 1<<40 || x < -(1<<40) {
					return false
				}
			}
		}
	}
	return true
}

const costLimit = 3000

func big(v, b int64) bool { return v >= b || v <= -b }

// mergeWithinBound mirrors c04.withinBound / Merge.within_bound (the function's documented memory bound)
func mergeWithinBound(ids []string, H, V int64) bool {
	if !(0 <= H && H <= 35 && 0 <= V && V <= 35) {
		return true
	}
	es := make([]*object.ExtendedSpatialID, 0, len(ids))
	for _, s := range ids {
		e, err := object.NewExtendedSpatialID(s)
		if err != nil {
			return true
		}
		es = append(es, e)
	}
	var MH, MV int64
	for _, e := range es {
		if big(e.X(), 1<<40) || big(e.Y(), 1<<40) || big(e.Z(), 1<<40) || big(e.HZoom(), 64) || big(e.VZoom(), 64) {
			return false
		}
		if e.HZoom() > MH {
			MH = e.HZoom()
		}
		if e.VZoom() > MV {
			MV = e.VZoom()
		}
	}
	if 2*max64(0, MH-H)+max64(0, MV-V) > 12 {
		return false
	}
	var work int64
	for _, e := range es {
		if e.HZoom() >= H && e.VZoom() >= V {
			work += (int64(1) << uint(2*(MH-e.HZoom()))) * (int64(1) << uint(MV-e.VZoom()))
		}
	}
	return work <= 2000
}

func max64(a, b int64) int64 {
	if a > b {
		return a
	}
	return b
}
func min64(a, b int64) int64 {
	if a < b {
		return a
	}
	return b
}

// ---------------------------------------------------------------------------------------------- points / lines

func cellLon(h int64) float64 { return 360 / math.Pow(2, float64(h)) }
func cellAlt(v int64) float64 { return math.Pow(2, 25-float64(v)) }
func rowOf(lat float64, h int64) float64 {
	r := lat * math.Pi / 180
	return math.Floor(math.Pow(2, float64(h)) * (1 - math.Log(math.Tan(r)+1/math.Cos(r))/math.Pi) / 2)
}

const earthA = 6378137.0

func cellWidthM(h int64, lat float64) float64 {
	return 2 * math.Pi * earthA * math.Cos(lat*math.Pi/180) / math.Pow(2, float64(h))
}

func pointIn(v w.Val) (*object.Point, [3]float64, func() bool, bool) {
	l, ok := v.(w.List)
	if !ok || len(l) != 3 {
		return nil, [3]float64{}, nil, false
	}
	c := [3]float64{w.AsFlt(l[0]), w.AsFlt(l[1]), w.AsFlt(l[2])}
	for _, f := range c {
		if math.IsNaN(f) || math.IsInf(f, 0) {
			return nil, c, nil, false
		}
	}
	if math.Abs(c[0]) > 180 || math.Abs(c[1]) > LatMax || math.Abs(c[2]) > 4e7 {
		return nil, c, nil, false
	}
	p := RawPoint(c[0], c[1], c[2])
	same := func() bool {
		return math.Float64bits(p.Lon()) == math.Float64bits(c[0]) && math.Float64bits(p.Lat()) == math.Float64bits(c[1]) &&
			math.Float64bits(p.Alt()) == math.Float64bits(c[2])
	}
	return p, c, same, true
}

// lineSpan: number of cells between the end points on each axis; ok = short enough to voxelise quickly
func lineShort(a, b [3]float64, h, v int64, limit float64) bool {
	if h < 0 || h > 35 || v < 0 || v > 35 {
		return true // error path, returns at once
	}
	dx := math.Abs(b[0]-a[0]) / cellLon(h)
	dy := math.Abs(rowOf(b[1], h) - rowOf(a[1], h))
	df := math.Abs(b[2]-a[2]) / cellAlt(v)
	return dx <= limit && dy <= limit && df <= limit
}

// ---------------------------------------------------------------------------------------------- object lists

func tileIn(v w.Val) ([]*object.TileXYZ, func() bool, bool) {
	if _, isNil := v.(w.Nil); isNil {
		var in []*object.TileXYZ
		return in, func() bool { return in == nil }, true
	}
	l, ok := asListVal(v)
	if !ok {
		return nil, nil, false
	}
	n := len(l)
	full := make([]*object.TileXYZ, n+2)
	snapP := make([]*object.TileXYZ, n)
	snapF := make([][5]int64, n)
	for i, it := range l {
		f := w.AsInts(it)
		if len(f) != 5 {
			return nil, nil, false
		}
		t, err := object.NewTileXYZ(f[0], f[1], f[2], f[3], f[4])
		if err != nil {
			return nil, nil, false
		}
		full[i], snapP[i], snapF[i] = t, t, [5]int64{f[0], f[1], f[2], f[3], f[4]}
	}
	in := full[:n]
	return in, func() bool {
		if len(in) != n || full[n] != nil || full[n+1] != nil {
			return false
		}
		for i := range snapP {
			t := full[i]
			if t != snapP[i] || t == nil {
				return false
			}
			if [5]int64{t.HZoom(), t.X(), t.Y(), t.VZoom(), t.Z()} != snapF[i] {
				return false
			}
		}
		return true
	}, true
}

type itemF struct {
	qz, qk, vz, vi int64
	mx, mn         uint64
}

func itemsIn(v w.Val) ([]*object.QuadkeyAndVerticalID, func() bool, bool) {
	if _, isNil := v.(w.Nil); isNil {
		var in []*object.QuadkeyAndVerticalID
		return in, func() bool { return in == nil }, true
	}
	l, ok := asListVal(v)
	if !ok {
		return nil, nil, false
	}
	n := len(l)
	full := make([]*object.QuadkeyAndVerticalID, n+2)
	snapP := make([]*object.QuadkeyAndVerticalID, n)
	snapF := make([]itemF, n)
	for i, it := range l {
		f, ok := it.(w.List)
		if !ok || len(f) != 6 {
			return nil, nil, false
		}
		q := object.NewQuadkeyAndVerticalID(w.AsInt(f[0]), w.AsInt(f[1]), w.AsInt(f[2]), w.AsInt(f[3]), w.AsFlt(f[4]), w.AsFlt(f[5]))
		full[i], snapP[i] = q, q
		snapF[i] = itemF{w.AsInt(f[0]), w.AsInt(f[1]), w.AsInt(f[2]), w.AsInt(f[3]), math.Float64bits(w.AsFlt(f[4])), math.Float64bits(w.AsFlt(f[5]))}
	}
	in := full[:n]
	return in, func() bool {
		if len(in) != n || full[n] != nil || full[n+1] != nil {
			return false
		}
		for i := range snapP {
			q := full[i]
			if q != snapP[i] || q == nil {
				return false
			}
			if (itemF{q.QuadkeyZoom(), q.Quadkey(), q.VZoom(), q.VIndex(), math.Float64bits(q.MaxHeight()), math.Float64bits(q.MinHeight())}) != snapF[i] {
				return false
			}
		}
		return true
	}, true
}

func pairStrs(ps [][2]int64) w.Val {
	l := make(w.List, len(ps))
	for i, p := range ps {
		l[i] = w.S(fmt.Sprintf("%d,%d", p[0], p[1]))
	}
	return l
}

// A group is reported as [header; pairs]. header = "quadkeyZoom/verticalZoom/=" when the group carries the request's own parameters
// (heights resp. zBaseExponent/zBaseOffset) unchanged — the form the model produces —, otherwise the parameters are spelled out.
func groupsVal(gs []*object.FromExtendedSpatialIDToQuadkeyAndVerticalID, mx, mn float64) w.Val {
	l := make(w.List, 0, len(gs))
	for _, g := range gs {
		if g == nil {
			l = append(l, w.S("<nil group>"))
			continue
		}
		par := "="
		if math.Float64bits(g.MaxHeight()) != math.Float64bits(mx) || math.Float64bits(g.MinHeight()) != math.Float64bits(mn) {
			par = fmt.Sprintf("%016x/%016x", math.Float64bits(g.MaxHeight()), math.Float64bits(g.MinHeight()))
		}
		l = append(l, w.L(w.S(fmt.Sprintf("%d/%d/%s", g.QuadkeyZoom(), g.VerticalZoom(), par)), pairStrs(g.InnerIDList())))
	}
	return l
}
func groupsAltVal(gs []*object.FromExtendedSpatialIDToQuadkeyAndAltitudekey, E, O int64) w.Val {
	l := make(w.List, 0, len(gs))
	for _, g := range gs {
		if g == nil {
			l = append(l, w.S("<nil group>"))
			continue
		}
		par := "="
		if g.ZBaseExponent() != E || g.ZBaseOffset() != O {
			par = fmt.Sprintf("%d/%d", g.ZBaseExponent(), g.ZBaseOffset())
		}
		l = append(l, w.L(w.S(fmt.Sprintf("%d/%d/%s", g.QuadkeyZoom(), g.AltitudekeyZoom(), par)), pairStrs(g.InnerIDList())))
	}
	return l
}

// cost of the key conversions (as in c11): pairs produced per ID
func keyCost(ids []string, sid bool, oh, ov int64, bit bool) float64 {
	t := 0.0
	for _, s := range ids {
		var h, v int64
		if sid {
			n, ok := fields(s, 4)
			if !ok {
				continue
			}
			h, v = n[0], n[0]
		} else {
			n, ok := fields(s, 5)
			if !ok {
				continue
			}
			h, v = n[0], n[3]
		}
		if bit {
			// bit form: the voxel's height relative to the height range decides; generators keep v >= 14, ov <= 10
			if v < 14 || ov > 10 {
				return math.Inf(1)
			}
			t += pow(4, oh-h) * 8
		} else {
			t += pow(4, oh-h) * pow(2, ov-v)
		}
	}
	return t
}

func zoomOK(z int64) bool { return 0 <= z && z <= 35 }

// ---------------------------------------------------------------------------------------------- zoom keys of list entries

func zkeyExt(v w.Val) int64 {
	s, ok := v.(w.Str)
	if !ok {
		return 0
	}
	if n, ok := fields(string(s), 5); ok {
		return n[0] + n[3]
	}
	return 0
}
func zkeySid(v w.Val) int64 {
	s, ok := v.(w.Str)
	if !ok {
		return 0
	}
	if n, ok := fields(string(s), 4); ok {
		return n[0]
	}
	return 0
}
func zkeyFirst(v w.Val) int64 {
	l, ok := v.(w.List)
	if !ok || len(l) == 0 {
		return 0
	}
	if i, ok := l[0].(w.Int); ok && i.V.IsInt64() {
		return i.V.Int64()
	}
	return 0
}

// ---------------------------------------------------------------------------------------------- the operations

func strsResult(out []string, err error) w.Val { return w.WithErr(w.Strs(out), err) }

var ops = []*op{
	{name: "ChangeExtendedSpatialIdsZoom", lists: []int{0}, zkey: zkeyExt, build: func(a []w.Val) *inst {
		H, V := w.AsInt(a[1]), w.AsInt(a[2])
		if zoomOK(H) && zoomOK(V) && (changeCost(w.AsStrs(a[0]), false, H, V) > costLimit || !smallFields(w.AsStrs(a[0]), 5)) {
			return nil
		}
		ids, same := strsIn(a[0])
		return &inst{call: func() w.Val { return strsResult(integrate.ChangeExtendedSpatialIdsZoom(ids, H, V)) }, same: same}
	}},
	{name: "ChangeSpatialIdsZoom", lists: []int{0}, zkey: zkeySid, build: func(a []w.Val) *inst {
		z := w.AsInt(a[1])
		if zoomOK(z) && (changeCost(w.AsStrs(a[0]), true, z, z) > costLimit || !smallFields(w.AsStrs(a[0]), 4)) {
			return nil
		}
		ids, same := strsIn(a[0])
		return &inst{call: func() w.Val { return strsResult(integrate.ChangeSpatialIdsZoom(ids, z)) }, same: same}
	}},
	{name: "MergeExtendedSpatialIds", lists: []int{0}, zkey: zkeyExt, build: func(a []w.Val) *inst {
		H, V := w.AsInt(a[1]), w.AsInt(a[2])
		if !mergeWithinBound(w.AsStrs(a[0]), H, V) {
			return nil
		}
		ids, same := strsIn(a[0])
		return &inst{call: func() w.Val { return strsResult(integrate.MergeExtendedSpatialIds(ids, H, V)) }, same: same}
	}},
	{name: "MergeSpatialIds", lists: []int{0}, zkey: zkeySid, build: func(a []w.Val) *inst {
		z := w.AsInt(a[1])
		if e, err := shape.ConvertSpatialIdsToExtendedSpatialIds(w.AsStrs(a[0])); err == nil && !mergeWithinBound(e, z, z) {
			return nil
		}
		ids, same := strsIn(a[0])
		return &inst{call: func() w.Val { return strsResult(integrate.MergeSpatialIds(ids, z)) }, same: same}
	}},
	{name: "GetExtendedSpatialIdsOnLine", build: func(a []w.Val) *inst {
		p1, c1, s1, ok1 := pointIn(a[0])
		p2, c2, s2, ok2 := pointIn(a[1])
		h, v := w.AsInt(a[2]), w.AsInt(a[3])
		if !ok1 || !ok2 || !lineShort(c1, c2, h, v, 60) {
			return nil
		}
		return &inst{call: func() w.Val { return strsResult(shape.GetExtendedSpatialIdsOnLine(p1, p2, h, v)) }, same: all(s1, s2)}
	}},
	{name: "GetSpatialIdsOnLine", build: func(a []w.Val) *inst {
		p1, c1, s1, ok1 := pointIn(a[0])
		p2, c2, s2, ok2 := pointIn(a[1])
		z := w.AsInt(a[2])
		if !ok1 || !ok2 || !lineShort(c1, c2, z, z, 60) {
			return nil
		}
		return &inst{call: func() w.Val { return strsResult(shape.GetSpatialIdsOnLine(p1, p2, z)) }, same: all(s1, s2)}
	}},
	// [p1; p2; radius; hZoom; vZoom; skipsMeasurement]
	{name: "GetExtendedSpatialIdsWithinRadiusOfLine", build: func(a []w.Val) *inst {
		p1, c1, s1, ok1 := pointIn(a[0])
		p2, c2, s2, ok2 := pointIn(a[1])
		r, h, v, skip := w.AsFlt(a[2]), w.AsInt(a[3]), w.AsInt(a[4]), w.AsBool(a[5])
		if !ok1 || !ok2 || !lineShort(c1, c2, h, v, 12) || math.IsNaN(r) || math.IsInf(r, 0) {
			return nil
		}
		if r > 0 && zoomOK(h) && zoomOK(v) {
			// DESIGN 5.3 D16: the layer fit does not terminate when no shift reaches the clearance
			wmin := cellWidthM(h, math.Max(math.Abs(c1[1]), math.Abs(c2[1])))
			if h < 6 || r > 3.6*wmin {
				return nil
			}
		}
		return &inst{call: func() w.Val {
			return strsResult(transform.GetExtendedSpatialIdsWithinRadiusOfLine(p1, p2, r, h, v, skip))
		}, same: all(s1, s2)}
	}},
	{name: "Get6spatialIdsAdjacentToFaces", build: func(a []w.Val) *inst {
		id, same := strIn(a[0])
		return &inst{call: func() w.Val { return w.Strs(operated.Get6spatialIdsAdjacentToFaces(id)) }, same: same}
	}},
	{name: "Get8spatialIdsAroundHorizontal", build: func(a []w.Val) *inst {
		id, same := strIn(a[0])
		return &inst{call: func() w.Val { return w.Strs(operated.Get8spatialIdsAroundHorizontal(id)) }, same: same}
	}},
	{name: "Get26spatialIdsAroundVoxel", build: func(a []w.Val) *inst {
		id, same := strIn(a[0])
		return &inst{call: func() w.Val { return w.Strs(operated.Get26spatialIdsAroundVoxel(id)) }, same: same}
	}},
	{name: "GetNspatialIdsAroundVoxcels", lists: []int{0}, zkey: zkeyExt, build: func(a []w.Val) *inst {
		H, V := w.AsInt(a[1]), w.AsInt(a[2])
		if H > 4 || V > 4 || (H >= 0 && V >= 0 && float64(len(w.AsStrs(a[0])))*float64((2*H+1)*(2*H+1)*(2*V+1)) > costLimit) {
			return nil
		}
		ids, same := strsIn(a[0])
		return &inst{call: func() w.Val { return strsResult(operated.GetNspatialIdsAroundVoxcels(ids, H, V)) }, same: same}
	}},
	{name: "CheckExtendedSpatialIdsOverlap", build: func(a []w.Val) *inst {
		x, s1 := strIn(a[0])
		y, s2 := strIn(a[1])
		return &inst{call: func() w.Val { return boolRes(detector.CheckExtendedSpatialIdsOverlap(x, y)) }, same: all(s1, s2)}
	}},
	{name: "CheckExtendedSpatialIdsArrayOverlap", lists: []int{0, 1}, zkey: zkeyExt, build: func(a []w.Val) *inst {
		if len(w.AsStrs(a[0]))*len(w.AsStrs(a[1])) > 400 {
			return nil
		}
		l1, s1 := strsIn(a[0])
		l2, s2 := strsIn(a[1])
		return &inst{call: func() w.Val { return boolRes(detector.CheckExtendedSpatialIdsArrayOverlap(l1, l2)) }, same: all(s1, s2)}
	}},
	{name: "CheckSpatialIdsOverlap", build: func(a []w.Val) *inst {
		x, s1 := strIn(a[0])
		y, s2 := strIn(a[1])
		return &inst{call: func() w.Val { return boolRes(detector.CheckSpatialIdsOverlap(x, y)) }, same: all(s1, s2)}
	}},
	{name: "CheckSpatialIdsArrayOverlap", lists: []int{0, 1}, zkey: zkeySid, build: func(a []w.Val) *inst {
		if len(w.AsStrs(a[0]))+len(w.AsStrs(a[1])) > 200 {
			return nil
		}
		l1, s1 := strsIn(a[0])
		l2, s2 := strsIn(a[1])
		return &inst{call: func() w.Val { return boolRes(detector.CheckSpatialIdsArrayOverlap(l1, l2)) }, same: all(s1, s2)}
	}},
	// [ids; outputHZoom; outputVZoom; maxHeight; minHeight]
	{name: "ConvertExtendedSpatialIDsToQuadkeysAndVerticalIDs", lists: []int{0}, zkey: zkeyExt, build: func(a []w.Val) *inst {
		oh, ov, mx, mn := w.AsInt(a[1]), w.AsInt(a[2]), w.AsFlt(a[3]), w.AsFlt(a[4])
		if keyCost(w.AsStrs(a[0]), false, oh, ov, mx > mn) > costLimit || (mx > mn && mx-mn < 64) {
			return nil
		}
		ids, same := strsIn(a[0])
		return &inst{call: func() w.Val {
			gs, err := transform.ConvertExtendedSpatialIDsToQuadkeysAndVerticalIDs(ids, oh, ov, mx, mn)
			return w.WithErr(groupsVal(gs, mx, mn), err)
		}, same: same}
	}},
	{name: "ConvertSpatialIDsToQuadkeysAndVerticalIDs", lists: []int{0}, zkey: zkeySid, build: func(a []w.Val) *inst {
		oh, ov, mx, mn := w.AsInt(a[1]), w.AsInt(a[2]), w.AsFlt(a[3]), w.AsFlt(a[4])
		if keyCost(w.AsStrs(a[0]), true, oh, ov, mx > mn) > costLimit || (mx > mn && mx-mn < 64) {
			return nil
		}
		ids, same := strsIn(a[0])
		return &inst{call: func() w.Val {
			gs, err := transform.ConvertSpatialIDsToQuadkeysAndVerticalIDs(ids, oh, ov, mx, mn)
			return w.WithErr(groupsVal(gs, mx, mn), err)
		}, same: same}
	}},
	// [ids; outputQuadkeyZoom; outputAltitudekeyZoom; zBaseExponent; zBaseOffset]
	{name: "ConvertExtendedSpatialIDsToQuadkeysAndAltitudekeys", lists: []int{0}, zkey: zkeyExt, build: func(a []w.Val) *inst {
		oq, oa, E, O := w.AsInt(a[1]), w.AsInt(a[2]), w.AsInt(a[3]), w.AsInt(a[4])
		if big(oa, 64) || big(E, 64) || big(oq, 64) {
			return nil
		}
		t := 0.0
		for _, s := range w.AsStrs(a[0]) {
			n, ok := fields(s, 5)
			if !ok {
				continue
			}
			if big(n[3], 64) || big(n[0], 64) {
				return nil
			}
			lo, hi, err := transform.ConvertZToMinMaxAltitudekey(n[4], n[3], oa, E, O)
			if err != nil {
				continue
			}
			c := float64(hi) - float64(lo) + 1
			if c < 0 {
				c = 0
			}
			t += pow(4, oq-n[0]) * c
		}
		if t > costLimit {
			return nil
		}
		ids, same := strsIn(a[0])
		return &inst{call: func() w.Val {
			gs, err := transform.ConvertExtendedSpatialIDsToQuadkeysAndAltitudekeys(ids, oq, oa, E, O)
			return w.WithErr(groupsAltVal(gs, E, O), err)
		}, same: same}
	}},
	// [items; outputHZoom; outputVZoom], item = [quadkeyZoom; quadkey; vZoom; vIndex; maxHeight; minHeight]
	{name: "ConvertQuadkeysAndVerticalIDsToExtendedSpatialIDs", lists: []int{0}, zkey: zkeyFirst, build: func(a []w.Val) *inst {
		oh, ov := w.AsInt(a[1]), w.AsInt(a[2])
		if !itemsCheap(a[0], oh, ov) {
			return nil
		}
		items, same, ok := itemsIn(a[0])
		if !ok {
			return nil
		}
		return &inst{call: func() w.Val {
			return strsResult(transform.ConvertQuadkeysAndVerticalIDsToExtendedSpatialIDs(items, oh, ov))
		}, same: same}
	}},
	{name: "ConvertQuadkeysAndVerticalIDsToSpatialIDs", lists: []int{0}, zkey: zkeyFirst, build: func(a []w.Val) *inst {
		z := w.AsInt(a[1])
		if !itemsCheap(a[0], z, z) {
			return nil
		}
		items, same, ok := itemsIn(a[0])
		if !ok {
			return nil
		}
		return &inst{call: func() w.Val {
			return strsResult(transform.ConvertQuadkeysAndVerticalIDsToSpatialIDs(items, z))
		}, same: same}
	}},
	// [tiles; zBaseExponent; zBaseOffset; outputVZoom], tile = [hZoom; x; y; vZoom; z]
	{name: "ConvertTileXYZsToExtendedSpatialIDs", lists: []int{0}, zkey: zkeyFirst, build: func(a []w.Val) *inst {
		E, O, ov := w.AsInt(a[1]), w.AsInt(a[2]), w.AsInt(a[3])
		if !tilesCheap(a[0], E, O, ov, false) {
			return nil
		}
		tiles, same, ok := tileIn(a[0])
		if !ok {
			return nil
		}
		return &inst{call: func() w.Val {
			out, err := transform.ConvertTileXYZsToExtendedSpatialIDs(tiles, E, O, ov)
			var l w.Val = w.Nil{}
			if out != nil {
				ll := make(w.List, len(out))
				for i := range out {
					ll[i] = w.S(out[i].ID())
				}
				l = ll
			}
			return w.WithErr(l, err)
		}, same: same}
	}},
	{name: "ConvertTileXYZsToSpatialIDs", lists: []int{0}, zkey: zkeyFirst, build: func(a []w.Val) *inst {
		E, O, ov := w.AsInt(a[1]), w.AsInt(a[2]), w.AsInt(a[3])
		if !tilesCheap(a[0], E, O, ov, true) {
			return nil
		}
		tiles, same, ok := tileIn(a[0])
		if !ok {
			return nil
		}
		return &inst{call: func() w.Val { return strsResult(transform.ConvertTileXYZsToSpatialIDs(tiles, E, O, ov)) }, same: same}
	}},
	{name: "ConvertExtendedSpatialIDToSpatialIDs", build: func(a []w.Val) *inst {
		s := w.AsStr(a[0])
		n, ok := fields(s, 5)
		if !ok || big(n[0]-n[3], 7) || big(n[0], 64) || big(n[3], 64) {
			return nil
		}
		e, err := object.NewExtendedSpatialID(s)
		if err != nil {
			return nil
		}
		snap := e.ID()
		return &inst{call: func() w.Val { return w.Strs(transform.ConvertExtendedSpatialIDToSpatialIDs(e)) },
			same: func() bool {
				p := e.FieldParams()
				return e.ID() == snap && len(p) == 5 && p[0] == n[0] && p[1] == n[1] && p[2] == n[2] && p[3] == n[3] && p[4] == n[4]
			}}
	}},
	// the exported per-axis helpers of the zoom change: scalar arguments only (nothing to modify), one result list
	{name: "HorizontalZoom", build: func(a []w.Val) *inst {
		zin, x, y, zout := w.AsInt(a[0]), w.AsInt(a[1]), w.AsInt(a[2]), w.AsInt(a[3])
		if zout-zin > 5 || big(x, 1<<40+1) || big(y, 1<<40+1) || big(zin, 64) || big(zout, 64) {
			return nil
		}
		return &inst{call: func() w.Val { return w.Strs(integrate.HorizontalZoom(zin, x, y, zout)) }, same: func() bool { return true }}
	}},
	{name: "VerticalZoom", build: func(a []w.Val) *inst {
		zin, f, zout := w.AsInt(a[0]), w.AsInt(a[1]), w.AsInt(a[2])
		if zout-zin > 11 || big(f, 1<<40+1) || big(zin, 64) || big(zout, 64) {
			return nil
		}
		return &inst{call: func() w.Val { return w.Strs(integrate.VerticalZoom(zin, f, zout)) }, same: func() bool { return true }}
	}},
	{name: "Unique", lists: []int{0}, build: func(a []w.Val) *inst {
		l, same := strsIn(a[0])
		return &inst{call: func() w.Val { return w.Strs(common.Unique(l)) }, same: same}
	}},
	{name: "Union", lists: []int{0, 1}, build: func(a []w.Val) *inst {
		l1, s1 := strsIn(a[0])
		l2, s2 := strsIn(a[1])
		return &inst{call: func() w.Val { return w.Strs(common.Union(l1, l2)) }, same: all(s1, s2)}
	}},
	{name: "Difference", lists: []int{0, 1}, build: func(a []w.Val) *inst {
		l1, s1 := strsIn(a[0])
		l2, s2 := strsIn(a[1])
		return &inst{call: func() w.Val { return w.Strs(common.Difference(l1, l2)) }, same: all(s1, s2)}
	}},
	{name: "Intersect", lists: []int{0, 1}, build: func(a []w.Val) *inst {
		l1, s1 := strsIn(a[0])
		l2, s2 := strsIn(a[1])
		return &inst{call: func() w.Val { return w.Strs(common.Intersect(l1, l2)) }, same: all(s1, s2)}
	}},
}

func itemsCheap(v w.Val, oh, ov int64) bool { return itemsCost(v, oh, ov) <= costLimit }

func itemsCost(v w.Val, oh, ov int64) float64 {
	l, ok := asListVal(v)
	if !ok {
		return math.Inf(1)
	}
	t := 0.0
	for _, it := range l {
		f, ok := it.(w.List)
		if !ok || len(f) != 6 {
			return math.Inf(1)
		}
		qz, vz, mx, mn := w.AsInt(f[0]), w.AsInt(f[2]), w.AsFlt(f[4]), w.AsFlt(f[5])
		if big(qz, 64) || big(vz, 64) {
			return math.Inf(1)
		}
		if mx > mn {
			// bit form: a cell of (mx-mn)/2^vz metres is cut into voxels of 2^(25-ov) metres
			if vz < 0 || vz > 30 || !(mx-mn <= 1e6) {
				return math.Inf(1)
			}
			c := (mx-mn)/math.Pow(2, float64(vz))/cellAlt(min64(max64(ov, 0), 35)) + 2
			t += pow(4, oh-qz) * c
		} else {
			t += pow(4, oh-qz) * pow(2, ov-vz)
		}
	}
	return t
}

func tilesCheap(v w.Val, E, O, ov int64, expand bool) bool {
	return tilesCost(v, E, O, ov, expand) <= costLimit
}

func tilesCost(v w.Val, E, O, ov int64, expand bool) float64 {
	l, ok := asListVal(v)
	if !ok {
		return math.Inf(1)
	}
	if big(E, 64) || big(ov, 64) {
		return math.Inf(1)
	}
	t := 0.0
	for _, it := range l {
		f := w.AsInts(it)
		if len(f) != 5 || big(f[0], 64) || big(f[3], 64) {
			return math.Inf(1)
		}
		lo, hi, err := transform.ConvertAltitudekeyToMinMaxZ(f[4], f[3], ov, E, O)
		if err != nil {
			continue
		}
		c := float64(hi) - float64(lo) + 1
		if c < 0 {
			c = 0
		}
		if expand {
			d := f[0] - ov
			if d > 7 || d < -7 {
				return math.Inf(1)
			}
			if d < 0 {
				c *= pow(4, -d)
			} else {
				c *= pow(2, d)
			}
		}
		t += c
	}
	return t
}
