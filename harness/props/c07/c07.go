package c07

import (
	"github.com/trajectoryjp/spatial_id_go/v4/operated"

	. "verif/harness/gen"
	"verif/harness/run"
	w "verif/harness/wire"
)

func fnShift() *run.Fn {
	return &run.Fn{Name: "GetShiftingSpatialID", Invoke: func(a []w.Val) w.Val {
		return w.S(operated.GetShiftingSpatialID(w.AsStr(a[0]), w.AsInt(a[1]), w.AsInt(a[2]), w.AsInt(a[3])))
	}}
}

// shift laws observed on the implementation: [s1; s2 = shift(s1,b); s12 = shift(id,a+b); back = shift(s1,-a); zero = shift(id,0)]
func fnShiftLaws() *run.Fn {
	return &run.Fn{Name: "ShiftLaws", Invoke: func(a []w.Val) w.Val {
		id := w.AsStr(a[0])
		x1, y1, v1 := w.AsInt(a[1]), w.AsInt(a[2]), w.AsInt(a[3])
		x2, y2, v2 := w.AsInt(a[4]), w.AsInt(a[5]), w.AsInt(a[6])
		s1 := operated.GetShiftingSpatialID(id, x1, y1, v1)
		s2 := operated.GetShiftingSpatialID(s1, x2, y2, v2)
		s12 := operated.GetShiftingSpatialID(id, x1+x2, y1+y2, v1+v2)
		back := operated.GetShiftingSpatialID(s1, -x1, -y1, -v1)
		zero := operated.GetShiftingSpatialID(id, 0, 0, 0)
		return w.L(w.S(s1), w.S(s2), w.S(s12), w.S(back), w.S(zero))
	}}
}

func hShift(g *Gen, h int64) int64 {
	ww := int64(1) << uint(h)
	switch g.Intn(8) {
	case 0:
		return 0
	case 1:
		return g.Pick(1, -1, 2, -2)
	case 2:
		return g.Pick(ww, -ww, ww-1, -ww+1, ww+1, -ww-1)
	case 3:
		return g.Pick(4*ww, -4*ww, 2*ww, -2*ww, 3*ww-1)
	}
	return g.Int63n(8*ww+1) - 4*ww
}
func vShift(g *Gen) int64 {
	switch g.Intn(5) {
	case 0:
		return 0
	case 1:
		return g.Pick(1, -1)
	case 2:
		return g.Int63n(1<<40) - (1 << 39)
	}
	return g.Int63n(2001) - 1000
}

func init() {
	Scale["C07"] = 20000
	Registry["C07"] = func(r *run.Runner, g *Gen, n int) {
		r.Register(fnShift(), fnShiftLaws())
		for i := 0; i < n; i++ {
			id, h, _ := g.ValidEID()
			tags := []string{Tag("hzoom=%d", h)}
			triv := false
			if i%25 == 0 {
				id = g.Malformed()
				h = 1
				tags = []string{"malformed"}
			}
			dx, dy, dv := hShift(g, h), hShift(g, h), vShift(g)
			if dx == 0 && dy == 0 && dv == 0 {
				triv = true
			}
			if i%3 == 0 {
				r.Run(run.Case{Prop: "C07", Fn: "ShiftLaws", Tags: append(tags, "laws"), Trivial: triv,
					Args: []w.Val{w.S(id), w.I(dx), w.I(dy), w.I(dv), w.I(hShift(g, h)), w.I(hShift(g, h)), w.I(vShift(g))}})
			} else {
				r.Run(run.Case{Prop: "C07", Fn: "GetShiftingSpatialID", Tags: tags, Trivial: triv,
					Args: []w.Val{w.S(id), w.I(dx), w.I(dy), w.I(dv)}})
			}
		}
	}
}
