// Package c07: invokers and generators for property C07 (GetShiftingSpatialID is modular translation on the grid).
package c07

import (
	"math"
	"math/big"
	"strconv"
	"strings"
	"time"

	"github.com/trajectoryjp/spatial_id_go/v4/common/object"
	"github.com/trajectoryjp/spatial_id_go/v4/operated"

	. "verif/harness/gen"
	"verif/harness/run"
	w "verif/harness/wire"
)

const (
	fnPlain    = "GetShiftingSpatialID"
	fnLaws     = "ShiftLaws"
	fnPlainOwn = "GetShiftingSpatialIDAfterOwnMutation" // args of fnPlain + the caller's prelude
	fnLawsOwn  = "ShiftLawsAfterOwnMutation"            // args of fnLaws + the caller's prelude
)

// ownMutation: what a caller may do before asking for a shift — parse the same ID string itself and use ITS OWN object as a scratch
// value through the exported mutators.  prelude = list of operations [SetX n] [SetY n] [SetZ n] [SetZoom h v] [ResetExtendedSpatialID s],
// performed in order on the object the caller got from object.NewExtendedSpatialID(id).  Nothing of it may reach a later call that is
// given only the string (the model never sees the object).  An operation of another shape is skipped here; the dispatch entry
// answers bad-case for such a prelude (only shrinker candidates can have one).
func ownMutation(id string, prelude w.Val) {
	ops, ok := prelude.(w.List)
	if !ok {
		return
	}
	// every history case is self-contained: it starts with the caller's successful parse of an unrelated ID, so that a replay in a
	// fresh process (and every shrinker candidate) runs the same history whatever earlier cases left behind in the library
	if unrelated := "1/1/0/1/-2"; unrelated != id {
		_, _ = object.NewExtendedSpatialID(unrelated)
	} else {
		_, _ = object.NewExtendedSpatialID("2/3/1/2/3")
	}
	own, _ := object.NewExtendedSpatialID(id) // on a parse error the library still hands out an object; the caller may touch it all the same
	if own == nil {
		return
	}
	num := func(v w.Val) (int64, bool) {
		i, ok := v.(w.Int)
		if !ok || !i.V.IsInt64() {
			return 0, false
		}
		return i.V.Int64(), true
	}
	for _, o := range ops {
		op, ok := o.(w.List)
		if !ok || len(op) < 2 {
			continue
		}
		name, ok := op[0].(w.Str)
		if !ok {
			continue
		}
		switch {
		case len(op) == 2 && (name == "SetX" || name == "SetY" || name == "SetZ"):
			if n, ok := num(op[1]); ok {
				switch name {
				case "SetX":
					own.SetX(n)
				case "SetY":
					own.SetY(n)
				default:
					own.SetZ(n)
				}
			}
		case len(op) == 3 && name == "SetZoom":
			h, ok1 := num(op[1])
			v, ok2 := num(op[2])
			if ok1 && ok2 {
				own.SetZoom(h, v)
			}
		case len(op) == 2 && name == "ResetExtendedSpatialID":
			if s, ok := op[1].(w.Str); ok {
				_ = own.ResetExtendedSpatialID(string(s))
			}
		}
	}
}

func shiftOnce(a []w.Val) w.Val {
	return w.S(operated.GetShiftingSpatialID(w.AsStr(a[0]), w.AsInt(a[1]), w.AsInt(a[2]), w.AsInt(a[3])))
}

func fnShift() *run.Fn {
	return &run.Fn{Name: fnPlain, Timeout: 2 * time.Second, Invoke: shiftOnce}
}

// the caller parses the ID itself, mutates its own object (a[4] = prelude), then asks for the shift of the same string
func fnShiftOwn() *run.Fn {
	return &run.Fn{Name: fnPlainOwn, Timeout: 2 * time.Second, Invoke: func(a []w.Val) w.Val {
		ownMutation(w.AsStr(a[0]), a[4])
		return shiftOnce(a[:4])
	}}
}

// shift laws observed on the implementation: [s1; s2 = shift(s1,b); s12 = shift(id,a+b); back = shift(s1,-a); zero = shift(id,0)]
func fnShiftLaws() *run.Fn {
	return &run.Fn{Name: fnLaws, Timeout: 2 * time.Second, Invoke: func(a []w.Val) w.Val { return shiftLaws(a, func() {}) }}
}

// the same five calls; the caller's own parse-and-mutate (a[7] = prelude) precedes each of the three calls that are given the string id
func fnShiftLawsOwn() *run.Fn {
	return &run.Fn{Name: fnLawsOwn, Timeout: 2 * time.Second, Invoke: func(a []w.Val) w.Val {
		id := w.AsStr(a[0])
		return shiftLaws(a[:7], func() { ownMutation(id, a[7]) })
	}}
}

func shiftLaws(a []w.Val, before func()) w.Val {
	id := w.AsStr(a[0])
	x1, y1, v1 := w.AsInt(a[1]), w.AsInt(a[2]), w.AsInt(a[3])
	x2, y2, v2 := w.AsInt(a[4]), w.AsInt(a[5]), w.AsInt(a[6])
	before()
	s1 := operated.GetShiftingSpatialID(id, x1, y1, v1)
	s2 := operated.GetShiftingSpatialID(s1, x2, y2, v2)
	before()
	s12 := operated.GetShiftingSpatialID(id, x1+x2, y1+y2, v1+v2)
	back := operated.GetShiftingSpatialID(s1, -x1, -y1, -v1)
	before()
	zero := operated.GetShiftingSpatialID(id, 0, 0, 0)
	return w.L(w.S(s1), w.S(s2), w.S(s12), w.S(back), w.S(zero))
}

type vox struct{ h, x, y, v, f int64 }

func (p vox) id() string { return EID(p.h, p.x, p.y, p.v, p.f) }

func genVox(g *Gen) vox {
	h, v := g.Zoom(), g.Zoom()
	return vox{h, g.HIndex(h), g.HIndex(h), v, g.VIndex(v)}
}

// spell: an accepted non-canonical spelling of the same ID ("+3", "007", "-0", "+0"): strconv.ParseInt takes them all
func spell(g *Gen, p vox) string {
	fs := []int64{p.h, p.x, p.y, p.v, p.f}
	out := make([]string, 5)
	for k, n := range fs {
		s := strconv.FormatInt(n, 10)
		switch g.Intn(4) {
		case 0:
			if n >= 0 {
				s = "+" + s
			}
		case 1:
			z := strings.Repeat("0", 1+g.Intn(3))
			if n < 0 {
				s = "-" + z + s[1:]
			} else {
				s = z + s
			}
		case 2:
			if n == 0 {
				s = []string{"-0", "+0", "00", "-00"}[g.Intn(4)]
			}
		}
		out[k] = s
	}
	return strings.Join(out, "/")
}

// offQuantifier: turns a valid voxel into one the library still parses but the property does not quantify over. Values are chosen so that
// the library returns at once (no horizontal zoom below 0, never more than a few turns of its addition loop).
func offQuantifier(g *Gen, p vox) (vox, []string) {
	tags := []string{"outside-quantifier"}
	ww := int64(1) << uint(p.h)
	offIndex := func(x int64) int64 {
		switch g.Intn(8) {
		case 0:
			return ww // first index past the grid
		case 1:
			return -1 - g.Int63n(3*ww)
		case 2:
			if ww < 1<<33 {
				return 1 << 33
			}
			return 1<<36 + x
		case 3:
			return g.Pick(1<<53-1-x, 1<<53, 1<<53+1, 1<<62) // at and beyond float64's exact integers: mostly "skipped"
		case 4:
			return 2*ww - 1
		}
		return (1+g.Int63n(1000))*ww + x
	}
	n := 1 + g.Intn(2)
	for k := 0; k < n; k++ {
		switch g.Intn(8) {
		case 0, 1:
			p.x = offIndex(p.x)
			tags = append(tags, "oq:x-off-grid")
		case 2, 3:
			p.y = offIndex(p.y)
			tags = append(tags, "oq:y-off-grid")
		case 4, 5:
			vw := int64(1) << uint(p.v&63)
			if p.v < 0 || p.v > 35 {
				vw = 1
			}
			p.f = g.Pick(vw, -vw-1, vw+g.Int63n(1<<40), -vw-1-g.Int63n(1<<40), 1<<62, -(1 << 62), vTarget(g))
			if p.f >= -vw && p.f < vw {
				p.f = vw
			}
			tags = append(tags, "oq:f-off-range")
		case 6:
			p.v = g.Pick(36, 37, 64, 99, -1, -7, 1<<40)
			tags = append(tags, "oq:vzoom-off")
		case 7:
			if g.Chance(0.4) { // the model does not judge these: class "skipped"
				p.h = g.Pick(36, 37, 40)
				tags = append(tags, "oq:hzoom>35")
			} else {
				p.x, p.y = offIndex(p.x), offIndex(p.y)
				tags = append(tags, "oq:x-off-grid", "oq:y-off-grid")
			}
		}
	}
	return p, tags
}

// hShift: a horizontal shift with |d| <= 4*2^h, aimed at the guard boundaries of the wrap (x+d = -1, 0, w-1, w, -w, multiples of w)
func hShift(g *Gen, h, x int64) int64 {
	ww := int64(1) << uint(h)
	clamp := func(d int64) int64 {
		if d > 4*ww {
			return 4 * ww
		}
		if d < -4*ww {
			return -4 * ww
		}
		return d
	}
	switch g.Intn(10) {
	case 0:
		return 0
	case 1:
		return g.Pick(1, -1, 2, -2)
	case 2:
		return g.Pick(ww, -ww, ww-1, -ww+1, ww+1, -ww-1)
	case 3:
		return g.Pick(4*ww, -4*ww, 2*ww, -2*ww, 3*ww-1, -3*ww+1)
	case 4: // land exactly on a guard boundary: s = x+d in {-1, 0, w-1, w, -w, -w-1, 2w, -2w}
		return clamp(g.Pick(-1, 0, ww-1, ww, -ww, -ww-1, 2*ww, -2*ww, -3*ww) - x)
	}
	return g.Int63n(8*ww+1) - 4*ww
}

var (
	maxI = big.NewInt(math.MaxInt64)
	minI = big.NewInt(math.MinInt64)
)

func fits(b *big.Int) bool { return b.Cmp(minI) >= 0 && b.Cmp(maxI) <= 0 }

// vTarget: a vertical index anywhere in int64 — forced around 2^53 (a float64 detour would show), 2^62, the int64 ends, and uniform
func vTarget(g *Gen) int64 {
	switch g.Intn(8) {
	case 0:
		return g.Pick(1<<53, 1<<53+1, 1<<53-1, -(1 << 53), -(1<<53 + 1), -(1<<53 - 1), 1<<53+2, 1<<54+1)
	case 1:
		return g.Pick(1<<62, -(1 << 62), 1<<62+1, 1<<62-1, 1<<63-2, -(1<<63 - 1))
	case 2:
		return g.Pick(math.MaxInt64, math.MinInt64, math.MaxInt64-1, math.MinInt64+1)
	case 3:
		return g.Int63n(2001) - 1000
	case 4:
		return g.Int63n(1<<40) - (1 << 39)
	}
	// uniform over int64
	u := g.R.Uint64()
	return int64(u)
}

// vShift: dv with f+dv inside int64 (the property's restriction), small / huge / at the ends
func vShift(g *Gen, f int64) int64 {
	switch g.Intn(6) {
	case 0:
		return 0
	case 1:
		return g.Pick(1, -1)
	case 2:
		return g.Int63n(2001) - 1000
	}
	for {
		t := vTarget(g)
		d := new(big.Int).Sub(big.NewInt(t), big.NewInt(f))
		if fits(d) {
			return d.Int64()
		}
	}
}

func lapTag(x, d, ww int64) string {
	s := x + d
	lap := s / ww
	if s < 0 && s%ww != 0 {
		lap--
	}
	switch {
	case lap == 0:
		return "lap=0"
	case lap == 1:
		return "lap=+1"
	case lap > 1:
		return "lap>+1"
	case lap == -1:
		return "lap=-1"
	}
	return "lap<-1"
}

func shiftTags(p vox, dx, dy, dv int64) []string {
	ww := int64(1) << uint(p.h)
	t := []string{Tag("hzoom=%d", p.h), "x:" + lapTag(p.x, dx, ww), "y:" + lapTag(p.y, dy, ww)}
	for _, s := range []int64{p.x + dx, p.y + dy} {
		switch s {
		case -1:
			t = append(t, "s=-1")
		case 0:
			t = append(t, "s=0")
		case ww - 1:
			t = append(t, "s=w-1")
		case ww:
			t = append(t, "s=w")
		case -ww:
			t = append(t, "s=-w")
		}
	}
	if dx < 0 || dy < 0 {
		t = append(t, "dh<0")
	}
	if dv < 0 {
		t = append(t, "dv<0")
	}
	r := p.f + dv
	a := r
	if a < 0 {
		a = -a
	}
	switch {
	case r == math.MaxInt64 || r == math.MinInt64:
		t = append(t, "f+dv=int64-end")
	case a < 0 || a >= 1<<53:
		t = append(t, "|f+dv|>=2^53")
	case a >= 1<<40:
		t = append(t, "|f+dv|>=2^40")
	}
	return t
}

// runShift issues one shift case; prelude != nil turns it into the history entry (the caller's parse-and-mutate precedes the call)
func runShift(r *run.Runner, id string, dx, dy, dv int64, tags []string, triv bool, prelude w.Val) {
	args := []w.Val{w.S(id), w.I(dx), w.I(dy), w.I(dv)}
	fn := fnPlain
	if prelude != nil {
		fn, args = fnPlainOwn, append(args, prelude)
	}
	r.Run(run.Case{Prop: "C07", Fn: fn, Tags: tags, Trivial: triv, Args: args})
}

// genPrelude: 1..3 operations of a caller on its own parse of p's string — single setters with values on and around the grid of the
// (current) zoom, a change of zooms, a reset to another valid ID / to the same ID / to a malformed string (rejected, object unchanged).
// Values stay small enough that an implementation which wrongly starts from them still returns quickly in most cases.
// Returns the wire prelude and its tags (each operation, and whether the caller's object ends up different from the parsed ID).
func genPrelude(g *Gen, p vox, parsed bool) (w.Val, []string) {
	cur := p
	if !parsed {
		cur = vox{} // the object of a rejected string is the zero value
	}
	start := cur
	tags := []string{"caller-mutates-own-object"}
	var ops w.List
	hval := func(old int64) int64 {
		ww := int64(1) << uint(cur.h) // cur.h stays in 0..35: parsed valid, the zero value, or g.Zoom()
		switch g.Intn(7) {
		case 0:
			return 0
		case 1:
			return ww - 1
		case 2:
			return old + 1
		case 3:
			if old > 0 {
				return old - 1
			}
			return 1
		case 4:
			return g.Pick(ww, -1, 2*ww+1) // outside the grid: a caller's scratch value need not be an index
		}
		return g.HIndex(cur.h)
	}
	n := 1 + g.Intn(3)
	for k := 0; k < n; k++ {
		switch g.Intn(8) {
		case 0:
			v := hval(cur.x)
			cur.x = v
			ops = append(ops, w.L(w.S("SetX"), w.I(v)))
			tags = append(tags, "prelude:SetX")
		case 1:
			v := hval(cur.y)
			cur.y = v
			ops = append(ops, w.L(w.S("SetY"), w.I(v)))
			tags = append(tags, "prelude:SetY")
		case 2:
			v := g.Pick(0, 1000, -1000, cur.f+1, cur.f-1, -cur.f-1, g.Int63n(1<<40)-(1<<39), g.VIndex(g.Zoom()))
			cur.f = v
			ops = append(ops, w.L(w.S("SetZ"), w.I(v)))
			tags = append(tags, "prelude:SetZ")
		case 3:
			h, v := g.Zoom(), g.Zoom()
			if g.Chance(0.3) {
				h = cur.h // only the vertical zoom moves
			} else if g.Chance(0.3) {
				v = cur.v
			}
			cur.h, cur.v = h, v
			ops = append(ops, w.L(w.S("SetZoom"), w.I(h), w.I(v)))
			tags = append(tags, "prelude:SetZoom")
		case 4, 5:
			q := genVox(g)
			cur = q
			ops = append(ops, w.L(w.S("ResetExtendedSpatialID"), w.S(q.id())))
			tags = append(tags, "prelude:Reset(other)")
		case 6:
			if g.Chance(0.5) && parsed {
				cur = p
				ops = append(ops, w.L(w.S("ResetExtendedSpatialID"), w.S(p.id())))
				tags = append(tags, "prelude:Reset(same)")
			} else {
				ops = append(ops, w.L(w.S("ResetExtendedSpatialID"), w.S(g.Malformed())))
				tags = append(tags, "prelude:Reset(malformed)")
			}
		case 7: // the demo's pattern: move the scratch object somewhere else entirely
			z := g.Pick(1000, -1, 0, 1<<35)
			cur.x, cur.y, cur.f = 0, 0, z
			ops = append(ops, w.L(w.S("SetX"), w.I(0)), w.L(w.S("SetY"), w.I(0)), w.L(w.S("SetZ"), w.I(z)))
			tags = append(tags, "prelude:SetX", "prelude:SetY", "prelude:SetZ")
		}
	}
	if cur != start {
		tags = append(tags, "prelude:object-changed")
	} else {
		tags = append(tags, "prelude:object-unchanged")
	}
	return ops, tags
}

// second shift of a law case: everything the invoker and the library add must stay inside int64
func secondV(g *Gen, f, a3 int64) int64 {
	for {
		b3 := vShift(g, f+a3)
		sum := new(big.Int).Add(big.NewInt(a3), big.NewInt(b3))
		tot := new(big.Int).Add(sum, big.NewInt(f))
		if fits(sum) && fits(tot) {
			return b3
		}
	}
}

// exhaustive small scope (thorough tier): zooms 0..3, every index, every shift in [-4*2^h, 4*2^h] on both axes
// (per axis exhaustive; the other axis runs through the mirrored shift so that every (y, dy) pair occurs as well), zooms 0..1 as a full product
func sweep(r *run.Runner) {
	for h := int64(0); h <= 3; h++ {
		ww := int64(1) << uint(h)
		for x := int64(0); x < ww; x++ {
			for d := -4 * ww; d <= 4*ww; d++ {
				for _, vf := range [][2]int64{{0, -1}, {35, 1<<35 - 1}} {
					p := vox{h, x, ww - 1 - x, vf[0], vf[1]}
					runShift(r, p.id(), d, -d, d, append(shiftTags(p, d, -d, d), "sweep"), d == 0, nil)
				}
			}
		}
		if h <= 1 {
			for x := int64(0); x < ww; x++ {
				for y := int64(0); y < ww; y++ {
					for dx := -4 * ww; dx <= 4*ww; dx++ {
						for dy := -4 * ww; dy <= 4*ww; dy++ {
							p := vox{h, x, y, 3, -8}
							runShift(r, p.id(), dx, dy, 1, append(shiftTags(p, dx, dy, 1), "sweep"), false, nil)
						}
					}
				}
			}
		}
		if r.Stopped() {
			return
		}
	}
}

func init() {
	Scale["C07"] = 20000
	Registry["C07"] = func(r *run.Runner, g *Gen, n int) {
		r.Register(fnShift(), fnShiftLaws(), fnShiftOwn(), fnShiftLawsOwn())
		if n == 0 {
			return
		}
		if g.Tier == "thorough" {
			sweep(r)
		}
		for i := 0; i < n && !r.Stopped(); i++ {
			p := genVox(g)
			id := p.id()
			var tags []string
			malformed := false
			switch {
			case i%25 == 0:
				id = g.Malformed()
				p = vox{1, 0, 0, 1, 0}
				malformed = true
			case i%25 == 1 || i%25 == 2:
				id = spell(g, p)
				tags = append(tags, "non-canonical-spelling")
			case i%25 == 3:
				// outside the quantifier but accepted by the library's parser: index off the grid, vertical index / zoom off range, in
				// canonical or non-canonical spelling, with the usual (also huge vertical) shifts — judged from the wrapped voxel, or "skipped"
				var ot []string
				p, ot = offQuantifier(g, p)
				tags = append(tags, ot...)
				if g.Chance(0.6) {
					id = spell(g, p)
					tags = append(tags, "non-canonical-spelling")
				} else {
					id = p.id()
				}
			}
			dx, dy, dv := hShift(g, p.h, p.x), hShift(g, p.h, p.y), vShift(g, p.f)
			if malformed {
				tags = []string{"malformed"}
			} else {
				tags = append(tags, shiftTags(p, dx, dy, dv)...)
			}
			triv := dx == 0 && dy == 0 && dv == 0
			// a quarter of the cases are histories: the caller parses the same string itself and mutates its own object first
			var prelude w.Val
			if i%4 == 1 {
				var pt []string
				prelude, pt = genPrelude(g, p, !malformed)
				tags = append(tags, pt...)
			}
			switch {
			case i%3 == 0:
				for dv == math.MinInt64 { // -dv must exist
					dv = vShift(g, p.f)
				}
				b1, b2 := hShift(g, p.h, ((p.x+dx)%(1<<uint(p.h))+(1<<uint(p.h)))%(1<<uint(p.h))), hShift(g, p.h, p.y)
				b3 := secondV(g, p.f, dv)
				fn, args := fnLaws, []w.Val{w.S(id), w.I(dx), w.I(dy), w.I(dv), w.I(b1), w.I(b2), w.I(b3)}
				if prelude != nil {
					fn, args = fnLawsOwn, append(args, prelude)
				}
				r.Run(run.Case{Prop: "C07", Fn: fn, Tags: append(tags, "laws"), Trivial: triv && b1 == 0 && b2 == 0 && b3 == 0, Args: args})
			case i%30 == 1 && !malformed:
				// related consecutive calls: the same ID with another offset, the same offset at the neighbouring zoom, the identical call twice
				// (in a history case the caller's parse-and-mutate precedes each of the three calls on this ID)
				runShift(r, id, dx, dy, dv, append(tags, "consecutive"), triv, prelude)
				runShift(r, id, dx+1, dy, dv, append(tags, "consecutive"), false, prelude)
				q := p
				if q.h < 35 {
					q.h++
				} else {
					q.h--
					q.x, q.y = q.x/2, q.y/2
				}
				d2x, d2y := hShift(g, q.h, q.x), dy
				if d2y > 4<<uint(q.h) || d2y < -(4<<uint(q.h)) {
					d2y = 0
				}
				runShift(r, q.id(), d2x, d2y, dv, append(shiftTags(q, d2x, d2y, dv), "consecutive"), false, nil)
				runShift(r, id, dx, dy, dv, append(tags, "consecutive"), triv, prelude)
				i += 3
			default:
				runShift(r, id, dx, dy, dv, tags, triv, prelude)
			}
		}
	}
}
