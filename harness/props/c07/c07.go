// Package c07: invokers and generators for property C07 (GetShiftingSpatialID is modular translation on the grid).
package c07

import (
	"math"
	"math/big"
	"strconv"
	"strings"
	"time"

	"github.com/trajectoryjp/spatial_id_go/v4/operated"

	. "verif/harness/gen"
	"verif/harness/run"
	w "verif/harness/wire"
)

func fnShift() *run.Fn {
	return &run.Fn{Name: "GetShiftingSpatialID", Timeout: 2 * time.Second, Invoke: func(a []w.Val) w.Val {
		return w.S(operated.GetShiftingSpatialID(w.AsStr(a[0]), w.AsInt(a[1]), w.AsInt(a[2]), w.AsInt(a[3])))
	}}
}

// shift laws observed on the implementation: [s1; s2 = shift(s1,b); s12 = shift(id,a+b); back = shift(s1,-a); zero = shift(id,0)]
func fnShiftLaws() *run.Fn {
	return &run.Fn{Name: "ShiftLaws", Timeout: 2 * time.Second, Invoke: func(a []w.Val) w.Val {
		id := w.AsStr(a[0])
		x1, y1, v1 := w.AsInt(a[1]), w.AsInt(a[2]), w.AsInt(a[3])
		x2, y2, v2 := w.AsInt(a[4]), w.AsInt(a[5]), w.AsInt(a[6])
		s1 := operated.GetShiftingSpatialID(id, x1, y1, v1)
		s2 := operated.GetShiftingSpatialID(s1, x2, y2, v2)
		s12 := operated.GetShiftingSpatialID(id, x1+x2, y1+y2, v1+v2)
		back := operated.GetShiftingSpatialID(s1, -x1, -y1, -v1)
		zero := operated.GetShiftingSpatialID(id, 0, 0, 0)
		return w.L(w.S(s1), w.S(s2), w.S(s12), w.S(back), w.S(zero))
	}}
}

type vox struct{ h, x, y, v, f int64 }

func (p vox) id() string { return EID(p.h, p.x, p.y, p.v, p.f) }

func genVox(g *Gen) vox {
	h, v := g.Zoom(), g.Zoom()
	return vox{h, g.HIndex(h), g.HIndex(h), v, g.VIndex(v)}
}

// spell: an accepted non-canonical spelling of the same ID ("+3", "007", "-0", "+0"): strconv.ParseInt takes them all
func spell(g *Gen, p vox) string {
	fs := []int64{p.h, p.x, p.y, p.v, p.f}
	out := make([]string, 5)
	for k, n := range fs {
		s := strconv.FormatInt(n, 10)
		switch g.Intn(4) {
		case 0:
			if n >= 0 {
				s = "+" + s
			}
		case 1:
			z := strings.Repeat("0", 1+g.Intn(3))
			if n < 0 {
				s = "-" + z + s[1:]
			} else {
				s = z + s
			}
		case 2:
			if n == 0 {
				s = []string{"-0", "+0", "00", "-00"}[g.Intn(4)]
			}
		}
		out[k] = s
	}
	return strings.Join(out, "/")
}

// hShift: a horizontal shift with |d| <= 4*2^h, aimed at the guard boundaries of the wrap (x+d = -1, 0, w-1, w, -w, multiples of w)
func hShift(g *Gen, h, x int64) int64 {
	ww := int64(1) << uint(h)
	clamp := func(d int64) int64 {
		if d > 4*ww {
			return 4 * ww
		}
		if d < -4*ww {
			return -4 * ww
		}
		return d
	}
	switch g.Intn(10) {
	case 0:
		return 0
	case 1:
		return g.Pick(1, -1, 2, -2)
	case 2:
		return g.Pick(ww, -ww, ww-1, -ww+1, ww+1, -ww-1)
	case 3:
		return g.Pick(4*ww, -4*ww, 2*ww, -2*ww, 3*ww-1, -3*ww+1)
	case 4: // land exactly on a guard boundary: s = x+d in {-1, 0, w-1, w, -w, -w-1, 2w, -2w}
		return clamp(g.Pick(-1, 0, ww-1, ww, -ww, -ww-1, 2*ww, -2*ww, -3*ww) - x)
	}
	return g.Int63n(8*ww+1) - 4*ww
}

var (
	maxI = big.NewInt(math.MaxInt64)
	minI = big.NewInt(math.MinInt64)
)

func fits(b *big.Int) bool { return b.Cmp(minI) >= 0 && b.Cmp(maxI) <= 0 }

// vTarget: a vertical index anywhere in int64 — forced around 2^53 (a float64 detour would show), 2^62, the int64 ends, and uniform
func vTarget(g *Gen) int64 {
	switch g.Intn(8) {
	case 0:
		return g.Pick(1<<53, 1<<53+1, 1<<53-1, -(1 << 53), -(1<<53 + 1), -(1<<53 - 1), 1<<53+2, 1<<54+1)
	case 1:
		return g.Pick(1<<62, -(1 << 62), 1<<62+1, 1<<62-1, 1<<63-2, -(1<<63 - 1))
	case 2:
		return g.Pick(math.MaxInt64, math.MinInt64, math.MaxInt64-1, math.MinInt64+1)
	case 3:
		return g.Int63n(2001) - 1000
	case 4:
		return g.Int63n(1<<40) - (1 << 39)
	}
	// uniform over int64
	u := g.R.Uint64()
	return int64(u)
}

// vShift: dv with f+dv inside int64 (the property's restriction), small / huge / at the ends
func vShift(g *Gen, f int64) int64 {
	switch g.Intn(6) {
	case 0:
		return 0
	case 1:
		return g.Pick(1, -1)
	case 2:
		return g.Int63n(2001) - 1000
	}
	for {
		t := vTarget(g)
		d := new(big.Int).Sub(big.NewInt(t), big.NewInt(f))
		if fits(d) {
			return d.Int64()
		}
	}
}

func lapTag(x, d, ww int64) string {
	s := x + d
	lap := s / ww
	if s < 0 && s%ww != 0 {
		lap--
	}
	switch {
	case lap == 0:
		return "lap=0"
	case lap == 1:
		return "lap=+1"
	case lap > 1:
		return "lap>+1"
	case lap == -1:
		return "lap=-1"
	}
	return "lap<-1"
}

func shiftTags(p vox, dx, dy, dv int64) []string {
	ww := int64(1) << uint(p.h)
	t := []string{Tag("hzoom=%d", p.h), "x:" + lapTag(p.x, dx, ww), "y:" + lapTag(p.y, dy, ww)}
	for _, s := range []int64{p.x + dx, p.y + dy} {
		switch s {
		case -1:
			t = append(t, "s=-1")
		case 0:
			t = append(t, "s=0")
		case ww - 1:
			t = append(t, "s=w-1")
		case ww:
			t = append(t, "s=w")
		case -ww:
			t = append(t, "s=-w")
		}
	}
	if dx < 0 || dy < 0 {
		t = append(t, "dh<0")
	}
	if dv < 0 {
		t = append(t, "dv<0")
	}
	r := p.f + dv
	a := r
	if a < 0 {
		a = -a
	}
	switch {
	case r == math.MaxInt64 || r == math.MinInt64:
		t = append(t, "f+dv=int64-end")
	case a < 0 || a >= 1<<53:
		t = append(t, "|f+dv|>=2^53")
	case a >= 1<<40:
		t = append(t, "|f+dv|>=2^40")
	}
	return t
}

func runShift(r *run.Runner, id string, dx, dy, dv int64, tags []string, triv bool) {
	r.Run(run.Case{Prop: "C07", Fn: "GetShiftingSpatialID", Tags: tags, Trivial: triv,
		Args: []w.Val{w.S(id), w.I(dx), w.I(dy), w.I(dv)}})
}

// second shift of a law case: everything the invoker and the library add must stay inside int64
func secondV(g *Gen, f, a3 int64) int64 {
	for {
		b3 := vShift(g, f+a3)
		sum := new(big.Int).Add(big.NewInt(a3), big.NewInt(b3))
		tot := new(big.Int).Add(sum, big.NewInt(f))
		if fits(sum) && fits(tot) {
			return b3
		}
	}
}

// exhaustive small scope (thorough tier): zooms 0..3, every index, every shift in [-4*2^h, 4*2^h] on both axes
// (per axis exhaustive; the other axis runs through the mirrored shift so that every (y, dy) pair occurs as well), zooms 0..1 as a full product
func sweep(r *run.Runner) {
	for h := int64(0); h <= 3; h++ {
		ww := int64(1) << uint(h)
		for x := int64(0); x < ww; x++ {
			for d := -4 * ww; d <= 4*ww; d++ {
				for _, vf := range [][2]int64{{0, -1}, {35, 1<<35 - 1}} {
					p := vox{h, x, ww - 1 - x, vf[0], vf[1]}
					runShift(r, p.id(), d, -d, d, append(shiftTags(p, d, -d, d), "sweep"), d == 0)
				}
			}
		}
		if h <= 1 {
			for x := int64(0); x < ww; x++ {
				for y := int64(0); y < ww; y++ {
					for dx := -4 * ww; dx <= 4*ww; dx++ {
						for dy := -4 * ww; dy <= 4*ww; dy++ {
							p := vox{h, x, y, 3, -8}
							runShift(r, p.id(), dx, dy, 1, append(shiftTags(p, dx, dy, 1), "sweep"), false)
						}
					}
				}
			}
		}
		if r.Stopped() {
			return
		}
	}
}

func init() {
	Scale["C07"] = 20000
	Registry["C07"] = func(r *run.Runner, g *Gen, n int) {
		r.Register(fnShift(), fnShiftLaws())
		if n == 0 {
			return
		}
		if g.Tier == "thorough" {
			sweep(r)
		}
		for i := 0; i < n && !r.Stopped(); i++ {
			p := genVox(g)
			id := p.id()
			var tags []string
			malformed := false
			switch {
			case i%25 == 0:
				id = g.Malformed()
				p = vox{1, 0, 0, 1, 0}
				malformed = true
			case i%25 == 1 || i%25 == 2:
				id = spell(g, p)
				tags = append(tags, "non-canonical-spelling")
			}
			dx, dy, dv := hShift(g, p.h, p.x), hShift(g, p.h, p.y), vShift(g, p.f)
			if malformed {
				tags = []string{"malformed"}
			} else {
				tags = append(tags, shiftTags(p, dx, dy, dv)...)
			}
			triv := dx == 0 && dy == 0 && dv == 0
			switch {
			case i%3 == 0:
				for dv == math.MinInt64 { // -dv must exist
					dv = vShift(g, p.f)
				}
				b1, b2 := hShift(g, p.h, ((p.x+dx)%(1<<uint(p.h))+(1<<uint(p.h)))%(1<<uint(p.h))), hShift(g, p.h, p.y)
				b3 := secondV(g, p.f, dv)
				r.Run(run.Case{Prop: "C07", Fn: "ShiftLaws", Tags: append(tags, "laws"), Trivial: triv && b1 == 0 && b2 == 0 && b3 == 0,
					Args: []w.Val{w.S(id), w.I(dx), w.I(dy), w.I(dv), w.I(b1), w.I(b2), w.I(b3)}})
			case i%30 == 1 && !malformed:
				// related consecutive calls: the same ID with another offset, the same offset at the neighbouring zoom, the identical call twice
				runShift(r, id, dx, dy, dv, append(tags, "consecutive"), triv)
				runShift(r, id, dx+1, dy, dv, append(tags, "consecutive"), false)
				q := p
				if q.h < 35 {
					q.h++
				} else {
					q.h--
					q.x, q.y = q.x/2, q.y/2
				}
				d2x, d2y := hShift(g, q.h, q.x), dy
				if d2y > 4<<uint(q.h) || d2y < -(4<<uint(q.h)) {
					d2y = 0
				}
				runShift(r, q.id(), d2x, d2y, dv, append(shiftTags(q, d2x, d2y, dv), "consecutive"), false)
				runShift(r, id, dx, dy, dv, append(tags, "consecutive"), triv)
				i += 3
			default:
				runShift(r, id, dx, dy, dv, tags, triv)
			}
		}
	}
}
