package c14

// vdist: the distance FitClearanceAroundExtendedSpatialID measures between a voxel and a probed (shifted) voxel, for the "vdist" oracle of
// the FitLoop entry. The library has no helper for it (the measurement is written out three times inside transform/voxel_around_line.go),
// so there is nothing a forwarding-only hook could forward to; the oracle calls the very same exported functions in the same order:
// shape.GetPointOnExtendedSpatialId(id, Vertex) for both IDs, geodesy.GeocentricFromGeodetic{lon, lat, lat} for each of the 8 + 8
// vertices, a fresh closest.Measure, MeasureNonnegativeDistance. Which voxel is probed at each step is decided by the Coq model.

import (
	"github.com/go-gl/mathgl/mgl64"
	closest "github.com/trajectoryjp/closest_go"
	geodesy "github.com/trajectoryjp/geodesy_go/coordinates"
	"github.com/trajectoryjp/spatial_id_go/v4/common/enum"
	"github.com/trajectoryjp/spatial_id_go/v4/shape"
)

func hullOf(id string) ([]*mgl64.Vec3, bool) {
	vs, err := shape.GetPointOnExtendedSpatialId(id, enum.Vertex)
	if err != nil {
		return nil, false
	}
	hull := []*mgl64.Vec3{}
	for _, v := range vs {
		c := geodesy.GeocentricFromGeodetic(geodesy.Geodetic{v.Lon(), v.Lat(), v.Lat()})
		hull = append(hull, (*mgl64.Vec3)(&c))
	}
	return hull, true
}

func vdist(id, probed string) (float64, bool) {
	a, ok1 := hullOf(id)
	b, ok2 := hullOf(probed)
	if !ok1 || !ok2 {
		return 0, false
	}
	m := closest.Measure{}
	m.ConvexHulls[0] = a
	m.ConvexHulls[1] = b
	m.MeasureNonnegativeDistance()
	return m.Distance, true
}

// segDistFresh: what the corridor's measuring loop computes for one candidate — the segment's two end points and the voxel's eight
// vertices, each through geodesy.GeocentricFromGeodetic{lon, lat, lat} — but with a closest.Measure of its own (the loop reuses one
// Measure for all candidates). Oracle "gjk": decides whether a voxel kept beyond the radius is owed to closest_go itself.
func segDistFresh(lon1, lat1, lon2, lat2 float64, id string) (float64, bool) {
	hull, ok := hullOf(id)
	if !ok {
		return 0, false
	}
	a := geodesy.GeocentricFromGeodetic(geodesy.Geodetic{lon1, lat1, lat1})
	b := geodesy.GeocentricFromGeodetic(geodesy.Geodetic{lon2, lat2, lat2})
	m := closest.Measure{}
	m.ConvexHulls[0] = []*mgl64.Vec3{(*mgl64.Vec3)(&a), (*mgl64.Vec3)(&b)}
	m.ConvexHulls[1] = hull
	m.MeasureNonnegativeDistance()
	return m.Distance, true
}

// measureLoop: the corridor's measuring loop (transform/voxel_around_line.go, `if !skipsMeasurement { ... }`) replayed on the IDs and
// in the order the Coq model hands over (its own sorted candidate list): ONE closest.Measure, ConvexHulls[0] = the segment's two end
// points through geodesy.GeocentricFromGeodetic{lon, lat, lat}, and for each ID the vertex call, the same conversion of the 8 vertices,
// ConvexHulls[1] = them, MeasureNonnegativeDistance, Distance. Oracle "mloop". The comparison `dist < radius` is made by the model.
// ok[i] = false: the vertex call of ID i failed (the loop returns the error there; later entries are not measured).
func measureLoop(lon1, lat1, lon2, lat2 float64, ids []string) (ds []float64, ok []bool) {
	a := geodesy.GeocentricFromGeodetic(geodesy.Geodetic{lon1, lat1, lat1})
	b := geodesy.GeocentricFromGeodetic(geodesy.Geodetic{lon2, lat2, lat2})
	m := closest.Measure{}
	m.ConvexHulls[0] = []*mgl64.Vec3{(*mgl64.Vec3)(&a), (*mgl64.Vec3)(&b)}
	failed := false
	for _, id := range ids {
		if failed {
			ds, ok = append(ds, 0), append(ok, false)
			continue
		}
		hull, good := hullOf(id)
		if !good {
			failed = true
			ds, ok = append(ds, 0), append(ok, false)
			continue
		}
		m.ConvexHulls[1] = hull
		m.MeasureNonnegativeDistance()
		ds, ok = append(ds, m.Distance), append(ok, true)
	}
	return
}
