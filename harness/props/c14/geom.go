package c14

// Independent horizontal-distance reference for the corridor's distance filter (validation, not a theorem).
//
// The implementation keeps a candidate voxel when closest_go's GJK distance between the segment and the convex hull of the voxel's
// eight vertices (all converted with geodesy_go to earth-centred coordinates, the "altitude" slot filled with the latitude) is below
// the radius. This file computes, without closest_go, geodesy_go or any function of the library:
//   - the voxel's footprint corners from its x/y indices (Web-Mercator row/column formulas written out here),
//   - WGS84 earth-centred coordinates of the corners and of the segment's end points at ellipsoid height 0,
//   - the exact Euclidean (chord) distance between the 3-D segment and the convex hull of the four corners
//     (segment against the four triangles of the tetrahedron, with segment/triangle intersection and point-in-tetrahedron tests).
// Error budget (documented in meta/C14.json): the implementation's points sit at "height" = latitude (at most 85 m), which moves
// neighbouring points relative to each other by at most 2e-5 of their separation; float64 rounding at 6.4e6 m is about 1e-9 m.
// The vertices' latitudes are stored through SetLat, i.e. cut to 1e-10 degree (1.1e-5 m); the planar hull of a large cell lies below
// the curved footprint by up to diagonal^2/(8R) (so a segment over the interior of a coarse cell is a sagitta away from the hull
// although its horizontal distance is 0), and so does the chord of a long segment.
// Margin used: 1e-3 * (radius + cell diagonal + segment length) + (diagonal^2 + length^2)/(4 * 6.3e6 m) + 5e-5 m.

import (
	"math"
)

type vec [3]float64

func sub(a, b vec) vec           { return vec{a[0] - b[0], a[1] - b[1], a[2] - b[2]} }
func add(a, b vec) vec           { return vec{a[0] + b[0], a[1] + b[1], a[2] + b[2]} }
func scale(a vec, s float64) vec { return vec{a[0] * s, a[1] * s, a[2] * s} }
func dot(a, b vec) float64       { return a[0]*b[0] + a[1]*b[1] + a[2]*b[2] }
func cross(a, b vec) vec {
	return vec{a[1]*b[2] - a[2]*b[1], a[2]*b[0] - a[0]*b[2], a[0]*b[1] - a[1]*b[0]}
}
func norm(a vec) float64 { return math.Sqrt(dot(a, a)) }

// WGS84 geodetic (degrees, ellipsoid height 0) -> earth-centred earth-fixed metres
func ecef0(lonDeg, latDeg float64) vec {
	const a = 6378137.0
	const f = 1 / 298.257223563
	e2 := f * (2 - f)
	lon, lat := lonDeg*math.Pi/180, latDeg*math.Pi/180
	s := math.Sin(lat)
	n := a / math.Sqrt(1-e2*s*s)
	return vec{n * math.Cos(lat) * math.Cos(lon), n * math.Cos(lat) * math.Sin(lon), n * (1 - e2) * s}
}

func clamp01(t float64) float64 { return math.Max(0, math.Min(1, t)) }

// distance between segments p1-q1 and p2-q2 (Ericson, Real-Time Collision Detection 5.1.9)
func segSeg(p1, q1, p2, q2 vec) float64 {
	d1, d2, r := sub(q1, p1), sub(q2, p2), sub(p1, p2)
	a, e, f := dot(d1, d1), dot(d2, d2), dot(d2, r)
	var s, t float64
	const eps = 0.0
	if a <= eps && e <= eps {
		return norm(r)
	}
	if a <= eps {
		s, t = 0, clamp01(f/e)
	} else {
		c := dot(d1, r)
		if e <= eps {
			t, s = 0, clamp01(-c/a)
		} else {
			b := dot(d1, d2)
			den := a*e - b*b
			if den > 0 {
				s = clamp01((b*f - c*e) / den)
			} else {
				s = 0
			}
			t = (b*s + f) / e
			if t < 0 {
				t, s = 0, clamp01(-c/a)
			} else if t > 1 {
				t, s = 1, clamp01((b-c)/a)
			}
		}
	}
	return norm(sub(add(p1, scale(d1, s)), add(p2, scale(d2, t))))
}

// distance from point p to triangle abc (Ericson 5.1.5)
func pointTri(p, a, b, c vec) float64 {
	ab, ac, ap := sub(b, a), sub(c, a), sub(p, a)
	d1, d2 := dot(ab, ap), dot(ac, ap)
	if d1 <= 0 && d2 <= 0 {
		return norm(ap)
	}
	bp := sub(p, b)
	d3, d4 := dot(ab, bp), dot(ac, bp)
	if d3 >= 0 && d4 <= d3 {
		return norm(bp)
	}
	vc := d1*d4 - d3*d2
	if vc <= 0 && d1 >= 0 && d3 <= 0 {
		v := d1 / (d1 - d3)
		return norm(sub(p, add(a, scale(ab, v))))
	}
	cp := sub(p, c)
	d5, d6 := dot(ab, cp), dot(ac, cp)
	if d6 >= 0 && d5 <= d6 {
		return norm(cp)
	}
	vb := d5*d2 - d1*d6
	if vb <= 0 && d2 >= 0 && d6 <= 0 {
		w := d2 / (d2 - d6)
		return norm(sub(p, add(a, scale(ac, w))))
	}
	va := d3*d6 - d5*d4
	if va <= 0 && (d4-d3) >= 0 && (d5-d6) >= 0 {
		w := (d4 - d3) / ((d4 - d3) + (d5 - d6))
		return norm(sub(p, add(b, scale(sub(c, b), w))))
	}
	den := 1 / (va + vb + vc)
	v, w := vb*den, vc*den
	return norm(sub(p, add(a, add(scale(ab, v), scale(ac, w)))))
}

// does segment pq cross triangle abc?
func segHitsTri(p, q, a, b, c vec) bool {
	n := cross(sub(b, a), sub(c, a))
	dp, dq := dot(n, sub(p, a)), dot(n, sub(q, a))
	if dp*dq > 0 || dp == dq {
		return false
	}
	t := dp / (dp - dq)
	x := add(p, scale(sub(q, p), t))
	// inside test by the signs of the three sub-triangle normals against n
	s1 := dot(n, cross(sub(b, a), sub(x, a)))
	s2 := dot(n, cross(sub(c, b), sub(x, b)))
	s3 := dot(n, cross(sub(a, c), sub(x, c)))
	return s1 >= 0 && s2 >= 0 && s3 >= 0
}

func segTri(p, q, a, b, c vec) float64 {
	if segHitsTri(p, q, a, b, c) {
		return 0
	}
	d := math.Min(pointTri(p, a, b, c), pointTri(q, a, b, c))
	d = math.Min(d, segSeg(p, q, a, b))
	d = math.Min(d, segSeg(p, q, b, c))
	d = math.Min(d, segSeg(p, q, c, a))
	return d
}

// distance between segment pq and the convex hull of the four footprint corners. The corners of a latitude/longitude cell on an
// ellipsoid of revolution are mirror images in the plane of the cell's central meridian, so they form a planar isosceles trapezoid:
// the hull is the union of the triangles of any triangulation; all four corner triples are used.
func segHull4(p, q vec, t [4]vec) float64 {
	d := math.Inf(1)
	for i := 0; i < 4; i++ {
		d = math.Min(d, segTri(p, q, t[(i+1)%4], t[(i+2)%4], t[(i+3)%4]))
	}
	return d
}

// footprint of column x / row y at horizontal zoom h: west, east longitudes and north, south latitudes in degrees
func footprint(h, x, y int64) (west, east, north, south float64) {
	n := math.Pow(2, float64(h))
	west = float64(x)/n*360 - 180
	east = float64(x+1)/n*360 - 180
	lat := func(r float64) float64 { return math.Atan(math.Sinh(math.Pi*(1-2*r/n))) * 180 / math.Pi }
	return west, east, lat(float64(y)), lat(float64(y + 1))
}

// hdist: chord distance (metres) between the segment (lon1,lat1)-(lon2,lat2) on the ellipsoid and the footprint of the voxel,
// with the allowance for everything this reference does not reproduce (see the header): returns (lower bound, upper bound).
func hdist(lon1, lat1, lon2, lat2 float64, h, x, y int64, radius float64) (lo, hi float64) {
	wst, est, nth, sth := footprint(h, x, y)
	t := [4]vec{ecef0(wst, nth), ecef0(est, nth), ecef0(est, sth), ecef0(wst, sth)}
	p, q := ecef0(lon1, lat1), ecef0(lon2, lat2)
	d := segHull4(p, q, t)
	diag := math.Max(norm(sub(t[0], t[2])), norm(sub(t[1], t[3])))
	seg := norm(sub(p, q))
	m := 1e-3*(math.Abs(radius)+diag+seg) + (diag*diag+seg*seg)/(4*6.3e6) + 5e-5
	return d - m, d + m
}
