// Package c14: invokers, oracles and generators of property C14 (the corridor around a line contains the line and stays within its
// search box; measured mode is a subset of skip mode and keeps no voxel farther than the radius).
package c14

import (
	"math"
	"sort"
	"strconv"
	"strings"
	"time"

	"github.com/trajectoryjp/spatial_id_go/v4/common/object"
	"github.com/trajectoryjp/spatial_id_go/v4/shape"
	"github.com/trajectoryjp/spatial_id_go/v4/transform"

	. "verif/harness/gen"
	"verif/harness/run"
	w "verif/harness/wire"
)

const (
	fnCorr    = "GetExtendedSpatialIdsWithinRadiusOfLine"
	fnPair    = "CorridorPair"
	fnSeq     = "CorridorSequence"
	fnFit     = "FitClearanceAroundExtendedSpatialID"
	fnFitSeq  = "FitSequence"
	fnFitLoop = "FitLoop"
	outOfDom  = "out-of-domain"
	earthA    = 6378137.0
	altLimit  = 33554432.0
	maxShifts = 250000 // bound on (line voxels) x (stencil size) for one call
)

// ---- arguments ----

func pointShape(v w.Val) bool {
	if _, ok := v.(w.Nil); ok {
		return true
	}
	l, ok := v.(w.List)
	if !ok || len(l) != 3 {
		return false
	}
	for _, e := range l {
		if _, ok := e.(w.Flt); !ok {
			return false
		}
	}
	return true
}

func pointArg(v w.Val) *object.Point {
	if _, ok := v.(w.Nil); ok {
		return nil
	}
	l := w.AsList(v)
	// the stored fields exactly as given (SetLat is not idempotent, so the point is not rebuilt through NewPoint)
	return RawPoint(w.AsFlt(l[0]), w.AsFlt(l[1]), w.AsFlt(l[2]))
}

func isNil(v w.Val) bool { _, ok := v.(w.Nil); return ok }

func cellLon(h int64) float64 { return 360 / math.Pow(2, float64(h)) }
func cellAlt(v int64) float64 { return math.Pow(2, 25-float64(v)) }

// east-west width in metres of a cell of zoom h at this latitude (generator / domain guard only)
func cellWidthM(h int64, lat float64) float64 {
	return 2 * math.Pi * earthA * math.Cos(lat*math.Pi/180) / math.Pow(2, float64(h))
}
func rowOf(lat float64, h int64) float64 {
	r := lat * math.Pi / 180
	return math.Floor(math.Pow(2, float64(h)) * (1 - math.Log(math.Tan(r)+1/math.Cos(r))/math.Pi) / 2)
}

// inDomain: the bounded quantifier of the property (DESIGN 5.3 D16: the layer fit does not terminate when no shift reaches the
// clearance). Calls outside it are produced only by the shared shrinker; the implementation is not called for them.
//   - error paths (nil point, zoom outside 0..35, radius <= 0 or NaN) are always inside (they return before or at the first iteration),
//     provided the line itself is short;
//   - a positive radius needs hZoom >= 2; at hZoom 2..5 at most half the width of the pole-ward edge of the end points' rows, at
//     hZoom >= 6 at most three cell widths (width taken at the end point farther from the equator);
//   - the line spans at most 120 cells on each axis and (line cells) x (stencil) stays below maxShifts.
//
// estimates: the size figures the caps of the bounded quantifier are applied to (also handed to the dispatch entry through the oracle
// "dom", which applies the same caps itself): span of the line in cells on its longest axis, the radius in limiting cell widths
// (hZoom >= 6: width at the end point farther from the equator; hZoom 2..5: width of the pole-ward edge of the end points' rows — the
// columns converge towards the poles), and (line cells) x (stencil)
func estimates(lon1, lat1, alt1, lon2, lat2, alt2 float64, h, v int64, radius float64) (span, rcells, shifts float64) {
	dx := math.Abs(lon2-lon1) / cellLon(h)
	dy := math.Abs(rowOf(lat2, h) - rowOf(lat1, h))
	df := math.Abs(alt2-alt1) / cellAlt(v)
	span = math.Max(dx, math.Max(dy, df))
	if !(radius > 0) || math.IsInf(radius, 0) {
		return span, 0, 0
	}
	wlim := cellWidthM(h, math.Max(math.Abs(lat1), math.Abs(lat2)))
	if h < 6 {
		edge := 0.0
		for _, lat := range []float64{lat1, lat2} {
			_, _, nth, sth := footprint(h, 0, int64(rowOf(lat, h)))
			edge = math.Max(edge, math.Max(math.Abs(nth), math.Abs(sth)))
		}
		wlim = cellWidthM(h, math.Min(edge, 85.06))
	}
	rcells = radius / wlim
	layers := math.Ceil(rcells) + 1
	shifts = (dx + dy + df + 3) * (2*layers + 1) * (2*layers + 1) * (2*layers + 1)
	return
}

func pointFields(p w.Val) (lon, lat, alt float64) {
	l := w.AsList(p)
	return w.AsFlt(l[0]), w.AsFlt(l[1]), w.AsFlt(l[2])
}

func inDomain(p1, p2 w.Val, h, v int64, radius float64) bool {
	if !pointShape(p1) || !pointShape(p2) {
		return false
	}
	if isNil(p1) || isNil(p2) || h < 0 || h > 35 || v < 0 || v > 35 {
		return true
	}
	lon1, lat1, alt1 := pointFields(p1)
	lon2, lat2, alt2 := pointFields(p2)
	for _, f := range []float64{lon1, lat1, alt1, lon2, lat2, alt2} {
		if math.IsNaN(f) || math.IsInf(f, 0) {
			return false
		}
	}
	if math.Abs(lon1) > 180 || math.Abs(lon2) > 180 || math.Abs(lat1) > LatMax || math.Abs(lat2) > LatMax ||
		math.Abs(alt1) > altLimit || math.Abs(alt2) > altLimit {
		return false // dispatch: bad_case (outside the documented ranges; |alt| <= 2^25 keeps the vertical index far from int64 wrap)
	}
	span, rcells, shifts := estimates(lon1, lat1, alt1, lon2, lat2, alt2, h, v, radius)
	if !(span <= 120) {
		return false
	}
	if !(radius > 0) { // zero, negative, NaN
		return true
	}
	if math.IsInf(radius, 0) || h < 2 {
		return false
	}
	if h < 6 {
		return rcells <= 0.5 && shifts <= maxShifts
	}
	return rcells <= 3 && shifts <= maxShifts
}

func callCorridor(a []w.Val) w.Val {
	if len(a) != 6 {
		return w.S(outOfDom)
	}
	h, v, r := w.AsInt(a[2]), w.AsInt(a[3]), w.AsFlt(a[4])
	if !inDomain(a[0], a[1], h, v, r) {
		return w.S(outOfDom)
	}
	ids, err := transform.GetExtendedSpatialIdsWithinRadiusOfLine(pointArg(a[0]), pointArg(a[1]), r, h, v, w.AsBool(a[5]))
	return w.WithErr(w.Strs(ids), err)
}

// parseID: the five integer fields of an extended ID (harness-side, for the domain guard and the distance reference)
func parseID(id string) ([5]int64, bool) {
	var r [5]int64
	fs := strings.Split(id, "/")
	if len(fs) != 5 {
		return r, false
	}
	for i, f := range fs {
		n, err := strconv.ParseInt(f, 10, 64)
		if err != nil {
			return r, false
		}
		r[i] = n
	}
	return r, true
}

// fitInDomain: as inDomain, for a direct call of the fit. Malformed IDs are inside (error at the first iteration) unless a
// well-formed ID has a zoom outside 0..35 together with indices for which GetShiftingSpatialID's wrap loop is not bounded.
func fitInDomain(id string, c float64) bool {
	f, ok := parseID(id)
	if !ok {
		return true
	}
	h, x, y, v := f[0], f[1], f[2], f[3]
	if h < 0 || h > 35 || v < 0 || v > 35 {
		return x >= 0 && y >= 0 && x < 1<<20 && y < 1<<20
	}
	n := int64(1) << uint(h)
	if x < 0 || y < 0 || x >= n || y >= n {
		return false
	}
	if !(c > 0) {
		return true
	}
	if math.IsInf(c, 0) || h < 2 {
		return false
	}
	rcells := c / ownWidth(h, x, y)
	if h < 6 {
		return rcells <= 0.5
	}
	return rcells <= 3
}

// the smaller of the two east-west edge lengths of the footprint, metres
func ownWidth(h, x, y int64) float64 {
	wst, est, nth, sth := footprint(h, x, y)
	return math.Min(norm(sub(ecef0(wst, nth), ecef0(est, nth))), norm(sub(ecef0(wst, sth), ecef0(est, sth))))
}

func callFit(a []w.Val) w.Val {
	if len(a) != 2 {
		return w.S(outOfDom)
	}
	id, c := w.AsStr(a[0]), w.AsFlt(a[1])
	if !fitInDomain(id, c) {
		return w.S(outOfDom)
	}
	H, V, err := transform.FitClearanceAroundExtendedSpatialID(id, c)
	return w.WithErr(w.L(w.I(H), w.I(V)), err)
}

func seqOf(call func([]w.Val) w.Val) func([]w.Val) w.Val {
	return func(a []w.Val) w.Val {
		out := w.List{}
		for _, c := range w.AsList(a[0]) {
			l, ok := c.(w.List)
			if !ok {
				out = append(out, w.S(outOfDom))
				continue
			}
			out = append(out, call(l))
		}
		return out
	}
}

func shapesOK(a []w.Val, kinds string) bool {
	if len(a) != len(kinds) {
		return false
	}
	for i, k := range kinds {
		ok := false
		switch k {
		case 'p':
			ok = pointShape(a[i])
		case 'i':
			if n, is := a[i].(w.Int); is {
				ok = n.V.IsInt64()
			}
		case 'f':
			_, ok = a[i].(w.Flt)
		case 'b':
			_, ok = a[i].(w.Bool)
		case 's':
			_, ok = a[i].(w.Str)
		}
		if !ok {
			return false
		}
	}
	return true
}

func guarded(kinds string, call func([]w.Val) w.Val) func([]w.Val) w.Val {
	return func(a []w.Val) w.Val {
		if !shapesOK(a, kinds) {
			return w.S(outOfDom)
		}
		return call(a)
	}
}

// ---- oracles ----

// a call of the library under a time limit (an oracle query is not covered by the runner's limit)
func limited(f func() w.Val) w.Val {
	ch := make(chan w.Val, 1)
	go func() {
		defer func() {
			if e := recover(); e != nil {
				ch <- w.Panic{}
			}
		}()
		ch <- f()
	}()
	select {
	case v := <-ch:
		return v
	case <-time.After(10 * time.Second):
		return w.Timeout{}
	}
}

func oracles(r *run.Runner) {
	r.Oracles["line"] = func(a []w.Val) w.Val {
		if !shapesOK(a, "ppii") {
			return w.Panic{}
		}
		return limited(func() w.Val {
			ids, err := shape.GetExtendedSpatialIdsOnLine(pointArg(a[0]), pointArg(a[1]), w.AsInt(a[2]), w.AsInt(a[3]))
			// an oracle answer must be a function of the query: the line's IDs come out of a map in a different order on every call, and
			// the second evaluator replays a repeated query with the FIRST logged answer; the model uses the line as a set (and picks its
			// least ID), so the canonical order loses nothing
			sort.Strings(ids)
			return w.WithErr(w.Strs(ids), err)
		})
	}
	r.Oracles["fit"] = func(a []w.Val) w.Val {
		if !shapesOK(a, "sf") {
			return w.Panic{}
		}
		id, c := w.AsStr(a[0]), w.AsFlt(a[1])
		// the query repeats the fit of a corridor call that has returned, so the clearance is not bounded again here (the coarse-grid
		// bounds of inDomain and fitInDomain differ); only the index sanity of fitInDomain is kept, and the call is time-limited
		if !fitInDomain(id, 0) || math.IsInf(c, 0) {
			return w.Panic{}
		}
		return limited(func() w.Val {
			// The answer must be a function of (id, clearance) alone. A preceding call that differs in every argument evicts any
			// "last arguments" state a changed implementation might keep between calls.
			dz := int64(9)
			if f, ok := parseID(id); ok && (f[0] == dz || f[3] == dz) {
				dz = 10
			}
			dc := 0.73310
			if c == dc {
				dc = 0.91170
			}
			transform.FitClearanceAroundExtendedSpatialID(EID(dz, 1, 200, dz, 0), dc)
			H, V, err := transform.FitClearanceAroundExtendedSpatialID(id, c)
			return w.WithErr(w.L(w.I(H), w.I(V)), err)
		})
	}
	// size estimates for the dispatch entry's own check of a refusal
	r.Oracles["dom"] = func(a []w.Val) w.Val {
		if !shapesOK(a, "ppiif") || isNil(a[0]) || isNil(a[1]) {
			return w.Panic{}
		}
		lon1, lat1, alt1 := pointFields(a[0])
		lon2, lat2, alt2 := pointFields(a[1])
		span, rcells, shifts := estimates(lon1, lat1, alt1, lon2, lat2, alt2, w.AsInt(a[2]), w.AsInt(a[3]), w.AsFlt(a[4]))
		return w.L(w.F(span), w.F(rcells), w.F(shifts))
	}
	r.Oracles["fitdom"] = func(a []w.Val) w.Val {
		if !shapesOK(a, "sf") {
			return w.Panic{}
		}
		f, ok := parseID(w.AsStr(a[0]))
		if !ok || f[0] < 0 || f[0] > 35 {
			return w.Panic{}
		}
		return w.L(w.F(w.AsFlt(a[1]) / ownWidth(f[0], f[1], f[2])))
	}
	// the corridor's measuring loop on the model's candidate list, one reused Measure (vdist.go)
	r.Oracles["mloop"] = func(a []w.Val) w.Val {
		if len(a) != 3 || !shapesOK(a[:2], "pp") || isNil(a[0]) || isNil(a[1]) {
			return w.Panic{}
		}
		return limited(func() w.Val {
			lon1, lat1, _ := pointFields(a[0])
			lon2, lat2, _ := pointFields(a[1])
			ds, ok := measureLoop(lon1, lat1, lon2, lat2, w.AsStrs(a[2]))
			out := w.List{}
			for i := range ds {
				if ok[i] {
					out = append(out, w.F(ds[i]))
				} else {
					out = append(out, w.Err{V: w.Nil{}})
				}
			}
			return out
		})
	}
	// closest_go between the segment and each voxel, a fresh Measure per voxel (vdist.go)
	r.Oracles["gjk"] = func(a []w.Val) w.Val {
		if len(a) != 3 || !shapesOK(a[:2], "pp") || isNil(a[0]) || isNil(a[1]) {
			return w.Panic{}
		}
		return limited(func() w.Val {
			lon1, lat1, _ := pointFields(a[0])
			lon2, lat2, _ := pointFields(a[1])
			out := w.List{}
			for _, id := range w.AsStrs(a[2]) {
				d, ok := segDistFresh(lon1, lat1, lon2, lat2, id)
				if !ok {
					return w.Panic{}
				}
				out = append(out, w.F(d))
			}
			return out
		})
	}
	// the distance the fit measures between a voxel and a probed voxel (vdist.go): [id; probed] -> distance
	r.Oracles["vdist"] = func(a []w.Val) w.Val {
		if !shapesOK(a, "ss") {
			return w.Panic{}
		}
		return limited(func() w.Val {
			d, ok := vdist(w.AsStr(a[0]), w.AsStr(a[1]))
			if !ok {
				return w.Panic{}
			}
			return w.F(d)
		})
	}
	// independent distance reference (geom.go): [p1; p2; radius; ids] -> [[lower; upper]; ...]
	r.Oracles["hdist"] = func(a []w.Val) w.Val {
		if !shapesOK(a[:3], "ppf") || len(a) != 4 || isNil(a[0]) || isNil(a[1]) {
			return w.Panic{}
		}
		p, q := w.AsList(a[0]), w.AsList(a[1])
		radius := w.AsFlt(a[2])
		out := w.List{}
		for _, s := range w.AsStrs(a[3]) {
			f, ok := parseID(s)
			if !ok || f[0] < 0 || f[0] > 35 {
				return w.Panic{}
			}
			lo, hi := hdist(w.AsFlt(p[0]), w.AsFlt(p[1]), w.AsFlt(q[0]), w.AsFlt(q[1]), f[0], f[1], f[2], radius)
			out = append(out, w.L(w.F(lo), w.F(hi)))
		}
		return out
	}
}

// ---- generators ----

type corr struct {
	p1, p2 w.Val
	h, v   int64
	r      float64
	skip   bool
	tags   []string
	mode   string
	triv   bool
}

func (c corr) args() []w.Val {
	return []w.Val{c.p1, c.p2, w.I(c.h), w.I(c.v), w.F(c.r), w.B(c.skip)}
}

func sgn(g *Gen) float64 {
	if g.Chance(0.5) {
		return -1
	}
	return 1
}

func hTag(h int64) string {
	switch {
	case h < 2:
		return "hzoom=0..1"
	case h < 6:
		return "hzoom=2..5"
	case h < 14:
		return "hzoom=6..13"
	case h < 25:
		return "hzoom=14..24"
	case h < 31:
		return "hzoom=25..30"
	}
	return "hzoom=31..35"
}

func genH(g *Gen) int64 {
	switch k := g.Intn(100); {
	case k < 42:
		return 14 + g.Int63n(11)
	case k < 57:
		return 6 + g.Int63n(8)
	case k < 72:
		return 25 + g.Int63n(6)
	case k < 80:
		return g.Pick(25, 26, 6, 30)
	case k < 88:
		return 31 + g.Int63n(5)
	case k < 94:
		return 2 + g.Int63n(4)
	}
	return g.Pick(20, 20, 16, 18, 22)
}

// a radius in units of the local cell width; class name for the distribution
func genRadiusUnits(g *Gen, h int64) (float64, string) {
	if h < 6 {
		switch g.Intn(5) {
		case 0:
			return 0, "r=0"
		case 1:
			return -0.3, "r<0"
		}
		return 0.05 + 0.4*g.R.Float64(), "r<1cell"
	}
	switch k := g.Intn(100); {
	case k < 8:
		return 0, "r=0"
	case k < 28:
		return 0.03 + 0.92*g.R.Float64(), "r<1cell"
	case k < 58:
		return 1.03 + 0.35*g.R.Float64(), "r=1..1.41cells"
	case k < 73:
		return 1.45 + 0.5*g.R.Float64(), "r=1.41..2cells"
	case k < 81:
		return 2.05 + 0.4*g.R.Float64(), "r=2..2.5cells"
	case k < 85:
		return 2.5 + 0.45*g.R.Float64(), "r=2.5..3cells"
	case k < 90:
		return g.PickF(1, 2, 0.5, 1.5) * (1 + (g.R.Float64()-0.5)*1e-9), "r=cell-multiple"
	case k < 95:
		return -(0.01 + 2*g.R.Float64()), "r<0"
	case k < 97:
		return math.NaN(), "r=NaN"
	case k < 98:
		return math.Copysign(0, -1), "r=-0"
	}
	return 1e-9, "r=tiny"
}

func stored(lon, lat, alt float64) (w.Val, bool) {
	lon = math.Max(-180, math.Min(180, lon))
	lat = math.Max(-LatMax, math.Min(LatMax, lat))
	alt = math.Max(-altLimit, math.Min(altLimit, alt))
	_, p, ok := StoredPoint(lon, lat, alt)
	return p, ok
}

// genCorr: one corridor call
func genCorr(g *Gen) (corr, bool) {
	h, v := genH(g), g.Zoom()
	c := corr{h: h, v: v, skip: g.Chance(0.45)}
	lat := g.R.Float64()*168 - 84
	lon := g.R.Float64()*358 - 179
	alt := (g.R.Float64()*2 - 1) * 1000
	if g.Chance(0.12) {
		alt = (g.R.Float64()*2 - 1) * 3.0e7
	}
	if g.Chance(0.1) {
		alt = (g.R.Float64()*2 - 1) * 2 * cellAlt(v)
	}
	cl, ca := cellLon(h), cellAlt(v)
	kind := ""
	units, rtag := genRadiusUnits(g, h)
	var a, b [3]float64
	n := int64(1) << uint(h)
	switch k := g.Intn(100); {
	case k < 22 && h >= 6 && h <= 30:
		// a short segment in one corner of its voxel, radius between 1 and 1.41 cell widths, measured: the diagonally opposite
		// neighbours touch a line voxel but are farther than the radius
		kind = "corner-short"
		x, y := g.Int63n(n), int64(rowOf(lat, h))
		wst, est, nth, sth := footprint(h, x, y)
		dl, dp := est-wst, nth-sth
		fx, fy := 0.02+0.08*g.R.Float64(), 0.02+0.08*g.R.Float64()
		gx, gy := 0.02+0.08*g.R.Float64(), 0.02+0.08*g.R.Float64()
		if g.Chance(0.5) {
			fx, gx = 1-fx, 1-gx
		}
		if g.Chance(0.5) {
			fy, gy = 1-fy, 1-gy
		}
		a = [3]float64{wst + fx*dl, sth + fy*dp, alt}
		b = [3]float64{wst + gx*dl, sth + gy*dp, alt + (g.R.Float64()*2-1)*0.3*ca*g.PickF(0, 1)}
		lat = a[1]
		if rtag != "r<0" && rtag != "r=0" {
			units, rtag = 1.05+0.33*g.R.Float64(), "r=1..1.41cells"
		}
		c.skip = g.Chance(0.2)
	case k < 34 && h >= 6 && h <= 28:
		// the line lies in the first or the last row of the grid: the box wraps across the y edge
		kind = "edge-row"
		x := g.Int63n(n)
		y := int64(0)
		if g.Chance(0.5) {
			y = n - 1
		}
		wst, est, nth, sth := footprint(h, x, y)
		nth = math.Min(nth, LatMax)
		sth = math.Max(sth, -LatMax)
		dl, dp := est-wst, nth-sth
		a = [3]float64{wst + g.R.Float64()*dl, sth + (0.15+0.7*g.R.Float64())*dp, alt}
		b = [3]float64{a[0] + (g.R.Float64()*2-1)*3*dl*g.PickF(0, 0.3, 1), sth + (0.15+0.7*g.R.Float64())*dp, alt + (g.R.Float64()*2-1)*ca*g.PickF(0, 1)}
		if g.Chance(0.3) { // into the next row
			b[1] = a[1] - math.Copysign(1.2*dp, a[1])
		}
		lat = a[1]
		if units > 0 && units < 0.3 {
			units = 0.3 + units
		}
	case k < 42 && h >= 6:
		// next to the antimeridian: the box wraps across the x edge
		kind = "antimeridian"
		lon = math.Copysign(180-g.R.Float64()*1.5*cl, sgn(g))
		a = [3]float64{lon, lat, alt}
		b = [3]float64{lon - math.Copysign(g.R.Float64()*3*cl, lon), lat + (g.R.Float64()*2-1)*2*cl*math.Cos(lat*math.Pi/180), alt}
	case k < 47:
		// exactly along a parallel or a meridian (finding class gjk_axis_parallel_segment in measured mode)
		kind = "axis-parallel"
		span := g.PickF(0.3, 1, 3, 6) * (0.5 + g.R.Float64())
		a = [3]float64{lon, lat, alt}
		if g.Chance(0.6) {
			b = [3]float64{lon + sgn(g)*span*cl, lat, alt + (g.R.Float64()*2-1)*ca*g.PickF(0, 1)}
		} else {
			b = [3]float64{lon, lat + sgn(g)*span*cl*math.Cos(lat*math.Pi/180), alt}
		}
	case k < 50:
		// steep or vertical: (almost) one footprint, many altitude cells
		kind = "steep"
		n := 3 + g.R.Float64()*g.PickF(10, 30, 60)
		if units > 1.41 {
			n = 3 + g.R.Float64()*12
		}
		a = [3]float64{lon, lat, alt}
		b = [3]float64{lon + (g.R.Float64()*2-1)*cl*g.PickF(0, 0.2, 1), lat + (g.R.Float64()*2-1)*cl*math.Cos(lat*math.Pi/180)*g.PickF(0, 0.2, 1), alt + sgn(g)*n*ca}
	case k < 54:
		kind = "single-voxel"
		q := g.PickF(0.01, 0.1, 0.3)
		a = [3]float64{lon, lat, alt}
		b = [3]float64{lon + (g.R.Float64()*2-1)*q*cl, lat + (g.R.Float64()*2-1)*q*cl*math.Cos(lat*math.Pi/180), alt + (g.R.Float64()*2-1)*q*ca}
		if g.Chance(0.3) {
			kind = "identical"
			b = a
		}
	case k < 62:
		kind = "equator-or-prime"
		if g.Chance(0.5) {
			lat = (g.R.Float64()*2 - 1) * 2 * cl
		} else {
			lon = (g.R.Float64()*2 - 1) * 2 * cl
		}
		a = [3]float64{lon, lat, alt}
		b = [3]float64{lon + (g.R.Float64()*2-1)*3*cl, lat + (g.R.Float64()*2-1)*3*cl*math.Cos(lat*math.Pi/180), alt + (g.R.Float64()*2-1)*ca}
	default:
		kind = "short"
		span := 1 + g.R.Float64()*3
		if units <= 1.41 && g.Chance(0.35) {
			kind = "medium"
			span = 4 + g.R.Float64()*10
		}
		cy := cl * math.Cos(lat*math.Pi/180)
		a = [3]float64{lon, lat, alt}
		switch g.Intn(4) {
		case 0:
			b = [3]float64{lon + sgn(g)*span*cl, lat + (g.R.Float64()*2-1)*cy, alt + (g.R.Float64()*2-1)*ca}
		case 1:
			b = [3]float64{lon + (g.R.Float64()*2-1)*cl, lat + sgn(g)*span*cy, alt + (g.R.Float64()*2-1)*ca}
		case 2:
			b = [3]float64{lon + sgn(g)*span*cl, lat + sgn(g)*span*cy, alt + (g.R.Float64()*2-1)*2*ca}
		default:
			b = [3]float64{lon + (g.R.Float64()*2-1)*span*cl, lat + (g.R.Float64()*2-1)*span*cy, alt + (g.R.Float64()*2-1)*2*ca*g.PickF(0, 1)}
		}
	}
	if h < 6 { // coarse grids: keep the line within a cell or two
		b = [3]float64{a[0] + (g.R.Float64()*2-1)*0.8*cl, a[1] + (g.R.Float64()*2-1)*0.5*cl*math.Cos(a[1]*math.Pi/180), a[2] + (g.R.Float64()*2-1)*ca}
		kind += "+coarse"
		if h >= 2 && g.Chance(0.3) {
			// a line across (almost) all columns of a coarse grid: with the layers added on both sides the search box wraps around the
			// world onto itself, so one voxel is reached through two different shifts (it must still be returned once)
			span := float64(n) - 2 + 1.9*g.R.Float64()
			lon0 := -180 + 0.01 + g.R.Float64()*0.4*cl
			a = [3]float64{lon0, a[1], a[2]}
			b = [3]float64{math.Min(179.99, lon0+span*cl), a[1] + (g.R.Float64()*2-1)*0.3*cl*math.Cos(a[1]*math.Pi/180), a[2] + (g.R.Float64()*2-1)*ca}
			kind = "world-span+coarse"
		}
	}
	var ok1, ok2 bool
	c.p1, ok1 = stored(a[0], a[1], a[2])
	c.p2, ok2 = stored(b[0], b[1], b[2])
	if !ok1 || !ok2 {
		return c, false
	}
	if g.Chance(0.5) {
		c.p1, c.p2 = c.p2, c.p1
	}
	wd := cellWidthM(h, math.Max(math.Abs(a[1]), math.Abs(b[1])))
	c.r = units * wd
	if units == 0 {
		c.r = units // keeps -0 (not negative: accepted like 0)
	}
	if rtag == "r<0" && g.Chance(0.6) { // negative radii of the size of a tolerance
		c.r, rtag = tinyNegative(g), "r=tiny-negative"
	}
	mode := "measured"
	if c.skip {
		mode = "skip"
	}
	c.tags = []string{hTag(h), rtag, "kind=" + kind}
	if math.Abs(a[1]) > 70 {
		c.tags = append(c.tags, "lat>70")
	}
	c.mode = mode
	c.triv = rtag == "r<0" || rtag == "r=tiny-negative"
	if !inDomain(c.p1, c.p2, c.h, c.v, c.r) {
		return c, false
	}
	return c, true
}

// negative numbers too small for any absolute tolerance to tell from 0: still negative, still an error
func tinyNegative(g *Gen) float64 {
	return g.PickF(-1e-9, -1e-10, -1e-12, -1e-15, -1e-300, -5e-324, -2.2250738585072014e-308, -1e-7)
}

var badZooms = []int64{-1, 36, 37, 100, math.MinInt64, math.MaxInt64}

// error paths: nil points, zooms outside 0..35, negative radius (each alone and combined)
func spoil(g *Gen, c corr) corr {
	c.triv = true
	switch g.Intn(7) {
	case 0:
		c.p1 = w.Nil{}
		c.tags = append(c.tags, "nil-start")
	case 1:
		c.p2 = w.Nil{}
		c.tags = append(c.tags, "nil-end")
	case 2:
		c.h = badZooms[g.Intn(len(badZooms))]
		c.tags = append(c.tags, "bad-hzoom")
	case 3:
		c.v = badZooms[g.Intn(len(badZooms))]
		c.tags = append(c.tags, "bad-vzoom")
	case 4:
		c.r = -math.Abs(c.r) - g.PickF(1e-300, 1, 1e6)
		c.tags = append(c.tags, "negative-radius")
	case 5:
		c.r = g.PickF(tinyNegative(g), tinyNegative(g), math.Inf(-1))
		c.tags = append(c.tags, "negative-radius")
	default:
		c.p1, c.p2 = w.Nil{}, w.Nil{}
		c.r = -1
		c.tags = append(c.tags, "nil-both+negative-radius")
	}
	return c
}

func mustCorr(g *Gen) corr {
	for {
		if c, ok := genCorr(g); ok {
			return c
		}
	}
}

// the same zooms and radius at clearly different latitudes: the radius is 2.2..2.9 cell widths at the high latitude (3 layers) and
// therefore 0.55..1.55 widths at the low one (1 or 2 layers); both calls are inside the bounded quantifier
func genLatPair(g *Gen) (north, south corr, r2 float64) {
	for {
		h := 15 + g.Int63n(9)
		v := g.Zoom()
		latHi := sgn(g) * (58 + g.R.Float64()*17)
		latLo := (g.R.Float64()*2 - 1) * 8
		cl := cellLon(h)
		ok := true
		var r float64
		mk := func(lat float64) corr {
			lon := g.R.Float64()*358 - 179
			alt := (g.R.Float64()*2 - 1) * 500
			c := corr{h: h, v: v}
			var o1, o2 bool
			c.p1, o1 = stored(lon, lat, alt)
			c.p2, o2 = stored(lon+(g.R.Float64()*2-1)*2*cl, lat+(g.R.Float64()*2-1)*2*cl*math.Cos(lat*math.Pi/180), alt)
			ok = ok && o1 && o2
			return c
		}
		n, s := mk(latHi), mk(latLo)
		if !ok {
			continue
		}
		_, la1, _ := pointFields(n.p1)
		_, la2, _ := pointFields(n.p2)
		r = (2.2 + 0.7*g.R.Float64()) * cellWidthM(h, math.Max(math.Abs(la1), math.Abs(la2)))
		n.r, s.r = r, r
		r2 = r * (0.3 + 0.2*g.R.Float64())
		if inDomain(n.p1, n.p2, h, v, r) && inDomain(s.p1, s.p2, h, v, r) && inDomain(s.p1, s.p2, h, v, r2) {
			return n, s, r2
		}
	}
}

func seqArgs(cs []corr) []w.Val {
	l := w.List{}
	for _, c := range cs {
		l = append(l, w.List(c.args()))
	}
	return []w.Val{l}
}

func genSequence(g *Gen) ([]corr, string) {
	for {
		cs, kind := genSequence1(g)
		ok := true
		for _, c := range cs {
			ok = ok && inDomain(c.p1, c.p2, c.h, c.v, c.r)
		}
		if ok {
			return cs, kind
		}
	}
}

func genSequence1(g *Gen) ([]corr, string) {
	switch g.Intn(6) {
	case 0, 1: // north(r) -> low(r') -> low(r) -> north(r)   (and the mirror image)
		n, s, r2 := genLatPair(g)
		skip := g.Chance(0.5)
		n.skip, s.skip = skip, g.Chance(0.5)
		s2 := s
		s2.r = r2
		if g.Chance(0.5) {
			return []corr{n, s2, s, n}, "lat-change"
		}
		return []corr{s, n, s2, n, s}, "lat-change"
	case 2: // identical call twice, then the other mode
		c := mustCorr(g)
		if g.Chance(0.5) { // along a parallel, measured: the state of the reused Measure matters most here
			for try := 0; try < 200 && !strings.Contains(strings.Join(c.tags, " "), "axis-parallel"); try++ {
				c = mustCorr(g)
			}
			c.skip = false
			return []corr{c, c, c, c}, "identical-measured"
		}
		d := c
		d.skip = !c.skip
		return []corr{c, c, d, c}, "identical+mode"
	case 3: // same points, other radius, back
		c := mustCorr(g)
		d, e := c, c
		d.r = 0
		e.r = c.r * g.PickF(0.5, 1.7, 2.2)
		if !inDomain(e.p1, e.p2, e.h, e.v, e.r) {
			e.r = c.r * 0.5
		}
		return []corr{c, d, e, c}, "radius-change"
	case 4: // same radius and zooms, other place; other vertical zoom
		c := mustCorr(g)
		d := mustCorr(g)
		d.h, d.v, d.r = c.h, c.v, c.r
		if !inDomain(d.p1, d.p2, d.h, d.v, d.r) {
			d = c
		}
		e := c
		e.v = (c.v + 1 + g.Int63n(5)) % 36
		if !inDomain(e.p1, e.p2, e.h, e.v, e.r) {
			e = c
		}
		return []corr{c, d, e, c}, "place-change"
	}
	// an error between two valid calls
	c := mustCorr(g)
	return []corr{c, spoil(g, c), c}, "error-between"
}

// ---- the fit called directly ----

type fitc struct {
	id string
	c  float64
}

func fitArgs(f fitc) []w.Val { return []w.Val{w.S(f.id), w.F(f.c)} }

func genFitID(g *Gen, lat float64) (string, int64, int64, int64) {
	h := genH(g)
	n := int64(1) << uint(h)
	x := g.Int63n(n)
	y := int64(rowOf(lat, h))
	if y < 0 {
		y = 0
	}
	if y >= n {
		y = n - 1
	}
	switch g.Intn(12) {
	case 0:
		y = 0
	case 1:
		y = n - 1
	case 2:
		x = 0
	case 3:
		x = n - 1
	}
	v := g.Zoom()
	return EID(h, x, y, v, g.VIndex(v)), h, x, y
}

func genFit(g *Gen) (fitc, []string, bool) {
	lat := g.R.Float64()*168 - 84
	id, h, x, y := genFitID(g, lat)
	units, rtag := genRadiusUnits(g, h)
	f := fitc{id: id, c: units * ownWidth(h, x, y)}
	if units == 0 {
		f.c = units
	}
	if rtag == "r<0" && g.Chance(0.6) {
		f.c, rtag = tinyNegative(g), "r=tiny-negative"
	}
	tags := []string{hTag(h), rtag}
	triv := rtag == "r<0" || rtag == "r=tiny-negative"
	switch k := g.Intn(100); {
	case k < 14: // malformed ID, every kind of clearance (0 included: the ID is checked before anything is compared)
		f.id = g.Malformed()
		f.c = g.PickF(0, 0, math.Copysign(0, -1), 1.5, 30, -1, math.NaN())
		tags = []string{"malformed-id", Tag("c=%v", f.c)}
		triv = true
	case k < 22: // well-formed, zoom outside 0..35
		fs := strings.Split(EID(g.Int63n(4), g.Int63n(3), g.Int63n(3), g.Int63n(4), g.Int63n(5)-2), "/")
		i := g.Pick(0, 3)
		fs[i] = strconv.FormatInt(g.Pick(36, 37, -1, 100, 64), 10)
		f.id = strings.Join(fs, "/")
		f.c = g.PickF(0, 0, 1.5, 30, -1)
		tags = []string{"zoom-out-of-range", Tag("c=%v", f.c)}
		triv = true
	case k < 26 && h >= 2:
		f.id = EID(g.Pick(0, 1), 0, 0, g.Zoom(), 0)
		f.c = g.PickF(0, -1, math.Copysign(0, -1))
		tags = []string{"hzoom=0..1", Tag("c=%v", f.c)}
	}
	return f, tags, triv
}

func genFitSequence(g *Gen) ([]fitc, string) {
	for {
		fs, kind := genFitSequence1(g)
		ok := true
		for _, f := range fs {
			ok = ok && fitInDomain(f.id, f.c)
		}
		if ok {
			return fs, kind
		}
	}
}

func genFitSequence1(g *Gen) ([]fitc, string) {
	switch g.Intn(4) {
	case 0, 1: // same zooms and clearance, rows at clearly different latitudes
		h := 12 + g.Int63n(14)
		v := g.Zoom()
		n := int64(1) << uint(h)
		latHi, latLo := sgn(g)*(58+g.R.Float64()*20), (g.R.Float64()*2-1)*8
		yh, yl := int64(rowOf(latHi, h)), int64(rowOf(latLo, h))
		xh, xl := g.Int63n(n), g.Int63n(n)
		c := (2.2 + 0.7*g.R.Float64()) * ownWidth(h, xh, yh) // 3 layers at the high latitude, 1 or 2 at the low one
		hi := fitc{EID(h, xh, yh, v, g.VIndex(v)), c}
		lo := fitc{EID(h, xl, yl, v, g.VIndex(v)), c}
		lo2 := lo
		lo2.c = c * 0.4
		if g.Chance(0.5) {
			return []fitc{hi, lo2, lo, hi}, "lat-change"
		}
		return []fitc{lo, hi, lo2, hi, lo}, "lat-change"
	case 2: // zero clearance: valid, malformed, valid
		f, _, _ := genFit(g)
		for !fitInDomain(f.id, f.c) {
			f, _, _ = genFit(g)
		}
		z := f
		z.c = 0
		return []fitc{z, {g.Malformed(), 0}, f, {g.Malformed(), 0}, z}, "zero-and-malformed"
	}
	f, _, _ := genFit(g)
	for !fitInDomain(f.id, f.c) {
		f, _, _ = genFit(g)
	}
	d := f
	d.c = f.c * 0.5
	return []fitc{f, f, d, f}, "identical+clearance-change"
}

// genFitLoop: clearances at and next to the distances the loop actually probes (k cell widths +- epsilon, k = 0..3), so that the
// stop condition `clearance > dist` is exercised at equality; voxels at low and high latitude, first / last row and column,
// vertical zoom much coarser or finer than the horizontal one
func genFitLoop(g *Gen) (fitc, []string, bool) {
	for try := 0; try < 50; try++ {
		h := genH(g)
		coarse := h < 6
		n := int64(1) << uint(h)
		lat := g.R.Float64()*168 - 84
		ltag := "lat=mid"
		switch g.Intn(4) {
		case 0:
			lat, ltag = (g.R.Float64()*2-1)*5, "lat=low"
		case 1:
			lat, ltag = sgn(g)*(70+g.R.Float64()*15), "lat=high"
		}
		x, y := g.Int63n(n), int64(rowOf(lat, h))
		if y < 0 {
			y = 0
		}
		if y >= n {
			y = n - 1
		}
		switch g.Intn(14) {
		case 0:
			y, ltag = 0, "row=first"
		case 1:
			y, ltag = n-1, "row=last"
		case 2:
			x = 0
		case 3:
			x = n - 1
		}
		v, vtag := g.Zoom(), "v~h"
		switch g.Intn(3) {
		case 0:
			v, vtag = g.Int63n(4), "v<<h"
			if h < 12 {
				v, vtag = 30+g.Int63n(6), "v>>h"
			}
		case 1:
			v, vtag = 32+g.Int63n(4), "v>>h"
			if h > 26 {
				v, vtag = g.Int63n(4), "v<<h"
			}
		}
		id := EID(h, x, y, v, g.VIndex(v))
		k := 1 + g.Int63n(4) // the probe whose distance the clearance is placed at: 1 (distance 0) .. 4 (about 3 widths)
		probed := EID(h, (x+k)%n, y, v, 0)
		axis := "x"
		if g.Chance(0.4) {
			probed, axis = EID(h, x, (y+k)%n, v, 0), "y"
		}
		d, ok := vdist(id, probed)
		if !ok {
			continue
		}
		c, ctag := d, "c=dist"
		switch g.Intn(6) {
		case 0:
			c, ctag = math.Nextafter(d, math.Inf(1)), "c=dist+ulp"
		case 1:
			c, ctag = math.Nextafter(d, math.Inf(-1)), "c=dist-ulp"
		case 2:
			c, ctag = d*(1+1e-9), "c=dist+eps"
		case 3:
			c, ctag = d*(1-1e-9), "c=dist-eps"
		case 4:
			c, ctag = d*(0.55+0.9*g.R.Float64()), "c=between"
		}
		if k == 1 && g.Chance(0.5) {
			c, ctag = g.PickF(0, math.Copysign(0, -1), 5e-324, 1e-12, ownWidth(h, x, y)*0.5), "c=0-or-tiny"
		}
		if coarse { // at most half a width of the shorter edge: the first probes only
			c, ctag = ownWidth(h, x, y)*g.PickF(0, 1e-9, 0.1, 0.3, 0.49)*g.R.Float64(), "c<0.5cell"
		}
		if math.IsNaN(c) || c < 0 || !fitInDomain(id, c) {
			continue
		}
		return fitc{id, c}, []string{hTag(h), ltag, vtag, Tag("probe=%s%d", axis, k), ctag}, false
	}
	return fitc{"20/931451/412943/20/0", 45}, []string{"fallback"}, false
}

func bucket(n int) int {
	for _, b := range []int{0, 1, 2, 5, 10, 20, 50, 100, 200, 500, 1000, 2000, 5000} {
		if n <= b {
			return b
		}
	}
	return 100000
}

func sizeTag(r *run.Runner, vd run.Verdict) {
	if l, ok := vd.Model.(w.List); ok {
		r.Sum.Tags[Tag("ids<=%d", bucket(len(l)))]++
	}
}

func init() {
	Scale["C14"] = 800
	Registry["C14"] = func(r *run.Runner, g *Gen, n int) {
		oracles(r)
		r.Register(
			&run.Fn{Name: fnCorr, Invoke: guarded("ppiifb", callCorridor)},
			&run.Fn{Name: fnPair, Invoke: guarded("ppiif", func(a []w.Val) w.Val {
				m := callCorridor(append(append([]w.Val{}, a...), w.B(false)))
				s := callCorridor(append(append([]w.Val{}, a...), w.B(true)))
				return w.L(m, s)
			})},
			&run.Fn{Name: fnSeq, Invoke: seqOf(guarded("ppiifb", callCorridor)), Timeout: 30 * time.Second},
			&run.Fn{Name: fnFit, Invoke: guarded("sf", callFit)},
			&run.Fn{Name: fnFitSeq, Invoke: seqOf(guarded("sf", callFit)), Timeout: 30 * time.Second},
			&run.Fn{Name: fnFitLoop, Invoke: guarded("sf", callFit)},
		)
		if n == 0 {
			return
		}
		// fixed witnesses, always run first: the radius-0 identity at zoom 20/20, and a malformed ID with clearance 0
		if p1, ok := stored(139.788452, 35.670930, 10); ok {
			p2, _ := stored(139.788952, 35.671230, 12)
			for _, skip := range []bool{false, true} {
				r.Run(run.Case{Prop: "C14", Fn: fnCorr, Tags: []string{"fixed-witness"},
					Args: []w.Val{p1, p2, w.I(20), w.I(20), w.F(0), w.B(skip)}})
				r.Run(run.Case{Prop: "C14", Fn: fnCorr, Tags: []string{"fixed-witness"},
					Args: []w.Val{p1, p2, w.I(20), w.I(20), w.F(45), w.B(skip)}})
			}
		}
		// the recorded witness of finding class gjk_axis_parallel_segment: a segment exactly along a parallel; the measured result keeps
		// 23/1649574/2408208/20/{-2..2}, whose footprint is 3.80 m from the segment (radius 2.5 m)
		if p1, ok := stored(-109.20797, 60.59197, 10); ok {
			p2, _ := stored(-109.207915, 60.59197, 10)
			r.Run(run.Case{Prop: "C14", Fn: fnCorr, Tags: []string{"fixed-witness", "gjk-witness"},
				Args: []w.Val{p1, p2, w.I(23), w.I(20), w.F(2.5), w.B(false)}})
		}
		// the recorded witness of finding class measure_reuse_axis_parallel_segment: 23/3453970/2468879/20/-2 is kept although
		// closest_go asked with a fresh Measure reports 4.57 m (radius 3.1 m); the reused measure1 stops too early
		if p1, ok := stored(-31.7717, 59.28794, 10); ok {
			p2, _ := stored(-31.771634, 59.28794, 10)
			r.Run(run.Case{Prop: "C14", Fn: fnCorr, Tags: []string{"fixed-witness", "reuse-witness"},
				Args: []w.Val{p1, p2, w.I(23), w.I(20), w.F(3.1), w.B(false)}})
		}
		// identical measured-mode calls return identical sets (fix 915e48e): the two witnesses above, six times each, back to back
		// (with the candidates measured in map order the first one gave 32 different results in 300 calls)
		for _, q := range [][5]float64{{-109.20797, 60.59197, -109.207915, 60.59197, 2.5}, {-31.7717, 59.28794, -31.771634, 59.28794, 3.1}} {
			p1, ok1 := stored(q[0], q[1], 10)
			p2, ok2 := stored(q[2], q[3], 10)
			if ok1 && ok2 {
				c := corr{p1: p1, p2: p2, h: 23, v: 20, r: q[4], skip: false}
				r.Run(run.Case{Prop: "C14", Fn: fnSeq, Tags: []string{"fixed-witness", "seq=identical-measured"}, Args: seqArgs([]corr{c, c, c, c, c, c})})
			}
		}
		// a negative radius is an error however small it is; -0 is not negative (accepted like 0)
		if p1, ok := stored(139.788452, 35.670930, 10); ok {
			p2, _ := stored(139.788952, 35.671230, 12)
			for _, rad := range []float64{-1e-10, -1e-12, -1e-300, -5e-324, -1e-9, -1e-6, -1, math.Copysign(0, -1)} {
				for _, skip := range []bool{false, true} {
					r.Run(run.Case{Prop: "C14", Fn: fnCorr, Tags: []string{"fixed-witness", "r=tiny-negative-or--0"}, Trivial: true,
						Args: []w.Val{p1, p2, w.I(20), w.I(20), w.F(rad), w.B(skip)}})
				}
				r.Run(run.Case{Prop: "C14", Fn: fnFit, Tags: []string{"fixed-witness", "r=tiny-negative-or--0"}, Trivial: true,
					Args: fitArgs(fitc{"20/931451/412943/20/0", rad})})
			}
		}
		r.Run(run.Case{Prop: "C14", Fn: fnFit, Tags: []string{"fixed-witness"}, Trivial: true, Args: fitArgs(fitc{"20/1/1/20", 0})})
		r.Run(run.Case{Prop: "C14", Fn: fnFit, Tags: []string{"fixed-witness"}, Trivial: true, Args: fitArgs(fitc{"a/0/0/0/0", 0})})
		for i := 0; i < n && !r.Stopped(); i++ {
			switch k := g.Intn(100); {
			case k < 34:
				c := mustCorr(g)
				if g.Chance(0.07) {
					c = spoil(g, c)
				}
				vd := r.Run(run.Case{Prop: "C14", Fn: fnCorr, Tags: append([]string{fnCorr, c.mode}, c.tags...), Trivial: c.triv, Args: c.args()})
				sizeTag(r, vd)
			case k < 56:
				c := mustCorr(g)
				if g.Chance(0.05) {
					c = spoil(g, c)
				}
				r.Run(run.Case{Prop: "C14", Fn: fnPair, Tags: append([]string{fnPair}, c.tags...), Trivial: c.triv, Args: c.args()[:5]})
			case k < 67:
				cs, kind := genSequence(g)
				r.Run(run.Case{Prop: "C14", Fn: fnSeq, Tags: []string{fnSeq, "seq=" + kind, hTag(cs[0].h)}, Args: seqArgs(cs)})
			case k < 82:
				f, tags, triv := genFitLoop(g)
				if g.Chance(0.08) { // error paths go through the same entry
					f, tags, triv = genFit(g)
					if !fitInDomain(f.id, f.c) {
						i--
						continue
					}
				}
				r.Run(run.Case{Prop: "C14", Fn: fnFitLoop, Tags: append([]string{fnFitLoop}, tags...), Trivial: triv, Args: fitArgs(f)})
			case k < 92:
				f, tags, triv := genFit(g)
				if !fitInDomain(f.id, f.c) {
					i--
					continue
				}
				r.Run(run.Case{Prop: "C14", Fn: fnFit, Tags: append([]string{fnFit}, tags...), Trivial: triv, Args: fitArgs(f)})
			default:
				fs, kind := genFitSequence(g)
				l := w.List{}
				for _, f := range fs {
					l = append(l, w.List(fitArgs(f)))
				}
				r.Run(run.Case{Prop: "C14", Fn: fnFitSeq, Tags: []string{fnFitSeq, "seq=" + kind}, Args: []w.Val{l}})
			}
		}
	}
}
