// Package c15: property C15 — invalid input is rejected with an error, never a panic or a silent answer.
// One invoker per catalogued exported function (meta/C15.json) and a seeded generator that feeds each of them
//   - malformed ID strings (wrong arity 0..7 fields, empty field, spaces, sign only, hex, 20-digit overflow, non-ASCII digits, NUL,
//     trailing slash / newline) alone and mixed into otherwise valid lists at the first, a middle and the last position,
//   - zoom arguments -1, 36, 0 / 32 for quadkeys, MinInt64, MaxInt64 and other far values, layer counts -1 / MinInt64,
//     radii -0.001 / -Inf, coordinates one ulp beyond the limits and +-Inf, nil points at every list position, unknown options,
//   - about 30 % valid calls (a valid call must NOT be refused: the error flag is compared with the model's),
//   - about 10 % sequences of related calls made back to back (same base arguments, one of them turned invalid, and back).
//
// List results are observed as their length, objects as their fields. Well-formed IDs keep their zoom fields in 0..35 and every
// call is bounded in output size: the bound is computed as if no validation existed, so that a tree whose checks were removed
// cannot exhaust memory; a call above the bound is not made (marker string) and the generator never emits one.
package c15

import (
	"fmt"
	"math"
	"math/rand"
	"strconv"
	"strings"

	"github.com/trajectoryjp/spatial_id_go/v4/common/enum"
	sperrors "github.com/trajectoryjp/spatial_id_go/v4/common/errors"
	"github.com/trajectoryjp/spatial_id_go/v4/common/object"
	"github.com/trajectoryjp/spatial_id_go/v4/detector"
	"github.com/trajectoryjp/spatial_id_go/v4/integrate"
	"github.com/trajectoryjp/spatial_id_go/v4/operated"
	"github.com/trajectoryjp/spatial_id_go/v4/shape"
	"github.com/trajectoryjp/spatial_id_go/v4/transform"

	. "verif/harness/gen"
	"verif/harness/run"
	w "verif/harness/wire"
)

const (
	minI = math.MinInt64
	maxI = math.MaxInt64
	cap_ = 4000.0 // bound on the number of IDs a call may produce
)

var skipped = w.S("skipped-too-large")

func lenErr(n int, err error) w.Val { return withErr(w.I(int64(n)), err) }

// withErr reports a non-nil error together with its kind: Err{(payload, kind)}. The kind of a spatialIdError is its code (the part of
// Error() before the first comma, common/errors/errors.go); any other error value (fmt.Errorf, also one that wraps a spatialIdError) is "plain".
func withErr(v w.Val, err error) w.Val {
	if err == nil {
		return v
	}
	kind := "plain"
	if strings.HasSuffix(fmt.Sprintf("%T", err), "spatialIdError") {
		kind = strings.SplitN(err.Error(), ",", 2)[0]
	}
	return w.Err{V: w.L(v, w.S(kind))}
}

// ---------------------------------------------------------------------------------------------------------------- parsing / costs

func ints(s string, n int) ([]int64, bool) {
	fs := strings.Split(s, "/")
	if len(fs) != n {
		return nil, false
	}
	r := make([]int64, n)
	for i, f := range fs {
		v, err := strconv.ParseInt(f, 10, 64)
		if err != nil {
			return nil, false
		}
		r[i] = v
	}
	return r, true
}
func zok(z int64) bool { return 0 <= z && z <= 35 }
func validE(f []int64) bool {
	h, x, y, v, i := f[0], f[1], f[2], f[3], f[4]
	return zok(h) && zok(v) && 0 <= x && x < 1<<uint(h) && 0 <= y && y < 1<<uint(h) && -(int64(1)<<uint(v)) <= i && i < 1<<uint(v)
}

// extended form of a string under the given notation (4 = spatial z/f/x/y, 5 = extended); ok=false: not parseable
func asE(s string, arity int) ([]int64, bool) {
	f, ok := ints(s, arity)
	if !ok {
		return nil, false
	}
	if arity == 4 {
		return []int64{f[0], f[2], f[3], f[0], f[1]}, true
	}
	return f, true
}
func near(z int64) bool { return -1000 <= z && z <= 36 }

// at a far-away target zoom only members whose own zoom fields read as huge (overflow spellings) are harmless
func farOK(ms [][]int64, zs ...int64) bool {
	far := false
	for _, z := range zs {
		if !near(z) {
			far = true
		}
	}
	if !far {
		return true
	}
	for _, f := range ms {
		if f[0] < 1<<40 || f[3] < 1<<40 {
			return false
		}
	}
	return true
}
func pw(base float64, d int64) float64 {
	if d <= 0 {
		return 1
	}
	if d > 40 {
		return math.Inf(1)
	}
	return math.Pow(base, float64(d))
}

// a - b without wrap-around
func sub(a, b int64) int64 {
	d := float64(a) - float64(b)
	if d > 1e6 {
		return 1e6
	}
	if d < -1e6 {
		return -1e6
	}
	return a - b
}

// lenient reading of a string that is NOT a well-formed ID, as a tree without validation might read it: the first `arity` fields
// (missing ones read as 0), a field that does not parse reads as what strconv returns next to the error (0, or the clamped bound)
func lenient(s string, arity int) []int64 {
	fs := strings.Split(s, "/")
	r := make([]int64, arity)
	for i := 0; i < arity && i < len(fs); i++ {
		v, _ := strconv.ParseInt(fs[i], 10, 64)
		r[i] = v
	}
	if arity == 4 {
		return []int64{r[0], r[2], r[3], r[0], r[1]}
	}
	return r
}

// members of a list in extended form: the parsed ones and the lenient reading of the others (used only to bound the work a call
// could do if nothing were validated); bad=true: a member parses but is not a valid ID (outside the property's quantifier)
func members(ids []string, arity int) (ms [][]int64, bad bool) {
	for _, s := range ids {
		if f, ok := asE(s, arity); ok {
			if !validE(f) {
				return nil, true
			}
			ms = append(ms, f)
		} else {
			ms = append(ms, lenient(s, arity))
		}
	}
	return ms, false
}

// number of IDs a zoom change / key conversion toward (H, V) would enumerate if nothing were validated
func costChange(ids []string, arity int, H, V int64) float64 {
	ms, bad := members(ids, arity)
	if bad {
		return math.Inf(1)
	}
	if len(ms) == 0 {
		return 0
	}
	if !farOK(ms, H, V) {
		return math.Inf(1)
	}
	c := 0.0
	for _, f := range ms {
		c += pw(4, sub(H, f[0])) * pw(2, sub(V, f[3]))
	}
	return c
}
func costMerge(ids []string, arity int, H, V int64) float64 {
	ms, bad := members(ids, arity)
	if bad {
		return math.Inf(1)
	}
	if len(ms) == 0 {
		return 0
	}
	if !farOK(ms, H, V) {
		return math.Inf(1)
	}
	var mh, mv int64
	for _, f := range ms {
		if f[0] > mh {
			mh = f[0]
		}
		if f[3] > mv {
			mv = f[3]
		}
	}
	c := 0.0
	for _, f := range ms {
		c += pw(4, sub(mh, f[0])) * pw(2, sub(mv, f[3]))
	}
	return c
}
func costN(ids []string, H, V int64) float64 {
	_, bad := members(ids, 5)
	if bad {
		return math.Inf(1)
	}
	if H < 0 || V < 0 {
		return 0 // refused before anything is built; without the check the loops do not run either
	}
	if H > 3 || V > 3 {
		return math.Inf(1)
	}
	return float64(len(ids)) * float64((2*H+1)*(2*H+1)*(2*V+1))
}
func costAlt(ids []string, oq, oa, E, O int64) float64 {
	ms, bad := members(ids, 5)
	if bad {
		return math.Inf(1)
	}
	if len(ms) == 0 {
		return 0
	}
	if !near(oq) || !near(oa) || !zok(E) {
		return math.Inf(1)
	}
	c := 0.0
	for _, f := range ms {
		cnt := pw(2, sub(sub(oa, E), sub(f[3], 25))) // keys per voxel height, as if nothing were validated
		if cnt < 1 {
			cnt = 1
		}
		c += pw(4, sub(oq, f[0])) * (cnt + 1)
	}
	return c
}

type item struct {
	qz, qk, vz, vi int64
	mx, mn         float64
}

func costItems(items []item, oh, ov int64) float64 {
	if len(items) == 0 {
		return 0
	}
	if !near(oh) || !near(ov) {
		return math.Inf(1)
	}
	c := 0.0
	for _, it := range items {
		dh, dv := int64(0), int64(0)
		if -64 <= it.qz && it.qz <= 64 {
			dh = oh - it.qz
		}
		if -64 <= it.vz && it.vz <= 64 {
			dv = ov - it.vz
		}
		c += pw(4, dh) * pw(2, dv)
	}
	return c
}

type tile struct{ h, x, y, v, z int64 }

func costTiles(ts []tile, E, O, outV int64, spatial bool) float64 {
	if len(ts) == 0 {
		return 0
	}
	if !near(outV) || !zok(E) {
		return math.Inf(1)
	}
	c := 0.0
	for _, t := range ts {
		cnt := pw(2, (E-t.v)+(outV-25)) + 1
		if spatial {
			if outV > t.h {
				cnt *= pw(4, outV-t.h)
			} else {
				cnt *= pw(2, t.h-outV)
			}
		}
		c += cnt
	}
	return c
}

// ---------------------------------------------------------------------------------------------------------------- wire decoding

func ptFromVal(v w.Val) *object.Point {
	ps := PointsFromVal(w.L(v))
	return ps[0]
}
func itemsFromVal(v w.Val) ([]*object.QuadkeyAndVerticalID, []item) {
	var r []*object.QuadkeyAndVerticalID
	var is []item
	for _, it := range w.AsList(v) {
		f := w.AsList(it)
		x := item{w.AsInt(f[0]), w.AsInt(f[1]), w.AsInt(f[2]), w.AsInt(f[3]), w.AsFlt(f[4]), w.AsFlt(f[5])}
		is = append(is, x)
		r = append(r, object.NewQuadkeyAndVerticalID(x.qz, x.qk, x.vz, x.vi, x.mx, x.mn))
	}
	return r, is
}
func tileFromVal(v w.Val) tile {
	f := w.AsInts(v)
	return tile{f[0], f[1], f[2], f[3], f[4]}
}
func tilesFromVal(v w.Val) ([]*object.TileXYZ, []tile) {
	var r []*object.TileXYZ
	var ts []tile
	for _, e := range w.AsList(v) {
		t := tileFromVal(e)
		o, err := object.NewTileXYZ(t.h, t.x, t.y, t.v, t.z)
		if err != nil {
			panic("harness: tile of a request cannot be built")
		}
		r = append(r, o)
		ts = append(ts, t)
	}
	return r, ts
}
func tileVal(t *object.TileXYZ) w.Val {
	if t == nil {
		return w.Nil{}
	}
	return w.L(w.I(t.HZoom()), w.I(t.X()), w.I(t.Y()), w.I(t.VZoom()), w.I(t.Z()))
}
func pairErr(a, b int64, err error) w.Val { return withErr(w.L(w.I(a), w.I(b)), err) }

// ---------------------------------------------------------------------------------------------------------------- invokers

var calls = map[string]func(a []w.Val) w.Val{
	// common/object
	"NewPoint": func(a []w.Val) w.Val {
		p, err := object.NewPoint(w.AsFlt(a[0]), w.AsFlt(a[1]), w.AsFlt(a[2]))
		return withErr(PointVal(p), err)
	},
	"Point.SetLon": func(a []w.Val) w.Val {
		p := ptFromVal(a[0])
		err := p.SetLon(w.AsFlt(a[1]))
		return withErr(PointVal(p), err)
	},
	"Point.SetLat": func(a []w.Val) w.Val {
		p := ptFromVal(a[0])
		err := p.SetLat(w.AsFlt(a[1]))
		return withErr(PointVal(p), err)
	},
	"NewExtendedSpatialID": func(a []w.Val) w.Val {
		o, err := object.NewExtendedSpatialID(w.AsStr(a[0]))
		if o == nil {
			return withErr(w.Nil{}, err)
		}
		return withErr(w.Ints(o.FieldParams()), err)
	},
	"ExtendedSpatialID.ResetExtendedSpatialID": func(a []w.Val) w.Val {
		o, err := object.NewExtendedSpatialID(w.AsStr(a[0]))
		if err != nil {
			panic("harness: the initial ID of a reset case must be valid")
		}
		err = o.ResetExtendedSpatialID(w.AsStr(a[1]))
		return withErr(w.Ints(o.FieldParams()), err)
	},
	"NewTileXYZ": func(a []w.Val) w.Val {
		t, err := object.NewTileXYZ(w.AsInt(a[0]), w.AsInt(a[1]), w.AsInt(a[2]), w.AsInt(a[3]), w.AsInt(a[4]))
		return withErr(tileVal(t), err)
	},
	"TileXYZ.SetHZoom": func(a []w.Val) w.Val {
		ts, _ := tilesFromVal(w.L(a[0]))
		err := ts[0].SetHZoom(w.AsInt(a[1]))
		return withErr(tileVal(ts[0]), err)
	},
	"TileXYZ.SetVZoom": func(a []w.Val) w.Val {
		ts, _ := tilesFromVal(w.L(a[0]))
		err := ts[0].SetVZoom(w.AsInt(a[1]))
		return withErr(tileVal(ts[0]), err)
	},
	// shape
	"GetExtendedSpatialIdsOnPoints": func(a []w.Val) w.Val {
		ids, err := shape.GetExtendedSpatialIdsOnPoints(PointsFromVal(a[0]), w.AsInt(a[1]), w.AsInt(a[2]))
		return lenErr(len(ids), err)
	},
	"GetSpatialIdsOnPoints": func(a []w.Val) w.Val {
		ids, err := shape.GetSpatialIdsOnPoints(PointsFromVal(a[0]), w.AsInt(a[1]))
		return lenErr(len(ids), err)
	},
	"GetExtendedSpatialIdsOnLine": func(a []w.Val) w.Val {
		ids, err := shape.GetExtendedSpatialIdsOnLine(ptFromVal(a[0]), ptFromVal(a[1]), w.AsInt(a[2]), w.AsInt(a[3]))
		return lenErr(len(ids), err)
	},
	"GetSpatialIdsOnLine": func(a []w.Val) w.Val {
		ids, err := shape.GetSpatialIdsOnLine(ptFromVal(a[0]), ptFromVal(a[1]), w.AsInt(a[2]))
		return lenErr(len(ids), err)
	},
	"GetPointOnExtendedSpatialId": func(a []w.Val) w.Val {
		ps, err := shape.GetPointOnExtendedSpatialId(w.AsStr(a[0]), enum.PointOption(w.AsInt(a[1])))
		return lenErr(len(ps), err)
	},
	"GetPointOnSpatialId": func(a []w.Val) w.Val {
		ps, err := shape.GetPointOnSpatialId(w.AsStr(a[0]), enum.PointOption(w.AsInt(a[1])))
		return lenErr(len(ps), err)
	},
	"ConvertSpatialIdsToExtendedSpatialIds": func(a []w.Val) w.Val {
		r, err := shape.ConvertSpatialIdsToExtendedSpatialIds(w.AsStrs(a[0]))
		return lenErr(len(r), err)
	},
	"ConvertExtendedSpatialIdsToSpatialIds": func(a []w.Val) w.Val {
		r, err := shape.ConvertExtendedSpatialIdsToSpatialIds(w.AsStrs(a[0]))
		return lenErr(len(r), err)
	},
	"ConvertPointListToProjectedPointList": func(a []w.Val) w.Val {
		r, err := shape.ConvertPointListToProjectedPointList(PointsFromVal(a[0]), int(w.AsInt(a[1])))
		return lenErr(len(r), err)
	},
	"ConvertProjectedPointListToPointList": func(a []w.Val) w.Val {
		var ps []*object.ProjectedPoint
		for _, e := range w.AsList(a[0]) {
			l := w.AsList(e)
			ps = append(ps, &object.ProjectedPoint{X: w.AsFlt(l[0]), Y: w.AsFlt(l[1]), Alt: w.AsFlt(l[2])})
		}
		r, err := shape.ConvertProjectedPointListToPointList(ps, int(w.AsInt(a[1])))
		return lenErr(len(r), err)
	},
	// integrate
	"ChangeExtendedSpatialIdsZoom": func(a []w.Val) w.Val {
		ids, H, V := w.AsStrs(a[0]), w.AsInt(a[1]), w.AsInt(a[2])
		if costChange(ids, 5, H, V) > cap_ {
			return skipped
		}
		r, err := integrate.ChangeExtendedSpatialIdsZoom(ids, H, V)
		return lenErr(len(r), err)
	},
	"ChangeSpatialIdsZoom": func(a []w.Val) w.Val {
		ids, z := w.AsStrs(a[0]), w.AsInt(a[1])
		if costChange(ids, 4, z, z) > cap_ {
			return skipped
		}
		r, err := integrate.ChangeSpatialIdsZoom(ids, z)
		return lenErr(len(r), err)
	},
	"MergeExtendedSpatialIds": func(a []w.Val) w.Val {
		ids, H, V := w.AsStrs(a[0]), w.AsInt(a[1]), w.AsInt(a[2])
		if costMerge(ids, 5, H, V) > cap_ {
			return skipped
		}
		r, err := integrate.MergeExtendedSpatialIds(ids, H, V)
		return lenErr(len(r), err)
	},
	"MergeSpatialIds": func(a []w.Val) w.Val {
		ids, z := w.AsStrs(a[0]), w.AsInt(a[1])
		if costMerge(ids, 4, z, z) > cap_ {
			return skipped
		}
		r, err := integrate.MergeSpatialIds(ids, z)
		return lenErr(len(r), err)
	},
	// operated
	"GetShiftingSpatialID": func(a []w.Val) w.Val {
		if _, bad := members([]string{w.AsStr(a[0])}, 5); bad {
			return skipped
		}
		return w.S(operated.GetShiftingSpatialID(w.AsStr(a[0]), w.AsInt(a[1]), w.AsInt(a[2]), w.AsInt(a[3])))
	},
	"Get6spatialIdsAdjacentToFaces": func(a []w.Val) w.Val {
		if _, bad := members([]string{w.AsStr(a[0])}, 5); bad {
			return skipped
		}
		return w.Strs(operated.Get6spatialIdsAdjacentToFaces(w.AsStr(a[0])))
	},
	"Get8spatialIdsAroundHorizontal": func(a []w.Val) w.Val {
		if _, bad := members([]string{w.AsStr(a[0])}, 5); bad {
			return skipped
		}
		return w.Strs(operated.Get8spatialIdsAroundHorizontal(w.AsStr(a[0])))
	},
	"Get26spatialIdsAroundVoxel": func(a []w.Val) w.Val {
		if _, bad := members([]string{w.AsStr(a[0])}, 5); bad {
			return skipped
		}
		return w.Strs(operated.Get26spatialIdsAroundVoxel(w.AsStr(a[0])))
	},
	"GetNspatialIdsAroundVoxcels": func(a []w.Val) w.Val {
		ids, H, V := w.AsStrs(a[0]), w.AsInt(a[1]), w.AsInt(a[2])
		if costN(ids, H, V) > cap_ {
			return skipped
		}
		r, err := operated.GetNspatialIdsAroundVoxcels(ids, H, V)
		return lenErr(len(r), err)
	},
	// detector
	"CheckExtendedSpatialIdsOverlap": func(a []w.Val) w.Val {
		if _, bad := members([]string{w.AsStr(a[0]), w.AsStr(a[1])}, 5); bad {
			return skipped
		}
		b, err := detector.CheckExtendedSpatialIdsOverlap(w.AsStr(a[0]), w.AsStr(a[1]))
		return withErr(w.B(b), err)
	},
	"CheckSpatialIdsOverlap": func(a []w.Val) w.Val {
		if _, bad := members([]string{w.AsStr(a[0]), w.AsStr(a[1])}, 4); bad {
			return skipped
		}
		b, err := detector.CheckSpatialIdsOverlap(w.AsStr(a[0]), w.AsStr(a[1]))
		return withErr(w.B(b), err)
	},
	"CheckExtendedSpatialIdsArrayOverlap": func(a []w.Val) w.Val {
		l1, l2 := w.AsStrs(a[0]), w.AsStrs(a[1])
		if _, bad := members(append(append([]string{}, l1...), l2...), 5); bad {
			return skipped
		}
		b, err := detector.CheckExtendedSpatialIdsArrayOverlap(l1, l2)
		return withErr(w.B(b), err)
	},
	"CheckSpatialIdsArrayOverlap": func(a []w.Val) w.Val {
		l1, l2 := w.AsStrs(a[0]), w.AsStrs(a[1])
		if _, bad := members(append(append([]string{}, l1...), l2...), 4); bad {
			return skipped
		}
		b, err := detector.CheckSpatialIdsArrayOverlap(l1, l2)
		return withErr(w.B(b), err)
	},
	// transform
	"ConvertExtendedSpatialIDsToQuadkeysAndVerticalIDs": func(a []w.Val) w.Val {
		ids, oh, ov := w.AsStrs(a[0]), w.AsInt(a[1]), w.AsInt(a[2])
		if costChange(ids, 5, oh, ov) > cap_ {
			return skipped
		}
		r, err := transform.ConvertExtendedSpatialIDsToQuadkeysAndVerticalIDs(ids, oh, ov, w.AsFlt(a[3]), w.AsFlt(a[4]))
		return lenErr(len(r), err)
	},
	"ConvertSpatialIDsToQuadkeysAndVerticalIDs": func(a []w.Val) w.Val {
		ids, oh, ov := w.AsStrs(a[0]), w.AsInt(a[1]), w.AsInt(a[2])
		if costChange(ids, 4, oh, ov) > cap_ {
			return skipped
		}
		r, err := transform.ConvertSpatialIDsToQuadkeysAndVerticalIDs(ids, oh, ov, w.AsFlt(a[3]), w.AsFlt(a[4]))
		return lenErr(len(r), err)
	},
	"ConvertExtendedSpatialIDsToQuadkeysAndAltitudekeys": func(a []w.Val) w.Val {
		ids, oq, oa, E, O := w.AsStrs(a[0]), w.AsInt(a[1]), w.AsInt(a[2]), w.AsInt(a[3]), w.AsInt(a[4])
		if costAlt(ids, oq, oa, E, O) > cap_ {
			return skipped
		}
		r, err := transform.ConvertExtendedSpatialIDsToQuadkeysAndAltitudekeys(ids, oq, oa, E, O)
		return lenErr(len(r), err)
	},
	"ConvertQuadkeysAndVerticalIDsToExtendedSpatialIDs": func(a []w.Val) w.Val {
		objs, items := itemsFromVal(a[0])
		if costItems(items, w.AsInt(a[1]), w.AsInt(a[2])) > cap_ {
			return skipped
		}
		r, err := transform.ConvertQuadkeysAndVerticalIDsToExtendedSpatialIDs(objs, w.AsInt(a[1]), w.AsInt(a[2]))
		return lenErr(len(r), err)
	},
	"ConvertQuadkeysAndVerticalIDsToSpatialIDs": func(a []w.Val) w.Val {
		objs, items := itemsFromVal(a[0])
		if costItems(items, w.AsInt(a[1]), w.AsInt(a[1])) > cap_ {
			return skipped
		}
		r, err := transform.ConvertQuadkeysAndVerticalIDsToSpatialIDs(objs, w.AsInt(a[1]))
		return lenErr(len(r), err)
	},
	"ConvertTileXYZsToExtendedSpatialIDs": func(a []w.Val) w.Val {
		objs, ts := tilesFromVal(a[0])
		if costTiles(ts, w.AsInt(a[1]), w.AsInt(a[2]), w.AsInt(a[3]), false) > cap_ {
			return skipped
		}
		r, err := transform.ConvertTileXYZsToExtendedSpatialIDs(objs, w.AsInt(a[1]), w.AsInt(a[2]), w.AsInt(a[3]))
		return lenErr(len(r), err)
	},
	"ConvertTileXYZsToSpatialIDs": func(a []w.Val) w.Val {
		objs, ts := tilesFromVal(a[0])
		if costTiles(ts, w.AsInt(a[1]), w.AsInt(a[2]), w.AsInt(a[3]), true) > cap_ {
			return skipped
		}
		r, err := transform.ConvertTileXYZsToSpatialIDs(objs, w.AsInt(a[1]), w.AsInt(a[2]), w.AsInt(a[3]))
		return lenErr(len(r), err)
	},
	"ConvertZToMinMaxAltitudekey": func(a []w.Val) w.Val {
		return pairErr(transform.ConvertZToMinMaxAltitudekey(w.AsInt(a[0]), w.AsInt(a[1]), w.AsInt(a[2]), w.AsInt(a[3]), w.AsInt(a[4])))
	},
	"ConvertAltitudekeyToMinMaxZ": func(a []w.Val) w.Val {
		return pairErr(transform.ConvertAltitudekeyToMinMaxZ(w.AsInt(a[0]), w.AsInt(a[1]), w.AsInt(a[2]), w.AsInt(a[3]), w.AsInt(a[4])))
	},
	"FitClearanceAroundExtendedSpatialID": func(a []w.Val) w.Val {
		id, c := w.AsStr(a[0]), w.AsFlt(a[1])
		ms, bad := members([]string{id}, 5)
		if bad || (len(ms) == 1 && !fitBounded(ms[0][0], c)) {
			return skipped
		}
		return pairErr(transform.FitClearanceAroundExtendedSpatialID(id, c))
	},
	"GetExtendedSpatialIdsWithinRadiusOfLine": func(a []w.Val) w.Val {
		s, e := ptFromVal(a[0]), ptFromVal(a[1])
		r, h, v := w.AsFlt(a[2]), w.AsInt(a[3]), w.AsInt(a[4])
		if s != nil && e != nil && zok(h) && zok(v) && !(r < 0) && !(fitBounded(h, r) && lineBounded(s, e, h, v)) {
			return skipped
		}
		ids, err := transform.GetExtendedSpatialIdsWithinRadiusOfLine(s, e, r, h, v, w.AsBool(a[5]))
		return lenErr(len(ids), err)
	},
	// errors.NewSpatialIdError(code, detail).Error(); the code type is unexported, so only the exported constants and literals
	"NewSpatialIdError": func(a []w.Val) w.Val {
		d := w.AsStr(a[1])
		var e error
		switch w.AsStr(a[0]) {
		case "InputValueError":
			e = sperrors.NewSpatialIdError(sperrors.InputValueErrorCode, d)
		case "OptionFailedError":
			e = sperrors.NewSpatialIdError(sperrors.OptionFailedErrorCode, d)
		case "ValueConvertError":
			e = sperrors.NewSpatialIdError(sperrors.ValueConvertErrorCode, d)
		case "OtherError":
			e = sperrors.NewSpatialIdError(sperrors.OtherErrorCode, d)
		case "Foo":
			e = sperrors.NewSpatialIdError("Foo", d)
		case "":
			e = sperrors.NewSpatialIdError("", d)
		default:
			return skipped
		}
		return w.S(e.Error())
	},
	"GetVoxelIDfromSpatialID": func(a []w.Val) w.Val { return w.Ints(transform.GetVoxelIDfromSpatialID(w.AsStr(a[0]))) },
}

// the clearance fit terminates only when the grid can separate the clearance (D16): clearance 0 always, a positive clearance only
// from horizontal zoom 3 and far below the voxel size
func fitBounded(h int64, c float64) bool {
	if c != c || c <= 0 {
		return true
	}
	return h >= 3 && c <= 1e-6
}

// the two points are at most a few voxels apart on every axis
func lineBounded(s, e *object.Point, h, v int64) bool {
	cell := 360 / math.Pow(2, float64(h))
	vc := math.Pow(2, 25-float64(v))
	return math.Abs(s.Lon()-e.Lon()) <= 4*cell && math.Abs(s.Lat()-e.Lat()) <= 1.5*cell && math.Abs(s.Alt()-e.Alt()) <= 4*vc
}

// argument shapes: s string, i int, f float, b bool, p point or nil, P list of points / nils, S list of strings,
// T tile, U list of tiles, Q list of quadkey items, J list of projected points
var shapes = map[string]string{
	"NewPoint": "fff", "Point.SetLon": "pf", "Point.SetLat": "pf", "NewExtendedSpatialID": "s", "ExtendedSpatialID.ResetExtendedSpatialID": "ss",
	"NewTileXYZ": "iiiii", "TileXYZ.SetHZoom": "Ti", "TileXYZ.SetVZoom": "Ti",
	"GetExtendedSpatialIdsOnPoints": "Pii", "GetSpatialIdsOnPoints": "Pi", "GetExtendedSpatialIdsOnLine": "ppii", "GetSpatialIdsOnLine": "ppi",
	"GetPointOnExtendedSpatialId": "si", "GetPointOnSpatialId": "si", "ConvertSpatialIdsToExtendedSpatialIds": "S", "ConvertExtendedSpatialIdsToSpatialIds": "S",
	"ConvertPointListToProjectedPointList": "Pi", "ConvertProjectedPointListToPointList": "Ji",
	"ChangeExtendedSpatialIdsZoom": "Sii", "ChangeSpatialIdsZoom": "Si", "MergeExtendedSpatialIds": "Sii", "MergeSpatialIds": "Si",
	"GetShiftingSpatialID": "siii", "Get6spatialIdsAdjacentToFaces": "s", "Get8spatialIdsAroundHorizontal": "s", "Get26spatialIdsAroundVoxel": "s",
	"GetNspatialIdsAroundVoxcels": "Sii", "CheckExtendedSpatialIdsOverlap": "ss", "CheckSpatialIdsOverlap": "ss",
	"CheckExtendedSpatialIdsArrayOverlap": "SS", "CheckSpatialIdsArrayOverlap": "SS",
	"ConvertExtendedSpatialIDsToQuadkeysAndVerticalIDs": "Siiff", "ConvertSpatialIDsToQuadkeysAndVerticalIDs": "Siiff",
	"ConvertExtendedSpatialIDsToQuadkeysAndAltitudekeys": "Siiii", "ConvertQuadkeysAndVerticalIDsToExtendedSpatialIDs": "Qii",
	"ConvertQuadkeysAndVerticalIDsToSpatialIDs": "Qi", "ConvertTileXYZsToExtendedSpatialIDs": "Uiii", "ConvertTileXYZsToSpatialIDs": "Uiii",
	"ConvertZToMinMaxAltitudekey": "iiiii", "ConvertAltitudekeyToMinMaxZ": "iiiii", "FitClearanceAroundExtendedSpatialID": "sf",
	"GetExtendedSpatialIdsWithinRadiusOfLine": "ppfiib", "GetVoxelIDfromSpatialID": "s", "NewSpatialIdError": "ss",
}

func isInt64(v w.Val) bool { i, ok := v.(w.Int); return ok && i.V.IsInt64() }
func listOf(v w.Val, kinds string) bool {
	l, ok := v.(w.List)
	if !ok || len(l) != len(kinds) {
		return false
	}
	for i := range l {
		if !shaped(l[i], kinds[i]) {
			return false
		}
	}
	return true
}
func all(v w.Val, kind byte) bool {
	if _, ok := v.(w.Nil); ok {
		return true
	}
	l, ok := v.(w.List)
	if !ok {
		return false
	}
	for _, e := range l {
		if !shaped(e, kind) {
			return false
		}
	}
	return true
}
func shaped(v w.Val, kind byte) bool {
	switch kind {
	case 's':
		_, ok := v.(w.Str)
		return ok
	case 'i':
		return isInt64(v)
	case 'f':
		_, ok := v.(w.Flt)
		return ok
	case 'b':
		_, ok := v.(w.Bool)
		return ok
	case 'p':
		if _, ok := v.(w.Nil); ok {
			return true
		}
		return listOf(v, "fff")
	case 'j':
		return listOf(v, "fff")
	case 'P':
		return all(v, 'p')
	case 'J':
		return all(v, 'j')
	case 'S':
		return all(v, 's')
	case 'T':
		if !listOf(v, "iiiii") {
			return false
		}
		t := tileFromVal(v)
		return zok(t.h) && zok(t.v)
	case 'U':
		return all(v, 'T')
	case 'q':
		return listOf(v, "iiiiff")
	case 'Q':
		return all(v, 'q')
	}
	return false
}

// wellShaped: the argument vector has the shape the invoker decodes (the shrinker may propose vectors that do not)
func wellShaped(name string, a []w.Val) bool {
	sh, ok := shapes[name]
	if !ok || len(a) != len(sh) {
		return false
	}
	for i := range a {
		if !shaped(a[i], sh[i]) {
			return false
		}
	}
	if name == "ExtendedSpatialID.ResetExtendedSpatialID" {
		if f, ok := ints(w.AsStr(a[0]), 5); !ok || !validE(f) {
			return false
		}
	}
	return true
}

func guardedCall(name string, a []w.Val) w.Val {
	if !wellShaped(name, a) {
		return skipped
	}
	return calls[name](a)
}

func mkFn(name string) *run.Fn {
	return &run.Fn{Name: name, Invoke: func(a []w.Val) w.Val { return guardedCall(name, a) }}
}

// Sequence: [[fn, args], ...] made back to back in one invocation; a panic of one call is recorded in its position
func callSeq(a []w.Val) w.Val {
	cs, ok := a[0].(w.List)
	if !ok {
		return skipped
	}
	out := make(w.List, 0, len(cs))
	for _, c := range cs {
		p, ok := c.(w.List)
		if !ok || len(p) != 2 {
			return skipped
		}
		fn, ok1 := p[0].(w.Str)
		args, ok2 := p[1].(w.List)
		if _, known := calls[string(fn)]; !ok1 || !ok2 || !known {
			return skipped
		}
		out = append(out, protect(string(fn), []w.Val(args)))
	}
	return out
}
func protect(name string, a []w.Val) (res w.Val) {
	defer func() {
		if e := recover(); e != nil {
			if s, ok := e.(string); ok && strings.HasPrefix(s, "harness:") {
				panic(e)
			}
			res = w.Panic{}
		}
	}()
	return guardedCall(name, a)
}

// ---------------------------------------------------------------------------------------------------------------- generators

var extraMalformed = []string{strings.Repeat("1/", 40) + "1", strings.Repeat("9", 70) + "/0/0/1/0", "1/0/0/1/" + strings.Repeat("0", 200) + "x", strings.Repeat("/", 64), "1/0/0/1/0/" + strings.Repeat("7/", 20), "1", "1/2/3/4/5/6", "1/2/3/4/5/6/7", "0x10/0/0/1/0", "1/0x0/0/1/0", "1/0/0/1/0/", "/1/0/0/1/0", "1/0/0/1/0\n", "1/0/0/1/\x00",
	"1/0/0/1/0\x00", "1/0/ 0/1/0", "+/0/0/1/0", "1/0/0/1/-", "99999999999999999999/0/0/1/0", "1/0/0/99999999999999999999/0", "1/0/0/1/9223372036854775808",
	"1/0/0/1/-9223372036854775809", "１/０/０/１/０", "1/0/0/1/०", "1,0,0,1,0", "1/0/0/1", "1/0/0", "a/b/c/d/e", "a/b/c/d", " ", "1/0/0/1/0 ", "1/0/0//0",
	"1/b/0/0", "1/0/0/b", "b/0/0/0", "1/0/b/0", "1/0/0/0x1", "1/0/0/", "/0/0/0", "1/0/0/0/", "1/0/0/0\n", "1/+/0/0", "1/0/0/99999999999999999999", "1 /0/0/0"}

// a string that is not a well-formed ID of the given arity (4 = spatial, 5 = extended)
func malformed(g *Gen, arity int) string {
	for {
		var s string
		switch g.Intn(4) {
		case 0:
			s = extraMalformed[g.Intn(len(extraMalformed))]
		case 1:
			s = MalformedFixed[g.Intn(len(MalformedFixed))]
		case 2:
			s = g.Malformed()
		default: // 0..7 numeric fields, never `arity` of them
			n := g.Intn(8)
			if n == arity {
				n = arity + 1
			}
			fs := make([]string, n)
			for i := range fs {
				fs[i] = strconv.Itoa(g.Intn(3))
			}
			s = strings.Join(fs, "/")
		}
		if arity == 4 && g.Chance(0.4) { // derive from a valid spatial ID
			z := g.Zoom()
			fs := strings.Split(SID(z, g.VIndex(z), g.HIndex(z), g.HIndex(z)), "/")
			junk := []string{"x", "", " ", "1 ", "1.5", "0x10", "９", "1e2", "--1", "+", "-", "92233720368547758070", "1_0", "\x00"}
			switch g.Intn(4) {
			case 0:
				i := g.Intn(4)
				fs = append(fs[:i], fs[i+1:]...)
			case 1:
				fs = append(fs, "0")
			case 2:
				fs[g.Intn(4)] = junk[g.Intn(len(junk))]
			default:
				fs[3] += "/"
			}
			s = strings.Join(fs, "/")
		}
		if _, ok := ints(s, arity); !ok {
			return s
		}
	}
}

var junkFields = []string{"x", "", " ", "1 ", " 1", "1.5", "0x10", "９", "1e2", "--1", "+", "-", "92233720368547758070", "-9223372036854775809", "1_0", "\x00", "1\n", "٣", "b", "0b1"}

func clampZoom(z int64) int64 {
	if z < 0 {
		return 0
	}
	if z > 35 {
		return 35
	}
	return z
}

// a valid ID near zooms (H, V) with exactly ONE field replaced by something strconv refuses; every field position is drawn
// (0..arity-1), the other fields stay well-formed. zoomPos=false keeps the zoom fields intact.
func posMalformed(g *Gen, arity int, H, V int64, zoomPos bool) (string, int) {
	h := clampZoom(clampZoom(H) + g.Int63n(3) - 1)
	v := clampZoom(clampZoom(V) + g.Int63n(3) - 1)
	fs := strings.Split(validID(g, arity, h, v), "/")
	for {
		pos := g.Intn(arity)
		isZoom := pos == 0 || (arity == 5 && pos == 3)
		if isZoom && !zoomPos {
			continue
		}
		fs[pos] = junkFields[g.Intn(len(junkFields))]
		return strings.Join(fs, "/"), pos
	}
}

// a malformed member that a tree without validation could still process within the output bound next to target zooms (H, V):
// `one` is the cost of a list holding just this string
func malformedFit(g *Gen, arity int, H, V int64, one func(string) float64, tags *[]string) string {
	for try := 0; try < 12; try++ {
		var s string
		pos := -1
		if g.Chance(0.55) {
			s, pos = posMalformed(g, arity, H, V, try < 6)
		} else {
			s = malformed(g, arity)
		}
		if one == nil || one(s) <= cap_/4 {
			if pos >= 0 && tags != nil {
				*tags = append(*tags, Tag("bad-field-pos=%d", pos))
			}
			return s
		}
	}
	s, pos := posMalformed(g, arity, H, V, false)
	if tags != nil {
		*tags = append(*tags, Tag("bad-field-pos=%d", pos))
	}
	return s
}

func validID(g *Gen, arity int, h, v int64) string {
	var id string
	if arity == 4 {
		id = SID(h, g.VIndex(h), g.HIndex(h), g.HIndex(h))
	} else {
		id = g.ValidEIDAt(h, v)
	}
	if g.Chance(0.1) { // other spellings strconv accepts: sign, leading zeros, -0
		fs := strings.Split(id, "/")
		for i, f := range fs {
			switch g.Intn(4) {
			case 0:
				if !strings.HasPrefix(f, "-") {
					fs[i] = "+" + f
				}
			case 1:
				if strings.HasPrefix(f, "-") {
					fs[i] = "-00" + f[1:]
				} else {
					fs[i] = "00" + f
				}
			case 2:
				if f == "0" {
					fs[i] = "-0"
				}
			}
		}
		id = strings.Join(fs, "/")
	}
	return id
}

// a member whose zoom fields overflow int64 (strconv leaves MaxInt64 next to the error): nothing could be enumerated from it
// even by a tree without validation, so it may accompany any zoom argument
const overflowE = "99999999999999999999/0/0/99999999999999999999/0"
const overflowS = "99999999999999999999/0/0/0"

func overflowID(arity int) string {
	if arity == 4 {
		return overflowS
	}
	return overflowE
}

var farZooms = []int64{minI, maxI, minI + 1, maxI - 1, 64, 63, 37, -2, -36, 1 << 32, -(1 << 32), 100, 255, 256, -128}

// an invalid zoom: mostly the two neighbours of the range, sometimes far away
func badZoom(g *Gen) int64 {
	if g.Chance(0.65) {
		return g.Pick(-1, 36)
	}
	return farZooms[g.Intn(len(farZooms))]
}

// positions of the malformed member(s): first, middle, last, alone
func mixIn(g *Gen, ids []string, arity int, tags *[]string, H, V int64, one func(string) float64) []string {
	m := malformedFit(g, arity, H, V, one, tags)
	switch k := g.Intn(5); {
	case len(ids) == 0 || k == 0:
		*tags = append(*tags, "malformed-alone")
		return []string{m}
	case k == 1:
		*tags = append(*tags, "malformed-first")
		return append([]string{m}, ids...)
	case k == 2:
		*tags = append(*tags, "malformed-last")
		return append(append([]string{}, ids...), m)
	case k == 3:
		*tags = append(*tags, "malformed-middle")
		i := 1 + g.Intn(len(ids))
		if i > len(ids) {
			i = len(ids)
		}
		r := append([]string{}, ids[:i]...)
		r = append(r, m)
		return append(r, ids[i:]...)
	}
	*tags = append(*tags, "malformed-two")
	return append(append([]string{m}, ids...), malformedFit(g, arity, H, V, one, tags))
}

// 0..3 valid IDs whose zooms are within `spread` of (H, V) (so that nothing explodes even if H, V are just outside the range)
// list lengths: mostly 0..3, one call in eight 4..30
func listLen(g *Gen) int {
	if g.Chance(0.125) {
		return 4 + g.Intn(27)
	}
	return g.Intn(4)
}

func idList(g *Gen, arity int, H, V int64, n int) []string {
	cz := func(z int64) int64 {
		if z < 0 {
			return 0
		}
		if z > 35 {
			return 35
		}
		return z
	}
	ids := make([]string, 0, n)
	for i := 0; i < n; i++ {
		h := cz(cz(H) + g.Int63n(4) - 2)
		v := cz(cz(V) + g.Int63n(4) - 2)
		if arity == 4 {
			v = h
		}
		ids = append(ids, validID(g, arity, h, v))
	}
	return ids
}

type genFn func(g *Gen, mode int) (args []w.Val, tags []string)

// mode 0 = a valid call; mode k >= 1 = an invalid variant (the generator reduces k modulo its number of variants).
// Every generator draws its base arguments first (independently of the mode), so that a sequence can repeat the same base
// with another mode by replaying the PRNG.
func nearZoomPoint(g *Gen) (float64, float64, float64) {
	lon, lat, alt := g.Lon(), g.Lat(), g.Alt()
	if math.Abs(lat) > 85 {
		lat = math.Copysign(84.9, lat)
	}
	if math.Abs(lon) > 180 {
		lon = math.Copysign(180, lon)
	}
	return lon, lat, alt
}
func storedVal(lon, lat, alt float64) w.Val {
	_, v, ok := StoredPoint(lon, lat, alt)
	if !ok { // a tree that refuses a valid point: the entries of NewPoint / SetLon / SetLat report it; go on with the raw triple
		return w.L(w.F(lon), w.F(lat), w.F(alt))
	}
	return v
}

func genPoints(sid bool) genFn {
	return func(g *Gen, mode int) ([]w.Val, []string) {
		n := listLen(g)
		pts := make(w.List, 0, n+1)
		for i := 0; i < n; i++ {
			pts = append(pts, storedVal(nearZoomPoint(g)))
		}
		h, v := g.Zoom(), g.Zoom()
		tags := []string{}
		nilAt := func() {
			i := g.Intn(len(pts) + 1)
			pts = append(pts[:i], append(w.List{w.Nil{}}, pts[i:]...)...)
			tags = append(tags, Tag("nil-at=%d/%d", i, len(pts)))
		}
		switch mode % 7 {
		case 0:
			tags = append(tags, "valid")
		case 1:
			h = badZoom(g)
			tags = append(tags, "bad-hzoom")
		case 2:
			v = badZoom(g)
			if sid {
				h = v
			}
			tags = append(tags, "bad-vzoom")
		case 3:
			nilAt()
		case 4:
			nilAt()
			h = badZoom(g)
			tags = append(tags, "bad-hzoom")
		case 5:
			nilAt()
			nilAt()
		case 6:
			nilAt()
			v = badZoom(g)
			if sid {
				h = v
			}
			tags = append(tags, "bad-vzoom")
		}
		if sid {
			return []w.Val{pts, w.I(h)}, tags
		}
		return []w.Val{pts, w.I(h), w.I(v)}, tags
	}
}

// two stored points at most a few voxels apart at zoom (h, v)
func segment(g *Gen, h, v int64) (w.Val, w.Val) {
	hh, vv := h, v
	if !zok(hh) {
		hh = 35
	}
	if !zok(vv) {
		vv = 35
	}
	cell := 360 / math.Pow(2, float64(hh))
	vc := math.Pow(2, 25-float64(vv))
	lon, lat, alt := g.R.Float64()*300-150, g.R.Float64()*160-80, (g.R.Float64()*2-1)*1000
	k := float64(g.Intn(3))
	if !zok(h) || !zok(v) {
		k = 0 // unvalidated zooms must not start a long recursion
	}
	lon2, lat2, alt2 := lon+k*cell*g.R.Float64(), lat+k*cell*g.R.Float64()*0.5, alt+k*vc*g.R.Float64()
	if lon2 > 180 {
		lon2 = 180
	}
	if lat2 > 85 {
		lat2 = 85
	}
	return storedVal(lon, lat, alt), storedVal(lon2, lat2, alt2)
}

func genLine(sid bool) genFn {
	return func(g *Gen, mode int) ([]w.Val, []string) {
		h, v := g.Zoom(), g.Zoom()
		if sid {
			v = h
		}
		tags := []string{}
		m := mode % 6
		switch m {
		case 1:
			h = badZoom(g)
			if sid {
				v = h
			}
			tags = append(tags, "bad-hzoom")
		case 2:
			v = badZoom(g)
			if sid {
				h = v
			}
			tags = append(tags, "bad-vzoom")
		}
		s, e := segment(g, h, v)
		switch m {
		case 0:
			tags = append(tags, "valid")
		case 3:
			s = w.Nil{}
			tags = append(tags, "nil-start")
		case 4:
			e = w.Nil{}
			tags = append(tags, "nil-end")
		case 5:
			s, e = w.Nil{}, w.Nil{}
			tags = append(tags, "nil-both")
		}
		if sid {
			return []w.Val{s, e, w.I(h)}, tags
		}
		return []w.Val{s, e, w.I(h), w.I(v)}, tags
	}
}

func genPointOn(arity int) genFn {
	return func(g *Gen, mode int) ([]w.Val, []string) {
		h, v := g.Zoom(), g.Zoom()
		id := validID(g, arity, h, v)
		opt := g.Pick(0, 1)
		tags := []string{}
		switch mode % 4 {
		case 0:
			tags = append(tags, "valid")
		case 1:
			id = malformedFit(g, arity, h, v, nil, &tags)
			tags = append(tags, "malformed")
		case 2:
			opt = g.Pick(2, -1, 3, 255, maxI, minI, 1<<31)
			tags = append(tags, "unknown-option")
		case 3:
			id = malformedFit(g, arity, h, v, nil, &tags)
			opt = g.Pick(2, -1)
			tags = append(tags, "malformed", "unknown-option")
		}
		return []w.Val{w.S(id), w.I(opt)}, tags
	}
}

func genNotation(arity int) genFn {
	return func(g *Gen, mode int) ([]w.Val, []string) {
		z := g.Zoom()
		ids := idList(g, arity, z, z, listLen(g))
		tags := []string{}
		if mode%3 == 0 {
			tags = append(tags, "valid")
			if g.Chance(0.2) && len(ids) > 0 { // the right number of fields is all these functions ask for
				ids[0] = strings.Repeat("a/", arity-1) + "b"
				tags = append(tags, "non-numeric-fields")
			}
		} else {
			ids = mixIn(g, ids, arity, &tags, z, z, nil)
		}
		return []w.Val{w.Strs(ids)}, tags
	}
}

var unknownCRS = []int64{0, 1, -1, 99999, 3395, 4327, 2147483647, 32661, 27701, 900913}

func genProject(fwd bool) genFn {
	return func(g *Gen, mode int) ([]w.Val, []string) {
		n := g.Intn(4) // the empty list too: the EPSG code is looked up before the loop
		pts := make(w.List, 0, n)
		for i := 0; i < n; i++ {
			if fwd {
				pts = append(pts, storedVal(g.R.Float64()*300-150, g.R.Float64()*160-80, 0))
			} else {
				pts = append(pts, w.L(w.F((g.R.Float64()*2-1)*1.5e7), w.F((g.R.Float64()*2-1)*1.5e7), w.F(0)))
			}
		}
		crs := int64(3857)
		tags := []string{"valid"}
		if mode%3 != 0 {
			crs = unknownCRS[g.Intn(len(unknownCRS))]
			tags = []string{"unknown-epsg"}
		}
		return []w.Val{pts, w.I(crs)}, tags
	}
}

func genChange(arity int, merge bool) genFn {
	return func(g *Gen, mode int) ([]w.Val, []string) {
		H, V := g.Zoom(), g.Zoom()
		if arity == 4 {
			V = H
		}
		n := g.Intn(4)
		tags := []string{}
		m := mode % 6
		switch m {
		case 1, 4:
			H = badZoom(g)
			if arity == 4 {
				V = H
			}
			tags = append(tags, "bad-hzoom")
		case 2, 5:
			V = badZoom(g)
			if arity == 4 {
				H = V
			}
			tags = append(tags, "bad-vzoom")
		}
		cost := costChange
		if merge {
			cost = costMerge
		}
		ids := idList(g, arity, H, V, n)
		if g.Chance(0.125) {
			ids = idList(g, arity, H, V, 4+g.Intn(27))
		}
		for len(ids) > 0 && near(H) && near(V) && cost(ids, arity, H, V) > cap_/2 {
			ids = ids[:len(ids)/2]
		}
		if m == 3 || m == 4 || m == 5 {
			ids = mixIn(g, ids, arity, &tags, H, V, func(x string) float64 { return cost(append([]string{x}, ids...), arity, H, V) })
		}
		if m == 0 {
			tags = append(tags, "valid")
		}
		if cost(ids, arity, H, V) > cap_ { // far-away zoom: nothing that could be enumerated may be in the list
			if g.Chance(0.5) {
				ids = []string{}
				tags = append(tags, "empty-list")
			} else {
				ids = []string{overflowID(arity)}
				if g.Chance(0.5) {
					ids = append(ids, overflowID(arity))
				}
				tags = append(tags, "far-zoom-overflow-member")
			}
		}
		if arity == 4 {
			return []w.Val{w.Strs(ids), w.I(H)}, tags
		}
		return []w.Val{w.Strs(ids), w.I(H), w.I(V)}, tags
	}
}

func smallShift(g *Gen) int64 { return g.Pick(0, 1, -1, 2, -2, 5, -7) }

func genShift(g *Gen, mode int) ([]w.Val, []string) {
	id, h, v := g.ValidEID()
	tags := []string{"valid"}
	if mode%2 == 1 {
		tags = []string{"malformed"}
		id = malformedFit(g, 5, h, v, nil, &tags)
	}
	return []w.Val{w.S(id), w.I(smallShift(g)), w.I(smallShift(g)), w.I(smallShift(g))}, tags
}
func genNeigh(g *Gen, mode int) ([]w.Val, []string) {
	id, h, v := g.ValidEID()
	tags := []string{"valid"}
	if mode%2 == 1 {
		tags = []string{"malformed"}
		id = malformedFit(g, 5, h, v, nil, &tags)
	}
	return []w.Val{w.S(id)}, tags
}
func genN(g *Gen, mode int) ([]w.Val, []string) {
	z := g.Zoom()
	ids := idList(g, 5, z, g.Zoom(), g.Intn(4))
	H, V := g.Int63n(3), g.Int63n(3)
	if g.Chance(0.1) { // longer lists with one layer at most
		ids = idList(g, 5, z, g.Zoom(), 4+g.Intn(27))
		H, V = g.Int63n(2), g.Int63n(2)
	}
	tags := []string{}
	switch mode % 6 {
	case 5:
		ids = mixIn(g, ids, 5, &tags, z, z, nil)
		V = g.Pick(-1, minI)
		tags = append(tags, "negative-vlayers")
	case 0:
		tags = append(tags, "valid")
	case 1:
		H = g.Pick(-1, minI, -2, minI+1)
		tags = append(tags, "negative-hlayers")
	case 2:
		V = g.Pick(-1, minI, -2, minI+1)
		tags = append(tags, "negative-vlayers")
	case 3:
		ids = mixIn(g, ids, 5, &tags, z, z, nil)
	case 4:
		ids = mixIn(g, ids, 5, &tags, z, z, nil)
		H = -1
		tags = append(tags, "negative-hlayers")
	}
	return []w.Val{w.Strs(ids), w.I(H), w.I(V)}, tags
}

// a pair of IDs that often overlap: the second is an ancestor / descendant / neighbour of the first
func relatedPair(g *Gen, arity int) (string, string) {
	h, v := g.Zoom(), g.Zoom()
	if arity == 4 {
		if h == 0 {
			h = 1
		}
		v = h
	}
	x, y, f := g.HIndex(h), g.HIndex(h), g.VIndex(v)
	if arity == 4 { // the spatial form documents altitudes within +-2^24 m
		half := int64(1) << uint(h-1)
		f = g.Int63n(2*half) - half
	}
	mk := func(h, x, y, v, f int64) string {
		if arity == 4 {
			return SID(h, f, x, y)
		}
		return EID(h, x, y, v, f)
	}
	a := mk(h, x, y, v, f)
	switch g.Intn(4) {
	case 0:
		return a, a
	case 1:
		d := g.Int63n(h + 1)
		dv := d
		if arity == 5 {
			dv = g.Int63n(v + 1)
		}
		return a, mk(h-d, x>>uint(d), y>>uint(d), v-dv, f>>uint(dv))
	case 2:
		if x > 0 {
			return a, mk(h, x-1, y, v, f)
		}
	}
	h2, v2 := g.Zoom(), g.Zoom()
	if arity == 4 {
		if h2 == 0 {
			h2 = 1
		}
		half := int64(1) << uint(h2-1)
		return a, SID(h2, g.Int63n(2*half)-half, g.HIndex(h2), g.HIndex(h2))
	}
	return a, validID(g, arity, h2, v2)
}

func genOverlap(arity int) genFn {
	return func(g *Gen, mode int) ([]w.Val, []string) {
		a, b := relatedPair(g, arity)
		zc := 1 + g.Int63n(35)
		tags := []string{}
		switch mode % 4 {
		case 0:
			tags = append(tags, "valid")
		case 1:
			a = malformedFit(g, arity, zc, zc, nil, &tags)
			tags = append(tags, "malformed-first")
		case 2:
			b = malformedFit(g, arity, zc, zc, nil, &tags)
			tags = append(tags, "malformed-second")
		case 3:
			a, b = malformedFit(g, arity, zc, zc, nil, &tags), malformedFit(g, arity, zc, zc, nil, &tags)
			tags = append(tags, "malformed-both")
		}
		return []w.Val{w.S(a), w.S(b)}, tags
	}
}
func genOverlapArray(arity int) genFn {
	return func(g *Gen, mode int) ([]w.Val, []string) {
		var l1, l2 []string
		zc := 1 + g.Int63n(35)
		for i, n := 0, g.Intn(3); i < n; i++ {
			a, b := relatedPair(g, arity)
			l1 = append(l1, a)
			if g.Chance(0.6) {
				l2 = append(l2, b)
			}
		}
		if g.Chance(0.5) {
			_, b := relatedPair(g, arity)
			l2 = append(l2, b)
		}
		if l1 == nil {
			l1 = []string{}
		}
		if l2 == nil {
			l2 = []string{}
		}
		tags := []string{}
		switch mode % 4 {
		case 0:
			tags = append(tags, "valid")
		case 1:
			l1 = mixIn(g, l1, arity, &tags, zc, zc, nil)
			tags = append(tags, "in-first-list")
		case 2:
			l2 = mixIn(g, l2, arity, &tags, zc, zc, nil)
			tags = append(tags, "in-second-list")
		case 3:
			l1 = mixIn(g, l1, arity, &tags, zc, zc, nil)
			l2 = mixIn(g, l2, arity, &tags, zc, zc, nil)
		}
		return []w.Val{w.Strs(l1), w.Strs(l2)}, tags
	}
}

func badQuadZoom(g *Gen) int64 {
	if g.Chance(0.7) {
		return g.Pick(0, 32, -1, 36, 33, 35)
	}
	return farZooms[g.Intn(len(farZooms))]
}
func quadZoom(g *Gen) int64 { return 1 + g.Int63n(31) }

func genE2Q(arity int) genFn {
	return func(g *Gen, mode int) ([]w.Val, []string) {
		oh, ov := quadZoom(g), g.Zoom()
		mx, mn := 0.0, 0.0
		if g.Chance(0.3) {
			mx = float64(g.Intn(100))
			mn = mx
		}
		tags := []string{}
		m := mode % 6
		switch m {
		case 1, 5:
			oh = badQuadZoom(g)
			tags = append(tags, Tag("bad-quadkey-zoom"))
		case 2:
			ov = badZoom(g)
			tags = append(tags, "bad-vzoom")
		}
		ids := idList(g, arity, oh, ov, listLen(g))
		bits := m != 0 && m != 4 && g.Chance(0.25)
		if bits && (m == 3 || m == 5) {
			ids = []string{}
		}
		switch m {
		case 0:
			tags = append(tags, "valid")
		case 3, 5:
			ids = mixIn(g, ids, arity, &tags, oh, ov, func(x string) float64 { return costChange(append([]string{x}, ids...), arity, oh, ov) })
		case 4:
			mx = mn - 1 - float64(g.Intn(5))
			tags = append(tags, "inverted-heights")
		}
		if costChange(ids, arity, oh, ov) > cap_ {
			if g.Chance(0.5) {
				ids = []string{}
				tags = append(tags, "empty-list")
			} else {
				ids = []string{overflowID(arity)}
				tags = append(tags, "far-zoom-overflow-member")
			}
		}
		if m == 3 && len(ids) == 0 {
			bits = false // nothing invalid is left in the call
		}
		if bits { // height-range (bit) form: only with an invalid zoom or ID, and nothing valid ahead of the refusal
			mn = -float64(int64(1) << 25)
			mx = float64(int64(1) << 25)
			tags = append(tags, "bit-form")
		}
		return []w.Val{w.Strs(ids), w.I(oh), w.I(ov), w.F(mx), w.F(mn)}, tags
	}
}
func genE2QA(g *Gen, mode int) ([]w.Val, []string) {
	oq, oa := quadZoom(g), g.Zoom()
	E, O := g.Pick(25, 25, 24, 26, 20, 14), g.Pick(0, 0, 1<<24, 1, -5, 100)
	tags := []string{}
	m := mode % 5
	switch m {
	case 1, 4:
		oq = badQuadZoom(g)
		tags = append(tags, "bad-quadkey-zoom")
	case 2:
		oa = badZoom(g)
		tags = append(tags, "bad-altitudekey-zoom")
	}
	ids := idList(g, 5, oq, oa, listLen(g))
	switch m {
	case 0:
		tags = append(tags, "valid")
	case 3, 4:
		ids = mixIn(g, ids, 5, &tags, oq, oa, func(x string) float64 { return costAlt(append([]string{x}, ids...), oq, oa, E, O) })
	}
	if costAlt(ids, oq, oa, E, O) > cap_ {
		ids = []string{}
		tags = append(tags, "empty-list")
	}
	return []w.Val{w.Strs(ids), w.I(oq), w.I(oa), w.I(E), w.I(O)}, tags
}

func itemVal(it item) w.Val {
	return w.L(w.I(it.qz), w.I(it.qk), w.I(it.vz), w.I(it.vi), w.F(it.mx), w.F(it.mn))
}
func validItem(g *Gen, oh, ov int64) item {
	cz := func(z, lo, hi int64) int64 {
		if z < lo {
			return lo
		}
		if z > hi {
			return hi
		}
		return z
	}
	qz := cz(cz(oh, 1, 31)+g.Int63n(4)-2, 1, 31)
	vz := cz(cz(ov, 0, 35)+g.Int63n(4)-2, 0, 35)
	return item{qz, g.Int63n(int64(1) << uint(2*qz)), vz, g.VIndex(vz), 0, 0}
}
func genQ2E(sid bool) genFn {
	return func(g *Gen, mode int) ([]w.Val, []string) {
		oh, ov := g.Zoom(), g.Zoom()
		if sid {
			ov = oh
		}
		tags := []string{}
		m := mode % 7
		if m == 1 {
			oh = badZoom(g)
			if sid {
				ov = oh
			}
			tags = append(tags, "bad-hzoom")
		}
		if m == 2 {
			ov = badZoom(g)
			if sid {
				oh = ov
			}
			tags = append(tags, "bad-vzoom")
		}
		// an item whose zooms are refused: with it in the list the output zooms stay small (the conversion of a
		// zoom-0 quadkey would enumerate 4^oh tiles if it were let through)
		if m >= 3 && m <= 5 && !sid {
			oh = g.Int63n(6)
		} else if m >= 3 && m <= 5 {
			oh = g.Int63n(6)
			ov = oh
		}
		var items []item
		for i, n := 0, g.Intn(4); i < n; i++ {
			items = append(items, validItem(g, oh, ov))
		}
		put := func(b item, tag string) {
			switch k := g.Intn(3); {
			case len(items) == 0 || k == 0:
				items = append([]item{b}, items...)
				tags = append(tags, tag+"-first")
			case k == 1:
				items = append(items, b)
				tags = append(tags, tag+"-last")
			default:
				items = []item{b}
				tags = append(tags, tag+"-alone")
			}
		}
		switch m {
		case 0:
			tags = append(tags, "valid")
		case 3: // the element (0,0,...): a "last validated pair" memo starting at (0,0) lets it through
			put(item{0, 0, 0, 0, 0, 0}, "zero-zoom-item")
		case 4:
			b := validItem(g, oh, ov)
			b.qz = g.Pick(0, 32, -1, 33, maxI, minI)
			put(b, "bad-item-quadkey-zoom")
		case 5:
			b := validItem(g, oh, ov)
			b.vz = g.Pick(-1, 36, maxI, minI)
			put(b, "bad-item-vzoom")
		case 6:
			b := validItem(g, oh, ov)
			b.mx, b.mn = -1, 1
			put(b, "inverted-heights")
		}
		if costItems(items, oh, ov) > cap_ {
			items = nil
			tags = append(tags, "empty-list")
		}
		if (m == 1 || m == 2 || m == 4 || m == 5) && g.Chance(0.25) { // height-range (bit) form, only next to an invalid zoom
			for i := range items {
				items[i].mx, items[i].mn = float64(int64(1)<<25), -float64(int64(1)<<25)
				if items[i].vi < 0 {
					items[i].vi = -items[i].vi - 1
				}
			}
			if len(items) > 0 {
				tags = append(tags, "bit-form")
			}
		}
		l := make(w.List, 0, len(items))
		for _, it := range items {
			l = append(l, itemVal(it))
		}
		if sid {
			return []w.Val{l, w.I(oh)}, tags
		}
		return []w.Val{l, w.I(oh), w.I(ov)}, tags
	}
}

func genTiles(spatial bool) genFn {
	return func(g *Gen, mode int) ([]w.Val, []string) {
		outV := g.Zoom()
		E, O := g.Pick(25, 25, 24, 26, 20), g.Pick(0, 0, 1<<24, 1, -3)
		tags := []string{}
		m := mode % 4
		if m == 1 || m == 2 {
			outV = badZoom(g)
			tags = append(tags, "bad-output-vzoom")
		}
		var ts []tile
		n := 1 + g.Intn(3)
		if m == 2 || (m == 0 && g.Chance(0.15)) {
			n = 0
			tags = append(tags, "empty-request")
		}
		for i := 0; i < n; i++ {
			h := g.Zoom()
			if spatial {
				base := outV
				if !zok(base) {
					base = 35
				}
				h = base - g.Int63n(3)
				if h < 0 {
					h = 0
				}
			}
			v := g.Zoom()
			z := g.Int63n(int64(1) << uint(v))
			if m == 3 && i == 0 {
				z = g.Pick(-1, int64(1)<<uint(v), minI, maxI)
				tags = append(tags, "altitude-key-out-of-range")
			}
			ts = append(ts, tile{h, g.HIndex(h), g.HIndex(h), v, z})
		}
		if m == 0 {
			tags = append(tags, "valid")
		}
		if costTiles(ts, E, O, outV, spatial) > cap_ {
			// keep the tiles' own vertical zoom close to what the output asks for
			for i := range ts {
				base := outV
				if !zok(base) {
					base = 35
				}
				ts[i].v = base - 25 + E
				if ts[i].v < 0 {
					ts[i].v = 0
				}
				if ts[i].v > 35 {
					ts[i].v = 35
				}
				if ts[i].z >= 0 && ts[i].z < maxI {
					ts[i].z = g.Int63n(int64(1) << uint(ts[i].v))
				}
			}
			if costTiles(ts, E, O, outV, spatial) > cap_ {
				ts = nil
				tags = append(tags, "empty-request")
			}
		}
		l := make(w.List, 0, len(ts))
		for _, t := range ts {
			l = append(l, w.L(w.I(t.h), w.I(t.x), w.I(t.y), w.I(t.v), w.I(t.z)))
		}
		return []w.Val{l, w.I(E), w.I(O), w.I(outV)}, tags
	}
}

func genAltKey(fwd bool) genFn {
	return func(g *Gen, mode int) ([]w.Val, []string) {
		z, out := g.Zoom(), g.Zoom()
		E, O := g.Pick(25, 25, 24, 26, 20, 0, 35), g.Pick(0, 0, 1<<24, 1, -3, 1000)
		var i int64
		if fwd {
			i = g.VIndex(z)
		} else {
			i = g.Int63n(int64(1) << uint(z))
		}
		if g.Chance(0.15) { // an index that does not exist at its zoom
			i = g.Pick(int64(1)<<uint(z), -(int64(1)<<uint(z))-1, -1)
		}
		tags := []string{}
		switch mode % 4 {
		case 0:
			tags = append(tags, "valid-zooms")
		case 1:
			z = badZoom(g)
			tags = append(tags, "bad-input-zoom")
		case 2:
			out = badZoom(g)
			tags = append(tags, "bad-output-zoom")
		case 3:
			z, out = badZoom(g), badZoom(g)
			tags = append(tags, "bad-input-zoom", "bad-output-zoom")
		}
		return []w.Val{w.I(i), w.I(z), w.I(out), w.I(E), w.I(O)}, tags
	}
}

var badRadii = []float64{-0.001, math.Inf(-1), -1, -5e-324, -1e300, -1e-9}

func genFit(g *Gen, mode int) ([]w.Val, []string) {
	h, v := g.Zoom(), g.Zoom()
	id := g.ValidEIDAt(h, v)
	c := 0.0
	if h >= 3 && g.Chance(0.5) {
		c = g.PickF(1e-9, 1e-7, 1e-6)
	}
	tags := []string{}
	switch mode % 5 {
	case 0:
		tags = append(tags, "valid")
	case 1:
		c = badRadii[g.Intn(len(badRadii))]
		tags = append(tags, "negative-clearance")
	case 2:
		id = malformedFit(g, 5, h, v, nil, &tags)
		tags = append(tags, "malformed")
	case 3: // validation must not depend on the clearance: exactly 0 with a malformed ID
		id = malformedFit(g, 5, h, v, nil, &tags)
		c = g.PickF(0, math.Copysign(0, -1))
		tags = append(tags, "malformed", "clearance=0")
	case 4:
		id = malformedFit(g, 5, h, v, nil, &tags)
		c = badRadii[g.Intn(len(badRadii))]
		tags = append(tags, "malformed", "negative-clearance")
	}
	if !fitBounded(lenient(id, 5)[0], c) { // a positive clearance only where the loop can end even if nothing were validated
		c = 0
	}
	return []w.Val{w.S(id), w.F(c)}, tags
}

func genCorridor(g *Gen, mode int) ([]w.Val, []string) {
	h, v := g.Zoom(), g.Zoom()
	r := 0.0
	if h >= 3 && g.Chance(0.5) {
		r = g.PickF(1e-9, 1e-7)
	}
	skip := g.Chance(0.5)
	tags := []string{}
	m := mode % 9
	switch m {
	case 1, 7, 8:
		h = badZoom(g)
		tags = append(tags, "bad-hzoom")
	case 2:
		v = badZoom(g)
		tags = append(tags, "bad-vzoom")
	}
	s, e := segment(g, h, v)
	switch m {
	case 7:
		r = badRadii[g.Intn(len(badRadii))]
		tags = append(tags, "negative-radius")
	case 8:
		e = w.Nil{}
		tags = append(tags, "nil-end")
	}
	switch m {
	case 0:
		tags = append(tags, "valid")
	case 3:
		r = badRadii[g.Intn(len(badRadii))]
		tags = append(tags, "negative-radius")
	case 4:
		s = w.Nil{}
		tags = append(tags, "nil-start")
	case 5:
		e = w.Nil{}
		tags = append(tags, "nil-end")
	case 6:
		s, e = w.Nil{}, w.Nil{}
		r = -1
		tags = append(tags, "nil-both", "negative-radius")
	}
	return []w.Val{s, e, w.F(r), w.I(h), w.I(v), w.B(skip)}, tags
}

func genVoxel(g *Gen, mode int) ([]w.Val, []string) {
	id, h, v := g.ValidEID()
	tags := []string{"valid"}
	if mode%2 == 1 {
		tags = []string{"malformed"}
		id = malformedFit(g, 5, h, v, nil, &tags)
		if n := len(strings.Split(id, "/")); n < 5 {
			tags = append(tags, "short")
		}
	}
	return []w.Val{w.S(id)}, tags
}

// coordinates: inside, on the limits, one ulp beyond, far beyond, infinite
func lonFor(g *Gen, bad bool) float64 {
	if !bad {
		return g.PickF(g.Lon(), 180, -180, Ulp(180, -1), Ulp(-180, 1))
	}
	return g.PickF(Ulp(180, 1), Ulp(-180, -1), 180.0000001, -181, 360, math.Inf(1), math.Inf(-1), 1e300)
}
func latFor(g *Gen, bad bool) float64 {
	if !bad {
		return g.PickF(g.Lat(), LatMax, -LatMax, Ulp(LatMax, -1), Ulp(LatMax, 1), 85.05112877989, -85.05112877985)
	}
	// refused only after the documented cut to ten decimals
	return g.PickF(85.0511287799, -85.0511287799, 85.05112878, 85.0511287799000001, 86, -90, 90, math.Inf(1), math.Inf(-1), 1e300, -1e19)
}
func genNewPoint(g *Gen, mode int) ([]w.Val, []string) {
	m := mode % 4
	lon, lat, alt := lonFor(g, m == 1 || m == 3), latFor(g, m == 2 || m == 3), g.Alt()
	tags := []string{[]string{"valid", "bad-lon", "bad-lat", "bad-lon-lat"}[m]}
	if g.Chance(0.2) { // any altitude is stored as it is
		alt = g.PickF(math.Inf(1), math.Inf(-1), 1e300, -1e300, math.MaxFloat64, -math.MaxFloat64, 5e-324, -5e-324, math.Copysign(0, -1), 1e19)
		tags = append(tags, "extreme-altitude")
	}
	return []w.Val{w.F(lon), w.F(lat), w.F(alt)}, tags
}
func genSetLon(g *Gen, mode int) ([]w.Val, []string) {
	p := storedVal(nearZoomPoint(g))
	m := mode % 2
	return []w.Val{p, w.F(lonFor(g, m == 1))}, []string{[]string{"valid", "bad-lon"}[m]}
}
func genSetLat(g *Gen, mode int) ([]w.Val, []string) {
	p := storedVal(nearZoomPoint(g))
	m := mode % 2
	return []w.Val{p, w.F(latFor(g, m == 1))}, []string{[]string{"valid", "bad-lat"}[m]}
}
func genNewEID(g *Gen, mode int) ([]w.Val, []string) {
	id, h, v := g.ValidEID()
	if mode%2 == 1 {
		tags := []string{"malformed"}
		return []w.Val{w.S(malformedFit(g, 5, h, v, nil, &tags))}, tags
	}
	if g.Chance(0.2) { // other spellings strconv accepts
		id = "+" + strings.ReplaceAll(id, "/", "/0")
	}
	return []w.Val{w.S(id)}, []string{"valid"}
}
func genResetEID(g *Gen, mode int) ([]w.Val, []string) {
	old, _, _ := g.ValidEID()
	id, h, v := g.ValidEID()
	if mode%2 == 1 {
		tags := []string{"malformed"}
		return []w.Val{w.S(old), w.S(malformedFit(g, 5, h, v, nil, &tags))}, tags
	}
	return []w.Val{w.S(old), w.S(id)}, []string{"valid"}
}
func genNewTile(g *Gen, mode int) ([]w.Val, []string) {
	h, v := g.Zoom(), g.Zoom()
	x, y, z := g.Int63n(1<<20)-5, g.Int63n(1<<20)-5, g.Int63n(1<<20)-(1<<19)
	tags := []string{}
	switch mode % 4 {
	case 0:
		tags = append(tags, "valid")
	case 1:
		h = badZoom(g)
		tags = append(tags, "bad-hzoom")
	case 2:
		v = badZoom(g)
		tags = append(tags, "bad-vzoom")
	case 3:
		h, v = badZoom(g), badZoom(g)
		tags = append(tags, "bad-hzoom", "bad-vzoom")
	}
	return []w.Val{w.I(h), w.I(x), w.I(y), w.I(v), w.I(z)}, tags
}
func genTileSet(g *Gen, mode int) ([]w.Val, []string) {
	h, v := g.Zoom(), g.Zoom()
	t := w.L(w.I(h), w.I(g.Int63n(1000)), w.I(g.Int63n(1000)), w.I(v), w.I(g.Int63n(1000)-500))
	z := g.Zoom()
	if mode%2 == 1 {
		return []w.Val{t, w.I(badZoom(g))}, []string{"bad-zoom"}
	}
	return []w.Val{t, w.I(z)}, []string{"valid"}
}

type entry struct {
	name   string
	gen    genFn
	weight int
}

var entries = []entry{
	{"NewPoint", genNewPoint, 3}, {"Point.SetLon", genSetLon, 1}, {"Point.SetLat", genSetLat, 2},
	{"NewExtendedSpatialID", genNewEID, 2}, {"ExtendedSpatialID.ResetExtendedSpatialID", genResetEID, 2},
	{"NewTileXYZ", genNewTile, 2}, {"TileXYZ.SetHZoom", genTileSet, 1}, {"TileXYZ.SetVZoom", genTileSet, 1},
	{"GetExtendedSpatialIdsOnPoints", genPoints(false), 3}, {"GetSpatialIdsOnPoints", genPoints(true), 2},
	{"GetExtendedSpatialIdsOnLine", genLine(false), 2}, {"GetSpatialIdsOnLine", genLine(true), 2},
	{"GetPointOnExtendedSpatialId", genPointOn(5), 3}, {"GetPointOnSpatialId", genPointOn(4), 3},
	{"ConvertSpatialIdsToExtendedSpatialIds", genNotation(4), 2}, {"ConvertExtendedSpatialIdsToSpatialIds", genNotation(5), 2},
	{"ConvertPointListToProjectedPointList", genProject(true), 1}, {"ConvertProjectedPointListToPointList", genProject(false), 1},
	{"ChangeExtendedSpatialIdsZoom", genChange(5, false), 4}, {"ChangeSpatialIdsZoom", genChange(4, false), 3},
	{"MergeExtendedSpatialIds", genChange(5, true), 4}, {"MergeSpatialIds", genChange(4, true), 3},
	{"GetShiftingSpatialID", genShift, 3}, {"Get6spatialIdsAdjacentToFaces", genNeigh, 2}, {"Get8spatialIdsAroundHorizontal", genNeigh, 2},
	{"Get26spatialIdsAroundVoxel", genNeigh, 2}, {"GetNspatialIdsAroundVoxcels", genN, 3},
	{"CheckExtendedSpatialIdsOverlap", genOverlap(5), 3}, {"CheckSpatialIdsOverlap", genOverlap(4), 3},
	{"CheckExtendedSpatialIdsArrayOverlap", genOverlapArray(5), 3}, {"CheckSpatialIdsArrayOverlap", genOverlapArray(4), 3},
	{"ConvertExtendedSpatialIDsToQuadkeysAndVerticalIDs", genE2Q(5), 3}, {"ConvertSpatialIDsToQuadkeysAndVerticalIDs", genE2Q(4), 3},
	{"ConvertExtendedSpatialIDsToQuadkeysAndAltitudekeys", genE2QA, 3},
	{"ConvertQuadkeysAndVerticalIDsToExtendedSpatialIDs", genQ2E(false), 3}, {"ConvertQuadkeysAndVerticalIDsToSpatialIDs", genQ2E(true), 3},
	{"ConvertTileXYZsToExtendedSpatialIDs", genTiles(false), 2}, {"ConvertTileXYZsToSpatialIDs", genTiles(true), 2},
	{"ConvertZToMinMaxAltitudekey", genAltKey(true), 2}, {"ConvertAltitudekeyToMinMaxZ", genAltKey(false), 2},
	{"FitClearanceAroundExtendedSpatialID", genFit, 2}, {"GetExtendedSpatialIdsWithinRadiusOfLine", genCorridor, 1},
	{"GetVoxelIDfromSpatialID", genVoxel, 2},
}

func pickEntry(g *Gen, total int) entry {
	k := g.Intn(total)
	for _, e := range entries {
		if k < e.weight {
			return e
		}
		k -= e.weight
	}
	return entries[0]
}

// mode: 0 (valid) with probability ~0.3, otherwise an invalid variant
func pickMode(g *Gen) int {
	if g.Chance(0.3) {
		return 0
	}
	return 1 + g.Intn(420)
}

// the same base arguments under several modes: the generator is replayed from the same PRNG state
func withSeed(g *Gen, seed int64, f func()) {
	saved := g.R
	g.R = rand.New(rand.NewSource(seed))
	f()
	g.R = saved
}

func fixedCases(r *run.Runner) {
	one := func(fn string, tag string, args ...w.Val) {
		r.Run(run.Case{Prop: "C15", Fn: fn, Tags: []string{"fixed", tag}, Args: args})
	}
	zero := w.L(w.L(w.I(0), w.I(0), w.I(0), w.I(0), w.F(0), w.F(0)))
	one("ConvertQuadkeysAndVerticalIDsToExtendedSpatialIDs", "zero-zoom-item-alone", zero, w.I(0), w.I(0))
	one("ConvertQuadkeysAndVerticalIDsToExtendedSpatialIDs", "zero-zoom-item-alone", zero, w.I(3), w.I(3))
	one("ConvertQuadkeysAndVerticalIDsToSpatialIDs", "zero-zoom-item-alone", zero, w.I(0))
	one("ConvertQuadkeysAndVerticalIDsToSpatialIDs", "zero-zoom-item-alone", zero, w.I(2))
	for _, id := range []string{"x/0/0/1/0", "1/2", "", "1/0/0/1/0/0", "1/0/0/1/a"} {
		one("FitClearanceAroundExtendedSpatialID", "clearance=0", w.S(id), w.F(0))
	}
	for _, id := range []string{"1/2/3/4", "", "1", "a/b/c/d/e", "1/2/3/4/5/6"} {
		one("GetVoxelIDfromSpatialID", "malformed", w.S(id))
	}
	one("ConvertZToMinMaxAltitudekey", "bad-input-zoom", w.I(0), w.I(36), w.I(3), w.I(25), w.I(0))
	one("ConvertAltitudekeyToMinMaxZ", "bad-output-zoom", w.I(0), w.I(3), w.I(36), w.I(25), w.I(0))
	one("ConvertZToMinMaxAltitudekey", "bad-input-zoom", w.I(0), w.I(minI), w.I(3), w.I(25), w.I(0))
	one("CheckExtendedSpatialIdsArrayOverlap", "unreached", w.Strs([]string{"x"}), w.Strs([]string{}))
	one("CheckExtendedSpatialIdsArrayOverlap", "unreached", w.Strs([]string{"1/0/0/1/0"}), w.Strs([]string{"1/0/0/1/0", "x"}))
	one("CheckSpatialIdsArrayOverlap", "unreached", w.Strs([]string{"3/0/0/0"}), w.Strs([]string{"3/0/0/0", "x"}))
	one("CheckSpatialIdsArrayOverlap", "empty-first", w.Strs([]string{}), w.Strs([]string{"x"}))
	one("CheckSpatialIdsArrayOverlap", "empty-first", w.Strs([]string{}), w.Strs([]string{"3/0/0/0"}))
	one("ConvertTileXYZsToExtendedSpatialIDs", "empty-request", w.List{}, w.I(25), w.I(0), w.I(99))
	one("ConvertTileXYZsToSpatialIDs", "empty-request", w.List{}, w.I(25), w.I(0), w.I(-1))
	one("ConvertPointListToProjectedPointList", "unknown-epsg-empty-list", w.List{}, w.I(99999))
	one("ConvertProjectedPointListToPointList", "unknown-epsg-empty-list", w.List{}, w.I(1))
	one("NewTileXYZ", "bad-hzoom", w.I(-3), w.I(0), w.I(0), w.I(-2), w.I(0))
	one("GetNspatialIdsAroundVoxcels", "malformed", w.Strs([]string{"a/0/0/0/0"}), w.I(1), w.I(1))
	one("CheckSpatialIdsOverlap", "malformed", w.S("1/b/0/0"), w.S("1/0/0/0"))
	one("ConvertExtendedSpatialIDsToQuadkeysAndVerticalIDs", "malformed", w.Strs([]string{"1/2"}), w.I(2), w.I(2), w.F(0), w.F(0))
	one("ConvertSpatialIDsToQuadkeysAndVerticalIDs", "malformed", w.Strs([]string{"1/2"}), w.I(2), w.I(2), w.F(0), w.F(0))
	one("ConvertExtendedSpatialIDsToQuadkeysAndVerticalIDs", "malformed", w.Strs([]string{"1/0/0/1/0/0"}), w.I(2), w.I(2), w.F(0), w.F(0))
	one("NewPoint", "bad-lat", w.F(0), w.F(85.0511287799), w.F(0))
	one("NewPoint", "valid", w.F(0), w.F(12.9086804579), w.F(0))
	for _, c := range []string{"InputValueError", "OptionFailedError", "ValueConvertError", "OtherError", "Foo", ""} {
		for _, d := range []string{"", "spatialId: x", "a,b", "入力", "hZoom must be in 0-35, but got 36"} {
			one("NewSpatialIdError", "error-text", w.S(c), w.S(d))
		}
	}
}

func init() {
	Scale["C15"] = 30000
	Registry["C15"] = func(r *run.Runner, g *Gen, n int) {
		for name := range calls {
			r.Register(mkFn(name))
		}
		r.Register(&run.Fn{Name: "Sequence", Invoke: callSeq})
		MathOracles(r)
		if n == 0 {
			return
		}
		fixedCases(r)
		total := 0
		for _, e := range entries {
			total += e.weight
		}
		for i := 0; i < n; i++ {
			e := pickEntry(g, total)
			if i%10 == 9 { // related consecutive calls: same base, one argument turned invalid, and back; or the same call twice
				seed := g.R.Int63()
				var cs w.List
				var tags []string
				modes := []int{0, pickMode(g), 0}
				switch g.Intn(4) {
				case 0:
					m := pickMode(g)
					modes = []int{m, m}
				case 1:
					modes = []int{pickMode(g), 0, pickMode(g)}
				case 2:
					modes = []int{0, 0, pickMode(g), pickMode(g)}
				}
				for _, m := range modes {
					m := m
					withSeed(g, seed, func() {
						a, t := e.gen(g, m)
						cs = append(cs, w.L(w.S(e.name), w.List(a)))
						tags = append(tags, t...)
					})
				}
				r.Run(run.Case{Prop: "C15", Fn: "Sequence", Tags: []string{"seq", "seq:" + e.name}, Args: []w.Val{cs}})
				_ = tags
				continue
			}
			mode := pickMode(g)
			a, tags := e.gen(g, mode)
			r.Run(run.Case{Prop: "C15", Fn: e.name, Tags: append([]string{e.name}, tags...), Args: a})
		}
	}
}
