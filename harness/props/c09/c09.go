// Package c09: property C09 — point lookup, zoom change, merge and overlap check agree with each other.
//
// Every invoker performs several RELATED calls of the real functions (shape.GetExtendedSpatialIdsOnPoints,
// integrate.ChangeExtendedSpatialIdsZoom, integrate.MergeExtendedSpatialIds, detector.CheckExtendedSpatialIdsOverlap) and returns all
// results; the dispatch entries of DC09.v compare the results with each other (property) and with the composed models (correspondence).
//
//	PointNesting      one stored point at two zoom pairs: both IDs, the zoom change of the first ID to the second pair, the overlap check
//	PointLadder       one stored point at a ladder of zoom pairs: all IDs, the overlap check on listed pairs of them
//	ZoomInOut         an ID zoomed in by (dh, dv) and the result zoomed out again
//	MergeDescendants  the complete descendants of an ID, shuffled / repeated by a seed, merged at the ID's own zooms
//
// Bounds: zoom-in results are limited to 4096 IDs; a call beyond the bound is not executed (marker; the dispatch entry re-computes the
// estimate and answers class "skipped" only then), so shrinking cannot explode. The overlap function is called on EVERY zoom pair (it only
// zooms out; every call runs under the runner's timeout and the process under a memory limit).
package c09

import (
	"fmt"
	"math"
	"math/rand"
	"sort"
	"strconv"
	"strings"

	"github.com/trajectoryjp/spatial_id_go/v4/common/object"
	"github.com/trajectoryjp/spatial_id_go/v4/detector"
	"github.com/trajectoryjp/spatial_id_go/v4/integrate"
	"github.com/trajectoryjp/spatial_id_go/v4/shape"

	. "verif/harness/gen"
	"verif/harness/run"
	w "verif/harness/wire"
)

const skipMarker = "skipped-too-large"
const capBits = 12 // zoom-in results of at most 2^12 IDs

func zoomOK(z int64) bool { return 0 <= z && z <= 35 }
func abs64(a int64) int64 {
	if a < 0 {
		return -a
	}
	return a
}
func pos64(a int64) int64 {
	if a < 0 {
		return 0
	}
	return a
}

// caller: the program that calls the library. A plain entry uses a fresh, polite caller. A CallHistory case uses ONE caller for all its
// steps: it keeps its point objects, its ID buffer and its point-list slice across calls (same pointers, same backing arrays, new contents),
// and in "scribble" mode it overwrites its own inputs and the slices the library returned right after each call — all legitimate for a
// caller, and invisible to a library that keeps no state and aliases nothing.
type caller struct {
	scribble bool
	slots    [2]*object.Point // the caller's own point objects: [0] is moved in place for every question, [1] is a decoy
	buf      []string        // the caller's ID list, refilled in place
	pts      []*object.Point // the caller's point list, refilled in place
}

func newCaller(scribble bool) *caller {
	c := &caller{scribble: scribble, buf: make([]string, 0, 8192), pts: make([]*object.Point, 0, 4)}
	for i := range c.slots {
		c.slots[i] = &object.Point{}
	}
	return c
}

// pointOf: the stored triple written INTO one of the caller's existing objects (RawPoint-style, no re-truncation of the latitude)
func (c *caller) pointOf(v w.Val) *object.Point {
	t := w.AsList(v)
	fresh := RawPoint(w.AsFlt(t[0]), w.AsFlt(t[1]), w.AsFlt(t[2])) // also checks the layout of object.Point
	p := c.slots[0] // always the same object: a library that remembers the pointer sees it again with other coordinates
	*p = *fresh
	return p
}

const scribbleID = "35/1/2/35/-4" // a valid ID unrelated to any generated one, at the finest zooms (a library that reads it back can only zoom it out: cheap)

func (c *caller) lookup(p *object.Point, h, v int64) ([]string, error) {
	c.pts = append(c.pts[:0], p)
	in := c.pts
	out, err := shape.GetExtendedSpatialIdsOnPoints(in, h, v)
	res := append([]string(nil), out...)
	if c.scribble {
		for i := range out {
			out[i] = scribbleID
		}
		in[0] = c.slots[1]
	}
	return res, err
}

func (c *caller) pointID(p *object.Point, h, v int64) (string, error) {
	ids, err := c.lookup(p, h, v)
	if err != nil {
		return "", err
	}
	if len(ids) != 1 {
		return "", errLen
	}
	return ids[0], nil
}

// afterPoint: in scribble mode the caller moves its own object once it has finished asking about it
func (c *caller) afterPoint(p *object.Point) {
	if c.scribble {
		*p = *RawPoint(12.5, -33.25, 77)
	}
}

func (c *caller) fill(ids []string) []string {
	c.buf = append(c.buf[:0], ids...)
	return c.buf
}

func (c *caller) finish(in, out []string) {
	if c.scribble {
		for i := range out {
			out[i] = scribbleID
		}
		for i := range in {
			in[i] = scribbleID
		}
	}
}

func (c *caller) change(ids []string, H, V int64) ([]string, error) {
	in := c.fill(ids)
	out, err := integrate.ChangeExtendedSpatialIdsZoom(in, H, V)
	var res []string
	if out != nil {
		res = append([]string{}, out...)
	}
	c.finish(in, out)
	return res, err
}

func (c *caller) merge(ids []string, H, V int64) ([]string, error) {
	in := c.fill(ids)
	out, err := integrate.MergeExtendedSpatialIds(in, H, V)
	var res []string
	if out != nil {
		res = append([]string{}, out...)
	}
	c.finish(in, out)
	return res, err
}

type lenErr struct{}

func (lenErr) Error() string { return "one point did not give one ID" }

var errLen = lenErr{}

func (c *caller) nesting(a []w.Val) w.Val {
	h1, v1, h2, v2 := w.AsInt(a[1]), w.AsInt(a[2]), w.AsInt(a[3]), w.AsInt(a[4])
	all := zoomOK(h1) && zoomOK(v1) && zoomOK(h2) && zoomOK(v2)
	if all && 2*pos64(h2-h1)+pos64(v2-v1) > capBits {
		return w.S(skipMarker)
	}
	p := c.pointOf(a[0])
	id1, e1 := c.pointID(p, h1, v1)
	id2, e2 := c.pointID(p, h2, v2)
	c.afterPoint(p)
	if e1 != nil || e2 != nil {
		return w.Err{V: w.L(w.S(id1), w.S(id2))}
	}
	chg, e3 := c.change([]string{id1}, h2, v2)
	b, e4 := detector.CheckExtendedSpatialIdsOverlap(id1, id2)
	res := w.L(w.S(id1), w.S(id2), strs(modelOrder(chg)), w.B(b))
	if e3 != nil || e4 != nil {
		return w.Err{V: res}
	}
	return res
}

func fnNesting() *run.Fn {
	return &run.Fn{Name: "PointNesting", Timeout: 5e9, Invoke: func(a []w.Val) w.Val { return newCaller(false).nesting(a) }}
}

// modelOrder sorts a zoom-change result (Go map order after common.Unique) into the order of the model's loops: y, then x, then f.
// Strings that are not five integers are left where they are (the comparison with the model then fails).
func modelOrder(l []string) []string {
	type key struct{ y, x, f int64 }
	ks := make([]key, len(l))
	for i, s := range l {
		fs := strings.Split(s, "/")
		if len(fs) != 5 {
			return l
		}
		x, e1 := strconv.ParseInt(fs[1], 10, 64)
		y, e2 := strconv.ParseInt(fs[2], 10, 64)
		f, e3 := strconv.ParseInt(fs[4], 10, 64)
		if e1 != nil || e2 != nil || e3 != nil {
			return l
		}
		ks[i] = key{y, x, f}
	}
	idx := make([]int, len(l))
	for i := range idx {
		idx[i] = i
	}
	sort.SliceStable(idx, func(a, b int) bool {
		ka, kb := ks[idx[a]], ks[idx[b]]
		if ka.y != kb.y {
			return ka.y < kb.y
		}
		if ka.x != kb.x {
			return ka.x < kb.x
		}
		return ka.f < kb.f
	})
	out := make([]string, len(l))
	for i, j := range idx {
		out[i] = l[j]
	}
	return out
}

func strs(l []string) w.Val {
	if l == nil {
		return w.List{}
	}
	return w.Strs(l)
}

func (c *caller) ladder(a []w.Val) w.Val {
	zs := w.AsList(a[1])
	type zz struct{ h, v int64 }
	zooms := make([]zz, len(zs))
	ids := make([]string, len(zs))
	for k, z := range zs {
		l := w.AsList(z)
		zooms[k] = zz{w.AsInt(l[0]), w.AsInt(l[1])}
	}
	p := c.pointOf(a[0])
	for k, z := range zooms {
		id, err := c.pointID(p, z.h, z.v)
		if err != nil {
			c.afterPoint(p)
			return w.Err{V: strs(ids[:k])}
		}
		ids[k] = id
	}
	c.afterPoint(p)
	bools := w.List{}
	var firstErr error
	for _, pr := range w.AsList(a[2]) {
		l := w.AsList(pr)
		ia, ib := w.AsInt(l[0]), w.AsInt(l[1])
		if ia < 0 || ib < 0 || ia >= int64(len(ids)) || ib >= int64(len(ids)) {
			bools = append(bools, w.Nil{}) // not a pair of rungs (only a shrinker can produce it): refused by the dispatch entry
			continue
		}
		b, err := detector.CheckExtendedSpatialIdsOverlap(ids[ia], ids[ib])
		if err != nil && firstErr == nil {
			firstErr = err
		}
		bools = append(bools, w.B(b))
	}
	return w.WithErr(w.L(strs(ids), bools), firstErr)
}

func fnLadder() *run.Fn {
	return &run.Fn{Name: "PointLadder", Timeout: 5e9, Invoke: func(a []w.Val) w.Val { return newCaller(false).ladder(a) }}
}

func (c *caller) inOut(a []w.Val) w.Val {
	id, H, V := w.AsStr(a[0]), w.AsInt(a[1]), w.AsInt(a[2])
	e, perr := object.NewExtendedSpatialID(id)
	var h, v int64
	if perr == nil {
		h, v = e.HZoom(), e.VZoom()
		if !zoomOK(h) || !zoomOK(v) {
			return w.S(skipMarker)
		}
		if zoomOK(H) && zoomOK(V) && 2*abs64(H-h)+abs64(V-v) > capBits {
			return w.S(skipMarker)
		}
	}
	mid, e1 := c.change([]string{id}, H, V)
	if e1 != nil {
		return w.Err{V: w.Nil{}}
	}
	if perr != nil { // object.NewExtendedSpatialID refused the ID but the zoom change accepted it: reported as "no error"
		return w.L(strs(modelOrder(mid)), w.List{})
	}
	back, e2 := c.change(mid, h, v)
	return w.WithErr(w.L(strs(modelOrder(mid)), strs(back)), e2)
}

func fnInOut() *run.Fn {
	return &run.Fn{Name: "ZoomInOut", Timeout: 5e9, Invoke: func(a []w.Val) w.Val { return newCaller(false).inOut(a) }}
}

// shuffleDup: the list in an order and with repetitions chosen by the seed (mode = seed mod 4: as is / shuffled / shuffled with
// repeated members inserted at random places / reversed with every member twice).
func shuffleDup(l []string, seed int64) []string {
	r := rand.New(rand.NewSource(seed))
	out := append([]string{}, l...)
	switch ((seed % 4) + 4) % 4 {
	case 1:
		r.Shuffle(len(out), func(i, j int) { out[i], out[j] = out[j], out[i] })
	case 2:
		r.Shuffle(len(out), func(i, j int) { out[i], out[j] = out[j], out[i] })
		if len(l) > 0 {
			for k := r.Intn(len(l)/2 + 2); k > 0; k-- {
				x := l[r.Intn(len(l))]
				at := r.Intn(len(out) + 1)
				out = append(out[:at], append([]string{x}, out[at:]...)...)
			}
		}
	case 3:
		out = out[:0]
		for i := len(l) - 1; i >= 0; i-- {
			out = append(out, l[i], l[i])
		}
	}
	return out
}

func (c *caller) mergeDesc(a []w.Val) w.Val {
	id, dh, dv, seed := w.AsStr(a[0]), w.AsInt(a[1]), w.AsInt(a[2]), w.AsInt(a[3])
	e, perr := object.NewExtendedSpatialID(id)
	if perr != nil {
		_, e1 := c.merge([]string{id}, 0, 0)
		return w.WithErr(w.L(w.List{}, w.List{}), e1)
	}
	h, v := e.HZoom(), e.VZoom()
	if !zoomOK(h) || !zoomOK(v) || dh < 0 || dh > 3 || dv < 0 || dv > 4 || h+dh > 35 || v+dv > 35 {
		return w.S(skipMarker)
	}
	desc, e1 := c.change([]string{id}, h+dh, v+dv)
	if e1 != nil {
		return w.Err{V: w.Nil{}}
	}
	list := shuffleDup(desc, seed)
	merged, e2 := c.merge(list, h, v)
	return w.WithErr(w.L(strs(list), strs(merged)), e2)
}

func fnMergeDesc() *run.Fn {
	return &run.Fn{Name: "MergeDescendants", Timeout: 5e9, Invoke: func(a []w.Val) w.Val { return newCaller(false).mergeDesc(a) }}
}

// act: a caller action inside a history whose results the caller throws away (nothing is judged): any direct call of the four functions,
// typically one that fails half-way. ["call-change"|"call-merge", ids, H, V], ["call-points", stored triple, h, v], ["call-overlap", a, b].
// Size guard: a zoom change that would produce more than 2^capBits IDs is not made.
func (c *caller) act(name string, a []w.Val) {
	switch name {
	case "call-change", "call-merge":
		if len(a) != 3 {
			return
		}
		ids, H, V := w.AsStrs(a[0]), w.AsInt(a[1]), w.AsInt(a[2])
		if len(ids) > 64 {
			return
		}
		if name == "call-merge" {
			c.merge(ids, H, V)
			return
		}
		for _, id := range ids {
			if e, err := object.NewExtendedSpatialID(id); err == nil {
				if zoomOK(H) && zoomOK(V) && (!zoomOK(e.HZoom()) || !zoomOK(e.VZoom()) || 2*pos64(H-e.HZoom())+pos64(V-e.VZoom()) > 6) {
					return
				}
			}
		}
		c.change(ids, H, V)
	case "call-points":
		if len(a) != 3 {
			return
		}
		p := c.pointOf(a[0])
		c.lookup(p, w.AsInt(a[1]), w.AsInt(a[2]))
		c.afterPoint(p)
	case "call-overlap":
		if len(a) != 2 {
			return
		}
		detector.CheckExtendedSpatialIdsOverlap(w.AsStr(a[0]), w.AsStr(a[1]))
	}
}

// CallHistory: [scribble?; steps]; step = [name; arguments]. name is one of the four entries above (the step's observation is judged
// exactly as that entry's standalone case) or a caller action "call-*" (observation nil, not judged). All steps are made by ONE caller,
// back to back, after a fixed priming sequence of unrelated calls — so that the case replays identically in a fresh process whatever
// earlier cases left behind in the library.
func fnHistory() *run.Fn {
	return &run.Fn{Name: "CallHistory", Timeout: 2e10, Invoke: func(a []w.Val) w.Val {
		c := newCaller(w.AsBool(a[0]))
		prime := newCaller(false)
		prime.change([]string{"2/1/1/2/1"}, 3, 1)
		prime.merge([]string{"2/1/1/2/1", "2/1/1/2/0"}, 2, 1)
		prime.lookup(RawPoint(10, 10, 10), 3, 3)
		detector.CheckExtendedSpatialIdsOverlap("2/1/1/2/1", "1/0/0/1/0")
		out := w.List{}
		for _, st := range w.AsList(a[1]) {
			l := w.AsList(st)
			if len(l) != 2 {
				out = append(out, w.Nil{})
				continue
			}
			name, sa := w.AsStr(l[0]), []w.Val(w.AsList(l[1]))
			switch name {
			case "PointNesting":
				out = append(out, guarded(func() w.Val { return c.nesting(sa) }))
			case "PointLadder":
				out = append(out, guarded(func() w.Val { return c.ladder(sa) }))
			case "ZoomInOut":
				out = append(out, guarded(func() w.Val { return c.inOut(sa) }))
			case "MergeDescendants":
				out = append(out, guarded(func() w.Val { return c.mergeDesc(sa) }))
			default:
				guarded(func() w.Val { c.act(name, sa); return w.Nil{} })
				out = append(out, w.Nil{})
			}
		}
		return out
	}}
}

// guarded: a step whose arguments have the wrong shape (only a shrinker produces that) or that panics yields a Panic value for that step
func guarded(f func() w.Val) (v w.Val) {
	defer func() {
		if e := recover(); e != nil {
			v = w.Panic{Msg: fmt.Sprint(e)}
		}
	}()
	return f()
}

// ---------------------------------------------------------------- generators

// altFor: altitudes, negative in half of the cases, aimed at the layer boundaries of zoom v.
func altFor(g *Gen, v int64) (float64, string) {
	cell := math.Pow(2, 25-float64(v))
	if g.Chance(0.5) {
		switch g.Intn(7) {
		case 0:
			return g.PickF(-75.5, -0.5, -1, -101.5, -1e-9, -0.001, -33554432, math.Nextafter(-33554432, 0), -1e-20), "alt-neg-fixed"
		case 1: // negative exact multiple of the cell height
			n := int64(1) << uint(v)
			k := g.Int63n(n) + 1
			if g.Chance(0.4) {
				k = g.Pick(1, 2, n)
				if k > n {
					k = n
				}
			}
			return -float64(k) * cell, "alt-neg-multiple"
		case 2: // a negative layer boundary +- ulps
			n := int64(1) << uint(v)
			return math.Max(-33554432, Ulp(-float64(g.Int63n(n)+1)*cell, g.Intn(5)-2)), "alt-neg-boundary"
		case 3: // inside the first layers below ground
			return -g.R.Float64() * math.Min(33554432, cell*float64(1+g.Intn(4))), "alt-neg-first-layers"
		case 4:
			return -g.R.Float64() * 1000, "alt-neg-km"
		}
		return -g.R.Float64() * 33554432, "alt-neg-any"
	}
	switch g.Intn(6) {
	case 0:
		return g.PickF(0, math.Copysign(0, -1), 101.5, 1, 0.5, 33554431.999999996, 1e-9), "alt-pos-fixed"
	case 1:
		k := g.Int63n(int64(1) << uint(v))
		return Ulp(float64(k)*cell, g.Intn(5)-2), "alt-pos-boundary"
	case 2:
		return g.R.Float64() * 1000, "alt-pos-km"
	}
	return g.R.Float64() * 33554432, "alt-pos-any"
}

func lonFor(g *Gen, h int64) float64 {
	switch g.Intn(8) {
	case 0: // a column boundary of this zoom +- ulps
		n := int64(1) << uint(h)
		return Ulp(float64(g.Int63n(n+1))*360/math.Pow(2, float64(h))-180, g.Intn(5)-2)
	case 1:
		return g.PickF(139.753098, 180, -180, math.Nextafter(180, 0), 0, -1e-20, 179.99999999999997)
	}
	return g.Lon()
}

// storedPoint: one point built through NewPoint; aimed at zooms (h, v).
func storedPoint(g *Gen, h, v int64) (w.Val, []string) {
	for {
		lon, lat := lonFor(g, h), g.Lat()
		alt, tag := altFor(g, v)
		if g.Chance(0.03) {
			lon, lat, alt, tag = 139.753098, 35.685371, g.PickF(101.5, -101.5, -75.5), "tokyo"
		}
		if _, pv, ok := StoredPoint(lon, lat, alt); ok {
			return pv, []string{tag}
		}
	}
}

// zoomPair: (fine-ish, other) zoom pairs. kinds: "ordered" — the second pair coarser or equal on both axes, over all of 0..35;
// "near" — ordered with small differences (the overlap function is called); "crossed" — one axis finer and the other coarser.
func zoomPair(g *Gen) (h1, v1, h2, v2 int64, kind string) {
	k := g.Intn(100)
	switch {
	case k < 40:
		h1, v1 = g.Zoom(), g.Zoom()
		h2, v2 = g.ZoomBelow(h1), g.ZoomBelow(v1)
		return h1, v1, h2, v2, "ordered"
	case k < 55:
		h1, v1 = g.Zoom(), g.Zoom()
		h2, v2 = pos64(h1-g.Int63n(6)), pos64(v1-g.Int63n(9))
		return h1, v1, h2, v2, "near"
	case k < 80: // h1 >= h2 and v1 < v2: the vertical zoom is raised by the change (at most 2^8 results)
		h2, v1 = g.Zoom(), g.Zoom()
		h1 = h2 + g.Int63n(6)
		if g.Chance(0.5) { // any drop on the lowered axis
			h1 = g.Zoom()
			h2 = g.ZoomBelow(h1)
		}
		v2 = v1 + 1 + g.Int63n(8)
		if h1 > 35 {
			h1 = 35
		}
		if v2 > 35 {
			v1, v2 = 35-(v2-v1), 35
		}
		return h1, v1, h2, v2, "crossed-hfine-vcoarse"
	default: // h1 < h2 and v1 >= v2: the horizontal zoom is raised (at most 4^4 results)
		h1, v2 = g.Zoom(), g.Zoom()
		h2 = h1 + 1 + g.Int63n(4)
		v1 = v2 + g.Int63n(9)
		if g.Chance(0.5) { // any drop on the lowered axis
			v1 = g.Zoom()
			v2 = g.ZoomBelow(v1)
		}
		if h2 > 35 {
			h1, h2 = 35-(h2-h1), 35
		}
		if v1 > 35 {
			v1 = 35
		}
		return h1, v1, h2, v2, "crossed-hcoarse-vfine"
	}
}

// negF: a negative vertical index of zoom v, edges forced.
func negF(g *Gen, v int64) int64 {
	n := int64(1) << uint(v)
	switch g.Intn(6) {
	case 0:
		return -1
	case 1:
		return -n
	case 2:
		if n >= 2 {
			return -2
		}
	case 3:
		if n >= 2 {
			return -n + 1
		}
	}
	return -g.Int63n(n) - 1
}

// idFor: a valid ID at zooms (h, v); negative f in at least half of the cases (fixed edges, and the voxel of a real point below ground).
func idFor(g *Gen, h, v int64) (string, string) {
	if g.Chance(0.55) {
		if g.Chance(0.25) { // the voxel of a point with a negative altitude (e.g. -75.5 m), through the real point function
			alt := g.PickF(-75.5, -0.5, -101.5, -g.R.Float64()*1000, -g.R.Float64()*33554432)
			if p, _, ok := StoredPoint(g.Lon(), g.Lat(), alt); ok {
				if id, err := newCaller(false).pointID(p, h, v); err == nil {
					return id, "id-of-point-below-ground"
				}
			}
		}
		return EID(h, g.HIndex(h), g.HIndex(h), v, negF(g, v)), "id-negative-f"
	}
	f := g.VIndex(v)
	if f < 0 {
		return EID(h, g.HIndex(h), g.HIndex(h), v, f), "id-negative-f"
	}
	return EID(h, g.HIndex(h), g.HIndex(h), v, f), "id-nonneg-f"
}

// respell: in 5 % of the cases an accepted non-canonical spelling of the same ID ("+3", "007", "-0")
func respell(g *Gen, id, tag string) (string, string) {
	if !g.Chance(0.05) {
		return id, tag
	}
	fs := strings.Split(id, "/")
	k := g.Intn(len(fs))
	switch {
	case fs[k] == "0" && g.Chance(0.5):
		fs[k] = "-0"
	case !strings.HasPrefix(fs[k], "-") && g.Chance(0.5):
		fs[k] = "+" + fs[k]
	case strings.HasPrefix(fs[k], "-"):
		fs[k] = "-00" + fs[k][1:]
	default:
		fs[k] = "00" + fs[k]
	}
	return strings.Join(fs, "/"), tag + "+respelled"
}

// ---------------------------------------------------------------- call histories

func step(name string, args ...w.Val) w.Val { return w.L(w.S(name), w.List(args)) }

// plainPoint: a stored point well inside the domain (no denormal altitude: histories carry no finding class)
func plainPoint(g *Gen) w.Val {
	for {
		alt := (g.R.Float64()*2 - 1) * 2000
		if g.Chance(0.3) {
			alt = g.PickF(-75.5, 101.5, -0.5, 0, -1, 12)
		}
		if _, pv, ok := StoredPoint(g.R.Float64()*360-180, g.R.Float64()*170-85, alt); ok {
			return pv
		}
	}
}

// history: 3-7 steps made by one caller. Themes: the same key-like arguments (zooms, sizes) with different remaining arguments and the
// reverse; invalid-then-valid and valid-then-invalid; the same failing call twice; identical calls repeated (also the trivial zoom change,
// where the library is asked the very same question twice in a row); points through the same object with shared zoom pairs; a mix with
// unjudged caller actions (direct calls that fail half-way). Returns [scribble?, steps].
func history(g *Gen) ([]w.Val, []string) {
	var steps w.List
	tag := ""
	smallZoom := func() (int64, int64) { return g.Zoom(), g.Zoom() }
	idAt := func(h, v int64) string { id, _ := idFor(g, h, v); return id }
	clamp := func(z int64) int64 {
		if z > 35 {
			return 35
		}
		return z
	}
	switch g.Intn(9) {
	case 0: // merge: same zooms and same list length, different IDs
		h, v := smallZoom()
		dh, dv := g.Int63n(2), g.Int63n(3)
		if h+dh > 35 {
			dh = 0
		}
		if v+dv > 35 {
			dv = 0
		}
		mode := g.Int63n(2)
		for j := 3 + g.Intn(2); j > 0; j-- {
			steps = append(steps, step("MergeDescendants", w.S(idAt(h, v)), w.I(dh), w.I(dv), w.I(4*g.Int63n(1000)+mode)))
		}
		tag = "hist-merge-same-zooms-other-ids"
	case 1: // zoom in/out: same zooms, different IDs
		h, v := smallZoom()
		H, V := clamp(h+g.Int63n(3)), clamp(v+g.Int63n(4))
		for j := 3 + g.Intn(2); j > 0; j-- {
			steps = append(steps, step("ZoomInOut", w.S(idAt(h, v)), w.I(H), w.I(V)))
		}
		tag = "hist-inout-same-zooms-other-ids"
	case 2: // zoom in/out: the same ID, targets that share one zoom
		h, v := smallZoom()
		id := idAt(h, v)
		H1, H2, V1, V2 := clamp(h+g.Int63n(3)), clamp(h+g.Int63n(3)), clamp(v+g.Int63n(4)), clamp(v+g.Int63n(4))
		for _, t := range [][2]int64{{H1, V1}, {H1, V2}, {H2, V2}, {H2, V1}, {H1, V1}} {
			steps = append(steps, step("ZoomInOut", w.S(id), w.I(t[0]), w.I(t[1])))
		}
		steps = append(steps, step("MergeDescendants", w.S(id), w.I(pos64(H1-h)%3), w.I(pos64(V1-v)), w.I(g.Int63n(1000))))
		tag = "hist-same-id-other-zooms"
	case 3: // invalid, then valid with the same key-like arguments, then invalid again
		h, v := smallZoom()
		id := idAt(h, v)
		H, V := clamp(h+g.Int63n(3)), clamp(v+g.Int63n(4))
		badZ := g.Pick(-1, 36, 64)
		steps = w.List{
			step("ZoomInOut", w.S(id), w.I(badZ), w.I(V)), step("ZoomInOut", w.S(id), w.I(H), w.I(V)),
			step("ZoomInOut", w.S(id), w.I(H), w.I(badZ)), step("ZoomInOut", w.S(id), w.I(H), w.I(V)),
			step("MergeDescendants", w.S(g.Malformed()), w.I(1), w.I(1), w.I(3)), step("MergeDescendants", w.S(id), w.I(pos64(H-h)), w.I(pos64(V-v)), w.I(g.Int63n(1000))),
		}
		pv := plainPoint(g)
		steps = append(steps, step("PointNesting", pv, w.I(H), w.I(V), w.I(badZ), w.I(v)), step("PointNesting", pv, w.I(H), w.I(V), w.I(h), w.I(v)))
		tag = "hist-invalid-valid-invalid"
	case 4: // the same failing call twice in a row, then the valid one
		h, v := smallZoom()
		id := idAt(h, v)
		H, V := clamp(h+g.Int63n(3)), clamp(v+g.Int63n(4))
		bad := g.Malformed()
		switch g.Intn(3) {
		case 0:
			steps = w.List{step("ZoomInOut", w.S(id), w.I(36), w.I(V)), step("ZoomInOut", w.S(id), w.I(36), w.I(V)), step("ZoomInOut", w.S(id), w.I(H), w.I(V))}
		case 1:
			steps = w.List{step("ZoomInOut", w.S(bad), w.I(H), w.I(V)), step("ZoomInOut", w.S(bad), w.I(H), w.I(V)), step("ZoomInOut", w.S(id), w.I(H), w.I(V))}
		default:
			steps = w.List{step("MergeDescendants", w.S(bad), w.I(1), w.I(1), w.I(5)), step("MergeDescendants", w.S(bad), w.I(1), w.I(1), w.I(5)),
				step("MergeDescendants", w.S(id), w.I(pos64(H-h)), w.I(pos64(V-v)), w.I(5))}
		}
		pv := plainPoint(g)
		steps = append(steps, step("PointNesting", pv, w.I(-1), w.I(V), w.I(h), w.I(v)), step("PointNesting", pv, w.I(-1), w.I(V), w.I(h), w.I(v)))
		tag = "hist-same-failure-twice"
	case 5: // identical valid calls repeated; the trivial zoom change asks the library the same question twice in a row
		h, v := smallZoom()
		id := idAt(h, v)
		H, V := clamp(h+g.Int63n(3)), clamp(v+g.Int63n(3))
		sd := g.Int63n(1000)
		steps = w.List{
			step("ZoomInOut", w.S(id), w.I(h), w.I(v)), step("ZoomInOut", w.S(id), w.I(h), w.I(v)),
			step("ZoomInOut", w.S(id), w.I(H), w.I(V)), step("ZoomInOut", w.S(id), w.I(H), w.I(V)),
			step("MergeDescendants", w.S(id), w.I(0), w.I(0), w.I(sd)), step("MergeDescendants", w.S(id), w.I(0), w.I(0), w.I(sd)),
			step("MergeDescendants", w.S(id), w.I(pos64(H-h)), w.I(pos64(V-v)), w.I(sd)), step("MergeDescendants", w.S(id), w.I(pos64(H-h)), w.I(pos64(V-v)), w.I(sd)),
		}
		tag = "hist-identical-repeated"
	case 6: // points through the same object: consecutive lookups share their zoom pair but not the coordinates
		h1, v1, h2, v2, _ := zoomPair(g)
		if 2*pos64(h1-h2)+pos64(v1-v2) > capBits { // the swapped pair must stay under the size cap too
			h2, v2 = h1, v1-pos64(v1-v2)%3
			if v2 < 0 {
				v2 = 0
			}
		}
		for j := 0; j < 4; j++ {
			if j%2 == 0 {
				steps = append(steps, step("PointNesting", plainPoint(g), w.I(h1), w.I(v1), w.I(h2), w.I(v2)))
			} else {
				steps = append(steps, step("PointNesting", plainPoint(g), w.I(h2), w.I(v2), w.I(h1), w.I(v1)))
			}
		}
		zs := w.L(w.L(w.I(h1), w.I(v1)), w.L(w.I(h2), w.I(v2)), w.L(w.I(h1), w.I(v1)))
		pairs := w.L(w.L(w.I(0), w.I(1)), w.L(w.I(1), w.I(2)), w.L(w.I(0), w.I(2)))
		steps = append(steps, step("PointLadder", plainPoint(g), zs, pairs), step("PointLadder", plainPoint(g), zs, pairs))
		tag = "hist-points-same-object-shared-zooms"
	case 7: // a direct call that fails half-way (valid prefix, then a malformed ID), thrown away, then judged steps with the same zooms
		h, v := smallZoom()
		dh, dv := g.Int63n(2), g.Int63n(3)
		if h+dh > 35 {
			dh = 0
		}
		if v+dv > 35 {
			dv = 0
		}
		pre := w.L(w.S(idAt(h+dh, v+dv)), w.S(idAt(h+dh, v+dv)), w.S(g.Malformed()))
		steps = w.List{
			step("call-merge", pre, w.I(h), w.I(v)), step("MergeDescendants", w.S(idAt(h, v)), w.I(dh), w.I(dv), w.I(g.Int63n(1000))),
			step("call-change", pre, w.I(h), w.I(v)), step("ZoomInOut", w.S(idAt(h, v)), w.I(h+dh), w.I(v+dv)),
			step("call-merge", pre, w.I(36), w.I(v)), step("MergeDescendants", w.S(idAt(h, v)), w.I(dh), w.I(dv), w.I(g.Int63n(1000))),
			step("call-overlap", w.S(idAt(h, v)), w.S(g.Malformed())), step("call-points", plainPoint(g), w.I(-1), w.I(v)),
			step("PointNesting", plainPoint(g), w.I(h+dh), w.I(v+dv), w.I(h), w.I(v)),
		}
		tag = "hist-failed-direct-calls-between"
	default: // a mix
		for j := 3 + g.Intn(4); j > 0; j-- {
			h, v := smallZoom()
			switch g.Intn(4) {
			case 0:
				steps = append(steps, step("ZoomInOut", w.S(idAt(h, v)), w.I(clamp(h+g.Int63n(3))), w.I(clamp(v+g.Int63n(4)))))
			case 1:
				dh, dv := g.Int63n(2), g.Int63n(3)
				if h+dh > 35 {
					dh = 0
				}
				if v+dv > 35 {
					dv = 0
				}
				steps = append(steps, step("MergeDescendants", w.S(idAt(h, v)), w.I(dh), w.I(dv), w.I(g.Int63n(1000))))
			case 2:
				h1, v1, h2, v2, _ := zoomPair(g)
				steps = append(steps, step("PointNesting", plainPoint(g), w.I(h1), w.I(v1), w.I(h2), w.I(v2)))
			default:
				steps = append(steps, step("call-change", w.L(w.S(idAt(h, v)), w.S(g.Malformed())), w.I(h), w.I(v)))
				steps = append(steps, step("ZoomInOut", w.S(idAt(h, v)), w.I(h), w.I(v)))
			}
		}
		tag = "hist-mix"
	}
	scribble := g.Chance(0.5)
	mode := "hist-polite-caller"
	if scribble {
		mode = "hist-scribbling-caller"
	}
	return []w.Val{w.B(scribble), steps}, []string{"call-history", tag, mode, Tag("hist-len=%d", len(steps))}
}

// regressions: fixed histories run first on every run (whatever the seed), one per kind of library state that a history can expose
func regressions(r *run.Runner) {
	run1 := func(tag string, scribble bool, steps ...w.Val) {
		r.Run(run.Case{Prop: "C09", Fn: "CallHistory", Tags: []string{"regression", tag}, Args: []w.Val{w.B(scribble), w.List(steps)}})
	}
	tokyo := w.L(w.F(139.753098), w.F(35.685371), w.F(101.5))
	osaka := w.L(w.F(135.5), w.F(34.7), w.F(-75.5))
	// same zooms and list length, different IDs (merge), then the same through the trivial change
	run1("regression-merge-same-zooms", false,
		step("MergeDescendants", w.S("20/931348/412858/20/-1"), w.I(1), w.I(1), w.I(0)),
		step("MergeDescendants", w.S("20/931349/412858/20/5"), w.I(1), w.I(1), w.I(0)),
		step("MergeDescendants", w.S("20/11/12/20/-3"), w.I(1), w.I(1), w.I(4)))
	// the same failing call twice, then valid; invalid zoom between two valid calls
	run1("regression-failure-twice", false,
		step("ZoomInOut", w.S("3/1/1/3/-8"), w.I(36), w.I(6)), step("ZoomInOut", w.S("3/1/1/3/-8"), w.I(36), w.I(6)),
		step("ZoomInOut", w.S("3/1/1/3/-8"), w.I(5), w.I(6)), step("ZoomInOut", w.S("3/1/1/3/-8"), w.I(5), w.I(-1)),
		step("ZoomInOut", w.S("3/1/1/3/-8"), w.I(5), w.I(6)), step("ZoomInOut", w.S("3/1/b/3/-8"), w.I(5), w.I(6)), step("ZoomInOut", w.S("3/1/b/3/-8"), w.I(5), w.I(6)))
	// identical questions in a row, the caller scribbling over what it was given back
	run1("regression-identical-scribbled", true,
		step("ZoomInOut", w.S("4/14/6/25/101"), w.I(4), w.I(25)), step("ZoomInOut", w.S("4/14/6/25/101"), w.I(4), w.I(25)),
		step("PointNesting", tokyo, w.I(5), w.I(25), w.I(4), w.I(24)), step("PointNesting", tokyo, w.I(5), w.I(25), w.I(4), w.I(24)),
		step("MergeDescendants", w.S("4/14/6/25/101"), w.I(0), w.I(0), w.I(1)), step("MergeDescendants", w.S("4/14/6/25/101"), w.I(0), w.I(0), w.I(1)))
	// one point object moved between lookups that share their zoom pair
	run1("regression-moved-point", true,
		step("PointNesting", tokyo, w.I(20), w.I(20), w.I(18), w.I(21)), step("PointNesting", osaka, w.I(18), w.I(21), w.I(20), w.I(20)),
		step("PointNesting", tokyo, w.I(20), w.I(20), w.I(18), w.I(21)),
		step("PointLadder", osaka, w.L(w.L(w.I(18), w.I(21)), w.L(w.I(20), w.I(20))), w.L(w.L(w.I(0), w.I(1)))))
	// a merge that fails after a valid prefix, thrown away, then a merge at the same zooms
	run1("regression-failed-merge-between", false,
		step("call-merge", w.L(w.S("21/1862696/825716/21/-2"), w.S("21/1862697/825716/21/-2"), w.S("21/x/0/21/0")), w.I(20), w.I(20)),
		step("MergeDescendants", w.S("20/931348/412858/20/-1"), w.I(1), w.I(1), w.I(2)),
		step("call-change", w.L(w.S("20/931348/412858/20/-1"), w.S("bad")), w.I(21), w.I(21)),
		step("ZoomInOut", w.S("20/931348/412858/20/-1"), w.I(21), w.I(21)))
}

func zoomTags(kind string, h1, v1, h2, v2 int64) []string {
	return []string{kind, Tag("hzoom=%d", h1), Tag("vzoom=%d", v1), Tag("hzoom2=%d", h2), Tag("vzoom2=%d", v2)}
}

func init() {
	Scale["C09"] = 8000
	Registry["C09"] = func(r *run.Runner, g *Gen, n int) {
		MathOracles(r)
		r.Register(fnNesting(), fnLadder(), fnInOut(), fnMergeDesc(), fnHistory())
		if n > 0 {
			regressions(r)
		}
		nesting := func(pv w.Val, h1, v1, h2, v2 int64, tags ...string) {
			r.Run(run.Case{Prop: "C09", Fn: "PointNesting", Tags: tags, Trivial: h1 == h2 && v1 == v2,
				Args: []w.Val{pv, w.I(h1), w.I(v1), w.I(h2), w.I(v2)}})
		}
		inout := func(id string, H, V int64, triv bool, tags ...string) {
			r.Run(run.Case{Prop: "C09", Fn: "ZoomInOut", Tags: tags, Trivial: triv, Args: []w.Val{w.S(id), w.I(H), w.I(V)}})
		}
		mergeDesc := func(id string, dh, dv, seed int64, tags ...string) {
			r.Run(run.Case{Prop: "C09", Fn: "MergeDescendants", Tags: tags, Trivial: dh == 0 && dv == 0,
				Args: []w.Val{w.S(id), w.I(dh), w.I(dv), w.I(seed)}})
		}
		for i := 0; i < n; {
			kind := g.Intn(1000)
			switch {
			case kind < 15: // recorded finding class: denormal altitudes, kept in a separate small stream
				h1, v1, h2, v2, zk := zoomPair(g)
				if g.Chance(0.5) { // the division by the cell height is exact at v >= 25 and underflows below
					h1 = g.Zoom()
					h2 = pos64(h1 - g.Int63n(4))
					v1 = 25 + g.Int63n(11)
					v2 = v1 - 1 - g.Int63n(10)
					zk = "near"
				}
				_, pv, ok := StoredPoint(g.Lon(), g.Lat(), g.AltDenormal())
				if !ok {
					continue
				}
				nesting(pv, h1, v1, h2, v2, append(zoomTags(zk, h1, v1, h2, v2), "denormal-alt")...)
				i++
			case kind < 45: // malformed: a zoom outside 0..35, a malformed ID => error
				switch g.Intn(4) {
				case 0:
					h1, v1, h2, v2, _ := zoomPair(g)
					pv, _ := storedPoint(g, h1, v1)
					bad := g.Pick(-1, 36, 37, 100, math.MinInt64, math.MaxInt64)
					switch g.Intn(4) {
					case 0:
						h1 = bad
					case 1:
						v1 = bad
					case 2:
						h2 = bad
					default:
						v2 = bad
					}
					nesting(pv, h1, v1, h2, v2, "bad-zoom")
				case 1:
					inout(g.Malformed(), g.Zoom(), g.Zoom(), false, "malformed-id")
				case 2:
					id, _, _ := g.ValidEID()
					if g.Chance(0.5) {
						inout(id, g.Pick(-1, 36, 64, math.MinInt64), g.Zoom(), false, "bad-zoom")
					} else {
						inout(id, g.Zoom(), g.Pick(-1, 36, 64, math.MaxInt64), false, "bad-zoom")
					}
				default:
					mergeDesc(g.Malformed(), g.Int63n(3), g.Int63n(4), g.Int63n(1000), "malformed-id")
				}
				i++
			case kind < 105 && i+5 <= n: // a history of related calls made by one caller (counted as one case per judged step, about 5)
				args, tags := history(g)
				r.Run(run.Case{Prop: "C09", Fn: "CallHistory", Tags: tags, Args: args})
				i += 5
			case kind < 400: // one point at two zoom pairs
				h1, v1, h2, v2, zk := zoomPair(g)
				pv, tags := storedPoint(g, h1, v1)
				if g.Chance(0.3) {
					pv, tags = storedPoint(g, h2, v2)
				}
				tags = append(tags, zoomTags(zk, h1, v1, h2, v2)...)
				nesting(pv, h1, v1, h2, v2, tags...)
				i++
				if g.Chance(0.12) && i+2 <= n { // related consecutive calls: the same point, the pairs swapped / one zoom changed / repeated
					if 2*pos64(h1-h2)+pos64(v1-v2) <= capBits {
						nesting(pv, h2, v2, h1, v1, append(tags, "sequence-swapped")...)
					} else {
						nesting(pv, h1, v1, h2, v2, append(tags, "sequence-repeated")...)
					}
					v3 := pos64(v2 - g.Int63n(3))
					nesting(pv, h1, v1, h2, v3, append(tags, "sequence-other-vzoom")...)
					i += 2
				}
			case kind < 600: // one point at a ladder of zoom pairs
				k := 3 + g.Intn(5)
				zs := make(w.List, k)
				hs, vs := make([]int64, k), make([]int64, k)
				lk := g.Intn(4)
				h0, v0 := g.Zoom(), g.Zoom()
				for j := 0; j < k; j++ {
					switch lk {
					case 0: // chain: both zooms decrease (or stay)
						if j == 0 {
							hs[j], vs[j] = h0, v0
						} else {
							hs[j], vs[j] = pos64(hs[j-1]-g.Int63n(3)), pos64(vs[j-1]-g.Int63n(4))
						}
					case 1: // crossed chain: h decreases while v increases
						if j == 0 {
							hs[j], vs[j] = h0, pos64(v0-12)
						} else {
							hs[j], vs[j] = pos64(hs[j-1]-g.Int63n(3)), vs[j-1]+g.Int63n(4)
							if vs[j] > 35 {
								vs[j] = 35
							}
						}
					case 2: // a window: independent zooms close to (h0, v0)
						hs[j], vs[j] = pos64(h0-g.Int63n(6)), pos64(v0-g.Int63n(9))
					default: // anywhere in 0..35
						hs[j], vs[j] = g.Zoom(), g.Zoom()
					}
					zs[j] = w.L(w.I(hs[j]), w.I(vs[j]))
				}
				pairs := w.List{}
				for j := 0; j+1 < k; j++ {
					pairs = append(pairs, w.L(w.I(int64(j)), w.I(int64(j+1))))
				}
				for j := g.Intn(5); j > 0; j-- {
					pairs = append(pairs, w.L(w.I(int64(g.Intn(k))), w.I(int64(g.Intn(k)))))
				}
				pv, tags := storedPoint(g, hs[0], vs[0])
				tags = append(tags, []string{"ladder-chain", "ladder-crossed", "ladder-window", "ladder-anywhere"}[lk], Tag("rungs=%d", k))
				r.Run(run.Case{Prop: "C09", Fn: "PointLadder", Tags: tags, Args: []w.Val{pv, zs, pairs}})
				i++
			case kind < 760: // zoom in, then out
				h, v := g.Zoom(), g.Zoom()
				id, tag := idFor(g, h, v)
				id, tag = respell(g, id, tag)
				dh, dv := g.Int63n(4), g.Int63n(7)
				switch g.Intn(12) {
				case 0: // one axis only, up to the 4096 cap
					dh, dv = g.Int63n(7), 0
				case 1:
					dh, dv = 0, g.Int63n(13)
				case 2, 3, 4:
					dh = 0
				case 5, 6, 7:
					dv = 0
				}
				H, V := h+dh, v+dv
				if H > 35 {
					H = 35
				}
				if V > 35 {
					V = 35
				}
				tags := []string{tag, Tag("hzoom=%d", h), Tag("vzoom=%d", v), Tag("dh=%d", H-h), Tag("dv=%d", V-v)}
				inout(id, H, V, H == h && V == v, tags...)
				i++
				if g.Chance(0.1) && i+2 <= n { // related consecutive calls: the same ID at another target, and the identical call again
					H2, V2 := h+g.Int63n(3), v+g.Int63n(4)
					if H2 > 35 {
						H2 = 35
					}
					if V2 > 35 {
						V2 = 35
					}
					inout(id, H2, V2, H2 == h && V2 == v, append(tags, "sequence-other-target")...)
					inout(id, H, V, H == h && V == v, append(tags, "sequence-repeated")...)
					i += 2
				}
			default: // merge the complete descendants
				h, v := g.Zoom(), g.Zoom()
				id, tag := idFor(g, h, v)
				id, tag = respell(g, id, tag)
				dh, dv := g.Int63n(3), g.Int63n(4)
				if g.Chance(0.08) { // up to the bound of the dispatch entry (512 descendants)
					dh, dv = g.Int63n(4), g.Int63n(5)
				}
				if h+dh > 35 {
					dh = 35 - h
				}
				if v+dv > 35 {
					dv = 35 - v
				}
				seed := g.Int63n(1 << 30)
				tags := []string{tag, Tag("hzoom=%d", h), Tag("vzoom=%d", v), Tag("dh=%d", dh), Tag("dv=%d", dv), Tag("shuffle=%d", seed%4)}
				mergeDesc(id, dh, dv, seed, tags...)
				i++
				if g.Chance(0.1) && i+1 <= n { // the same descendants in another order
					mergeDesc(id, dh, dv, seed+1, append(tags, "sequence-other-order")...)
					i++
				}
			}
		}
	}
}
