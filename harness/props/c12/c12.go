// Package c12: property C12 — altitude-key conversions (transform.ConvertZToMinMaxAltitudekey, ConvertAltitudekeyToMinMaxZ and the
// unexported helpers convertZToMinAltitudekey, validateIndexExists through the verif hooks).
package c12

import (
	"math"
	"os"

	"github.com/trajectoryjp/spatial_id_go/v4/common/consts"
	"github.com/trajectoryjp/spatial_id_go/v4/transform"

	. "verif/harness/gen"
	"verif/harness/run"
	w "verif/harness/wire"
)

func resVal(mn, mx int64, err error) w.Val { return w.WithErr(w.L(w.I(mn), w.I(mx)), err) }

func z2k(a []int64) (int64, int64, error) {
	return transform.ConvertZToMinMaxAltitudekey(a[0], a[1], a[2], a[3], a[4])
}
func k2z(a []int64) (int64, int64, error) {
	return transform.ConvertAltitudekeyToMinMaxZ(a[0], a[1], a[2], a[3], a[4])
}
func ints(a []w.Val) []int64 {
	r := make([]int64, len(a))
	for i, v := range a {
		r[i] = w.AsInt(v)
	}
	return r
}

func fnZ2K() *run.Fn {
	return &run.Fn{Name: "ConvertZToMinMaxAltitudekey", Invoke: func(a []w.Val) w.Val { return resVal(z2k(ints(a))) }}
}
func fnK2Z() *run.Fn {
	return &run.Fn{Name: "ConvertAltitudekeyToMinMaxZ", Invoke: func(a []w.Val) w.Val { return resVal(k2z(ints(a))) }}
}
func fnMin() *run.Fn {
	return &run.Fn{Name: "convertZToMinAltitudekey", Invoke: func(a []w.Val) w.Val {
		x := ints(a)
		o, err := transform.VerifConvertZToMinAltitudekey(x[0], x[1], x[2], x[3], x[4])
		return w.WithErr(w.I(o), err)
	}}
}
func fnValidate() *run.Fn {
	return &run.Fn{Name: "validateIndexExists", Invoke: func(a []w.Val) w.Val {
		err, ok := transform.VerifValidateIndexExists(w.AsInt(a[0]), w.AsInt(a[1]), w.AsBool(a[2]))
		return w.WithErr(w.B(ok), err)
	}}
}

// ---- the list API (entry "ListAltitudekeys"): transform.ConvertExtendedSpatialIDsToQuadkeysAndAltitudekeys projected to the altitude keys ----
// arguments [ids = [[hZoom x y vZoom f] ...], qZoom, kZoom, E, O]; every ID is issued at hZoom = qZoom (one quadkey per ID).
// observed: the groups in order as [label, keys], label = position of the first input ID whose tile has the group's quadkey.
// The API enumerates every key of every range, so the invoker refuses (marker "oversize", confirmed by the dispatch entry) calls outside
// E 0..35, |O| <= 2^27, more than 64 IDs or an estimated total of more than 2048 keys.
func listEst(kz, E int64, id []int64) int64 {
	v := id[3]
	if v < 0 || v > 35 || kz < 0 || kz > 35 {
		return 0
	}
	sh := (25 - v) - (E - kz)
	if sh < 0 {
		sh = 0
	}
	if sh > 40 {
		return 1 << 41
	}
	return int64(1)<<uint(sh) + 2
}
func listRefused(ids [][]int64, kz, E, O int64) bool {
	if E < 0 || E > 35 || O > 1<<27 || O < -(1<<27) || len(ids) > 64 {
		return true
	}
	var sum int64
	for _, id := range ids {
		sum += listEst(kz, E, id)
		if sum > 2048 {
			return true
		}
	}
	return false
}
func fnList() *run.Fn {
	return &run.Fn{Name: "ListAltitudekeys", Invoke: func(a []w.Val) w.Val {
		idvs, ok := a[0].(w.List)
		if !ok {
			return w.Nil{}
		}
		qz, kz, E, O := w.AsInt(a[1]), w.AsInt(a[2]), w.AsInt(a[3]), w.AsInt(a[4])
		ids := make([][]int64, len(idvs))
		for i, v := range idvs {
			l, ok := v.(w.List)
			if !ok || len(l) != 5 {
				return w.Nil{}
			}
			ids[i] = make([]int64, 5)
			for k, e := range l {
				n, ok := e.(w.Int)
				if !ok || !n.V.IsInt64() {
					return w.Nil{}
				}
				ids[i][k] = n.V.Int64()
			}
		}
		if listRefused(ids, kz, E, O) {
			return w.S("oversize")
		}
		strs := make([]string, len(ids))
		qks := make([]int64, len(ids))
		for i, id := range ids {
			strs[i] = EID(id[0], id[1], id[2], id[3], id[4])
			qks[i] = -1
			if id[0] >= 0 && id[0] <= 31 {
				qks[i] = transform.VerifConvertHorizontalIDToQuadkey(Tag("%d/%d/%d", id[0], id[1], id[2]))
			}
		}
		out, err := transform.ConvertExtendedSpatialIDsToQuadkeysAndAltitudekeys(strs, qz, kz, E, O)
		if err != nil {
			return w.Err{V: w.Nil{}}
		}
		gs := make(w.List, 0, len(out))
		for _, g := range out {
			inner := g.InnerIDList()
			label := int64(-1)
			keys := make(w.List, 0, len(inner))
			for k, p := range inner {
				if k > 0 && p[0] != inner[0][0] {
					label = -2 // more than one quadkey in a group: impossible at hZoom = qZoom
				}
				keys = append(keys, w.I(p[1]))
			}
			if label == -1 && len(inner) > 0 {
				for j, q := range qks {
					if q == inner[0][0] && ids[j][0] == qz {
						label = int64(j)
						break
					}
				}
			}
			gs = append(gs, w.L(w.I(label), keys))
		}
		return gs
	}}
}

// generator of list cases: IDs sharing the vertical index f (both signs) at different vertical zooms, on the same tile and on different tiles;
// an ID whose f does not exist at its zoom after valid ones; repeated IDs; overlapping ranges on one tile; bad zooms
func genList(r *run.Runner, g *Gen) {
	for try := 0; try < 8; try++ {
		qz := 1 + g.Int63n(6)
		if g.Chance(0.2) {
			qz = g.Pick(1, 2, 12, 20, 25, 31)
		}
		va := 16 + g.Int63n(13)
		E := 14 + g.Int63n(17)
		c := (25 - va) - g.Int63n(4)
		kz := E - c
		if kz < 0 {
			kz = 0
		}
		if kz > 35 {
			kz = 35
		}
		O := g.Pick(0, 0, 3, 13, 1025, 4096, 4097, 1<<16, 1<<20, (1<<20)+1, 1<<24, (1<<24)-1, -1, -5, 1<<27)
		tile := func() (int64, int64) { return g.Int63n(pow2(qz)), g.Int63n(pow2(qz)) }
		zoomNear := func() int64 {
			v := va + g.Int63n(5)
			if v > 35 {
				v = 35
			}
			return v
		}
		fSmall := func() int64 { return g.Pick(0, 1, -1, 2, -2, 3, -3, 5, 7, -8, g.Int63n(33)-16) }
		var ids [][]int64
		shape := ""
		x0, y0 := tile()
		switch g.Intn(8) {
		case 0, 1: // the same f at different vertical zooms on ONE tile
			shape = "same-f-same-tile"
			f := fSmall()
			for k := 0; k < 2+g.Intn(3); k++ {
				ids = append(ids, []int64{qz, x0, y0, zoomNear(), f})
			}
		case 2, 3: // the same f at different vertical zooms on different tiles
			shape = "same-f-other-tiles"
			f := fSmall()
			for k := 0; k < 2+g.Intn(3); k++ {
				x, y := tile()
				ids = append(ids, []int64{qz, x, y, zoomNear(), f})
			}
		case 4: // a valid ID, then the same f at a zoom where it does not exist: the call must fail
			shape = "invalid-after-valid"
			v1 := 2 + g.Int63n(5)
			f := g.Pick(pow2(v1)-1, -pow2(v1), pow2(v1-1), 3)
			v2 := g.Int63n(v1)
			for pow2(v2) > f && -pow2(v2) <= f && v2 > 0 {
				v2--
			}
			x, y := tile()
			ids = [][]int64{{qz, x0, y0, v1, f}, {qz, x, y, v2, f}}
			if g.Chance(0.5) {
				ids[1][1], ids[1][2] = x0, y0
			}
			// coarse voxels: wide key cells so that the ranges stay short
			E = 5 + g.Int63n(20)
			kz = g.Int63n(4)
			O = g.Pick(0, 1<<24, 1<<27, 1<<26)
		case 5: // repeats and overlapping ranges on one tile, other f
			shape = "overlap-same-tile"
			f := fSmall()
			v := zoomNear()
			ids = [][]int64{{qz, x0, y0, v, f}, {qz, x0, y0, v, f}, {qz, x0, y0, v, f + 1}, {qz, x0, y0, clampZoom(v - 1), ashift(f, -1)}, {qz, x0, y0, clampZoom(v + 1), 2 * f}}
		case 6: // mixed
			shape = "mixed"
			for k := 0; k < 1+g.Intn(6); k++ {
				x, y := tile()
				if g.Chance(0.4) {
					x, y = x0, y0
				}
				ids = append(ids, []int64{qz, x, y, zoomNear(), fSmall()})
			}
		default: // zoom errors: quadkey zoom 0 / 32, key zoom 36, a vertical or horizontal zoom of 36 in the list
			shape = "bad-zoom"
			f := fSmall()
			ids = [][]int64{{qz, x0, y0, zoomNear(), f}, {qz, x0, y0, zoomNear(), f}}
			switch g.Intn(4) {
			case 0:
				qz = g.Pick(0, 32, -1)
				ids[0][0], ids[1][0] = qz, qz
				ids[0][1], ids[0][2], ids[1][1], ids[1][2] = 0, 0, 0, 0
			case 1:
				kz = g.Pick(36, -1)
			case 2:
				ids[1][3] = g.Pick(36, -1)
			default:
				ids[1][0] = g.Pick(36, -1)
			}
		}
		if listRefused(ids, kz, E, O) {
			continue
		}
		idv := make(w.List, len(ids))
		for i, id := range ids {
			idv[i] = w.List(vals(id))
		}
		r.Run(run.Case{Prop: "C12", Fn: "ListAltitudekeys", Args: []w.Val{idv, w.I(qz), w.I(kz), w.I(E), w.I(O)},
			Tags: []string{"list", "list:" + shape, Tag("ids=%d", len(ids))}})
		return
	}
}

// ---- call histories (entry "CallSequence") ----
// A step is [name, arg...] with name one of the four plain entries. The invoker first issues one fixed, unrelated call of each function
// (so a replay in a fresh process and every shrinker candidate start from the same library state), then the steps back to back, and
// returns the list of their observations; a panicking step is recorded as Panic in its place, a malformed step (shrinker) as Nil.
func doStep(st w.Val) (res w.Val) {
	defer func() {
		if e := recover(); e != nil {
			res = w.Panic{Msg: "step panicked"}
		}
	}()
	l, ok := st.(w.List)
	if !ok || len(l) < 1 {
		return w.Nil{}
	}
	name, ok := l[0].(w.Str)
	if !ok {
		return w.Nil{}
	}
	a := l[1:]
	if string(name) == "validateIndexExists" {
		if len(a) != 3 {
			return w.Nil{}
		}
		i, ok1 := a[0].(w.Int)
		z, ok2 := a[1].(w.Int)
		b, ok3 := a[2].(w.Bool)
		if !ok1 || !ok2 || !ok3 || !i.V.IsInt64() || !z.V.IsInt64() {
			return w.Nil{}
		}
		err, okk := transform.VerifValidateIndexExists(i.V.Int64(), z.V.Int64(), bool(b))
		return w.WithErr(w.B(okk), err)
	}
	if len(a) != 5 {
		return w.Nil{}
	}
	x := make([]int64, 5)
	for k, v := range a {
		n, ok := v.(w.Int)
		if !ok || !n.V.IsInt64() {
			return w.Nil{}
		}
		x[k] = n.V.Int64()
	}
	switch string(name) {
	case "ConvertZToMinMaxAltitudekey":
		return resVal(z2k(x))
	case "ConvertAltitudekeyToMinMaxZ":
		return resVal(k2z(x))
	case "convertZToMinAltitudekey":
		o, err := transform.VerifConvertZToMinAltitudekey(x[0], x[1], x[2], x[3], x[4])
		return w.WithErr(w.I(o), err)
	}
	return w.Nil{}
}

func fnSequence() *run.Fn {
	return &run.Fn{Name: "CallSequence", Invoke: func(a []w.Val) w.Val {
		// priming: the same unrelated calls before every sequence
		_, _, _ = transform.ConvertZToMinMaxAltitudekey(3, 10, 12, 25, 7)
		_, _, _ = transform.ConvertAltitudekeyToMinMaxZ(5, 9, 11, 25, 3)
		_, _ = transform.VerifConvertZToMinAltitudekey(3, 10, 12, 25, 7)
		_, _ = transform.VerifValidateIndexExists(1, 1, true)
		steps, ok := a[0].(w.List)
		if !ok {
			return w.Nil{}
		}
		out := make(w.List, 0, len(steps))
		for _, st := range steps {
			out = append(out, doStep(st))
		}
		return out
	}}
}

type step struct {
	fn  string
	a   []int64
	neg bool // validateIndexExists only (a = [index, zoom])
}

func (s step) val() w.Val {
	l := w.List{w.S(s.fn)}
	for _, x := range s.a {
		l = append(l, w.I(x))
	}
	if s.fn == "validateIndexExists" {
		l = append(l, w.B(s.neg))
	}
	return l
}

func clampZoom(z int64) int64 {
	if z < 0 {
		return 0
	}
	if z > 35 {
		return 35
	}
	return z
}

// changeArg returns a copy of the five arguments with argument j changed so that the answer very likely changes
func changeArg(g *Gen, a []int64, j int) []int64 {
	b := append([]int64{}, a...)
	switch j {
	case 0:
		b[0] += g.Pick(1, -1, 2, -2, 3)
	case 1: // source zoom: a neighbour, or across the 1 m zoom (changes the fraction)
		z := b[1]
		switch g.Intn(3) {
		case 0:
			z += g.Pick(1, -1)
		case 1:
			if z <= 25 {
				z = 26 + g.Int63n(6)
			} else {
				z = 25 - g.Int63n(6)
			}
		default:
			z += g.Pick(2, -2, 3)
		}
		z = clampZoom(z)
		if z == b[1] {
			if z > 0 {
				z--
			} else {
				z++
			}
		}
		b[1] = z
	case 2, 3:
		z := clampZoom(b[j] + g.Pick(1, -1, 2, -2))
		if z == b[j] {
			if z > 0 {
				z--
			} else {
				z++
			}
		}
		b[j] = z
	case 4:
		switch g.Intn(5) {
		case 0:
			b[4]++
		case 1:
			b[4]--
		case 2:
			b[4] += pow2(g.Int63n(20))
		case 3:
			if b[4] != 0 {
				b[4] = -b[4]
			} else {
				b[4] = 5
			}
		default:
			if b[4] != 0 {
				b[4] = 0
			} else {
				b[4] = pow2(g.Int63n(12)) + 1
			}
		}
	}
	return b
}

// invalid variants of a call that share its key-like arguments
func badVariant(g *Gen, fwd bool, a []int64) []int64 {
	b := append([]int64{}, a...)
	switch g.Intn(5) {
	case 0: // index one past either end of its zoom
		if fwd {
			b[0] = g.Pick(pow2(b[1]), -pow2(b[1])-1)
		} else {
			b[0] = g.Pick(pow2(b[1]), -1)
		}
	case 1: // offset that moves the cell out of the target range
		if fwd {
			b[4] += g.Pick(pow2(b[3])+pow2(25), -pow2(b[3])-pow2(25))
		} else {
			b[4] += g.Pick(pow2(27), -pow2(27))
		}
	case 2:
		b[1] = g.Pick(36, -1, 40)
	case 3:
		b[2] = g.Pick(36, -1, 64)
	default: // target zoom too small for the result / exponent far away
		b[3] = g.Pick(0, 35)
		b[4] += g.Pick(pow2(26), -pow2(26))
	}
	return b
}

func genSequence(r *run.Runner, g *Gen) {
	fwd := g.Chance(0.6)
	fn := "ConvertAltitudekeyToMinMaxZ"
	var a []int64
	if fwd {
		fn = "ConvertZToMinMaxAltitudekey"
		switch g.Intn(3) {
		case 0:
			a, _ = okFirst(g, genCoarseOdd, z2k)
		case 1:
			a, _ = okFirst(g, genStraddleFwd, z2k)
		default:
			a, _ = okFirst(g, genForward, z2k)
		}
		if g.Chance(0.15) {
			fn = "convertZToMinAltitudekey"
		}
	} else {
		if g.Chance(0.3) {
			a, _ = okFirst(g, genStraddleBwd, k2z)
		} else {
			a, _ = okFirst(g, genBackward, k2z)
		}
	}
	s0 := step{fn: fn, a: a}
	mk := func(x []int64) step { return step{fn: fn, a: x} }
	var seq []step
	pat := ""
	switch g.Intn(8) {
	case 0:
		pat = "repeat"
		seq = []step{s0, s0}
		if g.Chance(0.5) {
			seq = append(seq, s0)
		}
	case 1, 2: // every memo keyed on a subset of the arguments misses at least one position j: call, change only j, call again
		pat = "subset-sweep"
		seq = []step{s0}
		for _, j := range g.R.Perm(5)[:2+g.Intn(4)] {
			seq = append(seq, mk(changeArg(g, a, j)), s0)
		}
	case 3:
		pat = "same-zooms-other-index-offset"
		i1 := changeArg(g, a, 0)
		o1 := changeArg(g, a, 4)
		io := changeArg(g, i1, 4)
		seq = []step{s0, mk(i1), mk(o1), mk(io), s0}
	case 4:
		pat = "same-index-offset-other-zooms"
		z1 := changeArg(g, a, 1)
		z2 := changeArg(g, a, 2)
		z3 := changeArg(g, a, 3)
		seq = []step{s0, mk(z1), mk(z2), mk(z3), mk(changeArg(g, z1, 3)), s0}
	case 5: // invalid-then-valid, valid-then-invalid, repeated invalid
		pat = "invalid-valid"
		b1 := mk(badVariant(g, fwd, a))
		b2 := mk(badVariant(g, fwd, a))
		switch g.Intn(6) {
		case 0:
			seq = []step{b1, s0}
		case 1:
			seq = []step{s0, b1, s0}
		case 2:
			seq = []step{b1, b1, s0}
		case 3:
			seq = []step{b1, s0, b2, s0}
		case 4:
			seq = []step{s0, b1, b1}
		default:
			seq = []step{b1, b2, b1, s0, b2}
		}
	case 6: // the same numbers through every function, the helper with both flags
		pat = "cross-function"
		v := func(i, z int64, neg bool) step { return step{fn: "validateIndexExists", a: []int64{i, z}, neg: neg} }
		seq = []step{s0, {fn: "convertZToMinAltitudekey", a: a}, v(a[0], a[1], true), v(a[0], a[1], false), s0,
			v(a[0], a[2], false), v(a[0], a[2], true), {fn: "ConvertAltitudekeyToMinMaxZ", a: a}, {fn: "ConvertZToMinMaxAltitudekey", a: a}, s0,
			v(-a[0]-1, a[1], true), v(-a[0]-1, a[1], false), v(-a[0]-1, a[1], true)}
	default: // the offset is scaled by the fraction of the source zoom: same offset under other fractions, zero offset after a non-zero one
		pat = "offset-fraction"
		zlo := changeArg(g, a, 1)
		zlo[1] = 20 + g.Int63n(6)
		zhi := append([]int64{}, a...)
		zhi[1] = 26 + g.Int63n(10)
		zhi0 := append([]int64{}, zhi...)
		zhi0[4] = 0
		zlo0 := append([]int64{}, zlo...)
		zlo0[4] = 0
		seq = []step{s0, mk(zlo), mk(zhi), mk(zhi0), mk(zlo0), mk(zhi), s0}
	}
	steps := make(w.List, len(seq))
	for i, st := range seq {
		steps[i] = st.val()
	}
	r.Run(run.Case{Prop: "C12", Fn: "CallSequence", Args: []w.Val{steps}, Tags: []string{"sequence", "sequence:" + pat, Tag("steps=%d", len(seq))}})
}

// probes returns the indices on which the opposite direction is called (mirrors DC12.probes): the whole returned range and its two
// outer neighbours when the range is short, otherwise both ends, their neighbours and 8 evenly spaced interior points.
func probes(mn, mx int64) []int64 {
	if mx < mn {
		return nil
	}
	if mx-mn <= 20 {
		var r []int64
		for j := mn - 1; j <= mx+1; j++ {
			r = append(r, j)
		}
		return r
	}
	r := []int64{mn - 1, mn, mn + 1}
	for q := int64(1); q <= 8; q++ {
		r = append(r, mn+(mx-mn)*q/9)
	}
	return append(r, mx-1, mx, mx+1)
}

// round trip: first the call on (i, zs, zt, E, O), then the opposite call on (j, zt, zs, E, O) for every probe j.
func fnRoundTrip(name string, first, back func([]int64) (int64, int64, error)) *run.Fn {
	return &run.Fn{Name: name, Invoke: func(a []w.Val) w.Val {
		x := ints(a)
		mn, mx, err := first(x)
		rest := w.List{}
		if err == nil {
			for _, j := range probes(mn, mx) {
				rest = append(rest, w.L(w.I(j), resVal(back([]int64{j, x[2], x[1], x[3], x[4]}))))
			}
		}
		return w.L(resVal(mn, mx, err), rest)
	}}
}

func pow2(k int64) int64 { return int64(1) << uint(k) }

// ashift mirrors common.CalculateArithmeticShift for in-range shift counts (generator arithmetic only).
func ashift(i, s int64) int64 {
	if s >= 0 {
		if s > 62 {
			return 0
		}
		return i << uint(s)
	}
	if -s > 62 {
		if i < 0 {
			return -1
		}
		return 0
	}
	return i >> uint(-s)
}

func sign(g *Gen, x int64) int64 {
	if g.Chance(0.35) {
		return -x
	}
	return x
}

// offset: zero, powers of two, 2^k±1, small odd numbers, the library's constant 2^24, negatives, random, large (±2^28..2^40), huge (±2^41..2^62, int64 ends).
func offset(g *Gen) (int64, string) {
	if g.Chance(0.04) { // 2^41 .. 2^62, MaxInt64, MinInt64: int64 wrap-around in either direction (mostly a harmless one: still an error)
		if g.Chance(0.3) {
			return g.Pick(math.MaxInt64, math.MinInt64, math.MinInt64+1, math.MaxInt64-1), "off=int64-end"
		}
		return sign(g, pow2(g.Int63n(22)+41)+g.Pick(0, 0, 1, -1, g.Int63n(1000))), "off=huge"
	}
	switch g.Intn(12) {
	case 0, 1:
		return 0, "off=0"
	case 2:
		return sign(g, pow2(g.Int63n(28))), "off=pow2"
	case 3:
		return sign(g, pow2(g.Int63n(27)+1)+g.Pick(1, -1)), "off=pow2±1"
	case 4, 5:
		return sign(g, g.Pick(1, 3, 5, 7, 9, 13, 15, 17, 31, 33, 127, 129, 255, 1023)), "off=small-odd"
	case 6:
		return g.Pick(consts.ZBaseOffsetForNegativeFIndex, -consts.ZBaseOffsetForNegativeFIndex, consts.ZBaseOffsetForNegativeFIndex+1, consts.ZBaseOffsetForNegativeFIndex-1), "off=2^24"
	case 7:
		return g.Int63n(19) - 9, "off=tiny"
	case 8:
		return g.Int63n(pow2(28)) - pow2(27), "off=random"
	case 9:
		return 2*(g.Int63n(pow2(20))-pow2(19)) + 1, "off=odd"
	case 10:
		k := g.Int63n(13) + 28 // 2^28 .. 2^40: may overflow int64 in the forward direction when outputZoom - zBaseExponent is large
		return sign(g, pow2(k)+g.Pick(0, 0, 1, -1, g.Int63n(1000))), "off=large"
	}
	return sign(g, g.Pick(2, 4, 6, 10, 12, 100, 1000, 4096)), "off=small-even"
}

func delta(g *Gen) int64 { return g.Pick(0, 0, 0, 1, -1, 2, -2) }

// forward arguments (f, z, out, E, O)
func genForward(g *Gen) ([]int64, []string) {
	z, out, E := g.Zoom(), g.Zoom(), g.Zoom()
	O, otag := offset(g)
	var f int64
	mode := "fwd:independent"
	switch g.Intn(10) {
	case 0, 1, 2: // independent valid index, edges forced
		f = g.VIndex(z)
	case 3: // one past either end: the index does not exist
		f = g.Pick(pow2(z), -pow2(z)-1, pow2(z)+1)
		mode = "fwd:index-past-end"
	default: // targeted: choose an altitude (metres, relative to the key origin) inside / at the ends of the key range [0, 2^E)
		mode = "fwd:targeted"
		top := pow2(E)
		u := g.Pick(0, 1, top-1, top-2, top/2, top, -1, g.Int63n(top), g.Int63n(top), g.Int63n(top))
		f = ashift(u-O, z-25) + delta(g)
		if f >= pow2(z) || f < -pow2(z) {
			if g.Chance(0.7) {
				f = g.VIndex(z)
				mode = "fwd:independent"
			} else {
				mode = "fwd:index-out-of-range"
			}
		}
	}
	return []int64{f, z, out, E, O}, []string{mode, otag, Tag("z=%d", z), Tag("out=%d", out), Tag("E=%d", E)}
}

// the class named by the reviewers: coarse input zoom 20..24, key cell at least as tall as the voxel, offset not a multiple of the voxel height
func genCoarseOdd(g *Gen) ([]int64, []string) {
	z := 20 + g.Int63n(5)
	E := g.Pick(23, 24, 25, 25, 25, 26, 27, 30, 35, 10)
	out := E - (25 - z) - g.Pick(0, 0, 0, 1, 2, 3)
	if out < 0 {
		out = 0
	}
	var O int64
	switch g.Intn(4) {
	case 0:
		O = g.Pick(1, 3, 5, 13, 7, 9, 11, 15)
	case 1:
		O = pow2(g.Int63n(20)+1) + g.Pick(1, -1)
	case 2:
		O = -g.Pick(1, 3, 5, 13, 7, 9)
	default:
		O = 2*g.Int63n(1<<12) + 1
	}
	var f int64
	if g.Chance(0.5) {
		f = g.Int63n(16) - 6
	} else {
		top := pow2(E)
		f = ashift(g.Int63n(top)-O, z-25) + delta(g)
	}
	if f >= pow2(z) || f < -pow2(z) {
		f = g.Int63n(8) - 4
	}
	return []int64{f, z, out, E, O}, []string{"fwd:coarse-odd-offset", Tag("z=%d", z), Tag("out=%d", out), Tag("E=%d", E)}
}

// source cells that straddle (or just touch) the top or the bottom of the target index range: the offset is chosen so that the
// voxel [f*g, (f+1)*g) + O contains (or ends at) altitude 0 resp. 2^E of the key scale. Expected: an error when it straddles.
func genStraddleFwd(g *Gen) ([]int64, []string) {
	z := g.Int63n(25)
	if g.Chance(0.3) {
		z = g.Pick(0, 1, 20, 22, 23, 24)
	}
	E, out := g.Zoom(), g.Zoom()
	if g.Chance(0.2) { // sub-metre voxel ending exactly at / next to an end of the key range (it cannot straddle an integer altitude)
		z = 26 + g.Int63n(10)
		m := pow2(z - 25)
		f := g.Pick(0, -1, 1, m-1, m, -m, -m-1, g.VIndex(z)>>uint(g.Intn(10)))
		O := -ashift(f, 25-z) + g.Pick(0, 0, 1, -1)
		tag := "fwd:submetre-at-bottom"
		if g.Chance(0.5) {
			O += pow2(E)
			tag = "fwd:submetre-at-top"
		}
		return []int64{f, z, out, E, O}, []string{tag, Tag("z=%d", z), Tag("out=%d", out), Tag("E=%d", E)}
	}
	h := pow2(25 - z)
	f := g.VIndex(z)
	r := g.Pick(0, 1, h-1, h/2, h, g.Int63n(h+1), g.Int63n(h+1))
	tag := "fwd:straddle-bottom"
	O := -f*h - r
	if g.Chance(0.5) {
		O += pow2(E)
		tag = "fwd:straddle-top"
	}
	return []int64{f, z, out, E, O}, []string{tag, Tag("z=%d", z), Tag("out=%d", out), Tag("E=%d", E)}
}

// key cells that straddle (or just touch) altitude +2^25 m / -2^25 m, the ends of every spatial-ID zoom's index range
func genStraddleBwd(g *Gen) ([]int64, []string) {
	kz, E, out := g.Zoom(), g.Zoom(), g.Zoom()
	if g.Chance(0.4) {
		E = g.Pick(25, 25, 24, 26, 30)
	}
	k := g.Pick(0, pow2(kz)-1, pow2(kz)-1, g.HIndex(kz))
	h := int64(1)
	if E > kz {
		h = pow2(E - kz)
	}
	r := g.Pick(0, 1, h-1, h/2, h, g.Int63n(h+1), g.Int63n(h+1), 5, 27)
	T := pow2(25)
	tag := "bwd:straddle-top"
	if g.Chance(0.4) {
		T = -T
		tag = "bwd:straddle-bottom"
	}
	O := ashift(k, E-kz) - T + r
	return []int64{k, kz, out, E, O}, []string{tag, Tag("z=%d", kz), Tag("out=%d", out), Tag("E=%d", E)}
}

// backward arguments (k, kz, out, E, O)
func genBackward(g *Gen) ([]int64, []string) {
	kz, out, E := g.Zoom(), g.Zoom(), g.Zoom()
	O, otag := offset(g)
	var k int64
	mode := "bwd:independent"
	switch g.Intn(10) {
	case 0, 1:
		k = g.HIndex(kz)
	case 2:
		k = g.Pick(pow2(kz), -1, pow2(kz)+1, -2)
		mode = "bwd:index-past-end"
	default: // targeted: an altitude inside / at the ends of the spatial-ID range [-2^25, 2^25) metres
		mode = "bwd:targeted"
		top := pow2(25)
		u := g.Pick(-top, -top+1, -1, 0, 1, top-1, top-2, top, -top-1, g.Int63n(2*top)-top, g.Int63n(2*top)-top, g.Int63n(2048)-1024)
		k = ashift(u+O, kz-E) + delta(g)
		if k >= pow2(kz) || k < 0 {
			if g.Chance(0.7) {
				k = g.HIndex(kz)
				mode = "bwd:independent"
			} else {
				mode = "bwd:index-out-of-range"
			}
		}
	}
	return []int64{k, kz, out, E, O}, []string{mode, otag, Tag("z=%d", kz), Tag("out=%d", out), Tag("E=%d", E)}
}

// error stream: a zoom outside 0..35 (both exported conversions must answer with an error since /repo 9dab435, whatever the other
// arguments), or a base exponent outside 0..35 (outside C12's quantifier: only the correspondence is compared; MinInt64+zoom panics)
func outside(g *Gen, a []int64) ([]int64, string) {
	b := append([]int64{}, a...)
	badZoom := []int64{-1, -2, -25, 36, 37, 40, 61, 62, 63, 64, 65, 100, -100, 1 << 40, math.MaxInt64, math.MinInt64, math.MinInt64 + 1}
	switch g.Intn(8) {
	case 0, 6: // base exponent
		b[3] = g.Pick(-1, -2, -10, -40, -64, -65, 36, 37, 40, 50, 63, 64, 65, 100, -100, 1<<40, math.MaxInt64, math.MinInt64, math.MinInt64+b[2], math.MinInt64+b[1])
		return b, "bad-exponent"
	case 1: // both zooms
		b[1] = badZoom[g.Intn(len(badZoom))]
		b[2] = badZoom[g.Intn(len(badZoom))]
	case 2, 3, 4:
		b[1] = badZoom[g.Intn(len(badZoom))]
	default:
		b[2] = badZoom[g.Intn(len(badZoom))]
	}
	return b, "bad-zoom"
}

// a related call for the stateful-mutant stream: the same call again, or one argument changed
func related(g *Gen, a []int64) []int64 {
	b := append([]int64{}, a...)
	switch g.Intn(7) {
	case 0, 1: // identical
	case 2:
		b[4] += g.Pick(1, -1, 2, 16, -16)
	case 3:
		b[4] = -b[4]
	case 4:
		if b[3] < 35 {
			b[3]++
		} else {
			b[3]--
		}
	case 5:
		if b[2] > 0 {
			b[2]--
		} else {
			b[2]++
		}
	case 6:
		b[0] += g.Pick(1, -1)
	}
	return b
}

func vals(a []int64) []w.Val {
	r := make([]w.Val, len(a))
	for i, x := range a {
		r[i] = w.I(x)
	}
	return r
}

func inDomain(a []int64) bool {
	for _, z := range a[1:4] {
		if z < 0 || z > 35 {
			return false
		}
	}
	return true
}

func emit(r *run.Runner, fn string, a []int64, tags []string) {
	r.Run(run.Case{Prop: "C12", Fn: fn, Args: vals(a), Tags: tags, Trivial: !inDomain(a)})
}

// fixed cases run first on every seed: the defects repaired by 84c8b2c, the reviewers' examples, the int64 witness
var fixedForward = [][]int64{
	{0, 24, 24, 25, 1}, {4, 26, 17, 11, 0}, {7, 3, 3, 25, 0}, {0, 1, 24, 24, 0},
	{1, 24, 24, 25, 1}, {-2, 23, 22, 25, 13}, {3, 23, 22, 24, 1},
	{0, 25, 25, 25, consts.ZBaseOffsetForNegativeFIndex}, {-(1 << 25), 25, 25, 25, consts.ZBaseOffsetForNegativeFIndex},
	{(1 << 25) - 1, 25, 25, 25, consts.ZBaseOffsetForNegativeFIndex}, {1, 26, 26, 25, 0}, {-1, 35, 35, 25, 1},
	{0, 25, 35, 0, 1 << 29}, // int64_overflow: (lower+offset) << toKey wraps
	// zooms outside 0..35: error (9dab435)
	{0, 36, 3, 25, 0}, {0, 3, 36, 25, 0}, {0, -1, 3, 25, 0}, {0, 3, -1, 25, 0}, {5, 63, 3, 25, 0}, {0, 64, 3, 25, 0},
	{0, math.MinInt64, 3, 25, 0}, {0, 3, math.MinInt64, 25, 0}, {0, math.MaxInt64, 3, 25, 0}, {0, 3, math.MaxInt64, 25, 0},
	{0, 25, 10, math.MinInt64 + 10, 0}, // int64_overflow: zBaseExponent makes the shift count MinInt64: panic
	{(1 << 35) - 1, 35, 35, 0, 7 << 25}, {(1 << 35) - 1, 35, 35, 0, (7 << 25) - 1}, // first forward wrap (harmless: an error either way)
	{0, 25, 25, 25, math.MaxInt64}, {0, 25, 25, 25, math.MinInt64}, {3, 25, 30, 36, 5}, {3, 25, 30, -2, 5}, {3, 25, 30, 64, 5}, {3, 25, 30, 65, 5},
}
var fixedBackward = [][]int64{
	{0, 25, 25, 25, consts.ZBaseOffsetForNegativeFIndex}, {3, 27, 26, 25, 0}, {0, 0, 35, 0, 0}, {0, 0, 35, 35, -1},
	{(1 << 25) - 1, 25, 25, 25, 0}, {1 << 25, 26, 25, 25, 0}, {5, 3, 30, 3, 7},
	{(1 << 20) - 1, 20, 22, 25, -5}, {(1 << 20) - 1, 20, 25, 25, -5}, {(1 << 20) - 1, 20, 27, 25, -5}, {0, 0, 25, 25, -1}, // straddle the top: error
	{0, 0, 25, 25, (1 << 25) + 1}, {0, 20, 25, 25, (1 << 25) + 5}, // straddle the bottom: error
	// zooms outside 0..35: error (9dab435)
	{0, 36, 3, 25, 0}, {0, 3, 36, 25, 0}, {0, -1, 3, 25, 0}, {0, 3, -1, 25, 0}, {0, 63, 3, 25, 0}, {0, 3, 64, 25, 0},
	{0, math.MinInt64, 3, 25, 0}, {0, 3, math.MinInt64, 25, 0}, {0, math.MaxInt64, 3, 25, 0}, {0, 3, math.MaxInt64, 25, 0},
	{0, 3, 25, math.MinInt64 + 3, 0}, // int64_overflow: zBaseExponent makes the shift count MinInt64: panic
	{0, 0, 35, 0, 1 << 54}, {0, 0, 35, 0, 1 << 62}, // int64_overflow: (imin - offset) << 10 wraps to 0: (0,1023) instead of an error
	{0, 0, 35, 0, math.MaxInt64}, {0, 0, 35, 0, math.MinInt64}, {5, 3, 30, 36, 5}, {5, 3, 30, -3, 5}, {3, 25, 30, 64, 5},
}

// offsets chosen so that the shifted sum wraps around int64 onto a small valid index: the class int64_overflow (wrong Ok answers)
func genWrapFwd(g *Gen) ([]int64, []string) {
	z := g.Int63n(26) // p = 0: toKey = out - E
	t := 2 + g.Int63n(34)
	E := g.Int63n(36 - t)
	out := E + t
	f := g.Pick(0, 0, 1, -1, g.VIndex(z)>>uint(g.Intn(20)))
	lower := ashift(f, 25-z)
	var lim int64 = 8
	if E < 3 {
		lim = pow2(E)
	}
	r := g.Int63n(lim)
	q := g.Pick(1, -1, 2, -2, 3)
	if 64-t >= 62 {
		q = g.Pick(1, -1)
	}
	O := q*pow2(64-t) + r - lower // int64 arithmetic may wrap here too: fine, any offset is a legal argument
	return []int64{f, z, out, E, O}, []string{"fwd:wrap-to-valid", Tag("z=%d", z), Tag("out=%d", out), Tag("E=%d", E)}
}
func genWrapBwd(g *Gen) ([]int64, []string) {
	od := 1 + g.Int63n(10)
	out := 25 + od
	kz, E := g.Zoom(), g.Zoom()
	k := g.HIndex(kz)
	imin := ashift(k, E-kz)
	r := g.Int63n(16) - 8
	q := g.Pick(1, -1, 2, -2, 3)
	O := imin - r - q*pow2(64-od)
	return []int64{k, kz, out, E, O}, []string{"bwd:wrap-to-valid", Tag("z=%d", kz), Tag("out=%d", out), Tag("E=%d", E)}
}

// okFirst draws from gen until the implementation answers the first call without error (at most 6 draws), so that round trips
// really issue back-calls. It only steers the generator; every emitted case is judged as usual.
func okFirst(g *Gen, gen func(*Gen) ([]int64, []string), first func([]int64) (int64, int64, error)) (a []int64, tags []string) {
	for try := 0; try < 6; try++ {
		a, tags = gen(g)
		ok := false
		func() {
			defer func() { _ = recover() }()
			_, _, err := first(a)
			ok = err == nil
		}()
		if ok {
			return
		}
	}
	return
}

// thorough tier: every combination of zooms and base exponent in 23..27 (cells of 0.25 .. 4 m on either side) with offsets -9..9 and
// source indices in windows around altitude 0, around the top of the target range and at both ends of the source index range:
// covers of 1..17 cells, errors at the range ends, sub-metre and metre regimes on both sides.
func win(out *[]int64, lo, hi int64) {
	for v := lo; v <= hi; v++ {
		*out = append(*out, v)
	}
}
var fixedLists = []struct {
	ids           [][]int64
	qz, kz, E, O int64
}{
	{[][]int64{{3, 1, 2, 24, 5}, {3, 1, 2, 22, 5}}, 3, 23, 25, 0},                 // same f, same tile, other vertical zoom
	{[][]int64{{3, 1, 2, 24, -3}, {3, 4, 5, 26, -3}, {3, 1, 2, 23, -3}}, 3, 24, 25, 1 << 24}, // same f (negative), two tiles
	{[][]int64{{2, 0, 0, 3, 3}, {2, 1, 1, 1, 3}}, 2, 2, 24, 0},                     // f = 3 does not exist at vertical zoom 1: error
	{[][]int64{{2, 0, 0, 3, 3}, {2, 0, 0, 3, 3}, {2, 0, 0, 3, 2}}, 2, 4, 24, 1 << 24},
}

func exhaustive(r *run.Runner) {
	for z := int64(23); z <= 27; z++ {
		for out := int64(23); out <= 27; out++ {
			for E := int64(23); E <= 27; E++ {
				for O := int64(-9); O <= 9; O++ {
					var fs []int64
					win(&fs, -24, 24)                                     // altitude 0 +- a few metres: bottom of the key range
					top := ashift(pow2(E)-O, z-25)                        // voxel holding the top of the key range
					win(&fs, top-12, top+12)
					win(&fs, -pow2(z)-1, -pow2(z)+2)
					win(&fs, pow2(z)-3, pow2(z))
					for _, f := range fs {
						emit(r, "ConvertZToMinMaxAltitudekey", []int64{f, z, out, E, O}, []string{"exhaustive"})
					}
					var ks []int64
					win(&ks, -1, 40)                                       // keys next to altitude -O
					ktop := ashift(pow2(25)+O, z-E)                        // key holding +2^25 m, the top of the spatial-ID range
					win(&ks, ktop-12, ktop+12)
					win(&ks, pow2(z)-3, pow2(z))
					for _, k := range ks {
						emit(r, "ConvertAltitudekeyToMinMaxZ", []int64{k, z, out, E, O}, []string{"exhaustive"})
					}
				}
			}
		}
	}
}

func init() {
	Scale["C12"] = 50000
	Registry["C12"] = func(r *run.Runner, g *Gen, n int) {
		r.Register(fnZ2K(), fnK2Z(), fnMin(), fnValidate(),
			fnRoundTrip("RoundTripZ", z2k, k2z), fnRoundTrip("RoundTripK", k2z, z2k), fnSequence(), fnList())
		if n == 0 {
			return
		}
		for _, a := range fixedForward {
			emit(r, "ConvertZToMinMaxAltitudekey", a, []string{"fixed"})
			emit(r, "RoundTripZ", a, []string{"fixed", "roundtrip"})
			emit(r, "convertZToMinAltitudekey", a, []string{"fixed"})
		}
		for _, a := range fixedBackward {
			emit(r, "ConvertAltitudekeyToMinMaxZ", a, []string{"fixed"})
			emit(r, "RoundTripK", a, []string{"fixed", "roundtrip"})
		}
		for _, lc := range fixedLists {
			idv := make(w.List, len(lc.ids))
			for i, id := range lc.ids {
				idv[i] = w.List(vals(id))
			}
			r.Run(run.Case{Prop: "C12", Fn: "ListAltitudekeys", Args: []w.Val{idv, w.I(lc.qz), w.I(lc.kz), w.I(lc.E), w.I(lc.O)}, Tags: []string{"fixed", "list"}})
		}
		if g.Tier == "thorough" {
			exhaustive(r)
		}
		// diagnostic switch (mutation experiments only): VERIF_C12_NOSEQ=1 replaces the CallSequence stream by the older scheme of
		// related calls emitted back to back as separate cases
		seqP, consecP := 0.12, 0.04
		if os.Getenv("VERIF_C12_NOSEQ") != "" {
			seqP, consecP = 0, 0.1
		}
		for i := 0; i < n; i++ {
			// ~12 %: a history of related calls carried by one case (entry CallSequence)
			if seqP > 0 && g.Chance(seqP) {
				genSequence(r, g)
				continue
			}
			// ~6 %: the list API (several IDs in one call)
			if g.Chance(0.06) {
				genList(r, g)
				continue
			}
			var a []int64
			var tags []string
			fn := ""
			switch c := g.Intn(100); {
			case c < 2:
				a, tags = genWrapFwd(g)
				fn = "ConvertZToMinMaxAltitudekey"
			case c < 4:
				a, tags = genWrapBwd(g)
				fn = "ConvertAltitudekeyToMinMaxZ"
			case c < 22:
				a, tags = genForward(g)
				fn = "ConvertZToMinMaxAltitudekey"
			case c < 30:
				a, tags = genStraddleFwd(g)
				fn = "ConvertZToMinMaxAltitudekey"
			case c < 40:
				a, tags = genCoarseOdd(g)
				fn = "ConvertZToMinMaxAltitudekey"
			case c < 51:
				a, tags = genBackward(g)
				fn = "ConvertAltitudekeyToMinMaxZ"
			case c < 60:
				a, tags = genStraddleBwd(g)
				fn = "ConvertAltitudekeyToMinMaxZ"
			case c < 68:
				a, tags = okFirst(g, genForward, z2k)
				fn = "RoundTripZ"
				tags = append(tags, "roundtrip")
			case c < 70:
				a, tags = genStraddleFwd(g)
				fn = "RoundTripZ"
				tags = append(tags, "roundtrip")
			case c < 76:
				a, tags = genCoarseOdd(g)
				fn = "RoundTripZ"
				tags = append(tags, "roundtrip")
			case c < 85:
				a, tags = okFirst(g, genBackward, k2z)
				fn = "RoundTripK"
				tags = append(tags, "roundtrip")
			case c < 88:
				a, tags = genStraddleBwd(g)
				fn = "RoundTripK"
				tags = append(tags, "roundtrip")
			case c < 94:
				switch g.Intn(3) {
				case 0:
					a, tags = genCoarseOdd(g)
				case 1:
					a, tags = genStraddleFwd(g)
				default:
					a, tags = genForward(g)
				}
				fn = "convertZToMinAltitudekey"
			default:
				// validateIndexExists(index, zoom, minValueIsNegative)
				z := g.Zoom()
				neg := g.Chance(0.5)
				idx := g.Pick(0, -1, 1, pow2(z)-1, pow2(z), pow2(z)+1, -pow2(z), -pow2(z)-1, -pow2(z)+1, g.VIndex(z), g.Int63n(pow2(37))-pow2(36))
				tg := []string{"validate", Tag("z=%d", z)}
				if g.Chance(0.04) {
					z = g.Pick(-1, 36, 62, 63, 64, -64, math.MaxInt64)
					tg = []string{"validate", "outside-domain"}
				}
				r.Run(run.Case{Prop: "C12", Fn: "validateIndexExists", Args: []w.Val{w.I(idx), w.I(z), w.B(neg)}, Tags: tg, Trivial: z < 0 || z > 35})
				if g.Chance(0.1) { // related consecutive call: other sign flag
					r.Run(run.Case{Prop: "C12", Fn: "validateIndexExists", Args: []w.Val{w.I(idx), w.I(z), w.B(!neg)}, Tags: append(tg, "consecutive"), Trivial: z < 0 || z > 35})
				}
				continue
			}
			if g.Chance(0.03) {
				var tg string
				a, tg = outside(g, a)
				tags = []string{tg, fn}
			}
			emit(r, fn, a, tags)
			// ~4 %: a related call issued back to back as separate cases (the self-contained histories are the CallSequence cases)
			if g.Chance(consecP) {
				b := related(g, a)
				emit(r, fn, b, []string{"consecutive"})
				if g.Chance(0.5) {
					emit(r, fn, a, []string{"consecutive", "repeat-of-first"})
				}
			}
		}
	}
}
