// Package c04: invokers and generators for property C04 (integrate.MergeExtendedSpatialIds / MergeSpatialIds, ExtendedSpatialID.Higher).
//
// The merge enumerates sum_i 4^(MH-h_i)*2^(MV-v_i) unit cells (documented as exponential in the zoom spread). Generators keep the
// zoom spread <= 3 per axis, and every call is guarded by the same work bound as Merge.within_bound in the Coq model: a case beyond
// it is executed on neither side (the invoker answers "skipped:work-bound"), so shrinking can never create an exploding call.
package c04

import (
	"sort"
	"strings"

	"github.com/trajectoryjp/spatial_id_go/v4/common/object"
	"github.com/trajectoryjp/spatial_id_go/v4/integrate"
	"github.com/trajectoryjp/spatial_id_go/v4/shape"

	. "verif/harness/gen"
	"verif/harness/run"
	w "verif/harness/wire"
)

const skipped = "skipped:work-bound"

// big(v, b): |v| >= b, without overflow at math.MinInt64
func big(v, b int64) bool { return v >= b || v <= -b }

// withinBound mirrors Merge.within_bound / DC04.runnable: true when the call does no enumeration (bad zoom, unparsable ID) or the
// enumeration stays below the bound.
func withinBound(ids []string, H, V int64) bool {
	if !(0 <= H && H <= 35 && 0 <= V && V <= 35) {
		return true
	}
	es := make([]*object.ExtendedSpatialID, 0, len(ids))
	for _, s := range ids {
		e, err := object.NewExtendedSpatialID(s)
		if err != nil {
			return true
		}
		es = append(es, e)
	}
	var MH, MV int64
	for _, e := range es {
		if big(e.X(), 1<<40) || big(e.Y(), 1<<40) || big(e.Z(), 1<<40) || big(e.HZoom(), 64) || big(e.VZoom(), 64) {
			return false
		}
		if e.HZoom() > MH {
			MH = e.HZoom()
		}
		if e.VZoom() > MV {
			MV = e.VZoom()
		}
	}
	if MH-H > 40 || MV-V > 40 {
		return false
	}
	var work int64
	for _, e := range es {
		if e.HZoom() >= H && e.VZoom() >= V {
			sh := 2*(MH-e.HZoom()) + (MV - e.VZoom())
			if sh > 20 { // 2^21 > 2000
				return false
			}
			work += int64(1) << uint(sh)
		}
	}
	return work <= 2000
}

func fnMergeExt() *run.Fn {
	return &run.Fn{Name: "MergeExtendedSpatialIds", Invoke: func(a []w.Val) w.Val {
		ids, H, V := w.AsStrs(a[0]), w.AsInt(a[1]), w.AsInt(a[2])
		if !withinBound(ids, H, V) {
			return w.S(skipped)
		}
		out, err := integrate.MergeExtendedSpatialIds(ids, H, V)
		return w.WithErr(w.Strs(out), err)
	}}
}

func fnMergeSid() *run.Fn {
	return &run.Fn{Name: "MergeSpatialIds", Invoke: func(a []w.Val) w.Val {
		ids, z := w.AsStrs(a[0]), w.AsInt(a[1])
		if e, err := shape.ConvertSpatialIdsToExtendedSpatialIds(ids); err == nil && !withinBound(e, z, z) {
			return w.S(skipped)
		}
		out, err := integrate.MergeSpatialIds(ids, z)
		return w.WithErr(w.Strs(out), err)
	}}
}

// MergeTwice: the implementation applied to its own output (idempotence observed on the real function)
func fnMergeTwice() *run.Fn {
	return &run.Fn{Name: "MergeTwice", Invoke: func(a []w.Val) w.Val {
		ids, H, V := w.AsStrs(a[0]), w.AsInt(a[1]), w.AsInt(a[2])
		if !withinBound(ids, H, V) {
			return w.S(skipped)
		}
		out1, err := integrate.MergeExtendedSpatialIds(ids, H, V)
		if err != nil {
			return w.WithErr(w.Strs(out1), err)
		}
		if !withinBound(out1, H, V) {
			return w.L(w.Strs(out1), w.S(skipped))
		}
		out2, err := integrate.MergeExtendedSpatialIds(out1, H, V)
		return w.L(w.Strs(out1), w.WithErr(w.Strs(out2), err))
	}}
}

// MergeShifted: the implementation on a list and on the same list moved vertically by k whole zoom-0 cells (f + k*2^v)
func fnMergeShifted() *run.Fn {
	return &run.Fn{Name: "MergeShifted", Invoke: func(a []w.Val) w.Val {
		ids, H, V, k := w.AsStrs(a[0]), w.AsInt(a[1]), w.AsInt(a[2]), w.AsInt(a[3])
		if !withinBound(ids, H, V) {
			return w.S(skipped)
		}
		sh := make([]string, len(ids))
		for i, s := range ids {
			e, err := object.NewExtendedSpatialID(s)
			if err != nil || e.VZoom() < 0 || e.VZoom() > 35 || k > 4 || k < -4 {
				return w.S("bad-script")
			}
			sh[i] = EID(e.HZoom(), e.X(), e.Y(), e.VZoom(), e.Z()+k*(int64(1)<<uint(e.VZoom())))
		}
		out1, err := integrate.MergeExtendedSpatialIds(ids, H, V)
		if err != nil {
			return w.WithErr(w.Strs(out1), err)
		}
		out2, err := integrate.MergeExtendedSpatialIds(sh, H, V)
		return w.L(w.Strs(out1), w.WithErr(w.Strs(out2), err))
	}}
}

// ---- MergeHistory: a sequence of calls in ONE invocation, with a caller that reuses and scribbles over its own data ----
// step = [kind; ids; a; b; flags]; kind "ext" (ids, H, V), "sid" (ids, z), "higher" ([id], hDiff, vDiff).
// The argument slice of every step is the same caller buffer (same backing array, new contents). flags: 1 = after the call overwrite
// the argument slice, 2 = after the call overwrite and truncate/extend the returned slice, 4 = the caller parses the step's IDs into
// its own *ExtendedSpatialID objects before the call and mutates them (SetX, SetZ, SetZoom) after it. Results are copied out
// before any scribbling. Every step is judged like a standalone call (the model is pure).
const scribble = "9/1/1/9/1"

func historyScript(a []w.Val) w.Val {
	steps := w.AsList(a[0])
	for _, st := range steps { // refuse the whole case if any step is beyond the work bound
		f := w.AsList(st)
		ids, x := w.AsStrs(f[1]), w.AsInt(f[2])
		switch w.AsStr(f[0]) {
		case "ext":
			if !withinBound(ids, x, w.AsInt(f[3])) {
				return w.S(skipped)
			}
		case "sid":
			if e, err := shape.ConvertSpatialIdsToExtendedSpatialIds(ids); err == nil && !withinBound(e, x, x) {
				return w.S(skipped)
			}
		}
	}
	buf := make([]string, 0, 512) // the caller's one argument buffer
	out := make(w.List, 0, len(steps))
	for _, st := range steps {
		f := w.AsList(st)
		kind, ids, x, y, flags := w.AsStr(f[0]), w.AsStrs(f[1]), w.AsInt(f[2]), w.AsInt(f[3]), w.AsInt(f[4])
		if len(ids) > cap(buf) {
			return w.S("bad-script")
		}
		arg := buf[:len(ids)]
		copy(arg, ids)
		var own []*object.ExtendedSpatialID
		if flags&4 != 0 {
			for _, s := range ids {
				if e, err := object.NewExtendedSpatialID(s); err == nil {
					own = append(own, e)
				}
			}
		}
		var res []string
		var err error
		switch kind {
		case "ext":
			res, err = integrate.MergeExtendedSpatialIds(arg, x, y)
			out = append(out, w.WithErr(w.Strs(append([]string{}, res...)), err))
		case "sid":
			res, err = integrate.MergeSpatialIds(arg, x)
			out = append(out, w.WithErr(w.Strs(append([]string{}, res...)), err))
		case "higher":
			if len(arg) != 1 {
				return w.S("bad-script")
			}
			e, perr := object.NewExtendedSpatialID(arg[0])
			if perr != nil {
				out = append(out, w.WithErr(w.S(""), perr))
			} else {
				hi := e.Higher(x, y)
				out = append(out, w.S(hi.ID()))
				if flags&2 != 0 { // the caller mutates the objects it holds
					hi.SetX(hi.X() + 7)
					hi.SetZ(hi.Z() - 5)
					e.SetZoom(e.HZoom()+1, e.VZoom()+2)
					e.SetY(e.Y() + 1)
				}
			}
		default:
			return w.S("bad-script")
		}
		if flags&1 != 0 {
			for i := range arg {
				arg[i] = scribble
			}
		}
		if flags&2 != 0 && res != nil {
			for i := range res {
				res[i] = scribble
			}
			res = append(res[:0], scribble, scribble)
			_ = res
		}
		for i, e := range own {
			e.SetX(e.X() + int64(i) + 1)
			e.SetZ(e.Z() - 3)
			e.SetZoom(e.HZoom()+1, e.VZoom()+1)
		}
	}
	return out
}

func fnHistory() *run.Fn { return &run.Fn{Name: "MergeHistory", Invoke: historyScript} }

type hstep struct {
	kind  string
	ids   []string
	a, b  int64
	flags int64
}

func runHistory(r *run.Runner, steps []hstep, tags []string) {
	sv := make(w.List, len(steps))
	for i, st := range steps {
		sv[i] = w.L(w.S(st.kind), w.Strs(st.ids), w.I(st.a), w.I(st.b), w.I(st.flags))
	}
	r.Run(run.Case{Prop: "C04", Fn: "MergeHistory", Tags: append([]string{"history", Tag("steps=%d", len(steps))}, tags...), Args: []w.Val{sv}})
}

// priming call: fixed and unrelated, so that every history (also a shrunk one replayed in a fresh process) starts from a used library
var primeStep = hstep{"ext", []string{"5/1/1/5/1", "5/1/1/5/0"}, 5, 4, 0}

func otherZoom(g *Gen, z int64) int64 {
	n := z + g.Pick(-1, 1, 1, -1, 2)
	if n < 0 || n > 35 {
		n = z - g.Pick(1, 1, 2)
		if n < 0 {
			n = z + 1
		}
	}
	return n
}

// genHistory: related consecutive calls — same key-like arguments (target zooms) with other lists, the same list with other zooms,
// lists sharing their first members / their length, invalid-then-valid and valid-then-invalid pairs on the same list or the same
// zooms, identical repeats with the caller scribbling in between, spatial-ID and Higher calls interleaved.
func genHistory(r *run.Runner, g *Gen) {
	c := genCase(g, g.Chance(0.2))
	for len(c.ids) > 24 {
		c = genCase(g, false)
	}
	same := c.es != nil && len(c.es) > 0 && c.es[0].h == c.es[0].v && c.H == c.V && allSame(c.es)
	fl := func() int64 {
		if g.Chance(0.5) {
			return g.Pick(1, 2, 3, 4, 6, 7, 5)
		}
		return 0
	}
	ext := func(ids []string, H, V int64) hstep { return hstep{"ext", append([]string{}, ids...), H, V, fl()} }
	steps := []hstep{primeStep}
	tags := []string{}
	base := ext(c.ids, c.H, c.V)
	pat := g.Intn(9)
	switch pat {
	case 0: // same list, other target zooms (only H, only V, both), then the first again
		tags = append(tags, "same-list-other-zoom")
		steps = append(steps, base)
		for n := 1 + g.Intn(3); n > 0; n-- {
			H, V := c.H, c.V
			switch g.Intn(3) {
			case 0:
				H = otherZoom(g, H)
			case 1:
				V = otherZoom(g, V)
			default:
				H, V = otherZoom(g, H), otherZoom(g, V)
			}
			steps = append(steps, ext(c.ids, H, V))
		}
		steps = append(steps, base)
	case 1: // same zooms, other lists: sharing the first member, the length, a permutation, one member changed
		tags = append(tags, "same-zoom-other-list")
		steps = append(steps, base)
		for n := 1 + g.Intn(3); n > 0; n-- {
			d := genCaseAt(g, false, c.H, c.V)
			ids := append([]string{}, d.ids...)
			switch g.Intn(4) {
			case 0:
				ids[0] = c.ids[0]
			case 1:
				ids = append([]string{}, c.ids...)
				ids[g.Intn(len(ids))] = d.ids[0]
			case 2:
				ids = append([]string{}, c.ids...)
				g.R.Shuffle(len(ids), func(i, j int) { ids[i], ids[j] = ids[j], ids[i] })
			}
			if len(ids) > 24 {
				ids = ids[:24]
			}
			steps = append(steps, ext(ids, c.H, c.V))
		}
		steps = append(steps, base)
	case 2: // invalid then valid on the same list: bad target zoom first, then the good one; and the reverse
		tags = append(tags, "invalid-then-valid-zoom")
		bad := ext(c.ids, c.H, c.V)
		if g.Chance(0.5) {
			bad.a = g.Pick(-1, 36, 99)
		} else {
			bad.b = g.Pick(-1, 36, -7)
		}
		if g.Chance(0.6) {
			d := genCaseAt(g, false, c.H, c.V)
			steps = append(steps, ext(d.ids, c.H, c.V)) // a valid call that leaves a result behind
		}
		steps = append(steps, bad, base, bad, base)
	case 3: // malformed member then the repaired list at the same zooms; and the reverse
		tags = append(tags, "invalid-then-valid-id")
		bad := ext(c.ids, c.H, c.V)
		if g.Chance(0.5) { // malformed member last: everything before it has been processed when the call fails
			bad.ids = append(bad.ids, g.Malformed())
		} else {
			bad.ids[g.Intn(len(bad.ids))] = g.Malformed()
		}
		if g.Chance(0.5) {
			steps = append(steps, bad, base, bad)
		} else {
			steps = append(steps, base, bad, base)
		}
	case 4: // identical calls with the caller scribbling over argument / result / own objects in between
		tags = append(tags, "repeat-with-scribble")
		b1 := base
		b1.flags = g.Pick(1, 2, 3, 4, 7, 6)
		b2 := base
		b2.flags = g.Pick(2, 3, 7, 0)
		steps = append(steps, b1, b2, base)
	case 5: // Higher on IDs sharing x, y and the differences but not the vertical index / vertical zoom, and repeats after mutation
		tags = append(tags, "higher-related")
		h, v := g.Int63n(30)+3, g.Int63n(30)+3
		x, y := g.HIndex(h), g.HIndex(h)
		hd, vd := g.Int63n(3), g.Int63n(3)
		for n := 2 + g.Intn(3); n > 0; n-- {
			vv := v
			if g.Chance(0.3) {
				vv = otherZoom(g, v)
			}
			steps = append(steps, hstep{"higher", []string{EID(h, x, y, vv, g.VIndex(vv))}, hd, vd, fl()})
		}
		rep := steps[1]
		rep.flags = 2 // the caller mutates the returned object and its own parsed object, then asks again
		steps = append(steps, rep, rep, base)
	case 6: // spatial-ID and extended calls interleaved at the same zoom
		tags = append(tags, "sid-ext-interleaved")
		d := genCase(g, true)
		for len(d.ids) > 24 {
			d = genCase(g, true)
		}
		sid := hstep{"sid", toSids(d.ids), d.H, 0, fl()}
		steps = append(steps, sid, ext(d.ids, d.H, d.H), hstep{"sid", toSids(d.ids), otherZoom(g, d.H), 0, fl()}, sid, base)
	case 7: // a complete set, then proper subsets and supersets of it at the same zooms, then the set again
		tags = append(tags, "subsets-supersets")
		steps = append(steps, base)
		for n := 1 + g.Intn(3); n > 0; n-- {
			var ids []string
			for _, s := range c.ids {
				if g.Chance(0.6) {
					ids = append(ids, s)
				}
			}
			if len(ids) == 0 {
				ids = c.ids[:1]
			}
			steps = append(steps, ext(ids, c.H, c.V))
		}
		steps = append(steps, base)
	default: // everything mixed
		tags = append(tags, "mixed")
		steps = append(steps, base)
		d := genCaseAt(g, false, c.H, otherZoom(g, c.V))
		if len(d.ids) <= 24 {
			steps = append(steps, ext(d.ids, d.H, d.V))
		}
		bad := ext(c.ids, 36, c.V)
		steps = append(steps, bad, base, hstep{"higher", []string{c.ids[0]}, 0, 0, fl()}, base)
	}
	_ = same
	if len(steps) > 12 {
		steps = steps[:12]
	}
	// never emit a history the size guard refuses: drop the steps another target zoom pushed beyond the work bound
	kept := steps[:0]
	for _, st := range steps {
		if st.kind == "ext" && !withinBound(st.ids, st.a, st.b) {
			continue
		}
		if st.kind == "sid" {
			if e, err := shape.ConvertSpatialIdsToExtendedSpatialIds(st.ids); err == nil && !withinBound(e, st.a, st.a) {
				continue
			}
		}
		kept = append(kept, st)
	}
	runHistory(r, kept, tags)
}

func allSame(es []eid) bool {
	for _, e := range es {
		if e.h != e.v {
			return false
		}
	}
	return true
}

func fnHigher() *run.Fn {
	return &run.Fn{Name: "Higher", Invoke: func(a []w.Val) w.Val {
		e, err := object.NewExtendedSpatialID(w.AsStr(a[0]))
		if err != nil {
			return w.WithErr(w.S(""), err)
		}
		return w.S(e.Higher(w.AsInt(a[1]), w.AsInt(a[2])).ID())
	}}
}

// ---- the exported merge helpers as stand-alone API (entries HighSpatialIDOps / MergeHelperSequence) ----
// args: units [(id, hDiff, vDiff)], highs [(unit index, hDiff, vDiff)], ops [(receiver, argument)] (indices of highs).
// Objects are built through the exported constructors, the Merges are performed in order on these very objects (an argument object
// is reused for several receivers), and every object is read back before the first and after every Merge.
func helperScript(a []w.Val) w.Val {
	us, hs, ops, sets := w.AsList(a[0]), w.AsList(a[1]), w.AsList(a[2]), w.AsList(a[3])
	var units []*integrate.UnitDividedSpatialID
	var origs []*object.ExtendedSpatialID // the caller's objects handed to the constructor
	for _, u := range us {
		f := w.AsList(u)
		e, err := object.NewExtendedSpatialID(w.AsStr(f[0]))
		if err != nil {
			return w.S("bad-script")
		}
		origs = append(origs, e)
		units = append(units, integrate.NewUnitDividedSpatialID(e, w.AsInt(f[1]), w.AsInt(f[2])))
	}
	var highs []*integrate.HighSpatialID
	for _, h := range hs {
		f := w.AsList(h)
		k := w.AsInt(f[0])
		if k < 0 || k >= int64(len(units)) {
			return w.S("bad-script")
		}
		highs = append(highs, integrate.NewHighSpatialID(units[k], w.AsInt(f[1]), w.AsInt(f[2])))
	}
	sorted := func(l []string) w.Val {
		c := append([]string{}, l...)
		sort.Strings(c)
		return w.Strs(c)
	}
	snapshot := func() w.Val {
		hv := make(w.List, len(highs))
		for i, h := range highs {
			hv[i] = w.L(w.S(h.ID()), w.I(integrate.VerifHighThreshold(h)), w.Strs(integrate.VerifHighLowIDs(h)),
				sorted(integrate.VerifHighUnitIDs(h)), w.B(h.IsDense()))
		}
		uv := make(w.List, len(units))
		for i, u := range units {
			uv[i] = sorted(integrate.VerifUnitIDs(u))
		}
		return w.L(hv, uv)
	}
	snaps := w.List{snapshot()}
	for _, o := range ops {
		f := w.AsList(o)
		r, g := w.AsInt(f[0]), w.AsInt(f[1])
		if r < 0 || g < 0 || r >= int64(len(highs)) || g >= int64(len(highs)) {
			return w.S("bad-script")
		}
		highs[r].Merge(highs[g])
		snaps = append(snaps, snapshot())
	}
	// setter steps on constructed units, then read back the ORIGINAL argument objects and the units
	for _, st := range sets {
		f := w.AsList(st)
		j := w.AsInt(f[0])
		if j < 0 || j >= int64(len(units)) {
			return w.S("bad-script")
		}
		units[j].SetX(w.AsInt(f[1]))
		units[j].SetZoom(w.AsInt(f[2]), w.AsInt(f[3]))
	}
	ov, uv := make([]string, len(origs)), make([]string, len(units))
	for i := range origs {
		ov[i], uv[i] = origs[i].ID(), units[i].ID()
	}
	snaps = append(snaps, w.L(w.Strs(ov), w.Strs(uv)))
	return snaps
}

func fnHelpers(name string) *run.Fn { return &run.Fn{Name: name, Invoke: helperScript} }

// setterCount: deterministic from the script shape (the generator's PRNG is not in scope here): 0, 1 or 2 setter steps
func setterCount(nu, no int) int { return (nu + 2*no) % 3 }

type uSpec struct {
	e      eid
	hd, vd int64
}
type hSpec struct{ k, hd, vd int64 }

func runHelpers(r *run.Runner, fn string, us []uSpec, hs []hSpec, ops [][2]int64, tags []string) {
	uv, hv, ov := make(w.List, len(us)), make(w.List, len(hs)), make(w.List, len(ops))
	for i, u := range us {
		uv[i] = w.L(w.S(u.e.str()), w.I(u.hd), w.I(u.vd))
	}
	for i, h := range hs {
		hv[i] = w.L(w.I(h.k), w.I(h.hd), w.I(h.vd))
	}
	for i, o := range ops {
		ov[i] = w.L(w.I(o[0]), w.I(o[1]))
	}
	// setter steps: every script ends with 0..2 of them on random units
	sv := w.List{}
	if len(us) > 0 {
		for n := setterCount(len(us), len(ops)); n > 0; n-- {
			j := int64((n*7 + len(ops)) % len(us))
			sv = append(sv, w.L(w.I(j), w.I(int64(n)*3+us[j].e.x%5), w.I(us[j].e.h+int64(n)), w.I(us[j].e.v-1)))
		}
	}
	if len(sv) > 0 {
		tags = append(tags, "setters")
	}
	r.Run(run.Case{Prop: "C04", Fn: fn, Tags: append([]string{"helpers"}, tags...), Trivial: len(ops) == 0 && len(sv) == 0, Args: []w.Val{uv, hv, ov, sv}})
}

// aggregate scenario: an aggregate of n of the children of t (merged into the first of them) is then used, unchanged, as the
// ARGUMENT of several receivers that each hold the remaining children's first member; n = all-but-one makes every receiver dense.
func helperAggregate(r *run.Runner, g *Gen, t eid, a, b int64, nAgg int, nRecv int, tags []string) {
	ch := allDesc(t, a, b)
	if nAgg >= len(ch) {
		nAgg = len(ch) - 1
	}
	if nAgg < 1 || nAgg > 5 {
		// at most 6 units and highs: aggregate members + receivers
		if nAgg > 5 {
			nAgg = 5
		}
	}
	if nAgg < 1 {
		return
	}
	if nAgg+nRecv > 6 {
		nRecv = 6 - nAgg
	}
	var us []uSpec
	var hs []hSpec
	var ops [][2]int64
	for i := 0; i < nAgg; i++ {
		us = append(us, uSpec{ch[i], 0, 0})
		hs = append(hs, hSpec{int64(i), a, b})
		if i > 0 {
			ops = append(ops, [2]int64{0, int64(i)})
		}
	}
	for j := 0; j < nRecv; j++ {
		us = append(us, uSpec{ch[len(ch)-1], 0, 0})
		hs = append(hs, hSpec{int64(nAgg + j), a, b})
		ops = append(ops, [2]int64{int64(nAgg + j), 0})
	}
	runHelpers(r, "MergeHelperSequence", us, hs, ops, append(tags, "aggregate-as-argument", Tag("receivers=%d", nRecv)))
}

// the seeded scenario literally: aggregate of 7 of the 8 zoom-10 children of 9/0/0/9/0 as argument, receivers holding the 8th child
// (6 objects at most per script, so the aggregate is built from coarser pieces: 3 quarter columns + 1 cell = 7 cells at zoom 10)
func helperFixed(r *run.Runner) {
	for _, f := range []int64{0, -1} {
		helperSeven(r, eid{9, 0, 0, 9, f}, []string{"fixed"})
	}
}

func helperSeven(r *run.Runner, t eid, tags []string) {
	{
		f := t.f
		ch := allDesc(t, 1, 1) // 8 children: (x,y,f) in lexicographic order
		// columns (x,y) = (0,0),(0,1),(1,0) as 10/x/y/9/f with vDiff 1 (2 cells each) + the cell ch[6]; receivers hold ch[7]
		us := []uSpec{{eid{t.h + 1, 2 * t.x, 2 * t.y, t.v, f}, 0, 1}, {eid{t.h + 1, 2 * t.x, 2*t.y + 1, t.v, f}, 0, 1}, {eid{t.h + 1, 2*t.x + 1, 2 * t.y, t.v, f}, 0, 1},
			{ch[6], 0, 0}, {ch[7], 0, 0}, {ch[7], 0, 0}}
		hs := []hSpec{{0, 1, 0}, {1, 1, 0}, {2, 1, 0}, {3, 1, 1}, {4, 1, 1}, {5, 1, 1}}
		ops := [][2]int64{{0, 1}, {0, 2}, {0, 3}, {4, 0}, {5, 0}, {5, 0}, {4, 4}}
		runHelpers(r, "MergeHelperSequence", us, hs, ops, append(append([]string{}, tags...), "aggregate-as-argument"))
		// the same with single Merges: larger argument into smaller receiver, equal sizes, self-merge
		runHelpers(r, "HighSpatialIDOps", []uSpec{{t, 1, 1}, {ch[7], 0, 0}}, []hSpec{{0, 0, 0}, {1, 1, 1}}, [][2]int64{{1, 0}}, append(append([]string{}, tags...), "arg-larger"))
		runHelpers(r, "HighSpatialIDOps", []uSpec{{ch[0], 0, 0}, {ch[7], 0, 0}}, []hSpec{{0, 1, 1}, {1, 1, 1}}, [][2]int64{{1, 0}}, append(append([]string{}, tags...), "equal-sizes"))
		runHelpers(r, "HighSpatialIDOps", []uSpec{{ch[0], 1, 1}}, []hSpec{{0, 2, 2}}, [][2]int64{{0, 0}}, append(append([]string{}, tags...), "self-merge"))
	}
}

func genHelpers(r *run.Runner, g *Gen) {
	H, V := g.Int63n(34)+1, g.Int63n(34)+1
	if g.Chance(0.3) {
		H, V = g.Pick(1, 2, 9, 24, 33, 34), g.Pick(1, 2, 9, 25, 33, 34)
	}
	t := eid{H, g.HIndex(H), g.HIndex(H), V, g.VIndex(V)}
	if g.Chance(0.4) {
		t.f = g.Pick(-1, 0, -2)
		if !t.valid() {
			t.f = -1
		}
	}
	tags := []string{}
	if t.f < 0 {
		tags = append(tags, "target-below-ground")
	}
	switch g.Intn(5) {
	case 0, 1:
		a, b := g.Int63n(2), g.Int63n(2)
		if a+b == 0 {
			a, b = 1, 1
		}
		if a == 1 && b == 1 && t.h < 35 && t.v < 35 {
			helperSeven(r, t, tags)
			return
		}
		n := len(allDesc(t, a, b))
		nAgg := n - 1
		if g.Chance(0.4) {
			nAgg = 1 + g.Intn(n-1)
		}
		helperAggregate(r, g, t, a, b, nAgg, 1+g.Intn(3), tags)
	default:
		// random script: units are descendants of t (or t itself) with small unit differences; highs over them (sometimes two highs
		// over the same unit: shared map); random receiver/argument pairs incl. self-merge and repeated reuse of one argument
		nu := 1 + g.Intn(4)
		var us []uSpec
		for i := 0; i < nu; i++ {
			a, b := g.Int63n(2), g.Int63n(2)
			c := at(g, t, t.h+a, t.v+b)
			uhd, uvd := g.Int63n(3), g.Int63n(3)
			if g.Chance(0.06) {
				uhd = -1
			}
			if g.Chance(0.06) {
				uvd = -1
			}
			us = append(us, uSpec{c, uhd, uvd})
		}
		nh := nu
		if g.Chance(0.4) && nu < 6 {
			nh = nu + 1 + g.Intn(min(2, 6-nu-0))
			if nh > 6 {
				nh = 6
			}
		}
		var hs []hSpec
		for i := 0; i < nh; i++ {
			k := int64(i)
			if i >= nu {
				k = g.Int63n(int64(nu))
				tags = append(tags, "shared-map")
			}
			hs = append(hs, hSpec{k, us[k].e.h - t.h + g.Int63n(2), us[k].e.v - t.v + g.Int63n(2)})
		}
		no := 1 + g.Intn(5)
		var ops [][2]int64
		arg := g.Int63n(int64(nh))
		for i := 0; i < no; i++ {
			rcv := g.Int63n(int64(nh))
			switch g.Intn(6) {
			case 0:
				ops = append(ops, [2]int64{rcv, rcv})
				tags = append(tags, "self-merge")
			case 1, 2, 3:
				ops = append(ops, [2]int64{rcv, arg}) // the same argument object again
			default:
				ops = append(ops, [2]int64{rcv, g.Int63n(int64(nh))})
			}
		}
		fn := "MergeHelperSequence"
		if no == 1 {
			fn = "HighSpatialIDOps"
		}
		runHelpers(r, fn, us, hs, ops, append(tags, "random-script", Tag("ops=%d", no)))
	}
}

func min(a, b int) int {
	if a < b {
		return a
	}
	return b
}

// ---- voxels ----
type eid struct{ h, x, y, v, f int64 }

func (e eid) str() string { return EID(e.h, e.x, e.y, e.v, e.f) }
func (e eid) valid() bool {
	return 0 <= e.h && e.h <= 35 && 0 <= e.v && e.v <= 35 && 0 <= e.x && e.x < 1<<uint(e.h) && 0 <= e.y && e.y < 1<<uint(e.h) &&
		-(int64(1)<<uint(e.v)) <= e.f && e.f < 1<<uint(e.v)
}

// at: a voxel at zooms (h, v) related to t: the ancestor on an axis where the zoom is coarser (floor), a random descendant where finer.
func at(g *Gen, t eid, h, v int64) eid {
	r := eid{h: h, v: v}
	if h >= t.h {
		d := uint(h - t.h)
		r.x = t.x<<d + g.Int63n(1<<d)
		r.y = t.y<<d + g.Int63n(1<<d)
	} else {
		d := uint(t.h - h)
		r.x, r.y = t.x>>d, t.y>>d
	}
	if v >= t.v {
		d := uint(v - t.v)
		r.f = t.f<<d + g.Int63n(1<<d)
	} else {
		r.f = t.f >> uint(t.v-v)
	}
	return r
}

// allDesc: all 4^a * 2^b descendants of t at zooms (t.h+a, t.v+b).
func allDesc(t eid, a, b int64) []eid {
	var out []eid
	na, nb := int64(1)<<uint(a), int64(1)<<uint(b)
	for x := t.x * na; x < (t.x+1)*na; x++ {
		for y := t.y * na; y < (t.y+1)*na; y++ {
			for f := t.f * nb; f < (t.f+1)*nb; f++ {
				out = append(out, eid{t.h + a, x, y, t.v + b, f})
			}
		}
	}
	return out
}

// cover: a list of voxels of mixed zooms that fills t exactly (recursive subdivision within the remaining zoom budget);
// same: only (1,1) splits, so that h = v everywhere (spatial-ID form).
func cover(g *Gen, t eid, bh, bv int64, depth int, same bool) []eid {
	if (bh == 0 && bv == 0) || (same && (bh == 0 || bv == 0)) || depth >= 2 || g.Chance(0.4) && depth > 0 {
		return []eid{t}
	}
	a, b := int64(0), int64(0)
	switch {
	case same:
		a, b = 1, 1
	case bh > 0 && bv > 0:
		switch g.Intn(3) {
		case 0:
			a, b = 1, 1
		case 1:
			a = 1
		default:
			b = 1
		}
	case bh > 0:
		a = 1
	default:
		b = 1
	}
	var out []eid
	for _, c := range allDesc(t, a, b) {
		out = append(out, cover(g, c, bh-a, bv-b, depth+1, same)...)
	}
	return out
}

// reorder: the three input orders that matter to an algorithm that scans the list once: coarse voxels first, fine voxels first, shuffled
func reorder(g *Gen, es []eid, mode int) {
	switch mode {
	case 0:
		g.R.Shuffle(len(es), func(i, j int) { es[i], es[j] = es[j], es[i] })
	case 1:
		sort.SliceStable(es, func(i, j int) bool { return es[i].h+es[i].v < es[j].h+es[j].v })
	case 2:
		sort.SliceStable(es, func(i, j int) bool { return es[i].h+es[i].v > es[j].h+es[j].v })
	}
}

var orderTag = []string{"order=shuffled", "order=coarse-first", "order=fine-first", "order=as-generated"}

func strs(es []eid) []string {
	ids := make([]string, len(es))
	for i, e := range es {
		ids[i] = e.str()
	}
	return ids
}

func spread(g *Gen) int64 {
	switch p := g.Intn(100); {
	case p < 15:
		return 0
	case p < 60:
		return 1
	case p < 90:
		return 2
	}
	return 3
}

// neighbour target voxels of t (same zooms) that are valid, t first
func around(g *Gen, t eid) eid {
	c := t
	switch g.Intn(10) {
	case 0:
		c.f++
	case 1:
		c.f--
	case 2:
		c.x++
	case 3:
		c.y--
	case 4:
		c.x--
	case 5:
		c.y++
	case 6:
		c.x, c.y, c.f = c.x+g.Int63n(3)-1, c.y+g.Int63n(3)-1, c.f+g.Int63n(3)-1
	}
	if c.valid() {
		return c
	}
	return t
}

type gcase struct {
	ids  []string
	H, V int64
	tags []string
	es   []eid // the voxels behind ids (nil when ids were edited by hand)
	core []eid // the structured part (complete set / exact cover) before noise, if any
}

func work(es []eid, H, V int64) int64 {
	var MH, MV int64
	for _, e := range es {
		if e.h > MH {
			MH = e.h
		}
		if e.v > MV {
			MV = e.v
		}
	}
	var s int64
	for _, e := range es {
		if e.h >= H && e.v >= V {
			sh := 2*(MH-e.h) + (MV - e.v)
			if sh > 20 {
				return 1 << 40
			}
			s += int64(1) << uint(sh)
		}
	}
	return s
}

// one structured list of valid IDs around a target voxel; sameZoom: h = v everywhere (spatial-ID form)
func genCase(g *Gen, sameZoom bool) gcase { return genCaseAt(g, sameZoom, -1, -1) }

// genCaseAt: as genCase, with the target zooms fixed when they are >= 0
func genCaseAt(g *Gen, sameZoom bool, fH, fV int64) gcase {
	for try := 0; ; try++ {
		H, V := g.Zoom(), g.Zoom()
		if fH >= 0 {
			H = fH
		}
		if fV >= 0 {
			V = fV
		}
		if sameZoom {
			V = H
		}
		sh, sv := spread(g), spread(g)
		if try > 3 {
			sh, sv = g.Int63n(2), g.Int63n(2)
		}
		if sameZoom {
			sv = sh
			if sh == 3 && g.Chance(0.5) {
				sh, sv = 2, 2
			}
		}
		if H+sh > 35 {
			sh = 35 - H
		}
		if V+sv > 35 {
			sv = 35 - V
		}
		t := eid{H, g.HIndex(H), g.HIndex(H), V, g.VIndex(V)}
		if g.Chance(0.35) { // ground level: the voxels just below and just above altitude 0
			t.f = g.Pick(-1, 0)
		}
		var es []eid
		tags := []string{Tag("H=%d", H), Tag("V=%d", V), Tag("spread=%d/%d", sh, sv)}
		if t.f < 0 {
			tags = append(tags, "target-below-ground")
		}
		zoomOf := func() (int64, int64) {
			if sameZoom {
				z := H + g.Int63n(sh+1)
				if g.Chance(0.15) && H > 0 {
					z = H - 1
				}
				return z, z
			}
			h, v := H+g.Int63n(sh+1), V+g.Int63n(sv+1)
			switch p := g.Intn(100); {
			case p < 10 && H > 0: // coarser than the target on one axis: ineligible
				h = H - 1 - g.Int63n(min64(H, 2))
			case p < 20 && V > 0:
				v = V - 1 - g.Int63n(min64(V, 2))
			case p < 24 && H > 0 && V > 0: // coarser on both axes
				h, v = H-1-g.Int63n(min64(H, 2)), V-1-g.Int63n(min64(V, 2))
			case p < 28 && H > 0: // far coarser (never subdivided by the function)
				h = g.Int63n(H)
			case p < 31 && H > 0 && V+sv < 35: // ineligible and alone at the top vertical zoom: it sets MV for everybody
				h, v = H-1, V+sv+1+g.Int63n(min64(35-V-sv, 2))
			case p < 34 && V > 0 && H+sh < 35:
				h, v = H+sh+1, V-1
			}
			return h, v
		}
		scen := g.Intn(12)
		if scen >= 10 {
			scen = 3 // mixed-zoom covers are frequent
		}
		a, b := g.Int63n(sh+1), g.Int63n(sv+1)
		if sameZoom {
			b = a
		}
		for a+a+b > 4 { // complete sets of at most 16 members
			if a > 0 && (b == 0 || g.Chance(0.5)) {
				a--
			} else {
				b--
			}
			if sameZoom {
				a, b = min64(a, b), min64(a, b)
			}
		}
		var core []eid
		switch scen {
		case 0, 1: // complete sibling set
			tags = append(tags, Tag("complete=%d/%d", a, b))
			es = allDesc(t, a, b)
		case 2: // complete set with one member missing
			tags = append(tags, Tag("one-missing=%d/%d", a, b))
			es = allDesc(t, a, b)
			k := g.Intn(len(es))
			es = append(es[:k], es[k+1:]...)
		case 3: // mixed-zoom exact cover (coarse and fine members together), sometimes with one member missing
			tags = append(tags, "cover-mixed")
			for k := 0; k < 4; k++ {
				es = cover(g, t, sh, sv, 0, sameZoom)
				if len(es) > 1 && len(es) <= 24 {
					break
				}
			}
			if len(es) > 24 {
				es = allDesc(t, min64(sh, 1), min64(sv, 1))
			}
			if g.Chance(0.3) && len(es) > 1 {
				tags = append(tags, "cover-minus-one")
				k := g.Intn(len(es))
				es = append(es[:k], es[k+1:]...)
			}
		case 4: // two vertically adjacent targets (straddling a target boundary, very often f = -1 / 0)
			tags = append(tags, "two-targets-vertical")
			u := t
			u.f = t.f + 1
			if !u.valid() {
				u.f = t.f - 1
			}
			if t.f == -1 || u.f == -1 {
				tags = append(tags, "straddles-ground")
			}
			for _, c := range append(allDesc(t, a, b), allDesc(u, a, b)...) {
				if g.Chance(0.75) {
					es = append(es, c)
				}
			}
			if g.Chance(0.3) {
				es = append(allDesc(t, a, b), allDesc(u, a, b)...)
			}
		case 5: // the pair across a target boundary only: upper half of the lower target + lower half of the upper target
			tags = append(tags, "boundary-pair")
			if sv == 0 {
				es = []eid{t}
			} else {
				lo := eid{t.h, t.x, t.y, t.v + 1, 2*t.f + 1}
				hi := eid{t.h, t.x, t.y, t.v + 1, 2*t.f + 2}
				if sameZoom {
					lo = eid{t.h + 1, 2 * t.x, 2 * t.y, t.v + 1, 2*t.f + 1}
					hi = eid{t.h + 1, 2 * t.x, 2 * t.y, t.v + 1, 2*t.f + 2}
				}
				es = []eid{lo}
				if hi.valid() {
					es = append(es, hi)
				}
			}
		default: // random voxels in and around the target
			tags = append(tags, "random")
		}
		core = append([]eid{}, es...)
		// noise: 0..k random voxels near the target, ancestors / descendants (nested), duplicates
		n := 0
		if len(es) == 0 {
			n = 1 + g.Intn(12)
		} else if g.Chance(0.6) {
			n = g.Intn(5)
		}
		for i := 0; i < n; i++ {
			h, v := zoomOf()
			c := at(g, around(g, t), h, v)
			if c.valid() {
				es = append(es, c)
			}
		}
		if g.Chance(0.25) && len(es) > 0 { // duplicates
			tags = append(tags, "dups")
			for k := 1 + g.Intn(2); k > 0; k-- {
				es = append(es, es[g.Intn(len(es))])
			}
		}
		if g.Chance(0.25) && len(es) > 0 { // nested: an ancestor or a descendant of a member
			tags = append(tags, "nested")
			m := es[g.Intn(len(es))]
			h, v := zoomOf()
			c := at(g, m, h, v)
			if c.valid() {
				es = append(es, c)
			}
		}
		if len(es) == 0 {
			continue
		}
		if work(es, H, V) > 1500 {
			continue
		}
		mode := g.Intn(10)
		switch {
		case mode < 4:
			mode = 0
		case mode < 7:
			mode = 1
		case mode < 9:
			mode = 2
		default:
			mode = 3
		}
		reorder(g, es, mode)
		tags = append(tags, orderTag[mode])
		neg, inel := false, false
		for _, e := range es {
			if e.f < 0 {
				neg = true
			}
			if e.h < H || e.v < V {
				inel = true
			}
		}
		if neg {
			tags = append(tags, "has-negative-f")
		}
		if inel {
			tags = append(tags, "has-ineligible")
		}
		tags = append(tags, Tag("len=%d", min64(int64(len(es)), 20)))
		if scen > 3 {
			core = nil
		}
		return gcase{strs(es), H, V, tags, es, core}
	}
}

func max64(a, b int64) int64 {
	if a > b {
		return a
	}
	return b
}

func min64(a, b int64) int64 {
	if a < b {
		return a
	}
	return b
}

func toSids(ids []string) []string {
	out := make([]string, len(ids))
	for i, s := range ids {
		out[i] = EToS(s)
	}
	return out
}

func runExt(r *run.Runner, c gcase, triv bool) {
	r.Run(run.Case{Prop: "C04", Fn: "MergeExtendedSpatialIds", Tags: c.tags, Trivial: triv,
		Args: []w.Val{w.Strs(c.ids), w.I(c.H), w.I(c.V)}})
}

func runSid(r *run.Runner, c gcase) {
	r.Run(run.Case{Prop: "C04", Fn: "MergeSpatialIds", Tags: append(c.tags, "sid"), Trivial: len(c.ids) < 2,
		Args: []w.Val{w.Strs(toSids(c.ids)), w.I(c.H)}})
}

func runHigher(r *run.Runner, id string, hd, vd int64, tags []string) {
	r.Run(run.Case{Prop: "C04", Fn: "Higher", Tags: tags, Trivial: hd == 0 && vd == 0,
		Args: []w.Val{w.S(id), w.I(hd), w.I(vd)}})
}

// related: calls issued right after the case c that differ from it in one argument only (or in nothing), to expose state kept
// between calls (a cache keyed on a subset of the arguments, a cache handed out by reference and mutated) and dependence on the
// input order: another target zoom, the identical call, the same list in another order (coarse-first / fine-first / shuffled),
// another list at the same target zooms, and proper subsets / single members of a complete set merged just before.
func related(r *run.Runner, g *Gen, c gcase, sid bool) {
	emit := func(d gcase, tag string) {
		if !withinBound(d.ids, d.H, d.V) { // another target zoom makes more members eligible: never emit a case the guard refuses
			return
		}
		d.tags = append(append([]string{}, d.tags...), tag)
		if sid {
			runSid(r, d)
		} else {
			runExt(r, d, len(d.ids) < 2)
		}
	}
	for k := 1 + g.Intn(2); k > 0; k-- {
		d := c
		d.ids = append([]string{}, c.ids...)
		switch g.Intn(5) {
		case 0:
			emit(d, "seq-identical")
		case 1:
			if sid || g.Chance(0.5) {
				d.H = c.H + g.Pick(-1, 1)
				if d.H < 0 || d.H > 35 {
					d.H = c.H
				}
				if sid {
					d.V = d.H
				}
			} else {
				d.V = c.V + g.Pick(-1, 1)
				if d.V < 0 || d.V > 35 {
					d.V = c.V
				}
			}
			emit(d, "seq-other-zoom")
		case 2, 3:
			reorderCase(r, g, c, sid)
		default:
			emit(genCaseAt(g, sid, c.H, c.V), "seq-other-list")
		}
	}
}

// reorderCase: the same list again in one or two other orders
func reorderCase(r *run.Runner, g *Gen, c gcase, sid bool) {
	if c.es == nil {
		return
	}
	for _, mode := range g.R.Perm(3)[:1+g.Intn(2)] {
		es := append([]eid{}, c.es...)
		reorder(g, es, mode)
		d := gcase{ids: strs(es), H: c.H, V: c.V, es: es, tags: append(append([]string{}, c.tags...), "seq-reordered", "re"+orderTag[mode])}
		if sid {
			runSid(r, d)
		} else {
			runExt(r, d, len(d.ids) < 2)
		}
	}
}

// subsets: after a complete set / exact cover has been merged, merge proper subsets and single members of that same set with the
// same targets (each result is checked on its own against the model): a unit-cell cache shared between calls and enlarged by the
// first merge makes a later partial set look complete. Noise voxels of the original case that keep the maximal zooms are kept
// in some of the follow-ups so that the zoom differences of the members stay what they were.
func subsets(r *run.Runner, g *Gen, c gcase, sid bool) {
	if len(c.core) < 2 {
		return
	}
	emit := func(es []eid, tag string) {
		d := gcase{ids: strs(es), H: c.H, V: c.V, es: es, tags: append(append([]string{}, c.tags...), "seq-subset", tag)}
		if sid {
			runSid(r, d)
		} else {
			runExt(r, d, false)
		}
	}
	// the member that was first in the previous call, alone; then other singles, pairs, all but one, random subsets
	first := c.es[0]
	emit([]eid{first}, "subset=first-member")
	n := len(c.core)
	for k := 1 + g.Intn(3); k > 0; k-- {
		switch g.Intn(4) {
		case 0:
			emit([]eid{c.core[g.Intn(n)]}, "subset=single")
		case 1:
			i := g.Intn(n)
			j := (i + 1 + g.Intn(n-1)) % n
			emit([]eid{c.core[i], c.core[j]}, "subset=pair")
		case 2:
			i := g.Intn(n)
			es := append(append([]eid{}, c.core[:i]...), c.core[i+1:]...)
			emit(es, "subset=all-but-one")
		default:
			var es []eid
			for _, e := range c.es {
				if g.Chance(0.5) {
					es = append(es, e)
				}
			}
			if len(es) > 0 {
				emit(es, "subset=random")
			}
		}
	}
	if g.Chance(0.3) {
		emit(append([]eid{}, c.core...), "subset=complete-again")
	}
}

// respell: valid IDs in spellings that strconv.ParseInt accepts but ID() never prints ("+1", "007", "-0", "+0")
func respell(g *Gen, id string) string {
	fs := strings.Split(id, "/")
	for i := range fs {
		switch g.Intn(6) {
		case 0:
			if !strings.HasPrefix(fs[i], "-") {
				fs[i] = "+" + fs[i]
			}
		case 1:
			if strings.HasPrefix(fs[i], "-") {
				fs[i] = "-00" + fs[i][1:]
			} else {
				fs[i] = "0" + fs[i]
			}
		case 2:
			if fs[i] == "0" {
				fs[i] = []string{"-0", "+0", "000"}[g.Intn(3)]
			}
		}
	}
	return strings.Join(fs, "/")
}

// special: streams the structured generator does not reach
func special(r *run.Runner, g *Gen) {
	switch p := g.Intn(20); {
	case p < 4: // far target under same-zoom inputs: cheap for the function (one unit cell per member), incl. the int64 threshold wrap
		// (exponent 2*(MH-H)+(MV-V) >= 63) where the count test can never succeed
		h, v := g.Zoom(), g.Zoom()
		H, V := g.ZoomBelow(h), g.ZoomBelow(v)
		if g.Chance(0.4) {
			h, v = g.Pick(32, 31, 35, 33, 20), g.Pick(0, 1, 35, 23, 24)
			H, V = g.Pick(0, 1), g.Pick(0, 1)
			if V > v {
				V = v
			}
		}
		t := eid{h, g.HIndex(h), g.HIndex(h), v, g.VIndex(v)}
		es := []eid{t}
		for n := g.Intn(12); n > 0; n-- {
			c := at(g, around(g, t), h, v)
			if c.valid() {
				es = append(es, c)
			}
		}
		tags := []string{"far-target", Tag("exp=%d", min64(2*(h-H)+(v-V), 64))}
		if 2*(h-H)+(v-V) >= 63 {
			tags = append(tags, "threshold-wraps")
		}
		runExt(r, gcase{ids: strs(es), H: H, V: V, tags: tags, es: es}, len(es) < 2)
	case p < 5: // the empty list
		H, V := g.Zoom(), g.Zoom()
		runExt(r, gcase{ids: []string{}, H: H, V: V, tags: []string{"empty-list"}}, true)
		r.Run(run.Case{Prop: "C04", Fn: "MergeSpatialIds", Tags: []string{"empty-list", "sid"}, Trivial: true, Args: []w.Val{w.Strs([]string{}), w.I(H)}})
	case p < 7: // valid IDs in non-canonical spelling
		c := genCase(g, false)
		for i := range c.ids {
			c.ids[i] = respell(g, c.ids[i])
		}
		c.tags = append(c.tags, "non-canonical-spelling")
		c.es = nil
		runExt(r, c, len(c.ids) < 2)
	case p < 10: // several complete targets side by side (horizontal and vertical neighbours), some with one member missing
		H, V := g.Int63n(34)+1, g.Int63n(35)
		t := eid{H, g.HIndex(H), g.HIndex(H), V, g.VIndex(V)}
		a, b := g.Int63n(2), g.Int63n(2)
		if a+b == 0 {
			a = 1
		}
		var es []eid
		nt := 0
		for dx := int64(0); dx < 2; dx++ {
			for dy := int64(0); dy < 2; dy++ {
				for df := int64(-1); df < 1; df++ {
					u := eid{H, t.x + dx, t.y + dy, V, t.f + df}
					if !u.valid() || g.Chance(0.35) {
						continue
					}
					ch := allDesc(u, a, b)
					if g.Chance(0.3) {
						k := g.Intn(len(ch))
						ch = append(ch[:k], ch[k+1:]...)
					}
					es = append(es, ch...)
					nt++
				}
			}
		}
		if len(es) == 0 {
			return
		}
		reorder(g, es, g.Intn(3))
		runExt(r, gcase{ids: strs(es), H: H, V: V, tags: []string{"adjacent-targets", Tag("targets=%d", nt)}, es: es}, false)
	case p < 11: // long lists: one to two hundred voxels at one zoom pair (one unit cell each), target one or two levels coarser
		h, v := g.Int63n(30)+5, g.Int63n(30)+5
		H, V := h-g.Int63n(2), v-g.Int63n(2)
		if H == h && V == v {
			H = h - 1
		}
		t := eid{h, g.HIndex(h), g.HIndex(h), v, g.VIndex(v)}
		var es []eid
		n := 60 + g.Intn(160)
		for i := 0; i < n; i++ {
			c := eid{h, t.x + g.Int63n(8) - 4, t.y + g.Int63n(8) - 4, v, t.f + g.Int63n(6) - 3}
			if c.valid() {
				es = append(es, c)
			}
		}
		if len(es) == 0 {
			return
		}
		runExt(r, gcase{ids: strs(es), H: H, V: V, tags: []string{"long-list", Tag("len~%d0", len(es)/50*5)}, es: es}, false)
	case p < 16: // Go(Go(x)) on the implementation
		c := genCase(g, false)
		r.Run(run.Case{Prop: "C04", Fn: "MergeTwice", Tags: append(c.tags, "metamorphic", "twice"), Trivial: len(c.ids) < 2,
			Args: []w.Val{w.Strs(c.ids), w.I(c.H), w.I(c.V)}})
	default: // vertical translation on the implementation, very often across ground level
		c := genCase(g, false)
		k := g.Pick(1, -1, 2, -2, 1, -1, 3)
		r.Run(run.Case{Prop: "C04", Fn: "MergeShifted", Tags: append(c.tags, "metamorphic", "shifted", Tag("k=%d", k)), Trivial: len(c.ids) < 2,
			Args: []w.Val{w.Strs(c.ids), w.I(c.H), w.I(c.V), w.I(k)}})
	}
}

// exhaustive small scope (thorough tier): every subset of the 8 children (dh = 1, dv = 1) of a voxel, plus one noise voxel sometimes
func exhaustive(r *run.Runner, g *Gen) {
	targets := []eid{{0, 0, 0, 0, 0}, {0, 0, 0, 0, -1}, {1, 1, 0, 1, -1}, {1, 0, 1, 1, -2}, {3, 5, 2, 2, -1}, {5, 31, 0, 7, -128},
		{24, 1 << 23, 12345, 25, -1}, {34, (1 << 34) - 1, 0, 34, 0}, {34, 7, 7, 34, -(1 << 34)}, {20, 99, 98, 0, -1}, {20, 99, 98, 0, 0}}
	for _, t := range targets {
		ch := allDesc(t, 1, 1)
		for m := 0; m < 256; m++ {
			var ids []string
			for k, c := range ch {
				if m>>uint(k)&1 == 1 {
					ids = append(ids, c.str())
				}
			}
			tags := []string{"exhaustive-children", Tag("H=%d", t.h), Tag("V=%d", t.v)}
			if m%3 == 0 {
				c := at(g, around(g, t), t.h+g.Int63n(2), t.v+g.Int63n(2))
				if c.valid() {
					ids = append(ids, c.str())
					tags = append(tags, "noise")
				}
			}
			runExt(r, gcase{ids: ids, H: t.h, V: t.v, tags: tags}, len(ids) < 2)
		}
	}
}

// fixedSequences: call sequences in one process (state kept between calls, order dependence), above and below ground
func fixedSequences(r *run.Runner) {
	for _, t := range []eid{{10, 5, 7, 10, 3}, {10, 5, 7, 10, -4}, {10, 5, 7, 10, -1}, {0, 0, 0, 0, 0}, {0, 0, 0, 0, -1}} {
		ch := allDesc(t, 1, 1)
		tags := []string{"fixed", "seq-subset"}
		runExt(r, gcase{ids: strs(ch), H: t.h, V: t.v, tags: tags}, false)
		runExt(r, gcase{ids: strs(ch[6:8]), H: t.h, V: t.v, tags: tags}, false)
		runExt(r, gcase{ids: strs(ch[0:1]), H: t.h, V: t.v, tags: tags}, false)
		runExt(r, gcase{ids: strs(ch[3:4]), H: t.h, V: t.v, tags: tags}, false)
		runExt(r, gcase{ids: strs(ch[1:8]), H: t.h, V: t.v, tags: tags}, false)
		runSid(r, gcase{ids: strs(ch), H: t.h, V: t.v, tags: tags})
		runSid(r, gcase{ids: strs(ch[0:2]), H: t.h, V: t.v, tags: tags})
	}
	// seven zoom-1 children of 0/0/0/0 plus the eight zoom-2 children of the eighth, in three orders; and one coarse + seven fine
	for _, f := range []int64{0, -1} {
		t := eid{0, 0, 0, 0, f}
		ch := allDesc(t, 1, 1)
		fine := allDesc(ch[7], 1, 1)
		coarseFirst := append(append([]eid{}, ch[:7]...), fine...)
		fineFirst := append(append([]eid{}, fine...), ch[:7]...)
		var inter []eid
		for i := 0; i < 8; i++ {
			inter = append(inter, fine[i])
			if i < 7 {
				inter = append(inter, ch[i])
			}
		}
		for _, es := range [][]eid{coarseFirst, fineFirst, inter, coarseFirst[1:], fineFirst[1:]} {
			runSid(r, gcase{ids: strs(es), H: 0, V: 0, tags: []string{"fixed", "seq-reordered"}})
			runExt(r, gcase{ids: strs(es), H: 0, V: 0, tags: []string{"fixed", "seq-reordered"}}, false)
		}
		one := append([]eid{ch[0]}, allDesc(ch[1], 1, 1)[:7]...)
		rev := append(append([]eid{}, one[1:]...), one[0])
		for _, es := range [][]eid{one, rev} {
			runExt(r, gcase{ids: strs(es), H: 0, V: 0, tags: []string{"fixed", "seq-reordered"}}, false)
		}
	}
}

func init() {
	Scale["C04"] = 10000
	Registry["C04"] = func(r *run.Runner, g *Gen, n int) {
		r.Register(fnMergeExt(), fnMergeSid(), fnHigher(), fnMergeTwice(), fnMergeShifted(), fnHistory(), fnHelpers("HighSpatialIDOps"), fnHelpers("MergeHelperSequence"))
		if n == 0 {
			return
		}
		if g.Tier == "thorough" {
			exhaustive(r, g)
		}
		// fixed regression inputs: D2 and its mirror images
		for _, c := range []gcase{
			{ids: []string{"1/0/0/1/-1", "1/0/0/1/0"}, H: 1, V: 0, tags: []string{"fixed", "straddles-ground"}},
			{ids: []string{"1/0/0/1/-1", "1/0/0/1/-2"}, H: 1, V: 0, tags: []string{"fixed", "target-below-ground"}},
			{ids: []string{"1/0/0/1/1", "1/0/0/1/0"}, H: 1, V: 0, tags: []string{"fixed"}},
			{ids: []string{"3/1/1/3/-1", "3/1/1/3/-2", "3/1/1/3/-3", "3/1/1/3/-4"}, H: 3, V: 1, tags: []string{"fixed", "target-below-ground"}},
			{ids: []string{"3/1/1/3/-1", "3/1/1/3/-2", "3/1/1/3/0", "3/1/1/3/-3"}, H: 3, V: 1, tags: []string{"fixed", "straddles-ground"}},
			// complete sibling sets below ground whose lowest member is a negative exact multiple of 2^vDiff
			{ids: []string{"11/5/5/11/-2", "11/5/5/11/-1"}, H: 11, V: 10, tags: []string{"fixed", "target-below-ground", "negative-multiple"}},
			{ids: []string{"11/5/5/11/-3", "11/5/5/11/-2"}, H: 11, V: 10, tags: []string{"fixed", "target-below-ground", "negative-multiple"}},
			{ids: []string{"11/5/5/11/-5", "11/5/5/11/-4", "11/5/5/11/-3"}, H: 11, V: 10, tags: []string{"fixed", "target-below-ground", "negative-multiple"}},
			{ids: []string{"11/5/5/11/-8", "11/5/5/11/-7", "11/5/5/11/-6", "11/5/5/11/-5"}, H: 11, V: 9, tags: []string{"fixed", "target-below-ground", "negative-multiple"}},
			{ids: []string{"11/5/5/11/-4", "11/5/5/11/-3", "11/5/5/11/-2", "11/5/5/11/-1"}, H: 11, V: 9, tags: []string{"fixed", "target-below-ground", "negative-multiple"}},
			{ids: []string{"11/5/5/11/-2048", "11/5/5/11/-2047"}, H: 11, V: 10, tags: []string{"fixed", "target-below-ground", "negative-multiple"}},
		} {
			runExt(r, c, false)
		}
		fixedSequences(r)
		helperFixed(r)
		for i := 0; i < n; i++ {
			switch {
			case i%25 == 3: // malformed member / invalid target zoom
				c := genCase(g, false)
				switch g.Intn(4) {
				case 0:
					c.H = g.Pick(-1, 36, 100, -36, 1<<40)
					c.tags = []string{"bad-hzoom"}
				case 1:
					c.V = g.Pick(-1, 36, 64, -1<<62)
					c.tags = []string{"bad-vzoom"}
				default:
					c.ids[g.Intn(len(c.ids))] = g.Malformed()
					c.tags = []string{"malformed-id"}
				}
				runExt(r, c, true)
			case i%25 == 4: // malformed spatial IDs
				c := genCase(g, true)
				ids := toSids(c.ids)
				bad := []string{"", "1/0/0", "1/0/0/0/0", "a/0/0/0", "1/b/0/0", "1/0/0/c", "1//0/0", "1/0/0/0/", "１/0/0/0", "1/0 /0/0", "99999999999999999999/0/0/0"}
				tag := "malformed-sid"
				if g.Chance(0.3) {
					c.H = g.Pick(-1, 36, 1000)
					tag = "bad-zoom"
				} else {
					ids[g.Intn(len(ids))] = bad[g.Intn(len(bad))]
				}
				r.Run(run.Case{Prop: "C04", Fn: "MergeSpatialIds", Tags: []string{"sid", tag}, Trivial: true,
					Args: []w.Val{w.Strs(ids), w.I(c.H)}})
			case i%25 == 5: // IDs outside the grid (not in the property's domain: correspondence only), small values only
				c := genCase(g, false)
				k := g.Intn(len(c.ids))
				switch g.Intn(4) {
				case 0:
					c.ids[k] = EID(c.H+g.Int63n(2), -1-g.Int63n(4), g.Int63n(3), c.V, g.Int63n(5)-2)
				case 1:
					c.ids[k] = EID(c.H+1, (int64(1)<<uint(c.H+1))+g.Int63n(2), 0, c.V, 0)
				case 2:
					c.ids[k] = EID(-1-g.Int63n(3), 0, 0, c.V, 0)
				default:
					c.ids[k] = EID(c.H, 0, 0, -1, g.Int63n(3)-1)
				}
				c.tags = []string{"off-grid-id"}
				runExt(r, c, true)
			case i%6 == 2: // far targets, empty list, spellings, adjacent targets, long lists, metamorphic pairs
				special(r, g)
			case i%12 == 10: // histories: related consecutive calls in one invocation, with a caller that scribbles over its data
				genHistory(r, g)
			case i%24 == 9: // the exported merge helpers as stand-alone API
				genHelpers(r, g)
			case i%10 == 7: // ExtendedSpatialID.Higher alone
				id, h, v := g.ValidEID()
				hd, vd := g.ZoomBelow(h), g.ZoomBelow(v)
				tags := []string{"higher"}
				switch g.Intn(10) {
				case 0, 1, 2:
					tags = append(tags, "higher-ground")
					fs := g.Pick(-1, -2, 0, 1, -(int64(1) << uint(v)))
					id = EID(h, g.HIndex(h), g.HIndex(h), v, fs)
				case 3, 4, 5: // negative exact multiples of 2^vd (and their neighbours)
					tags = append(tags, "higher-negative-multiple")
					k := 1 + g.Int63n(min64(5, int64(1)<<uint(v-vd)))
					fs := -k*(int64(1)<<uint(vd)) + g.Pick(0, 0, 0, 1, -1)
					if fs < -(int64(1)<<uint(v)) || fs >= int64(1)<<uint(v) {
						fs = -(int64(1) << uint(v))
					}
					id = EID(h, g.HIndex(h), g.HIndex(h), v, fs)
				}
				runHigher(r, id, hd, vd, tags)
				if g.Chance(0.3) { // related consecutive calls: same ID with other differences, other ID with the same differences, identical
					switch g.Intn(3) {
					case 0:
						runHigher(r, id, g.ZoomBelow(h), g.ZoomBelow(v), append(tags, "seq-other-diff"))
					case 1:
						runHigher(r, id, hd, vd, append(tags, "seq-identical"))
					default:
						runHigher(r, EID(h, g.HIndex(h), g.HIndex(h), v, g.VIndex(v)), hd, vd, append(tags, "seq-other-id"))
					}
				}
			case i%4 == 1: // spatial-ID form
				c := genCase(g, true)
				runSid(r, c)
				switch p := g.Intn(100); {
				case p < 12:
					related(r, g, c, true)
				case p < 20:
					subsets(r, g, c, true)
				case p < 26:
					reorderCase(r, g, c, true)
				}
			default:
				c := genCase(g, false)
				runExt(r, c, len(c.ids) < 2)
				switch p := g.Intn(100); {
				case p < 12:
					related(r, g, c, false)
				case p < 20:
					subsets(r, g, c, false)
				case p < 26:
					reorderCase(r, g, c, false)
				}
			}
		}
	}
}
