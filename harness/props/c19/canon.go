package c19

import (
	"fmt"
	"math"
	"reflect"
	"sort"
	"strings"
)

// Canon renders any result value (through pointers, unexported fields, nested slices and maps) as a string that depends only on the
// values, never on addresses. With unordered = true the result list itself (the slice returned by the call, i.e. a slice that is the value or
// a direct component of the call's result tuple) is sorted by the rendering of its elements; nothing nested deeper is sorted. That is for
// the set-valued functions whose output order follows Go's map iteration and is therefore not a function of the input even in a
// sequential run.
func Canon(v interface{}, unordered bool) string {
	var b strings.Builder
	if t, ok := v.(tuple); ok {
		b.WriteByte('(')
		for i, x := range t {
			if i > 0 {
				b.WriteByte(' ')
			}
			canon(&b, reflect.ValueOf(x), unordered, 1)
		}
		b.WriteByte(')')
		return b.String()
	}
	canon(&b, reflect.ValueOf(v), unordered, 0)
	return b.String()
}

func canon(b *strings.Builder, v reflect.Value, sortHere bool, depth int) {
	if depth > 40 {
		b.WriteString("<deep>")
		return
	}
	if !v.IsValid() {
		b.WriteString("nil")
		return
	}
	switch v.Kind() {
	case reflect.Bool:
		fmt.Fprintf(b, "%v", v.Bool())
	case reflect.Int, reflect.Int8, reflect.Int16, reflect.Int32, reflect.Int64:
		fmt.Fprintf(b, "%d", v.Int())
	case reflect.Uint, reflect.Uint8, reflect.Uint16, reflect.Uint32, reflect.Uint64, reflect.Uintptr:
		fmt.Fprintf(b, "%d", v.Uint())
	case reflect.Float32, reflect.Float64:
		fmt.Fprintf(b, "f%016x", math.Float64bits(v.Float()))
	case reflect.String:
		fmt.Fprintf(b, "%q", v.String())
	case reflect.Ptr:
		if v.IsNil() {
			b.WriteString("nil")
			return
		}
		b.WriteByte('&')
		canon(b, v.Elem(), false, depth+1)
	case reflect.Interface:
		if v.IsNil() {
			b.WriteString("nil")
			return
		}
		if e, ok := tryError(v); ok {
			// errors: only the fact (C19 compares results; messages may embed nothing address-like, but keep to the flag + text)
			fmt.Fprintf(b, "error(%q)", e)
			return
		}
		canon(b, v.Elem(), false, depth+1)
	case reflect.Slice, reflect.Array:
		if v.Kind() == reflect.Slice && v.IsNil() {
			b.WriteString("nil[]")
			return
		}
		parts := make([]string, v.Len())
		for i := 0; i < v.Len(); i++ {
			var sb strings.Builder
			canon(&sb, v.Index(i), false, depth+1)
			parts[i] = sb.String()
		}
		if sortHere && v.Kind() == reflect.Slice {
			sort.Strings(parts)
		}
		b.WriteByte('[')
		b.WriteString(strings.Join(parts, " "))
		b.WriteByte(']')
	case reflect.Map:
		parts := make([]string, 0, v.Len())
		it := v.MapRange()
		for it.Next() {
			var sb strings.Builder
			canon(&sb, it.Key(), false, depth+1)
			sb.WriteByte(':')
			canon(&sb, it.Value(), false, depth+1)
			parts = append(parts, sb.String())
		}
		sort.Strings(parts)
		b.WriteString("map[" + strings.Join(parts, " ") + "]")
	case reflect.Struct:
		b.WriteString(v.Type().Name())
		b.WriteByte('{')
		for i := 0; i < v.NumField(); i++ {
			if i > 0 {
				b.WriteByte(' ')
			}
			canon(b, v.Field(i), false, depth+1)
		}
		b.WriteByte('}')
	case reflect.Func:
		if v.IsNil() {
			b.WriteString("nilfunc")
		} else {
			b.WriteString("func")
		}
	default:
		fmt.Fprintf(b, "<%s>", v.Kind())
	}
}

func tryError(v reflect.Value) (s string, ok bool) {
	defer func() {
		if recover() != nil {
			ok = false
		}
	}()
	if !v.CanInterface() {
		return "", false
	}
	if e, isErr := v.Interface().(error); isErr {
		return e.Error(), true
	}
	return "", false
}
