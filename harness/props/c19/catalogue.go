// Package c19: concurrent use of the whole exported API on shared read-only arguments (property C19).
//
// catalogue.go — a pool of shared argument slices and objects, and one cheap valid call for every exported function and method of every
// package (shape, integrate, operated, detector, transform, common, common/object, common/spatial, common/errors). A call instance is
// (catalogue index, argument seed); its arguments are a deterministic function of the pool and the seed, so the same instance can be run
// alone and inside any concurrent mix. Documented mutators (Set*/Reset*, (*HighSpatialID).Merge, spatial.UniqueAppend) are applied to objects
// private to the call; everything else receives windows of the shared slices (with spare capacity behind them) and the shared objects.
package c19

import (
	"fmt"
	"math"
	"math/rand"
	"sort"
	"strings"

	"github.com/trajectoryjp/spatial_id_go/v4/common"
	"github.com/trajectoryjp/spatial_id_go/v4/common/enum"
	sperr "github.com/trajectoryjp/spatial_id_go/v4/common/errors"
	"github.com/trajectoryjp/spatial_id_go/v4/common/object"
	"github.com/trajectoryjp/spatial_id_go/v4/common/spatial"
	"github.com/trajectoryjp/spatial_id_go/v4/detector"
	"github.com/trajectoryjp/spatial_id_go/v4/integrate"
	"github.com/trajectoryjp/spatial_id_go/v4/operated"
	"github.com/trajectoryjp/spatial_id_go/v4/shape"
	"github.com/trajectoryjp/spatial_id_go/v4/transform"
)

// Region: one cluster of shared arguments around one place at one zoom level.
type Region struct {
	Z      int64    // zoom of the cluster
	Vox    float64  // horizontal size of a voxel of zoom Z at this latitude, metres
	SIDs   []string // spatial IDs z/f/x/y, a 4x4x2 cluster at zoom Z, shuffled (unsorted on purpose)
	SIDs2  []string // an overlapping cluster at zoom Z-1..Z+1
	EIDs   []string // extended IDs h/x/y/v/f, same voxels
	EIDs2  []string
	Points []*object.Point
	PNil   []*object.Point // a shared slice with a nil element
	PA, PB *object.Point
	Proj   []*object.ProjectedPoint
	ESID   *object.ExtendedSpatialID
	ESIDs  []*object.ExtendedSpatialID
	ESIDv  object.ExtendedSpatialID
	Unit   *integrate.UnitDividedSpatialID
	High   *integrate.HighSpatialID
	Agg    *integrate.HighSpatialID  // an aggregate: 7 of the 8 children of one voxel of zoom Z-1 merged (more unit IDs than a fresh receiver)
	Last   *object.ExtendedSpatialID // the 8th child
	X0, Y0 int64
}

// Pool: the arguments shared by all goroutines. Nothing in it may change while calls run. Three regions (different continents, both signs of
// longitude and latitude) at three different zoom levels, so that concurrent calls of one function work at different zooms.
type Pool struct {
	Regs    []*Region
	QVs     []*object.QuadkeyAndVerticalID
	Tiles   []*object.TileXYZ
	FQV     *object.FromExtendedSpatialIDToQuadkeyAndVerticalID
	FQA     *object.FromExtendedSpatialIDToQuadkeyAndAltitudekey
	P3s     []*spatial.Point3
	Vecs    []spatial.Vector3
	Ints    []int64
	Ints2   []int64
	Floats  []float64
	Inner   [][2]int64
	Malform []string
	Rows    []*Row          // the same longitude at latitudes 0.5/26/35/43/60/75/-34/-60: voxels of one zoom in different latitude rows
	BPts    []*object.Point // boundary values: lon exactly +180 / -180 / 0, lat exactly +-85.0511287798 / 0, alt 0 / -0 / +-2^25, shared by several entries
	BNear   []*object.Point // BNear[i]: a point a few metres from BPts[i] (short lines that start on a boundary value)
	Edge    []string        // extended IDs on the edges of the grid (x, y in {0, 2^h-1, 2^h/2}) at mixed zooms 0..35: any shift wraps around
	EdgeS   []string        // voxels with h = v on the edges of the grid, in spatial-ID notation
}

// Row: one latitude. Mercator voxels get narrower towards the poles, so anything measured in metres differs per row at equal zoom.
type Row struct {
	Lat  float64
	P    *object.Point
	Q    []*object.Point // per RowZooms: a point about 1.5 voxels of that zoom away from P
	EIDs []string        // per RowZooms: the extended ID (h = v = zoom) of the voxel that contains P
	SIDs []string
}

// RowZooms: the zooms at which the rows have IDs.
var RowZooms = []int64{25, 21, 17}
var rowLats = []float64{0.5, 26.2, 35.67, 43.06, 60, 75, -34.6, -60}

func newRows(r *rand.Rand) []*Row {
	var rows []*Row
	lon := 139.788081 + r.Float64()*0.01
	for _, lat := range rowLats {
		row := &Row{Lat: lat}
		var err error
		row.P, err = object.NewPoint(lon, lat, 100+r.Float64()*20)
		must(err)
		for _, z := range RowZooms {
			cell := 360.0 / float64(int64(1)<<uint(z))
			q, err := object.NewPoint(lon+cell*1.5, lat+cell*0.7*math.Cos(lat*math.Pi/180), 100)
			must(err)
			row.Q = append(row.Q, q)
			ids, err := shape.GetExtendedSpatialIdsOnPoints([]*object.Point{row.P}, z, z)
			must(err)
			row.EIDs = append(row.EIDs, ids[0])
			sids, err := shape.GetSpatialIdsOnPoints([]*object.Point{row.P}, z)
			must(err)
			row.SIDs = append(row.SIDs, sids[0])
		}
		rows = append(rows, row)
	}
	r.Shuffle(len(rows), func(i, j int) { rows[i], rows[j] = rows[j], rows[i] })
	return rows
}

func must(err error) {
	if err != nil {
		panic("harness: c19 pool: " + err.Error())
	}
}

func spare[T any](s []T, extra int) []T {
	r := make([]T, len(s), len(s)+extra)
	copy(r, s)
	return r
}

var places = [][2]float64{{139.70, 35.60}, {-0.13, 51.50}, {-58.40, -34.60}, {151.20, -33.90}, {-122.40, 37.77}, {18.42, -33.92}}
var zooms = []int64{14, 16, 18, 20, 22, 24}

func newRegion(r *rand.Rand, place [2]float64, z int64) *Region {
	g := &Region{Z: z}
	cell := 360.0 / float64(int64(1)<<uint(z)) // degrees of longitude per voxel
	lon0, lat0 := place[0]+r.Float64()*0.1, place[1]+r.Float64()*0.1
	g.Vox = 40075016.0 / float64(int64(1)<<uint(z)) * math.Cos(lat0*math.Pi/180)
	for i := 0; i < 12; i++ {
		pt, err := object.NewPoint(lon0+r.Float64()*cell*3, lat0+r.Float64()*cell*2, r.Float64()*60-10)
		must(err)
		g.Points = append(g.Points, pt)
	}
	g.Points = spare(g.Points, 4)
	g.PNil = spare([]*object.Point{g.Points[0], nil, g.Points[1]}, 2)
	var err error
	g.PA, err = object.NewPoint(lon0, lat0, 3)
	must(err)
	g.PB, err = object.NewPoint(lon0+cell*(1+r.Float64()), lat0+cell*(0.6+r.Float64()*0.6), 3+r.Float64()*40)
	must(err)
	ids, err := shape.GetExtendedSpatialIdsOnPoints([]*object.Point{g.PA}, z, z)
	must(err)
	var h, x0, y0, v, f0 int64
	if _, e := fmt.Sscanf(ids[0], "%d/%d/%d/%d/%d", &h, &x0, &y0, &v, &f0); e != nil {
		panic("harness: c19 pool: " + e.Error())
	}
	x0 &^= 3
	y0 &^= 3
	g.X0, g.Y0 = x0, y0
	for dx := int64(0); dx < 4; dx++ {
		for dy := int64(0); dy < 4; dy++ {
			for f := int64(0); f < 2; f++ {
				g.SIDs = append(g.SIDs, fmt.Sprintf("%d/%d/%d/%d", z, f, x0+dx, y0+dy))
				g.EIDs = append(g.EIDs, fmt.Sprintf("%d/%d/%d/%d/%d", z, x0+dx, y0+dy, z, f))
			}
		}
	}
	for i := 0; i < 10; i++ {
		zz := z - 1 + int64(r.Intn(3))
		sh := uint(zz - (z - 1))
		x, y := (x0>>1)<<sh+int64(r.Intn(2<<sh)), (y0>>1)<<sh+int64(r.Intn(2<<sh))
		g.SIDs2 = append(g.SIDs2, fmt.Sprintf("%d/%d/%d/%d", zz, r.Intn(3)-1, x, y))
		vz := z - 1 + int64(r.Intn(3))
		g.EIDs2 = append(g.EIDs2, fmt.Sprintf("%d/%d/%d/%d/%d", zz, x, y, vz, r.Intn(4)-2))
	}
	r.Shuffle(len(g.SIDs), func(i, j int) { g.SIDs[i], g.SIDs[j] = g.SIDs[j], g.SIDs[i] })
	r.Shuffle(len(g.EIDs), func(i, j int) { g.EIDs[i], g.EIDs[j] = g.EIDs[j], g.EIDs[i] })
	g.SIDs, g.EIDs, g.SIDs2, g.EIDs2 = spare(g.SIDs, 6), spare(g.EIDs, 6), spare(g.SIDs2, 3), spare(g.EIDs2, 3)
	g.Proj, err = shape.ConvertPointListToProjectedPointList(g.Points, 3857)
	must(err)
	g.Proj = spare(g.Proj, 4)
	g.ESID, err = object.NewExtendedSpatialID(g.EIDs[0])
	must(err)
	for _, s := range append(append([]string{}, g.EIDs[:4]...), g.EIDs2[:4]...) {
		e, err := object.NewExtendedSpatialID(s)
		must(err)
		g.ESIDs = append(g.ESIDs, e)
	}
	g.ESIDs = spare(g.ESIDs, 2)
	ev, err := object.NewExtendedSpatialID(g.EIDs2[0])
	must(err)
	g.ESIDv = *ev
	g.Unit = integrate.NewUnitDividedSpatialID(g.ESID, 1, 1)
	g.High = integrate.NewHighSpatialID(integrate.NewUnitDividedSpatialID(g.ESIDs[1], 1, 1), 1, 1)
	// set-up (sequential, before anything is shared): the aggregate of 7 children, and the 8th child
	n := 0
	for dx := int64(0); dx < 2; dx++ {
		for dy := int64(0); dy < 2; dy++ {
			for f := int64(0); f < 2; f++ {
				c, err := object.NewExtendedSpatialID(fmt.Sprintf("%d/%d/%d/%d/%d", z, x0+dx, y0+dy, z, f))
				must(err)
				n++
				if n == 8 {
					g.Last = c
					break
				}
				h := integrate.NewHighSpatialID(integrate.NewUnitDividedSpatialID(c, 0, 0), 1, 1)
				if g.Agg == nil {
					g.Agg = h
				} else {
					g.Agg.Merge(h)
				}
			}
		}
	}
	return g
}

// NewPool builds the shared arguments from a seed (sequentially, before any concurrent call).
func NewPool(seed int64) *Pool {
	r := rand.New(rand.NewSource(seed))
	p := &Pool{}
	pl, zs := r.Perm(len(places)), r.Perm(len(zooms))
	for i := 0; i < 3; i++ {
		p.Regs = append(p.Regs, newRegion(r, places[pl[i]], zooms[zs[i]]))
	}
	p.Rows = newRows(r)
	const maxLat = 85.0511287798
	for _, b := range [][3]float64{{180, 10 + r.Float64()*50, 5}, {-180, -20 - r.Float64()*40, 5}, {180, 0, 0}, {-180, maxLat, 0}, {180, -maxLat, math.Copysign(0, -1)},
		{0, 0, 0}, {0, maxLat, 33554432}, {12.5, -maxLat, -33554432}, {139.7, 35.6, math.Copysign(0, -1)}, {-0.0, 51.5, 33554431.5}, {179.99999999, 35, 1}, {-179.99999999, 35, 1}} {
		pt, err := object.NewPoint(b[0], b[1], b[2])
		must(err)
		p.BPts = append(p.BPts, pt)
		dl, dt := -0.00008, -0.00005
		if b[0] < 0 {
			dl = 0.00008
		}
		if b[1] < 0 {
			dt = 0.00005
		}
		q, err := object.NewPoint(b[0]+dl, b[1]+dt, b[2])
		must(err)
		p.BNear = append(p.BNear, q)
	}
	p.BPts, p.BNear = spare(p.BPts, 3), spare(p.BNear, 3)
	p.QVs = []*object.QuadkeyAndVerticalID{
		object.NewQuadkeyAndVerticalID(6, 2914, 7, 74, 500, 0),
		object.NewQuadkeyAndVerticalID(6, 2882, 25, 0, 0, 0),
		object.NewQuadkeyAndVerticalID(9, 451739, 25, 0, 0, 0),
		object.NewQuadkeyAndVerticalID(6, 2882+int64(r.Intn(20)), 7, int64(r.Intn(100)), 500, 0),
		object.NewQuadkeyAndVerticalID(8, 40000+int64(r.Intn(2000)), 6, int64(r.Intn(60)), 800, -200),
		object.NewQuadkeyAndVerticalID(int64(4+r.Intn(8)), int64(r.Intn(200)), int64(4+r.Intn(6)), int64(r.Intn(16)), 1000, -1000),
		object.NewQuadkeyAndVerticalID(int64(4+r.Intn(8)), int64(r.Intn(200)), int64(4+r.Intn(6)), int64(r.Intn(16)), 250, 50),
	}
	p.QVs = spare(p.QVs, 3)
	// tiles: three runs of 4 tiles at zooms 22, 16 and 9 (vertical zoom one more); a call takes a window inside one run and an output
	// zoom next to it (conversions across distant zooms explode)
	for i := int64(0); i < 12; i++ {
		hz := []int64{22, 16, 9}[i/4]
		t, err := object.NewTileXYZ(hz, (int64(1)<<uint(hz))/3+i%2, (int64(1)<<uint(hz))/5+(i%4)/2, hz+1, i%4-2)
		must(err)
		p.Tiles = append(p.Tiles, t)
	}
	p.Tiles = spare(p.Tiles, 3)
	p.Inner = spare([][2]int64{{29728048124, 58}, {29728048124, 57}, {29728048125, 58}, {29728048125, 57}}, 2)
	p.FQV = object.NewFromExtendedSpatialIDToQuadkeyAndVerticalID(21, p.Inner, 10, 500, 0)
	p.FQA = object.NewFromExtendedSpatialIDToQuadkeyAndAltitudekey(21, p.Inner, 26, 25, 0)
	for i := 0; i < 10; i++ {
		p.P3s = append(p.P3s, &spatial.Point3{X: r.Float64()*20 - 10, Y: r.Float64()*20 - 10, Z: r.Float64()*20 - 10})
		p.Vecs = append(p.Vecs, spatial.Vector3{X: r.Float64()*4 - 2, Y: r.Float64()*4 - 2, Z: r.Float64()*4 - 2 + 0.1})
	}
	p.P3s, p.Vecs = spare(p.P3s, 4), spare(p.Vecs, 4)
	for i := 0; i < 24; i++ {
		p.Ints = append(p.Ints, int64(r.Intn(40)-20))
		p.Ints2 = append(p.Ints2, int64(r.Intn(40)-20))
		p.Floats = append(p.Floats, r.Float64()*200-100)
	}
	p.Ints, p.Ints2, p.Floats = spare(p.Ints, 8), spare(p.Ints2, 8), spare(p.Floats, 8)
	p.Malform = spare([]string{"", "1/2", "a/0/0/0/0", "20/1/1", "1/0/0/1/0/7", "1/0/0/1/x", "x/y", "1//0/1/0", "20/1/b/3"}, 2) // never a well-formed ID of another zoom: merges across distant zooms explode
	for _, z := range []int64{0, 1, 2, 3, 5, 8, 10, 13, 15, 18, 20, 22, 25, 28, 30, 33, 35} {
		wd := int64(1) << uint(z)
		for _, x := range []int64{0, wd - 1, wd / 2} {
			for _, y := range []int64{0, wd - 1} {
				vz := z
				if r.Intn(3) == 0 {
					vz = int64(r.Intn(30))
				}
				f := []int64{-1, 0, 5, -(int64(1) << uint(vz)), int64(1)<<uint(vz) - 1}[r.Intn(5)]
				p.Edge = append(p.Edge, fmt.Sprintf("%d/%d/%d/%d/%d", z, x, y, vz, f))
				fs := []int64{-1, 0, 5, -wd, wd - 1}[r.Intn(5)]
				p.EdgeS = append(p.EdgeS, fmt.Sprintf("%d/%d/%d/%d", z, fs, x, y))
			}
		}
	}
	p.Edge = append(p.Edge, "20/0/1048575/20/5", "1/0/1/1/0", "3/7/0/3/-1", "10/1023/1023/10/0", "25/0/33554431/25/1")
	r.Shuffle(len(p.Edge), func(i, j int) { p.Edge[i], p.Edge[j] = p.Edge[j], p.Edge[i] })
	r.Shuffle(len(p.EdgeS), func(i, j int) { p.EdgeS[i], p.EdgeS[j] = p.EdgeS[j], p.EdgeS[i] })
	p.Edge, p.EdgeS = spare(p.Edge, 5), spare(p.EdgeS, 5)
	return p
}

// Snapshot renders the whole pool (through every pointer), for the byte comparison "the shared inputs are unmodified".
// Windows handed to the calls keep spare capacity behind them, so the rendering covers the full capacity of every slice.
func (p *Pool) Snapshot() string {
	full := func(s []string) []string { return s[:cap(s)] }
	all := []interface{}{p.BPts[:cap(p.BPts)], p.BNear[:cap(p.BNear)], p.QVs[:cap(p.QVs)], p.Tiles[:cap(p.Tiles)], p.FQV, p.FQA, p.P3s[:cap(p.P3s)], p.Vecs[:cap(p.Vecs)],
		p.Ints[:cap(p.Ints)], p.Ints2[:cap(p.Ints2)], p.Floats[:cap(p.Floats)], p.Inner[:cap(p.Inner)], full(p.Malform), full(p.Edge), full(p.EdgeS)}
	for _, row := range p.Rows {
		all = append(all, row.P, row.Q, row.EIDs, row.SIDs)
	}
	for _, g := range p.Regs {
		all = append(all, g.Z, full(g.SIDs), full(g.SIDs2), full(g.EIDs), full(g.EIDs2), g.Points[:cap(g.Points)], g.PNil[:cap(g.PNil)], g.PA, g.PB,
			g.Proj[:cap(g.Proj)], g.ESID, g.ESIDs[:cap(g.ESIDs)], g.ESIDv, g.Unit, g.High, g.Agg, g.Last)
	}
	return Canon(all, false)
}

func (p *Pool) reg(r *rand.Rand) *Region { return p.Regs[r.Intn(len(p.Regs))] }

// window: a random window of a shared slice (shares the backing array; capacity reaches to the end of the shared slice);
// about 1 in 25 windows is empty and 1 in 50 is nil, so every entry also sees the empty input and its error path concurrently
func window[T any](r *rand.Rand, s []T, max int) []T {
	switch r.Intn(50) {
	case 0:
		return nil
	case 1, 2:
		a := r.Intn(len(s))
		return s[a:a]
	}
	n := 1 + r.Intn(max)
	if n > len(s) {
		n = len(s)
	}
	a := r.Intn(len(s) - n + 1)
	return s[a : a+n]
}

// tileRun: a window of the shared tiles inside one run of equal zoom, and that zoom
func tileRun(p *Pool, r *rand.Rand) ([]*object.TileXYZ, int64) {
	k := r.Intn(3)
	run := p.Tiles[4*k : 4*k+4]
	return window(r, run, 4), []int64{22, 16, 9}[k]
}

func pick[T any](r *rand.Rand, s []T) T { return s[r.Intn(len(s))] }

// pid: an ID of a shared list; about 1 in 30 is one of the shared malformed / out-of-range IDs (error paths run concurrently too)
func pid(r *rand.Rand, p *Pool, s []string) string {
	if r.Intn(30) == 0 {
		return p.Malform[r.Intn(len(p.Malform))]
	}
	return s[r.Intn(len(s))]
}

// widows: a window of IDs in which, rarely, one element is malformed (copied: the shared list itself stays as it is)
func wids(r *rand.Rand, p *Pool, s []string, max int) []string {
	w := window(r, s, max)
	if len(w) > 0 && r.Intn(30) == 0 {
		c := append([]string{}, w...)
		c[r.Intn(len(c))] = p.Malform[r.Intn(len(p.Malform))]
		return c
	}
	return w
}

// Call: one exported function or method with arguments drawn from the pool.
type Call struct {
	Name      string
	Unordered bool // set-valued: the order of the result list follows Go's map iteration (the function ranges over a map), which differs between two
	// sequential runs of the same call; only the result list itself is then compared as a multiset (measured by `vrace -detcheck`, and read off the code)
	// r draws the arguments of this instance; k draws its key-like arguments (zooms, clearance, radius, option, EPSG code, layer counts, shifts):
	// related instances of a batch share k's seed and differ in r's, so they agree on the key-like arguments and differ in the rest
	// (state keyed on part of the arguments - a cache keyed on zoom and clearance but not on the latitude row - shows only then)
	Run func(p *Pool, r, k *rand.Rand) interface{}
}

// tuple: the results of one call; never sorted itself
type tuple []interface{}

func rs(vs ...interface{}) interface{} { return tuple(vs) }

// errors are compared by their text (the library's messages contain no address)
func errStr(e error) interface{} {
	if e == nil {
		return nil
	}
	return "error: " + e.Error()
}

// longIDs: a fresh list of n distinct voxels of the region's zoom (a 32-column block, a few vertical layers), extended or spatial notation.
// Lists of several hundred IDs reach code that short lists never do: size thresholds behind which an implementation may split the work
// across internal goroutines, grow / reuse pooled buffers, or switch algorithms.
func longIDs(g *Region, r *rand.Rand, n int, sid bool) []string {
	l := make([]string, 0, n)
	f0 := int64(r.Intn(5) - 2)
	for i := 0; i < n; i++ {
		x, y, f := g.X0+int64(i%32), g.Y0+int64((i/32)%32), f0+int64(i/1024)
		if sid {
			l = append(l, fmt.Sprintf("%d/%d/%d/%d", g.Z, f, x, y))
		} else {
			l = append(l, fmt.Sprintf("%d/%d/%d/%d/%d", g.Z, x, y, g.Z, f))
		}
	}
	r.Shuffle(len(l), func(i, j int) { l[i], l[j] = l[j], l[i] })
	return l
}

func zoomNear(r *rand.Rand, z int64) int64 { return z - 2 + int64(r.Intn(4)) }

// Catalogue: every exported function and method of every package of the library.
var Catalogue = []Call{
	// ---- shape
	{"shape.GetSpatialIdsOnLine", true, func(p *Pool, r, k *rand.Rand) interface{} {
		g := p.reg(r)
		a, e := shape.GetSpatialIdsOnLine(g.PA, g.PB, zoomNear(r, g.Z))
		return rs(a, errStr(e))
	}},
	{"shape.GetExtendedSpatialIdsOnLine", true, func(p *Pool, r, k *rand.Rand) interface{} {
		g := p.reg(r)
		a, e := shape.GetExtendedSpatialIdsOnLine(pick(r, g.PNil), pick(r, g.Points), zoomNear(r, g.Z), zoomNear(r, g.Z))
		return rs(a, errStr(e))
	}},
	{"shape.GetSpatialIdsOnPoints", false, func(p *Pool, r, k *rand.Rand) interface{} {
		g := p.reg(r)
		pts := window(r, g.Points, 6)
		if r.Intn(25) == 0 {
			pts = g.PNil // a shared slice with a nil element: the error path
		}
		a, e := shape.GetSpatialIdsOnPoints(pts, int64(r.Intn(30)))
		return rs(a, errStr(e))
	}},
	{"shape.GetExtendedSpatialIdsOnPoints", false, func(p *Pool, r, k *rand.Rand) interface{} {
		g := p.reg(r)
		a, e := shape.GetExtendedSpatialIdsOnPoints(window(r, g.Points, 6), int64(r.Intn(36)), int64(r.Intn(36)))
		return rs(a, errStr(e))
	}},
	{"shape.GetPointOnSpatialId", false, func(p *Pool, r, k *rand.Rand) interface{} {
		g := p.reg(r)
		a, e := shape.GetPointOnSpatialId(pid(r, p, g.SIDs), enum.PointOption(r.Intn(2)))
		return rs(a, errStr(e))
	}},
	{"shape.GetPointOnExtendedSpatialId", false, func(p *Pool, r, k *rand.Rand) interface{} {
		g := p.reg(r)
		a, e := shape.GetPointOnExtendedSpatialId(pid(r, p, g.EIDs2), enum.PointOption(r.Intn(2)))
		return rs(a, errStr(e))
	}},
	{"shape.ConvertPointListToProjectedPointList", false, func(p *Pool, r, k *rand.Rand) interface{} {
		g := p.reg(r)
		a, e := shape.ConvertPointListToProjectedPointList(window(r, g.Points, 5), 3857)
		return rs(a, errStr(e))
	}},
	{"shape.ConvertProjectedPointListToPointList", false, func(p *Pool, r, k *rand.Rand) interface{} {
		g := p.reg(r)
		a, e := shape.ConvertProjectedPointListToPointList(window(r, g.Proj, 5), 3857)
		return rs(a, errStr(e))
	}},
	{"shape.CheckZoom", false, func(p *Pool, r, k *rand.Rand) interface{} { return shape.CheckZoom(int64(r.Intn(40) - 2)) }},
	{"shape.ConvertSpatialIdsToExtendedSpatialIds", false, func(p *Pool, r, k *rand.Rand) interface{} {
		g := p.reg(r)
		a, e := shape.ConvertSpatialIdsToExtendedSpatialIds(wids(r, p, g.SIDs, 8))
		return rs(a, errStr(e))
	}},
	{"shape.ConvertExtendedSpatialIdsToSpatialIds", false, func(p *Pool, r, k *rand.Rand) interface{} {
		g := p.reg(r)
		a, e := shape.ConvertExtendedSpatialIdsToSpatialIds(wids(r, p, g.EIDs2, 4))
		return rs(a, errStr(e))
	}},
	{"shape.ConvertSpatialIdsToExtendedSpatialIds/malformed", false, func(p *Pool, r, k *rand.Rand) interface{} {
		a, e := shape.ConvertSpatialIdsToExtendedSpatialIds(window(r, p.Malform, 3))
		return rs(a, errStr(e))
	}},
	// ---- integrate
	{"integrate.MergeSpatialIds", true, func(p *Pool, r, k *rand.Rand) interface{} {
		g := p.reg(r)
		a, e := integrate.MergeSpatialIds(wids(r, p, g.SIDs, 32), g.Z-1-int64(r.Intn(2)))
		return rs(a, errStr(e))
	}},
	{"integrate.MergeExtendedSpatialIds", true, func(p *Pool, r, k *rand.Rand) interface{} {
		g := p.reg(r)
		a, e := integrate.MergeExtendedSpatialIds(wids(r, p, g.EIDs, 32), g.Z-1-int64(r.Intn(2)), g.Z-int64(r.Intn(2)))
		return rs(a, errStr(e))
	}},
	{"integrate.ChangeSpatialIdsZoom", true, func(p *Pool, r, k *rand.Rand) interface{} {
		g := p.reg(r)
		a, e := integrate.ChangeSpatialIdsZoom(wids(r, p, g.SIDs2, 4), zoomNear(r, g.Z))
		return rs(a, errStr(e))
	}},
	{"integrate.ChangeExtendedSpatialIdsZoom", true, func(p *Pool, r, k *rand.Rand) interface{} {
		g := p.reg(r)
		a, e := integrate.ChangeExtendedSpatialIdsZoom(wids(r, p, g.EIDs2, 4), zoomNear(r, g.Z), zoomNear(r, g.Z))
		return rs(a, errStr(e))
	}},
	{"integrate.HorizontalZoom", false, func(p *Pool, r, k *rand.Rand) interface{} {
		g := p.reg(r)
		return integrate.HorizontalZoom(g.Z, g.X0+int64(r.Intn(4)), g.Y0+int64(r.Intn(4)), zoomNear(r, g.Z))
	}},
	{"integrate.HorizontalZoomMinMax", false, func(p *Pool, r, k *rand.Rand) interface{} {
		g := p.reg(r)
		a, b, c, d := integrate.HorizontalZoomMinMax(g.Z, g.X0+int64(r.Intn(4)), g.Y0+int64(r.Intn(4)), int64(r.Intn(30)))
		return rs(a, b, c, d)
	}},
	{"integrate.VerticalZoom", false, func(p *Pool, r, k *rand.Rand) interface{} {
		g := p.reg(r)
		return integrate.VerticalZoom(g.Z, int64(r.Intn(64)-32), zoomNear(r, g.Z))
	}},
	{"integrate.NewUnitDividedSpatialID", false, func(p *Pool, r, k *rand.Rand) interface{} {
		g := p.reg(r)
		return integrate.NewUnitDividedSpatialID(pick(r, g.ESIDs), int64(r.Intn(2)), int64(r.Intn(2)))
	}},
	// constructor-then-mutator chains on SHARED arguments: the shared object is only ever a constructor argument or a reader's receiver; the
	// mutators (Merge, Set*) are applied to the private result. A constructor that keeps a reference to its argument makes the mutator write the
	// shared object (NewHighSpatialID kept the unit's ID map until /repo 06056a1; NewUnitDividedSpatialID keeps the pointer to its argument).
	{"integrate.NewHighSpatialID(shared unit)", false, func(p *Pool, r, k *rand.Rand) interface{} {
		g := p.reg(r)
		return integrate.NewHighSpatialID(g.Unit, int64(r.Intn(2)), int64(r.Intn(2)))
	}},
	{"integrate.NewHighSpatialID(shared unit)+Merge on the result/chain", false, func(p *Pool, r, k *rand.Rand) interface{} {
		g := p.reg(r)
		h := integrate.NewHighSpatialID(g.Unit, 1, 1)
		h.Merge(g.High) // g.High, g.Unit: shared, only read by contract; h: private
		h2 := integrate.NewHighSpatialID(integrate.NewUnitDividedSpatialID(pick(r, g.ESIDs), 1, 1), 1, 1)
		h.Merge(h2)
		return rs(h.IsDense(), h.ID(), g.Unit.ID())
	}},
	{"integrate.NewHighSpatialID(shared unit).IsDense/chain", false, func(p *Pool, r, k *rand.Rand) interface{} {
		g := p.reg(r)
		return rs(integrate.NewHighSpatialID(g.Unit, 1, 1).IsDense(), integrate.NewHighSpatialID(g.Unit, 0, 0).IsDense(), g.High.IsDense(), g.High.ID(), g.Unit.ID())
	}},
	{"integrate.NewHighSpatialID(shared unit)+setters on the result/chain", false, func(p *Pool, r, k *rand.Rand) interface{} {
		g := p.reg(r)
		h := integrate.NewHighSpatialID(g.Unit, 1, 1)
		h.SetX(h.X() + int64(r.Intn(3)))
		h.SetZoom(h.HZoom(), h.VZoom())
		return rs(h.ID(), h.IsDense(), g.Unit.ID(), g.ESID.ID())
	}},
	{"integrate.NewUnitDividedSpatialID(shared ID)+setters on the result/chain", false, func(p *Pool, r, k *rand.Rand) interface{} {
		g := p.reg(r)
		s := pick(r, g.ESIDs)
		u := integrate.NewUnitDividedSpatialID(s, int64(r.Intn(2)), int64(r.Intn(2)))
		u.SetX(7 + int64(r.Intn(5))) // promoted setter on the private unit; s is shared
		u.SetZ(int64(r.Intn(5)))
		return rs(u.ID(), s.ID())
	}},
	{"integrate.NewUnitDividedSpatialID(shared ID)+NewHighSpatialID+Merge/chain", false, func(p *Pool, r, k *rand.Rand) interface{} {
		g := p.reg(r)
		a := integrate.NewHighSpatialID(integrate.NewUnitDividedSpatialID(g.ESID, 1, 1), 1, 1)
		b := integrate.NewHighSpatialID(integrate.NewUnitDividedSpatialID(pick(r, g.ESIDs), 1, 1), 1, 1)
		a.Merge(b)
		a.Merge(g.High)
		return rs(a.IsDense(), a.ID(), g.ESID.ID())
	}},
	{"integrate.HighSpatialID.Merge(shared aggregate with more unit IDs than the receiver)/chain", false, func(p *Pool, r, k *rand.Rand) interface{} {
		g := p.reg(r)
		h := integrate.NewHighSpatialID(integrate.NewUnitDividedSpatialID(g.Last, 0, 0), 1, 1) // private, 1 unit ID
		before := h.IsDense()
		h.Merge(g.Agg) // shared aggregate (7 unit IDs): only read by contract
		return rs(before, h.IsDense(), h.ID(), g.Agg.IsDense(), g.Agg.ID())
	}},
	{"integrate.HighSpatialID.IsDense", false, func(p *Pool, r, k *rand.Rand) interface{} {
		g := p.reg(r)
		return rs(g.High.IsDense(), g.High.ID(), g.Unit.ID(), g.Unit.X())
	}},
	// ---- operated
	{"operated.Get6spatialIdsAdjacentToFaces", false, func(p *Pool, r, k *rand.Rand) interface{} {
		g := p.reg(r)
		return operated.Get6spatialIdsAdjacentToFaces(pid(r, p, g.EIDs))
	}},
	{"operated.Get8spatialIdsAroundHorizontal", false, func(p *Pool, r, k *rand.Rand) interface{} {
		g := p.reg(r)
		return operated.Get8spatialIdsAroundHorizontal(pid(r, p, g.EIDs2))
	}},
	{"operated.Get26spatialIdsAroundVoxel", false, func(p *Pool, r, k *rand.Rand) interface{} {
		g := p.reg(r)
		return operated.Get26spatialIdsAroundVoxel(pid(r, p, g.EIDs))
	}},
	{"operated.GetNspatialIdsAroundVoxcels", true, func(p *Pool, r, k *rand.Rand) interface{} {
		g := p.reg(r)
		a, e := operated.GetNspatialIdsAroundVoxcels(wids(r, p, g.EIDs, 4), int64(r.Intn(3)), int64(r.Intn(2)))
		return rs(a, errStr(e))
	}},
	{"operated.GetShiftingSpatialID", false, func(p *Pool, r, k *rand.Rand) interface{} {
		g := p.reg(r)
		return operated.GetShiftingSpatialID(pid(r, p, g.EIDs2), int64(r.Intn(9)-4), int64(r.Intn(9)-4), int64(r.Intn(9)-4))
	}},
	// ---- operated at the edges of the grid and at mixed zooms (entries named .../edge, .../wrap, .../mixed are drawn more often, see Batch)
	{"operated.GetShiftingSpatialID/wrap", false, func(p *Pool, r, k *rand.Rand) interface{} {
		return operated.GetShiftingSpatialID(pick(r, p.Edge), int64(r.Intn(7)-3), int64(r.Intn(7)-3), int64(r.Intn(3)-1))
	}},
	{"operated.GetShiftingSpatialID/wrap-large", false, func(p *Pool, r, k *rand.Rand) interface{} {
		id := pick(r, p.Edge)
		var h int64
		fmt.Sscanf(id, "%d/", &h)
		wd := int64(1) << uint(h)
		return operated.GetShiftingSpatialID(id, wd*int64(r.Intn(5)-2)+int64(r.Intn(5)-2), -wd-int64(r.Intn(4)), int64(r.Intn(3)-1))
	}},
	{"operated.GetShiftingSpatialID/wrap-pair", false, func(p *Pool, r, k *rand.Rand) interface{} {
		a := operated.GetShiftingSpatialID(pick(r, p.Edge), -3, 3, 0)
		b := operated.GetShiftingSpatialID(pick(r, p.Edge), 2, -1, 1)
		return rs(a, b, operated.GetShiftingSpatialID(a, 3, -3, 0))
	}},
	{"operated.Get6spatialIdsAdjacentToFaces/edge", false, func(p *Pool, r, k *rand.Rand) interface{} {
		return operated.Get6spatialIdsAdjacentToFaces(pick(r, p.Edge))
	}},
	{"operated.Get8spatialIdsAroundHorizontal/edge", false, func(p *Pool, r, k *rand.Rand) interface{} {
		return operated.Get8spatialIdsAroundHorizontal(pick(r, p.Edge))
	}},
	{"operated.Get26spatialIdsAroundVoxel/edge", false, func(p *Pool, r, k *rand.Rand) interface{} {
		return operated.Get26spatialIdsAroundVoxel(pick(r, p.Edge))
	}},
	{"operated.GetNspatialIdsAroundVoxcels/edge", true, func(p *Pool, r, k *rand.Rand) interface{} {
		a, e := operated.GetNspatialIdsAroundVoxcels(window(r, p.Edge, 3), int64(r.Intn(3)), int64(r.Intn(2)))
		return rs(a, errStr(e))
	}},
	// ---- long lists (300..1200 IDs): internal work splitting, pooled buffers and algorithm switches sit behind size thresholds
	{"integrate.ChangeExtendedSpatialIdsZoom/long", true, func(p *Pool, r, k *rand.Rand) interface{} {
		g := p.reg(r)
		a, e := integrate.ChangeExtendedSpatialIdsZoom(longIDs(g, r, 300+r.Intn(900), false), g.Z+int64(k.Intn(2)), g.Z+int64(k.Intn(2)))
		return rs(a, errStr(e))
	}},
	{"integrate.ChangeSpatialIdsZoom/long", true, func(p *Pool, r, k *rand.Rand) interface{} {
		g := p.reg(r)
		a, e := integrate.ChangeSpatialIdsZoom(longIDs(g, r, 300+r.Intn(900), true), g.Z+int64(k.Intn(2)))
		return rs(a, errStr(e))
	}},
	{"integrate.MergeExtendedSpatialIds/long", true, func(p *Pool, r, k *rand.Rand) interface{} {
		g := p.reg(r)
		a, e := integrate.MergeExtendedSpatialIds(longIDs(g, r, 300+r.Intn(700), false), g.Z-1, g.Z-1)
		return rs(a, errStr(e))
	}},
	{"shape.ConvertSpatialIdsToExtendedSpatialIds/long", false, func(p *Pool, r, k *rand.Rand) interface{} {
		g := p.reg(r)
		a, e := shape.ConvertSpatialIdsToExtendedSpatialIds(longIDs(g, r, 300+r.Intn(900), true))
		return rs(a, errStr(e))
	}},
	{"detector.CheckExtendedSpatialIdsArrayOverlap/long", false, func(p *Pool, r, k *rand.Rand) interface{} {
		g := p.reg(r)
		l := longIDs(g, r, 300+r.Intn(300), false)
		b, e := detector.CheckExtendedSpatialIdsArrayOverlap(l[:len(l)/2], l[len(l)/2:])
		return rs(b, errStr(e))
	}},
	{"operated.GetNspatialIdsAroundVoxcels/long", true, func(p *Pool, r, k *rand.Rand) interface{} {
		g := p.reg(r)
		a, e := operated.GetNspatialIdsAroundVoxcels(longIDs(g, r, 300+r.Intn(300), false), int64(k.Intn(2)), int64(k.Intn(2)))
		return rs(a, errStr(e))
	}},
	// ---- other packages at mixed zooms
	{"integrate.ChangeExtendedSpatialIdsZoom/mixed", true, func(p *Pool, r, k *rand.Rand) interface{} {
		id := pick(r, p.Edge)
		var h, x, y, v int64
		fmt.Sscanf(id, "%d/%d/%d/%d/", &h, &x, &y, &v)
		clamp := func(z int64) int64 {
			if z < 0 {
				return 0
			}
			if z > 35 {
				return 35
			}
			return z
		}
		a, e := integrate.ChangeExtendedSpatialIdsZoom([]string{id}, clamp(h+int64(r.Intn(4)-2)), clamp(v+int64(r.Intn(4)-2)))
		return rs(a, errStr(e))
	}},
	{"integrate.ChangeSpatialIdsZoom/mixed", true, func(p *Pool, r, k *rand.Rand) interface{} {
		id := pick(r, p.EdgeS)
		var z int64
		fmt.Sscanf(id, "%d/", &z)
		t := z + int64(r.Intn(3)-1)
		if t < 0 {
			t = 0
		}
		if t > 35 {
			t = 35
		}
		a, e := integrate.ChangeSpatialIdsZoom([]string{id}, t)
		return rs(a, errStr(e))
	}},
	{"integrate.MergeExtendedSpatialIds/mixed", true, func(p *Pool, r, k *rand.Rand) interface{} {
		g := p.reg(r)
		// the 8 children of a voxel at a random zoom (computed by the library), merged back: zoom differences stay at 1 (larger ones explode)
		id := pick(r, p.Edge)
		var h, x, y, v int64
		fmt.Sscanf(id, "%d/%d/%d/%d/", &h, &x, &y, &v)
		if h > 33 || v > 33 {
			id, h, v = g.EIDs[1], g.Z, g.Z
		}
		kids, e0 := integrate.ChangeExtendedSpatialIdsZoom([]string{id}, h+1, v+1)
		if e0 != nil {
			return "error"
		}
		a, e := integrate.MergeExtendedSpatialIds(kids, h, v)
		return rs(a, errStr(e))
	}},
	{"detector.CheckExtendedSpatialIdsOverlap/mixed", false, func(p *Pool, r, k *rand.Rand) interface{} {
		a, e := detector.CheckExtendedSpatialIdsOverlap(pick(r, p.Edge), pick(r, p.Edge))
		return rs(a, errStr(e))
	}},
	{"detector.CheckExtendedSpatialIdsArrayOverlap/mixed", false, func(p *Pool, r, k *rand.Rand) interface{} {
		a, e := detector.CheckExtendedSpatialIdsArrayOverlap(window(r, p.Edge, 6), window(r, p.Edge, 6))
		return rs(a, errStr(e))
	}},
	{"detector.CheckSpatialIdsArrayOverlap/mixed", false, func(p *Pool, r, k *rand.Rand) interface{} {
		a, e := detector.CheckSpatialIdsArrayOverlap(window(r, p.EdgeS, 6), window(r, p.EdgeS, 6))
		return rs(a, errStr(e))
	}},
	{"shape.GetPointOnExtendedSpatialId/mixed", false, func(p *Pool, r, k *rand.Rand) interface{} {
		a, e := shape.GetPointOnExtendedSpatialId(pick(r, p.Edge), enum.PointOption(r.Intn(2)))
		return rs(a, errStr(e))
	}},
	{"shape.ConvertExtendedSpatialIdsToSpatialIds/mixed", false, func(p *Pool, r, k *rand.Rand) interface{} {
		g := p.reg(r)
		id := pick(r, p.Edge)
		var h, x, y, v int64
		fmt.Sscanf(id, "%d/%d/%d/%d/", &h, &x, &y, &v)
		if v-h > 6 || h-v > 3 {
			id = g.EIDs2[0]
		}
		a, e := shape.ConvertExtendedSpatialIdsToSpatialIds([]string{id})
		return rs(a, errStr(e))
	}},
	{"transform.GetVoxelIDfromSpatialID/mixed", false, func(p *Pool, r, k *rand.Rand) interface{} {
		return transform.GetVoxelIDfromSpatialID(pick(r, p.Edge))
	}},
	// ---- related calls: one function, the same key-like arguments (drawn from k: zoom, clearance, radius, option, EPSG code, layers, shift) and a
	// different latitude row (drawn from r). Batch emits these in groups that share k's seed.
	{"transform.FitClearanceAroundExtendedSpatialID/rows", false, func(p *Pool, r, k *rand.Rand) interface{} {
		zi := k.Intn(len(RowZooms))
		clearance := 40075016.0 / float64(int64(1)<<uint(RowZooms[zi])) * []float64{2, 5, 8.4}[k.Intn(3)] // about 10 m at zoom 25
		a, b, e := transform.FitClearanceAroundExtendedSpatialID(pick(r, p.Rows).EIDs[zi], clearance)
		return rs(a, b, errStr(e))
	}},
	{"transform.GetExtendedSpatialIdsWithinRadiusOfLine/rows", true, func(p *Pool, r, k *rand.Rand) interface{} {
		zi := k.Intn(len(RowZooms))
		radius := 40075016.0 / float64(int64(1)<<uint(RowZooms[zi])) * []float64{0.3, 0.8}[k.Intn(2)]
		skip := k.Intn(3) != 0
		row := pick(r, p.Rows)
		a, e := transform.GetExtendedSpatialIdsWithinRadiusOfLine(row.P, row.Q[zi], radius, RowZooms[zi], RowZooms[zi], skip)
		return rs(a, errStr(e))
	}},
	{"shape.GetPointOnExtendedSpatialId/rows", false, func(p *Pool, r, k *rand.Rand) interface{} {
		zi, opt := k.Intn(len(RowZooms)), enum.PointOption(k.Intn(2))
		a, e := shape.GetPointOnExtendedSpatialId(pick(r, p.Rows).EIDs[zi], opt)
		return rs(a, errStr(e))
	}},
	{"shape.GetPointOnSpatialId/rows", false, func(p *Pool, r, k *rand.Rand) interface{} {
		zi, opt := k.Intn(len(RowZooms)), enum.PointOption(k.Intn(2))
		a, e := shape.GetPointOnSpatialId(pick(r, p.Rows).SIDs[zi], opt)
		return rs(a, errStr(e))
	}},
	{"shape.GetExtendedSpatialIdsOnPoints/rows", false, func(p *Pool, r, k *rand.Rand) interface{} {
		hz, vz := int64(k.Intn(30)), int64(k.Intn(30))
		row := pick(r, p.Rows)
		a, e := shape.GetExtendedSpatialIdsOnPoints([]*object.Point{row.P, row.Q[r.Intn(len(row.Q))]}, hz, vz)
		return rs(a, errStr(e))
	}},
	{"shape.GetExtendedSpatialIdsOnLine/rows", true, func(p *Pool, r, k *rand.Rand) interface{} {
		zi := k.Intn(len(RowZooms))
		dz := int64(k.Intn(2))
		row := pick(r, p.Rows)
		a, e := shape.GetExtendedSpatialIdsOnLine(row.P, row.Q[zi], RowZooms[zi]-dz, RowZooms[zi])
		return rs(a, errStr(e))
	}},
	{"shape.ConvertPointListToProjectedPointList/rows", false, func(p *Pool, r, k *rand.Rand) interface{} {
		code := []int{3857, 3857, 32654, 2451}[k.Intn(4)]
		row := pick(r, p.Rows)
		a, e := shape.ConvertPointListToProjectedPointList([]*object.Point{row.P, row.Q[r.Intn(len(row.Q))]}, code)
		return rs(a, errStr(e))
	}},
	{"integrate.ChangeExtendedSpatialIdsZoom/rows", true, func(p *Pool, r, k *rand.Rand) interface{} {
		zi := k.Intn(len(RowZooms))
		hz, vz := RowZooms[zi]+int64(k.Intn(3)-1), RowZooms[zi]+int64(k.Intn(3)-1)
		a, e := integrate.ChangeExtendedSpatialIdsZoom([]string{pick(r, p.Rows).EIDs[zi]}, hz, vz)
		return rs(a, errStr(e))
	}},
	{"detector.CheckExtendedSpatialIdsOverlap/rows", false, func(p *Pool, r, k *rand.Rand) interface{} {
		zi, zj := k.Intn(len(RowZooms)), k.Intn(len(RowZooms))
		row := pick(r, p.Rows)
		a, e := detector.CheckExtendedSpatialIdsOverlap(row.EIDs[zi], row.EIDs[zj])
		b, e2 := detector.CheckExtendedSpatialIdsOverlap(row.EIDs[zi], pick(r, p.Rows).EIDs[zj])
		return rs(a, errStr(e), b, errStr(e2))
	}},
	{"operated.GetShiftingSpatialID/rows", false, func(p *Pool, r, k *rand.Rand) interface{} {
		zi, dx, dy, dv := k.Intn(len(RowZooms)), int64(k.Intn(9)-4), int64(k.Intn(9)-4), int64(k.Intn(5)-2)
		return operated.GetShiftingSpatialID(pick(r, p.Rows).EIDs[zi], dx, dy, dv)
	}},
	{"operated.GetNspatialIdsAroundVoxcels/rows", true, func(p *Pool, r, k *rand.Rand) interface{} {
		zi, hl, vl := k.Intn(len(RowZooms)), int64(k.Intn(3)), int64(k.Intn(2))
		a, e := operated.GetNspatialIdsAroundVoxcels([]string{pick(r, p.Rows).EIDs[zi]}, hl, vl)
		return rs(a, errStr(e))
	}},
	{"transform.ConvertExtendedSpatialIDsToQuadkeysAndAltitudekeys/rows", false, func(p *Pool, r, k *rand.Rand) interface{} {
		zi := k.Intn(len(RowZooms))
		off := int64(k.Intn(3) - 1)
		a, e := transform.ConvertExtendedSpatialIDsToQuadkeysAndAltitudekeys([]string{pick(r, p.Rows).EIDs[zi]}, RowZooms[zi], RowZooms[zi], 25, off)
		return rs(a, errStr(e))
	}},
	{"transform.ConvertExtendedSpatialIDsToQuadkeysAndVerticalIDs/rows", false, func(p *Pool, r, k *rand.Rand) interface{} {
		zi := 1 + k.Intn(len(RowZooms)-1)
		vz := int64(8 + k.Intn(3))
		hi, lo := []float64{500, 1000}[k.Intn(2)], []float64{0, -200}[k.Intn(2)]
		a, e := transform.ConvertExtendedSpatialIDsToQuadkeysAndVerticalIDs([]string{pick(r, p.Rows).EIDs[zi]}, RowZooms[zi], vz, hi, lo)
		return rs(a, errStr(e))
	}},
	// ---- boundary values shared by several entries of one mix (special-case code for lon = +-180, lat = +-85.0511287798, alt 0 / -0 / +-2^25):
	// the same shared points go to OnPoints, OnLine and the projection, so a write into one of them shows in the others and in the snapshot
	{"shape.GetExtendedSpatialIdsOnPoints/boundary", false, func(p *Pool, r, k *rand.Rand) interface{} {
		a, e := shape.GetExtendedSpatialIdsOnPoints(window(r, p.BPts, 6), int64(k.Intn(36)), int64(k.Intn(36)))
		return rs(a, errStr(e))
	}},
	{"shape.GetSpatialIdsOnPoints/boundary", false, func(p *Pool, r, k *rand.Rand) interface{} {
		a, e := shape.GetSpatialIdsOnPoints(window(r, p.BPts, 6), int64(k.Intn(36)))
		return rs(a, errStr(e))
	}},
	{"shape.ConvertPointListToProjectedPointList/boundary", false, func(p *Pool, r, k *rand.Rand) interface{} {
		a, e := shape.ConvertPointListToProjectedPointList(window(r, p.BPts, 6), 3857)
		return rs(a, errStr(e))
	}},
	{"shape.GetExtendedSpatialIdsOnLine/boundary", true, func(p *Pool, r, k *rand.Rand) interface{} {
		i := r.Intn(len(p.BPts))
		z := int64(17 + k.Intn(5))
		a, e := shape.GetExtendedSpatialIdsOnLine(p.BPts[i], p.BNear[i], z, z-int64(k.Intn(2)))
		return rs(a, errStr(e))
	}},
	{"shape.GetSpatialIdsOnLine/boundary", true, func(p *Pool, r, k *rand.Rand) interface{} {
		i := r.Intn(len(p.BPts))
		a, e := shape.GetSpatialIdsOnLine(p.BNear[i], p.BPts[i], int64(17+k.Intn(5)))
		return rs(a, errStr(e))
	}},
	{"object.Point getters/boundary", false, func(p *Pool, r, k *rand.Rand) interface{} {
		q := pick(r, p.BPts)
		return rs(q.Lon(), q.Lat(), q.Alt())
	}},
	// ---- detector
	{"detector.CheckSpatialIdsOverlap", false, func(p *Pool, r, k *rand.Rand) interface{} {
		g := p.reg(r)
		a, e := detector.CheckSpatialIdsOverlap(pid(r, p, g.SIDs2), pid(r, p, g.SIDs))
		return rs(a, errStr(e))
	}},
	{"detector.CheckSpatialIdsArrayOverlap", false, func(p *Pool, r, k *rand.Rand) interface{} {
		g := p.reg(r)
		a, e := detector.CheckSpatialIdsArrayOverlap(wids(r, p, g.SIDs2, 6), wids(r, p, g.SIDs, 10))
		return rs(a, errStr(e))
	}},
	{"detector.CheckExtendedSpatialIdsOverlap", false, func(p *Pool, r, k *rand.Rand) interface{} {
		g := p.reg(r)
		a, e := detector.CheckExtendedSpatialIdsOverlap(pid(r, p, g.EIDs2), pid(r, p, g.EIDs))
		return rs(a, errStr(e))
	}},
	{"detector.CheckExtendedSpatialIdsArrayOverlap", false, func(p *Pool, r, k *rand.Rand) interface{} {
		g := p.reg(r)
		a, e := detector.CheckExtendedSpatialIdsArrayOverlap(wids(r, p, g.EIDs2, 6), wids(r, p, g.EIDs, 10))
		return rs(a, errStr(e))
	}},
	// ---- transform
	{"transform.ConvertQuadkeysAndVerticalIDsToExtendedSpatialIDs", true, func(p *Pool, r, k *rand.Rand) interface{} {
		a, e := transform.ConvertQuadkeysAndVerticalIDsToExtendedSpatialIDs(window(r, p.QVs, 3), int64(6+r.Intn(3)), int64(5+r.Intn(3)))
		return rs(a, errStr(e))
	}},
	{"transform.ConvertQuadkeysAndVerticalIDsToSpatialIDs", true, func(p *Pool, r, k *rand.Rand) interface{} {
		a, e := transform.ConvertQuadkeysAndVerticalIDsToSpatialIDs(window(r, p.QVs, 3), int64(6+r.Intn(3)))
		return rs(a, errStr(e))
	}},
	{"transform.ConvertExtendedSpatialIDsToQuadkeysAndVerticalIDs", false, func(p *Pool, r, k *rand.Rand) interface{} {
		g := p.reg(r)
		a, e := transform.ConvertExtendedSpatialIDsToQuadkeysAndVerticalIDs(wids(r, p, g.EIDs, 3), g.Z-1+int64(r.Intn(3)), int64(5+r.Intn(4)), []float64{500, 1000, 250}[r.Intn(3)], []float64{0, -1000, 50}[r.Intn(3)])
		return rs(a, errStr(e))
	}},
	{"transform.ConvertSpatialIDsToQuadkeysAndVerticalIDs", false, func(p *Pool, r, k *rand.Rand) interface{} {
		g := p.reg(r)
		a, e := transform.ConvertSpatialIDsToQuadkeysAndVerticalIDs(wids(r, p, g.SIDs, 3), g.Z-1+int64(r.Intn(3)), int64(5+r.Intn(4)), []float64{500, 1000, 250}[r.Intn(3)], []float64{0, -1000, 50}[r.Intn(3)])
		return rs(a, errStr(e))
	}},
	{"transform.ConvertExtendedSpatialIDsToQuadkeysAndAltitudekeys", false, func(p *Pool, r, k *rand.Rand) interface{} {
		g := p.reg(r)
		a, e := transform.ConvertExtendedSpatialIDsToQuadkeysAndAltitudekeys(wids(r, p, g.EIDs, 3), g.Z-1+int64(r.Intn(3)), g.Z-1+int64(r.Intn(3)), 25, int64(r.Intn(3)-1))
		return rs(a, errStr(e))
	}},
	{"transform.ConvertExtendedSpatialIDToSpatialIDs", false, func(p *Pool, r, k *rand.Rand) interface{} {
		g := p.reg(r)
		return transform.ConvertExtendedSpatialIDToSpatialIDs(pick(r, g.ESIDs))
	}},
	{"transform.ConvertTileXYZsToExtendedSpatialIDs", true, func(p *Pool, r, k *rand.Rand) interface{} {
		ts, hz := tileRun(p, r)
		a, e := transform.ConvertTileXYZsToExtendedSpatialIDs(ts, int64(24+r.Intn(2)), int64(r.Intn(3)-1), hz+int64(r.Intn(3)))
		return rs(a, errStr(e))
	}},
	{"transform.ConvertTileXYZsToSpatialIDs", true, func(p *Pool, r, k *rand.Rand) interface{} {
		ts, hz := tileRun(p, r)
		a, e := transform.ConvertTileXYZsToSpatialIDs(ts, int64(24+r.Intn(2)), int64(r.Intn(3)-1), hz+int64(r.Intn(2)))
		return rs(a, errStr(e))
	}},
	{"transform.ConvertAltitudekeyToMinMaxZ", false, func(p *Pool, r, k *rand.Rand) interface{} {
		a, b, e := transform.ConvertAltitudekeyToMinMaxZ(int64(r.Intn(1000)), int64(20+r.Intn(6)), int64(20+r.Intn(6)), 25, int64(r.Intn(5)-2))
		return rs(a, b, errStr(e))
	}},
	{"transform.ConvertZToMinMaxAltitudekey", false, func(p *Pool, r, k *rand.Rand) interface{} {
		a, b, e := transform.ConvertZToMinMaxAltitudekey(int64(r.Intn(1000)), int64(20+r.Intn(6)), int64(20+r.Intn(6)), 25, int64(r.Intn(5)-2))
		return rs(a, b, errStr(e))
	}},
	{"transform.GetExtendedSpatialIdsWithinRadiusOfLine", true, func(p *Pool, r, k *rand.Rand) interface{} {
		g := p.reg(r)
		a, e := transform.GetExtendedSpatialIdsWithinRadiusOfLine(g.PA, g.PB, g.Vox*2*(0.2+0.5*r.Float64()), g.Z-1, g.Z-1-int64(r.Intn(2)), r.Intn(2) == 0)
		return rs(a, errStr(e))
	}},
	{"transform.FitClearanceAroundExtendedSpatialID", false, func(p *Pool, r, k *rand.Rand) interface{} {
		g := p.reg(r)
		a, b, e := transform.FitClearanceAroundExtendedSpatialID(pid(r, p, g.EIDs), g.Vox*(0.3+1.5*r.Float64()))
		return rs(a, b, errStr(e))
	}},
	{"transform.GetVoxelIDfromSpatialID", false, func(p *Pool, r, k *rand.Rand) interface{} {
		g := p.reg(r)
		return transform.GetVoxelIDfromSpatialID(pid(r, p, g.EIDs2))
	}},
	// ---- common
	{"common.AlmostEqual", false, func(p *Pool, r, k *rand.Rand) interface{} {
		return common.AlmostEqual(pick(r, p.Floats), pick(r, p.Floats), 50)
	}},
	{"common.Max/Min", false, func(p *Pool, r, k *rand.Rand) interface{} {
		a, e1 := common.Max(window(r, p.Ints, 10))
		b, e2 := common.Min(window(r, p.Floats, 10))
		return rs(a, errStr(e1), b, errStr(e2))
	}},
	{"common.DegreeToRadian/RadianToDegree", false, func(p *Pool, r, k *rand.Rand) interface{} {
		return rs(common.DegreeToRadian(pick(r, p.Floats)), common.RadianToDegree(pick(r, p.Floats)))
	}},
	{"common.Union", true, func(p *Pool, r, k *rand.Rand) interface{} {
		return common.Union(window(r, p.Ints, 12), window(r, p.Ints2, 12))
	}},
	{"common.Difference", false, func(p *Pool, r, k *rand.Rand) interface{} {
		g := p.reg(r)
		return common.Difference(wids(r, p, g.SIDs, 12), wids(r, p, g.SIDs, 12))
	}},
	{"common.Intersect", false, func(p *Pool, r, k *rand.Rand) interface{} {
		return common.Intersect(window(r, p.Ints, 12), window(r, p.Ints2, 12))
	}},
	{"common.Unique", true, func(p *Pool, r, k *rand.Rand) interface{} {
		g := p.reg(r)
		return common.Unique(wids(r, p, g.SIDs, 16))
	}},
	{"common.Include", false, func(p *Pool, r, k *rand.Rand) interface{} {
		return common.Include(window(r, p.Ints, 12), pick(r, p.Ints2))
	}},
	{"common.Combinations", false, func(p *Pool, r, k *rand.Rand) interface{} {
		var out [][]int64
		common.Combinations(int64(3+r.Intn(4)), int64(1+r.Intn(3)), func(c []int64) { out = append(out, append([]int64{}, c...)) })
		return out
	}},
	{"common.CalculateArithmeticShift", false, func(p *Pool, r, k *rand.Rand) interface{} {
		return common.CalculateArithmeticShift(pick(r, p.Ints), int64(r.Intn(11)-5))
	}},
	// ---- common/errors
	{"errors.NewSpatialIdError", false, func(p *Pool, r, k *rand.Rand) interface{} {
		e1 := sperr.NewSpatialIdError(sperr.InputValueErrorCode, pick(r, p.Malform))
		e2 := sperr.NewSpatialIdError(sperr.OtherErrorCode, "x")
		e3 := sperr.NewSpatialIdError(sperr.OptionFailedErrorCode, "")
		e4 := sperr.NewSpatialIdError(sperr.ValueConvertErrorCode, "y")
		return rs(e1.Error(), e2.Error(), e3.Error(), e4.Error())
	}},
	// ---- common/object: getters on shared objects, constructors, setters on private objects
	{"object.Point getters", false, func(p *Pool, r, k *rand.Rand) interface{} {
		g := p.reg(r)
		q := pick(r, g.Points)
		return rs(q.Lon(), q.Lat(), q.Alt(), g.PA.Lon(), g.PB.Alt())
	}},
	{"object.NewPoint+setters/private", false, func(p *Pool, r, k *rand.Rand) interface{} {
		g := p.reg(r)
		src := pick(r, g.Points)
		q, e := object.NewPoint(src.Lon(), src.Lat(), src.Alt())
		if e != nil {
			return "error"
		}
		e1 := q.SetLon(g.PA.Lon() + r.Float64())
		e2 := q.SetLat(95 * r.Float64())
		q.SetAlt(pick(r, p.Floats))
		return rs(q, errStr(e1), errStr(e2))
	}},
	{"object.ExtendedSpatialID getters", false, func(p *Pool, r, k *rand.Rand) interface{} {
		g := p.reg(r)
		s := pick(r, g.ESIDs)
		return rs(s.X(), s.Y(), s.Z(), s.HZoom(), s.VZoom(), s.ID(), s.FieldParams(), g.ESIDv.ID(), g.ESIDv.X(), g.ESID.ID())
	}},
	{"object.ExtendedSpatialID.Higher", false, func(p *Pool, r, k *rand.Rand) interface{} {
		g := p.reg(r)
		return rs(pick(r, g.ESIDs).Higher(int64(r.Intn(3)), int64(r.Intn(3))), g.ESIDv.Higher(1, int64(r.Intn(2))))
	}},
	{"object.NewExtendedSpatialID+setters/private", false, func(p *Pool, r, k *rand.Rand) interface{} {
		g := p.reg(r)
		s, e := object.NewExtendedSpatialID(pid(r, p, g.EIDs2))
		if e != nil {
			return "error"
		}
		s.SetX(s.X() + int64(r.Intn(3)))
		s.SetY(g.ESID.Y())
		s.SetZ(int64(r.Intn(5)))
		s.SetZoom(s.HZoom()+1, s.VZoom())
		e2 := s.ResetExtendedSpatialID(pick(r, p.Malform))
		return rs(s, errStr(e2))
	}},
	{"object.QuadkeyAndVerticalID getters", false, func(p *Pool, r, k *rand.Rand) interface{} {
		q := pick(r, p.QVs)
		return rs(q.QuadkeyZoom(), q.Quadkey(), q.VZoom(), q.VIndex(), q.MaxHeight(), q.MinHeight())
	}},
	{"object.NewQuadkeyAndVerticalID+setters/private", false, func(p *Pool, r, k *rand.Rand) interface{} {
		s := pick(r, p.QVs)
		q := object.NewQuadkeyAndVerticalID(s.QuadkeyZoom(), s.Quadkey(), s.VZoom(), s.VIndex(), s.MaxHeight(), s.MinHeight())
		q.SetQuadkeyZoom(int64(r.Intn(20)))
		q.SetQuadkey(int64(r.Intn(5000)))
		q.SetVZoom(int64(r.Intn(20)))
		q.SetVIndex(int64(r.Intn(50)))
		q.SetMaxHeight(pick(r, p.Floats))
		q.SetMinHeight(pick(r, p.Floats))
		return q
	}},
	{"object.TileXYZ getters", false, func(p *Pool, r, k *rand.Rand) interface{} {
		t := pick(r, p.Tiles)
		return rs(t.HZoom(), t.X(), t.Y(), t.VZoom(), t.Z())
	}},
	{"object.NewTileXYZ+setters/private", false, func(p *Pool, r, k *rand.Rand) interface{} {
		s := pick(r, p.Tiles)
		t, e := object.NewTileXYZ(s.HZoom(), s.X(), s.Y(), s.VZoom(), s.Z())
		if e != nil {
			return "error"
		}
		e1 := t.SetHZoom(int64(r.Intn(40) - 2))
		t.SetX(int64(r.Intn(100)))
		t.SetY(int64(r.Intn(100)))
		e2 := t.SetVZoom(int64(r.Intn(40) - 2))
		t.SetZ(int64(r.Intn(9) - 4))
		return rs(t, errStr(e1), errStr(e2))
	}},
	{"object.FromExtendedSpatialIDToQuadkeyAndVerticalID getters", false, func(p *Pool, r, k *rand.Rand) interface{} {
		return rs(p.FQV.QuadkeyZoom(), p.FQV.InnerIDList(), p.FQV.VerticalZoom(), p.FQV.MaxHeight(), p.FQV.MinHeight())
	}},
	{"object.NewFromExtendedSpatialIDToQuadkeyAndVerticalID+setters/private", false, func(p *Pool, r, k *rand.Rand) interface{} {
		q := object.NewFromExtendedSpatialIDToQuadkeyAndVerticalID(int64(r.Intn(30)), window(r, p.Inner, 3), int64(r.Intn(30)), 500, 0)
		q.SetQuadkeyZoom(int64(r.Intn(30)))
		q.SetInnerIDList(window(r, p.Inner, 4))
		q.SetVerticalZoom(int64(r.Intn(30)))
		q.SetMaxHeight(pick(r, p.Floats))
		q.SetMinHeight(pick(r, p.Floats))
		return q
	}},
	{"object.FromExtendedSpatialIDToQuadkeyAndAltitudekey getters", false, func(p *Pool, r, k *rand.Rand) interface{} {
		return rs(p.FQA.QuadkeyZoom(), p.FQA.InnerIDList(), p.FQA.AltitudekeyZoom(), p.FQA.ZBaseExponent(), p.FQA.ZBaseOffset())
	}},
	{"object.NewFromExtendedSpatialIDToQuadkeyAndAltitudekey+setters/private", false, func(p *Pool, r, k *rand.Rand) interface{} {
		q := object.NewFromExtendedSpatialIDToQuadkeyAndAltitudekey(int64(r.Intn(30)), window(r, p.Inner, 3), int64(r.Intn(30)), 25, 0)
		q.SetQuadkeyZoom(int64(r.Intn(30)))
		q.SetInnerIDList(window(r, p.Inner, 4))
		q.SetAltitudekeyZoom(int64(r.Intn(30)))
		q.SetZBaseExponent(int64(r.Intn(30)))
		q.SetZBaseOffset(int64(r.Intn(5)))
		return q
	}},
	// ---- common/spatial
	{"spatial.Line3", false, func(p *Pool, r, k *rand.Rand) interface{} {
		l := spatial.NewLineFromPoints(*pick(r, p.P3s), *pick(r, p.P3s))
		return rs(l, l.ToPoint(r.Float64()), l.Start(), l.End())
	}},
	{"spatial.Matrix3", false, func(p *Pool, r, k *rand.Rand) interface{} {
		f := window(r, p.Floats, 9)
		for len(f) < 9 {
			f = p.Floats[:9]
		}
		m := spatial.NewMatrix3(f[0], f[1], f[2], f[3], f[4], f[5], f[6], f[7], f[8])
		u := spatial.NewUnitMatrix3()
		return rs(m.Mul(u), u.Mul(m).Mul(m), m.MulVec(pick(r, p.Vecs)))
	}},
	{"spatial.MaxPoint/MinPoint", false, func(p *Pool, r, k *rand.Rand) interface{} {
		a, e1 := spatial.MaxPoint(window(r, p.P3s, 8), pick(r, p.Vecs))
		b, e2 := spatial.MinPoint(window(r, p.P3s, 8), pick(r, p.Vecs))
		return rs(a, errStr(e1), b, errStr(e2))
	}},
	{"spatial.UniqueAppend/private slice", false, func(p *Pool, r, k *rand.Rand) interface{} {
		own := append([]*spatial.Point3{}, window(r, p.P3s, 5)...) // the slice is private (append-like contract); the points are shared
		return spatial.UniqueAppend(own, pick(r, p.P3s), 0.5)
	}},
	{"spatial.Point3 methods", false, func(p *Pool, r, k *rand.Rand) interface{} {
		a, b := pick(r, p.P3s), pick(r, p.P3s)
		return rs(a.IsClose(*b, 3), a.Translate(pick(r, p.Vecs)), a.DistancePoint(*b))
	}},
	{"spatial.Quat", false, func(p *Pool, r, k *rand.Rand) interface{} {
		return rs(spatial.RotateBetweenVector(pick(r, p.Vecs), pick(r, p.Vecs)), spatial.QuatFromAxisAngle(pick(r, p.Vecs), r.Float64()*3))
	}},
	{"spatial.Vector3 methods", false, func(p *Pool, r, k *rand.Rand) interface{} {
		a, b := pick(r, p.Vecs), pick(r, p.Vecs)
		return rs(spatial.NewVectorFromPoints(*pick(r, p.P3s), *pick(r, p.P3s)), a.Add(b), a.Sub(b), a.Scale(r.Float64()), a.Dot(b), a.Cross(b),
			a.Norm(), a.L1Norm(), a.Unit(), a.Cos(b))
	}},
}

// Inst: one call instance of a batch.
type Inst struct {
	Idx  int   `json:"index"`
	Seed int64 `json:"arg_seed"`
	Key  int64 `json:"key_seed"` // seed of the key-like arguments; related instances share it
}

// RunInst runs one call instance against the pool; panics become part of the result.
func RunInst(p *Pool, in Inst) (res string) { return RunInstAs(p, in, Catalogue[in.Idx].Unordered) }

// RunInstAs: the same with the rendering chosen by the caller (vrace -detcheck measures which entries are set-valued).
func RunInstAs(p *Pool, in Inst, unordered bool) (res string) {
	c := Catalogue[in.Idx]
	defer func() {
		if e := recover(); e != nil {
			res = "panic: " + fmt.Sprint(e)
		}
	}()
	return Canon(c.Run(p, rand.New(rand.NewSource(in.Seed)), rand.New(rand.NewSource(in.Key))), unordered)
}

// weight of a catalogue entry in a batch: calls at the edges of the grid / at mixed zooms are drawn more often (state that depends on the zoom
// of the previous call, e.g. a one-entry cache of 2^zoom used only when a shift wraps around, is exposed only by such calls at different zooms)
func weight(name string) int {
	switch {
	case strings.Contains(name, "/wrap"):
		return 8
	case strings.HasSuffix(name, "/chain"), strings.HasSuffix(name, "/rows"), strings.HasSuffix(name, "/boundary"):
		return 3
	case strings.HasSuffix(name, "/edge"):
		return 4
	case strings.HasSuffix(name, "/mixed"):
		return 2
	}
	return 1
}

// built by a variable initialiser (not an init function): the fresh-process child starts from an init function of this package
var weighted, focusEdge, focusRows = buildWeights()

func buildWeights() (weighted, focusEdge, focusRows []int) {
	for i, c := range Catalogue {
		for k := 0; k < weight(c.Name); k++ {
			weighted = append(weighted, i)
		}
		if weight(c.Name) >= 4 {
			focusEdge = append(focusEdge, i)
		}
		if strings.HasSuffix(c.Name, "/rows") {
			focusRows = append(focusRows, i)
		}
	}
	return
}

// Batch: the first n instances of a seeded stream (a shorter batch is a prefix of a longer one with the same seed, so shrinking the batch size
// keeps the calls). focus 0: drawn by weight; for one seed in three the stream starts with every catalogue entry once, in random order;
// focus 1: only the calls at the edges of the grid (wrapping shifts and neighbourhoods at mixed zooms);
// focus 2: only groups of related calls (the /rows entries). In every focus a /rows entry comes as a group of 3..6 instances that share the seed of
// their key-like arguments and differ in the rest; a repeated plain entry shares its key seed with the earlier instance every other time.
func Batch(r *rand.Rand, n int, focus int) []Inst {
	out := make([]Inst, 0, n)
	perm := r.Perm(len(Catalogue))
	all := r.Intn(3) == 0
	np := 0
	isRows := map[int]bool{}
	for _, i := range focusRows {
		isRows[i] = true
	}
	group, groupIdx, groupKey := 0, 0, int64(0)
	for i := 0; i < n; i++ {
		if group > 0 {
			group--
			out = append(out, Inst{Idx: groupIdx, Seed: r.Int63(), Key: groupKey})
			continue
		}
		var idx int
		switch {
		case focus == 1:
			idx = focusEdge[r.Intn(len(focusEdge))]
		case focus == 2:
			idx = focusRows[r.Intn(len(focusRows))]
		case all && np < len(perm):
			idx = perm[np]
			np++
		default:
			idx = weighted[r.Intn(len(weighted))]
		}
		key := r.Int63()
		// the same function again with other arguments: different calls of one function overlap (state keyed on an argument shows)
		if focus == 0 && i > 0 && r.Intn(4) == 0 {
			prev := out[r.Intn(i)]
			idx = prev.Idx
			if r.Intn(2) == 0 {
				key = prev.Key
			}
		}
		if isRows[idx] {
			group, groupIdx, groupKey = 2+r.Intn(4), idx, key
		}
		out = append(out, Inst{Idx: idx, Seed: r.Int63(), Key: key})
	}
	return out
}

// Names of the catalogue (sorted), for the evidence.
func Names() []string {
	var ns []string
	for _, c := range Catalogue {
		ns = append(ns, c.Name)
	}
	sort.Strings(ns)
	return ns
}
