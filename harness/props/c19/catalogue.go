// Package c19: concurrent use of the whole exported API on shared read-only arguments (property C19).
//
// catalogue.go — a pool of shared argument slices and objects, and one cheap valid call for every exported function and method of every
// package (shape, integrate, operated, detector, transform, common, common/object, common/spatial, common/errors). A call instance is
// (catalogue index, argument seed); its arguments are a deterministic function of the pool and the seed, so the same instance can be run
// alone and inside any concurrent mix. Documented mutators (Set*/Reset*, (*HighSpatialID).Merge, spatial.UniqueAppend) are applied to objects
// private to the call; everything else receives windows of the shared slices (with spare capacity behind them) and the shared objects.
package c19

import (
	"fmt"
	"math/rand"
	"sort"
	"strings"

	"github.com/trajectoryjp/spatial_id_go/v4/common"
	"github.com/trajectoryjp/spatial_id_go/v4/common/enum"
	sperr "github.com/trajectoryjp/spatial_id_go/v4/common/errors"
	"github.com/trajectoryjp/spatial_id_go/v4/common/object"
	"github.com/trajectoryjp/spatial_id_go/v4/common/spatial"
	"github.com/trajectoryjp/spatial_id_go/v4/detector"
	"github.com/trajectoryjp/spatial_id_go/v4/integrate"
	"github.com/trajectoryjp/spatial_id_go/v4/operated"
	"github.com/trajectoryjp/spatial_id_go/v4/shape"
	"github.com/trajectoryjp/spatial_id_go/v4/transform"
)

// Pool: the arguments shared by all goroutines. Nothing in it may change while calls run.
type Pool struct {
	SIDs    []string // spatial IDs z/f/x/y, a 4x4x2 cluster at zoom 20, shuffled (unsorted on purpose)
	SIDs2   []string // an overlapping cluster at zoom 19..21
	EIDs    []string // extended IDs h/x/y/v/f, same region
	EIDs2   []string
	Points  []*object.Point
	PA, PB  *object.Point
	Proj    []*object.ProjectedPoint
	ESID    *object.ExtendedSpatialID
	ESIDs   []*object.ExtendedSpatialID
	ESIDv   object.ExtendedSpatialID
	QVs     []*object.QuadkeyAndVerticalID
	Tiles   []*object.TileXYZ
	FQV     *object.FromExtendedSpatialIDToQuadkeyAndVerticalID
	FQA     *object.FromExtendedSpatialIDToQuadkeyAndAltitudekey
	P3s     []*spatial.Point3
	Vecs    []spatial.Vector3
	Ints    []int64
	Ints2   []int64
	Floats  []float64
	Unit    *integrate.UnitDividedSpatialID
	High    *integrate.HighSpatialID
	X0, Y0  int64
	Inner   [][2]int64
	Malform []string
	Edge    []string // extended IDs on the edges of the grid (x, y in {0, 2^h-1, 2^h/2}) at mixed zooms 0..35: any shift wraps around
	EdgeS   []string // the same voxels with h = v, in spatial-ID notation
}

const baseZoom = 20

func must(err error) {
	if err != nil {
		panic("harness: c19 pool: " + err.Error())
	}
}

func spare[T any](s []T, extra int) []T {
	r := make([]T, len(s), len(s)+extra)
	copy(r, s)
	return r
}

// NewPool builds the shared arguments from a seed (sequentially, before any concurrent call).
func NewPool(seed int64) *Pool {
	r := rand.New(rand.NewSource(seed))
	p := &Pool{}
	lon0, lat0 := 139.70+r.Float64()*0.1, 35.60+r.Float64()*0.1
	for i := 0; i < 12; i++ {
		pt, err := object.NewPoint(lon0+r.Float64()*0.0008, lat0+r.Float64()*0.0008, r.Float64()*60-10)
		must(err)
		p.Points = append(p.Points, pt)
	}
	p.Points = spare(p.Points, 4)
	var err error
	p.PA, err = object.NewPoint(lon0, lat0, 3)
	must(err)
	p.PB, err = object.NewPoint(lon0+0.0004+r.Float64()*0.0004, lat0+0.0003+r.Float64()*0.0003, 3+r.Float64()*40)
	must(err)
	ids, err := shape.GetExtendedSpatialIdsOnPoints([]*object.Point{p.PA}, baseZoom, baseZoom)
	must(err)
	var h, x0, y0, v, f0 int64
	if _, e := fmt.Sscanf(ids[0], "%d/%d/%d/%d/%d", &h, &x0, &y0, &v, &f0); e != nil {
		panic("harness: c19 pool: " + e.Error())
	}
	x0 &^= 3
	y0 &^= 3
	p.X0, p.Y0 = x0, y0
	for dx := int64(0); dx < 4; dx++ {
		for dy := int64(0); dy < 4; dy++ {
			for f := int64(0); f < 2; f++ {
				p.SIDs = append(p.SIDs, fmt.Sprintf("%d/%d/%d/%d", baseZoom, f, x0+dx, y0+dy))
				p.EIDs = append(p.EIDs, fmt.Sprintf("%d/%d/%d/%d/%d", baseZoom, x0+dx, y0+dy, baseZoom, f))
			}
		}
	}
	for i := 0; i < 10; i++ {
		z := int64(baseZoom - 1 + r.Intn(3))
		sh := uint(z - (baseZoom - 1))
		x, y := (x0>>1)<<sh+int64(r.Intn(2<<sh)), (y0>>1)<<sh+int64(r.Intn(2<<sh))
		p.SIDs2 = append(p.SIDs2, fmt.Sprintf("%d/%d/%d/%d", z, r.Intn(3)-1, x, y))
		vz := int64(baseZoom - 1 + r.Intn(3))
		p.EIDs2 = append(p.EIDs2, fmt.Sprintf("%d/%d/%d/%d/%d", z, x, y, vz, r.Intn(4)-2))
	}
	r.Shuffle(len(p.SIDs), func(i, j int) { p.SIDs[i], p.SIDs[j] = p.SIDs[j], p.SIDs[i] })
	r.Shuffle(len(p.EIDs), func(i, j int) { p.EIDs[i], p.EIDs[j] = p.EIDs[j], p.EIDs[i] })
	p.SIDs, p.EIDs, p.SIDs2, p.EIDs2 = spare(p.SIDs, 6), spare(p.EIDs, 6), spare(p.SIDs2, 3), spare(p.EIDs2, 3)
	p.Proj, err = shape.ConvertPointListToProjectedPointList(p.Points, 3857)
	must(err)
	p.Proj = spare(p.Proj, 4)
	p.ESID, err = object.NewExtendedSpatialID(p.EIDs[0])
	must(err)
	for _, s := range append(append([]string{}, p.EIDs[:4]...), p.EIDs2[:4]...) {
		e, err := object.NewExtendedSpatialID(s)
		must(err)
		p.ESIDs = append(p.ESIDs, e)
	}
	p.ESIDs = spare(p.ESIDs, 2)
	ev, err := object.NewExtendedSpatialID(p.EIDs2[0])
	must(err)
	p.ESIDv = *ev
	p.QVs = []*object.QuadkeyAndVerticalID{
		object.NewQuadkeyAndVerticalID(6, 2914, 7, 74, 500, 0),
		object.NewQuadkeyAndVerticalID(6, 2882, 25, 0, 0, 0),
		object.NewQuadkeyAndVerticalID(9, 451739, 25, 0, 0, 0),
		object.NewQuadkeyAndVerticalID(6, 2882+int64(r.Intn(20)), 7, int64(r.Intn(100)), 500, 0),
		object.NewQuadkeyAndVerticalID(8, 40000+int64(r.Intn(2000)), 6, int64(r.Intn(60)), 800, -200),
	}
	p.QVs = spare(p.QVs, 3)
	for i := int64(0); i < 6; i++ {
		t, err := object.NewTileXYZ(22, 85263+i%3, 65423+i/3, 23, i-2)
		must(err)
		p.Tiles = append(p.Tiles, t)
	}
	p.Tiles = spare(p.Tiles, 3)
	p.Inner = spare([][2]int64{{29728048124, 58}, {29728048124, 57}, {29728048125, 58}, {29728048125, 57}}, 2)
	p.FQV = object.NewFromExtendedSpatialIDToQuadkeyAndVerticalID(21, p.Inner, 10, 500, 0)
	p.FQA = object.NewFromExtendedSpatialIDToQuadkeyAndAltitudekey(21, p.Inner, 26, 25, 0)
	for i := 0; i < 10; i++ {
		p.P3s = append(p.P3s, &spatial.Point3{X: r.Float64()*20 - 10, Y: r.Float64()*20 - 10, Z: r.Float64()*20 - 10})
		p.Vecs = append(p.Vecs, spatial.Vector3{X: r.Float64()*4 - 2, Y: r.Float64()*4 - 2, Z: r.Float64()*4 - 2 + 0.1})
	}
	p.P3s, p.Vecs = spare(p.P3s, 4), spare(p.Vecs, 4)
	for i := 0; i < 24; i++ {
		p.Ints = append(p.Ints, int64(r.Intn(40)-20))
		p.Ints2 = append(p.Ints2, int64(r.Intn(40)-20))
		p.Floats = append(p.Floats, r.Float64()*200-100)
	}
	p.Ints, p.Ints2, p.Floats = spare(p.Ints, 8), spare(p.Ints2, 8), spare(p.Floats, 8)
	p.Unit = integrate.NewUnitDividedSpatialID(p.ESID, 1, 1)
	p.High = integrate.NewHighSpatialID(integrate.NewUnitDividedSpatialID(p.ESIDs[1], 1, 1), 1, 1)
	p.Malform = spare([]string{"", "1/2", "a/0/0/0/0", "20/1/1/20", "1/0/0/1/0/7", "1/0/0/1/x"}, 2)
	for _, z := range []int64{0, 1, 2, 3, 5, 8, 10, 13, 15, 18, 20, 22, 25, 28, 30, 33, 35} {
		wd := int64(1) << uint(z)
		for _, x := range []int64{0, wd - 1, wd / 2} {
			for _, y := range []int64{0, wd - 1} {
				vz := z
				if r.Intn(3) == 0 {
					vz = int64(r.Intn(30))
				}
				f := []int64{-1, 0, 5, -(int64(1) << uint(vz)), int64(1)<<uint(vz) - 1}[r.Intn(5)]
				p.Edge = append(p.Edge, fmt.Sprintf("%d/%d/%d/%d/%d", z, x, y, vz, f))
				p.EdgeS = append(p.EdgeS, fmt.Sprintf("%d/%d/%d/%d", z, f, x, y))
			}
		}
	}
	p.Edge = append(p.Edge, "20/0/1048575/20/5", "1/0/1/1/0", "3/7/0/3/-1", "10/1023/1023/10/0", "25/0/33554431/25/1")
	r.Shuffle(len(p.Edge), func(i, j int) { p.Edge[i], p.Edge[j] = p.Edge[j], p.Edge[i] })
	r.Shuffle(len(p.EdgeS), func(i, j int) { p.EdgeS[i], p.EdgeS[j] = p.EdgeS[j], p.EdgeS[i] })
	p.Edge, p.EdgeS = spare(p.Edge, 5), spare(p.EdgeS, 5)
	return p
}

// Snapshot renders the whole pool (through every pointer), for the byte comparison "the shared inputs are unmodified".
// Windows handed to the calls keep spare capacity behind them, so the rendering covers the full capacity of every slice.
func (p *Pool) Snapshot() string {
	full := func(s []string) []string { return s[:cap(s)] }
	return Canon([]interface{}{full(p.SIDs), full(p.SIDs2), full(p.EIDs), full(p.EIDs2), p.Points[:cap(p.Points)], p.PA, p.PB, p.Proj[:cap(p.Proj)], p.ESID,
		p.ESIDs[:cap(p.ESIDs)], p.ESIDv, p.QVs[:cap(p.QVs)], p.Tiles[:cap(p.Tiles)], p.FQV, p.FQA, p.P3s[:cap(p.P3s)], p.Vecs[:cap(p.Vecs)],
		p.Ints[:cap(p.Ints)], p.Ints2[:cap(p.Ints2)], p.Floats[:cap(p.Floats)], p.Unit, p.High, p.Inner[:cap(p.Inner)], full(p.Malform), full(p.Edge), full(p.EdgeS)}, false)
}

// window: a random non-empty window of a shared slice (shares the backing array; capacity reaches to the end of the shared slice)
func window[T any](r *rand.Rand, s []T, max int) []T {
	n := 1 + r.Intn(max)
	if n > len(s) {
		n = len(s)
	}
	a := r.Intn(len(s) - n + 1)
	return s[a : a+n]
}

func pick[T any](r *rand.Rand, s []T) T { return s[r.Intn(len(s))] }

// Call: one exported function or method with arguments drawn from the pool.
type Call struct {
	Name      string
	Unordered bool // the output order follows map iteration: compare as multisets
	Run       func(p *Pool, r *rand.Rand) interface{}
}

func rs(vs ...interface{}) interface{} { return vs }

func errStr(e error) interface{} {
	if e == nil {
		return nil
	}
	return "error"
}

func zoomNear(r *rand.Rand) int64 { return int64(baseZoom - 2 + r.Intn(4)) }

// Catalogue: every exported function and method of every package of the library.
var Catalogue = []Call{
	// ---- shape
	{"shape.GetSpatialIdsOnLine", true, func(p *Pool, r *rand.Rand) interface{} {
		a, e := shape.GetSpatialIdsOnLine(p.PA, p.PB, int64(16+r.Intn(5)))
		return rs(a, errStr(e))
	}},
	{"shape.GetExtendedSpatialIdsOnLine", true, func(p *Pool, r *rand.Rand) interface{} {
		a, e := shape.GetExtendedSpatialIdsOnLine(pick(r, p.Points), pick(r, p.Points), int64(16+r.Intn(5)), int64(16+r.Intn(5)))
		return rs(a, errStr(e))
	}},
	{"shape.GetSpatialIdsOnPoints", true, func(p *Pool, r *rand.Rand) interface{} {
		a, e := shape.GetSpatialIdsOnPoints(window(r, p.Points, 6), int64(r.Intn(30)))
		return rs(a, errStr(e))
	}},
	{"shape.GetExtendedSpatialIdsOnPoints", true, func(p *Pool, r *rand.Rand) interface{} {
		a, e := shape.GetExtendedSpatialIdsOnPoints(window(r, p.Points, 6), int64(r.Intn(36)), int64(r.Intn(36)))
		return rs(a, errStr(e))
	}},
	{"shape.GetPointOnSpatialId", false, func(p *Pool, r *rand.Rand) interface{} {
		a, e := shape.GetPointOnSpatialId(pick(r, p.SIDs), enum.PointOption(r.Intn(2)))
		return rs(a, errStr(e))
	}},
	{"shape.GetPointOnExtendedSpatialId", false, func(p *Pool, r *rand.Rand) interface{} {
		a, e := shape.GetPointOnExtendedSpatialId(pick(r, p.EIDs2), enum.PointOption(r.Intn(2)))
		return rs(a, errStr(e))
	}},
	{"shape.ConvertPointListToProjectedPointList", false, func(p *Pool, r *rand.Rand) interface{} {
		a, e := shape.ConvertPointListToProjectedPointList(window(r, p.Points, 5), 3857)
		return rs(a, errStr(e))
	}},
	{"shape.ConvertProjectedPointListToPointList", false, func(p *Pool, r *rand.Rand) interface{} {
		a, e := shape.ConvertProjectedPointListToPointList(window(r, p.Proj, 5), 3857)
		return rs(a, errStr(e))
	}},
	{"shape.CheckZoom", false, func(p *Pool, r *rand.Rand) interface{} { return shape.CheckZoom(int64(r.Intn(40) - 2)) }},
	{"shape.ConvertSpatialIdsToExtendedSpatialIds", false, func(p *Pool, r *rand.Rand) interface{} {
		a, e := shape.ConvertSpatialIdsToExtendedSpatialIds(window(r, p.SIDs, 8))
		return rs(a, errStr(e))
	}},
	{"shape.ConvertExtendedSpatialIdsToSpatialIds", true, func(p *Pool, r *rand.Rand) interface{} {
		a, e := shape.ConvertExtendedSpatialIdsToSpatialIds(window(r, p.EIDs2, 4))
		return rs(a, errStr(e))
	}},
	{"shape.ConvertSpatialIdsToExtendedSpatialIds/malformed", false, func(p *Pool, r *rand.Rand) interface{} {
		a, e := shape.ConvertSpatialIdsToExtendedSpatialIds(window(r, p.Malform, 3))
		return rs(a, errStr(e))
	}},
	// ---- integrate
	{"integrate.MergeSpatialIds", true, func(p *Pool, r *rand.Rand) interface{} {
		a, e := integrate.MergeSpatialIds(window(r, p.SIDs, 32), int64(baseZoom-1-r.Intn(2)))
		return rs(a, errStr(e))
	}},
	{"integrate.MergeExtendedSpatialIds", true, func(p *Pool, r *rand.Rand) interface{} {
		a, e := integrate.MergeExtendedSpatialIds(window(r, p.EIDs, 32), int64(baseZoom-1-r.Intn(2)), int64(baseZoom-r.Intn(2)))
		return rs(a, errStr(e))
	}},
	{"integrate.ChangeSpatialIdsZoom", true, func(p *Pool, r *rand.Rand) interface{} {
		a, e := integrate.ChangeSpatialIdsZoom(window(r, p.SIDs2, 4), zoomNear(r))
		return rs(a, errStr(e))
	}},
	{"integrate.ChangeExtendedSpatialIdsZoom", true, func(p *Pool, r *rand.Rand) interface{} {
		a, e := integrate.ChangeExtendedSpatialIdsZoom(window(r, p.EIDs2, 4), zoomNear(r), zoomNear(r))
		return rs(a, errStr(e))
	}},
	{"integrate.HorizontalZoom", true, func(p *Pool, r *rand.Rand) interface{} {
		return integrate.HorizontalZoom(baseZoom, p.X0+int64(r.Intn(4)), p.Y0+int64(r.Intn(4)), zoomNear(r))
	}},
	{"integrate.HorizontalZoomMinMax", false, func(p *Pool, r *rand.Rand) interface{} {
		a, b, c, d := integrate.HorizontalZoomMinMax(baseZoom, p.X0+int64(r.Intn(4)), p.Y0+int64(r.Intn(4)), int64(r.Intn(30)))
		return rs(a, b, c, d)
	}},
	{"integrate.VerticalZoom", true, func(p *Pool, r *rand.Rand) interface{} {
		return integrate.VerticalZoom(baseZoom, int64(r.Intn(64)-32), zoomNear(r))
	}},
	{"integrate.NewUnitDividedSpatialID", false, func(p *Pool, r *rand.Rand) interface{} {
		return integrate.NewUnitDividedSpatialID(pick(r, p.ESIDs), int64(r.Intn(2)), int64(r.Intn(2)))
	}},
	{"integrate.NewHighSpatialID", false, func(p *Pool, r *rand.Rand) interface{} {
		// NewHighSpatialID keeps the unit's ID set by reference, so the unit is private to this call
		u := integrate.NewUnitDividedSpatialID(pick(r, p.ESIDs), 1, 1)
		return integrate.NewHighSpatialID(u, int64(r.Intn(2)), int64(r.Intn(2)))
	}},
	{"integrate.HighSpatialID.IsDense", false, func(p *Pool, r *rand.Rand) interface{} { return rs(p.High.IsDense(), p.High.ID()) }},
	{"integrate.HighSpatialID.Merge/private", false, func(p *Pool, r *rand.Rand) interface{} {
		a := integrate.NewHighSpatialID(integrate.NewUnitDividedSpatialID(pick(r, p.ESIDs), 1, 1), 1, 1)
		a.Merge(p.High) // the argument is shared and only read; the receiver is private
		return rs(a.IsDense(), a.ID())
	}},
	// ---- operated
	{"operated.Get6spatialIdsAdjacentToFaces", false, func(p *Pool, r *rand.Rand) interface{} {
		return operated.Get6spatialIdsAdjacentToFaces(pick(r, p.EIDs))
	}},
	{"operated.Get8spatialIdsAroundHorizontal", false, func(p *Pool, r *rand.Rand) interface{} {
		return operated.Get8spatialIdsAroundHorizontal(pick(r, p.EIDs2))
	}},
	{"operated.Get26spatialIdsAroundVoxel", false, func(p *Pool, r *rand.Rand) interface{} {
		return operated.Get26spatialIdsAroundVoxel(pick(r, p.EIDs))
	}},
	{"operated.GetNspatialIdsAroundVoxcels", true, func(p *Pool, r *rand.Rand) interface{} {
		a, e := operated.GetNspatialIdsAroundVoxcels(window(r, p.EIDs, 4), int64(r.Intn(3)), int64(r.Intn(2)))
		return rs(a, errStr(e))
	}},
	{"operated.GetShiftingSpatialID", false, func(p *Pool, r *rand.Rand) interface{} {
		return operated.GetShiftingSpatialID(pick(r, p.EIDs2), int64(r.Intn(9)-4), int64(r.Intn(9)-4), int64(r.Intn(9)-4))
	}},
	// ---- operated at the edges of the grid and at mixed zooms (entries named .../edge, .../wrap, .../mixed are drawn more often, see Batch)
	{"operated.GetShiftingSpatialID/wrap", false, func(p *Pool, r *rand.Rand) interface{} {
		return operated.GetShiftingSpatialID(pick(r, p.Edge), int64(r.Intn(7)-3), int64(r.Intn(7)-3), int64(r.Intn(3)-1))
	}},
	{"operated.GetShiftingSpatialID/wrap-large", false, func(p *Pool, r *rand.Rand) interface{} {
		id := pick(r, p.Edge)
		var h int64
		fmt.Sscanf(id, "%d/", &h)
		wd := int64(1) << uint(h)
		return operated.GetShiftingSpatialID(id, wd*int64(r.Intn(5)-2)+int64(r.Intn(5)-2), -wd-int64(r.Intn(4)), int64(r.Intn(3)-1))
	}},
	{"operated.GetShiftingSpatialID/wrap-pair", false, func(p *Pool, r *rand.Rand) interface{} {
		a := operated.GetShiftingSpatialID(pick(r, p.Edge), -3, 3, 0)
		b := operated.GetShiftingSpatialID(pick(r, p.Edge), 2, -1, 1)
		return rs(a, b, operated.GetShiftingSpatialID(a, 3, -3, 0))
	}},
	{"operated.Get6spatialIdsAdjacentToFaces/edge", false, func(p *Pool, r *rand.Rand) interface{} {
		return operated.Get6spatialIdsAdjacentToFaces(pick(r, p.Edge))
	}},
	{"operated.Get8spatialIdsAroundHorizontal/edge", false, func(p *Pool, r *rand.Rand) interface{} {
		return operated.Get8spatialIdsAroundHorizontal(pick(r, p.Edge))
	}},
	{"operated.Get26spatialIdsAroundVoxel/edge", false, func(p *Pool, r *rand.Rand) interface{} {
		return operated.Get26spatialIdsAroundVoxel(pick(r, p.Edge))
	}},
	{"operated.GetNspatialIdsAroundVoxcels/edge", true, func(p *Pool, r *rand.Rand) interface{} {
		a, e := operated.GetNspatialIdsAroundVoxcels(window(r, p.Edge, 3), int64(r.Intn(3)), int64(r.Intn(2)))
		return rs(a, errStr(e))
	}},
	// ---- other packages at mixed zooms
	{"integrate.ChangeExtendedSpatialIdsZoom/mixed", true, func(p *Pool, r *rand.Rand) interface{} {
		id := pick(r, p.Edge)
		var h, x, y, v int64
		fmt.Sscanf(id, "%d/%d/%d/%d/", &h, &x, &y, &v)
		clamp := func(z int64) int64 {
			if z < 0 {
				return 0
			}
			if z > 35 {
				return 35
			}
			return z
		}
		a, e := integrate.ChangeExtendedSpatialIdsZoom([]string{id}, clamp(h+int64(r.Intn(4)-2)), clamp(v+int64(r.Intn(4)-2)))
		return rs(a, errStr(e))
	}},
	{"integrate.ChangeSpatialIdsZoom/mixed", true, func(p *Pool, r *rand.Rand) interface{} {
		id := pick(r, p.EdgeS)
		var z int64
		fmt.Sscanf(id, "%d/", &z)
		t := z + int64(r.Intn(3)-1)
		if t < 0 {
			t = 0
		}
		if t > 35 {
			t = 35
		}
		a, e := integrate.ChangeSpatialIdsZoom([]string{id}, t)
		return rs(a, errStr(e))
	}},
	{"integrate.MergeExtendedSpatialIds/mixed", true, func(p *Pool, r *rand.Rand) interface{} {
		// the 8 children of a voxel at a random zoom (computed by the library), merged back: zoom differences stay at 1 (larger ones explode)
		id := pick(r, p.Edge)
		var h, x, y, v int64
		fmt.Sscanf(id, "%d/%d/%d/%d/", &h, &x, &y, &v)
		if h > 33 || v > 33 {
			id, h, v = p.EIDs[1], baseZoom, baseZoom
		}
		kids, e0 := integrate.ChangeExtendedSpatialIdsZoom([]string{id}, h+1, v+1)
		if e0 != nil {
			return "error"
		}
		a, e := integrate.MergeExtendedSpatialIds(kids, h, v)
		return rs(a, errStr(e))
	}},
	{"detector.CheckExtendedSpatialIdsOverlap/mixed", false, func(p *Pool, r *rand.Rand) interface{} {
		a, e := detector.CheckExtendedSpatialIdsOverlap(pick(r, p.Edge), pick(r, p.Edge))
		return rs(a, errStr(e))
	}},
	{"detector.CheckExtendedSpatialIdsArrayOverlap/mixed", false, func(p *Pool, r *rand.Rand) interface{} {
		a, e := detector.CheckExtendedSpatialIdsArrayOverlap(window(r, p.Edge, 6), window(r, p.Edge, 6))
		return rs(a, errStr(e))
	}},
	{"detector.CheckSpatialIdsArrayOverlap/mixed", false, func(p *Pool, r *rand.Rand) interface{} {
		a, e := detector.CheckSpatialIdsArrayOverlap(window(r, p.EdgeS, 6), window(r, p.EdgeS, 6))
		return rs(a, errStr(e))
	}},
	{"shape.GetPointOnExtendedSpatialId/mixed", false, func(p *Pool, r *rand.Rand) interface{} {
		a, e := shape.GetPointOnExtendedSpatialId(pick(r, p.Edge), enum.PointOption(r.Intn(2)))
		return rs(a, errStr(e))
	}},
	{"shape.ConvertExtendedSpatialIdsToSpatialIds/mixed", true, func(p *Pool, r *rand.Rand) interface{} {
		id := pick(r, p.Edge)
		var h, x, y, v int64
		fmt.Sscanf(id, "%d/%d/%d/%d/", &h, &x, &y, &v)
		if v-h > 6 || h-v > 3 {
			id = p.EIDs2[0]
		}
		a, e := shape.ConvertExtendedSpatialIdsToSpatialIds([]string{id})
		return rs(a, errStr(e))
	}},
	{"transform.GetVoxelIDfromSpatialID/mixed", false, func(p *Pool, r *rand.Rand) interface{} {
		return transform.GetVoxelIDfromSpatialID(pick(r, p.Edge))
	}},
	// ---- detector
	{"detector.CheckSpatialIdsOverlap", false, func(p *Pool, r *rand.Rand) interface{} {
		a, e := detector.CheckSpatialIdsOverlap(pick(r, p.SIDs2), pick(r, p.SIDs))
		return rs(a, errStr(e))
	}},
	{"detector.CheckSpatialIdsArrayOverlap", false, func(p *Pool, r *rand.Rand) interface{} {
		a, e := detector.CheckSpatialIdsArrayOverlap(window(r, p.SIDs2, 6), window(r, p.SIDs, 10))
		return rs(a, errStr(e))
	}},
	{"detector.CheckExtendedSpatialIdsOverlap", false, func(p *Pool, r *rand.Rand) interface{} {
		a, e := detector.CheckExtendedSpatialIdsOverlap(pick(r, p.EIDs2), pick(r, p.EIDs))
		return rs(a, errStr(e))
	}},
	{"detector.CheckExtendedSpatialIdsArrayOverlap", false, func(p *Pool, r *rand.Rand) interface{} {
		a, e := detector.CheckExtendedSpatialIdsArrayOverlap(window(r, p.EIDs2, 6), window(r, p.EIDs, 10))
		return rs(a, errStr(e))
	}},
	// ---- transform
	{"transform.ConvertQuadkeysAndVerticalIDsToExtendedSpatialIDs", true, func(p *Pool, r *rand.Rand) interface{} {
		a, e := transform.ConvertQuadkeysAndVerticalIDsToExtendedSpatialIDs(window(r, p.QVs, 3), int64(6+r.Intn(3)), int64(5+r.Intn(3)))
		return rs(a, errStr(e))
	}},
	{"transform.ConvertQuadkeysAndVerticalIDsToSpatialIDs", true, func(p *Pool, r *rand.Rand) interface{} {
		a, e := transform.ConvertQuadkeysAndVerticalIDsToSpatialIDs(window(r, p.QVs, 3), int64(6+r.Intn(3)))
		return rs(a, errStr(e))
	}},
	{"transform.ConvertExtendedSpatialIDsToQuadkeysAndVerticalIDs", true, func(p *Pool, r *rand.Rand) interface{} {
		a, e := transform.ConvertExtendedSpatialIDsToQuadkeysAndVerticalIDs(window(r, p.EIDs, 3), int64(baseZoom-1+r.Intn(3)), int64(8+r.Intn(4)), 500, 0)
		return rs(a, errStr(e))
	}},
	{"transform.ConvertSpatialIDsToQuadkeysAndVerticalIDs", true, func(p *Pool, r *rand.Rand) interface{} {
		a, e := transform.ConvertSpatialIDsToQuadkeysAndVerticalIDs(window(r, p.SIDs, 3), int64(baseZoom-1+r.Intn(3)), int64(8+r.Intn(4)), 500, 0)
		return rs(a, errStr(e))
	}},
	{"transform.ConvertExtendedSpatialIDsToQuadkeysAndAltitudekeys", true, func(p *Pool, r *rand.Rand) interface{} {
		a, e := transform.ConvertExtendedSpatialIDsToQuadkeysAndAltitudekeys(window(r, p.EIDs, 3), int64(baseZoom-1+r.Intn(3)), int64(baseZoom-1+r.Intn(3)), 25, int64(r.Intn(3)-1))
		return rs(a, errStr(e))
	}},
	{"transform.ConvertExtendedSpatialIDToSpatialIDs", true, func(p *Pool, r *rand.Rand) interface{} {
		return transform.ConvertExtendedSpatialIDToSpatialIDs(pick(r, p.ESIDs))
	}},
	{"transform.ConvertTileXYZsToExtendedSpatialIDs", true, func(p *Pool, r *rand.Rand) interface{} {
		a, e := transform.ConvertTileXYZsToExtendedSpatialIDs(window(r, p.Tiles, 4), 25, int64(r.Intn(3)-1), int64(22+r.Intn(3)))
		return rs(a, errStr(e))
	}},
	{"transform.ConvertTileXYZsToSpatialIDs", true, func(p *Pool, r *rand.Rand) interface{} {
		a, e := transform.ConvertTileXYZsToSpatialIDs(window(r, p.Tiles, 4), 25, int64(r.Intn(3)-1), int64(22+r.Intn(2)))
		return rs(a, errStr(e))
	}},
	{"transform.ConvertAltitudekeyToMinMaxZ", false, func(p *Pool, r *rand.Rand) interface{} {
		a, b, e := transform.ConvertAltitudekeyToMinMaxZ(int64(r.Intn(1000)), int64(20+r.Intn(6)), int64(20+r.Intn(6)), 25, int64(r.Intn(5)-2))
		return rs(a, b, errStr(e))
	}},
	{"transform.ConvertZToMinMaxAltitudekey", false, func(p *Pool, r *rand.Rand) interface{} {
		a, b, e := transform.ConvertZToMinMaxAltitudekey(int64(r.Intn(1000)), int64(20+r.Intn(6)), int64(20+r.Intn(6)), 25, int64(r.Intn(5)-2))
		return rs(a, b, errStr(e))
	}},
	{"transform.GetExtendedSpatialIdsWithinRadiusOfLine", true, func(p *Pool, r *rand.Rand) interface{} {
		a, e := transform.GetExtendedSpatialIdsWithinRadiusOfLine(p.PA, p.PB, 1+r.Float64()*3, int64(17+r.Intn(2)), int64(17+r.Intn(2)), r.Intn(2) == 0)
		return rs(a, errStr(e))
	}},
	{"transform.FitClearanceAroundExtendedSpatialID", false, func(p *Pool, r *rand.Rand) interface{} {
		a, b, e := transform.FitClearanceAroundExtendedSpatialID(pick(r, p.EIDs), 1+r.Float64()*20)
		return rs(a, b, errStr(e))
	}},
	{"transform.GetVoxelIDfromSpatialID", false, func(p *Pool, r *rand.Rand) interface{} {
		return transform.GetVoxelIDfromSpatialID(pick(r, p.EIDs2))
	}},
	// ---- common
	{"common.AlmostEqual", false, func(p *Pool, r *rand.Rand) interface{} {
		return common.AlmostEqual(pick(r, p.Floats), pick(r, p.Floats), 50)
	}},
	{"common.Max/Min", false, func(p *Pool, r *rand.Rand) interface{} {
		a, e1 := common.Max(window(r, p.Ints, 10))
		b, e2 := common.Min(window(r, p.Floats, 10))
		return rs(a, errStr(e1), b, errStr(e2))
	}},
	{"common.DegreeToRadian/RadianToDegree", false, func(p *Pool, r *rand.Rand) interface{} {
		return rs(common.DegreeToRadian(pick(r, p.Floats)), common.RadianToDegree(pick(r, p.Floats)))
	}},
	{"common.Union", true, func(p *Pool, r *rand.Rand) interface{} { return common.Union(window(r, p.Ints, 12), window(r, p.Ints2, 12)) }},
	{"common.Difference", false, func(p *Pool, r *rand.Rand) interface{} {
		return common.Difference(window(r, p.SIDs, 12), window(r, p.SIDs, 12))
	}},
	{"common.Intersect", false, func(p *Pool, r *rand.Rand) interface{} {
		return common.Intersect(window(r, p.Ints, 12), window(r, p.Ints2, 12))
	}},
	{"common.Unique", true, func(p *Pool, r *rand.Rand) interface{} { return common.Unique(window(r, p.SIDs, 16)) }},
	{"common.Include", false, func(p *Pool, r *rand.Rand) interface{} { return common.Include(window(r, p.Ints, 12), pick(r, p.Ints2)) }},
	{"common.Combinations", false, func(p *Pool, r *rand.Rand) interface{} {
		var out [][]int64
		common.Combinations(int64(3+r.Intn(4)), int64(1+r.Intn(3)), func(c []int64) { out = append(out, append([]int64{}, c...)) })
		return out
	}},
	{"common.CalculateArithmeticShift", false, func(p *Pool, r *rand.Rand) interface{} {
		return common.CalculateArithmeticShift(pick(r, p.Ints), int64(r.Intn(11)-5))
	}},
	// ---- common/errors
	{"errors.NewSpatialIdError", false, func(p *Pool, r *rand.Rand) interface{} {
		e1 := sperr.NewSpatialIdError(sperr.InputValueErrorCode, pick(r, p.Malform))
		e2 := sperr.NewSpatialIdError(sperr.OtherErrorCode, "x")
		e3 := sperr.NewSpatialIdError(sperr.OptionFailedErrorCode, "")
		e4 := sperr.NewSpatialIdError(sperr.ValueConvertErrorCode, "y")
		return rs(e1.Error(), e2.Error(), e3.Error(), e4.Error())
	}},
	// ---- common/object: getters on shared objects, constructors, setters on private objects
	{"object.Point getters", false, func(p *Pool, r *rand.Rand) interface{} {
		q := pick(r, p.Points)
		return rs(q.Lon(), q.Lat(), q.Alt(), p.PA.Lon(), p.PB.Alt())
	}},
	{"object.NewPoint+setters/private", false, func(p *Pool, r *rand.Rand) interface{} {
		src := pick(r, p.Points)
		q, e := object.NewPoint(src.Lon(), src.Lat(), src.Alt())
		if e != nil {
			return "error"
		}
		e1 := q.SetLon(p.PA.Lon() + r.Float64())
		e2 := q.SetLat(95 * r.Float64())
		q.SetAlt(pick(r, p.Floats))
		return rs(q, errStr(e1), errStr(e2))
	}},
	{"object.ExtendedSpatialID getters", false, func(p *Pool, r *rand.Rand) interface{} {
		s := pick(r, p.ESIDs)
		return rs(s.X(), s.Y(), s.Z(), s.HZoom(), s.VZoom(), s.ID(), s.FieldParams(), p.ESIDv.ID(), p.ESIDv.X(), p.ESID.ID())
	}},
	{"object.ExtendedSpatialID.Higher", false, func(p *Pool, r *rand.Rand) interface{} {
		return rs(pick(r, p.ESIDs).Higher(int64(r.Intn(3)), int64(r.Intn(3))), p.ESIDv.Higher(1, int64(r.Intn(2))))
	}},
	{"object.NewExtendedSpatialID+setters/private", false, func(p *Pool, r *rand.Rand) interface{} {
		s, e := object.NewExtendedSpatialID(pick(r, p.EIDs2))
		if e != nil {
			return "error"
		}
		s.SetX(s.X() + int64(r.Intn(3)))
		s.SetY(p.ESID.Y())
		s.SetZ(int64(r.Intn(5)))
		s.SetZoom(s.HZoom()+1, s.VZoom())
		e2 := s.ResetExtendedSpatialID(pick(r, p.Malform))
		return rs(s, errStr(e2))
	}},
	{"object.QuadkeyAndVerticalID getters", false, func(p *Pool, r *rand.Rand) interface{} {
		q := pick(r, p.QVs)
		return rs(q.QuadkeyZoom(), q.Quadkey(), q.VZoom(), q.VIndex(), q.MaxHeight(), q.MinHeight())
	}},
	{"object.NewQuadkeyAndVerticalID+setters/private", false, func(p *Pool, r *rand.Rand) interface{} {
		s := pick(r, p.QVs)
		q := object.NewQuadkeyAndVerticalID(s.QuadkeyZoom(), s.Quadkey(), s.VZoom(), s.VIndex(), s.MaxHeight(), s.MinHeight())
		q.SetQuadkeyZoom(int64(r.Intn(20)))
		q.SetQuadkey(int64(r.Intn(5000)))
		q.SetVZoom(int64(r.Intn(20)))
		q.SetVIndex(int64(r.Intn(50)))
		q.SetMaxHeight(pick(r, p.Floats))
		q.SetMinHeight(pick(r, p.Floats))
		return q
	}},
	{"object.TileXYZ getters", false, func(p *Pool, r *rand.Rand) interface{} {
		t := pick(r, p.Tiles)
		return rs(t.HZoom(), t.X(), t.Y(), t.VZoom(), t.Z())
	}},
	{"object.NewTileXYZ+setters/private", false, func(p *Pool, r *rand.Rand) interface{} {
		s := pick(r, p.Tiles)
		t, e := object.NewTileXYZ(s.HZoom(), s.X(), s.Y(), s.VZoom(), s.Z())
		if e != nil {
			return "error"
		}
		e1 := t.SetHZoom(int64(r.Intn(40) - 2))
		t.SetX(int64(r.Intn(100)))
		t.SetY(int64(r.Intn(100)))
		e2 := t.SetVZoom(int64(r.Intn(40) - 2))
		t.SetZ(int64(r.Intn(9) - 4))
		return rs(t, errStr(e1), errStr(e2))
	}},
	{"object.FromExtendedSpatialIDToQuadkeyAndVerticalID getters", false, func(p *Pool, r *rand.Rand) interface{} {
		return rs(p.FQV.QuadkeyZoom(), p.FQV.InnerIDList(), p.FQV.VerticalZoom(), p.FQV.MaxHeight(), p.FQV.MinHeight())
	}},
	{"object.NewFromExtendedSpatialIDToQuadkeyAndVerticalID+setters/private", false, func(p *Pool, r *rand.Rand) interface{} {
		q := object.NewFromExtendedSpatialIDToQuadkeyAndVerticalID(int64(r.Intn(30)), window(r, p.Inner, 3), int64(r.Intn(30)), 500, 0)
		q.SetQuadkeyZoom(int64(r.Intn(30)))
		q.SetInnerIDList(window(r, p.Inner, 4))
		q.SetVerticalZoom(int64(r.Intn(30)))
		q.SetMaxHeight(pick(r, p.Floats))
		q.SetMinHeight(pick(r, p.Floats))
		return q
	}},
	{"object.FromExtendedSpatialIDToQuadkeyAndAltitudekey getters", false, func(p *Pool, r *rand.Rand) interface{} {
		return rs(p.FQA.QuadkeyZoom(), p.FQA.InnerIDList(), p.FQA.AltitudekeyZoom(), p.FQA.ZBaseExponent(), p.FQA.ZBaseOffset())
	}},
	{"object.NewFromExtendedSpatialIDToQuadkeyAndAltitudekey+setters/private", false, func(p *Pool, r *rand.Rand) interface{} {
		q := object.NewFromExtendedSpatialIDToQuadkeyAndAltitudekey(int64(r.Intn(30)), window(r, p.Inner, 3), int64(r.Intn(30)), 25, 0)
		q.SetQuadkeyZoom(int64(r.Intn(30)))
		q.SetInnerIDList(window(r, p.Inner, 4))
		q.SetAltitudekeyZoom(int64(r.Intn(30)))
		q.SetZBaseExponent(int64(r.Intn(30)))
		q.SetZBaseOffset(int64(r.Intn(5)))
		return q
	}},
	// ---- common/spatial
	{"spatial.Line3", false, func(p *Pool, r *rand.Rand) interface{} {
		l := spatial.NewLineFromPoints(*pick(r, p.P3s), *pick(r, p.P3s))
		return rs(l, l.ToPoint(r.Float64()), l.Start(), l.End())
	}},
	{"spatial.Matrix3", false, func(p *Pool, r *rand.Rand) interface{} {
		f := window(r, p.Floats, 9)
		for len(f) < 9 {
			f = p.Floats[:9]
		}
		m := spatial.NewMatrix3(f[0], f[1], f[2], f[3], f[4], f[5], f[6], f[7], f[8])
		u := spatial.NewUnitMatrix3()
		return rs(m.Mul(u), u.Mul(m).Mul(m), m.MulVec(pick(r, p.Vecs)))
	}},
	{"spatial.MaxPoint/MinPoint", false, func(p *Pool, r *rand.Rand) interface{} {
		a, e1 := spatial.MaxPoint(window(r, p.P3s, 8), pick(r, p.Vecs))
		b, e2 := spatial.MinPoint(window(r, p.P3s, 8), pick(r, p.Vecs))
		return rs(a, errStr(e1), b, errStr(e2))
	}},
	{"spatial.UniqueAppend/private slice", false, func(p *Pool, r *rand.Rand) interface{} {
		own := append([]*spatial.Point3{}, window(r, p.P3s, 5)...) // the slice is private (append-like contract); the points are shared
		return spatial.UniqueAppend(own, pick(r, p.P3s), 0.5)
	}},
	{"spatial.Point3 methods", false, func(p *Pool, r *rand.Rand) interface{} {
		a, b := pick(r, p.P3s), pick(r, p.P3s)
		return rs(a.IsClose(*b, 3), a.Translate(pick(r, p.Vecs)), a.DistancePoint(*b))
	}},
	{"spatial.Quat", false, func(p *Pool, r *rand.Rand) interface{} {
		return rs(spatial.RotateBetweenVector(pick(r, p.Vecs), pick(r, p.Vecs)), spatial.QuatFromAxisAngle(pick(r, p.Vecs), r.Float64()*3))
	}},
	{"spatial.Vector3 methods", false, func(p *Pool, r *rand.Rand) interface{} {
		a, b := pick(r, p.Vecs), pick(r, p.Vecs)
		return rs(spatial.NewVectorFromPoints(*pick(r, p.P3s), *pick(r, p.P3s)), a.Add(b), a.Sub(b), a.Scale(r.Float64()), a.Dot(b), a.Cross(b),
			a.Norm(), a.L1Norm(), a.Unit(), a.Cos(b))
	}},
}

// Inst: one call instance of a batch.
type Inst struct {
	Idx  int   `json:"index"`
	Seed int64 `json:"arg_seed"`
}

// RunInst runs one call instance against the pool; panics become part of the result.
func RunInst(p *Pool, in Inst) (res string) {
	c := Catalogue[in.Idx]
	defer func() {
		if e := recover(); e != nil {
			res = "panic: " + fmt.Sprint(e)
		}
	}()
	return Canon(c.Run(p, rand.New(rand.NewSource(in.Seed))), c.Unordered)
}

// weight of a catalogue entry in a batch: calls at the edges of the grid / at mixed zooms are drawn more often (state that depends on the zoom
// of the previous call, e.g. a one-entry cache of 2^zoom used only when a shift wraps around, is exposed only by such calls at different zooms)
func weight(name string) int {
	switch {
	case strings.Contains(name, "/wrap"):
		return 8
	case strings.HasSuffix(name, "/edge"):
		return 4
	case strings.HasSuffix(name, "/mixed"):
		return 2
	}
	return 1
}

var weighted, focusEdge []int

func init() {
	for i, c := range Catalogue {
		for k := 0; k < weight(c.Name); k++ {
			weighted = append(weighted, i)
		}
		if weight(c.Name) >= 4 {
			focusEdge = append(focusEdge, i)
		}
	}
}

// Batch: n seeded call instances. focus 0: every catalogue entry appears (when n allows), the rest is drawn by weight;
// focus 1: only the calls at the edges of the grid (wrapping shifts and neighbourhoods at mixed zooms).
func Batch(r *rand.Rand, n int, focus int) []Inst {
	out := make([]Inst, 0, n)
	perm := r.Perm(len(Catalogue))
	for i := 0; i < n; i++ {
		var idx int
		switch {
		case focus == 1:
			idx = focusEdge[r.Intn(len(focusEdge))]
		case i < len(perm) && n >= len(perm):
			idx = perm[i]
		default:
			idx = weighted[r.Intn(len(weighted))]
		}
		out = append(out, Inst{Idx: idx, Seed: r.Int63()})
	}
	r.Shuffle(len(out), func(i, j int) { out[i], out[j] = out[j], out[i] })
	return out
}

// Names of the catalogue (sorted), for the evidence.
func Names() []string {
	var ns []string
	for _, c := range Catalogue {
		ns = append(ns, c.Name)
	}
	sort.Strings(ns)
	return ns
}
