package c19

import (
	"bytes"
	"context"
	"encoding/json"
	"fmt"
	"math/rand"
	"os"
	"os/exec"
	"runtime"
	"sort"
	"strings"
	"sync"
	"time"

	. "verif/harness/gen"
	"verif/harness/run"
	w "verif/harness/wire"
)

// Mix: one experiment. The batch is run alone (one call at a time): that is the reference. Then every one of g goroutines runs the whole batch,
// each in its own random order with random runtime.Gosched calls, all sharing the pool; then the batch is run alone again. Reported per call instance: whether every
// concurrent execution returned the result of the solo run; and whether the pool is byte-for-byte what it was before.
type MixResult struct {
	Flags      []bool
	Unmodified bool
	Bad        []string // names of the calls whose concurrent result differed (and "inputs modified" details)
	Solo       []string
	Diff       []Mismatch
}

type Mismatch struct {
	Call     string `json:"call"`
	Index    int    `json:"index"`
	ArgSeed  int64  `json:"arg_seed"`
	Solo     string `json:"solo_result"`
	Parallel string `json:"parallel_result"`
}

func trunc(s string, n int) string {
	if len(s) > n {
		return s[:n] + "..."
	}
	return s
}

// MixCfg: one experiment. Cold = the concurrent phase comes first (state kept between calls, e.g. a cache, is still cold when the goroutines
// start in a fresh process; used by vrace for the first round of every process, with the solo reference Ref computed by another fresh process).
// Otherwise: solo run, concurrent phase, solo run again; reference = the first solo run.
type MixCfg struct {
	PoolSeed, BatchSeed int64
	K, G                int
	SchedSeed           int64
	Focus               int
	Cold                bool
	Ref                 []string
	Fresh               bool // also compare with the same calls run in fresh processes (in reverse order; and single calls, one process each)
	Singles             int  // how many single-call processes
}

func RunMix(poolSeed, batchSeed int64, k, g int, schedSeed int64, focus int) MixResult {
	return RunMixCfg(MixCfg{PoolSeed: poolSeed, BatchSeed: batchSeed, K: k, G: g, SchedSeed: schedSeed, Focus: focus})
}

// SoloRef: the results of the batch run alone, one call at a time (vrace runs this in a fresh process).
func SoloRef(poolSeed, batchSeed int64, k, focus int) []string {
	p := NewPool(poolSeed)
	batch := Batch(rand.New(rand.NewSource(batchSeed)), k, focus)
	out := make([]string, len(batch))
	for i := len(batch) - 1; i >= 0; i-- { // in reverse order: not the history of the in-process solo passes
		out[i] = RunInst(p, batch[i])
	}
	return out
}

func RunMixCfg(c MixCfg) MixResult {
	k, g := c.K, c.G
	p := NewPool(c.PoolSeed)
	before := p.Snapshot()
	if k < 0 {
		k = 0
	}
	batch := Batch(rand.New(rand.NewSource(c.BatchSeed)), k, c.Focus)
	res := MixResult{Flags: make([]bool, k), Solo: make([]string, k)}
	solo := func() []string {
		out := make([]string, k)
		for i, in := range batch {
			out[i] = RunInst(p, in)
		}
		return out
	}
	var pre []string
	afterPre := before
	if !c.Cold {
		pre = solo()
		afterPre = p.Snapshot()
	}
	// concurrent phase
	par := make([][]string, g)
	var wg sync.WaitGroup
	start := make(chan struct{})
	for t := 0; t < g; t++ {
		par[t] = make([]string, k)
		r := rand.New(rand.NewSource(c.SchedSeed*1000003 + int64(t)))
		order := r.Perm(k)
		wg.Add(1)
		go func(t int, order []int, r *rand.Rand) {
			defer wg.Done()
			<-start
			for _, i := range order {
				if r.Intn(2) == 0 {
					runtime.Gosched()
				}
				par[t][i] = RunInst(p, batch[i])
			}
		}(t, order, r)
	}
	close(start)
	wg.Wait()
	after := p.Snapshot()
	post := solo()
	afterPost := p.Snapshot()
	ref := post
	if pre != nil {
		ref = pre
	}
	if len(c.Ref) == k && k > 0 {
		ref = c.Ref
	}
	copy(res.Solo, ref)
	for i := range batch {
		res.Flags[i] = true
		name := Catalogue[batch[i].Idx].Name
		bad := func(what, got string) {
			if res.Flags[i] {
				res.Bad = append(res.Bad, name+what)
				res.Diff = append(res.Diff, Mismatch{Call: name + what, Index: batch[i].Idx, ArgSeed: batch[i].Seed, Solo: trunc(ref[i], 600), Parallel: trunc(got, 600)})
			}
			res.Flags[i] = false
		}
		for t := 0; t < g; t++ {
			if par[t][i] != ref[i] {
				bad("", par[t][i])
			}
		}
		if pre != nil && pre[i] != ref[i] {
			bad(" (run alone in this process vs alone in a fresh process)", pre[i])
		}
		if post[i] != ref[i] {
			bad(" (run alone again after the concurrent phase)", post[i])
		}
	}
	if c.Fresh && k > 0 {
		freshCompare(c, batch, ref, &res)
	}
	res.Unmodified = before == afterPre && before == after && before == afterPost
	switch {
	case before != afterPre:
		res.Bad = append(res.Bad, "inputs modified by a sequential call: "+firstDiff(before, afterPre))
	case before != after:
		res.Bad = append(res.Bad, "inputs modified during the concurrent phase: "+firstDiff(before, after))
	case before != afterPost:
		res.Bad = append(res.Bad, "inputs modified by a sequential call: "+firstDiff(before, afterPost))
	}
	return res
}

// ---------- the baseline computed ALONE: fresh processes ----------
//
// "Returns the same result it returns when run alone" is judged against calls made in processes in which nothing else has run: state kept
// between calls (a memo table keyed on part of the arguments) pollutes every in-process baseline in the same way, whatever the order of the
// phases. The harness binary re-executes itself (`<binary> -c19-solo`, request on stdin, see init below) and the child performs the calls
// of the request, in the order of the request, on a pool built from the same seed.
//   history 1: the whole batch in REVERSE order of the in-process solo pass (so the first call of the child is not the first call of the parent);
//   history 2: single calls, one process per call (the call is the only call ever made in its process).
// A result that differs from the in-process reference is a property failure; the offending-call text records both histories (order matters).

type soloReq struct {
	PoolSeed  int64 `json:"pool_seed"`
	BatchSeed int64 `json:"batch_seed"`
	K         int   `json:"k"`
	Focus     int   `json:"focus"`
	Order     []int `json:"order"` // indices into the batch, in the order in which the child makes the calls
}

func init() {
	if len(os.Args) >= 2 && os.Args[1] == "-c19-mix" {
		var c MixCfg
		if err := json.NewDecoder(os.Stdin).Decode(&c); err != nil {
			fmt.Fprintln(os.Stderr, "c19-mix: bad request:", err)
			os.Exit(3)
		}
		c.Fresh = false
		b, _ := json.Marshal(RunMixCfg(c))
		os.Stdout.Write(b)
		os.Exit(0)
	}
	if len(os.Args) >= 2 && os.Args[1] == "-c19-solo" {
		var q soloReq
		if err := json.NewDecoder(os.Stdin).Decode(&q); err != nil {
			fmt.Fprintln(os.Stderr, "c19-solo: bad request:", err)
			os.Exit(3)
		}
		p := NewPool(q.PoolSeed)
		batch := Batch(rand.New(rand.NewSource(q.BatchSeed)), q.K, q.Focus)
		out := make([]string, len(q.Order))
		for j, i := range q.Order {
			if i < 0 || i >= len(batch) {
				fmt.Fprintln(os.Stderr, "c19-solo: index out of range")
				os.Exit(3)
			}
			out[j] = RunInst(p, batch[i])
		}
		b, _ := json.Marshal(out)
		os.Stdout.Write(b)
		os.Exit(0)
	}
}

// MixInChild runs one experiment (solo pass, concurrent phase, solo pass) in a fresh process, so that a case does not depend on the cases
// that ran before it (package-level state of the library cannot be reset) and a replay of the case reproduces it. A process that dies (the
// runtime's "fatal error: concurrent map writes" cannot be recovered) is a failed experiment, not a failed harness.
func MixInChild(c MixCfg) MixResult {
	k := c.K
	if k < 0 {
		k = 0
	}
	dead := func(why string) MixResult {
		return MixResult{Flags: make([]bool, k), Solo: make([]string, k), Bad: []string{"the process that ran the mix " + why}}
	}
	self, err := os.Executable()
	if err != nil {
		panic("harness: c19: " + err.Error())
	}
	req, _ := json.Marshal(c)
	ctx, cancel := context.WithTimeout(context.Background(), 5*time.Second)
	defer cancel()
	cmd := exec.CommandContext(ctx, self, "-c19-mix")
	cmd.Stdin = bytes.NewReader(req)
	var so, se bytes.Buffer
	cmd.Stdout, cmd.Stderr = &so, &se
	if err := cmd.Run(); err != nil {
		if ctx.Err() != nil {
			return dead("did not finish within 5 s")
		}
		msg := se.String()
		if i := strings.Index(msg, "fatal error:"); i >= 0 {
			msg = msg[i:]
		}
		if i := strings.Index(msg, "\n"); i >= 0 {
			msg = msg[:i]
		}
		return dead("died: " + trunc(msg, 200) + " (" + err.Error() + ")")
	}
	var m MixResult
	if err := json.Unmarshal(so.Bytes(), &m); err != nil || len(m.Flags) != k || len(m.Solo) != k {
		panic("harness: c19: bad answer of the mix process: " + trunc(so.String(), 200))
	}
	return m
}

// FreshSolo runs the calls batch[order[0]], batch[order[1]], ... in one fresh process and returns their results (aligned with order).
func FreshSolo(poolSeed, batchSeed int64, k, focus int, order []int) ([]string, error) {
	self, err := os.Executable()
	if err != nil {
		return nil, err
	}
	req, _ := json.Marshal(soloReq{PoolSeed: poolSeed, BatchSeed: batchSeed, K: k, Focus: focus, Order: order})
	cmd := exec.Command(self, "-c19-solo")
	cmd.Stdin = bytes.NewReader(req)
	var so, se bytes.Buffer
	cmd.Stdout, cmd.Stderr = &so, &se
	if err := cmd.Run(); err != nil {
		return nil, fmt.Errorf("%v: %s", err, trunc(se.String(), 300))
	}
	var out []string
	if err := json.Unmarshal(so.Bytes(), &out); err != nil || len(out) != len(order) {
		return nil, fmt.Errorf("bad answer of the fresh process: %v", err)
	}
	return out, nil
}

// describe: the calls of the same catalogue entry that precede position `upto+1` of a history (those are the calls that can have left
// state behind for it; the full history is the batch in the stated order), with their argument and key seeds
func describe(batch []Inst, order []int, upto int, idx int) string {
	var b strings.Builder
	n, others := 0, 0
	for j, i := range order {
		if j > upto {
			break
		}
		if batch[i].Idx != idx {
			others++
			continue
		}
		n++
		if n <= 8 {
			if n > 1 {
				b.WriteString(", ")
			}
			fmt.Fprintf(&b, "#%d(args %d key %d)", i, batch[i].Seed%1000000, batch[i].Key%1000000)
		}
	}
	if n == 0 {
		return fmt.Sprintf("no earlier call of this function, %d other calls", others)
	}
	return fmt.Sprintf("%d earlier call(s) of this function: %s; %d other calls", n, b.String(), others)
}

func freshCompare(c MixCfg, batch []Inst, ref []string, res *MixResult) {
	k := len(batch)
	fail := func(i int, what, got string) {
		name := Catalogue[batch[i].Idx].Name
		if res.Flags[i] {
			res.Bad = append(res.Bad, name+what)
			res.Diff = append(res.Diff, Mismatch{Call: name + what, Index: batch[i].Idx, ArgSeed: batch[i].Seed, Solo: trunc(ref[i], 600), Parallel: trunc(got, 600)})
		}
		res.Flags[i] = false
	}
	// history 1: reverse order
	order := make([]int, k)
	for j := range order {
		order[j] = k - 1 - j
	}
	got, err := FreshSolo(c.PoolSeed, c.BatchSeed, c.K, c.Focus, order)
	if err != nil {
		panic("harness: c19 fresh process: " + err.Error())
	}
	for j, i := range order {
		if got[j] != ref[i] {
			fail(i, fmt.Sprintf(" [call #%d (args %d key %d): in a fresh process that makes the calls of the batch in the order #%d..#0 (%s) it returns %s; in the process that ran the mix (alone, order #0..#%d: %s) it returned %s]",
				i, batch[i].Seed%1000000, batch[i].Key%1000000, k-1, describe(batch, order, j-1, batch[i].Idx), trunc(got[j], 100), k-1, describe(batch, seq(i), i-1, batch[i].Idx), trunc(ref[i], 100)), got[j])
		}
	}
	// history 2: the only call ever made in its process; related calls (shared key seed) first
	n := c.Singles
	if n > k {
		n = k
	}
	r := rand.New(rand.NewSource(c.SchedSeed ^ 0x5151))
	cand := r.Perm(k)
	keyCount := map[int64]int{}
	for _, in := range batch {
		keyCount[in.Key]++
	}
	sort.SliceStable(cand, func(a, b int) bool { return keyCount[batch[cand[a]].Key] > 1 && keyCount[batch[cand[b]].Key] <= 1 })
	for _, i := range cand[:n] {
		one, err := FreshSolo(c.PoolSeed, c.BatchSeed, c.K, c.Focus, []int{i})
		if err != nil {
			panic("harness: c19 fresh process: " + err.Error())
		}
		if one[0] != ref[i] {
			fail(i, fmt.Sprintf(" [call #%d (args %d key %d): as the only call of a fresh process it returns %s; in the process that ran the mix (alone, order #0..#%d: %s) it returned %s]",
				i, batch[i].Seed%1000000, batch[i].Key%1000000, trunc(one[0], 100), k-1, describe(batch, seq(i), i-1, batch[i].Idx), trunc(ref[i], 100)), one[0])
		}
	}
}

func seq(n int) []int {
	o := make([]int, n+1)
	for i := range o {
		o[i] = i
	}
	return o
}

func firstDiff(a, b string) string {
	n := len(a)
	if len(b) < n {
		n = len(b)
	}
	i := 0
	for i < n && a[i] == b[i] {
		i++
	}
	lo := i - 60
	if lo < 0 {
		lo = 0
	}
	return "before ..." + trunc(a[lo:], 160) + " after ..." + trunc(b[lo:], 160)
}

// ParallelMix [poolSeed; batchSeed; k; g; focus; (repeats)] => [ [equal_1 .. equal_k]; inputs_unmodified; [names of the offending calls] ]
// A concurrency failure depends on the schedule, so the same arguments may pass when they are run again. The runner re-asks a failing case
// after shrinking; a failing observation that was really made for an argument tuple is therefore remembered and reported again for it.
var (
	seenFailMu sync.Mutex
	seenFail   = map[string]w.Val{}
)

func fnParallelMix() *run.Fn {
	return &run.Fn{Name: "ParallelMix", Invoke: func(a []w.Val) w.Val {
		key := w.Show(w.List(a))
		seenFailMu.Lock()
		if v, ok := seenFail[key]; ok {
			seenFailMu.Unlock()
			return v
		}
		seenFailMu.Unlock()
		ps, bs, k, g := w.AsInt(a[0]), w.AsInt(a[1]), int(w.AsInt(a[2])), int(w.AsInt(a[3]))
		if k > 400 {
			k = 400
		}
		if g > 64 {
			g = 64
		}
		if g < 0 {
			g = 0
		}
		focus := 0
		if len(a) > 4 {
			focus = int(w.AsInt(a[4]))
		}
		// optional 6th argument: repeat the experiment up to that many times (different schedules) until it fails; used by replays
		// written by vrace, since a concurrency failure needs the scheduler's cooperation
		reps := 1
		if len(a) > 5 {
			reps = int(w.AsInt(a[5]))
			if reps > 60 {
				reps = 60
			}
		}
		// every experiment runs in a fresh process (self-contained cases, reproducible replays); its solo results are then compared with
		// the same calls made by other fresh processes (the batch in reverse order; one call alone)
		cfg := MixCfg{PoolSeed: ps, BatchSeed: bs, K: k, G: g, SchedSeed: ps ^ bs, Focus: focus, Singles: 1}
		one := func() MixResult {
			m := MixInChild(cfg)
			if kk := len(m.Flags); kk > 0 && len(m.Solo) == kk && !(len(m.Bad) == 1 && strings.HasPrefix(m.Bad[0], "the process that ran the mix")) {
				freshCompare(cfg, Batch(rand.New(rand.NewSource(bs)), kk, focus), m.Solo, &m)
			}
			return m
		}
		m := one()
		for i := 1; i < reps && len(m.Bad) == 0 && m.Unmodified; i++ {
			cfg.SchedSeed = (ps ^ bs) + int64(i)
			m = one()
		}
		fl := make([]w.Val, len(m.Flags))
		for i, f := range m.Flags {
			fl[i] = w.B(f)
		}
		bad := make([]w.Val, len(m.Bad))
		for i, s := range m.Bad {
			bad[i] = w.S(trunc(s, 900))
		}
		obs := w.L(w.List(fl), w.B(m.Unmodified), w.List(bad))
		if len(m.Bad) > 0 || !m.Unmodified {
			seenFailMu.Lock()
			seenFail[key] = obs
			seenFailMu.Unlock()
		}
		return obs
	}}
}

func init() {
	Scale["C19"] = 400
	Registry["C19"] = func(r *run.Runner, g *Gen, n int) {
		r.Register(fnParallelMix())
		for i := 0; i < n; i++ {
			k := 8 + g.Intn(40)
			gor := 2 + g.Intn(15)
			switch g.Intn(40) {
			case 0, 1, 2:
				gor = 16
				k = len(Catalogue)
			case 3:
				gor = 1
			case 4:
				k = 0
			}
			focus := 0
			switch g.Intn(4) {
			case 0:
				focus = 1 // a storm of wrapping shifts and edge neighbourhoods at mixed zooms
				k = 24 + g.Intn(40)
				gor = 8 + g.Intn(9)
			case 1:
				focus = 2 // groups of related calls: one function, the same key-like arguments, different latitude rows
				k = 6 + g.Intn(30)
				gor = 2 + g.Intn(10)
			}
			tags := []string{Tag("goroutines=%d", gor), Tag("batch<=%d", (k/16+1)*16), Tag("focus=%d", focus)}
			r.Run(run.Case{Prop: "C19", Fn: "ParallelMix", Tags: tags, Trivial: gor <= 1 || k == 0,
				Args: []w.Val{w.I(g.Int63n(1 << 40)), w.I(g.Int63n(1 << 40)), w.I(int64(k)), w.I(int64(gor)), w.I(int64(focus))}})
		}
	}
}
