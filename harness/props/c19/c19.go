package c19

import (
	"math/rand"
	"runtime"
	"sync"

	. "verif/harness/gen"
	"verif/harness/run"
	w "verif/harness/wire"
)

// Mix: one experiment. The batch is run alone (one call at a time): that is the reference. Then every one of g goroutines runs the whole batch,
// each in its own random order with random runtime.Gosched calls, all sharing the pool; then the batch is run alone again. Reported per call instance: whether every
// concurrent execution returned the result of the solo run; and whether the pool is byte-for-byte what it was before.
type MixResult struct {
	Flags      []bool
	Unmodified bool
	Bad        []string // names of the calls whose concurrent result differed (and "inputs modified" details)
	Solo       []string
	Diff       []Mismatch
}

type Mismatch struct {
	Call     string `json:"call"`
	Index    int    `json:"index"`
	ArgSeed  int64  `json:"arg_seed"`
	Solo     string `json:"solo_result"`
	Parallel string `json:"parallel_result"`
}

func trunc(s string, n int) string {
	if len(s) > n {
		return s[:n] + "..."
	}
	return s
}

// MixCfg: one experiment. Cold = the concurrent phase comes first (state kept between calls, e.g. a cache, is still cold when the goroutines
// start in a fresh process; used by vrace for the first round of every process, with the solo reference Ref computed by another fresh process).
// Otherwise: solo run, concurrent phase, solo run again; reference = the first solo run.
type MixCfg struct {
	PoolSeed, BatchSeed int64
	K, G                int
	SchedSeed           int64
	Focus               int
	Cold                bool
	Ref                 []string
}

func RunMix(poolSeed, batchSeed int64, k, g int, schedSeed int64, focus int) MixResult {
	return RunMixCfg(MixCfg{PoolSeed: poolSeed, BatchSeed: batchSeed, K: k, G: g, SchedSeed: schedSeed, Focus: focus})
}

// SoloRef: the results of the batch run alone, one call at a time (vrace runs this in a fresh process).
func SoloRef(poolSeed, batchSeed int64, k, focus int) []string {
	p := NewPool(poolSeed)
	batch := Batch(rand.New(rand.NewSource(batchSeed)), k, focus)
	out := make([]string, len(batch))
	for i, in := range batch {
		out[i] = RunInst(p, in)
	}
	return out
}

func RunMixCfg(c MixCfg) MixResult {
	k, g := c.K, c.G
	p := NewPool(c.PoolSeed)
	before := p.Snapshot()
	if k < 0 {
		k = 0
	}
	batch := Batch(rand.New(rand.NewSource(c.BatchSeed)), k, c.Focus)
	res := MixResult{Flags: make([]bool, k), Solo: make([]string, k)}
	solo := func() []string {
		out := make([]string, k)
		for i, in := range batch {
			out[i] = RunInst(p, in)
		}
		return out
	}
	var pre []string
	afterPre := before
	if !c.Cold {
		pre = solo()
		afterPre = p.Snapshot()
	}
	// concurrent phase
	par := make([][]string, g)
	var wg sync.WaitGroup
	start := make(chan struct{})
	for t := 0; t < g; t++ {
		par[t] = make([]string, k)
		r := rand.New(rand.NewSource(c.SchedSeed*1000003 + int64(t)))
		order := r.Perm(k)
		wg.Add(1)
		go func(t int, order []int, r *rand.Rand) {
			defer wg.Done()
			<-start
			for _, i := range order {
				if r.Intn(2) == 0 {
					runtime.Gosched()
				}
				par[t][i] = RunInst(p, batch[i])
			}
		}(t, order, r)
	}
	close(start)
	wg.Wait()
	after := p.Snapshot()
	post := solo()
	afterPost := p.Snapshot()
	ref := post
	if pre != nil {
		ref = pre
	}
	if len(c.Ref) == k && k > 0 {
		ref = c.Ref
	}
	copy(res.Solo, ref)
	for i := range batch {
		res.Flags[i] = true
		name := Catalogue[batch[i].Idx].Name
		bad := func(what, got string) {
			if res.Flags[i] {
				res.Bad = append(res.Bad, name+what)
				res.Diff = append(res.Diff, Mismatch{Call: name + what, Index: batch[i].Idx, ArgSeed: batch[i].Seed, Solo: trunc(ref[i], 600), Parallel: trunc(got, 600)})
			}
			res.Flags[i] = false
		}
		for t := 0; t < g; t++ {
			if par[t][i] != ref[i] {
				bad("", par[t][i])
			}
		}
		if pre != nil && pre[i] != ref[i] {
			bad(" (run alone in this process vs alone in a fresh process)", pre[i])
		}
		if post[i] != ref[i] {
			bad(" (run alone again after the concurrent phase)", post[i])
		}
	}
	res.Unmodified = before == afterPre && before == after && before == afterPost
	switch {
	case before != afterPre:
		res.Bad = append(res.Bad, "inputs modified by a sequential call: "+firstDiff(before, afterPre))
	case before != after:
		res.Bad = append(res.Bad, "inputs modified during the concurrent phase: "+firstDiff(before, after))
	case before != afterPost:
		res.Bad = append(res.Bad, "inputs modified by a sequential call: "+firstDiff(before, afterPost))
	}
	return res
}

func firstDiff(a, b string) string {
	n := len(a)
	if len(b) < n {
		n = len(b)
	}
	i := 0
	for i < n && a[i] == b[i] {
		i++
	}
	lo := i - 60
	if lo < 0 {
		lo = 0
	}
	return "before ..." + trunc(a[lo:], 160) + " after ..." + trunc(b[lo:], 160)
}

// ParallelMix [poolSeed; batchSeed; k; g; focus; (repeats)] => [ [equal_1 .. equal_k]; inputs_unmodified; [names of the offending calls] ]
// A concurrency failure depends on the schedule, so the same arguments may pass when they are run again. The runner re-asks a failing case
// after shrinking; a failing observation that was really made for an argument tuple is therefore remembered and reported again for it.
var (
	seenFailMu sync.Mutex
	seenFail   = map[string]w.Val{}
)

func fnParallelMix() *run.Fn {
	return &run.Fn{Name: "ParallelMix", Invoke: func(a []w.Val) w.Val {
		key := w.Show(w.List(a))
		seenFailMu.Lock()
		if v, ok := seenFail[key]; ok {
			seenFailMu.Unlock()
			return v
		}
		seenFailMu.Unlock()
		ps, bs, k, g := w.AsInt(a[0]), w.AsInt(a[1]), int(w.AsInt(a[2])), int(w.AsInt(a[3]))
		if k > 400 {
			k = 400
		}
		if g > 64 {
			g = 64
		}
		if g < 0 {
			g = 0
		}
		focus := 0
		if len(a) > 4 {
			focus = int(w.AsInt(a[4]))
		}
		// optional 6th argument: repeat the experiment up to that many times (different schedules) until it fails; used by replays
		// written by vrace, since a concurrency failure needs the scheduler's cooperation
		reps := 1
		if len(a) > 5 {
			reps = int(w.AsInt(a[5]))
			if reps > 60 {
				reps = 60
			}
		}
		m := RunMix(ps, bs, k, g, ps^bs, focus)
		for i := 1; i < reps && len(m.Bad) == 0 && m.Unmodified; i++ {
			m = RunMix(ps, bs, k, g, (ps^bs)+int64(i), focus)
		}
		fl := make([]w.Val, len(m.Flags))
		for i, f := range m.Flags {
			fl[i] = w.B(f)
		}
		bad := make([]w.Val, len(m.Bad))
		for i, s := range m.Bad {
			bad[i] = w.S(trunc(s, 400))
		}
		obs := w.L(w.List(fl), w.B(m.Unmodified), w.List(bad))
		if len(m.Bad) > 0 || !m.Unmodified {
			seenFailMu.Lock()
			seenFail[key] = obs
			seenFailMu.Unlock()
		}
		return obs
	}}
}

func init() {
	Scale["C19"] = 500
	Registry["C19"] = func(r *run.Runner, g *Gen, n int) {
		r.Register(fnParallelMix())
		for i := 0; i < n; i++ {
			k := 8 + g.Intn(40)
			gor := 2 + g.Intn(15)
			switch g.Intn(40) {
			case 0, 1, 2:
				gor = 16
				k = len(Catalogue)
			case 3:
				gor = 1
			case 4:
				k = 0
			}
			focus := 0
			if g.Intn(3) == 0 {
				focus = 1 // a storm of wrapping shifts and edge neighbourhoods at mixed zooms
				k = 24 + g.Intn(40)
				gor = 8 + g.Intn(9)
			}
			tags := []string{Tag("goroutines=%d", gor), Tag("batch<=%d", (k/16+1)*16), Tag("focus=%d", focus)}
			r.Run(run.Case{Prop: "C19", Fn: "ParallelMix", Tags: tags, Trivial: gor <= 1 || k == 0,
				Args: []w.Val{w.I(g.Int63n(1 << 40)), w.I(g.Int63n(1 << 40)), w.I(int64(k)), w.I(int64(gor)), w.I(int64(focus))}})
		}
	}
}
