// Package c03: property C03 (zoom change) — invokers of the real functions, seeded generators.
package c03

import (
	"math"
	"strconv"
	"strings"

	"github.com/trajectoryjp/spatial_id_go/v4/integrate"

	. "verif/harness/gen"
	"verif/harness/run"
	w "verif/harness/wire"
)

// Calls whose result would be huge are never generated; the shrinker can propose them (e.g. by lowering an input zoom), so every invoker
// refuses them with a marker that the dispatch entry accepts as "not judged".
const skipMarker = "skipped-too-large"
const goCap = 8000.0

type eid struct{ h, x, y, v, f int64 }

func (e eid) ext() string { return EID(e.h, e.x, e.y, e.v, e.f) }
func (e eid) sid() string { return SID(e.h, e.f, e.x, e.y) }

// number of IDs one input expands to, as the code computes it (int64 differences, wrapping) — also when a zoom is outside 0..35,
// so that the estimate holds even for an implementation whose zoom check is broken
func grow(H, h, V, v int64) float64 {
	g := 1.0
	if d := H - h; d > 0 {
		g *= math.Pow(4, float64(d))
	}
	if d := V - v; d > 0 {
		g *= math.Pow(2, float64(d))
	}
	return g
}
func est(ids []eid, H, V int64) float64 {
	s := 0.0
	for _, e := range ids {
		s += grow(H, e.h, V, e.v)
	}
	return s
}

// upper estimate of the work on these strings that also holds for an implementation whose format / zoom checks are broken:
// every member is counted, a zoom field that does not parse counts as zoom 0
func estStrings(ids []string, H, V int64, sid bool) float64 {
	s := 0.0
	for _, id := range ids {
		fs := strings.Split(id, "/")
		hs, vs := fs[0], fs[0]
		if !sid {
			vs = "0"
			if len(fs) >= 5 {
				vs = fs[3]
			}
		}
		h, e1 := strconv.ParseInt(hs, 10, 64)
		v, e2 := strconv.ParseInt(vs, 10, 64)
		if e1 != nil {
			h = 0
		}
		if e2 != nil {
			v = 0
		}
		if !sid && len(fs) < 5 { // no vertical-zoom field to read: count the horizontal expansion only
			v = V
		}
		s += grow(H, h, V, v)
	}
	return s
}

// a malformed string derived from a given ID (so that an implementation that wrongly accepts it still does bounded work)
func malformedNear(g *Gen, e eid, sid bool, zoomJunk bool) string {
	fs := strings.Split(e.ext(), "/")
	zoomIdx := map[int]bool{0: true, 3: true}
	if sid {
		fs = strings.Split(e.sid(), "/")
		zoomIdx = map[int]bool{0: true}
	}
	junk := []string{"x", "", " ", "1 ", " 1", "1.5", "0x10", "９", "1e2", "--1", "+", "-", "92233720368547758070", "-9223372036854775809", "1_0", "١", "1\t", "a"}
	n := len(fs)
	switch g.Intn(10) {
	case 0, 8, 9: // one field too many
		fs = append(fs, pickS(g, "0", "7", "", "-1"))
	case 1: // one field missing (never the first one: the zoom stays where it is)
		i := 1 + g.Intn(n-1)
		fs = append(fs[:i:i], fs[i+1:]...)
	case 2, 3: // junk in an index field (or in a zoom field when the target zooms are small)
		i := g.Intn(n)
		for zoomIdx[i] && !zoomJunk {
			i = g.Intn(n)
		}
		fs[i] = junk[g.Intn(len(junk))]
	case 4:
		return strings.Join(fs, "/") + "/"
	case 5:
		i := 1 + g.Intn(n-1)
		return strings.Join(fs[:i], "/") + pickS(g, "//", ",", " /", "/ ", "\\") + strings.Join(fs[i:], "/")
	case 6:
		return strings.Join(fs, "/") + pickS(g, " ", "\n", "/0/0", "x")
	default: // the other notation: an extended ID where a spatial ID is expected and vice versa
		if sid {
			return e.ext()
		}
		return e.sid()
	}
	return strings.Join(fs, "/")
}

func callExt(a []w.Val) w.Val {
	ids, H, V := w.AsStrs(a[0]), w.AsInt(a[1]), w.AsInt(a[2])
	if !(estStrings(ids, H, V, false) <= goCap) {
		return w.S(skipMarker)
	}
	r, err := integrate.ChangeExtendedSpatialIdsZoom(ids, H, V)
	return w.WithErr(w.Strs(r), err)
}
func callSid(a []w.Val) w.Val {
	ids, z := w.AsStrs(a[0]), w.AsInt(a[1])
	if !(estStrings(ids, z, z, true) <= goCap) {
		return w.S(skipMarker)
	}
	r, err := integrate.ChangeSpatialIdsZoom(ids, z)
	return w.WithErr(w.Strs(r), err)
}
func callH(a []w.Val) w.Val {
	zin, x, y, zout := w.AsInt(a[0]), w.AsInt(a[1]), w.AsInt(a[2]), w.AsInt(a[3])
	if grow(zout, zin, 0, 0) > 20000 {
		return w.S(skipMarker)
	}
	return w.Strs(integrate.HorizontalZoom(zin, x, y, zout))
}
func callV(a []w.Val) w.Val {
	zin, f, zout := w.AsInt(a[0]), w.AsInt(a[1]), w.AsInt(a[2])
	if grow(0, 0, zout, zin) > 20000 {
		return w.S(skipMarker)
	}
	return w.Strs(integrate.VerticalZoom(zin, f, zout))
}
func callMinMax(a []w.Val) w.Val {
	x0, y0, x1, y1 := integrate.HorizontalZoomMinMax(w.AsInt(a[0]), w.AsInt(a[1]), w.AsInt(a[2]), w.AsInt(a[3]))
	return w.Ints([]int64{x0, y0, x1, y1})
}

var single = map[string]func([]w.Val) w.Val{
	"ChangeExtendedSpatialIdsZoom": callExt, "ChangeSpatialIdsZoom": callSid,
	"HorizontalZoom": callH, "VerticalZoom": callV, "HorizontalZoomMinMax": callMinMax,
}

// Sequence: [[fn, args], ...] performed back to back in one invocation; result = list of the results
func callSeq(a []w.Val) w.Val {
	calls := w.AsList(a[0])
	out := make(w.List, 0, len(calls))
	for _, c := range calls {
		p := w.AsList(c)
		f, ok := single[w.AsStr(p[0])]
		if !ok {
			panic("harness: unknown function in sequence")
		}
		out = append(out, f(w.AsList(p[1])))
	}
	return out
}

func pickS(g *Gen, xs ...string) string { return xs[g.Intn(len(xs))] }

func call(fn string, args ...w.Val) w.Val { return w.L(w.S(fn), w.List(args)) }

// ---------------------------------------------------------------------------------------------------------------------------------
// generators

func clampZ(z int64) int64 {
	if z < 0 {
		return 0
	}
	if z > 35 {
		return 35
	}
	return z
}

// difference target - input on one axis: 0, up (1..maxUp) or down
func pickDiff(g *Gen, maxUp int64) int64 {
	switch g.Intn(10) {
	case 0, 1:
		return 0
	case 2, 3, 4, 5:
		return 1 + g.Int63n(maxUp)
	case 6:
		return -1
	case 7:
		return -(1 + g.Int63n(4))
	}
	return -(1 + g.Int63n(35))
}

// vertical index at zoom v, aimed at the lowering by d = v - V: negative exact multiples of 2^d and their neighbours
func vIndexFor(g *Gen, v, V int64, tags *[]string) int64 {
	w2 := int64(1) << uint(v)
	if V < v && g.Chance(0.35) {
		d := uint(v - V)
		maxk := int64(1) << uint(V) // -2^v <= -(k<<d)  <=>  k <= 2^V
		k := int64(1)
		if maxk > 1 {
			switch g.Intn(3) {
			case 0:
				k = 1
			case 1:
				k = maxk
			default:
				k = 1 + g.Int63n(maxk)
			}
		}
		f := -(k << d) + g.Pick(0, 0, 0, 1, -1)
		if f >= -w2 && f < w2 {
			*tags = append(*tags, "neg-multiple")
			return f
		}
	}
	return g.VIndex(v)
}

// refine-or-keep only: 0 or up
func pickUp(g *Gen, maxUp int64) int64 {
	if g.Chance(0.3) {
		return 0
	}
	return 1 + g.Int63n(maxUp)
}

// one valid ID for target (H,V) whose expansion stays within the budget
func mkID(g *Gen, H, V int64, budget float64, tags *[]string) eid {
	return mkIDm(g, H, V, budget, false, tags)
}
func mkIDm(g *Gen, H, V int64, budget float64, refine bool, tags *[]string) eid {
	h := clampZ(H - pickDiff(g, 4))
	v := clampZ(V - pickDiff(g, 8))
	if refine {
		h, v = clampZ(H-pickUp(g, 3)), clampZ(V-pickUp(g, 5))
	}
	for grow(H, h, V, v) > budget {
		if V > v && (H <= h || g.Chance(0.5)) {
			v++
		} else {
			h++
		}
	}
	return eid{h, g.HIndex(h), g.HIndex(h), v, vIndexFor(g, v, V, tags)}
}

func asr(i int64, s uint) int64 { return i >> s }

// fit returns e itself or a descendant of e (one level at a time towards the target zooms) whose expansion is within `left`
func fit(g *Gen, e eid, H, V int64, left float64, sid bool) eid {
	for grow(H, e.h, V, e.v) > left {
		if sid { // one zoom for both axes
			e.h, e.x, e.y = e.h+1, e.x*2+g.Int63n(2), e.y*2+g.Int63n(2)
			e.v, e.f = e.v+1, e.f*2+g.Int63n(2)
			continue
		}
		if V > e.v && (H <= e.h || g.Chance(0.5)) {
			e.v, e.f = e.v+1, e.f*2+g.Int63n(2)
		} else {
			e.h, e.x, e.y = e.h+1, e.x*2+g.Int63n(2), e.y*2+g.Int63n(2)
		}
	}
	return e
}

// an ancestor or a descendant of e (nested inputs)
// nearMiss moves a relative off its partner on ONE axis by a step or two (kept inside the grid): nested on the other axes, a neighbour
// on this one — the arrangement in which a containment test that mixes up the axes (or their zoom differences) goes wrong
func nearMiss(g *Gen, r eid) eid {
	d := 1 + g.Int63n(2)
	if g.Chance(0.5) {
		d = -d
	}
	switch g.Intn(4) {
	case 0:
		if w := int64(1) << uint(r.h); r.x+d >= 0 && r.x+d < w {
			r.x += d
		}
	case 1:
		if w := int64(1) << uint(r.h); r.y+d >= 0 && r.y+d < w {
			r.y += d
		}
	default:
		if w := int64(1) << uint(r.v); r.f+d >= -w && r.f+d < w {
			r.f += d
		}
	}
	return r
}

// sameNumerals keeps the index numerals of e and changes one zoom field by 1..3 (only if the numerals are still inside the grid of the new
// zoom): on the other axis the two IDs are the same cell, on this one they are whatever the numerals happen to be at the two zooms
func sameNumerals(g *Gen, e eid) eid {
	r := e
	d := 1 + g.Int63n(3)
	if g.Chance(0.4) {
		d = -d
	}
	if g.Chance(0.6) {
		if v := e.v + d; v >= 0 && v <= 35 && e.f >= -(int64(1)<<uint(v)) && e.f < int64(1)<<uint(v) {
			r.v = v
		}
	} else {
		if h := e.h + d; h >= 0 && h <= 35 && e.x < int64(1)<<uint(h) && e.y < int64(1)<<uint(h) {
			r.h = h
		}
	}
	return r
}

func relative(g *Gen, e eid) eid {
	if g.Chance(0.2) {
		return sameNumerals(g, e)
	}
	r := relativeExact(g, e)
	if g.Chance(0.3) {
		r = nearMiss(g, r)
	}
	return r
}

func relativeExact(g *Gen, e eid) eid {
	r := e
	if g.Chance(0.5) { // ancestor
		a, b := g.Int63n(e.h+1), g.Int63n(e.v+1)
		if g.Chance(0.5) {
			a = g.Int63n(a + 1)
			b = g.Int63n(b + 1)
		}
		r.h, r.x, r.y = e.h-a, e.x>>uint(a), e.y>>uint(a)
		r.v, r.f = e.v-b, asr(e.f, uint(b))
		return r
	}
	a, b := g.Int63n(3), g.Int63n(4)
	if e.h+a > 35 {
		a = 35 - e.h
	}
	if e.v+b > 35 {
		b = 35 - e.v
	}
	r.h, r.x, r.y = e.h+a, e.x<<uint(a)+g.Int63n(1<<uint(a)), e.y<<uint(a)+g.Int63n(1<<uint(a))
	r.v, r.f = e.v+b, e.f<<uint(b)+g.Int63n(1<<uint(b))
	return r
}

func pickBudget(g *Gen) float64 {
	switch p := g.Intn(100); {
	case p < 84:
		return 120
	case p < 98:
		return 400
	}
	return 1500
}

func listLen(g *Gen) int {
	switch p := g.Intn(100); {
	case p < 3:
		return 0
	case p < 33:
		return 1
	case p < 58:
		return 2
	}
	return 3 + g.Intn(4)
}

// a list of 0..6 valid IDs for target (H,V): mixed zooms, negative f, duplicates, nested IDs.
// refine = no element is coarsened (every input zoom <= target) and the list contains a repeated or nested ID: the only thing that
// removes the resulting duplicates is the final Unique.
func mkList(g *Gen, H, V int64, budget float64, sid bool, tags *[]string) []eid {
	return mkListM(g, H, V, budget, sid, false, tags)
}
func mkListM(g *Gen, H, V int64, budget float64, sid, refine bool, tags *[]string) []eid {
	n := listLen(g)
	if refine && n < 2 {
		n = 2 + g.Intn(3)
	}
	if g.Chance(0.03) { // long lists: mostly one result per input, many repeated and nested members
		n = 20 + g.Intn(31)
		*tags = append(*tags, "long-list")
	}
	ids := []eid{}
	overlap := false
	for len(ids) < n {
		left := budget - est(ids, H, V)
		if left < 1 {
			break
		}
		var e eid
		forced := refine && !overlap && len(ids) == n-1
		pd, pn := 0.2, 0.25
		if refine {
			pd, pn = 0.3, 0.5
		}
		isOverlap := false
		switch {
		case len(ids) > 0 && (g.Chance(pd) || (forced && g.Chance(0.4))):
			e = ids[g.Intn(len(ids))]
			*tags = append(*tags, "dup")
			isOverlap = true
		case len(ids) > 0 && (g.Chance(pn) || forced) && !sid:
			base := ids[g.Intn(len(ids))]
			if g.Chance(0.5) { // directly after its partner (what a "same as the previous ID" shortcut would look at)
				base = ids[len(ids)-1]
			}
			e = relative(g, base)
			if refine { // keep it at or below the target zooms
				for e.h > H {
					e.h, e.x, e.y = e.h-1, e.x>>1, e.y>>1
				}
				for e.v > V {
					e.v, e.f = e.v-1, e.f>>1
				}
			}
			*tags = append(*tags, "nested")
			isOverlap = true
		case len(ids) > 0 && (g.Chance(pn) || forced) && sid:
			b := ids[g.Intn(len(ids))]
			if g.Chance(0.4) && b.h < 35 { // descendant
				a := 1 + g.Int63n(2)
				if b.h+a > 35 {
					a = 35 - b.h
				}
				m := int64(1) << uint(a)
				e = eid{b.h + a, b.x*m + g.Int63n(m), b.y*m + g.Int63n(m), b.h + a, b.f*m + g.Int63n(m)}
			} else {
				a := g.Int63n(b.h + 1)
				if g.Chance(0.5) {
					a = g.Int63n(a + 1)
				}
				e = eid{b.h - a, b.x >> uint(a), b.y >> uint(a), b.h - a, asr(b.f, uint(a))}
			}
			*tags = append(*tags, "nested")
			isOverlap = true
		case sid:
			z := clampZ(H - pickDiff(g, 4))
			if refine {
				z = clampZ(H - pickUp(g, 2))
			}
			for grow(H, z, H, z) > left {
				z++
			}
			e = eid{z, g.HIndex(z), g.HIndex(z), z, vIndexFor(g, z, H, tags)}
		default:
			e = mkIDm(g, H, V, left, refine, tags)
		}
		if grow(H, e.h, V, e.v) > left {
			if !(isOverlap && refine) {
				continue
			}
			e = fit(g, e, H, V, left, sid) // a descendant of the overlapping partner that fits: still nested in it
		}
		overlap = overlap || isOverlap
		ids = append(ids, e)
	}
	if g.Chance(0.3) {
		g.R.Shuffle(len(ids), func(i, j int) { ids[i], ids[j] = ids[j], ids[i] })
	}
	if refine && overlap {
		*tags = append(*tags, "refine-only-overlapping")
	}
	return ids
}

// an accepted non-canonical spelling of a decimal field: strconv.ParseInt takes a leading '+', leading zeros and "-0"
func respell(g *Gen, f string) string {
	neg := strings.HasPrefix(f, "-")
	d := strings.TrimPrefix(f, "-")
	switch g.Intn(5) {
	case 0:
		if !neg {
			return "+" + d
		}
		return "-0" + d
	case 1:
		return map[bool]string{false: "", true: "-"}[neg] + "00" + d
	case 2:
		if d == "0" {
			return pickS(g, "-0", "+0", "000", "-00")
		}
		return map[bool]string{false: "+0", true: "-000"}[neg] + d
	case 3:
		return map[bool]string{false: "", true: "-"}[neg] + "0" + d
	}
	if !neg {
		return "+" + d
	}
	return f
}

// re-spell one to three fields of some members; sometimes append a re-spelled copy of a member (same ID, other string)
func respellList(g *Gen, ss []string) []string {
	out := append([]string{}, ss...)
	if len(out) == 0 {
		return out
	}
	for k := 0; k < 1+g.Intn(3); k++ {
		i := g.Intn(len(out))
		fs := strings.Split(out[i], "/")
		for j := 0; j < 1+g.Intn(3); j++ {
			q := g.Intn(len(fs))
			if n, err := strconv.ParseInt(fs[q], 10, 64); err == nil && strconv.FormatInt(n, 10) == fs[q] { // canonical fields only: no "++1"
				fs[q] = respell(g, fs[q])
			}
		}
		t := strings.Join(fs, "/")
		if g.Chance(0.4) {
			out = insertAt(out, g.Intn(len(out)+1), t) // the same ID twice, spelled differently
		} else {
			out[i] = t
		}
	}
	return out
}

// a parseable ID that is not valid (outside the property's quantifier; small fields): index out of range for its zoom, or negative x/y
func invalidNear(g *Gen, e eid) eid {
	wh, wv := int64(1)<<uint(e.h), int64(1)<<uint(e.v)
	switch g.Intn(5) {
	case 0:
		e.x = wh + g.Int63n(wh+3)
	case 1:
		e.y = wh + g.Int63n(3)
	case 2:
		e.f = wv + g.Int63n(wv+3)
	case 3:
		e.f = -wv - 1 - g.Int63n(wv+3)
	default:
		e.x = -1 - g.Int63n(wh+2)
	}
	return e
}

func strs(ids []eid, sid bool) []string {
	r := make([]string, len(ids))
	for i, e := range ids {
		if sid {
			r[i] = e.sid()
		} else {
			r[i] = e.ext()
		}
	}
	return r
}

func dirTag(axis string, ids []eid, H, V int64) []string {
	up, down, same, neg := false, false, false, false
	for _, e := range ids {
		z, t := e.h, H
		if axis == "v" {
			z, t = e.v, V
		}
		switch {
		case t > z:
			up = true
		case t < z:
			down = true
		default:
			same = true
		}
		if e.f < 0 {
			neg = true
		}
	}
	var r []string
	if up {
		r = append(r, axis+"-up")
	}
	if down {
		r = append(r, axis+"-down")
	}
	if same {
		r = append(r, axis+"-same")
	}
	if neg && axis == "v" {
		r = append(r, "neg-f")
	}
	return r
}

func identity(ids []eid, H, V int64) bool {
	for _, e := range ids {
		if e.h != H || e.v != V {
			return false
		}
	}
	return true
}

func sizeTag(x float64) string {
	switch {
	case x <= 10:
		return "est<=10"
	case x <= 120:
		return "est<=120"
	case x <= 400:
		return "est<=400"
	}
	if x <= 1500 {
		return "est<=1500"
	}
	return "est>1500"
}

var badZooms = []int64{-1, -1, 36, 36, 36, 37, 100, 1 << 40, -(1 << 62), math.MinInt64, math.MaxInt64, -36}

func malformedSID(g *Gen) string {
	fixed := []string{"", "/", "///", "1/2/3", "1/2/3/4/5", "a/0/0/0", "1/0/0/", "1//0/0", "/0/0/0", "1/0 /0/0", " 1/0/0/0", "1/0/0/0 ",
		"1/99999999999999999999/0/0", "1/0/0/1.0", "1/-/0/0", "1/+/0/0", "0x1/0/0/0", "1/0/0/0/", "1,0,0,0", "1/0/0/1e1", "１/0/0/0"}
	if g.Chance(0.5) {
		return fixed[g.Intn(len(fixed))]
	}
	z := g.Int63n(4)
	fs := []string{strconv.FormatInt(z, 10), strconv.FormatInt(g.VIndex(z), 10), strconv.FormatInt(g.HIndex(z), 10), strconv.FormatInt(g.HIndex(z), 10)}
	switch g.Intn(5) {
	case 0:
		i := g.Intn(4)
		fs = append(fs[:i], fs[i+1:]...)
	case 1:
		fs = append(fs, "0")
	case 2:
		junk := []string{"x", "", " ", "1 ", "1.5", "0x10", "９", "1e2", "--1", "+", "-", "92233720368547758070", "1_0"}
		fs[g.Intn(4)] = junk[g.Intn(len(junk))]
	case 3:
		return strings.Join(fs, "//")
	case 4:
		return strings.Join(fs, "/") + "/"
	}
	return strings.Join(fs, "/")
}

func insertAt(l []string, i int, s string) []string {
	r := append([]string{}, l[:i]...)
	r = append(r, s)
	return append(r, l[i:]...)
}

// another target for the same inputs within the budget (for related consecutive calls)
func retarget(g *Gen, ids []eid, H, V int64, budget float64) (int64, int64) {
	for try := 0; try < 12; try++ {
		h2, v2 := H, V
		switch g.Intn(3) {
		case 0:
			h2 = clampZ(H + g.Int63n(7) - 3)
		case 1:
			v2 = clampZ(V + g.Int63n(9) - 4)
		default:
			h2, v2 = clampZ(H+g.Int63n(5)-2), clampZ(V+g.Int63n(5)-2)
		}
		if (h2 != H || v2 != V) && est(ids, h2, v2) <= budget {
			return h2, v2
		}
	}
	return clampZ(H - 1), clampZ(V - 1)
}

func genExt(r *run.Runner, g *Gen, i int) {
	H, V := g.Zoom(), g.Zoom()
	tags := []string{}
	ids := mkListM(g, H, V, pickBudget(g), false, i%5 == 1, &tags)
	ss := strs(ids, false)
	triv := len(ids) == 0 || identity(ids, H, V)
	tags = append(tags, Tag("len=%d", len(ids)), sizeTag(est(ids, H, V)))
	tags = append(tags, dirTag("h", ids, H, V)...)
	tags = append(tags, dirTag("v", ids, H, V)...)
	switch p := g.Intn(100); {
	case p < 10 && len(ss) > 0:
		ss = respellList(g, ss)
		tags = append(tags, "non-canonical-spelling")
	case p < 13 && len(ids) > 0: // outside the quantifier: correspondence and output well-formedness only
		k := g.Intn(len(ids))
		ss[k] = invalidNear(g, ids[k]).ext()
		tags = append(tags, "invalid-parseable")
	}
	if g.Chance(0.05) { // error paths: a malformed member or an invalid target zoom
		triv = false
		if g.Chance(0.5) {
			small := H <= 3 && V <= 4
			if !small && g.Chance(0.3) {
				H, V, small = g.Int63n(4), g.Int63n(5), true
				ids = mkList(g, H, V, 120, false, &tags)
				ss = strs(ids, false)
			}
			var m string
			if small && g.Chance(0.5) {
				m = g.Malformed()
			} else {
				m = malformedNear(g, mkID(g, H, V, 120, &tags), false, small)
			}
			ss = insertAt(ss, g.Intn(len(ss)+1), m)
			tags = []string{"malformed"}
			if estStrings(ss, H, V, false) > 2000 {
				ss, H, V = []string{m}, 0, 0
				tags = append(tags, "malformed-short-list")
			}
		} else {
			if g.Chance(0.5) {
				H = badZooms[g.Intn(len(badZooms))]
			} else {
				V = badZooms[g.Intn(len(badZooms))]
			}
			tags = []string{"badzoom"}
			if est(ids, H, V) > 2000 { // an implementation without the check would try to build this: use a list that stays small
				ss = []string{}
				if m := malformedNear(g, eid{35, 1, 2, 35, -3}, false, false); g.Chance(0.5) && estStrings([]string{m}, H, V, false) <= 2000 {
					ss = []string{m}
				}
				tags = append(tags, "badzoom-short-list")
			}
		}
	}
	r.Run(run.Case{Prop: "C03", Fn: "ChangeExtendedSpatialIdsZoom", Tags: tags, Trivial: triv, Args: []w.Val{w.Strs(ss), w.I(H), w.I(V)}})
}

func genSid(r *run.Runner, g *Gen, i int) {
	z := g.Zoom()
	tags := []string{}
	ids := mkListM(g, z, z, pickBudget(g), true, i%5 == 2, &tags)
	ss := strs(ids, true)
	triv := len(ids) == 0 || identity(ids, z, z)
	tags = append(tags, Tag("len=%d", len(ids)), sizeTag(est(ids, z, z)))
	tags = append(tags, dirTag("v", ids, z, z)...)
	switch p := g.Intn(100); {
	case p < 10 && len(ss) > 0:
		ss = respellList(g, ss)
		tags = append(tags, "non-canonical-spelling")
	case p < 13 && len(ids) > 0:
		k := g.Intn(len(ids))
		ss[k] = invalidNear(g, ids[k]).sid()
		tags = append(tags, "invalid-parseable")
	}
	if g.Chance(0.06) {
		triv = false
		if g.Chance(0.6) {
			small := z <= 2
			if !small && g.Chance(0.3) {
				z, small = g.Int63n(3), true
				ids = mkList(g, z, z, 120, true, &tags)
				ss = strs(ids, true)
			}
			var m string
			if small && g.Chance(0.5) {
				m = malformedSID(g)
			} else {
				zz := clampZ(z - pickDiff(g, 2))
				m = malformedNear(g, eid{zz, g.HIndex(zz), g.HIndex(zz), zz, g.VIndex(zz)}, true, small)
			}
			ss = insertAt(ss, g.Intn(len(ss)+1), m)
			tags = []string{"malformed"}
			if estStrings(ss, z, z, true) > 2000 {
				ss, z = []string{m}, 0
				tags = append(tags, "malformed-short-list")
			}
		} else {
			z = badZooms[g.Intn(len(badZooms))]
			tags = []string{"badzoom"}
			if est(ids, z, z) > 2000 {
				ss = []string{}
				if m := malformedNear(g, eid{35, 1, 2, 35, -3}, true, false); g.Chance(0.5) && estStrings([]string{m}, z, z, true) <= 2000 {
					ss = []string{m}
				}
				tags = append(tags, "badzoom-short-list")
			}
		}
	}
	r.Run(run.Case{Prop: "C03", Fn: "ChangeSpatialIdsZoom", Tags: tags, Trivial: triv, Args: []w.Val{w.Strs(ss), w.I(z)}})
}

func hArgs(g *Gen, tags *[]string) (int64, int64, int64, int64) {
	zout := g.Zoom()
	d := pickDiff(g, 4)
	if g.Chance(0.03) {
		d = 5 // 4^5 results
	}
	zin := clampZ(zout - d)
	if zout > zin {
		*tags = append(*tags, "h-up")
	} else if zout < zin {
		*tags = append(*tags, "h-down")
	} else {
		*tags = append(*tags, "h-same")
	}
	return zin, g.HIndex(zin), g.HIndex(zin), zout
}
func vArgs(g *Gen, tags *[]string) (int64, int64, int64) {
	zout := g.Zoom()
	d := pickDiff(g, 8)
	if g.Chance(0.03) {
		d = 9 + g.Int63n(2) // up to 2^10 results
	}
	zin := clampZ(zout - d)
	f := vIndexFor(g, zin, zout, tags)
	if zout > zin {
		*tags = append(*tags, "v-up")
	} else if zout < zin {
		*tags = append(*tags, "v-down")
	} else {
		*tags = append(*tags, "v-same")
	}
	if f < 0 {
		*tags = append(*tags, "neg-f")
	}
	return zin, f, zout
}

// related consecutive calls in one invocation
func genSeq(r *run.Runner, g *Gen) {
	var calls []w.Val
	kind := ""
	switch g.Intn(7) {
	case 0: // same IDs, other targets
		kind = "ext-retarget"
		H, V := g.Zoom(), g.Zoom()
		var t []string
		ids := mkList(g, H, V, 150, false, &t)
		for len(ids) == 0 {
			ids = mkList(g, H, V, 150, false, &t)
		}
		ss := w.Strs(strs(ids, false))
		calls = append(calls, call("ChangeExtendedSpatialIdsZoom", ss, w.I(H), w.I(V)))
		for k := 0; k < 1+g.Intn(3); k++ {
			h2, v2 := retarget(g, ids, H, V, 300)
			calls = append(calls, call("ChangeExtendedSpatialIdsZoom", ss, w.I(h2), w.I(v2)))
		}
		if g.Chance(0.5) {
			calls = append(calls, call("ChangeExtendedSpatialIdsZoom", ss, w.I(H), w.I(V)))
		}
	case 1: // identical twice, then permuted
		kind = "ext-repeat-permute"
		H, V := g.Zoom(), g.Zoom()
		var t []string
		ids := mkList(g, H, V, 300, false, &t)
		ss := strs(ids, false)
		calls = append(calls, call("ChangeExtendedSpatialIdsZoom", w.Strs(ss), w.I(H), w.I(V)), call("ChangeExtendedSpatialIdsZoom", w.Strs(ss), w.I(H), w.I(V)))
		p := append([]string{}, ss...)
		g.R.Shuffle(len(p), func(i, j int) { p[i], p[j] = p[j], p[i] })
		calls = append(calls, call("ChangeExtendedSpatialIdsZoom", w.Strs(p), w.I(H), w.I(V)))
		if len(ss) > 0 && g.Chance(0.6) {
			// a call that fails after it has worked through the valid IDs (malformed last element), then the identical valid call:
			// whatever the failed call left behind (pooled buffers, a "last expanded" memo) must not reach the next result
			bad := append(append([]string{}, ss...), ss[len(ss)-1]+"x")
			calls = append(calls, call("ChangeExtendedSpatialIdsZoom", w.Strs(bad), w.I(H), w.I(V)), call("ChangeExtendedSpatialIdsZoom", w.Strs(ss), w.I(H), w.I(V)))
			kind = "ext-repeat-permute-failing-tail"
		}
	case 2: // same tile, other f / same f, other tile (extended form, single IDs)
		kind = "ext-same-tile-other-f"
		H, V := g.Zoom(), g.Zoom()
		var t []string
		e := mkID(g, H, V, 150, &t)
		e2 := e
		e2.f = vIndexFor(g, e.v, V, &t)
		e3 := e
		e3.x, e3.y = g.HIndex(e.h), g.HIndex(e.h)
		for _, q := range []eid{e, e2, e3, e} {
			calls = append(calls, call("ChangeExtendedSpatialIdsZoom", w.Strs([]string{q.ext()}), w.I(H), w.I(V)))
		}
	case 3: // spatial-ID form: other zoom, repeat
		kind = "sid-retarget"
		z := g.Zoom()
		var t []string
		ids := mkList(g, z, z, 150, true, &t)
		ss := w.Strs(strs(ids, true))
		calls = append(calls, call("ChangeSpatialIdsZoom", ss, w.I(z)))
		z2 := clampZ(z + g.Int63n(5) - 3)
		if est(ids, z2, z2) > 600 {
			z2 = clampZ(z - 1)
		}
		calls = append(calls, call("ChangeSpatialIdsZoom", ss, w.I(z2)), call("ChangeSpatialIdsZoom", ss, w.I(z)))
	case 4: // HorizontalZoom / MinMax: same tile other output zoom, other tile same zooms
		kind = "h-related"
		var t []string
		zin, x, y, zout := hArgs(g, &t)
		for zout-zin > 4 {
			zin, x, y, zout = hArgs(g, &t)
		}
		z2 := clampZ(zout + g.Pick(-2, -1, 1, 2))
		if z2-zin > 4 {
			z2 = zin
		}
		x2, y2 := g.HIndex(zin), g.HIndex(zin)
		calls = append(calls,
			call("HorizontalZoom", w.I(zin), w.I(x), w.I(y), w.I(zout)), call("HorizontalZoom", w.I(zin), w.I(x), w.I(y), w.I(z2)),
			call("HorizontalZoomMinMax", w.I(zin), w.I(x), w.I(y), w.I(zout)), call("HorizontalZoomMinMax", w.I(zin), w.I(x2), w.I(y2), w.I(zout)),
			call("HorizontalZoomMinMax", w.I(zin), w.I(x), w.I(y), w.I(z2)), call("HorizontalZoom", w.I(zin), w.I(x2), w.I(y), w.I(zout)),
			call("HorizontalZoom", w.I(zin), w.I(x), w.I(y), w.I(zout)))
	case 5: // VerticalZoom: same f other zoom, other f same zooms
		kind = "v-related"
		var t []string
		zin, f, zout := vArgs(g, &t)
		for zout-zin > 8 {
			zin, f, zout = vArgs(g, &t)
		}
		z2 := clampZ(zout + g.Pick(-2, -1, 1, 2))
		if z2-zin > 9 {
			z2 = zin
		}
		f2 := vIndexFor(g, zin, zout, &t)
		calls = append(calls, call("VerticalZoom", w.I(zin), w.I(f), w.I(zout)), call("VerticalZoom", w.I(zin), w.I(f), w.I(z2)),
			call("VerticalZoom", w.I(zin), w.I(f2), w.I(zout)), call("VerticalZoom", w.I(zin), w.I(-f-1), w.I(zout)),
			call("VerticalZoom", w.I(zin), w.I(f), w.I(zout)))
	default: // helpers then the list API on the same tile
		kind = "mixed"
		H, V := g.Zoom(), g.Zoom()
		var t []string
		e := mkID(g, H, V, 150, &t)
		calls = append(calls, call("HorizontalZoomMinMax", w.I(e.h), w.I(e.x), w.I(e.y), w.I(H)))
		if H-e.h <= 6 {
			calls = append(calls, call("HorizontalZoom", w.I(e.h), w.I(e.x), w.I(e.y), w.I(H)))
		}
		if V-e.v <= 12 {
			calls = append(calls, call("VerticalZoom", w.I(e.v), w.I(e.f), w.I(V)))
		}
		calls = append(calls, call("ChangeExtendedSpatialIdsZoom", w.Strs([]string{e.ext()}), w.I(H), w.I(V)))
		h2, v2 := retarget(g, []eid{e}, H, V, 300)
		calls = append(calls, call("ChangeExtendedSpatialIdsZoom", w.Strs([]string{e.ext()}), w.I(h2), w.I(v2)))
		if e.h == e.v {
			calls = append(calls, call("ChangeSpatialIdsZoom", w.Strs([]string{e.sid()}), w.I(e.h)), call("ChangeSpatialIdsZoom", w.Strs([]string{e.sid()}), w.I(clampZ(e.h-1))))
		}
	}
	r.Run(run.Case{Prop: "C03", Fn: "Sequence", Tags: []string{"seq", "seq:" + kind}, Args: []w.Val{w.List(calls)}})
}

type fixedCase struct {
	ids  []string
	H, V int64
}

func fixedCases(r *run.Runner) {
	for _, c := range []fixedCase{
		{[]string{"3/1/1/3/-1"}, 3, 1}, // the historical defect: truncation gave 3/1/1/1/0
		{[]string{"1/0/0/1/-2"}, 1, 0}, {[]string{"1/0/0/1/-1"}, 1, 0}, {[]string{"1/0/0/2/-2"}, 1, 1}, {[]string{"1/0/0/2/-3"}, 1, 1},
		{[]string{"25/0/0/25/-1024"}, 25, 24}, {[]string{"25/0/0/25/-1025"}, 25, 24}, {[]string{"25/0/0/25/-1023"}, 25, 24},
		{[]string{"25/1/1/25/-33554432"}, 25, 0}, {[]string{"35/34359738367/0/35/-34359738368"}, 0, 0},
		{[]string{"35/34359738367/34359738367/35/34359738367"}, 34, 34}, {[]string{"0/0/0/0/-1"}, 2, 3}, {[]string{"0/0/0/0/0", "0/0/0/0/-1"}, 1, 1},
		{[]string{"2/3/3/2/-4", "1/1/1/1/-2", "2/3/3/2/-4"}, 1, 1}, {[]string{"5/7/9/3/-8", "4/3/4/2/-4", "6/14/18/4/-16"}, 5, 3},
		{[]string{}, 3, 3}, {nil, 0, 35},
		// overlapping inputs that are only refined or kept: the duplicates must be removed
		{[]string{"14/1024/2048/14/-1", "15/2049/4097/15/-2"}, 16, 16}, {[]string{"3/1/1/3/-1", "3/1/1/3/-1"}, 3, 3}, {[]string{"3/1/1/3/-1", "3/1/1/3/-1"}, 4, 4},
		{[]string{"2/1/1/2/-1", "3/2/3/3/-2", "4/5/6/4/-3"}, 4, 4}, {[]string{"0/0/0/0/-1", "1/1/1/1/-1"}, 1, 2},
	} {
		r.Run(run.Case{Prop: "C03", Fn: "ChangeExtendedSpatialIdsZoom", Tags: []string{"fixed"}, Args: []w.Val{w.Strs(c.ids), w.I(c.H), w.I(c.V)}})
	}
	for _, c := range [][3]int64{{1, -2, 0}, {1, -1, 0}, {2, -2, 1}, {2, -3, 1}, {2, -4, 0}, {25, -1024, 24}, {25, -1025, 24}, {25, -2048, 14}, {35, -(1 << 35), 0}, {35, -(1 << 35), 34}, {10, -512, 1}, {10, -513, 1}, {3, -1, 1}, {3, -8, 0}} {
		r.Run(run.Case{Prop: "C03", Fn: "VerticalZoom", Tags: []string{"fixed", "neg-multiple"}, Args: []w.Val{w.I(c[0]), w.I(c[1]), w.I(c[2])}})
	}
	r.Run(run.Case{Prop: "C03", Fn: "ChangeSpatialIdsZoom", Tags: []string{"fixed"}, Args: []w.Val{w.Strs([]string{"2/-2/1/2", "25/-1024/5/5"}), w.I(1)}})
	r.Run(run.Case{Prop: "C03", Fn: "ChangeSpatialIdsZoom", Tags: []string{"fixed"}, Args: []w.Val{w.Strs([]string{"3/-1/1/1"}), w.I(1)}})
	r.Run(run.Case{Prop: "C03", Fn: "ChangeSpatialIdsZoom", Tags: []string{"fixed"}, Args: []w.Val{w.Strs([]string{"10/-1/5/7", "11/-2/10/14"}), w.I(12)}})
	r.Run(run.Case{Prop: "C03", Fn: "ChangeSpatialIdsZoom", Tags: []string{"fixed"}, Args: []w.Val{w.Strs([]string{"10/-1/5/7", "10/-1/5/7"}), w.I(10)}})
}

// thorough tier: every ID with zooms <= 2 against every target zoom <= 3, both APIs and the helpers
func exhaustive(r *run.Runner) {
	tags := []string{"exhaustive"}
	for h := int64(0); h <= 2; h++ {
		for x := int64(0); x < 1<<uint(h); x++ {
			for y := int64(0); y < 1<<uint(h); y++ {
				for H := int64(0); H <= 3; H++ {
					r.Run(run.Case{Prop: "C03", Fn: "HorizontalZoom", Tags: tags, Trivial: h == H, Args: []w.Val{w.I(h), w.I(x), w.I(y), w.I(H)}})
					r.Run(run.Case{Prop: "C03", Fn: "HorizontalZoomMinMax", Tags: tags, Trivial: h == H, Args: []w.Val{w.I(h), w.I(x), w.I(y), w.I(H)}})
				}
				for v := int64(0); v <= 2; v++ {
					for f := -(int64(1) << uint(v)); f < 1<<uint(v); f++ {
						for H := int64(0); H <= 3; H++ {
							for V := int64(0); V <= 3; V++ {
								r.Run(run.Case{Prop: "C03", Fn: "ChangeExtendedSpatialIdsZoom", Tags: tags, Trivial: h == H && v == V,
									Args: []w.Val{w.Strs([]string{EID(h, x, y, v, f)}), w.I(H), w.I(V)}})
							}
						}
					}
				}
				for f := -(int64(1) << uint(h)); f < 1<<uint(h); f++ {
					for z := int64(0); z <= 3; z++ {
						r.Run(run.Case{Prop: "C03", Fn: "ChangeSpatialIdsZoom", Tags: tags, Trivial: h == z, Args: []w.Val{w.Strs([]string{SID(h, f, x, y)}), w.I(z)}})
					}
				}
			}
		}
	}
	for v := int64(0); v <= 2; v++ {
		for f := -(int64(1) << uint(v)); f < 1<<uint(v); f++ {
			for V := int64(0); V <= 3; V++ {
				r.Run(run.Case{Prop: "C03", Fn: "VerticalZoom", Tags: tags, Trivial: v == V, Args: []w.Val{w.I(v), w.I(f), w.I(V)}})
			}
		}
	}
}

func init() {
	Scale["C03"] = 5000
	Registry["C03"] = func(r *run.Runner, g *Gen, n int) {
		r.Register(&run.Fn{Name: "ChangeExtendedSpatialIdsZoom", Invoke: callExt}, &run.Fn{Name: "ChangeSpatialIdsZoom", Invoke: callSid},
			&run.Fn{Name: "HorizontalZoom", Invoke: callH}, &run.Fn{Name: "VerticalZoom", Invoke: callV},
			&run.Fn{Name: "HorizontalZoomMinMax", Invoke: callMinMax}, &run.Fn{Name: "Sequence", Invoke: callSeq},
			&run.Fn{Name: "History", Invoke: callHist})
		if n == 0 {
			return
		}
		fixedCases(r)
		fixedHistories(r)
		if g.Tier == "thorough" {
			exhaustive(r)
		}
		for i := 0; i < n; i++ {
			switch p := i % 20; {
			case p < 9:
				genExt(r, g, i)
			case p < 13:
				genSid(r, g, i)
			case p == 13:
				var tags []string
				zin, x, y, zout := hArgs(g, &tags)
				r.Run(run.Case{Prop: "C03", Fn: "HorizontalZoom", Tags: tags, Trivial: zin == zout, Args: []w.Val{w.I(zin), w.I(x), w.I(y), w.I(zout)}})
			case p == 14 || p == 15:
				var tags []string
				zin, f, zout := vArgs(g, &tags)
				r.Run(run.Case{Prop: "C03", Fn: "VerticalZoom", Tags: tags, Trivial: zin == zout, Args: []w.Val{w.I(zin), w.I(f), w.I(zout)}})
			case p == 16:
				var tags []string
				zout := g.Zoom()
				zin := g.Zoom()
				if g.Chance(0.5) {
					zin = clampZ(zout - pickDiff(g, 12)) // min/max only: no list is built
				}
				if zout > zin {
					tags = append(tags, "h-up")
				} else if zout < zin {
					tags = append(tags, "h-down")
				} else {
					tags = append(tags, "h-same")
				}
				r.Run(run.Case{Prop: "C03", Fn: "HorizontalZoomMinMax", Tags: tags, Trivial: zin == zout,
					Args: []w.Val{w.I(zin), w.I(g.HIndex(zin)), w.I(g.HIndex(zin)), w.I(zout)}})
			case p == 17:
				genSeq(r, g)
			default: // 18, 19: call histories
				genHist(r, g)
			}
		}
	}
}
