package c03

// History entry: call histories for the zoom-change functions. The property quantifies over every history of calls, so a case is a whole
// history: after a fixed priming call per function made by the invoker itself (so that a shrunk case replays identically in a fresh
// process), systematically related
// calls — the same "key-like" arguments with different remaining arguments and the reverse, valid/invalid alternations, identical
// repeats — and, per step, what the caller does with its own data around the call (overwrite its argument slice after the call, scribble
// over the returned slice after reading it). Every step's result is reported twice: as read immediately after the call and as read again
// after the whole history (a result that is silently rewritten by a later call shows up in the second reading).

import (
	"github.com/trajectoryjp/spatial_id_go/v4/integrate"

	. "verif/harness/gen"
	"verif/harness/run"
	w "verif/harness/wire"
)

type held struct {
	s     []string // the slice actually returned by the library (not a copy)
	err   error
	box   []int64
	isBox bool
	skip  bool
}

func (h held) snapshot() w.Val {
	switch {
	case h.skip:
		return w.S(skipMarker)
	case h.isBox:
		return w.Ints(h.box)
	}
	var c []string
	if h.s != nil {
		c = append(make([]string, 0, len(h.s)), h.s...)
	}
	return w.WithErr(w.Strs(c), h.err)
}

// rawCall performs one call and keeps the library's own return value; ids is the caller's argument slice (list APIs)
func rawCall(fn string, a []w.Val) (h held, ids []string) {
	switch fn {
	case "ChangeExtendedSpatialIdsZoom":
		ids = w.AsStrs(a[0])
		H, V := w.AsInt(a[1]), w.AsInt(a[2])
		if !(estStrings(ids, H, V, false) <= goCap) {
			return held{skip: true}, ids
		}
		h.s, h.err = integrate.ChangeExtendedSpatialIdsZoom(ids, H, V)
	case "ChangeSpatialIdsZoom":
		ids = w.AsStrs(a[0])
		z := w.AsInt(a[1])
		if !(estStrings(ids, z, z, true) <= goCap) {
			return held{skip: true}, ids
		}
		h.s, h.err = integrate.ChangeSpatialIdsZoom(ids, z)
	case "HorizontalZoom":
		zin, x, y, zout := w.AsInt(a[0]), w.AsInt(a[1]), w.AsInt(a[2]), w.AsInt(a[3])
		if grow(zout, zin, 0, 0) > 20000 {
			return held{skip: true}, nil
		}
		h.s = integrate.HorizontalZoom(zin, x, y, zout)
	case "VerticalZoom":
		zin, f, zout := w.AsInt(a[0]), w.AsInt(a[1]), w.AsInt(a[2])
		if grow(0, 0, zout, zin) > 20000 {
			return held{skip: true}, nil
		}
		h.s = integrate.VerticalZoom(zin, f, zout)
	case "HorizontalZoomMinMax":
		x0, y0, x1, y1 := integrate.HorizontalZoomMinMax(w.AsInt(a[0]), w.AsInt(a[1]), w.AsInt(a[2]), w.AsInt(a[3]))
		h.box, h.isBox = []int64{x0, y0, x1, y1}, true
	default:
		panic("harness: unknown function in history")
	}
	return h, ids
}

func hasMode(mode, m string) bool {
	for i := 0; i+len(m) <= len(mode); i++ {
		if mode[i:i+len(m)] == m {
			return true
		}
	}
	return false
}

// History: [[fn, args, mode], ...]; result = immediate readings of all steps followed by the late readings of all steps
func callHist(a []w.Val) w.Val {
	for _, st := range priming() { // every history starts from the same known condition: a shrunk case replays identically in a fresh process
		p := w.AsList(st)
		rawCall(w.AsStr(p[0]), w.AsList(p[1]))
	}
	steps := w.AsList(a[0])
	n := len(steps)
	imm := make(w.List, n)
	late := make(w.List, n)
	hs := make([]held, n)
	frozen := make([]bool, n)
	for i, st := range steps {
		p := w.AsList(st)
		mode := ""
		if len(p) > 2 {
			mode = w.AsStr(p[2])
		}
		h, ids := rawCall(w.AsStr(p[0]), w.AsList(p[1]))
		if hasMode(mode, "in") { // the caller reuses its own argument slice for something else
			for j := range ids {
				ids[j] = "overwritten-by-caller"
			}
		}
		imm[i] = h.snapshot()
		if hasMode(mode, "out") && !h.skip && !h.isBox { // the caller edits the slice it was given
			for j := range h.s {
				h.s[j] = "scribbled-by-caller"
			}
			if cap(h.s) > len(h.s) {
				_ = append(h.s, "appended-by-caller")
			}
			late[i], frozen[i] = imm[i], true
		}
		hs[i] = h
	}
	for i := range steps {
		if !frozen[i] {
			late[i] = hs[i].snapshot()
		}
	}
	return append(imm, late...)
}

func step(mode string, fn string, args ...w.Val) w.Val { return w.L(w.S(fn), w.List(args), w.S(mode)) }

const (
	fExt = "ChangeExtendedSpatialIdsZoom"
	fSid = "ChangeSpatialIdsZoom"
	fH   = "HorizontalZoom"
	fV   = "VerticalZoom"
	fMM  = "HorizontalZoomMinMax"
)

// a fixed, unrelated call of every function, performed by the History invoker before the steps of every case: puts any one-entry state
// into a known condition
func priming() []w.Val {
	return []w.Val{
		step("", fMM, w.I(1), w.I(0), w.I(1), w.I(1)), step("", fH, w.I(1), w.I(0), w.I(1), w.I(1)), step("", fV, w.I(1), w.I(0), w.I(1)),
		step("", fExt, w.Strs([]string{"1/0/1/1/0"}), w.I(1), w.I(1)), step("", fSid, w.Strs([]string{"1/0/0/1"}), w.I(1)),
	}
}

func pickMode(g *Gen) string {
	switch g.Intn(10) {
	case 0, 1:
		return "out"
	case 2:
		return "in"
	case 3:
		return "in+out"
	}
	return ""
}

func extStep(g *Gen, ids []eid, H, V int64) w.Val {
	return step(pickMode(g), fExt, w.Strs(strs(ids, false)), w.I(H), w.I(V))
}
func sidStep(g *Gen, ids []eid, z int64) w.Val {
	return step(pickMode(g), fSid, w.Strs(strs(ids, true)), w.I(z))
}

// an index valid at zoom z and at every finer zoom, small enough to stay valid one zoom coarser as well
func lowIdx(g *Gen, z int64) int64 {
	if z <= 1 {
		return 0
	}
	w2 := int64(1) << uint(z-1)
	switch g.Intn(4) {
	case 0:
		return 0
	case 1:
		return w2 - 1
	}
	return g.Int63n(w2)
}

// horizontal helpers: base call and every single-coordinate variation of (zin, x, y, zout, zout-zin), base repeated in between
func histH(g *Gen) ([]w.Val, string) {
	zin := 1 + g.Int63n(33)
	d := g.Int63n(7) - 3
	zout := clampZ(zin + d)
	x, y := lowIdx(g, zin), lowIdx(g, zin)
	fn := fH
	if g.Chance(0.35) {
		fn = fMM
	}
	mk := func(zi, xx, yy, zo int64) w.Val {
		f := fn
		if g.Chance(0.15) { // the other function of the pair on the same arguments
			f = map[string]string{fH: fMM, fMM: fH}[fn]
		}
		return step(pickMode(g), f, w.I(zi), w.I(xx), w.I(yy), w.I(zo))
	}
	base := func() w.Val { return step(pickMode(g), fn, w.I(zin), w.I(x), w.I(y), w.I(zout)) }
	x2, y2 := lowIdx(g, zin), lowIdx(g, zin)
	zo2 := clampZ(zout + g.Pick(-2, -1, 1, 2))
	if zo2-zin > 3 {
		zo2 = zout - 1
	}
	zi2 := zin + 1 // x, y stay valid at a finer input zoom
	vars := []w.Val{
		mk(zin+1, x, y, clampZ(zout+1)), // same x, y, same difference (unless clamped), other absolute zooms
		mk(zin-1, x, y, clampZ(zout-1)),
		mk(zin, x, y, clampZ(zo2)),                                      // other output zoom only
		mk(zi2, x, y, zout),                                             // other input zoom only
		mk(zin, x2, y, zout), mk(zin, x, y2, zout), mk(zin, y, x, zout), // other x / other y / swapped
		mk(zin, x2, y2, zout), // same zooms, other tile
	}
	g.R.Shuffle(len(vars), func(i, j int) { vars[i], vars[j] = vars[j], vars[i] })
	k := 3 + g.Intn(len(vars)-2)
	out := []w.Val{base()}
	for _, v := range vars[:k] {
		out = append(out, v)
		if g.Chance(0.7) {
			out = append(out, base())
		}
	}
	return append(out, base()), "h"
}

func histV(g *Gen) ([]w.Val, string) {
	zin := 1 + g.Int63n(33)
	d := g.Int63n(9) - 4
	zout := clampZ(zin + d)
	var t []string
	f := vIndexFor(g, zin, zout, &t)
	if f >= int64(1)<<uint(zin-1) || f < -(int64(1)<<uint(zin-1)) { // keep it valid one zoom coarser
		f >>= 1
	}
	mk := func(zi, ff, zo int64) w.Val { return step(pickMode(g), fV, w.I(zi), w.I(ff), w.I(zo)) }
	base := func() w.Val { return mk(zin, f, zout) }
	zo2 := clampZ(zout + g.Pick(-2, -1, 1, 2))
	if zo2-zin > 5 {
		zo2 = zout - 1
	}
	var t2 []string
	vars := []w.Val{
		mk(zin+1, f, clampZ(zout+1)), mk(zin-1, f, clampZ(zout-1)), // same f, same difference, other absolute zooms
		mk(zin, f, clampZ(zo2)), mk(zin+1, f, zout), // other output / other input zoom only
		mk(zin, -f-1, zout), mk(zin, f^1, zout), mk(zin, vIndexFor(g, zin, zout, &t2), zout), // same zooms, other index
	}
	g.R.Shuffle(len(vars), func(i, j int) { vars[i], vars[j] = vars[j], vars[i] })
	k := 3 + g.Intn(len(vars)-2)
	out := []w.Val{base()}
	for _, v := range vars[:k] {
		out = append(out, v)
		if g.Chance(0.7) {
			out = append(out, base())
		}
	}
	return append(out, base()), "v"
}

func shiftIDs(ids []eid, dh, dv int64) ([]eid, bool) {
	r := make([]eid, len(ids))
	for i, e := range ids {
		e.h, e.v = e.h+dh, e.v+dv
		if e.h < 0 || e.h > 35 || e.v < 0 || e.v > 35 || e.x >= int64(1)<<uint(e.h) || e.y >= int64(1)<<uint(e.h) ||
			e.f >= int64(1)<<uint(e.v) || e.f < -(int64(1)<<uint(e.v)) {
			return nil, false
		}
		r[i] = e
	}
	return r, true
}

// list API, extended form: the same list with other targets, the same targets with a partly different list, shifted zooms with the same
// indices, prefixes, permutations, identical repeats
func histExt(g *Gen) ([]w.Val, string) {
	H, V := g.Zoom(), g.Zoom()
	var t []string
	ids := mkListM(g, H, V, 60, false, g.Chance(0.4), &t)
	for len(ids) == 0 || len(ids) > 6 {
		ids = mkListM(g, H, V, 60, false, g.Chance(0.4), &t)
	}
	base := func() w.Val { return extStep(g, ids, H, V) }
	var vars []w.Val
	add := func(l []eid, h, v int64) {
		if est(l, h, v) <= 150 {
			vars = append(vars, extStep(g, l, h, v))
		}
	}
	for _, dd := range [][2]int64{{1, 0}, {0, 1}, {1, 1}, {-1, 0}, {0, -1}} { // same indices and same zoom differences at other absolute zooms
		if l, ok := shiftIDs(ids, dd[0], dd[1]); ok && H+dd[0] >= 0 && H+dd[0] <= 35 && V+dd[1] >= 0 && V+dd[1] <= 35 {
			add(l, H+dd[0], V+dd[1])
		}
	}
	h2, v2 := retarget(g, ids, H, V, 150)
	add(ids, h2, V)
	add(ids, H, v2)
	repl := func(k int) []eid { // same length, one member replaced
		l := append([]eid{}, ids...)
		l[k] = mkID(g, H, V, 30, &t)
		return l
	}
	add(repl(len(ids)-1), H, V)
	add(repl(0), H, V)
	if len(ids) > 1 {
		add(ids[:len(ids)-1], H, V) // prefix: same first member, other length
		p := append([]eid{}, ids...)
		g.R.Shuffle(len(p), func(i, j int) { p[i], p[j] = p[j], p[i] })
		add(p, H, V)
	}
	add(append(append([]eid{}, ids...), mkID(g, H, V, 30, &t)), H, V) // superset
	other := append([]eid{}, ids...)                                  // same tiles, other vertical indices
	for i := range other {
		other[i].f = vIndexFor(g, other[i].v, V, &t)
	}
	add(other, H, V)
	g.R.Shuffle(len(vars), func(i, j int) { vars[i], vars[j] = vars[j], vars[i] })
	k := len(vars)
	if k > 3 {
		k = 3 + g.Intn(k-2)
	}
	out := []w.Val{base()}
	for _, v := range vars[:k] {
		out = append(out, v)
		if g.Chance(0.7) {
			out = append(out, base())
		}
	}
	return append(out, base()), "ext"
}

func histSid(g *Gen) ([]w.Val, string) {
	z := g.Zoom()
	var t []string
	ids := mkListM(g, z, z, 70, true, g.Chance(0.4), &t)
	for len(ids) == 0 || len(ids) > 6 {
		ids = mkListM(g, z, z, 70, true, g.Chance(0.4), &t)
	}
	base := func() w.Val { return sidStep(g, ids, z) }
	var vars []w.Val
	add := func(l []eid, zz int64) {
		if zz >= 0 && zz <= 35 && est(l, zz, zz) <= 600 {
			vars = append(vars, sidStep(g, l, zz))
		}
	}
	for _, d := range []int64{1, -1} {
		if l, ok := shiftIDs(ids, d, d); ok {
			add(l, z+d)
		}
	}
	add(ids, z-1)
	add(ids, z+1)
	l := append([]eid{}, ids...)
	zz := clampZ(z - pickDiff(g, 1))
	l[len(l)-1] = eid{zz, g.HIndex(zz), g.HIndex(zz), zz, g.VIndex(zz)}
	add(l, z)
	if len(ids) > 1 {
		add(ids[1:], z)
		add(ids[:len(ids)-1], z)
	}
	other := append([]eid{}, ids...)
	for i := range other {
		other[i].f = g.VIndex(other[i].v)
	}
	add(other, z)
	g.R.Shuffle(len(vars), func(i, j int) { vars[i], vars[j] = vars[j], vars[i] })
	out := []w.Val{base()}
	for _, v := range vars {
		out = append(out, v)
		if g.Chance(0.7) {
			out = append(out, base())
		}
	}
	return append(out, base()), "sid"
}

// valid and invalid calls alternating on the same key-like arguments: invalid zoom with the same list, the same zooms with a malformed
// member, each invalid call also twice in a row
func histErr(g *Gen) ([]w.Val, string) {
	sid := g.Chance(0.3)
	H := 31 + g.Int63n(5) // inputs near zoom 35, so that an unchecked target zoom of 36/37 still means bounded work
	V := H
	if !sid {
		V = 31 + g.Int63n(5)
	}
	var t []string
	ids := mkListM(g, H, V, 40, sid, false, &t)
	for len(ids) == 0 || len(ids) > 4 {
		ids = mkListM(g, H, V, 40, sid, false, &t)
	}
	ss := strs(ids, sid)
	mk := func(l []string, h, v int64) w.Val {
		if sid {
			return step(pickMode(g), fSid, w.Strs(l), w.I(h))
		}
		return step(pickMode(g), fExt, w.Strs(l), w.I(h), w.I(v))
	}
	ok := func(l []string, h, v int64) bool {
		if sid {
			v = h
		}
		return estStrings(l, h, v, sid) <= 2000
	}
	valid := func() w.Val { return mk(ss, H, V) }
	bad := g.Pick(36, 36, 37, -1, -1, -36)
	m := malformedNear(g, ids[g.Intn(len(ids))], sid, false)
	for try := 0; try < 8 && !ok([]string{m, m, m, m, m}, H, V); try++ { // the invoker's (lenient) size estimate must accept it
		m = malformedNear(g, ids[g.Intn(len(ids))], sid, false)
	}
	withBad := insertAt(ss, g.Intn(len(ss)+1), m)
	out := []w.Val{valid()}
	if ok(ss, bad, V) {
		out = append(out, mk(ss, bad, V), valid(), mk(ss, bad, V), mk(ss, bad, V), valid())
	}
	if !sid && ok(ss, H, bad) {
		out = append(out, mk(ss, H, bad), valid())
	}
	if ok(withBad, H, V) {
		out = append(out, mk(withBad, H, V), valid(), mk(withBad, H, V), mk(withBad, H, V), valid(), mk([]string{m}, H, V), mk([]string{m}, H, V), valid())
	}
	// invalid first, then the valid call with the same zooms; valid member strings re-used right after they were refused in a bad list
	if ok([]string{m, ss[0]}, H, V) {
		out = append(out, mk([]string{m, ss[0]}, H, V), mk([]string{ss[0]}, H, V), mk([]string{ss[0], m}, H, V), mk([]string{ss[0]}, H, V))
	}
	return out, "err"
}

// every input already at the target zooms, no repetition: the result is the input set; the caller then reuses its slices
func histIdentity(g *Gen) ([]w.Val, string) {
	H, V := g.Zoom(), g.Zoom()
	n := 1 + g.Intn(4)
	ids := []eid{}
	seen := map[string]bool{}
	for len(ids) < n {
		e := eid{H, g.HIndex(H), g.HIndex(H), V, g.VIndex(V)}
		if !seen[e.ext()] {
			seen[e.ext()] = true
			ids = append(ids, e)
		} else if H == 0 && V == 0 && len(ids) >= 2 {
			break
		}
	}
	l := w.Strs(strs(ids, false))
	out := []w.Val{step("in", fExt, l, w.I(H), w.I(V)), step("", fExt, l, w.I(H), w.I(V)), step("out", fExt, l, w.I(H), w.I(V)),
		step("in+out", fExt, l, w.I(H), w.I(V)), step("", fExt, l, w.I(H), w.I(V))}
	if H == V {
		ls := w.Strs(strs(ids, true))
		out = append(out, step("in", fSid, ls, w.I(H)), step("out", fSid, ls, w.I(H)), step("", fSid, ls, w.I(H)))
	}
	return out, "identity"
}

// helpers and list APIs on the same tile, interleaved
func histMixed(g *Gen) ([]w.Val, string) {
	H, V := g.Zoom(), g.Zoom()
	var t []string
	e := mkID(g, H, V, 60, &t)
	one := []eid{e}
	out := []w.Val{
		step(pickMode(g), fH, w.I(e.h), w.I(e.x), w.I(e.y), w.I(H)), extStep(g, one, H, V), step(pickMode(g), fV, w.I(e.v), w.I(e.f), w.I(V)),
		extStep(g, one, H, V), step("", fMM, w.I(e.h), w.I(e.x), w.I(e.y), w.I(H)), step(pickMode(g), fH, w.I(e.h), w.I(e.x), w.I(e.y), w.I(H)),
		step(pickMode(g), fV, w.I(e.v), w.I(e.f), w.I(V)),
	}
	if e.h == e.v && H == V {
		out = append(out, sidStep(g, one, H), extStep(g, one, H, V), sidStep(g, one, H))
	}
	return out, "mixed"
}

func genHist(r *run.Runner, g *Gen) {
	var body []w.Val
	var kind string
	switch p := g.Intn(20); {
	case p < 4:
		body, kind = histH(g)
	case p < 7:
		body, kind = histV(g)
	case p < 12:
		body, kind = histExt(g)
	case p < 14:
		body, kind = histSid(g)
	case p < 17:
		body, kind = histErr(g)
	case p < 18:
		body, kind = histIdentity(g)
	default:
		body, kind = histMixed(g)
	}
	steps := body // the invoker itself performs the fixed priming calls first
	r.Run(run.Case{Prop: "C03", Fn: "History", Tags: []string{"history", "history:" + kind, Tag("steps=%d", len(steps)/5*5)}, Args: []w.Val{w.List(steps)}})
}

// fixed histories (shapes of the stateful changes seen so far)
func fixedHistories(r *run.Runner) {
	ex := func(mode string, ids []string, H, V int64) w.Val {
		return step(mode, fExt, w.Strs(ids), w.I(H), w.I(V))
	}
	sd := func(ids []string, z int64) w.Val { return step("", fSid, w.Strs(ids), w.I(z)) }
	for _, body := range [][]w.Val{
		{ex("", []string{"5/3/3/5/-1"}, 7, 6), ex("", []string{"6/3/3/5/-1"}, 8, 6), ex("", []string{"5/3/3/5/-1"}, 7, 6)},
		{sd([]string{"0/0/0/0"}, 1), sd([]string{"1/0/0/0"}, 2), sd([]string{"0/0/0/0"}, 1)},
		{step("", fH, w.I(30), w.I(1<<29), w.I(5), w.I(28)), step("", fH, w.I(35), w.I(1<<29), w.I(5), w.I(33)), step("", fH, w.I(30), w.I(1<<29), w.I(5), w.I(28))},
		{step("", fV, w.I(5), w.I(-3), w.I(7)), step("", fV, w.I(6), w.I(-3), w.I(8)), step("", fV, w.I(5), w.I(-4), w.I(7)), step("", fV, w.I(5), w.I(-3), w.I(7))},
		{ex("out", []string{"3/1/1/3/-1", "3/2/1/3/-1"}, 4, 4), ex("", []string{"3/1/1/3/-1", "3/2/1/3/-1"}, 4, 4), ex("in", []string{"3/1/1/3/-1", "3/2/1/3/-1"}, 3, 3), ex("", []string{"3/1/1/3/-1", "3/2/1/3/-1"}, 3, 3)},
		{ex("", []string{"34/5/5/34/-2"}, 36, 34), ex("", []string{"34/5/5/34/-2"}, 36, 34), ex("", []string{"34/5/5/34/-2"}, 35, 34), ex("", []string{"34/5/5/34/x"}, 35, 34), ex("", []string{"34/5/5/34/x"}, 35, 34), ex("", []string{"34/5/5/34/-2"}, 35, 34)},
	} {
		r.Run(run.Case{Prop: "C03", Fn: "History", Tags: []string{"history", "fixed"}, Args: []w.Val{w.List(body)}})
	}
}
