import sys,re
name=sys.argv[1]
p='/tmp/hw_C02/shape/point.go'
s=open(p).read()
def rep(old,new,cnt=1):
    global s
    assert old in s, old
    s=s.replace(old,new,cnt)
if name=='a_centre_memo_omits_resolution':
    # (a) last-result memo of getCenterPointOnVoxelOffset keyed on (x, y, h, alt): omits the resolution
    rep('func getCenterPointOnVoxelOffset(','''var centreMemoOK bool
var centreMemoX, centreMemoY, centreMemoH int64
var centreMemoAlt float64
var centreMemoPt object.Point

func getCenterPointOnVoxelOffset(''')
    rep('''	// 頂点座標から最大値と最小値を取得する。
	pList := getVertexOnVoxelOffset(lonIndex, latIndex, hZoom, vPoint)
''','''	if centreMemoOK && centreMemoX == lonIndex && centreMemoY == latIndex && centreMemoH == hZoom && centreMemoAlt == vPoint.Alt {
		c := centreMemoPt
		return &c
	}
	// 頂点座標から最大値と最小値を取得する。
	pList := getVertexOnVoxelOffset(lonIndex, latIndex, hZoom, vPoint)
''')
    rep('''	// 中心点の座標を返却
	return point''','''	centreMemoOK, centreMemoX, centreMemoY, centreMemoH, centreMemoAlt, centreMemoPt = true, lonIndex, latIndex, hZoom, vPoint.Alt, *point
	// 中心点の座標を返却
	return point''')
elif name=='a_id_memo_omits_option':
    # (a') memo of GetPointOnExtendedSpatialId keyed on the ID string, omits the option (fresh copies returned)
    rep('func GetPointOnExtendedSpatialId(','''var idMemoKey string
var idMemoPts []object.Point

func GetPointOnExtendedSpatialId(''')
    rep('''	// 座標を格納するスライス
	outputPoint := []*object.Point{}

	// 拡張空間IDから座標成分を取得する。''','''	// 座標を格納するスライス
	outputPoint := []*object.Point{}
	if idMemoKey != "" && idMemoKey == extendedSpatialId && (option == enum.Center || option == enum.Vertex) {
		for i := range idMemoPts {
			c := idMemoPts[i]
			outputPoint = append(outputPoint, &c)
		}
		return outputPoint, nil
	}

	// 拡張空間IDから座標成分を取得する。''')
    rep('''	// 拡張空間IDから取得した座標群を返却。
	return outputPoint, nil''','''	idMemoKey, idMemoPts = extendedSpatialId, idMemoPts[:0]
	for _, q := range outputPoint {
		idMemoPts = append(idMemoPts, *q)
	}
	// 拡張空間IDから取得した座標群を返却。
	return outputPoint, nil''')
elif name=='b_attrs_memo_before_validation':
    # (b) one-entry memo of getExtendedSpatialIdAttrs stored before the fields are validated
    rep('func getExtendedSpatialIdAttrs(extendedSpatialId string) ([]int64, error) {','''var attrsMemoKey string
var attrsMemo []int64

func getExtendedSpatialIdAttrs(extendedSpatialId string) ([]int64, error) {
	if attrsMemoKey != "" && attrsMemoKey == extendedSpatialId {
		return append([]int64{}, attrsMemo...), nil
	}''')
    rep('''	// 拡張空間IDのフォーマットチェック
	if len(id) != 5 {''','''	attrsMemoKey, attrsMemo = "", make([]int64, 5)
	if len(id) == 5 {
		attrsMemoKey = extendedSpatialId
	}
	// 拡張空間IDのフォーマットチェック
	if len(id) != 5 {''')
    rep('''	for _, s := range id {
		// 空間IDの成分を整数型に変換
		i, err := strconv.ParseInt(s, 10, 64)

		if err == nil {
			// 成分の整数型変換結果を戻り値に格納
			result = append(result, i)''','''	for k, s := range id {
		// 空間IDの成分を整数型に変換
		i, err := strconv.ParseInt(s, 10, 64)

		if err == nil {
			attrsMemo[k] = i
			// 成分の整数型変換結果を戻り値に格納
			result = append(result, i)''')
elif name=='b_zoom_memo_poisoned':
    # (b') CheckZoom verdict memo written before the vertical zoom is looked at: a refused call leaves "ok" for its horizontal zoom pair
    rep('func GetPointOnExtendedSpatialId(','''var zoomMemoH, zoomMemoV int64 = -1, -1

func GetPointOnExtendedSpatialId(''')
    rep('''	// 入力値チェック
	if !CheckZoom(hZoom) || !CheckZoom(vZoom) {
		// 水平、垂直方向精度のどちらかが範囲外の場合、空配列とエラーインスタンスを返却。
		return outputPoint, errors.NewSpatialIdError(errors.InputValueErrorCode, "")
	}
''','''	// 入力値チェック
	if !(zoomMemoH == hZoom && zoomMemoV == vZoom) {
		if CheckZoom(hZoom) {
			zoomMemoH, zoomMemoV = hZoom, vZoom
		}
		if !CheckZoom(hZoom) || !CheckZoom(vZoom) {
			// 水平、垂直方向精度のどちらかが範囲外の場合、空配列とエラーインスタンスを返却。
			return outputPoint, errors.NewSpatialIdError(errors.InputValueErrorCode, "")
		}
	}
''')
elif name=='c_result_memo_aliased':
    # (c) memo with the full key (ID, option) that hands out the same slice and the same *Point objects again
    rep('func GetPointOnExtendedSpatialId(','''var resMemoKey string
var resMemoOpt enum.PointOption
var resMemo []*object.Point

func GetPointOnExtendedSpatialId(''')
    rep('''	// 座標を格納するスライス
	outputPoint := []*object.Point{}

	// 拡張空間IDから座標成分を取得する。''','''	if resMemo != nil && resMemoKey == extendedSpatialId && resMemoOpt == option {
		return resMemo, nil
	}
	// 座標を格納するスライス
	outputPoint := []*object.Point{}

	// 拡張空間IDから座標成分を取得する。''')
    rep('''	// 拡張空間IDから取得した座標群を返却。
	return outputPoint, nil''','''	resMemoKey, resMemoOpt, resMemo = extendedSpatialId, option, outputPoint
	// 拡張空間IDから取得した座標群を返却。
	return outputPoint, nil''')
elif name=='c_vertex_buffer_shared':
    # (c') getVertexOnVoxelOffset fills a package-level array of points and returns pointers into it: an earlier result changes with the next call
    rep('func getVertexOnVoxelOffset(','''var vertexStore [8]object.Point

func getVertexOnVoxelOffset(''')
    rep('''	// 頂点座標群を返却
	return pList''','''	for i, q := range pList {
		vertexStore[i] = *q
		pList[i] = &vertexStore[i]
	}
	// 頂点座標群を返却
	return pList''')
elif name=='d_pool_scratch_not_reset':
    # (d) the sort scratch of getCenterPointOnVoxelOffset comes from a sync.Pool and is reset only on the lon/lat lists, not the altitude list
    rep('func getCenterPointOnVoxelOffset(','''type centreScratch struct{ lon, lat, alt []float64 }

var centrePool = sync.Pool{New: func() interface{} { return &centreScratch{} }}

func getCenterPointOnVoxelOffset(''')
    rep('''	lonList := []float64{}
	latList := []float64{}
	altList := []float64{}
''','''	sc := centrePool.Get().(*centreScratch)
	defer centrePool.Put(sc)
	lonList := sc.lon[:0]
	latList := sc.lat[:0]
	altList := sc.alt
	if len(altList) >= 16 {
		altList = altList[:0]
	}
	defer func() { sc.lon, sc.lat, sc.alt = lonList, latList, altList }()
''')
    rep('import (','import (\n\t"sync"',1)
elif name=='c_centre_slice_shared':
    # (c'') the one-element result of the Center option is a package-level slice handed out again and again
    rep('func GetPointOnExtendedSpatialId(','''var centreOut = make([]*object.Point, 1)

func GetPointOnExtendedSpatialId(''')
    rep('''		outputPoint = append(outputPoint, getCenterPointOnVoxelOffset(
			lonIndex, latIndex, hZoom, vPoint))
''','''		centreOut[0] = getCenterPointOnVoxelOffset(lonIndex, latIndex, hZoom, vPoint)
		outputPoint = centreOut
''')
else:
    sys.exit('unknown '+name)
open(p,'w').write(s)
