// Package c02: property C02 — an ID is mapped back to the geometry of its voxel, and the grid tiles space.
package c02

import (
	"fmt"
	"strconv"
	"strings"
	"time"

	"github.com/trajectoryjp/spatial_id_go/v4/common/enum"
	"github.com/trajectoryjp/spatial_id_go/v4/common/object"
	"github.com/trajectoryjp/spatial_id_go/v4/shape"

	. "verif/harness/gen"
	"verif/harness/run"
	w "verif/harness/wire"
)

// A step performs one entry's calls and returns what was observed, a function that reads the same answer once more from the objects the
// library handed out (nil when nothing is held), and a function that scribbles on everything the caller owns after the call: the returned
// slices and objects, and the point objects it passed in.
type stepFn func(a []w.Val) (obs w.Val, again func() w.Val, mutate func())

func scribblePoints(ps []*object.Point) {
	for i, p := range ps {
		if p != nil {
			p.SetLon(12.5)
			p.SetLat(-33.25)
			p.SetAlt(777)
		}
		ps[i] = nil
	}
}
func scribbleStrings(l []string) {
	for i := range l {
		l[i] = "9/9/9/9/9"
	}
}

func pointsStep(call func() ([]*object.Point, error)) (w.Val, func() w.Val, func()) {
	ps, err := call()
	if err != nil {
		return w.WithErr(PointsVal(ps), err), nil, func() { scribblePoints(ps) }
	}
	return PointsVal(ps), func() w.Val { return PointsVal(ps) }, func() { scribblePoints(ps) }
}

func stepPointOnEid(a []w.Val) (w.Val, func() w.Val, func()) {
	return pointsStep(func() ([]*object.Point, error) {
		return shape.GetPointOnExtendedSpatialId(w.AsStr(a[0]), enum.PointOption(w.AsInt(a[1])))
	})
}
func stepPointOnSid(a []w.Val) (w.Val, func() w.Val, func()) {
	return pointsStep(func() ([]*object.Point, error) {
		return shape.GetPointOnSpatialId(w.AsStr(a[0]), enum.PointOption(w.AsInt(a[1])))
	})
}

// CentreRoundTrip: [id; sid?] -> [centre; ID of that centre at the ID's own zooms; the eight vertices of the same ID]
func stepRoundTrip(a []w.Val) (w.Val, func() w.Val, func()) {
	id, sid := w.AsStr(a[0]), w.AsBool(a[1])
	var ps, vs []*object.Point
	var back []string
	var err error
	mutate := func() { scribblePoints(ps); scribblePoints(vs); scribbleStrings(back) }
	if sid {
		ps, err = shape.GetPointOnSpatialId(id, enum.Center)
	} else {
		ps, err = shape.GetPointOnExtendedSpatialId(id, enum.Center)
	}
	if err != nil {
		return w.WithErr(w.Nil{}, err), nil, mutate
	}
	if len(ps) != 1 {
		return w.L(PointsVal(ps)), nil, mutate
	}
	if sid {
		vs, err = shape.GetPointOnSpatialId(id, enum.Vertex)
	} else {
		vs, err = shape.GetPointOnExtendedSpatialId(id, enum.Vertex)
	}
	if err != nil {
		return w.WithErr(w.Nil{}, err), nil, mutate
	}
	if sid {
		attrs, e := shape.VerifGetExtendedSpatialIdAttrs(sidToEid(id))
		if e != nil {
			return w.WithErr(w.Nil{}, e), nil, mutate
		}
		back, err = shape.GetSpatialIdsOnPoints(ps, attrs[0])
	} else {
		attrs, e := shape.VerifGetExtendedSpatialIdAttrs(id)
		if e != nil {
			return w.WithErr(w.Nil{}, e), nil, mutate
		}
		back, err = shape.GetExtendedSpatialIdsOnPoints(ps, attrs[0], attrs[3])
	}
	if err != nil {
		return w.WithErr(w.Nil{}, err), nil, mutate
	}
	if len(back) != 1 {
		return w.L(PointVal(ps[0]), w.Strs(back)), nil, mutate
	}
	read := func() w.Val { return w.L(PointVal(ps[0]), w.S(back[0]), PointsVal(vs)) }
	return read(), read, mutate
}

func sidToEid(s string) string {
	f := strings.Split(s, "/")
	if len(f) != 4 {
		return s
	}
	return f[0] + "/" + f[2] + "/" + f[3] + "/" + f[0] + "/" + f[1]
}

// SharedFaces: [idA; idB; axis] -> [vertices of A; vertices of B]
func stepShared(a []w.Val) (w.Val, func() w.Val, func()) {
	var pa, pb []*object.Point
	mutate := func() { scribblePoints(pa); scribblePoints(pb) }
	pa, err := shape.GetPointOnExtendedSpatialId(w.AsStr(a[0]), enum.Vertex)
	if err != nil {
		return w.WithErr(w.Nil{}, err), nil, mutate
	}
	pb, err = shape.GetPointOnExtendedSpatialId(w.AsStr(a[1]), enum.Vertex)
	if err != nil {
		return w.WithErr(w.Nil{}, err), nil, mutate
	}
	read := func() w.Val { return w.L(PointsVal(pa), PointsVal(pb)) }
	return read(), read, mutate
}

// the vertical point of (f, v), obtained the way the public function obtains it
func vpoint(a []w.Val) object.VerticalPoint {
	return shape.VerifGetAltitudeOnVerticalIndexAndZoom(w.AsInt(a[3]), w.AsInt(a[4]))
}
func stepVertexHook(a []w.Val) (w.Val, func() w.Val, func()) {
	ps := shape.VerifGetVertexOnVoxelOffset(w.AsInt(a[0]), w.AsInt(a[1]), w.AsInt(a[2]), vpoint(a))
	return PointsVal(ps), func() w.Val { return PointsVal(ps) }, func() { scribblePoints(ps) }
}
func stepCentreHook(a []w.Val) (w.Val, func() w.Val, func()) {
	ps := []*object.Point{shape.VerifGetCenterPointOnVoxelOffset(w.AsInt(a[0]), w.AsInt(a[1]), w.AsInt(a[2]), vpoint(a))}
	return PointsVal(ps), func() w.Val { return PointsVal(ps) }, func() { scribblePoints(ps) }
}
func stepAltHook(a []w.Val) (w.Val, func() w.Val, func()) {
	vp := shape.VerifGetAltitudeOnVerticalIndexAndZoom(w.AsInt(a[0]), w.AsInt(a[1]))
	return w.L(w.F(vp.Alt), w.F(vp.Resolution)), nil, func() {}
}
func stepAttrsHook(a []w.Val) (w.Val, func() w.Val, func()) {
	r, err := shape.VerifGetExtendedSpatialIdAttrs(w.AsStr(a[0]))
	mutate := func() {
		for i := range r {
			r[i] = -7
		}
	}
	if err != nil {
		return w.WithErr(w.Ints(r), err), nil, mutate
	}
	return w.Ints(r), func() w.Val { return w.Ints(r) }, mutate
}

var steps = map[string]stepFn{
	"GetPointOnExtendedSpatialId": stepPointOnEid, "GetPointOnSpatialId": stepPointOnSid, "CentreRoundTrip": stepRoundTrip,
	"SharedFaces": stepShared, "VertexHook": stepVertexHook, "CentreHook": stepCentreHook, "AltHook": stepAltHook, "AttrsHook": stepAttrsHook,
}

func single(name string) *run.Fn {
	f := steps[name]
	return &run.Fn{Name: name, Invoke: func(a []w.Val) w.Val {
		obs, _, _ := f(a)
		return obs
	}}
}

// PointSequence: [steps], step = [function name; its arguments; mutate?]. The steps run back to back in this process; after a step with
// mutate? the caller scribbles on what that call returned; at the end the answers of the other steps are read once more.
// Observed: one [answer; answer read again at the end | Nil] per step.
func fnSequence() *run.Fn {
	return &run.Fn{Name: "PointSequence", Timeout: 30 * time.Second, Invoke: func(a []w.Val) w.Val {
		sl := w.AsList(a[0])
		obs := make([]w.Val, len(sl))
		again := make([]func() w.Val, len(sl))
		for i, st := range sl {
			t := w.AsList(st)
			f := steps[w.AsStr(t[0])]
			if f == nil || len(t) != 3 {
				panic("malformed step")
			}
			o, rd, mut := f(w.AsList(t[1]))
			obs[i] = o
			if w.AsBool(t[2]) {
				mut()
			} else {
				again[i] = rd
			}
		}
		out := make(w.List, len(sl))
		for i := range sl {
			var second w.Val = w.Nil{}
			if again[i] != nil {
				second = again[i]()
			}
			out[i] = w.L(obs[i], second)
		}
		return out
	}}
}

// parsesAs reports whether every one of exactly n '/'-separated fields is accepted by strconv.ParseInt(s, 10, 64)
// (so "041", "+3", "-0" count: gen.WellFormed only knows the canonical spelling)
func parsesAs(s string, n int) bool {
	fs := strings.Split(s, "/")
	if len(fs) != n {
		return false
	}
	for _, f := range fs {
		if _, err := strconv.ParseInt(f, 10, 64); err != nil {
			return false
		}
	}
	return true
}

// a well-formed ID with zooms in 0..35 whose x, y or f lies outside the grid (outside the property's quantifier; the library clamps the row
// and wraps the column): mostly inside the bound where the entry judges it, sometimes beyond (class "skipped"); never a long wrap loop
func outOfGrid(g *Gen, id id5) (id5, string) {
	ww := int64(1) << uint(id.h)
	vv := int64(1) << uint(id.v)
	tag := "out-of-grid"
	switch g.Intn(8) {
	case 0:
		id.x = g.Pick(ww, ww+1, 2*ww-1, 2*ww, 3*ww+id.x, 23, 1<<40)
	case 1:
		id.x = g.Pick(-1, -ww, -ww-1, -2*ww+id.x, -3)
	case 2:
		id.y = g.Pick(-1, -5, ww, ww+3, 2*ww, 3665759+ww, 1<<40)
	case 3:
		id.f = g.Pick(vv, vv+1, -vv-1, 3*vv, -5*vv, 1<<40)
	case 4:
		id.x, id.y = 23+ww, 3665759+ww
	case 5:
		id.x, id.y, id.f = -1, -1, -vv-1
	case 6: // beyond the judged bound: skipped (positive x and any y are cheap for the library)
		tag = "out-of-grid-skipped"
		switch g.Intn(3) {
		case 0:
			id.x = 1<<40 + 1 + g.Int63n(1<<50)
		case 1:
			id.y = g.Pick(1<<40+1, -(1<<40)-1, 1<<62)
		default:
			id.f = g.Pick(1<<40+1, -(1<<41))
		}
	default:
		id.x = ww + g.Int63n(4*ww+1)
		id.y = g.Int63n(4*ww+1) - ww
	}
	return id, tag
}

// another spelling of the same integer that strconv.ParseInt accepts: sign, leading zeros
func respell(g *Gen, n int64) string {
	switch g.Intn(4) {
	case 0:
		if n >= 0 {
			return fmt.Sprintf("+%d", n)
		}
	case 1:
		if n >= 0 {
			return fmt.Sprintf("00%d", n)
		}
		return fmt.Sprintf("-0%d", -n)
	case 2:
		if n == 0 {
			return "-0"
		}
	}
	return fmt.Sprintf("%d", n)
}

type id5 struct{ h, x, y, v, f int64 }

// the same ID in another spelling that strconv.ParseInt accepts
func (i id5) eidRespelled(g *Gen) string {
	return respell(g, i.h) + "/" + respell(g, i.x) + "/" + respell(g, i.y) + "/" + respell(g, i.v) + "/" + respell(g, i.f)
}
func (i id5) sidRespelled(g *Gen) string {
	return respell(g, i.h) + "/" + respell(g, i.f) + "/" + respell(g, i.x) + "/" + respell(g, i.y)
}

func (i id5) eid() string { return EID(i.h, i.x, i.y, i.v, i.f) }
func (i id5) sid() string { return SID(i.h, i.f, i.x, i.y) }

// a valid ID: all zooms 0..35 on both axes, first/last row and column, f of both signs including -2^v and 2^v-1
func validID(g *Gen) id5 {
	h, v := g.Zoom(), g.Zoom()
	if g.Chance(0.08) {
		h = 35
	}
	if g.Chance(0.05) {
		v = 35
	}
	id := id5{h, g.HIndex(h), g.HIndex(h), v, g.VIndex(v)}
	// the last column (east edge = +180, the antimeridian) at every zoom; the last row
	if g.Chance(0.15) {
		id.x = int64(1)<<uint(h) - 1
	}
	if g.Chance(0.05) {
		id.y = int64(1)<<uint(h) - 1
	}
	if g.Chance(0.01) {
		id = id5{0, 0, 0, 0, g.Pick(0, -1)}
	}
	if g.Chance(0.01) { // every extreme at once
		m := int64(1)<<35 - 1
		id = id5{35, g.Pick(0, m), g.Pick(0, m, m-1, 1), 35, g.Pick(-m-1, m, -1, 0)}
	}
	return id
}

// related consecutive calls (stateful changes such as a cache keyed on part of the arguments show only here):
// the same ID with the other option, the same tile with another f / v, another tile with the same f / v, the identical call twice.
func related(r *run.Runner, g *Gen, id id5, opt int64) {
	call := func(i id5, o int64, tag string) {
		r.Run(run.Case{Prop: "C02", Fn: "GetPointOnExtendedSpatialId", Tags: append(idTags(i), "related", tag, Tag("option=%d", o)),
			Args: []w.Val{w.S(i.eid()), w.I(o)}})
	}
	call(id, opt, "rel-first")
	for k := 0; k < 3; k++ {
		switch g.Intn(8) {
		case 0:
			call(id, 1-opt, "rel-other-option")
		case 1:
			call(id, opt, "rel-identical")
		case 2:
			j := id
			j.f = g.VIndex(j.v)
			call(j, opt, "rel-other-f")
		case 3:
			j := id
			j.v = g.Zoom()
			j.f = g.VIndex(j.v)
			call(j, opt, "rel-other-v")
		case 4:
			j := id
			j.h = g.Zoom()
			j.x, j.y = g.HIndex(j.h), g.HIndex(j.h)
			call(j, opt, "rel-other-tile")
		case 5:
			j := id
			if g.Chance(0.5) {
				j.x = g.HIndex(j.h)
			} else {
				j.y = g.HIndex(j.h)
			}
			call(j, 1-opt, "rel-other-xy")
		default: // the same indices at another horizontal zoom (a cache keyed on x/y that omits the zoom)
			j := id
			m := j.x
			if j.y > m {
				m = j.y
			}
			lo := int64(0)
			for (int64(1) << uint(lo)) <= m {
				lo++
			}
			j.h = lo + g.Int63n(36-lo)
			if j.h == id.h && j.h < 35 {
				j.h++
			}
			call(j, opt, "rel-same-xy-other-h")
		}
	}
	if g.Chance(0.3) {
		r.Run(run.Case{Prop: "C02", Fn: "CentreRoundTrip", Tags: append(idTags(id), "related", "roundtrip"), Args: []w.Val{w.S(id.eid()), w.B(false)}})
	}
	call(id, opt, "rel-again")
}

func idTags(i id5) []string {
	ww := int64(1) << uint(i.h)
	vv := int64(1) << uint(i.v)
	t := []string{Tag("hzoom=%d", i.h), Tag("vzoom=%d", i.v)}
	if i.x == 0 {
		t = append(t, "first-column")
	}
	if i.x == ww-1 {
		t = append(t, "last-column")
	}
	if i.y == 0 {
		t = append(t, "first-row")
	}
	if i.y == ww-1 {
		t = append(t, "last-row")
	}
	switch {
	case i.f == -vv:
		t = append(t, "f=-2^v")
	case i.f == vv-1:
		t = append(t, "f=2^v-1")
	case i.f < 0:
		t = append(t, "f<0")
	default:
		t = append(t, "f>=0")
	}
	return t
}

// ---- histories: one case = a sequence of related calls in one process (PointSequence) ----
func stp(fn string, mut bool, args ...w.Val) w.Val { return w.L(w.S(fn), w.List(args), w.B(mut)) }

// the fixed, unrelated first call of every sequence: a shrunk or replayed sequence starts from the same library state in a fresh process
func primingStep() w.Val {
	return stp("GetPointOnExtendedSpatialId", false, w.S("5/3/7/4/-2"), w.I(0))
}

// invalid variants that share most of their text / their key-like fields with a valid ID
func invalidOf(g *Gen, id id5) (string, string) {
	switch g.Intn(6) {
	case 0:
		return EID(id.h, id.x, id.y, 36, id.f), "bad-vzoom"
	case 1:
		return EID(36, id.x, id.y, id.v, id.f), "bad-hzoom"
	case 2:
		return fmt.Sprintf("%d/%d/%d/x/%d", id.h, id.x, id.y, id.f), "bad-field"
	case 3:
		return fmt.Sprintf("%d/%d/%d/%d/", id.h, id.x, id.y, id.v), "empty-field"
	case 4:
		return fmt.Sprintf("%d/%d/%d/%d", id.h, id.x, id.y, id.v), "bad-arity"
	}
	return EID(id.h, id.x, id.y, -1, id.f), "bad-vzoom"
}

func sequence(r *run.Runner, g *Gen, id id5, opt int64) {
	mut := func() bool { return g.Chance(0.35) }
	pt := func(i id5, o int64) w.Val { return stp("GetPointOnExtendedSpatialId", mut(), w.S(i.eid()), w.I(o)) }
	ss := []w.Val{primingStep()}
	tags := append(idTags(id), "sequence")
	n := 3 + g.Intn(4)
	for k := 0; k < n; k++ {
		var kind string
		switch g.Intn(14) {
		case 0: // the identical call twice, the first answer possibly scribbled on by the caller
			kind = "seq-identical"
			ss = append(ss, pt(id, opt), pt(id, opt))
		case 1:
			kind = "seq-other-option"
			ss = append(ss, pt(id, opt), pt(id, 1-opt))
		case 2: // same tile, same altitude, other resolution: (v, f) and (v+1, 2f); f = 0 at two vertical zooms
			kind = "seq-same-alt-other-res"
			j := id
			if j.v < 35 && g.Chance(0.7) {
				j.v, j.f = id.v+1, 2*id.f
			} else {
				id.f, j.f = 0, 0
				j.v = g.Zoom()
			}
			ss = append(ss, pt(id, opt), pt(j, opt))
		case 3:
			kind = "seq-same-tile-other-vf"
			j := id
			j.v = g.Zoom()
			j.f = g.VIndex(j.v)
			ss = append(ss, pt(id, opt), pt(j, opt))
		case 4:
			kind = "seq-same-vf-other-tile"
			j := id
			j.h = g.Zoom()
			j.x, j.y = g.HIndex(j.h), g.HIndex(j.h)
			ss = append(ss, pt(id, opt), pt(j, opt))
		case 5: // same indices at another horizontal zoom
			kind = "seq-same-xy-other-h"
			j := id
			m := j.x
			if j.y > m {
				m = j.y
			}
			lo := int64(0)
			for (int64(1) << uint(lo)) <= m {
				lo++
			}
			j.h = lo + g.Int63n(36-lo)
			ss = append(ss, pt(id, opt), pt(j, opt))
		case 6: // invalid then valid (sharing the key-like fields), then the invalid one again
			inv, t := invalidOf(g, id)
			kind = "seq-invalid-valid-" + t
			ss = append(ss, stp("GetPointOnExtendedSpatialId", mut(), w.S(inv), w.I(opt)), pt(id, opt),
				stp("GetPointOnExtendedSpatialId", mut(), w.S(inv), w.I(opt)))
		case 7: // valid then invalid, the invalid one twice in a row
			inv, t := invalidOf(g, id)
			kind = "seq-valid-invalid-" + t
			ss = append(ss, pt(id, opt), stp("GetPointOnExtendedSpatialId", mut(), w.S(inv), w.I(opt)),
				stp("GetPointOnExtendedSpatialId", mut(), w.S(inv), w.I(1-opt)))
		case 8: // unknown option between two good calls
			kind = "seq-bad-option"
			ss = append(ss, pt(id, opt), pt(id, g.Pick(2, -1, 7)), pt(id, opt))
		case 9: // the spatial-ID form of the same voxel next to the extended form
			kind = "seq-sid-eid"
			j := id
			j.v = j.h
			j.f = g.VIndex(j.v)
			ss = append(ss, stp("GetPointOnSpatialId", mut(), w.S(j.sid()), w.I(opt)), pt(j, opt),
				stp("GetPointOnSpatialId", mut(), w.S(j.sid()), w.I(1-opt)))
		case 10: // the round trip between two direct queries of the same ID
			kind = "seq-roundtrip"
			ss = append(ss, pt(id, 1), stp("CentreRoundTrip", mut(), w.S(id.eid()), w.B(false)), pt(id, 1))
		case 11: // the helpers on the same tile with other vertical points, and through the public function
			kind = "seq-hooks"
			j := id
			j.v = g.Zoom()
			j.f = g.VIndex(j.v)
			hk := "VertexHook"
			if g.Chance(0.5) {
				hk = "CentreHook"
			}
			mv := id.v // an index valid at both vertical zooms
			if j.v < mv {
				mv = j.v
			}
			ff := g.VIndex(mv)
			ss = append(ss, stp(hk, mut(), w.I(id.x), w.I(id.y), w.I(id.h), w.I(id.f), w.I(id.v)),
				stp(hk, mut(), w.I(id.x), w.I(id.y), w.I(id.h), w.I(j.f), w.I(j.v)), pt(j, opt),
				stp("AltHook", false, w.I(ff), w.I(id.v)), stp("AltHook", false, w.I(ff), w.I(j.v)))
		case 12: // the parser on the same text twice, valid and invalid
			kind = "seq-attrs"
			inv, _ := invalidOf(g, id)
			if g.Chance(0.5) {
				inv = fmt.Sprintf("%d/%d/%d/x/%d", id.h, id.x, id.y, id.f)
			}
			ss = append(ss, stp("AttrsHook", mut(), w.S(inv)), stp("AttrsHook", mut(), w.S(inv)),
				stp("AttrsHook", mut(), w.S(id.eid())), stp("AttrsHook", mut(), w.S(id.eid())), pt(id, opt))
		default: // two neighbours, then the first one again
			kind = "seq-neighbours"
			ww := int64(1) << uint(id.h)
			j := id
			if id.x+1 < ww {
				j.x++
				ss = append(ss, stp("SharedFaces", mut(), w.S(id.eid()), w.S(j.eid()), w.I(0)), pt(id, opt))
			} else {
				j.x = 0
				ss = append(ss, stp("SharedFaces", mut(), w.S(id.eid()), w.S(j.eid()), w.I(3)), pt(id, opt))
			}
		}
		tags = append(tags, kind)
		if g.Chance(0.5) { // move on to a related voxel
			switch g.Intn(3) {
			case 0:
				id.f = g.VIndex(id.v)
			case 1:
				id.x = g.HIndex(id.h)
			default:
				opt = 1 - opt
			}
		}
	}
	r.Run(run.Case{Prop: "C02", Fn: "PointSequence", Tags: tags, Args: []w.Val{w.List(ss)}})
}

func init() {
	Scale["C02"] = 16000
	Registry["C02"] = func(r *run.Runner, g *Gen, n int) {
		MathOracles(r)
		for name := range steps {
			r.Register(single(name))
		}
		r.Register(fnSequence())
		for i := 0; i < n; i++ {
			id := validID(g)
			tags := idTags(id)
			opt := int64(g.Intn(2))
			tags = append(tags, Tag("option=%d", opt))
			if i%40 == 5 { // ~2.5 % of the iterations, 5-6 calls each: >= 10 % of the cases
				related(r, g, id, opt)
				continue
			}
			if i%50 == 9 { // 2 %: well-formed IDs outside the grid, canonical or respelled, through every public entry (total entries: judged or "skipped")
				j, tag := outOfGrid(g, id)
				tg := []string{tag, Tag("hzoom=%d", j.h)}
				switch g.Intn(4) {
				case 0:
					j.v = j.h
					s := j.sid()
					if g.Chance(0.4) {
						s = j.sidRespelled(g)
					}
					r.Run(run.Case{Prop: "C02", Fn: "GetPointOnSpatialId", Tags: append(tg, "sid"), Trivial: true, Args: []w.Val{w.S(s), w.I(opt)}})
				case 1:
					r.Run(run.Case{Prop: "C02", Fn: "CentreRoundTrip", Tags: append(tg, "roundtrip"), Trivial: true, Args: []w.Val{w.S(j.eid()), w.B(false)}})
				case 2:
					fn := "VertexHook"
					if g.Chance(0.5) {
						fn = "CentreHook"
					}
					r.Run(run.Case{Prop: "C02", Fn: fn, Tags: append(tg, "hook"), Trivial: true,
						Args: []w.Val{w.I(j.x), w.I(j.y), w.I(j.h), w.I(j.f), w.I(j.v)}})
				default:
					s := j.eid()
					if g.Chance(0.4) {
						s = j.eidRespelled(g)
					}
					r.Run(run.Case{Prop: "C02", Fn: "GetPointOnExtendedSpatialId", Tags: tg, Trivial: true, Args: []w.Val{w.S(s), w.I(opt)}})
				}
				continue
			}
			if i%20 == 15 { // 5 % of the iterations: a history of 7-20 related calls judged step by step in one case
				sequence(r, g, id, opt)
				continue
			}
			switch k := g.Intn(100); {
			case k < 4: // malformed: bad string, bad arity, non-integer, zoom outside 0..35, unknown option
				var s string
				sidForm := g.Chance(0.4)
				kind := g.Intn(5)
				switch kind {
				case 0, 1:
					s = g.Malformed()
					if sidForm {
						// a string that is not a 4-field integer ID
						if WellFormed(s, 4) {
							s = s + "/"
						}
					}
					tags = []string{"malformed", "bad-string"}
				case 2: // arity of the other notation
					if sidForm {
						s = id.eid()
					} else {
						id.v = id.h
						s = id.sid()
					}
					tags = []string{"malformed", "bad-arity"}
				case 3: // zoom out of range
					z := g.Pick(36, -1, 37, 64, 100, -35)
					if sidForm {
						s = SID(z, id.f, id.x, id.y)
					} else if g.Chance(0.5) {
						s = EID(z, id.x, id.y, id.v, id.f)
					} else {
						s = EID(id.h, id.x, id.y, z, id.f)
					}
					tags = []string{"malformed", "bad-zoom"}
				default: // valid ID, unknown option
					if sidForm {
						id.v = id.h
						id.f = g.VIndex(id.v)
						s = id.sid()
					} else {
						s = id.eid()
					}
					opt = g.Pick(2, -1, 3, 7, 1<<31, -(1 << 40))
					tags = []string{"malformed", "bad-option"}
				}
				fn := "GetPointOnExtendedSpatialId"
				if sidForm {
					fn = "GetPointOnSpatialId"
				}
				if kind <= 1 && (sidForm && parsesAs(s, 4) || !sidForm && parsesAs(s, 5)) {
					// the string mutation happened to produce an ID the library accepts (e.g. a dropped field read as a spatial ID, "041"): not malformed
					tags = []string{"accepted-spelling-or-out-of-grid"}
				}
				r.Run(run.Case{Prop: "C02", Fn: fn, Tags: tags, Trivial: true, Args: []w.Val{w.S(s), w.I(opt)}})
			case k < 36:
				s := id.eid()
				if g.Chance(0.06) {
					s = id.eidRespelled(g)
					tags = append(tags, "respelled")
				}
				r.Run(run.Case{Prop: "C02", Fn: "GetPointOnExtendedSpatialId", Tags: tags, Args: []w.Val{w.S(s), w.I(opt)}})
			case k < 46:
				id.v = id.h
				id.f = g.VIndex(id.v)
				tags = append(idTags(id), Tag("option=%d", opt), "sid")
				s := id.sid()
				if g.Chance(0.06) {
					s = id.sidRespelled(g)
					tags = append(tags, "respelled")
				}
				r.Run(run.Case{Prop: "C02", Fn: "GetPointOnSpatialId", Tags: tags, Args: []w.Val{w.S(s), w.I(opt)}})
			case k < 68:
				sidForm := g.Chance(0.25)
				s := id.eid()
				if sidForm {
					id.v = id.h
					id.f = g.VIndex(id.v)
					s = id.sid()
				}
				tags = append(idTags(id), "roundtrip")
				if sidForm {
					tags = append(tags, "sid")
				}
				if g.Chance(0.05) {
					tags = append(tags, "respelled")
					if sidForm {
						s = id.sidRespelled(g)
					} else {
						s = id.eidRespelled(g)
					}
				}
				r.Run(run.Case{Prop: "C02", Fn: "CentreRoundTrip", Tags: tags, Args: []w.Val{w.S(s), w.B(sidForm)}})
			case k < 90:
				// a face-adjacent pair inside the grid: pick an axis on which the neighbour exists
				ww := int64(1) << uint(id.h)
				vv := int64(1) << uint(id.v)
				if g.Chance(0.15) { // across the antimeridian: last column and column 0 of the same row (zoom 0: the voxel and itself)
					id.x = ww - 1
					nb := id
					nb.x = 0
					tags = append(idTags(id), "shared-axis=3")
					r.Run(run.Case{Prop: "C02", Fn: "SharedFaces", Tags: tags, Args: []w.Val{w.S(id.eid()), w.S(nb.eid()), w.I(3)}})
					continue
				}
				axis := int64(g.Intn(3))
				nb := id
				ok := false
				for t := 0; t < 3 && !ok; t++ {
					switch axis {
					case 0:
						if id.x == ww-1 && id.x > 0 && g.Chance(0.5) {
							id.x--
						}
						if id.x+1 < ww {
							nb = id
							nb.x++
							ok = true
						}
					case 1:
						if id.y == ww-1 && id.y > 0 && g.Chance(0.5) {
							id.y--
						}
						if id.y+1 < ww {
							nb = id
							nb.y++
							ok = true
						}
					default:
						if id.f == vv-1 && g.Chance(0.5) {
							id.f--
						}
						if id.f+1 < vv {
							nb = id
							nb.f++
							ok = true
						}
					}
					if !ok {
						axis = (axis + 1) % 3
					}
				}
				if !ok {
					continue
				}
				tags = append(idTags(id), Tag("shared-axis=%d", axis))
				sa, sb := id.eid(), nb.eid()
				if g.Chance(0.05) {
					sa, sb = id.eidRespelled(g), nb.eidRespelled(g)
					tags = append(tags, "respelled")
				}
				r.Run(run.Case{Prop: "C02", Fn: "SharedFaces", Tags: tags, Args: []w.Val{w.S(sa), w.S(sb), w.I(axis)}})
			case k < 94:
				// the helpers outside the grid: clamp of the row, wrap of the column
				ww := int64(1) << uint(id.h)
				x := g.Pick(-1, -ww, -ww-1, ww, ww+1, 2*ww-1, 2*ww, 3*ww+id.x, -2*ww+id.x, id.x, ww-1, ww-2)
				y := g.Pick(-1, -5, ww, ww+1, ww-1, ww-2, 2*ww, id.y, id.y, 0)
				if g.Chance(0.3) { // inside the grid as well
					x, y = id.x, id.y
				}
				fn := "VertexHook"
				if g.Chance(0.4) {
					fn = "CentreHook"
				}
				r.Run(run.Case{Prop: "C02", Fn: fn, Tags: []string{"hook", Tag("hzoom=%d", id.h)},
					Args: []w.Val{w.I(x), w.I(y), w.I(id.h), w.I(id.f), w.I(id.v)}})
			case k < 97:
				r.Run(run.Case{Prop: "C02", Fn: "AltHook", Tags: []string{"hook", Tag("vzoom=%d", id.v)}, Args: []w.Val{w.I(id.f), w.I(id.v)}})
			default:
				s := id.eid()
				if g.Chance(0.5) {
					s = g.Malformed()
				}
				r.Run(run.Case{Prop: "C02", Fn: "AttrsHook", Tags: []string{"hook"}, Args: []w.Val{w.S(s)}})
			}
		}
	}
}
