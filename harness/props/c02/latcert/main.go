// latcert: samples voxel IDs and prints, for each, the corner and centre latitudes returned by the library
// (bit patterns), for the interval-arithmetic certificates of property C02 (see latcert.py).
package main

import (
	"flag"
	"fmt"
	"math"
	"math/rand"
	"os"

	"github.com/trajectoryjp/spatial_id_go/v4/common/enum"
	"github.com/trajectoryjp/spatial_id_go/v4/shape"
)

func main() {
	n := flag.Int("n", 50, "samples")
	seed := flag.Int64("seed", 1, "seed")
	flag.Parse()
	r := rand.New(rand.NewSource(*seed))
	emit := func(h, x, y int64, forced int) {
		id := fmt.Sprintf("%d/%d/%d/%d/%d", h, x, y, 10, -3)
		vs, err := shape.GetPointOnExtendedSpatialId(id, enum.Vertex)
		if err != nil || len(vs) != 8 {
			fmt.Fprintln(os.Stderr, "vertex query failed for", id, err)
			os.Exit(3)
		}
		cs, err := shape.GetPointOnExtendedSpatialId(id, enum.Center)
		if err != nil || len(cs) != 1 {
			fmt.Fprintln(os.Stderr, "centre query failed for", id, err)
			os.Exit(3)
		}
		fmt.Printf("%s %d %d %016x %016x %016x %d\n", id, h, y, math.Float64bits(vs[0].Lat()), math.Float64bits(vs[2].Lat()), math.Float64bits(cs[0].Lat()), forced)
	}
	// forced, every run: the edge rows of zoom 35 (first, second, the two rows at the equator, the last two), and the row just north of the
	// equator at a few other zooms (its south edge is exactly 0)
	m := int64(1) << 35
	for _, y := range []int64{0, 1, m/2 - 1, m / 2, m - 2, m - 1} {
		emit(35, r.Int63n(m), y, 1)
	}
	for _, h := range []int64{1, 2, 20, 34} {
		emit(h, 0, int64(1)<<uint(h-1)-1, 1)
	}
	for i := 0; i < *n; i++ {
		h := int64(r.Intn(36))
		switch r.Intn(6) {
		case 0:
			h = 35
		case 1:
			h = []int64{0, 1, 2, 25, 26, 31, 34}[r.Intn(7)]
		}
		w := int64(1) << uint(h)
		var y int64
		switch r.Intn(8) {
		case 0:
			y = 0
		case 1:
			y = w - 1
		case 2:
			y = w / 2
		case 3:
			y = w/2 - 1
			if y < 0 {
				y = 0
			}
		default:
			y = r.Int63n(w)
		}
		emit(h, r.Int63n(w), y, 0)
	}
}
