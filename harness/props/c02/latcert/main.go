// latcert: samples voxel IDs and prints, for each, the corner and centre latitudes returned by the library
// (bit patterns), for the interval-arithmetic certificates of property C02 (see latcert.py).
package main

import (
	"flag"
	"fmt"
	"math"
	"math/rand"
	"os"

	"github.com/trajectoryjp/spatial_id_go/v4/common/enum"
	"github.com/trajectoryjp/spatial_id_go/v4/shape"
)

func main() {
	n := flag.Int("n", 50, "samples")
	seed := flag.Int64("seed", 1, "seed")
	flag.Parse()
	r := rand.New(rand.NewSource(*seed))
	for i := 0; i < *n; i++ {
		h := int64(r.Intn(36))
		switch r.Intn(6) {
		case 0:
			h = 35
		case 1:
			h = []int64{0, 1, 2, 25, 26, 31, 34}[r.Intn(7)]
		}
		w := int64(1) << uint(h)
		var y int64
		switch r.Intn(6) {
		case 0:
			y = 0
		case 1:
			y = w - 1
		case 2:
			y = w / 2
		default:
			y = r.Int63n(w)
		}
		x := r.Int63n(w)
		id := fmt.Sprintf("%d/%d/%d/%d/%d", h, x, y, 10, -3)
		vs, err := shape.GetPointOnExtendedSpatialId(id, enum.Vertex)
		if err != nil || len(vs) != 8 {
			fmt.Fprintln(os.Stderr, "vertex query failed for", id, err)
			os.Exit(3)
		}
		cs, err := shape.GetPointOnExtendedSpatialId(id, enum.Center)
		if err != nil || len(cs) != 1 {
			fmt.Fprintln(os.Stderr, "centre query failed for", id, err)
			os.Exit(3)
		}
		fmt.Printf("%s %d %d %016x %016x %016x\n", id, h, y, math.Float64bits(vs[0].Lat()), math.Float64bits(vs[2].Lat()), math.Float64bits(cs[0].Lat()))
	}
}
