#!/usr/bin/env python3
"""C02 extra step: certified reference for the latitude axis (DESIGN 4.3).
For sampled IDs the corner and centre latitudes returned by the library (built from $VERIF_REPO) are checked against the real-number
formula by CoqInterval, inside Coq, with kernel-checked proofs (Qed):
  corner k of zoom h:  -eps <= |atan(sinh(pi(1-2k/2^h)))*180/pi| - |L| <= 1e-10 + eps      (truncation toward zero at 1e-10 degrees)
  centre of row y:      edge(y+1) < C < edge(y)    (by MercatorR.row_iff_between: the real row of the returned centre is y)
Every run first certifies 10 forced samples: zoom 35 rows 0, 1, 2^34-1, 2^34, 2^35-2, 2^35-1 and the row just north of the equator at zooms 1, 2, 20, 34.
A goal that interval arithmetic can neither prove nor refute is "undecided": counted (STAT undecided); BROKEN if it concerns a forced sample or if
more than 5 % of all goals are undecided.
Protocol: exit 0 ok; exit 1 + REPLAY <path> when a goal is *refuted* (its negation is proved); other exit = BROKEN."""
import os, sys, subprocess, json, re, shutil
from fractions import Fraction

VERIF = os.path.dirname(os.path.dirname(os.path.dirname(os.path.dirname(os.path.dirname(os.path.abspath(__file__))))))
REPO = os.environ.get("VERIF_REPO", "/repo")
BUILD = os.environ.get("VERIF_BUILD", "/tmp/vdev/C02")
TIER = os.environ.get("VERIF_TIER", "quick")
SEED = os.environ.get("VERIF_SEED", "1") or "1"
N = int(os.environ.get("C02_LATCERT_N", "30" if TIER == "quick" else "1000"))   # random samples, in addition to the 10 forced edge rows
ENV = dict(os.environ, GOFLAGS="-mod=mod", GOPROXY="off", GOSUMDB="off", GOTOOLCHAIN="local")
EPS = "1 / 1000000000000"          # 1e-12 degrees: a few ulps of 85 degrees (1.4e-14 each) with a wide margin
CUT = "1 / 10000000000"            # 1e-10 degrees


def broken(msg):
    print("BROKEN " + msg)
    sys.exit(3)


def frac_of_bits(hexs):
    u = int(hexs, 16)
    s = -1 if u >> 63 else 1
    e = (u >> 52) & 0x7FF
    m = u & ((1 << 52) - 1)
    if e == 0x7FF:
        return None
    if e == 0:
        return Fraction(s * m, 1 << 1074)
    v = Fraction((1 << 52) | m) * (Fraction(2) ** (e - 1075))
    return s * v


def rq(q):
    if q.denominator == 1:
        return "(%d)" % q.numerator
    return "(%d / %d)" % (q.numerator, q.denominator)


def edge(h, k):
    u = "(PI * (1 - 2 * %d / %d))" % (k, 1 << h)
    return "(atan ((exp %s - exp (- %s)) / 2) * (180 / PI))" % (u, u)


def goal_corner(L, h, k):
    # d = |true| - |L| with the sign of the true value decided by k against the equator
    if 2 * k < (1 << h):      # northern hemisphere: true > 0
        d = "(%s - %s)" % (edge(h, k), rq(L))
    elif 2 * k > (1 << h):
        d = "(%s - %s)" % (rq(L), edge(h, k))
    else:                      # the equator itself: exactly 0
        return "- (%s) <= %s <= %s" % (EPS, rq(L), EPS)
    return "- (%s) <= %s <= %s + %s" % (EPS, d, CUT, EPS)


def goal_centre(C, h, y):
    return "0 < %s - %s /\\ 0 < %s - %s" % (rq(C), edge(h, y + 1), edge(h, y), rq(C))


HEADER = "From Coq Require Import Reals.\nFrom Interval Require Import Tactic.\nOpen Scope R_scope.\n"


def coqc(path):
    return subprocess.run(["timeout", "3000", "coqc", "-w", "none", os.path.basename(path)], cwd=os.path.dirname(path),
                          stdout=subprocess.PIPE, stderr=subprocess.STDOUT, text=True)


def main():
    d = os.path.join(BUILD, "c02lat")
    os.makedirs(d, exist_ok=True)
    mod = open(os.path.join(VERIF, "harness", "go.mod")).read().replace("=> /repo", "=> " + os.path.realpath(REPO))
    open(os.path.join(d, "lat.mod"), "w").write(mod)
    shutil.copy(os.path.join(REPO, "go.sum"), os.path.join(d, "lat.sum"))
    r = subprocess.run(f"cd {VERIF}/harness && go build -modfile={d}/lat.mod -tags verif -o {d}/c02lat ./props/c02/latcert",
                       shell=True, env=ENV, stdout=subprocess.PIPE, stderr=subprocess.STDOUT, text=True)
    if r.returncode != 0:
        broken("latcert sampler does not build: " + r.stdout.strip()[-300:])
    r = subprocess.run([os.path.join(d, "c02lat"), "-n", str(N), "-seed", SEED], stdout=subprocess.PIPE, stderr=subprocess.PIPE, text=True)
    if r.returncode != 0:
        broken("latcert sampler failed: " + r.stderr.strip()[-300:])
    goals = []   # (name, statement, description)
    for idx, line in enumerate(r.stdout.split("\n")):
        t = line.split()
        if len(t) != 7:
            continue
        forced = t[6] == "1"
        sid, h, y = t[0], int(t[1]), int(t[2])
        n_, s_, c_ = frac_of_bits(t[3]), frac_of_bits(t[4]), frac_of_bits(t[5])
        if n_ is None or s_ is None or c_ is None:
            p = os.path.join(d, "replay-nonfinite.json")
            json.dump({"property": "C02", "function": "GetPointOnExtendedSpatialId", "args": '( s%s i0 )' % sid,
                       "note": "non-finite latitude returned"}, open(p, "w"))
            print("BROKEN non-finite latitude for " + sid)
            print("REPLAY " + p)
            sys.exit(1)
        goals.append(("north_%d" % idx, goal_corner(n_, h, y), sid, 0, forced))
        goals.append(("south_%d" % idx, goal_corner(s_, h, y + 1), sid, 0, forced))
        goals.append(("centre_%d" % idx, goal_centre(c_, h, y), sid, 1, forced))
    live = list(goals)
    undecided, refuted = [], []
    for attempt in range(12):
        path = os.path.join(d, "LatCert.v")
        with open(path, "w") as f:
            f.write(HEADER)
            for (nm, st, sid, opt, forced) in live:
                f.write("Lemma %s : %s.\nProof. split; interval with (i_prec 120). Qed.\n" % (nm, st))
        rr = coqc(path)
        if rr.returncode == 0:
            break
        m = re.search(r'line (\d+), characters', rr.stdout)
        if not m:
            broken("LatCert.v: " + rr.stdout.strip()[-300:])
        ln = int(m.group(1))
        k = (ln - 4) // 2          # 3 header lines, 2 lines per lemma
        if k < 0 or k >= len(live):
            broken("LatCert.v: cannot locate the failing lemma: " + rr.stdout.strip()[-300:])
        bad = live.pop(k)
        # is the statement false? try to prove its negation
        npath = os.path.join(d, "LatNeg.v")
        # a direct negation proof: one of the two conjuncts is provably false
        open(npath, "w").write(HEADER + "From Coq Require Import Lra.\nLemma neg : ~ (%s).\nProof. intros [A B]. first [ revert A; apply Rlt_not_le; interval with (i_prec 120) | revert A; apply Rle_not_lt; interval with (i_prec 120) | revert B; apply Rlt_not_le; interval with (i_prec 120) | revert B; apply Rle_not_lt; interval with (i_prec 120) ]. Qed.\n" % bad[1])
        nr = coqc(npath)
        if nr.returncode == 0:
            refuted.append(bad)
            break
        undecided.append(bad)
    else:
        broken("too many latitude certificates fail")
    print("STAT samples=%d" % (len(goals) // 3))
    print("STAT forced_edge_samples=%d" % (sum(1 for g_ in goals if g_[4]) // 3))
    print("STAT certified=%d" % (len(live) if not refuted else 0))
    print("STAT tolerance=corner latitudes: truth cut toward zero by at most 1e-10 deg, +-1e-12 deg (at zoom 35 near 85 deg a row is 9e-10 deg high)")
    print("STAT undecided=%d" % len(undecided))
    print("STAT refuted=%d" % len(refuted))
    if refuted:
        nm, st, sid, opt, forced = refuted[0]
        p = os.path.join(d, "replay-latcert.json")
        json.dump({"property": "C02", "function": "GetPointOnExtendedSpatialId", "args": "( s%s i%d )" % (sid, opt), "kind": "property",
                   "note": "interval arithmetic refutes the latitude returned for this ID: " + nm + " : " + st[:400]}, open(p, "w"), indent=1)
        print("BROKEN latitude certificate refuted (%s) for %s" % (nm, sid))
        print("REPLAY " + p)
        sys.exit(1)
    fu = [g_ for g_ in undecided if g_[4]]
    if fu:
        broken("latitude certificate undecided on a forced edge row: %s for %s" % (fu[0][0], fu[0][2]))
    if len(undecided) * 20 > len(goals):
        broken("more than 5%% of the latitude certificates are undecided (%d of %d)" % (len(undecided), len(goals)))
    sys.exit(0)


main()
