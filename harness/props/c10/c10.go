// Package c10: property C10 — converting between ID notations loses nothing.
// Invokers of the real functions, seeded generators (valid IDs in both notations at all zoom combinations, negative f, "+"/leading-zero
// fields, duplicates, ~6 % malformed at random positions) and ~10 % short sequences of related calls made inside one harness call.
package c10

import (
	"math/big"
	"math"
	"strconv"
	"strings"

	"github.com/trajectoryjp/spatial_id_go/v4/common/consts"
	"github.com/trajectoryjp/spatial_id_go/v4/common/object"
	"github.com/trajectoryjp/spatial_id_go/v4/shape"
	"github.com/trajectoryjp/spatial_id_go/v4/transform"

	. "verif/harness/gen"
	"verif/harness/run"
	w "verif/harness/wire"
)

const (
	nS2E    = "ConvertSpatialIdsToExtendedSpatialIds"
	nE2S    = "ConvertExtendedSpatialIdsToSpatialIds"
	nRT     = "NotationRoundTrip"
	nPP     = "ParsePrint"
	nExpand = "ConvertExtendedSpatialIDToSpatialIDs"
	nVoxel  = "GetVoxelIDfromSpatialID"
	nExpSeq = "ExpandSequence"
	nSeq    = "CallSequence"
	nReset  = "ResetSequence"
	nSet    = "ObjectSetters"
	nAlias  = "ObjectAliasing"
	nExpObj = "ExpandObject"
	nPInt   = "ParseInt"
	nAtoi   = "Atoi"
	nFmt    = "FormatInt"
	nItoa   = "Itoa"
	nSplit  = "Split"
	nJoin   = "Join"
)

// ---------------------------------------------------------------- invokers

func fnS2E() *run.Fn {
	return &run.Fn{Name: nS2E, Invoke: func(a []w.Val) w.Val {
		r, err := shape.ConvertSpatialIdsToExtendedSpatialIds(w.AsStrs(a[0]))
		return w.WithErr(w.Strs(r), err)
	}}
}
func fnE2S() *run.Fn {
	return &run.Fn{Name: nE2S, Invoke: func(a []w.Val) w.Val {
		r, err := shape.ConvertExtendedSpatialIdsToSpatialIds(w.AsStrs(a[0]))
		return w.WithErr(w.Strs(r), err)
	}}
}

// both directions in one call: dir = true: spatial -> extended -> spatial; dir = false: extended -> spatial -> extended.
// observed [r1; r2], or an error as soon as one of the two calls returns one
func fnRoundTrip() *run.Fn {
	return &run.Fn{Name: nRT, Invoke: func(a []w.Val) w.Val {
		l := w.AsStrs(a[1])
		var r1, r2 []string
		var err error
		if w.AsBool(a[0]) {
			if r1, err = shape.ConvertSpatialIdsToExtendedSpatialIds(l); err != nil {
				return w.Err{V: w.Nil{}}
			}
			if r2, err = shape.ConvertExtendedSpatialIdsToSpatialIds(r1); err != nil {
				return w.Err{V: w.Nil{}}
			}
		} else {
			if r1, err = shape.ConvertExtendedSpatialIdsToSpatialIds(l); err != nil {
				return w.Err{V: w.Nil{}}
			}
			if r2, err = shape.ConvertSpatialIdsToExtendedSpatialIds(r1); err != nil {
				return w.Err{V: w.Nil{}}
			}
		}
		return w.L(w.Strs(r1), w.Strs(r2))
	}}
}

// NewExtendedSpatialID(s), then ID(), the five accessors and FieldParams()
func fnParsePrint() *run.Fn {
	return &run.Fn{Name: nPP, Invoke: func(a []w.Val) w.Val {
		o, err := object.NewExtendedSpatialID(w.AsStr(a[0]))
		if err != nil {
			if o == nil {
				return w.Err{V: w.Nil{}}
			}
			return w.Err{V: w.S(o.ID())} // the (zero) object returned together with the error
		}
		return w.L(w.S(o.ID()), w.L(w.I(o.HZoom()), w.I(o.X()), w.I(o.Y()), w.I(o.VZoom()), w.I(o.Z())), w.Ints(o.FieldParams()))
	}}
}

// the expansion takes the object; the string is parsed by the library's own constructor. The call is NOT made (answer: false) when the
// parsed ID is not a valid ID of the grid (off-grid indices make the library's loops wrap around int64 or never end) or when the result
// would exceed the caps (hZoom < vZoom: 4^d results, d <= 6; hZoom > vZoom: 2^d results, d <= 12). DC10.expand_guard recomputes the same
// predicate and files such a case under class "skipped". The generators stay inside the caps; only the shrinker proposes other inputs.
func expandRefused(o *object.ExtendedSpatialID) bool {
	h, v := o.HZoom(), o.VZoom()
	if h < 0 || h > 35 || v < 0 || v > 35 {
		return true
	}
	wh, wv := int64(1)<<uint(h), int64(1)<<uint(v)
	if o.X() < 0 || o.X() >= wh || o.Y() < 0 || o.Y() >= wh || o.Z() < -wv || o.Z() >= wv {
		return true
	}
	return v-h > 6 || h-v > 12
}
func fnExpand() *run.Fn {
	return &run.Fn{Name: nExpand, Invoke: func(a []w.Val) w.Val {
		o, err := object.NewExtendedSpatialID(w.AsStr(a[0]))
		if err != nil {
			return w.Err{V: w.Nil{}}
		}
		if expandRefused(o) {
			return w.B(false)
		}
		return w.Strs(transform.ConvertExtendedSpatialIDToSpatialIDs(o))
	}}
}
// ExpandObject: the expansion must leave the caller's object alone. One parsed object is expanded, read back (ID(), accessors, FieldParams())
// and expanded again; observed: [first result; [ID; accessors; FieldParams]; second result]. Parse errors and refused sizes as in fnExpand.
func fnExpandObject() *run.Fn {
	return &run.Fn{Name: nExpObj, Invoke: func(a []w.Val) w.Val {
		o, err := object.NewExtendedSpatialID(w.AsStr(a[0]))
		if err != nil {
			return w.Err{V: w.Nil{}}
		}
		if expandRefused(o) {
			return w.B(false)
		}
		r1 := w.Strs(transform.ConvertExtendedSpatialIDToSpatialIDs(o))
		back := w.L(w.S(o.ID()), w.L(w.I(o.HZoom()), w.I(o.X()), w.I(o.Y()), w.I(o.VZoom()), w.I(o.Z())), w.Ints(o.FieldParams()))
		if expandRefused(o) { // the object was damaged so badly that a second expansion could hang: report what was read back
			return w.L(r1, back, w.Strs(nil))
		}
		r2 := w.Strs(transform.ConvertExtendedSpatialIDToSpatialIDs(o))
		return w.L(r1, back, r2)
	}}
}
func fnVoxel() *run.Fn {
	return &run.Fn{Name: nVoxel, Invoke: func(a []w.Val) w.Val {
		return w.Ints(transform.GetVoxelIDfromSpatialID(w.AsStr(a[0])))
	}}
}

// ResetExtendedSpatialID applied to ONE object for each string of the list; observed per step [error?; ID(); FieldParams()]
func fnResetSeq() *run.Fn {
	return &run.Fn{Name: nReset, Invoke: func(a []w.Val) w.Val {
		o := &object.ExtendedSpatialID{}
		var out w.List = w.List{}
		for _, s := range w.AsStrs(a[0]) {
			err := o.ResetExtendedSpatialID(s)
			out = append(out, w.L(w.B(err != nil), w.S(o.ID()), w.Ints(o.FieldParams())))
		}
		return out
	}}
}

// prime: before every harness call the functions are called once on fixed neutral inputs covering each branch, so that the outcome of a
// case is a function of its own arguments even if the implementation kept something from an earlier call (a replayed or shrunk case then
// behaves as it did in the run). State carried from one call to the next is the business of the sequence entries, inside one harness call.
func prime() {
	defer func() { recover() }()
	for _, s := range []string{"0/0/0/1/0", "1/0/0/0/0", "0/0/0/0/0"} {
		if o, err := object.NewExtendedSpatialID(s); err == nil {
			transform.ConvertExtendedSpatialIDToSpatialIDs(o)
		}
		transform.GetVoxelIDfromSpatialID(s)
	}
	shape.ConvertSpatialIdsToExtendedSpatialIds([]string{"0/0/0/0"})
	shape.ConvertExtendedSpatialIdsToSpatialIds([]string{"0/0/0/0/0"})
}
func primed(f *run.Fn) *run.Fn {
	return &run.Fn{Name: f.Name, Timeout: f.Timeout, Invoke: func(a []w.Val) w.Val {
		prime()
		return f.Invoke(a)
	}}
}

// ObjectSetters: a script of SetX / SetY / SetZ / SetZoom / ResetExtendedSpatialID applied to one fresh object; after each step the
// observation is [error?; ID(); FieldParams(); [HZoom(); X(); Y(); VZoom(); Z()]]
// applyCmd runs one command of a constructor/setter script on *po (New replaces the object by the one the constructor returns).
// ok = false: ill-formed command (shrinker proposal)
func applyCmd(po **object.ExtendedSpatialID, c w.Val) (isErr bool, ok bool) {
	cl, isL := c.(w.List)
	if !isL || len(cl) < 2 {
		return false, false
	}
	name, isS := cl[0].(w.Str)
	if !isS {
		return false, false
	}
	o := *po
	switch {
	case (name == "Reset" || name == "New") && len(cl) == 2:
		sv, isStr := cl[1].(w.Str)
		if !isStr {
			return false, false
		}
		if name == "Reset" {
			return o.ResetExtendedSpatialID(string(sv)) != nil, true
		}
		n, err := object.NewExtendedSpatialID(string(sv))
		if n == nil {
			panic("NewExtendedSpatialID returned a nil object")
		}
		*po = n
		return err != nil, true
	case name == "Zoom" && len(cl) == 3:
		if _, isI := cl[1].(w.Int); !isI {
			return false, false
		}
		if _, isI := cl[2].(w.Int); !isI {
			return false, false
		}
		o.SetZoom(w.AsInt(cl[1]), w.AsInt(cl[2]))
		return false, true
	case (name == "X" || name == "Y" || name == "Z") && len(cl) == 2:
		if _, isI := cl[1].(w.Int); !isI {
			return false, false
		}
		switch name {
		case "X":
			o.SetX(w.AsInt(cl[1]))
		case "Y":
			o.SetY(w.AsInt(cl[1]))
		default:
			o.SetZ(w.AsInt(cl[1]))
		}
		return false, true
	}
	return false, false
}

// readBack: ID(), FieldParams() and the five getters of the object
func readBack(o *object.ExtendedSpatialID) []w.Val {
	return []w.Val{w.S(o.ID()), w.Ints(o.FieldParams()), w.L(w.I(o.HZoom()), w.I(o.X()), w.I(o.Y()), w.I(o.VZoom()), w.I(o.Z()))}
}

func fnSetters() *run.Fn {
	return &run.Fn{Name: nSet, Invoke: func(a []w.Val) w.Val {
		o := &object.ExtendedSpatialID{}
		var out w.List = w.List{}
		for _, c := range w.AsList(a[0]) {
			isErr, ok := applyCmd(&o, c)
			if !ok {
				return w.S("ill-formed script")
			}
			out = append(out, append(w.List{w.B(isErr)}, readBack(o)...))
		}
		return out
	}}
}

// ObjectAliasing: the same string is parsed twice (A, B), a script runs on A, the string is parsed a third time (C); observed the
// read-backs of A, B, C. Two objects from two parses must never share state.
func fnAliasing() *run.Fn {
	return &run.Fn{Name: nAlias, Invoke: func(a []w.Val) w.Val {
		s := w.AsStr(a[0])
		oa, err := object.NewExtendedSpatialID(s)
		if err != nil {
			return w.Err{V: w.Nil{}}
		}
		ob, err := object.NewExtendedSpatialID(s)
		if err != nil {
			return w.Err{V: w.Nil{}}
		}
		for _, c := range w.AsList(a[1]) {
			if _, ok := applyCmd(&oa, c); !ok {
				return w.S("ill-formed script")
			}
		}
		oc, err := object.NewExtendedSpatialID(s)
		if err != nil {
			return w.Err{V: w.Nil{}}
		}
		return w.L(w.List(readBack(oa)), w.List(readBack(ob)), w.List(readBack(oc)))
	}}
}

// ---- the string layer itself: the strconv / strings calls /repo makes on ID strings (ParseInt(s,10,64) x16, Atoi x9, FormatInt(z,10) x38,
// Itoa x2, strings.Split(s,"/") x16, strings.Join(l,"/") x9), called directly. The wire format carries every byte (NUL, non-UTF-8 included).
func fnParseInt() *run.Fn {
	return &run.Fn{Name: nPInt, Invoke: func(a []w.Val) w.Val {
		v, err := strconv.ParseInt(w.AsStr(a[0]), 10, 64)
		return w.WithErr(w.I(v), err)
	}}
}
func fnAtoi() *run.Fn {
	return &run.Fn{Name: nAtoi, Invoke: func(a []w.Val) w.Val {
		v, err := strconv.Atoi(w.AsStr(a[0]))
		return w.WithErr(w.I(int64(v)), err)
	}}
}
func fnFormatInt() *run.Fn {
	return &run.Fn{Name: nFmt, Invoke: func(a []w.Val) w.Val { return w.S(strconv.FormatInt(w.AsInt(a[0]), 10)) }}
}
func fnItoa() *run.Fn {
	return &run.Fn{Name: nItoa, Invoke: func(a []w.Val) w.Val { return w.S(strconv.Itoa(int(w.AsInt(a[0])))) }}
}
func fnSplit() *run.Fn {
	return &run.Fn{Name: nSplit, Invoke: func(a []w.Val) w.Val {
		r := strings.Split(w.AsStr(a[0]), consts.SpatialIDDelimiter)
		out := make(w.List, len(r))
		for i, f := range r {
			out[i] = w.S(f)
		}
		return out
	}}
}
func fnJoin() *run.Fn {
	return &run.Fn{Name: nJoin, Invoke: func(a []w.Val) w.Val { return w.S(strings.Join(w.AsStrs(a[0]), consts.SpatialIDDelimiter)) }}
}

// one sub-call of a sequence. A panic of a sub-call is not caught here: it ends the whole harness call, which the runner records as a
// property failure (with shrinking), like a panic of a single call
func subCall(f *run.Fn, a []w.Val) w.Val { return f.Invoke(a) }

// ExpandSequence: ConvertExtendedSpatialIDToSpatialIDs on each ID of the list, consecutively, in one go; observed: the list of result lists
func fnExpandSeq() *run.Fn {
	f := fnExpand()
	return &run.Fn{Name: nExpSeq, Invoke: func(a []w.Val) w.Val {
		var out w.List = w.List{}
		for _, id := range w.AsList(a[0]) {
			if _, ok := id.(w.Str); !ok {
				return w.S("ill-formed sequence")
			}
			out = append(out, subCall(f, []w.Val{id}))
		}
		return out
	}}
}

// CallSequence: calls (function name :: arguments) of this package's functions made one after the other in one go
func fnCallSeq(base map[string]*run.Fn) *run.Fn {
	return &run.Fn{Name: nSeq, Invoke: func(a []w.Val) w.Val {
		var out w.List = w.List{}
		for _, c := range w.AsList(a[0]) {
			// the shrinker may propose ill-formed call lists (a dropped function name): answer with a value no dispatcher accepts
			cl, ok := c.(w.List)
			if !ok || len(cl) == 0 {
				return w.S("ill-formed sequence")
			}
			name, ok := cl[0].(w.Str)
			if !ok || base[string(name)] == nil {
				return w.S("ill-formed sequence")
			}
			out = append(out, subCall(base[string(name)], cl[1:]))
		}
		return out
	}}
}

// ---------------------------------------------------------------- generators

// field: a decimal rendering of n that strconv.ParseInt accepts: canonical, or with "+", or with leading zeros
func field(g *Gen, n int64, plain bool) string {
	s := strconv.FormatInt(n, 10)
	if plain || !g.Chance(0.22) {
		return s
	}
	neg := strings.HasPrefix(s, "-")
	digits := strings.TrimPrefix(s, "-")
	if g.Chance(0.08) { // more than 19 characters that still fit: 20..30 leading zeros
		z := strings.Repeat("0", 20+g.Intn(11)) + digits
		if neg {
			return "-" + z
		}
		if g.Chance(0.3) {
			return "+" + z
		}
		return z
	}
	switch g.Intn(4) {
	case 0:
		if !neg {
			return "+" + digits
		}
		return "-" + strings.Repeat("0", 1+g.Intn(3)) + digits
	case 1:
		z := strings.Repeat("0", 1+g.Intn(3)) + digits
		if neg {
			return "-" + z
		}
		return z
	case 2:
		if !neg {
			return "+" + strings.Repeat("0", 1+g.Intn(2)) + digits
		}
		return s
	}
	if n == 0 {
		return "-0"
	}
	return s
}

type eid struct{ h, x, y, v, f int64 }

func (e eid) str(g *Gen, plain bool) string {
	return field(g, e.h, plain) + "/" + field(g, e.x, plain) + "/" + field(g, e.y, plain) + "/" + field(g, e.v, plain) + "/" + field(g, e.f, plain)
}
func sidStr(g *Gen, z, f, x, y int64, plain bool) string {
	return field(g, z, plain) + "/" + field(g, f, plain) + "/" + field(g, x, plain) + "/" + field(g, y, plain)
}

func clampZoom(z int64) int64 {
	if z < 0 {
		return 0
	}
	if z > 35 {
		return 35
	}
	return z
}

// asymmetric valid indices (x != y != f as far as the zoom allows), negative f in about half of the cases
func validEID(g *Gen, h, v int64) eid {
	return eid{h, g.HIndex(h), g.HIndex(h), v, g.VIndex(v)}
}
func zoomPair(g *Gen, maxDiff int64) (int64, int64) {
	h := g.Zoom()
	switch g.Intn(4) {
	case 0:
		return h, h
	case 1:
		return h, g.Zoom()
	}
	v := clampZoom(h + g.Int63n(2*maxDiff+1) - maxDiff)
	return h, v
}
// expandPair: zoom pairs inside the caps of the expansion entry. d = v - h: horizontal raise 1..6 (4^d results; 6 is rare), vertical raise
// 1..12 (2^d results; above 8 rare); h is then drawn so that both zooms stay in 0..35 (no folding by clamping)
func expandDiff(g *Gen) int64 {
	switch k := g.Intn(100); {
	case k < 12:
		return 0
	case k < 50: // horizontal raise
		switch j := g.Intn(40); {
		case j < 1:
			return 6
		case j < 5:
			return 5
		}
		return 1 + g.Int63n(4)
	}
	switch j := g.Intn(20); { // vertical raise
	case j < 2:
		return -(9 + g.Int63n(4))
	case j < 6:
		return -(6 + g.Int63n(3))
	}
	return -(1 + g.Int63n(5))
}
func pairWithDiff(g *Gen, d int64) (int64, int64) {
	// v = h + d with both in 0..35
	lo, hi := int64(0), int64(35)
	if d > 0 {
		hi = 35 - d
	} else {
		lo = -d
	}
	h := lo + g.Int63n(hi-lo+1)
	if g.Chance(0.3) {
		h = g.Pick(lo, hi, lo+(hi-lo)/2, hi-1)
		if h < lo {
			h = lo
		}
	}
	return h, h + d
}
func expandPair(g *Gen) (int64, int64) { return pairWithDiff(g, expandDiff(g)) }

// relatedVZoom: another vertical zoom for the tile at horizontal zoom h, inside the caps
func relatedVZoom(g *Gen, h int64) int64 {
	for {
		d := expandDiff(g)
		if v := h + d; v >= 0 && v <= 35 {
			return v
		}
	}
}

// relatedHZoom: another horizontal zoom for the vertical zoom v, inside the caps
func relatedHZoom(g *Gen, v int64) int64 {
	for {
		d := expandDiff(g)
		if h := v - d; h >= 0 && h <= 35 {
			return h
		}
	}
}

// strings with the wrong shape: wrong arity 0..7 fields, empty fields, spaces, non-ASCII, 20-digit overflow
var junkFields = []string{"", " ", "x", "1 ", " 1", "1.5", "0x10", "９", "1e2", "--1", "+", "-", "+-1", "92233720368547758070", "-92233720368547758080",
	"1_0", "١", "é", "\t3", "3\n", "NaN", "9223372036854775808",
	// overflow followed by junk: strconv saturates at the overflowing digit without reading on; inside uint64 it reads on and reports syntax
	"99999999999999999999x", "-99999999999999999999 ", "18446744073709551616_", "18446744073709551615x", "9223372036854775808x",
	"+99999999999999999999+", "0000000000000000000018446744073709551616x", "-18446744073709551616-", "-9223372036854775809", "18446744073709551615"}

func arityString(g *Gen, n int) string {
	fs := make([]string, n)
	for i := range fs {
		if g.Chance(0.15) {
			fs[i] = junkFields[g.Intn(len(junkFields))]
		} else {
			fs[i] = strconv.FormatInt(g.Int63n(40), 10)
		}
	}
	return strings.Join(fs, "/") // n = 0 gives "" (one empty field for strings.Split)
}

// malformedFor: a string that is not a well-formed ID with `want` fields
func malformedFor(g *Gen, want int) string {
	switch g.Intn(5) {
	case 0, 1: // wrong arity
		n := g.Intn(8)
		if n == want {
			n = want + 1
		}
		if n == 0 && want == 1 {
			n = 2
		}
		return arityString(g, n)
	case 2: // right arity, one bad field
		var fs []string
		if want == 4 {
			z := g.Zoom()
			fs = strings.Split(SID(z, g.VIndex(z), g.HIndex(z), g.HIndex(z)), "/")
		} else {
			id, _, _ := g.ValidEID()
			fs = strings.Split(id, "/")
		}
		fs[g.Intn(len(fs))] = junkFields[g.Intn(len(junkFields))]
		return strings.Join(fs, "/")
	case 3:
		s := g.Malformed()
		if want == 4 && WellFormed(s, 4) {
			return s + "/"
		}
		return s
	}
	// the other notation (arity 5 for a spatial-ID function and vice versa)
	if want == 4 {
		id, _, _ := g.ValidEID()
		return id
	}
	z := g.Zoom()
	return SID(z, g.VIndex(z), g.HIndex(z), g.HIndex(z))
}

func arity(s string) int { return len(strings.Split(s, "/")) }

// a list of 0..8 spatial IDs (or extended IDs), with duplicates; malformed entries mixed in at random positions with probability pm
func idList(g *Gen, extended bool, pm float64, plain bool) (l []string, tags []string) {
	n := g.Intn(9)
	if g.Chance(0.04) { // "lists of any length": now and then a long one
		n = 20 + g.Intn(300)
	}
	want := 4
	if extended {
		want = 5
	}
	badArity, badField, offGrid := false, false, false
	for i := 0; i < n; i++ {
		var s string
		switch {
		case g.Chance(pm):
			s = malformedFor(g, want)
			if arity(s) != want {
				badArity = true
			} else {
				badField = true
			}
		case len(l) > 0 && g.Chance(0.2):
			s = l[g.Intn(len(l))]
		case g.Chance(0.05): // well-formed numbers off the grid (zoom 36.., x = 2^z, negative x, huge f): the conversions make no numeric check
			e := anyInt64EID(g)
			if g.Chance(0.5) {
				z := 36 + g.Int63n(30)
				e = eid{z, int64(1) << uint(z%62), -g.Int63n(9), z, int64Edge(g)}
			}
			if extended {
				s = e.str(g, plain)
			} else {
				s = sidStr(g, e.h, e.f, e.x, e.y, plain)
			}
			offGrid = true
		case extended:
			h, v := zoomPair(g, 6)
			s = validEID(g, h, v).str(g, plain)
		default:
			z := g.Zoom()
			s = sidStr(g, z, g.VIndex(z), g.HIndex(z), g.HIndex(z), plain)
		}
		l = append(l, s)
	}
	if n <= 8 {
		tags = append(tags, Tag("len=%d", n))
	} else {
		tags = append(tags, "len>=20")
	}
	if offGrid {
		tags = append(tags, "well-formed off the grid")
	}
	if badArity {
		tags = append(tags, "malformed:arity")
	}
	if badField {
		tags = append(tags, "malformed:field(arity ok)")
	}
	return
}

func int64Edge(g *Gen) int64 {
	switch g.Intn(6) {
	case 0:
		return math.MaxInt64
	case 1:
		return math.MinInt64
	case 2:
		return math.MaxInt64 - g.Int63n(3)
	case 3:
		return math.MinInt64 + g.Int63n(3)
	case 4:
		return g.R.Int63() - g.R.Int63()
	}
	return g.Int63n(2001) - 1000
}

// wideEID: horizontal zoom 32..35 with x and/or y >= 2^31 (beyond 32 bits), vertical index near the ends of the grid (+-2^35) or of
// int64 (+-2^62, +-2^63); the object does not check the grid, so the off-grid indices are legitimate for parse/print/setters
func wideIndex(g *Gen, h int64) int64 {
	top := int64(1) << uint(h)
	lo := int64(1) << 31
	switch g.Intn(6) {
	case 0:
		return top - 1
	case 1:
		return lo
	case 2:
		return lo + g.Int63n(16)
	case 3:
		return int64(1)<<32 + g.Int63n(16)
	}
	return lo + g.Int63n(top-lo)
}
func wideF(g *Gen) (int64, int64) { // (vZoom, f)
	p35, p62 := int64(1)<<35, int64(1)<<62
	switch g.Intn(8) {
	case 0:
		return 35, -p35
	case 1:
		return 35, p35 - 1
	case 2:
		return 35, -p35 + g.Int63n(8)
	case 3:
		return g.Zoom(), g.Pick(p62, -p62, p62-1, -p62+1, p62+g.Int63n(1000), -p62-g.Int63n(1000))
	case 4:
		return g.Zoom(), g.Pick(math.MaxInt64, math.MinInt64, -p35-1, p35)
	case 5:
		return 35, g.Pick(-7, -1, 3, 0)
	}
	v := g.Zoom()
	return v, g.VIndex(v)
}
func wideEID(g *Gen) eid {
	h := 32 + g.Int63n(4)
	x, y := wideIndex(g, h), wideIndex(g, h)
	switch g.Intn(4) {
	case 0:
		y = g.HIndex(h) % (1 << 20)
	case 1:
		x = g.HIndex(h) % (1 << 20)
	}
	v, f := wideF(g)
	return eid{h, x, y, v, f}
}

// an extended ID whose five fields range over all of int64 (the object does not check the grid)
func anyInt64EID(g *Gen) eid {
	return eid{int64Edge(g), int64Edge(g), int64Edge(g), int64Edge(g), int64Edge(g)}
}

func zoomTags(h, v int64) []string {
	rel := "h=v"
	if h < v {
		rel = "h<v"
	} else if h > v {
		rel = "h>v"
	}
	return []string{Tag("hzoom=%d", h), Tag("vzoom=%d", v), rel}
}

func strsVal(l []string) w.Val {
	r := make(w.List, len(l))
	for i, s := range l {
		r[i] = w.S(s)
	}
	return r
}

// ---- single cases ----

func caseConv(g *Gen, extended bool) run.Case {
	pm := 0.0
	if g.Chance(0.2) {
		pm = 0.3
	}
	l, tags := idList(g, extended, pm, g.Chance(0.3))
	fn := nS2E
	if extended {
		fn = nE2S
	}
	return run.Case{Prop: "C10", Fn: fn, Args: []w.Val{strsVal(l)}, Tags: tags, Trivial: len(l) == 0}
}
func caseRoundTrip(g *Gen) run.Case {
	dir := g.Chance(0.5)
	pm := 0.0
	if g.Chance(0.15) {
		pm = 0.3
	}
	l, tags := idList(g, !dir, pm, g.Chance(0.3))
	if dir {
		tags = append(tags, "dir=s->e->s")
	} else {
		tags = append(tags, "dir=e->s->e")
	}
	return run.Case{Prop: "C10", Fn: nRT, Args: []w.Val{w.B(dir), strsVal(l)}, Tags: tags, Trivial: len(l) == 0}
}
func caseParsePrint(g *Gen) run.Case {
	switch {
	case g.Chance(0.06):
		return run.Case{Prop: "C10", Fn: nPP, Args: []w.Val{w.S(malformedFor(g, 5))}, Tags: []string{"malformed"}}
	case g.Chance(0.2):
		e := anyInt64EID(g)
		return run.Case{Prop: "C10", Fn: nPP, Args: []w.Val{w.S(e.str(g, false))}, Tags: []string{"int64-fields"}}
	case g.Chance(0.35):
		e := wideEID(g)
		return run.Case{Prop: "C10", Fn: nPP, Args: []w.Val{w.S(e.str(g, false))}, Tags: append(zoomTags(e.h, e.v), "wide-fields(x|y>=2^31)")}
	}
	h, v := zoomPair(g, 35)
	return run.Case{Prop: "C10", Fn: nPP, Args: []w.Val{w.S(validEID(g, h, v).str(g, false))}, Tags: zoomTags(h, v)}
}
func expandArg(g *Gen) (string, []string, bool) {
	if g.Chance(0.06) {
		return malformedFor(g, 5), []string{"malformed"}, false
	}
	h, v := expandPair(g)
	d := h - v
	if d < 0 {
		d = -d
	}
	return validEID(g, h, v).str(g, g.Chance(0.7)), append(zoomTags(h, v), Tag("zoomdiff=%d", d)), h == v
}
func caseExpand(g *Gen) run.Case {
	s, tags, triv := expandArg(g)
	return run.Case{Prop: "C10", Fn: nExpand, Args: []w.Val{w.S(s)}, Tags: tags, Trivial: triv}
}
func voxelArg(g *Gen) (string, []string) {
	switch {
	case g.Chance(0.03): // fewer than five fields: the function returns the empty slice
		return arityString(g, g.Intn(5)), []string{"short-input(empty result)"}
	case g.Chance(0.12): // five or more fields with unparsable / overflowing fields: the function discards the strconv errors
		n := 5 + g.Intn(3)
		fs := strings.Split(arityString(g, n), "/")
		for _, k := range []int{1, 2, 4} { // the three fields the function reads
			if g.Chance(0.5) {
				fs[k] = junkFields[g.Intn(len(junkFields))]
			}
		}
		return strings.Join(fs, "/"), []string{"malformed:>=5 fields"}
	case g.Chance(0.2):
		return anyInt64EID(g).str(g, false), []string{"int64-fields"}
	case g.Chance(0.25):
		e := wideEID(g)
		return e.str(g, false), append(zoomTags(e.h, e.v), "wide-fields(x|y>=2^31)")
	}
	h, v := zoomPair(g, 35)
	return validEID(g, h, v).str(g, false), zoomTags(h, v)
}
func caseVoxel(g *Gen) run.Case {
	s, tags := voxelArg(g)
	return run.Case{Prop: "C10", Fn: nVoxel, Args: []w.Val{w.S(s)}, Tags: tags}
}

// ---- sequences of related calls ----

// 2..4 expansions in a row: the same horizontal tile at different vertical zooms / indices, the same vertical cell with different
// tiles, the identical ID twice, a tile and its neighbour / parent
func caseExpandSeq(g *Gen) run.Case {
	n := 2 + g.Intn(3)
	h, v := expandPair(g)
	base := validEID(g, h, v)
	ids := []eid{base}
	kind := g.Intn(5)
	for len(ids) < n {
		e := ids[len(ids)-1]
		switch kind {
		case 0: // same (h, x, y), another vertical zoom and index
			e = base
			e.v = relatedVZoom(g, base.h)
			e.f = g.VIndex(e.v)
		case 1: // same vertical cell, another tile
			e = base
			e.x, e.y = g.HIndex(base.h), g.HIndex(base.h)
		case 2: // identical ID again
		case 3: // same tile and vertical zoom, another horizontal zoom (same x, y numbers when they fit)
			e = base
			e.h = relatedHZoom(g, base.v)
			m := int64(1) << uint(e.h)
			e.x, e.y = base.x%m, base.y%m
		default: // mixture
			switch g.Intn(3) {
			case 0:
				e.v = relatedVZoom(g, e.h)
				e.f = g.VIndex(e.v)
			case 1:
				e.x = g.HIndex(e.h)
			default:
				hh, vv := expandPair(g)
				e = validEID(g, hh, vv)
			}
		}
		ids = append(ids, e)
	}
	var l w.List
	for _, e := range ids {
		s := e.str(g, g.Chance(0.8))
		if g.Chance(0.03) {
			s = malformedFor(g, 5)
		}
		l = append(l, w.S(s))
	}
	return run.Case{Prop: "C10", Fn: nExpSeq, Args: []w.Val{l}, Tags: []string{"sequence", Tag("expseq-kind=%d", kind), Tag("seqlen=%d", n)}}
}

// one object reset 2..5 times: IDs sharing fields with the previous one, zero fields after non-zero ones, malformed strings in between
func caseResetSeq(g *Gen) run.Case {
	n := 2 + g.Intn(4)
	h, v := zoomPair(g, 35)
	e := validEID(g, h, v)
	var l []string
	if g.Chance(0.4) {
		e = wideEID(g)
	}
	for i := 0; i < n; i++ {
		switch g.Intn(9) {
		case 7, 8:
			e = wideEID(g)
		case 0:
			e = anyInt64EID(g)
		case 1:
			e.v, e.f = g.Zoom(), int64Edge(g)
		case 2:
			e.x, e.y = e.y, e.x
		case 3:
			e = eid{}
		case 4:
			switch g.Intn(5) {
			case 0:
				e.h = 0
			case 1:
				e.x = 0
			case 2:
				e.y = 0
			case 3:
				e.v = 0
			default:
				e.f = 0
			}
		case 5:
			hh, vv := zoomPair(g, 35)
			e = validEID(g, hh, vv)
		case 6:
			e = wideEID(g)
		}
		if g.Chance(0.12) {
			l = append(l, malformedFor(g, 5))
		} else {
			l = append(l, e.str(g, false))
		}
	}
	return run.Case{Prop: "C10", Fn: nReset, Args: []w.Val{strsVal(l)}, Tags: []string{"sequence", "reset-sequence", Tag("seqlen=%d", n)}}
}

// a script of 3..8 setter calls on one object: every setter at least likely once, values beyond 32 bits, the same setter twice with
// different values, a Reset in between (sometimes malformed), zero after non-zero
func setterVal(g *Gen, wide eid, which int) int64 {
	switch g.Intn(6) {
	case 0:
		return 0
	case 1:
		return int64Edge(g)
	case 2:
		return g.Int63n(2001) - 1000
	}
	switch which {
	case 0:
		return wide.x
	case 1:
		return wide.y
	}
	return wide.f
}
func setterScript(g *Gen, n int, withNew bool) (w.List, map[string]bool) {
	var cmds w.List
	kinds := map[string]bool{}
	lastNew := ""
	for i := 0; i < n; i++ {
		wd := wideEID(g)
		k := g.Intn(9)
		if withNew && g.Chance(0.22) {
			k = 9
		}
		switch k {
		case 9: // constructor in the middle of the script; often the SAME string as the previous constructor call (repeat parse)
			s := wd.str(g, false)
			switch {
			case lastNew != "" && g.Chance(0.5):
				s = lastNew
			case g.Chance(0.15):
				s = malformedFor(g, 5)
			case g.Chance(0.4):
				hh, vv := zoomPair(g, 35)
				s = validEID(g, hh, vv).str(g, false)
			}
			lastNew = s
			cmds = append(cmds, w.L(w.S("New"), w.S(s)))
			kinds["New"] = true
		case 0, 1:
			cmds = append(cmds, w.L(w.S("X"), w.I(setterVal(g, wd, 0))))
			kinds["X"] = true
		case 2, 3:
			cmds = append(cmds, w.L(w.S("Y"), w.I(setterVal(g, wd, 1))))
			kinds["Y"] = true
		case 4, 5:
			cmds = append(cmds, w.L(w.S("Z"), w.I(setterVal(g, wd, 2))))
			kinds["Z"] = true
		case 6, 7:
			h, v := wd.h, wd.v
			if g.Chance(0.3) {
				h, v = g.Zoom(), g.Zoom()
			} else if g.Chance(0.1) {
				h, v = int64Edge(g), int64Edge(g)
			}
			cmds = append(cmds, w.L(w.S("Zoom"), w.I(h), w.I(v)))
			kinds["Zoom"] = true
		default:
			s := wd.str(g, false)
			if g.Chance(0.2) {
				s = malformedFor(g, 5)
			} else if g.Chance(0.4) {
				hh, vv := zoomPair(g, 35)
				s = validEID(g, hh, vv).str(g, false)
			}
			cmds = append(cmds, w.L(w.S("Reset"), w.S(s)))
			kinds["Reset"] = true
		}
	}
	return cmds, kinds
}
func caseSetters(g *Gen) run.Case {
	n := 3 + g.Intn(6)
	cmds, kinds := setterScript(g, n, true)
	return run.Case{Prop: "C10", Fn: nSet, Args: []w.Val{cmds}, Tags: []string{"sequence", "object-setters", Tag("seqlen=%d", n), Tag("setter-kinds=%d", len(kinds))}}
}

// the same string parsed twice, a script of 1..5 setters on the first object, a third parse: the untouched objects must read back the string
func caseAliasing(g *Gen) run.Case {
	var s string
	tags := []string{"sequence", "object-aliasing"}
	switch {
	case g.Chance(0.05):
		s = malformedFor(g, 5)
		tags = append(tags, "malformed")
	case g.Chance(0.4):
		s = wideEID(g).str(g, false)
	default:
		hh, vv := zoomPair(g, 35)
		s = validEID(g, hh, vv).str(g, g.Chance(0.5))
	}
	n := 1 + g.Intn(5)
	cmds, _ := setterScript(g, n, g.Chance(0.3))
	return run.Case{Prop: "C10", Fn: nAlias, Args: []w.Val{w.S(s), cmds}, Tags: append(tags, Tag("seqlen=%d", n))}
}

// ---- adversarial inputs for the string layer ----
var numFixed = []string{"", "+", "-", "+-1", "-+1", "--1", "++1", " 1", "1 ", "1\n", "\t1", "0x10", "0X1f", "0b1", "0o7", "1_0", "1_000", "_1", "１２", "٣", "1e3", "1.0", "1.",
	"0", "-0", "+0", "00", "-00", "+00", "007", "-007", "+007", "1", "-1", "+1", "a", "1a", "a1", "1-", "1+", "\x001", "1\x00", "\xff", "1\xff", "\xc3\x28",
	"9223372036854775807", "9223372036854775808", "9223372036854775806", "-9223372036854775808", "-9223372036854775809", "-9223372036854775807",
	"+9223372036854775807", "+9223372036854775808", "18446744073709551615", "18446744073709551616", "-18446744073709551616", "99999999999999999999",
	"-99999999999999999999", "1000000000000000000", "999999999999999999", "10000000000000000000", "-10000000000000000000",
	"99999999999999999999x", "18446744073709551615x", "9223372036854775808x", "0000000000000000000009223372036854775807", "0000000000000000000009223372036854775808",
	"-0000000000000000000009223372036854775808", "-0000000000000000000009223372036854775809", "９", "۱", "1١", "0/0", "1/", "/1"}

func numString(g *Gen) (string, string) {
	switch g.Intn(10) {
	case 0, 1, 2:
		return numFixed[g.Intn(len(numFixed))], "fixed"
	case 3: // around the int64 / uint64 boundaries, decorated
		b := new(big.Int).Lsh(big.NewInt(1), uint(g.Pick(63, 63, 63, 64, 62)))
		b.Add(b, big.NewInt(g.Int63n(5)-2))
		if g.Chance(0.5) {
			b.Neg(b)
		}
		s := b.String()
		if g.Chance(0.3) {
			neg := strings.HasPrefix(s, "-")
			d := strings.Repeat("0", g.Intn(25)) + strings.TrimPrefix(s, "-")
			if neg {
				s = "-" + d
			} else if g.Chance(0.5) {
				s = "+" + d
			} else {
				s = d
			}
		}
		return s, "boundary"
	case 4: // 17..21 random digits with an optional sign
		n := 17 + g.Intn(5)
		bs := make([]byte, n)
		for i := range bs {
			bs[i] = byte('0' + g.Intn(10))
		}
		return []string{"", "+", "-"}[g.Intn(3)] + string(bs), "19-20 digits"
	case 5: // a valid spelling with one byte replaced / inserted
		bs := []byte(field(g, int64Edge(g), false))
		junk := []byte{' ', '_', '+', '-', 'x', 0, 0xff, 0xef, '/', '\n', '.', 'e', ':', '/' - 1, '9' + 1}
		i := g.Intn(len(bs) + 1)
		if i < len(bs) && g.Chance(0.5) {
			bs[i] = junk[g.Intn(len(junk))]
		} else {
			bs = append(bs[:i], append([]byte{junk[g.Intn(len(junk))]}, bs[i:]...)...)
		}
		return string(bs), "one bad byte"
	case 6: // random bytes
		n := g.Intn(6)
		bs := make([]byte, n)
		for i := range bs {
			bs[i] = byte(g.Intn(256))
		}
		return string(bs), "random bytes"
	}
	return field(g, int64Edge(g), false), "well-formed"
}

func slashString(g *Gen) string {
	n := g.Intn(7) // 0..6 slashes
	var b strings.Builder
	for i := 0; i <= n; i++ {
		if i > 0 {
			b.WriteByte('/')
		}
		switch g.Intn(6) {
		case 0: // empty field: leading / trailing / double slashes
		case 1:
			s, _ := numString(g)
			b.WriteString(strings.ReplaceAll(s, "/", ""))
		case 2:
			bs := make([]byte, g.Intn(4))
			for j := range bs {
				c := byte(g.Intn(256))
				if c == '/' {
					c = 0
				}
				bs[j] = c
			}
			b.Write(bs)
		default:
			b.WriteString(strconv.FormatInt(g.Int63n(1<<uint(g.Intn(40)))-int64(g.Intn(3)), 10))
		}
	}
	return b.String()
}

func caseStringLayer(g *Gen) run.Case {
	switch g.Intn(10) {
	case 0, 1, 2:
		s, tag := numString(g)
		return run.Case{Prop: "C10", Fn: nPInt, Args: []w.Val{w.S(s)}, Tags: []string{"string-layer", "num:" + tag}}
	case 3, 4:
		s, tag := numString(g)
		return run.Case{Prop: "C10", Fn: nAtoi, Args: []w.Val{w.S(s)}, Tags: []string{"string-layer", "num:" + tag}}
	case 5:
		return run.Case{Prop: "C10", Fn: nFmt, Args: []w.Val{w.I(int64Edge(g))}, Tags: []string{"string-layer"}}
	case 6:
		v := int64Edge(g)
		if g.Chance(0.3) {
			v = g.Pick(0, 1, -1, 9, 10, -10, 99, 100, 1<<31, -(1 << 31), 1<<32, 1<<53, -(1 << 53), 1e18, -1e18)
		}
		return run.Case{Prop: "C10", Fn: nItoa, Args: []w.Val{w.I(v)}, Tags: []string{"string-layer"}}
	case 7, 8:
		return run.Case{Prop: "C10", Fn: nSplit, Args: []w.Val{w.S(slashString(g))}, Tags: []string{"string-layer"}}
	}
	// Join: 0..7 fields, mostly slash-free; sometimes a field containing '/', sometimes the fields of a Split
	var l []string
	switch g.Intn(4) {
	case 0:
		l = strings.Split(slashString(g), "/")
	case 1:
		for i := g.Intn(5); i > 0; i-- {
			l = append(l, slashString(g))
		}
	default:
		for i := g.Intn(8); i > 0; i-- {
			s, _ := numString(g)
			if g.Chance(0.9) {
				s = strings.ReplaceAll(s, "/", "")
			}
			l = append(l, s)
		}
	}
	return run.Case{Prop: "C10", Fn: nJoin, Args: []w.Val{strsVal(l)}, Tags: []string{"string-layer", Tag("join-fields=%d", len(l))}}
}

func call(fn string, args ...w.Val) w.Val { return append(w.List{w.S(fn)}, args...) }

// mixed sequences: the same conversion on related lists (the list, a permutation, a prefix, the list again), the two conversions interleaved,
// objects built one after the other from IDs sharing fields, expansion / voxel extraction interleaved
func caseCallSeq(g *Gen) run.Case {
	var calls w.List
	kind := g.Intn(5)
	switch kind {
	case 0, 1:
		ext := kind == 1
		fn := nS2E
		if ext {
			fn = nE2S
		}
		pm := 0.0
		if g.Chance(0.2) {
			pm = 0.25
		}
		l, _ := idList(g, ext, pm, g.Chance(0.3))
		for len(l) < 2 {
			more, _ := idList(g, ext, 0, true)
			l = append(l, more...)
		}
		calls = append(calls, call(fn, strsVal(l)))
		rev := make([]string, len(l))
		for i, s := range l {
			rev[len(l)-1-i] = s
		}
		calls = append(calls, call(fn, strsVal(rev)))
		calls = append(calls, call(fn, strsVal(l[:len(l)/2])))
		if g.Chance(0.5) {
			other, _ := idList(g, !ext, 0, true)
			ofn := nE2S
			if ext {
				ofn = nS2E
			}
			calls = append(calls, call(ofn, strsVal(other)))
		}
		calls = append(calls, call(fn, strsVal(l)))
	case 2:
		dir := g.Chance(0.5)
		l, _ := idList(g, !dir, 0, g.Chance(0.5))
		l2, _ := idList(g, dir, 0, g.Chance(0.5))
		calls = append(calls, call(nRT, w.B(dir), strsVal(l)), call(nRT, w.B(!dir), strsVal(l2)), call(nRT, w.B(dir), strsVal(l)))
	case 3:
		h, v := zoomPair(g, 35)
		e := validEID(g, h, v)
		e2 := e
		e2.v, e2.f = g.Zoom(), int64Edge(g)
		e3 := e
		e3.x, e3.y = e.y, e.x
		calls = append(calls, call(nPP, w.S(e.str(g, false))), call(nPP, w.S(e2.str(g, false))))
		if g.Chance(0.3) {
			calls = append(calls, call(nPP, w.S(malformedFor(g, 5))))
		}
		calls = append(calls, call(nPP, w.S(e3.str(g, false))), call(nVoxel, w.S(e3.str(g, false))), call(nPP, w.S(e.str(g, false))))
	default:
		h, v := expandPair(g)
		e := validEID(g, h, v)
		e2 := e
		e2.v = relatedVZoom(g, e.h)
		e2.f = g.VIndex(e2.v)
		s1, s2 := e.str(g, true), e2.str(g, true)
		calls = append(calls, call(nExpand, w.S(s1)), call(nVoxel, w.S(s1)), call(nExpand, w.S(s2)), call(nVoxel, w.S(s2)),
			call(nE2S, strsVal([]string{s1, s2})), call(nExpand, w.S(s1)))
	}
	return run.Case{Prop: "C10", Fn: nSeq, Args: []w.Val{calls}, Tags: []string{"sequence", Tag("callseq-kind=%d", kind), Tag("seqlen=%d", len(calls))}}
}

func init() {
	Scale["C10"] = 10000
	Registry["C10"] = func(r *run.Runner, g *Gen, n int) {
		base := map[string]*run.Fn{}
		for _, f := range []*run.Fn{fnS2E(), fnE2S(), fnRoundTrip(), fnParsePrint(), fnExpand(), fnExpandObject(), fnVoxel(), fnResetSeq(), fnSetters(), fnAliasing(), fnParseInt(), fnAtoi(), fnFormatInt(), fnItoa(), fnSplit(), fnJoin()} {
			base[f.Name] = f
			r.Register(primed(f))
		}
		r.Register(primed(fnExpandSeq()), primed(fnCallSeq(base)))
		for i := 0; i < n; i++ {
			var c run.Case
			if i%10 == 9 { // one case in ten is a short sequence of related calls
				switch k := g.Intn(20); {
				case k < 8:
					c = caseExpandSeq(g)
				case k < 11:
					c = caseResetSeq(g)
				case k < 14:
					c = caseSetters(g)
				case k < 16:
					c = caseAliasing(g)
				default:
					c = caseCallSeq(g)
				}
			} else {
				switch g.Intn(14) {
				case 12, 13:
					c = caseStringLayer(g)
				case 0, 1:
					c = caseConv(g, false)
				case 2, 3:
					c = caseConv(g, true)
				case 4, 5:
					c = caseRoundTrip(g)
				case 6, 7:
					c = caseParsePrint(g)
				case 8, 9, 10:
					c = caseExpand(g)
					if i%3 == 0 { // same inputs, but the caller keeps the object: expanded, read back, expanded again
						c.Fn = nExpObj
						c.Tags = append(c.Tags, "object-kept")
					}
				default:
					c = caseVoxel(g)
				}
			}
			r.Run(c)
		}
	}
}
