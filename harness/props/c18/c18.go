// Package c18: projection to a planar CRS and back (shape.ConvertPointListToProjectedPointList / ConvertProjectedPointListToPointList).
// The third-party datum transform (github.com/wroge/wgs84) is the oracle of the wrapper model; the numeric claims are decided by
// the Coq checker on the observed output, and - in the certificate step, see certMain - by CoqInterval proofs per sample.
package c18

import (
	"fmt"
	"math"
	"math/big"
	"os"
	"os/exec"
	"path/filepath"
	"regexp"
	"sort"
	"strconv"
	"strings"
	"time"

	"github.com/trajectoryjp/spatial_id_go/v4/common/consts"
	"github.com/trajectoryjp/spatial_id_go/v4/common/object"
	"github.com/trajectoryjp/spatial_id_go/v4/shape"
	"github.com/wroge/wgs84"

	. "verif/harness/gen"
	"verif/harness/run"
	w "verif/harness/wire"
)

func ppVal(ps []*object.ProjectedPoint) w.Val {
	l := make(w.List, len(ps))
	for i, p := range ps {
		if p == nil {
			l[i] = w.Nil{}
			continue
		}
		l[i] = w.L(w.F(p.X), w.F(p.Y), w.F(p.Alt))
	}
	return l
}
func ppFromVal(v w.Val) []*object.ProjectedPoint {
	var out []*object.ProjectedPoint
	for _, e := range w.AsList(v) {
		l := w.AsList(e)
		out = append(out, &object.ProjectedPoint{X: w.AsFlt(l[0]), Y: w.AsFlt(l[1]), Alt: w.AsFlt(l[2])})
	}
	return out
}

// withErr reports a non-nil error together with its code: Err{ (payload, code) }. The code of a SpatialIdError is the part of
// Error() before the first comma (common/errors/errors.go: "code,message[,detail]"); any other error type is reported as its type name.
func withErr(v w.Val, err error) w.Val {
	if err == nil {
		return v
	}
	code := fmt.Sprintf("%T", err)
	if strings.HasSuffix(code, "spatialIdError") {
		code = strings.SplitN(err.Error(), ",", 2)[0]
	}
	return w.Err{V: w.L(v, w.S(code))}
}

func fnToProjected() *run.Fn {
	return &run.Fn{Name: "ConvertPointListToProjectedPointList", Invoke: func(a []w.Val) w.Val {
		pp, err := shape.ConvertPointListToProjectedPointList(PointsFromVal(a[0]), int(w.AsInt(a[1])))
		return withErr(ppVal(pp), err)
	}}
}
func fnToGeographic() *run.Fn {
	return &run.Fn{Name: "ConvertProjectedPointListToPointList", Invoke: func(a []w.Val) w.Val {
		ps, err := shape.ConvertProjectedPointListToPointList(ppFromVal(a[0]), int(w.AsInt(a[1])))
		return withErr(PointsVal(ps), err)
	}}
}

// there and back through consts.OrthCrs; the constants themselves are part of the observation
func fnRoundTrip() *run.Fn {
	return &run.Fn{Name: "ProjectRoundTrip", Invoke: func(a []w.Val) w.Val {
		pp, err := shape.ConvertPointListToProjectedPointList(PointsFromVal(a[0]), consts.OrthCrs)
		fwd := withErr(ppVal(pp), err)
		var back w.Val = w.Nil{}
		if err == nil {
			ps, err2 := shape.ConvertProjectedPointListToPointList(pp, consts.OrthCrs)
			back = withErr(PointsVal(ps), err2)
		}
		return w.L(w.I(consts.GeoCrs), w.I(consts.OrthCrs), fwd, back)
	}}
}
// consecutive calls made back to back; step = (direction: 0 forward / 1 backward, list, crs). Nothing else calls the library's
// functions in between (the runner is sequential and the oracle goes to wgs84 directly), so a result that depends on the calls
// made before is visible here and the case replays on its own.
func fnCallSequence() *run.Fn {
	return &run.Fn{Name: "CallSequence", Invoke: func(a []w.Val) w.Val {
		steps := w.AsList(a[0])
		out := make(w.List, len(steps))
		// every history starts from the same point: one valid call (empty list, EPSG:4326), result ignored. Whatever earlier cases left
		// behind in a remembered-last-code kind of state is overwritten, so the observation is a function of the steps alone and a
		// failing sequence (also a shrunk one) replays on its own.
		_, _ = shape.ConvertPointListToProjectedPointList(nil, consts.GeoCrs)
		for i, st := range steps {
			f := w.AsList(st)
			crs := int(w.AsInt(f[2]))
			if w.AsInt(f[0]) == 0 {
				pp, err := shape.ConvertPointListToProjectedPointList(PointsFromVal(f[1]), crs)
				out[i] = withErr(ppVal(pp), err)
			} else {
				ps, err := shape.ConvertProjectedPointListToPointList(ppFromVal(f[1]), crs)
				out[i] = withErr(PointsVal(ps), err)
			}
		}
		return out
	}}
}

func fnEpsgCodes() *run.Fn {
	return &run.Fn{Name: "EpsgCodes", Invoke: func(a []w.Val) w.Val {
		cs := wgs84.EPSG().Codes()
		sort.Ints(cs)
		l := make(w.List, len(cs))
		for i, c := range cs {
			l[i] = w.I(int64(c))
		}
		return l
	}}
}

// the library's own point transform answers the wrapper model's queries
func transformOracle(r *run.Runner) {
	repo := wgs84.EPSG()
	r.Oracles["transform"] = func(a []w.Val) w.Val {
		from, to := int(w.AsInt(a[0])), int(w.AsInt(a[1]))
		x, y, z, err := wgs84.SafeTransform(repo.Code(from), repo.Code(to))(w.AsFlt(a[2]), w.AsFlt(a[3]), w.AsFlt(a[4]))
		if err != nil {
			return w.Err{V: w.Nil{}}
		}
		return w.L(w.F(x), w.F(y), w.F(z))
	}
}

// ---- generators ----

// altitudes a few ulps (or less than a nanometre) off a multiple of 2^-10 m / a round number: any snapping of the altitude on its
// way through a conversion shows up as a changed bit pattern
func altNearGrid(g *Gen) float64 {
	var base float64
	switch g.Intn(3) {
	case 0:
		base = float64(g.Int63n(1<<23)-(1<<22)) / 1024
	case 1:
		base = g.PickF(435, 100, 1000, 12.5, -50, 1, -1, 8848, 0.0009765625, 33554431, -1024, 2, 250.5)
	default:
		base = float64(g.Int63n(20001) - 10000)
	}
	switch g.Intn(3) {
	case 0:
		return Ulp(base, g.Intn(9)-4)
	case 1:
		return base + (g.R.Float64()*2-1)*9.5e-10
	}
	return Ulp(base, int(g.Pick(-1, 1)))
}
func altSubNano(g *Gen) float64 {
	if g.Chance(0.5) {
		return g.PickF(1e-10, -1e-10, 5e-324, -5e-324, 3e-10, -3e-10, 9.9e-10, -9.9e-10, 1e-300, 4.9e-10)
	}
	return (g.R.Float64()*2 - 1) * 1e-9
}

// AltMax is the vertical extent of the ID space and the altitude domain of the property: |alt| <= 2^25 m
const AltMax = 33554432.0

func altC18(g *Gen) (float64, string) {
	switch k := g.Intn(40); {
	case k < 12:
		return 0, "alt=0"
	case k < 13:
		return math.Copysign(0, -1), "alt=0"
	case k < 22:
		return (g.R.Float64()*2 - 1) * 1000, "alt<1e3"
	case k < 24:
		return g.PickF(1, -1, 0.5, -0.5, 1e-9, -1e-9, 5e-324, 100, -100, 999.9999, -420, 8848.86), "alt-special-small"
	case k < 26:
		return (g.R.Float64()*2 - 1) * 9000, "alt<9e3"
	case k < 28:
		return math.Copysign(1000+g.R.Float64()*99000, g.R.Float64()-0.5), "alt<1e5"
	case k < 29:
		return (g.R.Float64()*2 - 1) * AltMax, "alt<=2^25"
	case k < 30:
		return g.PickF(AltMax, -AltMax, 1e6, -1e6, 3e5, -3e5, 2e7, -5.9e6, -6e6, -6.1e6, -6.3e6, -6378137, -7e6), "alt-special-large"
	case k < 31:
		return -g.R.Float64() * 11000, "alt-negative"
	case k < 36:
		return altNearGrid(g), "alt-near-2^-10-grid"
	}
	return altSubNano(g), "alt-sub-nanometre"
}

// finite altitudes outside +-2^25 m: outside the property's domain, the dispatch entry answers "skipped"
func altBeyond(g *Gen) float64 {
	return g.PickF(35786000, -35786000, 4e7, 1e10, -1e10, 1e300, -1e300, math.Nextafter(AltMax, math.Inf(1)), -math.Nextafter(AltMax, math.Inf(1)), math.MaxFloat64)
}

// a stored (valid) point over the whole domain
func validPoint(g *Gen) (w.Val, string) {
	for {
		alt, tag := altC18(g)
		lon, lat := g.Lon(), g.Lat()
		switch g.Intn(12) {
		case 0: // the last centimetres of the projected square, east / west
			lon = math.Copysign(180-g.R.Float64()*g.PickF(3e-8, 1e-9, 1e-7), g.R.Float64()-0.5)
			tag += ",lon-at-extent"
		case 1: // ... north / south: the stored latitudes just below the limit
			lat = math.Copysign(LatMax-float64(g.Intn(40))*1e-10, g.R.Float64()-0.5)
			tag += ",lat-at-extent"
		}
		if _, v, ok := StoredPoint(lon, lat, alt); ok {
			return v, tag
		}
	}
}

type box struct{ lon0, lon1, lat0, lat1 float64 }

var world = box{-180, 180, -LatMax, LatMax}

func inter(a, b box) box {
	return box{math.Max(a.lon0, b.lon0), math.Min(a.lon1, b.lon1), math.Max(a.lat0, b.lat0), math.Min(a.lat1, b.lat1)}
}

// area of use of a bundled code (from the Area functions of wgs84 v1.1.7); only steers the generator, never the verdict
func areaOf(c int) box {
	etrs := box{-16.1, 40.18, 32.88, 84.17}
	mgi := box{9.53, 17.17, 46.4, 49.02}
	dhdn := box{5.87, 13.84, 47.27, 55.09}
	rgf := box{-9.86, 10.38, 41.15, 51.56}
	nad := box{-172.54, -47.74, 23.81, LatMax}
	switch {
	case c == 4258 || c == 3416 || c == 3035:
		return etrs
	case c == 31287 || (c >= 31284 && c <= 31286) || (c >= 31257 && c <= 31259):
		return mgi
	case c == 4314:
		return dhdn
	case c >= 31466 && c <= 31469:
		z := float64(c - 31464)
		return inter(dhdn, box{z*3 - 1.5, z*3 + 1.5, 0, 84})
	case c == 27700 || c == 4277:
		return box{-8.82, 1.92, 49.79, 60.94}
	case c == 4171 || c == 2154 || (c >= 3942 && c <= 3950):
		return rgf
	case c == 4269:
		return nad
	case c == 6355:
		return box{-86.79, -84.89, 30.99, 35.0}
	case c == 6356:
		return box{-88.48, -86.3, 30.14, 35.02}
	case c == 6414:
		return box{-124.45, -114.12, 32.53, 42.01}
	case c >= 32601 && c <= 32660:
		z := float64(c - 32600)
		return box{z*6 - 186, z*6 - 180, 0, 84}
	case c >= 32701 && c <= 32760:
		z := float64(c - 32700)
		return box{z*6 - 186, z*6 - 180, -80, 0}
	case c >= 25828 && c <= 25838:
		z := float64(c - 25800)
		return inter(etrs, box{z*6 - 186, z*6 - 180, 0, 84})
	}
	return world
}

var unknownCodes = []int{1, 99999, 0, -1, 3395, 4325, 4327, 32600, 32661, 32700, 32761, 3941, 3951, 31465, 31470, 25827, 25839,
	2147483647, -3857, 38570, 54004, -2147483648, 4979, 3858}

// every code of the library's table (read from the library: all 167 are drawn), the world-wide ones more often
var tableCodes = func() []int { c := wgs84.EPSG().Codes(); sort.Ints(c); return c }()

func knownCode(g *Gen) int {
	if g.Chance(0.2) {
		return []int{4326, 4978, 900913}[g.Intn(3)]
	}
	return tableCodes[g.Intn(len(tableCodes))]
}
func unknownCode(g *Gen) int {
	if g.Chance(0.5) {
		return unknownCodes[g.Intn(len(unknownCodes))]
	}
	for {
		var c int
		switch g.Intn(3) {
		case 0:
			c = g.Intn(100000)
		case 1:
			c = int(g.Int63n(1<<32) - (1 << 31))
		default: // next to a table code
			c = tableCodes[g.Intn(len(tableCodes))] + int(g.Pick(-2, -1, 1, 2, 10, 100))
		}
		if i := sort.SearchInts(tableCodes, c); i >= len(tableCodes) || tableCodes[i] != c {
			return c
		}
	}
}

func pointIn(g *Gen, b box) (w.Val, string) {
	for {
		lon := b.lon0 + g.R.Float64()*(b.lon1-b.lon0)
		lat := b.lat0 + g.R.Float64()*(b.lat1-b.lat0)
		if g.Chance(0.1) {
			lon = g.PickF(b.lon0, b.lon1, (b.lon0+b.lon1)/2)
		}
		if g.Chance(0.1) {
			lat = g.PickF(b.lat0, b.lat1)
		}
		alt, tag := altC18(g)
		if _, v, ok := StoredPoint(lon, lat, alt); ok {
			return v, tag
		}
	}
}

func pointList(g *Gen, gen func() (w.Val, string)) (w.List, []string) {
	k := g.Intn(7)
	ltag := ""
	switch m := g.Intn(400); {
	case m < 80:
		k = 1
	case m < 92:
		k = 7 + g.Intn(24)
		ltag = "npoints=7..30"
	case m < 94:
		k = 31 + g.Intn(270)
		ltag = "npoints=31..300"
	case m < 95:
		k = 301 + g.Intn(1200)
		ltag = "npoints=301..1500"
	}
	if ltag == "" {
		ltag = Tag("npoints=%d", k)
	}
	l := make(w.List, k)
	seen := map[string]bool{}
	tags := []string{ltag}
	for i := range l {
		v, ts := gen()
		l[i] = v
		for _, t := range strings.Split(ts, ",") {
			if !seen[t] {
				seen[t] = true
				tags = append(tags, t)
			}
		}
	}
	l, t2 := adjacent(g, l)
	tags = append(tags, t2...)
	return l, tags
}

// adjacent makes neighbouring elements share coordinates: same horizontal position with another altitude, exact duplicates,
// same first / same second coordinate only. Every element must still come out at its own position with its own altitude.
func adjacent(g *Gen, l w.List) (w.List, []string) {
	if len(l) < 2 || !g.Chance(0.55) {
		return l, nil
	}
	seen := map[string]bool{}
	var tags []string
	for i := 1; i < len(l); i++ {
		if !g.Chance(0.6) {
			continue
		}
		prev, cur := w.AsList(l[i-1]), w.AsList(l[i])
		tag := ""
		switch g.Intn(6) {
		case 0, 1, 2: // same horizontal position, different altitude
			alt := w.AsFlt(cur[2])
			if math.Float64bits(alt) == math.Float64bits(w.AsFlt(prev[2])) {
				alt = g.PickF(alt+1, alt-1, -alt-0.5, 0, 12.5)
			}
			if math.Float64bits(alt) == math.Float64bits(w.AsFlt(prev[2])) {
				alt = alt + 2
			}
			l[i] = w.L(prev[0], prev[1], w.F(alt))
			tag = "adjacent-same-xy-other-alt"
		case 3:
			l[i] = w.L(prev[0], prev[1], prev[2])
			tag = "adjacent-duplicate"
		case 4:
			l[i] = w.L(prev[0], cur[1], cur[2])
			tag = "adjacent-same-first-coord"
		case 5:
			l[i] = w.L(cur[0], prev[1], cur[2])
			tag = "adjacent-same-second-coord"
		}
		if !seen[tag] {
			seen[tag] = true
			tags = append(tags, tag)
		}
	}
	return l, tags
}

// projected points for the backward direction: images of valid points (so that most are convertible), some perturbed or far outside
func projList(g *Gen, repo *wgs84.Repository, crs int, gen func() (w.Val, string)) (w.List, []string) {
	pts, tags := pointList(g, gen)
	out := make(w.List, 0, len(pts))
	for _, pv := range pts {
		l := w.AsList(pv)
		lon, lat, alt := w.AsFlt(l[0]), w.AsFlt(l[1]), w.AsFlt(l[2])
		x, y, _, err := wgs84.SafeTransform(repo.Code(consts.GeoCrs), repo.Code(crs))(lon, lat, alt)
		if err != nil || g.Chance(0.1) {
			x, y = (g.R.Float64()*2-1)*2.1e7, (g.R.Float64()*2-1)*2.1e7
			tags = append(tags, "xy-random")
		} else if g.Chance(0.1) {
			x, y = x+(g.R.Float64()-0.5)*10, y+(g.R.Float64()-0.5)*10
		}
		if g.Chance(0.03) {
			y = g.PickF(2.1e7, -2.1e7, 2.00375083428e7, 1e9)
			tags = append(tags, "y-beyond-square")
		}
		if g.Chance(0.03) { // eastings beyond the square are not refused: the library wraps them
			x = math.Copysign(g.PickF(2.00375083428e7, 2.1e7, 3e7, 4.0075e7, 2.0037508342789244e7+g.R.Float64()*4e7), g.R.Float64()-0.5)
			tags = append(tags, "x-beyond-square")
		}
		if crs == consts.OrthCrs && g.Chance(0.06) { // inside the square, within 3 mm of its edge
			if g.Chance(0.5) {
				x = math.Copysign(20037508.34+g.R.Float64()*0.00278, g.R.Float64()-0.5)
			} else {
				y = math.Copysign(20037508.34+g.R.Float64()*0.00278, g.R.Float64()-0.5)
			}
			tags = append(tags, "xy-at-extent")
		}
		// the ProjectedPoint is built directly (no NewPoint / SetAlt on the way in): its altitude must come back bit for bit
		switch g.Intn(10) {
		case 0, 1, 2:
			alt = altNearGrid(g)
			tags = append(tags, "proj-alt-near-2^-10-grid")
		case 3:
			alt = altSubNano(g)
			tags = append(tags, "proj-alt-sub-nanometre")
		}
		out = append(out, w.L(w.F(x), w.F(y), w.F(alt)))
	}
	out, t2 := adjacent(g, out)
	if g.Chance(0.012) && len(out) > 0 {
		j := g.Intn(len(out))
		e := w.AsList(out[j])
		out[j] = w.L(e[0], e[1], w.F(altBeyond(g)))
		t2 = append(t2, "alt-beyond-domain")
	}
	seen := map[string]bool{}
	var uniq []string
	for _, t := range append(tags, t2...) {
		if !seen[t] {
			seen[t] = true
			uniq = append(uniq, t)
		}
	}
	return out, uniq
}

func init() {
	Scale["C18"] = 2500
	Registry["C18"] = func(r *run.Runner, g *Gen, n int) {
		if d := os.Getenv("C18_CERT_DIR"); d != "" {
			os.Exit(certMain(g, d))
		}
		MathOracles(r)
		transformOracle(r)
		r.Register(fnToProjected(), fnToGeographic(), fnRoundTrip(), fnCallSequence(), fnEpsgCodes())
		repo := wgs84.EPSG()
		world := func() (w.Val, string) { return validPoint(g) }
		if n > 0 {
			r.Run(run.Case{Prop: "C18", Fn: "EpsgCodes", Args: []w.Val{}, Tags: []string{"epsg-table"}})
			regressions(r)
		}
		lastCrs, haveLast := 0, false
		sticky := func(crs int, ctag string) (int, string) { // one call in four repeats the code of the previous forward/backward call
			if haveLast && g.Chance(0.25) {
				crs = lastCrs
				ctag += ",same-code-as-previous-call"
			}
			lastCrs, haveLast = crs, true
			return crs, ctag
		}
		for i := 0; i < n; i++ {
			if g.Chance(0.03) {
				wildCase(r, g)
				haveLast = false
				continue
			}
			if g.Chance(0.12) {
				steps, tags := callSequence(g, repo)
				r.Run(run.Case{Prop: "C18", Fn: "CallSequence", Args: []w.Val{steps}, Tags: tags})
				haveLast = false
				continue
			}
			switch k := g.Intn(20); {
			case k < 8: // there and back through EPSG:3857
				l, tags := pointList(g, world)
				if g.Chance(0.012) && len(l) > 0 {
					j := g.Intn(len(l))
					e := w.AsList(l[j])
					l[j] = w.L(e[0], e[1], w.F(altBeyond(g)))
					tags = append(tags, "alt-beyond-domain")
				}
				r.Run(run.Case{Prop: "C18", Fn: "ProjectRoundTrip", Args: []w.Val{l}, Tags: append(tags, "roundtrip-3857"), Trivial: len(l) == 0})
			case k < 14: // forward
				crs, ctag := consts.OrthCrs, "fwd-3857"
				gen := world
				switch m := g.Intn(10); {
				case m < 4:
				case m < 8:
					crs, ctag = knownCode(g), "fwd-other-code"
					if g.Chance(0.75) {
						b := areaOf(crs)
						gen = func() (w.Val, string) { return pointIn(g, b) }
					}
				default:
					crs, ctag = unknownCode(g), "fwd-unknown-code"
				}
				crs, ctag = sticky(crs, ctag)
				if ctag == "fwd-other-code" && g.Chance(0.3) {
					// points inside the CRS's area followed by one outside it: the error comes with a non-empty prefix
					b := areaOf(crs)
					if b != (box{-180, 180, -LatMax, LatMax}) {
						inArea := func() (w.Val, string) { return pointIn(g, b) }
						gen = func() (w.Val, string) {
							if g.Chance(0.75) {
								return inArea()
							}
							return validPoint(g)
						}
						ctag += ",fwd-mixed-in-and-out-of-area"
					}
				}
				l, tags := pointList(g, gen)
				if g.Chance(0.012) && len(l) > 0 {
					j := g.Intn(len(l))
					e := w.AsList(l[j])
					l[j] = w.L(e[0], e[1], w.F(altBeyond(g)))
					ctag += ",alt-beyond-domain"
				}
				r.Run(run.Case{Prop: "C18", Fn: "ConvertPointListToProjectedPointList", Args: []w.Val{l, w.I(int64(crs))},
					Tags: append(tags, strings.Split(ctag, ",")...), Trivial: len(l) == 0 && repo.Code(crs) != nil})
			default: // backward
				crs, ctag := consts.OrthCrs, "back-3857"
				gen := world
				switch m := g.Intn(10); {
				case m < 4:
				case m < 8:
					crs, ctag = knownCode(g), "back-other-code"
					if g.Chance(0.8) {
						b := areaOf(crs)
						gen = func() (w.Val, string) { return pointIn(g, b) }
					}
				default:
					crs, ctag = unknownCode(g), "back-unknown-code"
				}
				crs, ctag = sticky(crs, ctag)
				src := crs
				if repo.Code(crs) == nil {
					src = consts.OrthCrs
				}
				l, tags := projList(g, repo, src, gen)
				r.Run(run.Case{Prop: "C18", Fn: "ConvertProjectedPointListToPointList", Args: []w.Val{l, w.I(int64(crs))},
					Tags: append(tags, strings.Split(ctag, ",")...), Trivial: len(l) == 0 && repo.Code(crs) != nil})
			}
		}
	}
}

// a short history of related calls: a small pool of codes (valid and unknown), the same code repeated in consecutive calls, both
// directions mixed - so that any cache or remembered state keyed on the code is exercised. Points are few and low (no finding class).
func callSequence(g *Gen, repo *wgs84.Repository) (w.Val, []string) {
	lowPoint := func(b box) (float64, float64, float64) {
		for {
			lon := b.lon0 + g.R.Float64()*(b.lon1-b.lon0)
			lat := b.lat0 + g.R.Float64()*(b.lat1-b.lat0)
			alt := g.PickF(0, 0, 12.5, -3, 100, (g.R.Float64()*2-1)*500)
			if p, _, ok := StoredPoint(lon, lat, alt); ok {
				return p.Lon(), p.Lat(), alt
			}
		}
	}
	valid := []int{consts.OrthCrs, consts.OrthCrs, 4326, 900913, knownCode(g)}
	v1, v2 := valid[g.Intn(len(valid))], valid[g.Intn(len(valid))]
	u1, u2 := unknownCode(g), unknownCode(g)
	if g.Chance(0.3) {
		u1 = int(g.Pick(9999, 1, 99999, 0))
	}
	var codes []int
	tag := ""
	switch g.Intn(8) {
	case 0:
		codes, tag = []int{v1, u1, u1}, "seq-valid-unknown-unknown"
	case 1:
		codes, tag = []int{v1, u1, u1, u1, v1}, "seq-valid-unknown-x3-valid"
	case 2:
		codes, tag = []int{v1, u1, v2, u1, u1}, "seq-alternating"
	case 3:
		codes, tag = []int{v1, u1, u2, u1, u2, u2}, "seq-two-unknown-codes"
	case 4:
		codes, tag = []int{u1, u1, v1, u1, u1}, "seq-unknown-first"
	case 5:
		codes, tag = []int{v1, v2, v1, v1, v2}, "seq-valid-codes-repeated"
	default:
		pool := []int{v1, v2, u1, u2}
		n := 3 + g.Intn(5)
		c := pool[g.Intn(4)]
		for i := 0; i < n; i++ {
			if !g.Chance(0.5) {
				c = pool[g.Intn(4)]
			}
			codes = append(codes, c)
		}
		tag = "seq-random-pool"
	}
	steps := make(w.List, len(codes))
	for i, c := range codes {
		b := areaOf(c)
		k := 1 + g.Intn(2)
		if g.Chance(0.1) {
			k = 0
		}
		if g.Chance(0.5) { // forward
			pts := make(w.List, k)
			for j := range pts {
				lon, lat, alt := lowPoint(b)
				pts[j] = w.L(w.F(lon), w.F(lat), w.F(alt))
			}
			steps[i] = w.L(w.I(0), pts, w.I(int64(c)))
		} else { // backward: images of valid points (through the code itself when the library has it, else through EPSG:3857)
			src := c
			if repo.Code(c) == nil {
				src = consts.OrthCrs
			}
			pts := make(w.List, k)
			for j := range pts {
				lon, lat, alt := lowPoint(b)
				x, y, _, err := wgs84.SafeTransform(repo.Code(consts.GeoCrs), repo.Code(src))(lon, lat, alt)
				if err != nil {
					x, y = lon, lat
				}
				pts[j] = w.L(w.F(x), w.F(y), w.F(alt))
			}
			steps[i] = w.L(w.I(1), pts, w.I(int64(c)))
		}
	}
	return steps, []string{"call-sequence", tag, Tag("seq-len=%d", len(codes))}
}

// wildCase: coordinates that no valid point has - NaN, +-Inf, 1e308, 1e19, -0 - in any field, in both directions and inside call
// sequences, combined with unknown codes (the answer is decided by the code alone: conversion error) and with known codes (the wrapper
// contract is judged against the library's own answers; no numeric claim). The dispatch entries must judge these, never reject them.
func wildCase(r *run.Runner, g *Gen) {
	wild := func() float64 {
		return g.PickF(math.NaN(), math.Inf(1), math.Inf(-1), 1e308, -1e308, math.MaxFloat64, 1e19, -1e19, 181, -90.5, 1e-320, math.Copysign(0, -1))
	}
	tame := func() float64 { return g.PickF(0, 139, 35, -45.5, 12.5, 1.5473409220265027e+07, -4.1638811440642914e+06, 100) }
	triple := func() w.Val {
		c := []float64{tame(), tame(), tame()}
		c[g.Intn(3)] = wild()
		if g.Chance(0.3) {
			c[g.Intn(3)] = wild()
		}
		return w.L(w.F(c[0]), w.F(c[1]), w.F(c[2]))
	}
	list := func() w.List {
		k := 1 + g.Intn(4)
		l := make(w.List, k)
		for j := range l {
			if g.Chance(0.6) {
				l[j] = triple()
			} else {
				l[j] = w.L(w.F(tame()), w.F(tame()), w.F(g.PickF(0, 7, -3)))
			}
		}
		return l
	}
	code := func() (int, string) {
		switch g.Intn(4) {
		case 0:
			return unknownCode(g), "wild-unknown-code"
		case 1:
			return int(g.Pick(9223372036854775807, -9223372036854775808, 4294970153, -4326, 1<<40)), "wild-huge-code"
		case 2:
			return consts.OrthCrs, "wild-3857"
		}
		return knownCode(g), "wild-known-code"
	}
	crs, ctag := code()
	tags := []string{"non-finite-or-huge-coordinates", ctag}
	switch g.Intn(3) {
	case 0:
		r.Run(run.Case{Prop: "C18", Fn: "ConvertPointListToProjectedPointList", Args: []w.Val{list(), w.I(int64(crs))}, Tags: append(tags, "wild-forward")})
	case 1:
		r.Run(run.Case{Prop: "C18", Fn: "ConvertProjectedPointListToPointList", Args: []w.Val{list(), w.I(int64(crs))}, Tags: append(tags, "wild-backward")})
	default:
		n := 2 + g.Intn(3)
		steps := make(w.List, n)
		for j := range steps {
			c := crs
			if g.Chance(0.4) {
				c, _ = code()
			}
			steps[j] = w.L(w.I(int64(g.Intn(2))), list(), w.I(int64(c)))
		}
		r.Run(run.Case{Prop: "C18", Fn: "CallSequence", Args: []w.Val{steps}, Tags: append(tags, "wild-sequence")})
	}
}

// fixed cases run first on every run: the witnesses of the two repaired defects (an error must be observed now) and inputs of the
// kind on which earlier seeded changes first showed
func regressions(r *run.Runner) {
	pt := func(lon, lat, alt float64) w.Val { return w.L(w.F(lon), w.F(lat), w.F(alt)) }
	tag := func(s string) []string { return []string{"regression", s} }
	orth := w.I(int64(consts.OrthCrs))
	// dbefda0: NewPoint(139, 85.0511287798, 1e6) there and back - the way back must end in an error (it used to return (139,0,0), nil);
	// still a failed round trip, caused by the height (finding alt_fed_to_datum)
	r.Run(run.Case{Prop: "C18", Fn: "ProjectRoundTrip", Args: []w.Val{w.L(pt(139, LatMax, 1e6))}, Tags: tag("regression-dbefda0-roundtrip")})
	// dbefda0: a northing beyond the square must be a conversion error (used to return (0,0,0), nil)
	r.Run(run.Case{Prop: "C18", Fn: "ConvertProjectedPointListToPointList", Args: []w.Val{w.L(pt(0, 2.1e7, 100)), orth}, Tags: tag("regression-dbefda0-direct")})
	r.Run(run.Case{Prop: "C18", Fn: "ConvertProjectedPointListToPointList",
		Args: []w.Val{w.L(pt(1.5473409220265027e+07, 4.1638811440642914e+06, 7), pt(0, 2.1e7, 100), pt(0, 0, 1)), orth}, Tags: tag("regression-dbefda0-prefix")})
	// e07a6eb: unknown EPSG code with an empty list, both directions - must be an error (used to be nil)
	r.Run(run.Case{Prop: "C18", Fn: "ConvertPointListToProjectedPointList", Args: []w.Val{w.L(), w.I(99999)}, Tags: tag("regression-e07a6eb-forward")})
	r.Run(run.Case{Prop: "C18", Fn: "ConvertProjectedPointListToPointList", Args: []w.Val{w.L(), w.I(1)}, Tags: tag("regression-e07a6eb-backward")})
	// a history: a valid conversion, then the same unknown code three times (forward, forward, backward) - each must be a conversion error
	seq := w.L(
		w.L(w.I(0), w.L(pt(139.753098, 35.685371, 0)), orth),
		w.L(w.I(0), w.L(pt(139.753098, 35.685371, 0)), w.I(9999)),
		w.L(w.I(0), w.L(pt(139.753098, 35.685371, 0)), w.I(9999)),
		w.L(w.I(1), w.L(pt(1.5557244273124e+07, 4.2574271490178e+06, 0)), w.I(9999)),
		w.L(w.I(1), w.L(pt(1.5557244273124e+07, 4.2574271490178e+06, 0)), orth),
		w.L(w.I(1), w.L(), w.I(9999)))
	r.Run(run.Case{Prop: "C18", Fn: "CallSequence", Args: []w.Val{seq}, Tags: tag("regression-history-same-unknown-code")})
	// a vertical stack: same horizontal position, different altitudes
	r.Run(run.Case{Prop: "C18", Fn: "ConvertPointListToProjectedPointList",
		Args: []w.Val{w.L(pt(139.753098, 35.685371, 0), pt(139.753098, 35.685371, 12.5), pt(139.753098, 35.685371, 0)), orth}, Tags: tag("regression-vertical-stack")})
	// the corners of the domain: the last millimetres of the projected square
	r.Run(run.Case{Prop: "C18", Fn: "ProjectRoundTrip",
		Args: []w.Val{w.L(pt(179.99999999, LatMax, 0), pt(-179.99999999, -LatMax, 0), pt(180, LatMax, 0), pt(-180, -LatMax, 0))}, Tags: tag("regression-extent-corners")})
	// altitudes next to a multiple of 2^-10 m and below a nanometre, on directly built projected points
	r.Run(run.Case{Prop: "C18", Fn: "ConvertProjectedPointListToPointList",
		Args: []w.Val{w.L(pt(1.5473409220265027e+07, 4.1638811440642914e+06, 434.99999999999994), pt(1.5473409220265027e+07, 4.1638811440642914e+06, 1e-10),
			pt(0, 0, -5e-324), pt(0, 0, 0.0009765625000000002)), orth}, Tags: tag("regression-altitude-bits")})
}

// ---- certificate step (meta/C18.json "steps"): per-sample CoqInterval proofs that the observed EPSG:3857 coordinates are the
// real-number spherical Mercator coordinates of the stored point (DESIGN 4.3). Run as: C18_CERT_DIR=<dir> vgo -prop C18 -tier <tier> -seed <s> ----

// exact decimal-free literal of a finite float64 for Coq's R scope: (m / 2^k) or (m * 2^k) with integer literals
func rlit(f float64) string {
	if f == 0 {
		return "0"
	}
	fr, e := math.Frexp(f) // f = fr * 2^e, 0.5 <= |fr| < 1
	m := new(big.Int)
	big.NewFloat(math.Ldexp(fr, 53)).Int(m)
	e -= 53
	for m.Bit(0) == 0 {
		m.Rsh(m, 1)
		e++
	}
	ms := m.String()
	if m.Sign() < 0 {
		ms = "(" + ms + ")"
	}
	if e >= 0 {
		return "(" + ms + " * " + new(big.Int).Lsh(big.NewInt(1), uint(e)).String() + ")"
	}
	return "(" + ms + " / " + new(big.Int).Lsh(big.NewInt(1), uint(-e)).String() + ")"
}

func certMain(g *Gen, dir string) int {
	n := 50
	if g.Tier == "thorough" {
		n = 1000
	}
	if s := os.Getenv("C18_CERT_N"); s != "" {
		if k, err := strconv.Atoi(s); err == nil {
			n = k
		}
	}
	if err := os.MkdirAll(dir, 0o755); err != nil {
		fmt.Println("BROKEN cannot create", dir, err)
		return 3
	}
	type sample struct {
		lon, lat, alt, x, y, yref float64
	}
	var ss []sample
	var b strings.Builder
	b.WriteString("(* generated by harness/props/c18 (certificate step): do not edit *)\nFrom Coq Require Import Reals.\nFrom Interval Require Import Tactic.\n" +
		"From SID Require Import MercatorR18.\nOpen Scope R_scope.\n")
	lineOf := map[int]int{}
	line := 6
	for len(ss) < n {
		// the same point stream as the judged cases (validPoint): the float reference depends on the latitude only and is certified for
		// every sample; the observed x and y are certified where the nominal claim is made (|alt| < 1000 m: no excuse by the finding)
		pv, _ := validPoint(g)
		e := w.AsList(pv)
		lon, lat, alt := w.AsFlt(e[0]), w.AsFlt(e[1]), w.AsFlt(e[2])
		if math.Abs(alt) >= 1000 {
			alt = 0
			if g.Chance(0.5) {
				alt = (g.R.Float64()*2 - 1) * 1000
			}
		}
		p, _, ok := StoredPoint(lon, lat, alt)
		if !ok {
			continue
		}
		pp, err := shape.ConvertPointListToProjectedPointList([]*object.Point{p}, consts.OrthCrs)
		s := sample{lon: p.Lon(), lat: p.Lat(), alt: alt}
		if err != nil || len(pp) != 1 {
			return certFail(dir, s.lon, s.lat, s.alt, "conversion to EPSG:3857 returned an error or a list of the wrong length")
		}
		s.x, s.y = pp[0].X, pp[0].Y
		// the float reference of the Coq checker (Project.north_ref): northern branch of the formula, sign restored
		rr := math.Abs(s.lat) * (math.Pi / 180)
		s.yref = 6378137 * math.Log(math.Tan(rr)+1/math.Cos(rr))
		if s.lat < 0 {
			s.yref = -s.yref
		}
		if math.IsNaN(s.x) || math.IsNaN(s.y) || math.IsInf(s.x, 0) || math.IsInf(s.y, 0) {
			return certFail(dir, s.lon, s.lat, s.alt, "non-finite projected coordinate")
		}
		i := len(ss)
		ss = append(ss, s)
		lineOf[line] = i
		fmt.Fprintf(&b, "Lemma cert_%d : Rabs (%s - merc_x (rad %s)) <= 1 / 1000000 /\\ Rabs (%s - merc_y (rad %s)) <= 1 / 1000000 /\\ Rabs (%s - merc_y (rad %s)) <= 1 / 10000000.\n",
			i, rlit(s.x), rlit(s.lon), rlit(s.y), rlit(s.lat), rlit(s.yref), rlit(s.lat))
		b.WriteString("Proof. unfold merc_x, merc_y, rad, Rearth. repeat split; interval with (i_prec 110). Qed.\n")
		line += 2
	}
	src := filepath.Join(dir, "CertC18.v")
	if err := os.WriteFile(src, []byte(b.String()), 0o644); err != nil {
		fmt.Println("BROKEN cannot write", src, err)
		return 3
	}
	th, _ := filepath.Abs("coq/theories")
	t0 := time.Now()
	cmd := exec.Command("timeout", "3000", "coqc", "-R", th, "SID", "CertC18.v")
	cmd.Dir = dir
	out, err := cmd.CombinedOutput()
	fmt.Printf("STAT certificates=%d\nSTAT coqc_s=%.1f\n", n, time.Since(t0).Seconds())
	if err == nil {
		fmt.Printf("STAT certified=%d\n", n)
		return 0
	}
	// which lemma failed?
	if m := regexp.MustCompile(`line (\d+)`).FindStringSubmatch(string(out)); m != nil {
		ln, _ := strconv.Atoi(m[1])
		for d := 0; d < 2; d++ {
			if i, ok := lineOf[ln-d]; ok {
				s := ss[i]
				fmt.Printf("STAT certified=%d\n", i)
				return certFail(dir, s.lon, s.lat, s.alt, fmt.Sprintf("CoqInterval cannot prove |x - R*lon*pi/180| <= 1e-6 and |y - R*asinh(tan lat)| <= 1e-6 for the observed x=%v y=%v", s.x, s.y))
			}
		}
	}
	fmt.Println("BROKEN certificate file does not compile:", strings.TrimSpace(string(out[max(0, len(out)-300):])))
	return 3
}

func certFail(dir string, lon, lat, alt float64, what string) int {
	args := w.Show(w.List{w.L(w.L(w.F(lon), w.F(lat), w.F(alt))), w.I(int64(consts.OrthCrs))})
	p := filepath.Join(dir, "C18-certificate.json")
	js := fmt.Sprintf(`{"property":"C18","function":"ConvertPointListToProjectedPointList","kind":"property","class":"-","args":%q,"note":%q}`, args, what)
	if err := os.WriteFile(p, []byte(js), 0o644); err != nil {
		fmt.Println("BROKEN cannot write", p, err)
		return 3
	}
	fmt.Println("BROKEN", what, fmt.Sprintf("(lon=%v lat=%v alt=%v)", lon, lat, alt))
	fmt.Println("REPLAY", p)
	return 1
}
