// Package c05: property C05 (overlap detection) — invokers of the real detector functions, seeded generators.
//
// Generators aim at what the unit tests avoid: pairs derived from one another by zooming in/out on each axis independently (so that a
// positive answer is frequent), crossed zoom orders between the axes with the finer index a non-first child, negative f, zooms 0..35
// including sub-metre zooms, first/last indices, lists of 0..5 IDs with nested IDs in both orders (child before parent and parent before
// child), empty lists on either side, spatial IDs inside and outside the +-2^24 m altitude domain, ~4 % malformed members (wrong arity,
// a non-integer in ANY field), and ~10 % related consecutive calls (sequences) against stateful changes.
package c05

import (
	"os"
	"strings"

	"github.com/trajectoryjp/multidimensional-radix-tree/src/tree"
	"github.com/trajectoryjp/spatial_id_go/v4/detector"

	. "verif/harness/gen"
	"verif/harness/run"
	w "verif/harness/wire"
)

// ---------------------------------------------------------------------------------------------------------------------------------
// invokers

func res(b bool, err error) w.Val { return w.WithErr(w.B(b), err) }

func strs(v w.Val) []string {
	if s := w.AsStrs(v); s != nil {
		return s
	}
	return []string{}
}

func callExtPair(a, b w.Val) w.Val {
	return res(detector.CheckExtendedSpatialIdsOverlap(w.AsStr(a), w.AsStr(b)))
}
func callExtArr(a, b w.Val) w.Val {
	return res(detector.CheckExtendedSpatialIdsArrayOverlap(strs(a), strs(b)))
}
func callSpPair(a, b w.Val) w.Val { return res(detector.CheckSpatialIdsOverlap(w.AsStr(a), w.AsStr(b))) }
func callSpArr(a, b w.Val) w.Val {
	return res(detector.CheckSpatialIdsArrayOverlap(strs(a), strs(b)))
}

var binary = map[string]func(a, b w.Val) w.Val{
	"CheckExtendedSpatialIdsOverlap":      callExtPair,
	"CheckExtendedSpatialIdsArrayOverlap": callExtArr,
	"CheckSpatialIdsOverlap":              callSpPair,
	"CheckSpatialIdsArrayOverlap":         callSpArr,
}

func hvString(s string) bool {
	fs := strings.Split(s, "/")
	return len(fs) == 5 && fs[0] == fs[3]
}
func allHV(l []string) bool {
	for _, s := range l {
		if !hvString(s) {
			return false
		}
	}
	return true
}
func toSids(l []string) []string {
	r := make([]string, len(l))
	for i, s := range l {
		r[i] = EToS(s)
	}
	return r
}

// OverlapBoth(l1, l2): both argument orders of the extended array form and, when every ID is written with h = v, both argument orders
// of the radix-tree form on the same voxels in spatial notation.
func callBoth(a []w.Val) w.Val {
	l1, l2 := strs(a[0]), strs(a[1])
	out := w.List{res(detector.CheckExtendedSpatialIdsArrayOverlap(l1, l2)), res(detector.CheckExtendedSpatialIdsArrayOverlap(l2, l1))}
	if allHV(l1) && allHV(l2) {
		s1, s2 := toSids(l1), toSids(l2)
		out = append(out, res(detector.CheckSpatialIdsArrayOverlap(s1, s2)), res(detector.CheckSpatialIdsArrayOverlap(s2, s1)))
	}
	return out
}

// OverlapSequence([[fn, a, b], ...]): the calls performed back to back in one invocation — a HISTORY. The caller behaves like a program that
// owns two argument buffers: every list argument of the sequence is copied into the SAME backing array as the previous step's (same pointer, often the
// same length, other contents: "the caller mutates its own input between calls"), and after each call the buffers are scribbled over (the caller
// mutating its arguments after the call). A library that keeps a reference to its input, or recognises "the same slice", answers from stale state.
// The results are booleans: there is no returned slice/object to mutate.
// The shrinker may propose argument vectors that are no longer well-shaped calls (a dropped field); those are answered with Nil, which the
// dispatch entry refuses as "not a case".
func callSeq(a []w.Val) w.Val {
	calls, ok := a[0].(w.List)
	if !ok {
		return w.Nil{}
	}
	var bufs [2][]string
	bufs[0], bufs[1] = make([]string, 0, 256), make([]string, 0, 256)
	fill := func(i int, v w.Val) []string {
		src := strs(v)
		if cap(bufs[i]) < len(src) {
			bufs[i] = make([]string, 0, 2*len(src))
		}
		bufs[i] = bufs[i][:len(src)]
		copy(bufs[i], src)
		return bufs[i]
	}
	scribble := func() {
		for i := range bufs {
			full := bufs[i][:cap(bufs[i])]
			for j := range full {
				full[j] = "scribbled/by/the/caller"
			}
		}
	}
	out := make(w.List, 0, len(calls))
	for _, c := range calls {
		p, ok := c.(w.List)
		if !ok || len(p) != 3 {
			return w.Nil{}
		}
		name, ok := p[0].(w.Str)
		f, known := binary[string(name)]
		if !ok || !known {
			return w.Nil{}
		}
		pair := name == "CheckExtendedSpatialIdsOverlap" || name == "CheckSpatialIdsOverlap"
		for _, x := range p[1:] {
			_, isStr := x.(w.Str)
			if isStr != pair {
				return w.Nil{}
			}
			if l, isList := x.(w.List); isList {
				for _, e := range l {
					if _, es := e.(w.Str); !es {
						return w.Nil{}
					}
				}
			} else if _, isNil := x.(w.Nil); !isStr && !isNil {
				return w.Nil{}
			}
		}
		switch {
		case pair:
			out = append(out, f(p[1], p[2]))
		case name == "CheckSpatialIdsArrayOverlap":
			out = append(out, res(detector.CheckSpatialIdsArrayOverlap(fill(0, p[1]), fill(1, p[2]))))
		default:
			out = append(out, res(detector.CheckExtendedSpatialIdsArrayOverlap(fill(0, p[1]), fill(1, p[2]))))
		}
		scribble()
	}
	return out
}

// RadixOps(ops): an arbitrary interleaving of Append ([0, zoom, f', x, y]) and IsOverlap ([1, zoom, f', x, y]) on ONE tree of the third-party library;
// returns the answers of the queries. Ill-shaped arguments, zooms outside 0..62 and a query before the first Append (the library indexes a nil slice)
// are answered with Nil.
func callRadixOps(a []w.Val) w.Val {
	ops, ok := a[0].(w.List)
	if !ok || len(ops) == 0 {
		return w.Nil{}
	}
	tr := tree.CreateTree(tree.Create3DTable())
	out := make(w.List, 0, len(ops))
	for i, o := range ops {
		l, isList := o.(w.List)
		if !isList || len(l) != 5 {
			return w.Nil{}
		}
		kind, isInt := l[0].(w.Int)
		if !isInt || !kind.V.IsInt64() || (kind.V.Int64() != 0 && kind.V.Int64() != 1) || (i == 0 && kind.V.Int64() != 0) {
			return w.Nil{}
		}
		z, f, x, y, ok := key4(w.List(l[1:]))
		if !ok {
			return w.Nil{}
		}
		if kind.V.Int64() == 0 {
			tr.Append(tree.Indexs{f, x, y}, tree.ZoomSetLevel(z), "v")
		} else {
			out = append(out, w.B(tr.IsOverlap(tree.Indexs{f, x, y}, tree.ZoomSetLevel(z))))
		}
	}
	return out
}

// operation sequences for RadixOps: keys shaped like the detector's (f' = f + 2^(z-1)), adversarial keys sharing long prefixes, the empty key (zoom 0),
// duplicate inserts, queries between the inserts (ancestors, descendants, siblings of stored keys, unrelated keys)
func radixOpsCase(g *Gen, tags *[]string) w.Val {
	type k4 struct{ z, f, x, y int64 }
	var stored []k4
	detKey := func() k4 {
		v := randSVox(g)
		return k4{v.h, v.f + pow2(v.h-1), v.x, v.y}
	}
	below := func(a k4, d int64) k4 {
		if a.z+d > 60 {
			d = 60 - a.z
		}
		n := pow2(d)
		return k4{a.z + d, a.f<<uint(d) + g.Int63n(n), a.x<<uint(d) + g.Int63n(n), a.y<<uint(d) + g.Int63n(n)}
	}
	above := func(a k4, d int64) k4 {
		if d > a.z {
			d = a.z
		}
		return k4{a.z - d, a.f >> uint(d), a.x >> uint(d), a.y >> uint(d)}
	}
	flip := func(a k4) k4 { // differs from a in one bit of one coordinate, mostly near the end of the key (longest shared prefix)
		if a.z == 0 {
			return a
		}
		lvl := int64(0)
		if g.Chance(0.3) {
			lvl = g.Int63n(a.z)
		} else if a.z > 1 {
			lvl = g.Int63n(2)
		}
		switch g.Intn(3) {
		case 0:
			a.f ^= pow2(lvl)
		case 1:
			a.x ^= pow2(lvl)
		default:
			a.y ^= pow2(lvl)
		}
		return a
	}
	pick := func() k4 { return stored[g.Intn(len(stored))] }
	newKey := func() k4 {
		if len(stored) == 0 {
			return detKey()
		}
		switch g.Intn(10) {
		case 0, 1:
			return detKey()
		case 2:
			return pick() // duplicate insert
		case 3, 4:
			return below(pick(), 1+g.Int63n(3))
		case 5:
			return above(pick(), 1+g.Int63n(3))
		case 6, 7, 8:
			return flip(pick())
		}
		return flip(below(pick(), zdiff(g)))
	}
	n := 4 + g.Intn(30)
	if g.Chance(0.15) {
		n = 40 + g.Intn(60)
		*tags = append(*tags, "many-ops")
	}
	adversarial := g.Chance(0.4)
	if adversarial {
		*tags = append(*tags, "shared-prefix")
	}
	var ops w.List
	emitOp := func(kind int64, k k4) { ops = append(ops, w.Ints([]int64{kind, k.z, k.f, k.x, k.y})) }
	first := detKey()
	if adversarial { // one deep key; everything else hangs off it
		first = below(detKey(), g.Int63n(20))
	}
	stored = append(stored, first)
	emitOp(0, first)
	for len(ops) < n {
		switch {
		case g.Chance(0.03):
			k := k4{0, 0, 0, 0}
			if g.Chance(0.5) {
				emitOp(0, k)
				stored = append(stored, k)
				*tags = append(*tags, "empty-key-insert")
			} else {
				emitOp(1, k)
			}
		case g.Chance(0.45):
			k := newKey()
			if !adversarial && g.Chance(0.3) {
				k = detKey()
			}
			emitOp(0, k)
			stored = append(stored, k)
		default:
			var q k4
			switch g.Intn(6) {
			case 0:
				q = detKey()
			case 1:
				q = pick()
			case 2:
				q = below(pick(), 1+g.Int63n(4))
			case 3:
				q = above(pick(), 1+g.Int63n(4))
			default:
				q = flip(newKey())
			}
			emitOp(1, q)
		}
	}
	return ops
}

// RadixTree(keys, queries): the third-party library by itself — Append every key (zoom, f', x, y), then IsOverlap for every query.
// Ill-shaped arguments (the shrinker can drop a field) and an empty key list (the library indexes a nil slice) are answered with Nil.
func key4(v w.Val) (z, f, x, y int64, ok bool) {
	l, isList := v.(w.List)
	if !isList || len(l) != 4 {
		return
	}
	var n [4]int64
	for i, e := range l {
		iv, isInt := e.(w.Int)
		if !isInt || !iv.V.IsInt64() {
			return
		}
		n[i] = iv.V.Int64()
	}
	if n[0] < 0 || n[0] > 62 {
		return
	}
	return n[0], n[1], n[2], n[3], true
}
func callTree(a []w.Val) w.Val {
	keys, ok1 := a[0].(w.List)
	qs, ok2 := a[1].(w.List)
	if !ok1 || !ok2 || len(keys) == 0 {
		return w.Nil{}
	}
	tr := tree.CreateTree(tree.Create3DTable())
	for _, k := range keys {
		z, f, x, y, ok := key4(k)
		if !ok {
			return w.Nil{}
		}
		tr.Append(tree.Indexs{f, x, y}, tree.ZoomSetLevel(z), "v")
	}
	out := make(w.List, 0, len(qs))
	for _, q := range qs {
		z, f, x, y, ok := key4(q)
		if !ok {
			return w.Nil{}
		}
		out = append(out, w.B(tr.IsOverlap(tree.Indexs{f, x, y}, tree.ZoomSetLevel(z))))
	}
	return out
}

// keys and queries for the library by itself: nested keys in both orders, the root key (zoom 0), zooms up to 60, queries derived from keys
func treeCase(g *Gen, tags *[]string) (w.Val, w.Val) {
	type k4 struct{ z, f, x, y int64 }
	rk := func() k4 {
		z := g.Zoom()
		if g.Chance(0.08) {
			z = 36 + g.Int63n(25)
			*tags = append(*tags, "zoom>35")
		}
		c := func() int64 {
			switch g.Intn(5) {
			case 0:
				return 0
			case 1:
				return pow2(z) - 1
			}
			return g.Int63n(pow2(z))
		}
		return k4{z, c(), c(), c()}
	}
	dk := func(a k4) k4 { // ancestor, descendant (mostly not the first child) or a perturbed relative
		var b k4
		d := zdiff(g)
		if g.Chance(0.5) {
			if a.z+d > 60 {
				d = 60 - a.z
			}
			n := pow2(d)
			b = k4{a.z + d, a.f<<uint(d) + g.Int63n(n), a.x<<uint(d) + g.Int63n(n), a.y<<uint(d) + g.Int63n(n)}
		} else {
			if d > a.z {
				d = a.z
			}
			b = k4{a.z - d, a.f >> uint(d), a.x >> uint(d), a.y >> uint(d)}
		}
		if g.Chance(0.3) && b.z > 0 {
			bit := pow2(g.Int63n(b.z))
			switch g.Intn(3) {
			case 0:
				b.f ^= bit
			case 1:
				b.x ^= bit
			default:
				b.y ^= bit
			}
		}
		return b
	}
	var keys, qs []k4
	nk, nq := 1+g.Intn(8), 1+g.Intn(6)
	if g.Chance(0.2) { // many keys: deep shared prefixes, full sibling sets
		nk, nq = 9+g.Intn(52), 4+g.Intn(12)
		*tags = append(*tags, "many-keys")
	}
	for len(keys) < nk {
		if len(keys) > 0 && g.Chance(0.4) {
			keys = append(keys, dk(keys[g.Intn(len(keys))]))
		} else {
			keys = append(keys, rk())
		}
	}
	if g.Chance(0.03) {
		keys[g.Intn(len(keys))] = k4{0, 0, 0, 0}
		*tags = append(*tags, "root-key")
	}
	for len(qs) < nq {
		if g.Chance(0.7) {
			qs = append(qs, dk(keys[g.Intn(len(keys))]))
		} else {
			qs = append(qs, rk())
		}
	}
	if g.Chance(0.1) { // coordinates outside [0, 2^zoom): the library masks the bits above the zoom
		*tags = append(*tags, "coord-out-of-range")
		p := &qs[g.Intn(len(qs))]
		if g.Chance(0.5) {
			p = &keys[g.Intn(len(keys))]
		}
		switch g.Intn(3) {
		case 0:
			p.f = -p.f - 1
		case 1:
			p.x += pow2(p.z) * (1 + g.Int63n(3))
		default:
			p.y = -1 - g.Int63n(1<<20)
		}
	}
	enc := func(l []k4) w.Val {
		r := make(w.List, len(l))
		for i, k := range l {
			r[i] = w.Ints([]int64{k.z, k.f, k.x, k.y})
		}
		return r
	}
	return enc(keys), enc(qs)
}

func callAttrs(a []w.Val) w.Val {
	z, f, x, y, err := detector.VerifGetSpatialIdAttrs(w.AsStr(a[0]))
	return w.WithErr(w.Ints([]int64{int64(z), int64(f), int64(x), int64(y)}), err)
}

// ---------------------------------------------------------------------------------------------------------------------------------
// voxels

type vox struct{ h, x, y, v, f int64 }

func (e vox) ext() string { return EID(e.h, e.x, e.y, e.v, e.f) }
func (e vox) sid() string { return SID(e.h, e.f, e.x, e.y) }

func pow2(n int64) int64 { return int64(1) << uint(n) }

// reference relation, used for TAGS ONLY (the verdict is computed by the Coq checker)
func rel1(z1, i1, z2, i2 int64) bool {
	if z1 <= z2 {
		return i2>>uint(z2-z1) == i1
	}
	return i1>>uint(z1-z2) == i2
}
func related(a, b vox) bool {
	return rel1(a.h, a.x, b.h, b.x) && rel1(a.h, a.y, b.h, b.y) && rel1(a.v, a.f, b.v, b.f)
}
func anyRelated(l1, l2 []vox) bool {
	for _, a := range l1 {
		for _, b := range l2 {
			if related(a, b) {
				return true
			}
		}
	}
	return false
}

func randVox(g *Gen) vox {
	h, v := g.Zoom(), g.Zoom()
	return vox{h, g.HIndex(h), g.HIndex(h), v, g.VIndex(v)}
}

// a spatial voxel (h = v = z) inside the altitude domain: z >= 1, -2^(z-1) <= f < 2^(z-1)
func randSVox(g *Gen) vox {
	z := g.Zoom()
	if z == 0 {
		z = 1 + g.Int63n(35)
	}
	half := pow2(z - 1)
	var f int64
	switch g.Intn(8) {
	case 0:
		f = 0
	case 1:
		f = -1
	case 2:
		f = -half
	case 3:
		f = half - 1
	case 4:
		f = -g.Int63n(half) - 1
	default:
		f = g.Int63n(2*half) - half
	}
	return vox{z, g.HIndex(z), g.HIndex(z), z, f}
}

// a valid spatial voxel outside the altitude domain: zoom 0, or |altitude| beyond 2^24 m
func outOfDomainSVox(g *Gen) vox {
	if g.Chance(0.25) {
		return vox{0, 0, 0, 0, g.Pick(0, -1)}
	}
	z := 1 + g.Int63n(35)
	half := pow2(z - 1)
	var f int64
	switch g.Intn(5) {
	case 0:
		f = half
	case 1:
		f = -half - 1
	case 2:
		f = 2*half - 1
	case 3:
		f = -2 * half
	default:
		if g.Chance(0.5) {
			f = half + g.Int63n(half)
		} else {
			f = -half - 1 - g.Int63n(half)
		}
	}
	return vox{z, g.HIndex(z), g.HIndex(z), z, f}
}

// child offset in [0, 2^d): mostly NOT the first child
func childOff(g *Gen, d int64) int64 {
	n := pow2(d)
	switch g.Intn(6) {
	case 0:
		return 0
	case 1, 2:
		return n - 1
	}
	if n == 1 {
		return 0
	}
	return 1 + g.Int63n(n-1)
}

// move one axis from zoom z (index i) by dz levels; down = floor ancestor, up = a (mostly non-first) descendant
func moveAxis(g *Gen, z, i, dz int64) (int64, int64) {
	nz := z + dz
	if nz < 0 {
		nz = 0
	}
	if nz > 35 {
		nz = 35
	}
	if nz >= z {
		d := nz - z
		return nz, i<<uint(d) + childOff(g, d)
	}
	return nz, i >> uint(z-nz)
}

func zdiff(g *Gen) int64 {
	switch g.Intn(6) {
	case 0, 1:
		return 1
	case 2:
		return 2
	case 3:
		return 1 + g.Int63n(5)
	}
	return 1 + g.Int63n(35)
}

// derive a second voxel from the first: zoom in/out on each axis independently (crossed orders frequent), then perturb sometimes
func deriveVox(g *Gen, a vox, tags *[]string) vox {
	var dh, dv int64
	switch g.Intn(10) {
	case 0, 1: // crossed: finer horizontally, coarser vertically
		dh, dv = zdiff(g), -zdiff(g)
		*tags = append(*tags, "crossed")
	case 2, 3: // crossed: coarser horizontally, finer vertically
		dh, dv = -zdiff(g), zdiff(g)
		*tags = append(*tags, "crossed")
	case 4: // equal h, different v
		dh, dv = 0, g.Pick(1, -1)*zdiff(g)
		*tags = append(*tags, "equal-h")
	case 5: // equal v, different h
		dh, dv = g.Pick(1, -1)*zdiff(g), 0
		*tags = append(*tags, "equal-v")
	case 6:
		dh, dv = zdiff(g), zdiff(g)
	case 7:
		dh, dv = -zdiff(g), -zdiff(g)
	case 8:
		dh, dv = 0, 0
	default:
		dh, dv = g.Int63n(13)-6, g.Int63n(13)-6
	}
	// keep a crossed order crossed when a zoom is at an end of the range
	if a.h == 0 && dh < 0 || a.h == 35 && dh > 0 {
		dh = -dh
	}
	if a.v == 0 && dv < 0 || a.v == 35 && dv > 0 {
		dv = -dv
	}
	var b vox
	b.h, b.x = moveAxis(g, a.h, a.x, dh)
	_, b.y = moveAxis(g, a.h, a.y, b.h-a.h)
	b.v, b.f = moveAxis(g, a.v, a.f, dv)
	if b.v > a.v && a.f < 0 && g.Chance(0.3) { // the finer index is a NEGATIVE EXACT MULTIPLE of 2^d (first child of a negative index)
		b.f = a.f << uint(b.v-a.v)
		*tags = append(*tags, "neg-exact-multiple")
	}
	if g.Chance(0.35) {
		b = perturb(g, b, tags)
	}
	return b
}

// a pair (a, b) whose vertical zooms differ by d >= 1 and whose finer vertical index is a negative exact multiple of 2^d: the coarser one
// is its floor-ancestor -k (related), or -k-1 / -k+1 (not related) — where "divide, then decrement every negative quotient" goes wrong
func negMultiplePair(g *Gen, tags *[]string) (vox, vox) {
	*tags = append(*tags, "neg-exact-multiple")
	a := randVox(g)
	for a.v == 0 {
		a = randVox(g)
	}
	d := zdiff(g)
	if d > a.v {
		d = 1 + g.Int63n(a.v)
	}
	cv := a.v - d // coarser vertical zoom
	var k int64   // the coarser index is -k, 1 <= k <= 2^cv
	switch g.Intn(4) {
	case 0:
		k = 1
	case 1:
		k = pow2(cv)
	default:
		k = 1 + g.Int63n(pow2(cv))
	}
	a.f = -k << uint(d)
	b := vox{a.h, a.x, a.y, cv, -k}
	if g.Chance(0.5) { // another horizontal zoom as well
		var t []string
		c := deriveVox(g, vox{a.h, a.x, a.y, 0, 0}, &t)
		if len(t) == 0 || t[len(t)-1] != "perturbed" {
			b.h, b.x, b.y = c.h, c.x, c.y
		}
	}
	switch g.Intn(5) {
	case 0:
		if -k-1 >= -pow2(cv) {
			b.f = -k - 1
		}
	case 1:
		b.f = -k + 1
	}
	if g.Chance(0.5) {
		return b, a
	}
	return a, b
}

func perturb(g *Gen, b vox, tags *[]string) vox {
	*tags = append(*tags, "perturbed")
	wh, wv := pow2(b.h), pow2(b.v)
	switch g.Intn(6) {
	case 0:
		b.x = (b.x + 1) % wh
	case 1:
		b.y = (b.y + wh - 1) % wh
	case 2:
		if b.f+1 < wv {
			b.f++
		} else {
			b.f--
		}
	case 3:
		if b.f-1 >= -wv {
			b.f--
		} else {
			b.f++
		}
	case 4: // flip one bit of the vertical index (stays in range)
		b.f ^= pow2(g.Int63n(b.v + 1))
		if b.f >= wv || b.f < -wv {
			b.f = -1
		}
	default: // flip one bit of x
		if b.h > 0 {
			b.x ^= pow2(g.Int63n(b.h))
		}
	}
	return b
}

// the spatial twin: the same zoom difference on all three coordinates
func deriveSVox(g *Gen, a vox, tags *[]string) vox {
	var dz int64
	switch g.Intn(8) {
	case 0:
		dz = 0
	case 1, 2, 3:
		dz = zdiff(g)
	default:
		dz = -zdiff(g)
	}
	nz := a.h + dz
	if nz < 1 {
		nz = 1
	}
	if nz > 35 {
		nz = 35
	}
	var b vox
	b.h, b.v = nz, nz
	if nz >= a.h {
		d := nz - a.h
		b.x, b.y, b.f = a.x<<uint(d)+childOff(g, d), a.y<<uint(d)+childOff(g, d), a.f<<uint(d)+childOff(g, d)
	} else {
		d := a.h - nz
		b.x, b.y, b.f = a.x>>uint(d), a.y>>uint(d), a.f>>uint(d)
	}
	if g.Chance(0.35) {
		*tags = append(*tags, "perturbed")
		w2, half := pow2(nz), pow2(nz-1)
		switch g.Intn(5) {
		case 0:
			b.x = (b.x + 1) % w2
		case 1:
			b.y = (b.y + w2 - 1) % w2
		case 2:
			if b.f+1 < half {
				b.f++
			} else {
				b.f--
			}
		case 3:
			if b.f-1 >= -half {
				b.f--
			} else {
				b.f++
			}
		default:
			b.f ^= pow2(g.Int63n(nz))
			if b.f >= half || b.f < -half {
				b.f = -1
			}
		}
	}
	return b
}

// ---------------------------------------------------------------------------------------------------------------------------------
// malformed strings

var junk = []string{"b", "x", "", " ", "1 ", " 1", "1.5", "0x10", "９", "1e2", "--1", "+", "-", "92233720368547758070", "-9223372036854775809", "1_0", "١", "1\t", "a", "+-3"}

var malformedSidFixed = []string{"1/b/0/0", "b/0/0/0", "1/0/b/0", "1/0/0/b", "", "/", "///", "1/0/0", "1/0/0/0/0", "1/0/0/0/", "/1/0/0/0", "1//0/0", "1/0/0/ 0",
	"1/0/0/0\n", "1/0/0/99999999999999999999", "１/0/0/0", "1/-/0/0", "1/+/0/0", "3,0,0,0", "2/1/1/2/1"}

// a malformed string near a voxel (wrong arity, junk in ANY field, ...), in the given notation
func malformedNear(g *Gen, e vox, sid bool) string {
	if sid && g.Chance(0.3) {
		return malformedSidFixed[g.Intn(len(malformedSidFixed))]
	}
	if !sid && g.Chance(0.2) {
		return g.Malformed()
	}
	s := e.ext()
	if sid {
		s = e.sid()
	}
	fs := strings.Split(s, "/")
	n := len(fs)
	switch g.Intn(8) {
	case 0:
		fs = append(fs, pickS(g, "0", "7", "", "-1"))
	case 1:
		i := g.Intn(n)
		fs = append(fs[:i:i], fs[i+1:]...)
	case 2, 3, 4:
		fs[g.Intn(n)] = junk[g.Intn(len(junk))]
	case 5:
		return s + "/"
	case 6:
		i := 1 + g.Intn(n-1)
		return strings.Join(fs[:i], "/") + pickS(g, "//", ",", " /", "/ ", "\\") + strings.Join(fs[i:], "/")
	default: // the other notation
		if sid {
			return e.ext()
		}
		return e.sid()
	}
	return strings.Join(fs, "/")
}

func pickS(g *Gen, xs ...string) string { return xs[g.Intn(len(xs))] }

// zooms outside 0..35 for the extended form (at most 62: above, the zoom drop can reach 63 and int64(math.Pow(2,|dz|)) saturates — the dispatch refuses such cases)
func hostileZoom(g *Gen) int64 { return g.Pick(36, 36, 37, 40, 61, 62, -1, -1, -2, -64) }

// the spatial form refuses every zoom outside 0..35 in the altitude-key conversion (no shift is taken): also the int64 extremes
func hostileSpatialZoom(g *Gen) int64 {
	return g.Pick(36, 36, 37, 40, 62, 63, 63, 64, 64, 65, 99, 255, 256, 291, -1, -1, -2, -64, 1<<62, -1<<63, 1<<63-1)
}

// non-canonical numerals that strconv.Atoi accepts ("+3", "007", "-0", "-007"): the SAME voxel, so the case stays inside the quantifier
func fancy(g *Gen, s string) string {
	fs := strings.Split(s, "/")
	changed := false
	for i, f := range fs {
		if changed && !g.Chance(0.4) {
			continue
		}
		neg := strings.HasPrefix(f, "-")
		d := strings.TrimPrefix(f, "-")
		sign := ""
		if neg {
			sign = "-"
		}
		switch g.Intn(4) {
		case 0:
			if !neg {
				fs[i] = "+" + d
			} else {
				fs[i] = "-0" + d
			}
		case 1:
			fs[i] = sign + "00" + d
		case 2:
			if d == "0" {
				fs[i] = pickS(g, "-0", "+0", "000", "-00")
			} else {
				fs[i] = sign + "0" + d
			}
		default:
			if !neg {
				fs[i] = "+00" + d
			} else {
				fs[i] = "-000" + d
			}
		}
		changed = true
	}
	return strings.Join(fs, "/")
}
func fancyLists(g *Gen, s1, s2 []string, tags *[]string) {
	if !g.Chance(0.07) || len(s1)+len(s2) == 0 {
		return
	}
	*tags = append(*tags, "non-canonical")
	for _, l := range [][]string{s1, s2} {
		for i := range l {
			if g.Chance(0.6) {
				l[i] = fancy(g, l[i])
			}
		}
	}
}

// a member outside the property's quantifier, near a voxel: malformed string, zoom outside 0..35, or an index outside the range of its zoom
// (negative x / y, x or y >= 2^h, |f| beyond 2^v, the int64 extremes). Only model/implementation agreement and the per-member fallback are
// checked on such cases; they are marked trivial. Extended zoom fields stay <= 62 (above, int64(math.Pow(2,|dz|)) saturates: refused by the dispatch).
func outsideMember(g *Gen, e vox, sid bool) (string, string) {
	switch k := g.Intn(20); {
	case k < 9:
		return malformedNear(g, e, sid), "malformed"
	case k < 13:
		if sid {
			e.h = hostileSpatialZoom(g)
			return e.sid(), "hostile-zoom"
		}
		switch g.Intn(3) {
		case 0:
			e.h = hostileZoom(g)
		case 1:
			e.v = hostileZoom(g)
		default:
			e.h, e.v = hostileZoom(g), hostileZoom(g)
		}
		return e.ext(), "hostile-zoom"
	}
	switch g.Intn(8) {
	case 0:
		e.x = -e.x - 1
	case 1:
		e.y += pow2(e.h) * (1 + g.Int63n(3))
	case 2:
		e.x, e.y = e.x+pow2(e.h), -1-g.Int63n(1<<20)
	case 3:
		e.x = -1 << 63
	case 4:
		if sid {
			e.y = 1<<63 - 1
		} else { // NOT MaxInt64 in the extended form: the loops `for v := min; v <= max; v++` of the zoom change never end there (reported defect)
			e.y = 1<<63 - 2
		}
	case 5:
		if sid {
			e.y = -e.y - 2
		} else {
			e.f = pow2(e.v) + g.Int63n(pow2(e.v)+1)
		}
	case 6:
		if sid {
			e.x = 1<<62 + e.x
		} else {
			e.f = -pow2(e.v) - 1 - g.Int63n(pow2(e.v)+1)
		}
	default:
		if sid {
			e.x, e.y = e.y-pow2(e.h), e.x+pow2(e.h)
		} else {
			e.f = g.Pick(-1<<63, 1<<63-2, -1<<62)
		}
	}
	if sid {
		return e.sid(), "xy-out-of-range"
	}
	return e.ext(), "index-out-of-range"
}

// with probability p: put one outside-the-quantifier member into one of the lists (replace a member; or insert when allowed). Reports whether it did.
func spoilOutside(g *Gen, p float64, s1, s2 *[]string, near vox, sid, insertOK bool, tags *[]string) bool {
	if !g.Chance(p) {
		return false
	}
	m, tag := outsideMember(g, near, sid)
	l := s1
	if g.Chance(0.5) {
		l = s2
	}
	if len(*l) == 0 && !insertOK {
		if l == s1 {
			l = s2
		} else {
			l = s1
		}
	}
	if len(*l) > 0 && (!insertOK || g.Chance(0.5)) {
		(*l)[g.Intn(len(*l))] = m
	} else if insertOK {
		i := g.Intn(len(*l) + 1)
		r := append([]string{}, (*l)[:i]...)
		r = append(r, m)
		*l = append(r, (*l)[i:]...)
	} else {
		return false
	}
	*tags = append(*tags, tag)
	return true
}

// ---------------------------------------------------------------------------------------------------------------------------------
// lists

func shuffle(g *Gen, l []vox) {
	g.R.Shuffle(len(l), func(i, j int) { l[i], l[j] = l[j], l[i] })
}

// a pair of voxel lists (0..5 each) in which related pairs, nested members in both orders, duplicates and empty sides are frequent
func listPair(g *Gen, spatial bool, tags *[]string) ([]vox, []vox) {
	n1, n2 := 1+g.Intn(5), 1+g.Intn(5)
	switch g.Intn(16) {
	case 0:
		n1 = 0
	case 1:
		n2 = 0
	case 2:
		n1, n2 = 0, 0
	}
	if g.Chance(0.03) { // long lists: deep shared prefixes, many siblings under one node (the extended form is quadratic: kept shorter)
		if spatial {
			n1, n2 = 20+g.Intn(41), 10+g.Intn(31)
		} else {
			n1, n2 = 10+g.Intn(16), 6+g.Intn(15)
		}
		*tags = append(*tags, "long-lists")
	}
	return listPairN(g, spatial, n1, n2, tags)
}
func listPairN(g *Gen, spatial bool, n1, n2 int, tags *[]string) ([]vox, []vox) {
	rv := func() vox {
		if spatial {
			return randSVox(g)
		}
		return randVox(g)
	}
	dv := func(a vox) vox {
		var t []string
		if spatial {
			return deriveSVox(g, a, &t)
		}
		return deriveVox(g, a, &t)
	}
	var l1, l2 []vox
	for len(l1) < n1 {
		switch {
		case len(l1) > 0 && g.Chance(0.45): // nested / related to an earlier member (ancestor after descendant or the reverse)
			l1 = append(l1, dv(l1[g.Intn(len(l1))]))
		case len(l1) > 0 && g.Chance(0.1): // duplicate
			l1 = append(l1, l1[g.Intn(len(l1))])
		default:
			l1 = append(l1, rv())
		}
	}
	for len(l2) < n2 {
		switch {
		case len(l1) > 0 && g.Chance(0.5):
			l2 = append(l2, dv(l1[g.Intn(len(l1))]))
		case len(l2) > 0 && g.Chance(0.2):
			l2 = append(l2, dv(l2[g.Intn(len(l2))]))
		default:
			l2 = append(l2, rv())
		}
	}
	if !spatial && n1 > 0 && n2 > 0 && g.Chance(0.15) { // a pair around a negative exact multiple (see negMultiplePair)
		var t []string
		a, b := negMultiplePair(g, &t)
		l1[g.Intn(n1)], l2[g.Intn(n2)] = a, b
	}
	if g.Chance(0.3) {
		shuffle(g, l1)
	}
	if n1 == 0 {
		*tags = append(*tags, "empty-l1")
	}
	if n2 == 0 {
		*tags = append(*tags, "empty-l2")
	}
	return l1, l2
}

// the trap for "an ID already covered by the tree is not inserted": a descendant precedes its ancestor in the first list, and the second
// list meets the ancestor only (another descendant of the ancestor, or a sibling branch)
func nestedTrap(g *Gen, tags *[]string) ([]vox, []vox) {
	*tags = append(*tags, "child-before-parent")
	p := randSVox(g)
	for p.h > 30 {
		p = randSVox(g)
	}
	down := func(a vox, d int64, other *vox) vox { // a descendant d levels below; when other != nil, not related to *other
		for try := 0; ; try++ {
			c := vox{a.h + d, a.x<<uint(d) + g.Int63n(pow2(d)), a.y<<uint(d) + g.Int63n(pow2(d)), a.h + d, a.f<<uint(d) + g.Int63n(pow2(d))}
			if other == nil || !related(c, *other) || try > 20 {
				return c
			}
		}
	}
	dc := 1 + g.Int63n(35-p.h)
	if dc > 5 && g.Chance(0.7) {
		dc = 1 + g.Int63n(5)
	}
	c := down(p, dc, nil)
	dq := 1 + g.Int63n(35-p.h)
	if dq > 5 && g.Chance(0.7) {
		dq = 1 + g.Int63n(5)
	}
	q := down(p, dq, &c)
	l1 := []vox{c, p}
	switch g.Intn(4) {
	case 0: // a second descendant in front
		l1 = []vox{down(c, g.Int63n(35-c.h+1), nil), c, p}
		if l1[0].h > 35 {
			l1 = []vox{c, p}
		}
	case 1: // unrelated members around
		l1 = []vox{randSVox(g), c, p}
	case 2:
		l1 = []vox{c, randSVox(g), p, randSVox(g)}
	}
	l2 := []vox{q}
	if g.Chance(0.3) {
		l2 = []vox{randSVox(g), q}
	}
	return l1, l2
}

func exts(l []vox) []string {
	r := make([]string, len(l))
	for i, e := range l {
		r[i] = e.ext()
	}
	return r
}
func sids(l []vox) []string {
	r := make([]string, len(l))
	for i, e := range l {
		r[i] = e.sid()
	}
	return r
}

func featureTags(l1, l2 []vox, tags []string) []string {
	neg, fine, z0 := false, false, false
	for _, l := range [][]vox{l1, l2} {
		for _, e := range l {
			if e.f < 0 {
				neg = true
			}
			if e.v > 25 || e.h > 25 {
				fine = true
			}
			if e.v == 0 || e.h == 0 {
				z0 = true
			}
		}
	}
	if neg {
		tags = append(tags, "neg-f")
	}
	if fine {
		tags = append(tags, "zoom>25")
	}
	if z0 {
		tags = append(tags, "zoom0")
	}
	if anyRelated(l1, l2) {
		tags = append(tags, "related=yes")
	} else {
		tags = append(tags, "related=no")
	}
	return tags
}

func call(fn string, a, b w.Val) w.Val { return w.L(w.S(fn), a, b) }

// list lengths for the distribution tags: exact up to 6, then buckets
func lenBucket(n int) int {
	switch {
	case n <= 6:
		return n
	case n <= 12:
		return 12
	case n <= 30:
		return 30
	}
	return 60
}

// ---------------------------------------------------------------------------------------------------------------------------------
// small scopes, exhaustively: every pair of extended IDs with h <= 1 and v <= 1 (thorough: v <= 2) through both argument orders and both
// implementations; every pair of spatial IDs with zoom <= 1 (thorough: <= 2), inside and outside the altitude domain

func exhaustive(thorough bool, emit func(fn string, tags []string, triv bool, args ...w.Val)) {
	vmax, zmax := int64(1), int64(1)
	if thorough {
		vmax, zmax = 2, 2
	}
	var es []vox
	for h := int64(0); h <= 1; h++ {
		for x := int64(0); x < pow2(h); x++ {
			for y := int64(0); y < pow2(h); y++ {
				for v := int64(0); v <= vmax; v++ {
					for f := -pow2(v); f < pow2(v); f++ {
						es = append(es, vox{h, x, y, v, f})
					}
				}
			}
		}
	}
	tags := []string{"exhaustive"}
	for _, a := range es {
		for _, b := range es {
			emit("OverlapBoth", tags, false, w.Strs([]string{a.ext()}), w.Strs([]string{b.ext()}))
		}
	}
	var ss []vox
	for z := int64(0); z <= zmax; z++ {
		for x := int64(0); x < pow2(z); x++ {
			for y := int64(0); y < pow2(z); y++ {
				for f := -pow2(z); f < pow2(z); f++ {
					ss = append(ss, vox{z, x, y, z, f})
				}
			}
		}
	}
	for _, a := range ss {
		for _, b := range ss {
			emit("CheckSpatialIdsOverlap", tags, false, w.S(a.sid()), w.S(b.sid()))
		}
	}
}

func init() {
	Scale["C05"] = 30000
	Registry["C05"] = func(r *run.Runner, g *Gen, n int) {
		r.Register(
			&run.Fn{Name: "CheckExtendedSpatialIdsOverlap", Invoke: func(a []w.Val) w.Val { return callExtPair(a[0], a[1]) }},
			&run.Fn{Name: "CheckExtendedSpatialIdsArrayOverlap", Invoke: func(a []w.Val) w.Val { return callExtArr(a[0], a[1]) }},
			&run.Fn{Name: "CheckSpatialIdsOverlap", Invoke: func(a []w.Val) w.Val { return callSpPair(a[0], a[1]) }},
			&run.Fn{Name: "CheckSpatialIdsArrayOverlap", Invoke: func(a []w.Val) w.Val { return callSpArr(a[0], a[1]) }},
			&run.Fn{Name: "getSpatialIdAttrs", Invoke: callAttrs},
			&run.Fn{Name: "OverlapBoth", Invoke: callBoth},
			&run.Fn{Name: "OverlapSequence", Invoke: callSeq},
			&run.Fn{Name: "RadixTree", Invoke: callTree},
			&run.Fn{Name: "RadixOps", Invoke: callRadixOps},
		)
		if n == 0 {
			return
		}
		emit := func(fn string, tags []string, triv bool, args ...w.Val) {
			r.Run(run.Case{Prop: "C05", Fn: fn, Tags: tags, Trivial: triv, Args: args})
		}
		exhaustive(g.Tier == "thorough", emit)
		// fixed witnesses first: the inputs on which independently seeded changes differ, and the repaired defects D1/D4/D5/D6
		fixedExt := [][2]string{{"16/58209/25805/17/3", "16/58209/25805/16/1"}, {"4/14/6/25/101", "5/28/12/24/50"}, {"10/909/403/30/-3", "10/909/403/28/-1"},
			{"1/0/0/2/-1", "1/0/0/1/0"}, {"1/0/0/2/-1", "1/0/0/1/-1"}, {"0/0/0/0/0", "35/34359738367/0/35/-34359738368"}, {"0/0/0/0/-1", "35/0/0/35/-1"},
			{"20/5/7/25/-2", "20/5/7/24/-1"}, {"20/5/7/25/-2", "20/5/7/24/-2"}, {"20/5/7/25/-8", "20/5/7/22/-1"}, {"20/5/7/25/-8", "20/5/7/22/-2"}}
		if os.Getenv("VERIF_C05_NOFIXED") != "" { // mutation self-test of the random generators alone
			fixedExt = nil
		}
		for _, p := range fixedExt {
			emit("OverlapBoth", []string{"fixed"}, false, w.Strs([]string{p[0]}), w.Strs([]string{p[1]}))
			emit("CheckExtendedSpatialIdsOverlap", []string{"fixed"}, false, w.S(p[0]), w.S(p[1]))
		}
		fixedSp := [][2][]string{{{"16/0/58198/25804", "13/0/7274/3225"}, {"16/0/58199/25804"}}, {{"16/-3/58199/25805", "13/-1/7274/3225"}, {"16/-8/58192/25800"}},
			{{"26/0/0/0"}, {"26/1/0/0"}}, {{}, {"3/0/0/0"}}, {{"3/0/0/0"}, {}}, {{}, {}}, {{"1/0/0/0"}, {"1/-1/0/0"}}, {{"0/0/0/0"}, {"0/0/0/0"}}, {{"1/b/0/0"}, {"1/0/0/0"}},
			{{"3/4/0/0"}, {"3/3/0/0"}}, {{"35/-17179869184/0/0"}, {"1/-1/0/0"}}, {{"35/17179869183/34359738367/34359738367"}, {"1/0/1/1"}}}
		if os.Getenv("VERIF_C05_NOFIXED") != "" {
			fixedSp = nil
		}
		for _, p := range fixedSp {
			emit("CheckSpatialIdsArrayOverlap", []string{"fixed"}, false, w.Strs(p[0]), w.Strs(p[1]))
			emit("CheckSpatialIdsArrayOverlap", []string{"fixed"}, false, w.Strs(p[1]), w.Strs(p[0]))
		}
		for i := 0; i < n; i++ {
			var tags []string
			k := g.Intn(100)
			switch {
			case k < 16: // extended pairwise form, both orders through OverlapBoth half of the time
				a := randVox(g)
				b := deriveVox(g, a, &tags)
				if g.Chance(0.15) {
					b = randVox(g)
					tags = append(tags, "independent")
				} else if g.Chance(0.2) {
					a, b = negMultiplePair(g, &tags)
				}
				tags = featureTags([]vox{a}, []vox{b}, tags)
				s1, s2 := []string{a.ext()}, []string{b.ext()}
				out := spoilOutside(g, 0.07, &s1, &s2, a, false, false, &tags)
				if !out && g.Chance(0.02) { // the very same string on both sides
					s2[0] = s1[0]
					tags = append(tags, "same-string")
				}
				fancyLists(g, s1, s2, &tags)
				if g.Chance(0.5) {
					emit("CheckExtendedSpatialIdsOverlap", tags, out, w.S(s1[0]), w.S(s2[0]))
				} else {
					emit("OverlapBoth", append(tags, "pair"), out, w.Strs(s1), w.Strs(s2))
				}
			case k < 30: // extended array form
				l1, l2 := listPair(g, false, &tags)
				tags = featureTags(l1, l2, tags)
				s1, s2 := exts(l1), exts(l2)
				out := spoilOutside(g, 0.08, &s1, &s2, randVox(g), false, true, &tags)
				fancyLists(g, s1, s2, &tags)
				tags = append(tags, Tag("len=%d,%d", lenBucket(len(s1)), lenBucket(len(s2))))
				emit("CheckExtendedSpatialIdsArrayOverlap", tags, out || len(s1) == 0 || len(s2) == 0, w.Strs(s1), w.Strs(s2))
			case k < 42: // spatial pairwise form
				a := randSVox(g)
				b := deriveSVox(g, a, &tags)
				if g.Chance(0.15) {
					b = randSVox(g)
					tags = append(tags, "independent")
				}
				out := false
				if g.Chance(0.08) { // a valid ID outside the altitude domain (zoom 0, |altitude| beyond 2^24 m): outside the quantifier, error expected
					if g.Chance(0.5) {
						a = outOfDomainSVox(g)
					} else {
						b = outOfDomainSVox(g)
					}
					tags = append(tags, "out-of-domain")
					out = true
				}
				tags = featureTags([]vox{a}, []vox{b}, tags)
				s1, s2 := []string{a.sid()}, []string{b.sid()}
				if spoilOutside(g, 0.09, &s1, &s2, a, true, false, &tags) {
					out = true
				} else if g.Chance(0.02) {
					s2[0] = s1[0]
					tags = append(tags, "same-string")
				}
				fancyLists(g, s1, s2, &tags)
				if g.Chance(0.5) {
					s1, s2 = s2, s1
				}
				emit("CheckSpatialIdsOverlap", tags, out, w.S(s1[0]), w.S(s2[0]))
			case k < 62: // spatial array form (radix tree): nested members in both orders, empty sides, out-of-domain members
				var l1, l2 []vox
				if g.Chance(0.3) {
					l1, l2 = nestedTrap(g, &tags)
				} else {
					l1, l2 = listPair(g, true, &tags)
				}
				out := false
				if g.Chance(0.07) {
					o := outOfDomainSVox(g)
					switch {
					case g.Chance(0.2): // nothing stored, the second list is still validated
						l1, l2 = nil, append(l2, o)
					case g.Chance(0.5) || len(l2) == 0:
						l1 = append(l1, o)
						shuffle(g, l1)
					default:
						l2[g.Intn(len(l2))] = o
					}
					tags = append(tags, "out-of-domain")
					out = true
				}
				tags = featureTags(l1, l2, tags)
				s1, s2 := sids(l1), sids(l2)
				if spoilOutside(g, 0.09, &s1, &s2, randSVox(g), true, true, &tags) {
					out = true
				}
				fancyLists(g, s1, s2, &tags)
				tags = append(tags, Tag("len=%d,%d", lenBucket(len(s1)), lenBucket(len(s2))))
				emit("CheckSpatialIdsArrayOverlap", tags, out || len(s1) == 0 || len(s2) == 0, w.Strs(s1), w.Strs(s2))
			case k < 82: // both argument orders, both implementations
				var l1, l2 []vox
				hv := g.Chance(0.6)
				if hv && g.Chance(0.3) {
					l1, l2 = nestedTrap(g, &tags)
				} else {
					l1, l2 = listPair(g, hv, &tags)
				}
				out := false
				if hv {
					tags = append(tags, "h=v")
					if g.Chance(0.06) && len(l1) > 0 {
						l1[g.Intn(len(l1))] = outOfDomainSVox(g)
						tags = append(tags, "out-of-domain") // valid as an extended ID: the two extended answers are still fully checked
					}
				}
				tags = featureTags(l1, l2, tags)
				s1, s2 := exts(l1), exts(l2)
				if spoilOutside(g, 0.05, &s1, &s2, randSVox(g), false, true, &tags) {
					out = true
				}
				fancyLists(g, s1, s2, &tags)
				tags = append(tags, Tag("len=%d,%d", lenBucket(len(s1)), lenBucket(len(s2))))
				emit("OverlapBoth", tags, out || len(s1) == 0 || len(s2) == 0, w.Strs(s1), w.Strs(s2))
			case k >= 85 && k < 88: // the radix-tree library by itself: batch form, and arbitrary operation sequences on one tree
				if g.Chance(0.5) {
					ks, qs := treeCase(g, &tags)
					emit("RadixTree", append(tags, "tree"), false, ks, qs)
				} else {
					ops := radixOpsCase(g, &tags)
					emit("RadixOps", append(tags, "tree-ops"), false, ops)
				}
			case k < 85: // the parser hook
				a := randSVox(g)
				s := a.sid()
				tags = []string{"well-formed"}
				triv := false
				switch g.Intn(5) {
				case 0:
					s = malformedNear(g, a, true)
					tags = []string{"malformed"}
					triv = true
				case 1: // not a valid ID, but four integers: the parser must return them unchanged
					s = SID(hostileSpatialZoom(g), g.Pick(-1<<63, 1<<63-1, g.Int63n(1<<40)-(1<<39)), g.Int63n(1<<40)-(1<<39), -g.Int63n(1<<40))
					tags = []string{"hostile-zoom"}
				case 2, 3:
					s = fancy(g, s)
					tags = []string{"non-canonical"}
				}
				emit("getSpatialIdAttrs", tags, triv, w.S(s))
			default: // related consecutive calls
				emit("OverlapSequence", []string{"sequence"}, false, sequence(g))
			}
		}
	}
}

// related consecutive calls: the same ID / list with one other argument changed, identical calls twice, the same lists permuted or swapped,
// the same voxels through the other implementation
func sequence(g *Gen) w.Val {
	// every history starts with the same two unrelated priming calls, so that a (shrunk) case replays identically in a fresh process:
	// whatever one-entry state the implementation keeps is set by them, not by the cases that happened to run before
	calls := w.List{
		call("CheckSpatialIdsArrayOverlap", w.Strs([]string{"1/0/0/0"}), w.Strs([]string{"1/0/1/1"})),
		call("CheckExtendedSpatialIdsOverlap", w.S("1/0/0/1/0"), w.S("1/1/1/1/0")),
	}
	var t []string
	spPair := func(x, y string) { calls = append(calls, call("CheckSpatialIdsOverlap", w.S(x), w.S(y))) }
	extPair := func(x, y string) { calls = append(calls, call("CheckExtendedSpatialIdsOverlap", w.S(x), w.S(y))) }
	spArr := func(x, y []string) { calls = append(calls, call("CheckSpatialIdsArrayOverlap", w.Strs(x), w.Strs(y))) }
	extArr := func(x, y []string) { calls = append(calls, call("CheckExtendedSpatialIdsArrayOverlap", w.Strs(x), w.Strs(y))) }
	switch g.Intn(11) {
	case 6: // the same indices and the same zoom DIFFERENCES at shifted absolute zooms (a memo keyed on index + zoom difference), both orders
		a := randVox(g)
		for a.h > 33 || a.v > 33 {
			a = randVox(g)
		}
		b := deriveVox(g, a, &t)
		for b.h > 33 || b.v > 33 {
			b = deriveVox(g, a, &t)
		}
		sh, sv := g.Pick(0, 1, 1, 2), g.Pick(0, 1, 1, 2)
		if sh == 0 && sv == 0 {
			sv = 1
		}
		a2, b2 := a, b
		a2.h, b2.h, a2.v, b2.v = a.h+sh, b.h+sh, a.v+sv, b.v+sv
		extPair(a.ext(), b.ext())
		extPair(b2.ext(), a2.ext())
		extPair(a2.ext(), b2.ext())
		extPair(b.ext(), a.ext())
		extPair(a2.ext(), b.ext())
		extArr([]string{a.ext(), b.ext()}, []string{b2.ext()})
		extArr([]string{a2.ext()}, []string{b.ext(), a.ext()})
		// spatial twin: same f', x, y one zoom further
		c := randSVox(g)
		for c.h > 33 {
			c = randSVox(g)
		}
		d := deriveSVox(g, c, &t)
		if d.h <= 34 {
			c2, d2 := c, d
			c2.h, c2.v, d2.h, d2.v = c.h+1, c.h+1, d.h+1, d.h+1
			spPair(c.sid(), d.sid())
			spPair(d2.sid(), c2.sid())
			spPair(c2.sid(), d.sid())
			spPair(c.sid(), d.sid())
		}
	case 7: // invalid-then-valid, valid-then-invalid, the identical invalid call repeated (a memo stored before validation)
		a := randSVox(g)
		b := deriveSVox(g, a, &t)
		o := outOfDomainSVox(g)
		bad := malformedNear(g, a, true)
		hz := a
		hz.h = hostileSpatialZoom(g) // the same f, x, y at a refused zoom
		steps := [][2]string{{o.sid(), b.sid()}, {o.sid(), b.sid()}, {a.sid(), b.sid()}, {a.sid(), o.sid()}, {a.sid(), o.sid()}, {a.sid(), b.sid()},
			{hz.sid(), b.sid()}, {a.sid(), b.sid()}, {hz.sid(), b.sid()}, {hz.sid(), b.sid()}, {bad, b.sid()}, {bad, b.sid()}, {a.sid(), b.sid()}, {b.sid(), bad}, {b.sid(), bad}, {b.sid(), a.sid()}}
		lo, n := g.Intn(4), 6+g.Intn(10)
		for i := lo; i < len(steps) && i < lo+n; i++ {
			spPair(steps[i][0], steps[i][1])
		}
		// the same in the extended form
		e := randVox(g)
		f := deriveVox(g, e, &t)
		eb := malformedNear(g, e, false)
		ez := e
		ez.v = hostileZoom(g)
		for _, p := range [][2]string{{eb, f.ext()}, {eb, f.ext()}, {e.ext(), f.ext()}, {ez.ext(), f.ext()}, {ez.ext(), f.ext()}, {e.ext(), f.ext()}, {f.ext(), eb}, {f.ext(), e.ext()}} {
			extPair(p[0], p[1])
		}
	case 8: // poisoning: a call that ends in an error after it has stored keys, then calls that must not see them
		l1, _ := listPair(g, true, &t)
		if len(l1) == 0 {
			l1 = []vox{randSVox(g)}
		}
		var below []vox // descendants / relatives of members of l1
		for i := 0; i < 1+g.Intn(3); i++ {
			below = append(below, deriveSVox(g, l1[g.Intn(len(l1))], &t))
		}
		var other []vox // a first list of its own
		for i := 0; i < 1+g.Intn(3); i++ {
			other = append(other, randSVox(g))
		}
		badTail := []string{pickS(g, outOfDomainSVox(g).sid(), malformedNear(g, l1[0], true), SID(hostileSpatialZoom(g), 0, 0, 0))}
		far := sids([]vox{randSVox(g)})
		spArr(sids(l1), append(append([]string{}, far...), badTail...)) // error (unless `far` happens to hit) after l1 was stored
		spArr(sids(other), sids(below))                               // must not see l1
		spArr(sids(l1), sids(below))
		spArr(append(sids(l1), badTail...), sids(below)) // error while storing the first list
		spArr(sids(other), sids(below))
		spArr(nil, sids(below))
		spArr(sids(other), sids(below))
		// extended twin: an error in the middle of the pair loop
		e1, e2 := listPair(g, false, &t)
		if len(e1) > 0 && len(e2) > 0 {
			spoiled := append(exts(e2), malformedNear(g, e2[0], false))
			extArr(exts(e1), spoiled)
			extArr(exts(e1), exts(e2))
			extArr(spoiled, exts(e1))
			extArr(exts(e2), exts(e1))
		}
	case 9: // the caller's buffers: same lengths, every member replaced (the invoker reuses the same backing arrays, see callSeq)
		l1, l2 := listPair(g, true, &t)
		if len(l1) == 0 {
			l1 = []vox{randSVox(g)}
		}
		if len(l2) == 0 {
			l2 = []vox{deriveSVox(g, l1[0], &t)}
		}
		n1 := make([]vox, len(l1))
		for i := range n1 {
			n1[i] = randSVox(g)
		}
		n2 := make([]vox, len(l2))
		for i := range n2 {
			n2[i] = deriveSVox(g, n1[g.Intn(len(n1))], &t)
		}
		spArr(sids(l1), sids(l2))
		spArr(sids(n1), sids(l2)) // same length as l1, other members, same second list
		spArr(sids(n1), sids(n2))
		spArr(sids(l1), sids(n2))
		spArr(sids(l1), sids(l2))
		spArr(sids(l1), sids(l2))
		extArr(exts(l1), exts(l2))
		extArr(exts(n1), exts(l2))
		extArr(exts(n1), exts(n2))
		extArr(exts(l1), exts(n2))
	case 10: // all four functions interleaved on related voxels, each call repeated once somewhere later
		a := randSVox(g)
		b := deriveSVox(g, a, &t)
		c := deriveSVox(g, b, &t)
		var mine w.List
		add := func(v w.Val) { mine = append(mine, v) }
		add(call("CheckSpatialIdsOverlap", w.S(a.sid()), w.S(b.sid())))
		add(call("CheckExtendedSpatialIdsOverlap", w.S(a.ext()), w.S(c.ext())))
		add(call("CheckSpatialIdsArrayOverlap", w.Strs(sids([]vox{a, c})), w.Strs(sids([]vox{b}))))
		add(call("CheckExtendedSpatialIdsArrayOverlap", w.Strs(exts([]vox{b})), w.Strs(exts([]vox{c, a}))))
		add(call("CheckSpatialIdsOverlap", w.S(c.sid()), w.S(a.sid())))
		add(call("CheckExtendedSpatialIdsOverlap", w.S(b.ext()), w.S(c.ext())))
		k := len(mine)
		for i := 0; i < k; i++ {
			mine = append(mine, mine[g.Intn(k)])
		}
		g.R.Shuffle(len(mine), func(i, j int) { mine[i], mine[j] = mine[j], mine[i] })
		calls = append(calls, mine...)
	case 0: // extended pair: the same first ID against variants of the second at other zooms, then repeated and swapped
		a := randVox(g)
		b := deriveVox(g, a, &t)
		b2 := b
		if g.Chance(0.5) { // same horizontal part, other vertical zoom / index
			b2.v, b2.f = moveAxis(g, b.v, b.f, g.Pick(1, -1, 2, -2))
		} else {
			b2.h, b2.x = moveAxis(g, b.h, b.x, g.Pick(1, -1))
			_, b2.y = moveAxis(g, b.h, b.y, b2.h-b.h)
		}
		for _, p := range [][2]vox{{a, b}, {a, b2}, {a, b}, {b, a}, {b2, a}, {a, a}} {
			calls = append(calls, call("CheckExtendedSpatialIdsOverlap", w.S(p[0].ext()), w.S(p[1].ext())))
		}
	case 1: // spatial array: the same first list against different second lists, then the same call twice, then swapped
		l1, l2 := listPair(g, true, &t)
		if g.Chance(0.4) {
			l1, l2 = nestedTrap(g, &t)
		}
		_, l3 := listPair(g, true, &t)
		if len(l1) > 0 && len(l3) > 0 {
			l3[0] = deriveSVox(g, l1[g.Intn(len(l1))], &t)
		}
		for _, p := range [][2][]vox{{l1, l2}, {l1, l3}, {l1, l2}, {l2, l1}, {l3, l1}} {
			calls = append(calls, call("CheckSpatialIdsArrayOverlap", w.Strs(sids(p[0])), w.Strs(sids(p[1]))))
		}
	case 2: // spatial array: the same second list, first list permuted / extended by one member / emptied
		l1, l2 := listPair(g, true, &t)
		p1 := append([]vox{}, l1...)
		shuffle(g, p1)
		more := append(append([]vox{}, l1...), randSVox(g))
		if len(l2) > 0 {
			more[len(more)-1] = deriveSVox(g, l2[g.Intn(len(l2))], &t)
		}
		// same length and same first member, another member replaced (a cache keyed by part of the first list)
		alt := append([]vox{}, l1...)
		if len(alt) < 2 {
			alt = append(alt, randSVox(g))
			l1 = append(l1, randSVox(g))
			if len(alt) < 2 {
				alt = append(alt, randSVox(g))
				l1 = append(l1, randSVox(g))
			}
		}
		if len(l2) > 0 && g.Chance(0.8) {
			alt[1+g.Intn(len(alt)-1)] = deriveSVox(g, l2[g.Intn(len(l2))], &t)
		} else {
			alt[1+g.Intn(len(alt)-1)] = randSVox(g)
		}
		for _, p := range [][2][]vox{{l1, l2}, {alt, l2}, {p1, l2}, {more, l2}, {nil, l2}, {l1, l2}} {
			calls = append(calls, call("CheckSpatialIdsArrayOverlap", w.Strs(sids(p[0])), w.Strs(sids(p[1]))))
		}
	case 3: // extended array: same lists permuted, swapped, one member's zoom changed
		l1, l2 := listPair(g, false, &t)
		p1 := append([]vox{}, l1...)
		shuffle(g, p1)
		c2 := append([]vox{}, l2...)
		if len(c2) > 0 {
			i := g.Intn(len(c2))
			c2[i].v, c2[i].f = moveAxis(g, c2[i].v, c2[i].f, g.Pick(1, -1, 3, -3))
		}
		alt := append([]vox{}, l1...)
		if len(alt) >= 2 {
			if len(l2) > 0 && g.Chance(0.8) {
				alt[1+g.Intn(len(alt)-1)] = deriveVox(g, l2[g.Intn(len(l2))], &t)
			} else {
				alt[1+g.Intn(len(alt)-1)] = randVox(g)
			}
		}
		for _, p := range [][2][]vox{{l1, l2}, {alt, l2}, {p1, l2}, {l1, c2}, {l2, l1}, {l1, l2}} {
			calls = append(calls, call("CheckExtendedSpatialIdsArrayOverlap", w.Strs(exts(p[0])), w.Strs(exts(p[1]))))
		}
	case 4: // the same voxels through both implementations, alternating
		a := randSVox(g)
		b := deriveSVox(g, a, &t)
		c := deriveSVox(g, a, &t)
		calls = append(calls,
			call("CheckSpatialIdsOverlap", w.S(a.sid()), w.S(b.sid())), call("CheckExtendedSpatialIdsOverlap", w.S(a.ext()), w.S(b.ext())),
			call("CheckSpatialIdsOverlap", w.S(a.sid()), w.S(c.sid())), call("CheckExtendedSpatialIdsOverlap", w.S(a.ext()), w.S(c.ext())),
			call("CheckSpatialIdsOverlap", w.S(c.sid()), w.S(a.sid())), call("CheckSpatialIdsOverlap", w.S(a.sid()), w.S(b.sid())))
	default: // spatial pair: same x/y/zoom, other f (also outside the altitude domain), then the first call again
		a := randSVox(g)
		b := deriveSVox(g, a, &t)
		b2 := b
		b2.f = b.f ^ 1 // neighbour in f
		if b2.f >= pow2(b.h-1) || b2.f < -pow2(b.h-1) {
			b2.f = b.f
		}
		o := outOfDomainSVox(g)
		o.x, o.y = o.x&(pow2(o.h)-1), o.y&(pow2(o.h)-1)
		// the same vertical index at a neighbouring zoom (a conversion cache keyed by the index alone)
		b3 := b
		if b.h < 35 && g.Chance(0.5) {
			b3.h, b3.v, b3.x, b3.y = b.h+1, b.h+1, b.x<<1+g.Int63n(2), b.y<<1+g.Int63n(2)
		} else if b.h > 1 && b.f >= -pow2(b.h-2) && b.f < pow2(b.h-2) {
			b3.h, b3.v, b3.x, b3.y = b.h-1, b.h-1, b.x>>1, b.y>>1
		}
		for _, p := range [][2]vox{{a, b}, {a, b3}, {a, b2}, {a, o}, {a, b}, {b, a}, {b3, a}} {
			calls = append(calls, call("CheckSpatialIdsOverlap", w.S(p[0].sid()), w.S(p[1].sid())))
		}
	}
	return calls
}
